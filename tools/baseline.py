#!/venv/bin/python
"""Run /repo's pinned test suite (guard off) and compare with BASELINE.json's stable_pass list.
Exit 0 iff every stable test still passes."""
import json, subprocess, sys, tempfile, os, xml.etree.ElementTree as ET
base = json.load(open('/root/.vp/BASELINE.json'))
with tempfile.TemporaryDirectory() as d:
    x = os.path.join(d, 'j.xml')
    env = dict(os.environ); env.pop('THERMOSTEAM_VERIF', None)
    r = subprocess.run(['/venv/bin/python', '-m', 'pytest', '-ra', '-q', '-p', 'no:cacheprovider', '--timeout=900',
                        '--continue-on-collection-errors', f'--junitxml={x}'], cwd=os.environ.get('BASELINE_REPO', '/repo'), env=env,
                       stdout=subprocess.PIPE, stderr=subprocess.STDOUT, text=True)
    passed = set()
    for tc in ET.parse(x).getroot().iter('testcase'):
        ok = not any(c.tag in ('failure', 'error', 'skipped') for c in tc)
        if ok: passed.add(f"{tc.get('classname')}::{tc.get('name')}")
missing = [t for t in base['stable_pass'] if t not in passed]
print(f'passed={len(passed)} stable={len(base["stable_pass"])} missing={len(missing)}')
for m in missing: print('  MISSING', m)
print(r.stdout[-600:] if missing else '')
sys.exit(1 if missing else 0)
