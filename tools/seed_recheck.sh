#!/bin/bash
# tools/seed_recheck.sh <seed-id>   — re-run the current quick check of the seed's property against /repo HEAD + the seeded patch.
# Writes seeded/<id>/recheck.json {head, applies, rc, caught, caught_with_failing_input, violation_lines}.
set -u
ID="$1"; V="$(cd "$(dirname "$0")/.." && pwd)"; D="$V/seeded/$ID"; PID="${ID%%-*}"
WT="/tmp/recheck_$ID"; rm -rf "$WT"; git -C /repo worktree prune
git -C /repo worktree add --detach "$WT" HEAD >/dev/null 2>&1 || { echo "$ID: cannot create worktree"; exit 2; }
HEAD=$(git -C /repo rev-parse --short HEAD)
P="$D/patch.diff"; [ -f "$D/patch_rebased.diff" ] && P="$D/patch_rebased.diff"
if ( cd "$WT" && git apply "$P" 2>/dev/null ); then APPLIES=true; else APPLIES=false; fi
RC=-1; LOG="$D/recheck_quick.log"
if $APPLIES; then ( cd "$V" && VERIF_REPO="$WT" ./check "$PID" --tier quick --no-lean > "$LOG" 2>&1 ); RC=$?; fi
python3 - "$D" "$HEAD" "$APPLIES" "$RC" <<'PY'
import json, sys, os
d, head, applies, rc = sys.argv[1:5]
viol = []
if os.path.exists(os.path.join(d, 'recheck_quick.log')) and applies == 'true':
    viol = [l for l in open(os.path.join(d, 'recheck_quick.log')).read().splitlines() if l.startswith('VIOLATION')]
res = {'repo_head': head, 'patch_applies': applies == 'true', 'rc': int(rc), 'caught': int(rc) == 1 and bool(viol),
       'caught_with_failing_input': int(rc) == 1 and any('no-failing-input-found' not in v for v in viol), 'violation_lines': viol[:12]}
json.dump(res, open(os.path.join(d, 'recheck.json'), 'w'), indent=1)
print(os.path.basename(d), 'applies' if res['patch_applies'] else 'STALE-PATCH', 'caught' if res['caught'] else 'MISSED', res['caught_with_failing_input'])
PY
git -C /repo worktree remove --force "$WT" >/dev/null 2>&1; rm -rf "$WT"
