#!/usr/bin/env python3
"""Numbers for DESIGN §12.6: per round and overall, from seeded/*/meta.json and recheck.json."""
import json, glob, os, collections
R = os.path.dirname(os.path.dirname(os.path.abspath(__file__)))
rows = []
for f in sorted(glob.glob(f'{R}/seeded/*/meta.json')):
    d = os.path.dirname(f); sid = os.path.basename(d); m = json.load(open(f))
    try: rc = json.load(open(d + '/recheck.json'))
    except Exception: rc = None
    first = 'input' if m['check']['caught_with_failing_input'] else ('noinput' if m['check']['caught'] else 'missed')
    if rc is None: now = 'not-rechecked'
    elif not rc['patch_applies']: now = 'stale'
    elif rc['caught_with_failing_input']: now = 'input'
    elif rc['caught']: now = 'noinput'
    else: now = 'missed'
    cc = m.get('cross_check') or {}
    rows.append((sid, first, now, m.get('disposition', ''), cc.get('by_property', ''), (rc or {}).get('repo_head', '')))
print('total', len(rows))
print('first run :', dict(collections.Counter(r[1] for r in rows)))
print('re-check  :', dict(collections.Counter(r[2] for r in rows)))
for r in rows:
    if r[2] != 'input': print(' ', r[0], r[2], '| cross:', r[4] or '-', '|', r[3][:110])
