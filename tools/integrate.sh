#!/bin/bash
# tools/integrate.sh <seed> PID...  — after a delivery: regenerate roots, build, re-lock the statements, run the checks
cd "$(dirname "$0")/.." || exit 2
seed=$1; shift
tools/gen_lean_roots.py | tail -1
( cd lean && lake build driver ThermoVerif 2>&1 | grep "error\|Build completed" )
tools/lock_theorems.py "$@" | tail -n $#
for p in "$@"; do ./check $p --seed $seed 2>&1 | grep -v "^KNOWN" | tail -3 | cut -c1-260; done
