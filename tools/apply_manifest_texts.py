#!/usr/bin/env python3
"""tools/apply_manifest_texts.py — re-register every check from manifest_texts/Cxx.json (text, note, technique)."""
import json, glob, subprocess, os
os.chdir('/verif')
for f in sorted(glob.glob('manifest_texts/C??.json')):
    d = json.load(open(f)); pid = os.path.basename(f)[:3]
    subprocess.run(['tools/manifest_add.py', pid, d['text'], d['note'], d['technique']], check=True, stdout=subprocess.DEVNULL)
print('applied', len(glob.glob('manifest_texts/C??.json')))
