#!/venv/bin/python
"""tools/lock_theorems.py [PID ...] — record the names and statement hashes of the property theorems as they are now
(lean/theorems.lock.json).  Run after reviewing a delivery; ./check then reports a theorem that disappears or whose
statement changes as a broken obligation."""
import sys, json, os
ROOT = os.path.dirname(os.path.dirname(os.path.abspath(__file__)))      # works in a scratch copy too
sys.path.insert(0, ROOT)
from harness import core
pids = [a.upper() for a in sys.argv[1:]] or [f'C{i:02d}' for i in range(1, 21)]
lock = json.loads(core.LOCK.read_text()) if core.LOCK.exists() else {}
for pid in pids:
    src = open(f'{ROOT}/harness/props/{pid.lower()}.py').read()
    import re
    m = re.search(r'^LEAN_MODULES\s*=\s*(\[.*?\])', src, re.S | re.M)
    modules = eval(m.group(1))
    old = lock.pop(pid, None)
    core.LOCK.write_text(json.dumps(lock, indent=1, sort_keys=True))     # audit without the old lock for this pid
    res = core.lean_obligations(pid, modules, 'quick', lambda *a: None)
    if res['problems']:
        print(pid, 'NOT locked:', res['problems'][:3]);
        if old is not None: lock[pid] = old
    else:
        lock[pid] = dict(res['statements']); lock[pid]['__definitions__'] = res['definitions_hash']
        print(pid, 'locked', len(res['statements']), 'theorems')
    core.LOCK.write_text(json.dumps(lock, indent=1, sort_keys=True))
