#!/bin/bash
# tools/apply_fix.sh fixes_proposed/Cxx-n.md "fix: message"   — extract the ```diff block, apply to /repo, commit
set -e
MD="$1"; MSG="$2"
TMP=$(mktemp)
awk '/^```diff/{f=1;next} /^```/{if(f){f=0}} f' "$MD" > "$TMP"
cd /repo
git diff --quiet || { echo "/repo has uncommitted changes"; exit 2; }
patch -p1 --no-backup-if-mismatch < "$TMP"
rm -f "$TMP"
find . -name "*.orig" -newer "$MD" -delete 2>/dev/null || true
git status --short | grep -v '^??' || true
git commit -qam "$MSG"
git log --oneline | head -1
