#!/usr/bin/env python3
"""Regenerate the generated tables of DESIGN.md §12 (between <!-- BEGIN:x --> / <!-- END:x --> markers) from
known_findings.jsonl, seeded/*/meta.json, MANIFEST.json and evidence/*.json."""
import json, glob, os, re
R = os.path.dirname(os.path.dirname(os.path.abspath(__file__)))
kf = [json.loads(l) for l in open(f'{R}/known_findings.jsonl') if l.strip() and not l.startswith('#')]
def esc(s): return s.replace('|', '\\|').replace('\n', ' ')
fixed = ['| property | commit | what failed before the repair |', '|---|---|---|']
for d in sorted([d for d in kf if d['status'] == 'fixed'], key=lambda d: d['property']):
    fixed.append(f"| {d['property']} | {d.get('commit','')} | {esc(d['what'])} |")
known = ['| property | signature | what fails | witness (protocol ops) |', '|---|---|---|---|']
for d in sorted([d for d in kf if d['status'] == 'known'], key=lambda d: d['property']):
    w = '; '.join(d.get('witness', {}).get('ops', []))[:160]
    known.append(f"| {d['property']} | `{d['signature']}` | {esc(d['what'])[:420]} | `{esc(w)}` |")
seeds = ['| seed | property | what the change does (agent\'s words) | needs, to manifest | demo clean/patched | suite ok | caught by quick check when first verified | with failing input | re-check against the current tree and checks |', '|---|---|---|---|---|---|---|---|---|']
for f in sorted(glob.glob(f'{R}/seeded/*/meta.json')):
    m = json.load(open(f)); sid = os.path.basename(os.path.dirname(f)); am = m.get('agent_meta', {})
    c = m['confirmed']; k = m['check']
    try:
        rc = json.load(open(os.path.join(os.path.dirname(f), 'recheck.json')))
        if rc.get('disposition') or m.get('disposition'): rtxt = rc.get('disposition') or m['disposition']
        elif not rc['patch_applies']: rtxt = 'stale patch'
        else: rtxt = ('caught' + (' with failing input' if rc['caught_with_failing_input'] else ' (no failing input)')) if rc['caught'] else 'MISSED'
        rtxt += f" (/repo {rc['repo_head']})"
    except Exception:
        rtxt = '–'
    cc = m.get('cross_check')
    seeds.append(f"| {sid} | {m['property']} | {esc(str(am.get('what_it_breaks','')))[:260]} | {esc(str(am.get('needs_to_manifest','')))[:260]} | "
                 f"{c['demo_rc_clean']}/{c['demo_rc_patched']} | {'yes' if c['suite_stable_set_ok_with_patch'] else 'NO'} | "
                 f"{'yes' if k['caught'] else 'no'}{' (by ./check ' + cc['by_property'] + ')' if cc else ''} | {'yes' if k['caught_with_failing_input'] else 'no'} | {esc(rtxt)} |")
man = json.load(open(f'{R}/MANIFEST.json'))
cov = ['| property | theorems (obligations = discharged) | cases / protocol lines in the last quick run | known findings | what is decided |', '|---|---|---|---|---|']
def mt(pid):
    try: return json.load(open(f'{R}/manifest_texts/{pid}.json'))
    except Exception: return {}
outside = []
for c in man['checks']:
    pid = c['property_id']
    try:
        e = json.load(open(f'{R}/evidence/{pid}.json'))['coverage']
        row = f"{e['obligations']} = {e['discharged']} | {e['evaluations']} / {e['model_lines_compared']}"
    except Exception:
        row = '? | ?'
    nk = sum(1 for d in kf if d['status'] == 'known' and d['property'] == pid)
    cov.append(f"| {pid} | {row} | {nk} | {esc(mt(pid).get('design_row',''))} |")
    for o in mt(pid).get('outside', []): outside.append(f'* **{pid}** — {o}')
tables = {'fixed': '\n'.join(fixed), 'known': '\n'.join(known), 'seeds': '\n'.join(seeds), 'coverage': '\n'.join(cov), 'outside': '\n'.join(outside)}
p = f'{R}/DESIGN.md'
s = open(p).read()
for k, t in tables.items():
    pat = re.compile(rf'(<!-- BEGIN:{k} -->\n).*?(<!-- END:{k} -->)', re.S)
    if pat.search(s):
        s = pat.sub(lambda m: m.group(1) + t + '\n' + m.group(2), s)
    else:
        print('marker missing:', k)
open(p, 'w').write(s)
print({k: t.count('\n') - 1 for k, t in tables.items()})
