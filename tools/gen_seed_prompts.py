#!/usr/bin/env python3
"""Build the prompts for a new round of seeded changes.
usage: tools/gen_seed_prompts.py <round> <outdir> [PID…]
Each prompt = tools/prompts/seeder.md + the worktree path + the property text (from properties.jsonl)
+ the list of sites earlier seeders already used (from seeded/<PID>-*/meta.json).  Nothing else from /verif."""
import json, sys, pathlib, glob
V = pathlib.Path(__file__).resolve().parent.parent
rnd, out = sys.argv[1], pathlib.Path(sys.argv[2]); out.mkdir(parents=True, exist_ok=True)
props = [json.loads(l) for l in open(V/'properties.jsonl') if l.strip()]
want = sys.argv[3:] or [p['id'] for p in props]
head = (V/'tools/prompts/seeder.md').read_text()
HINT = ("ALREADY USED by earlier testers (choose DIFFERENT code sites and mechanisms; earlier testers have covered the obvious and many "
        "non-obvious sites, so dig deeper: read the anchored files end to end and look for (a) public methods and keyword arguments not "
        "mentioned below, (b) two-step interactions where an earlier call leaves state that a later call trusts, (c) boundary values exactly "
        "at a threshold used in the code, (d) alternative argument types the docstrings allow, (e) code paths taken only for particular class "
        "combinations (Stream vs MultiStream, Reaction vs ReactionItem, fixed vs variable size lists, ideal vs activity packages), (f) error "
        "paths that must reject but could silently accept, (g) helper functions in OTHER files that the anchored code calls):")
for p in props:
    pid = p['id']
    if pid not in want: continue
    t = [head, f"\nYOUR WORKTREE: /tmp/seed{rnd}_{pid} (already created; a detached git worktree at the library's current HEAD). IMPORTANT: put every "
         "script you run INSIDE your worktree and run it from the worktree root (a script in /tmp would import the library from another location).\n",
         f'PROPERTY (id {pid}, "{p.get("title","")}"):', p.get('statement',''), '']
    t += ['Quantified over: ' + p['quantifier']['text'], '']
    anchors = p['anchors']
    t.append('Anchored in (files): ' + ', '.join(anchors.get('files', [])))
    if anchors.get('mechanism'):
        t.append('Mechanisms that are meant to make it hold:')
        for m in anchors['mechanism']:
            t.append(f"  - {m.get('name','')}  [{m.get('where','')}]")
    if anchors.get('observe_at'): t += ['', 'Observable at: ' + '; '.join(anchors['observe_at'])]
    t += ['', HINT]
    def key(d): return int(d.rsplit('-', 1)[1])
    for d in sorted(glob.glob(str(V/f'seeded/{pid}-*')), key=key):
        try: m = json.load(open(d + '/meta.json')).get('agent_meta', {})
        except Exception: continue
        ft = m.get('files_touched'); ft = ', '.join(ft) if isinstance(ft, list) else str(ft)
        t.append(f"  - [{ft[:160]}] {str(m.get('what_it_breaks',''))[:260]}")
    (out/f'full_{pid}.txt').write_text('\n'.join(t) + '\n')
print('wrote', len(want), 'prompts to', out)
