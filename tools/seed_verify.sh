#!/bin/bash
# tools/seed_verify.sh <worktree> <k> <PID> [<dest-id>]
# Confirms a seeded change produced by a sub-agent in <worktree> (files seed<k>.diff, seed<k>_demo.py, seed<k>.json):
#   demo passes on the clean worktree, patch applies, suite still passes its stable set, demo fails with the patch,
#   then runs ./check <PID> (quick) against the patched worktree and records everything under seeded/<dest-id>/.
set -u
WT="$1"; K="$2"; PID="$3"; DEST="${4:-$PID-$K}"
V="$(cd "$(dirname "$0")/.." && pwd)"
OUT="$V/seeded/$DEST"; mkdir -p "$OUT"
cd "$WT" || exit 2
git checkout -q -- . 
git checkout -q --detach "$(git -C /repo rev-parse HEAD)"
cp "seed$K.diff" "$OUT/patch.diff"; cp "seed${K}_demo.py" "$OUT/demo.py"
echo "== demo on clean tree"; /venv/bin/python -W ignore "seed${K}_demo.py" > "$OUT/demo_clean.log" 2>&1; DC=$?; echo "rc=$DC"
git apply "seed$K.diff" || { echo "PATCH DOES NOT APPLY"; exit 2; }
echo "== demo with patch"; /venv/bin/python -W ignore "seed${K}_demo.py" > "$OUT/demo_patched.log" 2>&1; DP=$?; echo "rc=$DP"
echo "== suite with patch"; BASELINE_REPO="$WT" "$V/tools/baseline.py" > "$OUT/suite_patched.log" 2>&1; SU=$?; tail -3 "$OUT/suite_patched.log"
echo "== check $PID quick against patched tree"
( cd "$V" && VERIF_REPO="$WT" ./check "$PID" --tier quick > "$OUT/check_quick.log" 2>&1 ); CK=$?
grep -E "^(VIOLATION|KNOWN-FINDING|#)" "$OUT/check_quick.log" | head -8; tail -1 "$OUT/check_quick.log"
for f in "$V"/replays/$PID-*.json; do [ -f "$f" ] && cp "$f" "$OUT/" ; done
git checkout -q -- .
python3 - "$OUT" "$WT/seed$K.json" "$PID" "$DC" "$DP" "$SU" "$CK" <<'PY'
import json, sys, os
out, meta, pid, dc, dp, su, ck = sys.argv[1:8]
try: m = json.load(open(meta))
except Exception as e: m = {'note': f'agent meta unreadable: {e}'}
log = open(os.path.join(out, 'check_quick.log')).read()
viol = [l for l in log.splitlines() if l.startswith('VIOLATION')]
res = {'property': pid, 'agent_meta': m,
       'confirmed': {'demo_rc_clean': int(dc), 'demo_rc_patched': int(dp), 'suite_stable_set_ok_with_patch': int(su) == 0},
       'check': {'cmd': f'VERIF_REPO=<patched worktree> ./check {pid} --tier quick', 'rc': int(ck), 'violation_lines': viol,
                 'caught': int(ck) == 1 and bool(viol),
                 'caught_with_failing_input': int(ck) == 1 and any('no-failing-input-found' not in v for v in viol)}}
json.dump(res, open(os.path.join(out, 'meta.json'), 'w'), indent=1)
print(json.dumps(res['confirmed']), json.dumps(res['check']['caught']), json.dumps(res['check']['caught_with_failing_input']))
PY
