#!/usr/bin/env python3
"""tools/manifest_add.py Cxx "<level text>" "<level note>" "<technique>" [design_ref]  — (re)register a check."""
import json, sys
pid, text, note, tech = sys.argv[1:5]
ref = sys.argv[5] if len(sys.argv) > 5 else f'DESIGN.md §7 {pid}'
m = json.load(open('/verif/MANIFEST.json'))
m['checks'] = [c for c in m['checks'] if c['property_id'] != pid]
m['not_applicable'] = [c for c in m.get('not_applicable', []) if c['property_id'] != pid]
m['checks'].append({
    'property_id': pid,
    'quick_cmd': f'./check {pid} --tier quick',
    'thorough_cmd': f'./check {pid} --tier thorough',
    'evidence_file': f'evidence/{pid}.json',
    'replay_cmd_template': f'./check {pid} --replay {{path}}',
    'engine': 'lean4+correspondence',
    'level_claimed': {'category': 'proof', 'text': text, 'design_ref': ref},
    'level_note': note,
    'technique': tech,
})
m['checks'].sort(key=lambda c: c['property_id'])
for e in m.get('engines', []):
    e['serves_properties'] = [c['property_id'] for c in m['checks']]
json.dump(m, open('/verif/MANIFEST.json', 'w'), indent=1)
print('registered', pid, '; checks:', [c['property_id'] for c in m['checks']])
