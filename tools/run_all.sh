#!/bin/bash
# tools/run_all.sh [tier] [seed...]  — run every registered check, print one line each
cd "$(dirname "$0")/.."
tier="${1:-quick}"; shift
seeds="${@:-20260927}"
for pid in $(python3 -c "import json; print(' '.join(c['property_id'] for c in json.load(open('MANIFEST.json'))['checks']))"); do
  for s in $seeds; do
    out=$(./check $pid --tier $tier --seed $s 2>&1); rc=$?
    echo "rc=$rc seed=$s $(echo "$out" | grep -E "^(VIOLATION|KNOWN-FINDING)" | tr '\n' ';') $(echo "$out" | tail -1)"
  done
done
