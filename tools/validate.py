#!/usr/bin/env python3
"""Validate MANIFEST.json and every evidence file against the schemas (uses the tooling venv)."""
import json, sys, glob, subprocess, os
if 'VT' not in os.environ:
    os.environ['VT'] = '1'
    sys.exit(subprocess.call(['python3-vt', __file__] + sys.argv[1:]))
import jsonschema
ok = True
root = os.path.dirname(os.path.dirname(os.path.abspath(__file__)))
m = json.load(open(f'{root}/MANIFEST.json'))
try:
    jsonschema.validate(m, json.load(open('/root/.vp/MANIFEST.schema.json'))); print('MANIFEST ok,', len(m['checks']), 'checks,', len(m.get('not_applicable', [])), 'n/a')
except Exception as e:
    ok = False; print('MANIFEST INVALID', str(e)[:500])
es = json.load(open('/root/.vp/EVIDENCE.schema.json'))
for f in sorted(glob.glob(f'{root}/evidence/*.json')):
    try:
        jsonschema.validate(json.load(open(f)), es); print('ok', os.path.basename(f))
    except Exception as e:
        ok = False; print('INVALID', f, str(e)[:300])
ids = {json.loads(l)['id'] for l in open(f'{root}/properties.jsonl')}
claimed = {c['property_id'] for c in m['checks']}; na = {c['property_id'] for c in m.get('not_applicable', [])}
if claimed & na or (claimed | na) != ids:
    ok = False; print('coverage mismatch: both', claimed & na, 'missing', ids - claimed - na)
sys.exit(0 if ok else 1)
