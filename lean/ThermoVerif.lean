import ThermoVerif.Model.Network
import ThermoVerif.Model.PropCache
import ThermoVerif.Props.C14
import ThermoVerif.Props.C18
