import ThermoVerif.Model.Network
import ThermoVerif.Props.C18
