import ThermoVerif.Model.Network
