import ThermoVerif.Model.FreeEnergy
import Driver.Util
/-
Line protocol for C07 (pure-component and mixture H/S).  Everything is evaluated in `Float` through the SAME
generic definitions the theorems are about (Generated/FreeEnergy.lean, Model/FreeEnergy.lean).

  env <R> <T_ref> <P_ref> <H_ref>                 constants of the module / of Chemical
  tab <s|l|g> <I|J> <a> <b> <v>                   the heat capacity of that phase answers I a b (J a b) = v
                                                   (values measured on the real Cn object; unknown pair → NaN)
  poly <s|l|g> <a0> <a1> <a2>                     the heat capacity of that phase is a0 + a1 T + a2 T² (closed-form I, J)
  init <ref> <locked|-> <hasS> <hasL> <hasG> <Tm> <Tb> <Hfus> <Sfus|auto> <HvapAtTb> <S0>   run `_init_energies`
                                                   (`auto`: Sfus = `initSfus Hfus Tm`, i.e. `_init_data` is modelled too)
  wired <H|S> <s|l|g>                             functor class and named data of that phase's functor
  H <s|l|g> <T> <P>   /   S <s|l|g> <T> <P>       chemical.H(phase, T, P) / chemical.S(phase, T, P)
  fn <Functor> <T> <P> par=value ...              one generated functor on explicit parameters (Cn parameters: par=s|l|g)
  sig <Functor>                                   `TP|T par,par,...`   (signature table of the translator)
  builder <Builder>                               `var s l g`          (builder tables of the translator)
  sfus <Hfus> <Tm>                                `_init_data`'s Sfus from the stored Hfus, Tm
  sfusedit <Sfus> <Hfus> <Tm> <Hfus'> <Tm'>       Sfus after the Tm / Hfus setter (values before → after the edit)
  phaseref <Tm> <Tb>                              `_set_phase_ref` without an explicit phase (uses T_ref of `env`)
  mix <n,n,...> <v,v,...>                         IdealTPMixtureModel / IdealTMixtureModel
  mixS <n,n,...> <s,s,...>                        Mixture.S → IdealEntropyModel
  xsum <v,v,...>                                  Mixture.xH / xS / xCn
  mixx <0|1> <n,..> <h,..> <hex,..>               Mixture.H with include_excess_energies = flag
  mixSx <0|1> <n,..> <s,..> <sex,..>              Mixture.S with include_excess_energies = flag
  Hforce|Sforce <0|1> <Tc> <s|l|g> <T> <P>        chemical.H / .S with PhaseTPHandle.force_gas_critical_phase = flag
Numbers are `b<bits>` (or decimals); `none` is Python's None.
-/
namespace Driver.C07
open ThermoVerif.FreeEnergy Driver

structure St where
  R : Float := 8.3144598
  Tref : Float := 298.15
  Pref : Float := 101325.0
  Href : Float := 0.0
  /-- (phase, isJ, a, b, value) -/
  tabs : List (Phase × Bool × Float × Float × Float) := []
  polys : List (Phase × Float × Float × Float) := []
  chem : Option (ChemIn Float) := none

def nan : Float := 0.0 / 0.0

def St.env (st : St) : Env Float := ⟨Float.log, st.R, fun x => x == 0.0, fun a b => a ≤ b⟩

def St.heatCap (st : St) (p : Phase) : HeatCap Float :=
  match st.polys.find? (fun e => e.1 == p) with
  | some (_, a0, a1, a2) =>
    { I := fun x y => a0 * (y - x) + a1 * (y * y - x * x) / 2.0 + a2 * (y * y * y - x * x * x) / 3.0
      J := fun x y => a0 * Float.log (y / x) + a1 * (y - x) + a2 * (y * y - x * x) / 2.0 }
  | none =>
    let look (isJ : Bool) (x y : Float) : Float :=
      match st.tabs.find? (fun e => e.1 == p && e.2.1 == isJ && e.2.2.1.toBits == x.toBits && e.2.2.2.1.toBits == y.toBits) with
      | some e => e.2.2.2.2
      | none => nan
    { I := look false, J := look true }

/-- phase labels as the handles resolve them (`S` and `L` are aliases of `s` and `l`) -/
def parsePhase? (s : String) : Option Phase := phaseOfLabel s

def parseOpt? (s : String) : Option (Option Float) :=
  if s == "none" then some none else (parseFloat? s).map some

def parseBool? : String → Option Bool
  | "1" => some true | "0" => some false | _ => none

def showOpt : Option Float → String
  | none => "none"
  | some x => showFloat x

def showRes : Except Err Float → String
  | .ok x => showFloat x
  | .error .typeError => "err:TypeError"

def parseList? (s : String) : Option (List Float) :=
  (splitComma s).mapM parseFloat?

def fnOfName? (n : String) : Option Fn := Fn.all.find? (fun f => f.name == n)
def parOfName? (n : String) : Option Par := Par.all.find? (fun p => p.name == n)
def builderOfName? (n : String) : Option Builder := Builder.all.find? (fun b => b.name == n)

def showInst (i : Inst Float) : String :=
  let ps := i.fn.params.zip i.data
  i.fn.name ++ String.join (ps.map fun (p, a) =>
    " " ++ p.name ++ "=" ++ (match a with | .cn _ t => "Cn." ++ t.name | .val v => showOpt v))
  ++ (if i.fn.params.length == i.data.length then "" else s!" ARITY({i.fn.params.length},{i.data.length})")

def St.energies (st : St) : Option (Energies Float) :=
  st.chem.map fun c => initEnergies st.env (st.heatCap .s) (st.heatCap .l) (st.heatCap .g) c

def step (st : St) (line : String) : St × String :=
  match splitWs line with
  | ["env", r, a, b, c] =>
    match parseFloat? r, parseFloat? a, parseFloat? b, parseFloat? c with
    | some r, some a, some b, some c => ({ st with R := r, Tref := a, Pref := b, Href := c }, "ok")
    | _, _, _, _ => (st, "bad-op")
  | ["tab", p, k, a, b, v] =>
    match parsePhase? p, (if k == "I" then some false else if k == "J" then some true else none),
          parseFloat? a, parseFloat? b, parseFloat? v with
    | some p, some k, some a, some b, some v => ({ st with tabs := (p, k, a, b, v) :: st.tabs }, "ok")
    | _, _, _, _, _ => (st, "bad-op")
  | ["poly", p, a0, a1, a2] =>
    match parsePhase? p, parseFloat? a0, parseFloat? a1, parseFloat? a2 with
    | some p, some a0, some a1, some a2 => ({ st with polys := (p, a0, a1, a2) :: st.polys }, "ok")
    | _, _, _, _ => (st, "bad-op")
  | ["init", r, lk, hs, hl, hg, tm, tb, hfus, sfus, hvap, s0] =>
    match parsePhase? r, (if lk == "-" then some none else (parsePhase? lk).map some),
          parseBool? hs, parseBool? hl, parseBool? hg,
          parseOpt? tm, parseOpt? tb, parseOpt? hfus,
          -- `auto`: the chemical was built by `_init_data`; the MODEL derives Sfus from the stored Hfus and Tm
          (if sfus == "auto" then (match parseOpt? hfus, parseOpt? tm with
                                   | some h, some t => some (initSfus st.env h t) | _, _ => none)
           else parseOpt? sfus),
          parseOpt? hvap, parseOpt? s0 with
    | some r, some lk, some hs, some hl, some hg, some tm, some tb, some hfus, some sfus, some hvap, some s0 =>
      let c : ChemIn Float := { phaseRef := r, locked := lk, hasS := hs, hasL := hl, hasG := hg, Tm := tm, Tb := tb,
                                Hfus := hfus, Sfus := sfus, HvapAtTb := hvap, S0 := s0,
                                T_ref := st.Tref, P_ref := st.Pref, H_ref := st.Href }
      let st' := { st with chem := some c }
      (st', match st'.energies with
            | some .none => "none" | some (.locked ..) => "locked" | some (.handles ..) => "handles" | none => "bad-op")
    | _, _, _, _, _, _, _, _, _, _, _ => (st, "bad-op")
  | ["wired", k, p] =>
    match st.energies, parsePhase? p, (k == "H" || k == "S") with
    | some w, some p, true =>
      (st, match w with
        | .none => "none"
        | .locked h s => showInst (if k == "H" then h else s)
        | .handles hs hl hg ss sl sg =>
          showInst (match k, p with
            | "H", .s => hs | "H", .l => hl | "H", .g => hg
            | _, .s => ss | _, .l => sl | _, .g => sg))
    | _, _, _ => (st, "bad-op")
  | [k, p, t, pr] =>
    if k == "H" || k == "S" then
      match st.energies, parsePhase? p, parseFloat? t, parseFloat? pr with
      | some w, some p, some t, some pr =>
        (st, showRes (if k == "H" then w.H st.env p t pr else w.S st.env p t pr))
      | _, _, _, _ => (st, "bad-op")
    else (st, "bad-op")
  | "fn" :: name :: t :: pr :: kvs =>
    match fnOfName? name, parseFloat? t, parseFloat? pr with
    | some f, some t, some pr =>
      let kv : Option (List (Par × String)) := kvs.mapM fun s =>
        match splitOn1 s '=' with
        | [k, v] => (parOfName? k).map fun p => (p, v)
        | _ => none
      match kv with
      | none => (st, "bad-op")
      | some kv =>
        let cn (p : Par) : Option (HeatCap Float) := (kv.lookup p).bind fun v => (parsePhase? v).map st.heatCap
        let vl (p : Par) : Option Float := (kv.lookup p).bind fun v => (parseOpt? v).bind id
        (st, match call st.env f t pr cn vl with | some x => showFloat x | none => "err:TypeError")
    | _, _, _ => (st, "bad-op")
  | ["sig", name] =>
    match fnOfName? name with
    | some f => (st, (if f.takesP then "TP " else "T ") ++ joinWith "," (f.params.map Par.name) ++ " var=" ++ f.var)
    | none => (st, "unknown-functor")
  | ["builder", name] =>
    match builderOfName? name with
    | some b => (st, s!"{b.var} {b.s.name} {b.l.name} {b.g.name}")
    | none => (st, "unknown-builder")
  | ["phaseref", a, b] =>
    match parseOpt? a, parseOpt? b with
    | some a, some b => (st, (defaultPhaseRef st.env st.Tref a b).name)
    | _, _ => (st, "bad-op")
  | ["sfus", a, b] =>
    match parseOpt? a, parseOpt? b with
    | some a, some b => (st, showOpt (initSfus st.env a b))
    | _, _ => (st, "bad-op")
  | ["mix", ns, vs] =>
    match parseList? ns, parseList? vs with
    | some ns, some vs => if ns.length == vs.length then (st, showFloat (idealMix st.env ns vs)) else (st, "bad-op")
    | _, _ => (st, "bad-op")
  | ["mixS", ns, vs] =>
    match parseList? ns, parseList? vs with
    | some ns, some vs => if ns.length == vs.length then (st, showFloat (mixtureS st.env ns vs)) else (st, "bad-op")
    | _, _ => (st, "bad-op")
  | [op, incl, ns, vs, xs] =>
    match (if op == "mixx" then some true else if op == "mixSx" then some false else none),
          parseBool? incl, parseList? ns, parseList? vs, parseList? xs with
    | some isH, some incl, some ns, some vs, some xs =>
      if ns.length == vs.length && ns.length == xs.length then
        (st, showFloat (if isH then mixtureHx st.env incl ns vs xs else mixtureSx st.env incl ns vs xs))
      else (st, "bad-op")
    | _, _, _, _, _ => (st, "bad-op")
  | ["sfusedit", a, b, c, d, e] =>
    match parseOpt? a, parseOpt? b, parseOpt? c, parseOpt? d, parseOpt? e with
    | some a, some b, some c, some d, some e => (st, showOpt (sfusAfterEdit st.env a b c d e))
    | _, _, _, _, _ => (st, "bad-op")
  | [op, force, tc, p, t, pr] =>
    if op == "Hforce" || op == "Sforce" then
      match st.energies, parseBool? force, parseFloat? tc, parsePhase? p, parseFloat? t, parseFloat? pr with
      | some w, some force, some tc, some p, some t, some pr =>
        (st, showRes (if op == "Hforce" then w.Hforce st.env force tc p t pr else w.Sforce st.env force tc p t pr))
      | _, _, _, _, _, _ => (st, "bad-op")
    else (st, "bad-op")
  | ["xsum", vs] =>
    match parseList? vs with
    | some vs => (st, showFloat (xSum vs))
    | none => (st, "bad-op")
  | _ => (st, "bad-op")

def main : IO Unit := Driver.loop ({} : St) step

end Driver.C07
