import ThermoVerif.Model.LLESLE
import Driver.Util
/-
Line protocol for C15 (liquid-liquid and solid-liquid splits).  Tokens are `key=value`;
floats travel as `b<ieee bits>`, lists are comma separated, `-` is "absent".

  lle-reset
  lle-call uc=<0|1> [upd=<0|1>] chems=<nats> T=<f> mol=<fs> MW=<fs> top=<nat|-> tolT=<f> tolZ=<f> phi=<f|err|-> sol=<fs|->
      -> path=<none|cache|solve> swap=<0|1> os=<0|1> l=<fs> L=<fs> K=<fs> phi=<f>
      (`phi` = recorded result of phase_fraction on the cached path, `sol` = recorded result of
       solve_lle_liquid_mol; `os=1` marks a query on which the one-sided test of the original
       code and the two-sided test disagree; with `upd=0` (`update=False`) no flows are written and
       `path=none` answers the `(K, phi)` of the nothing-to-split branch)
  peq-final z=<fs> v=<fs>            -> molL=<fs>        closing formula of pseudo_equilibrium
  inner phi=<f> z=<fs> v=<fs> gx=<fs> gy=<fs>   -> x=<fs> y=<fs> out=<fs>   one inner-loop evaluation
  phases changed=<0|1>      -> caches=<fresh|kept>   `ms.phases = …` (explicitly or through ms.vle/.lle/.sle); a change
                                                       of the set resets the caches, so the LLE/SLE state is forgotten
  retrieve kind=<vle|lle|sle> -> bound=<0|1> loaded=<new|old>   the accessor: is the solver handed out bound to the
                                                       stream's current indexer; was it loaded by this retrieval
  sle-reset
  sle-call s=<nat> T=<f> Tm=<f> given=<f|-> x=<f|-> liq=<fs> sol=<fs> nz=<nats> idx=<nats>
      -> pure=<0|1> liq=<fs> sol=<fs>   |  err=no-solute
-/
namespace Driver.C15
open ThermoVerif.LLESLE Driver

local instance : Zero Float := ⟨0.0⟩
local instance : One Float := ⟨1.0⟩

structure St where
  lle : Option (Stored Float) := none
  sle : SleState := {}
  sm : StreamM := StreamM.init

def kv (toks : List String) (key : String) : Option String :=
  let pre := key ++ "="
  (toks.find? (·.startsWith pre)).map (fun t => (t.drop pre.length).toString)

def floats? (s : String) : Option (List Float) := (splitComma s).mapM parseFloat?
def nats? (s : String) : Option (List Nat) := (splitComma s).mapM (·.toNat?)

/-- `-` ↦ `some none` -/
def opt? {β : Type} (f : String → Option β) (s : String) : Option (Option β) :=
  if s == "-" then some none else (f s).map some

def showFs (l : List Float) : String := joinWith "," (l.map showFloat)
def b01 (b : Bool) : String := if b then "1" else "0"

def nan : Float := 0.0 / 0.0

def lleCall (st : St) (t : List String) : Option (St × String) := do
  let uc ← kv t "uc"
  let chems ← (kv t "chems") >>= nats?
  let T ← (kv t "T") >>= parseFloat?
  let mol ← (kv t "mol") >>= floats?
  let MW ← (kv t "MW") >>= floats?
  let top ← (kv t "top") >>= opt? (·.toNat?)
  let tolT ← (kv t "tolT") >>= parseFloat?
  let tolZ ← (kv t "tolZ") >>= parseFloat?
  -- `phi=-` absent, `phi=err` the Rachford–Rice routine raised, otherwise its result
  let phiTok ← kv t "phi"
  let phiRec : Option (Option Float) ←
    if phiTok == "-" then some none
    else if phiTok == "err" then some (some none)
    else (parseFloat? phiTok).map (fun x => some (some x))
  let solRec ← (kv t "sol") >>= opt? floats?
  let upd := (kv t "upd").getD "1" != "0"
  if mol.length != chems.length || MW.length != chems.length then none
  let p : Params Float := { tolT := tolT, tolZ := tolZ, eps := 1e-16, big := 1e16 }
  let c : CallIn Float := { useCache := uc == "1", chems := chems, T := T, mol := mol, MW := MW, top := top }
  let (st', out) := call p (fun _ _ _ => (phiRec.getD (some nan))) (fun _ _ => solRec.getD []) st.lle c
  match out.path with
  | .none =>
    if upd then pure (st, "path=none")
    else
      let (K, phi) := degenerateKphi (1e16 : Float) mol top
      pure (st, s!"path=none K={showFs K} phi={showFloat phi}")
  | pth =>
    let missing := (pth == .cache && phiRec.isNone) || (pth == .solve && solRec.isNone)
    let pname := if pth == .cache then "cache" else "solve"
    if missing then pure (st, s!"path={pname} par-missing")
    else
      let q : Query Float := { useCache := uc == "1", chems := chems, T := T, z := normalize mol }
      let os := match st.lle with
        | some s => useCacheCode tolT tolZ s q != useCacheFixed tolT tolZ s q
        | none => false
      match st' with
      | some s =>
        let flows := if upd then s!" l={showFs out.l} L={showFs out.L}" else ""
        pure ({ st with lle := st' },
          s!"path={pname} swap={b01 out.swapped} os={b01 os}{flows} K={showFs s.K} phi={showFloat s.phi}")
      | none => none

def peqFinal (t : List String) : Option String := do
  let z ← (kv t "z") >>= floats?
  let v ← (kv t "v") >>= floats?
  let n := z.length
  if v.length != 2 * n + 1 then none
  let K := (v.take n).map Float.exp
  let phi := v.getD (2 * n) nan
  pure s!"molL={showFs (solverOut z K phi)}"

def feq (a b : List Float) : Bool := a.length == b.length && (List.zipWith (fun x y => x == y) a b).all id

def inner (t : List String) : Option String := do
  let phi ← (kv t "phi") >>= parseFloat?
  let z ← (kv t "z") >>= floats?
  let v ← (kv t "v") >>= floats?
  let gx ← (kv t "gx") >>= floats?
  let gy ← (kv t "gy") >>= floats?
  let n := z.length
  if v.length != 2 * n || gx.length != n || gy.length != n then none
  let s := (v.take n, v.drop n)
  let x := xOf z (s.1.map Float.exp) phi
  let y := yOf x gx s.2
  -- the recorded activity coefficients stand for the function: first call (at x) ↦ gx, second ↦ gy
  let gamma : List Float → List Float := fun a => if feq a x then gx else gy
  let r := innerCode gamma Float.exp z phi s
  pure s!"x={showFs x} y={showFs y} out={showFs (r.1 ++ r.2)}"

def sleCallLine (st : St) (t : List String) : Option (St × String) := do
  let s ← (kv t "s") >>= (·.toNat?)
  let T ← (kv t "T") >>= parseFloat?
  let Tm ← (kv t "Tm") >>= parseFloat?
  let given ← (kv t "given") >>= opt? parseFloat?
  let xRec ← (kv t "x") >>= opt? parseFloat?
  let liq ← (kv t "liq") >>= floats?
  let sol ← (kv t "sol") >>= floats?
  let nzs ← (kv t "nz") >>= nats?
  let idx ← (kv t "idx") >>= nats?
  if liq.length != sol.length then none
  let c : SleIn Float := { solute := s, T := T, Tm := Tm, given := given, computed := xRec.getD nan,
                           liquid := liq, solid := sol, nonzero := nzs, idx := idx,
                           all := List.range liq.length }
  match sleCall st.sle c with
  | .error .noSolute => pure (st, "err=no-solute")
  | .ok (s', isPure, (l, so)) =>
    if !isPure && given.isNone && xRec.isNone then pure (st, "pure=0 par-missing")
    else pure ({ st with sle := s' }, s!"pure={b01 isPure} liq={showFs l} sol={showFs so}")

def step (st : St) (line : String) : St × String :=
  match splitWs line with
  | ["lle-reset"] => ({ st with lle := none, sm := st.sm.resetCache }, "ok")
  | ["sle-reset"] => ({ st with sle := {}, sm := st.sm.resetCache }, "ok")
  | ["phases", c] =>
    match kv [c] "changed" with
    | some "1" => ({ st with lle := none, sle := {}, sm := st.sm.setPhases true }, "caches=fresh")
    | some "0" => ({ st with sm := st.sm.setPhases false }, "caches=kept")
    | _ => (st, "bad-op")
  | ["retrieve", k] =>
    match (match kv [k] "kind" with
      | some "vle" => some Kind.vle | some "lle" => some Kind.lle | some "sle" => some Kind.sle
      | _ => none) with
    | some kind =>
      let wasLoaded := (st.sm.cache kind).value.isSome
      let (sm', b) := st.sm.retrieve kind
      ({ st with sm := sm' }, s!"bound={b01 (b == sm'.imol)} loaded={if wasLoaded then "old" else "new"}")
    | none => (st, "bad-op")
  | "lle-call" :: t => (lleCall st t).getD (st, "bad-op")
  | "peq-final" :: t => (st, (peqFinal t).getD "bad-op")
  | "inner" :: t => (st, (inner t).getD "bad-op")
  | "sle-call" :: t => (sleCallLine st t).getD (st, "bad-op")
  | _ => (st, "bad-op")

def main : IO Unit := Driver.loop ({} : St) step

end Driver.C15
