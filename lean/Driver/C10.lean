import ThermoVerif.Model.IndexCache
import Driver.Util
/-
Line protocol for C10 (name-keyed access = positional access, whatever the lookup history).

  chems <id>|<cas>|<n1>,<n2>,…  …      new CompiledChemicals           → ok name=pos … | err=…
  alias <c> <id> <alias>               set_alias                        → ok <pos> | err=…
  group <c> <name> <ids|-> <comp|->    define_group (molar composition) → ok <positions> | err=…
  six <c>                              new SplitIndexer                 → ok
  reset <ix> <c>                       indexer.reset_chemicals(chemicals c)   → ok <phase(s)> m:<data> | err=…
  copyix <ix>                          indexer.copy()                          → ok <phase(s)> m:<data>
  getindex <c> <key>                   chemicals.get_index(IDs)                → ok <pos;pos;…> | err=…
  kcix <c> <phase> <key> <data> / ksix <c> <key> <data> / kmix <c> (ph,ids)=data|…   keyword constructors
  cix <c> [<phase>]                    new single-phase indexer (phase l by default) → ok
  mix <c> <phases>                     new multi-phase indexer          → ok <sorted phases>
  array|split|iarray|isplit <c> <key> <data>   chemicals.array / split / iarray / isplit(data, order=IDs) → v:… | err=…
  getm <ix> <key> / setm <ix> <key> <data>   indexer.by_mass()[key] (= …)  → as get / set (molar data shown)
  get <ix> <key>                       indexer[key]                     → s:… | v:… | m:… | err=…
  set <ix> <key> <data>                indexer[key] = data              → ok m:<all data> | err=…
  copylike <l> <r> / mixfrom <l> <r>   l.copy_like(r) / l.mix_from([l, r])  → ok <phase(s) of l> m:<all data of l> | err=…

Names are percent-encoded by the adapter (no space , | ( ) [ ] * : ; =).  Key syntax:
`*` ellipsis, `name`, `(a,b,(c,d),[e])` tuple, `[a,b]` list.  Data: `s:<rat>`, `v:<r,…>`, `m:`.
-/
namespace Driver.C10
open ThermoVerif.Chemicals ThermoVerif.Indexer ThermoVerif.IndexCache Driver

abbrev St := World

def parseLeaf (s : String) : Leaf :=
  if s == "*" then .ell else if s == "@h" then .deep true else if s == "@u" then .deep false else .str s

/-- split on commas that are outside brackets -/
def splitTop (cs : List Char) : List String :=
  let rec go : List Char → Nat → List Char → List String → List String
    | [], _, cur, acc => (String.ofList cur.reverse :: acc).reverse
    | c :: t, d, cur, acc =>
      if c == ',' && d == 0 then go t d [] (String.ofList cur.reverse :: acc)
      else if c == '(' || c == '[' then go t (d + 1) (c :: cur) acc
      else if c == ')' || c == ']' then go t (d - 1) (c :: cur) acc
      else go t d (c :: cur) acc
  if cs.isEmpty then [] else go cs 0 [] []

def inner (s : String) : String := ((s.drop 1).toString.dropEnd 1).toString

def hasBracket (s : String) : Bool := s.any fun c => c == '(' || c == ')' || c == '[' || c == ']'

def parseLeaves (s : String) : Option (List Leaf) :=
  if hasBracket s then none else some ((splitTop s.toList).map parseLeaf)

def parseItem (s : String) : Option Item :=
  if s.startsWith "(" && s.endsWith ")" then (parseLeaves (inner s)).map .tup
  else if s.startsWith "[" && s.endsWith "]" then (parseLeaves (inner s)).map .lst
  else if hasBracket s then none else some (.leaf (parseLeaf s))

def parseKey (s : String) : Option PyKey :=
  if s.startsWith "(" && s.endsWith ")" then ((splitTop (inner s).toList).mapM parseItem).map .tup
  else if s.startsWith "[" && s.endsWith "]" then ((splitTop (inner s).toList).mapM parseItem).map .lst
  else if hasBracket s || s == "" then none else some (.leaf (parseLeaf s))

def parseRats (s : String) : Option (List Rat) := (splitComma s).mapM parseRat?

def parseData (s : String) : Option Data :=
  if s.startsWith "s:" then (parseRat? (s.drop 2).toString).map .scalar
  else if s.startsWith "v:" then (parseRats (s.drop 2).toString).map .vec
  else if s.startsWith "m:" then
    ((splitOn1 (s.drop 2).toString ';').mapM parseRats).map .mat
  else none

def parseSpec (s : String) : Option Spec :=
  match splitOn1 s '|' with
  | [id, cas, names] => some { id := id, cas := cas, names := splitComma names }
  | [id, cas, names, mw] => do some { id := id, cas := cas, names := splitComma names, mw := (← parseRat? mw) }
  | _ => none

def dash (s : String) : String := if s == "-" then "" else s

def parseOp (line : String) : Option Op :=
  match splitWs line with
  | "chems" :: specs => (specs.mapM parseSpec).map .compile
  | ["alias", c, id, a] => do some (.alias (← c.toNat?) id a)
  | ["group", c, name, ids, comp] => do
    let comp ← if comp == "-" then some none else (parseRats comp).map some
    some (.group (← c.toNat?) name (splitComma (dash ids)) comp false)
  | ["group", c, name, ids, comp, "wt"] => do
    let comp ← if comp == "-" then some none else (parseRats comp).map some
    some (.group (← c.toNat?) name (splitComma (dash ids)) comp true)
  | ["array", c, key, d] => do some (.array (← c.toNat?) .array (← parseKey key) (← parseData d))
  | ["split", c, key, d] => do some (.array (← c.toNat?) .split (← parseKey key) (← parseData d))
  | ["iarray", c, key, d] => do some (.array (← c.toNat?) .iarray (← parseKey key) (← parseData d))
  | ["isplit", c, key, d] => do some (.array (← c.toNat?) .isplit (← parseKey key) (← parseData d))
  | ["getm", i, key] => do some (.getMass (← i.toNat?) (← parseKey key))
  | ["setm", i, key, d] => do some (.setMass (← i.toNat?) (← parseKey key) (← parseData d))
  | ["cix", c] => do some (.newChemIx (← c.toNat?) 'l')
  | ["cix", c, ph] => do
    match ph.toList with
    | [ch] => some (.newChemIx (← c.toNat?) ch)
    | _ => none
  | ["six", c] => do some (.newSplitIx (← c.toNat?))
  | ["mix", c, ps] => do some (.newMatIx (← c.toNat?) (dash ps).toList)
  | ["get", i, key] => do some (.get (← i.toNat?) (← parseKey key))
  | ["set", i, key, d] => do some (.set (← i.toNat?) (← parseKey key) (← parseData d))
  | ["reset", i, c] => do some (.resetChem (← i.toNat?) (← c.toNat?))
  | ["copyix", i] => do some (.copyIx (← i.toNat?))
  | ["getindex", c, key] => do some (.getIndex (← c.toNat?) (← parseKey key))
  | ["copylike", l, r] => do some (.copyLike (← l.toNat?) (← r.toNat?))
  | ["mixfrom", l, r] => do some (.mixFrom (← l.toNat?) (← r.toNat?))
  | _ => none

def showRats (l : List Rat) : String := joinWith "," (l.map showRat)

def showVal : Val → String
  | .scalar x => "s:" ++ showRat x
  | .vec xs => "v:" ++ showRats xs
  | .mat rows => "m:" ++ joinWith ";" (rows.map showRats)
  | .nest items => "n:" ++ joinWith ";" (items.map fun it => match it with
      | .inl x => showRat x
      | .inr xs => "[" ++ showRats xs ++ "]")

def showEnt : Ent → String
  | .pos i => toString i
  | .grp [] => "-"
  | .grp is => joinWith "," (is.map toString)

def uniq : List String → List String → List String
  | [], acc => acc.reverse
  | x :: t, acc => if x ∈ acc then uniq t acc else uniq t (x :: acc)

/-- names asked back after `chems`: IDs, CAS numbers, then all candidate names, in
order of first appearance -/
def queryNames (specs : List Spec) : List String :=
  uniq (specs.map (·.id) ++ specs.map (·.cas) ++ specs.flatMap (·.names)) [] |>.filter (· ≠ "")

def showOut (op : Op) : Out → String
  | .ok => "ok"
  | .table c =>
    let names := match op with | .compile specs => queryNames specs | _ => []
    "ok " ++ joinWith " " (names.map fun n =>
      n ++ "=" ++ (match alookup n c.index with | some e => showEnt e | none => "-"))
  | .pos e => "ok " ++ showEnt e
  | .phases ps => "ok " ++ String.ofList ps
  | .val v => showVal v
  | .data rows => "ok " ++ showVal (.mat rows)
  | .state ix =>
    "ok " ++ (match ix.phases with | some ps => String.ofList ps | none => String.ofList [ix.phase]) ++ " "
      ++ showVal (.mat ix.data)
  | .index es => "ok " ++ (if es.isEmpty then "-" else joinWith ";" (es.map showEnt))
  | .err e => "err=" ++ e.toString

/-- Keyword constructors `Indexer(**ID_data)`: a blank indexer followed by `self[IDs] = values`
(per phase for a `MaterialIndexer`); when a write raises there is no object. -/
def parseCtor (st : St) (line : String) : Option (Op × List Op) :=
  let n := st.ixs.length
  match splitWs line with
  | ["kcix", c, ph, key, d] => do
    let ch ← match ph.toList with | [ch] => some ch | _ => none
    some (.newChemIx (← c.toNat?) ch, [.set n (← parseKey key) (← parseData d)])
  | ["ksix", c, key, d] => do some (.newSplitIx (← c.toNat?), [.set n (← parseKey key) (← parseData d)])
  | ["kmix", c, spec] => do
    let parts := splitOn1 spec '|'
    let sets ← parts.mapM fun p =>
      match splitOn1 p '=' with
      | [pk, d] => do some (Op.set n (← parseKey pk) (← parseData d))
      | _ => none
    let phases := parts.filterMap fun p => (p.toList.drop 1).head?
    some (.newMatIx (← c.toNat?) phases, sets)
  | _ => none

def runCtor (st : St) (mk : Op) (sets : List Op) : St × String :=
  let (st1, o1) := st.step mk
  match o1 with
  | .err e => (st, "err=" ++ e.toString)
  | _ =>
    let rec go (s : St) : List Op → Option St
      | [] => some s
      | op :: t =>
        match s.step op with
        | (_, .err _) => none
        | (s', _) => go s' t
    -- the first failing write decides the error
    let rec firstErr (s : St) : List Op → String
      | [] => "err=TypeError"
      | op :: t =>
        match s.step op with
        | (_, .err e) => "err=" ++ e.toString
        | (s', _) => firstErr s' t
    match go st1 sets with
    | some s' =>
      match s'.ixs[st.ixs.length]? with
      | some ix => (s', showOut mk (.state ix))
      | none => (s', "ok")
    | none => (st, firstErr st1 sets)

def step (st : St) (line : String) : St × String :=
  match parseCtor st line with
  | some (mk, sets) => runCtor st mk sets
  | none =>
  match parseOp line with
  | none => (st, "bad-op")
  | some op =>
    let (st', o) := st.step op
    (st', showOut op o)

def main : IO Unit := Driver.loop ({} : St) step

end Driver.C10
