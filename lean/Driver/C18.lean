import ThermoVerif.Model.Network
import Driver.Util
/-
Line protocol for C18 (flowsheet docking).  One op per line; the answer is the
canonical connectivity of the whole universe (or `err=<class>`).
-/
namespace Driver.C18
open ThermoVerif.Network Driver

structure St where
  w : World := World.init
  names : Array Nat := #[]      -- real streams in creation order: s0, s1, …
  mnames : Array Nat := #[]     -- placeholder objects in order of first appearance in a port list: m0, m1, …
  dead : Bool := false          -- after an error the case is over

def parseWhich : String → Option Which
  | "i" => some .i | "o" => some .o | _ => none

def side (w : World) : Which → Side := w.side

/-- `sN` = N-th real stream; `mN` = N-th placeholder object (by first appearance);
`p<i|o>.<u>.<idx>` = object now at that port. -/
def St.ref (st : St) (t : String) : Option Nat :=
  if t.startsWith "s" then do
    let n ← (t.drop 1).toString.toNat?
    st.names[n]?
  else if t.startsWith "m" then do
    let n ← (t.drop 1).toString.toNat?
    st.mnames[n]?
  else if t.startsWith "p" then
    match splitOn1 (t.drop 1).toString '.' with
    | [k, u, i] => do
      let k ← parseWhich k
      let u ← u.toNat?
      let i ← i.toNat?
      ((side st.w k).lst u)[i]?
    | _ => none
  else none

def St.optRef (st : St) (t : String) : Option (Option Nat) :=
  if t == "none" then some none else (st.ref t).map some

def St.refs (st : St) (t : String) : Option (List Nat) :=
  (splitComma t).mapM st.ref

def St.optRefs (st : St) (t : String) : Option (List (Option Nat)) :=
  (splitComma t).mapM st.optRef

def St.portRef (st : St) (t : String) : Option PortRef :=
  if t.startsWith "i" then (t.drop 1).toString.toNat?.map PortRef.idx
  else (st.ref t).map PortRef.strm

def St.portRefsOpt (st : St) (t : String) : Option (Option (List PortRef)) :=
  if t == "-" then some none else ((splitComma (if t == "[]" then "" else t)).mapM st.portRef).map some

/-- constructor items: IDs, `None` or stream objects (a placeholder object is not a valid item) -/
def St.item (st : St) (t : String) : Option Item :=
  if t == "new" then some .new else if t == "none" then some .none
  else ((st.ref t).filter st.w.real).map .strm

/-- `S:<ref>` (a single stream or placeholder object) / `S:new` (a single string ID) -/
def St.singleItem (st : St) (t : String) : Option Item :=
  if t == "new" then some .new else (st.ref t).map .strm

def St.portsArg (st : St) (t : String) : Option PortsArg :=
  if t == "M" then some .missing else if t == "F" then some .fresh
  else if t.startsWith "L:" then ((splitComma (t.drop 2).toString).mapM st.item).map .given
  else if t.startsWith "S:" then (st.singleItem (t.drop 2).toString).map .single
  else none

/-- an index token: `n` ↦ `inl n`, `-j` ↦ `inr j` -/
def parseIdx (t : String) : Option (Sum Nat Nat) :=
  if t.startsWith "-" then (t.drop 1).toString.toNat?.map Sum.inr else t.toNat?.map Sum.inl

/-- register the objects that became visible with the last op: real streams created
(ids in `[old nS, new nS)` that are real) and placeholder objects not seen before, in the
canonical scan order unit by unit, `ins` then `outs`, port by port -/
def St.adopt (st : St) (w' : World) : St :=
  let fresh := (List.range (w'.nS - st.w.nS)).map (· + st.w.nS) |>.filter w'.real
  let scan := ((List.range w'.nU).map fun u => w'.ins.lst u ++ w'.outs.lst u).flatten
  let mn := scan.foldl (fun (acc : Array Nat) x =>
    if w'.real x || acc.contains x then acc else acc.push x) st.mnames
  { st with w := w', names := st.names ++ fresh.toArray, mnames := mn }

def showLoc : Option Nat → String
  | none => "-" | some u => s!"U{u}"

def St.nameOf (st : St) (x : Nat) : String :=
  if st.w.real x then
    match st.names.toList.idxOf? x with
    | some n => s!"s{n}" | none => s!"?{x}"
  else
    match st.mnames.toList.idxOf? x with
    | some n => s!"m{n}" | none => s!"?{x}"

def St.show (st : St) : String :=
  let nm := st.nameOf
  let units := (List.range st.w.nU).map fun u =>
    s!"U{u}.i=[{joinWith "," ((st.w.ins.lst u).map nm)}] U{u}.o=[{joinWith "," ((st.w.outs.lst u).map nm)}]"
  let strs := st.names.toList.zipIdx.map fun (x, n) =>
    s!"s{n}={showLoc (st.w.outs.loc x)}>{showLoc (st.w.ins.loc x)}"
  let mstrs := st.mnames.toList.zipIdx.map fun (x, n) =>
    s!"m{n}={showLoc (st.w.outs.loc x)}>{showLoc (st.w.ins.loc x)}"
  joinWith " " (units ++ strs ++ mstrs)

def St.finish (st : St) (r : Except Err World) (pre : String := "") : St × String :=
  match r with
  | .ok w' =>
    let st' := st.adopt w'
    (st', s!"pre={if w'.pre then 1 else 0} " ++ pre ++ st'.show)
  | .error e => ({ st with dead := true }, s!"err={e.toString}")

def bad (st : St) : St × String := ({ st with dead := true }, "bad-op")

def St.run (st : St) (op : Op) (pre : String := "") : St × String :=
  st.finish (st.w.step op) pre

def parseOp (st : St) (line : String) : Option Op :=
  match splitWs line with
  | ["unit", ni, fi, ai, no, fo, ao] => do
    some (.newUnit (← ni.toNat?) (fi == "1") (← st.portsArg ai) (← no.toNat?) (fo == "1") (← st.portsArg ao))
  | ["stream"] => some .newStream
  | ["set", k, u, i, s] => do
    match ← parseIdx i with
    | .inl i => some (.set (← parseWhich k) (← u.toNat?) i (← st.optRef s))
    | .inr j => some (.setBack (← parseWhich k) (← u.toNat?) j (← st.optRef s))
  -- `InletPort(unit, i).set_stream(s)` / `OutletPort(unit, i).set_stream(s)`
  | ["portset", k, u, i, s] => do
    some (.set (← parseWhich k) (← u.toNat?) (← i.toNat?) (some (← st.ref s)))
  | ["portfrom", k, x, s] => do some (.portFrom (← parseWhich k) (← st.ref x) (← st.ref s))
  | ["sports", k, xs, ss] => do
    some (.streamPorts (← parseWhich k) (← st.refs (if xs == "[]" then "" else xs))
      (← st.refs (if ss == "[]" then "" else ss)))
  | ["sport", k, xs, i, s] => do
    some (.streamPort (← parseWhich k) (← st.refs (if xs == "[]" then "" else xs)) (← i.toNat?) (← st.ref s))
  | ["own", u, v] => do
    some (.setOwner (← u.toNat?) (← (if v == "-" then some none else v.toNat?.map some)))
  | ["slice", k, u, a, b, items] => do
    -- bounds: `n` = None, `-j` = negative, otherwise a natural number
    let bound (t : String) : Option (Option Int) :=
      if t == "n" then some none
      else if t.startsWith "-" then (t.drop 1).toString.toNat?.map (fun j => some (-(Int.ofNat j)))
      else t.toNat?.map (fun j => some (Int.ofNat j))
    match a.toNat?, b.toNat? with
    | some a, some b =>
      some (.slice (← parseWhich k) (← u.toNat?) a b (← st.optRefs (if items == "[]" then "" else items)))
    | _, _ =>
      some (.sliceI (← parseWhich k) (← u.toNat?) (← bound a) (← bound b)
        (← st.optRefs (if items == "[]" then "" else items)))
  | ["sliceall", k, u, items] => do
    some (.sliceAll (← parseWhich k) (← u.toNat?) (← st.optRefs (if items == "[]" then "" else items)))
  | ["ins", k, u, i, s] => do
    match ← parseIdx i with
    | .inl i => some (.insert (← parseWhich k) (← u.toNat?) i (← st.ref s))
    | .inr j => some (.insertBack (← parseWhich k) (← u.toNat?) j (← st.ref s))
  | ["app", k, u, s] => do some (.append (← parseWhich k) (← u.toNat?) (← st.ref s))
  | ["ext", k, u, ss] => do
    some (.extend (← parseWhich k) (← u.toNat?) (← st.refs (if ss == "[]" then "" else ss)))
  | ["rep", k, u, s, t] => do
    some (.replace (← parseWhich k) (← u.toNat?) (← st.ref s) (← st.optRef t))
  | ["pop", k, u, i] => do
    match ← parseIdx i with
    | .inl i => some (.pop (← parseWhich k) (← u.toNat?) i)
    | .inr j => some (.popBack (← parseWhich k) (← u.toNat?) j)
  | ["rem", k, u, s] => do some (.remove (← parseWhich k) (← u.toNat?) (← st.ref s))
  | ["clr", k, u] => do some (.clear (← parseWhich k) (← u.toNat?))
  | ["emp", k, u] => do some (.empty (← parseWhich k) (← u.toNat?))
  | ["dsrc", s] => do some (.dsrc (← st.ref s))
  | ["dsnk", s] => do some (.dsnk (← st.ref s))
  | ["disc", s] => do some (.disc (← st.ref s))
  | ["udisc", u, inl, outl, join] => do
    some (.udisc (← u.toNat?) (← st.portRefsOpt inl) (← st.portRefsOpt outl) (join == "1"))
  | ["tpo", u, o] => do some (.takePlaceOf (← u.toNat?) (← o.toNat?))
  | ["rww", u, o] => do some (.takePlaceOf (← o.toNat?) (← u.toNat?))
  | ["rwn", u] => do some (.replaceWithNone (← u.toNat?))
  | ["recon", src, s, snk] =>
    let port (t : String) : Option (Option (Nat × Nat)) :=
      if t == "-" then some none else
      match splitOn1 t ':' with
      | [u, i] => do let u ← u.toNat?; let i ← i.toNat?; some (some (u, i))
      | _ => none
    do some (.reconnect (← port src) (← st.ref s) (← port snk))
  | ["uins", u, s, inlet, outlet] =>
    let pr (t : String) : Option (Option PortRef) :=
      if t == "-" then some none else (st.portRef t).map some
    do some (.insertUnit (← u.toNat?) (← st.ref s) (← pr inlet) (← pr outlet))
  -- pipe notation: the adapter uses the operators, the model the list operation they stand for
  | ["pipe_s_i_u", s, i, u] => do some (.set .i (← u.toNat?) (← i.toNat?) (some (← st.ref s)))
  | ["pipe_u_i_s", u, i, s] => do some (.set .o (← u.toNat?) (← i.toNat?) (some (← st.ref s)))
  | ["pipe_u_u", u, v] => do some (.pipeUU (← u.toNat?) (← v.toNat?))
  | ["pipe_ss_u", ss, u] => do some (.sliceAll .i (← u.toNat?) (← st.optRefs ss))
  | ["pipe_u_ss", u, ss] => do some (.sliceAll .o (← u.toNat?) (← st.optRefs ss))
  -- the same with a list instead of a tuple
  | ["pipe_ls_u", ss, u] => do some (.sliceAll .i (← u.toNat?) (← st.optRefs ss))
  | ["pipe_u_ls", u, ss] => do some (.sliceAll .o (← u.toNat?) (← st.optRefs ss))
  -- `stream - unit`: `unit.ins[:] = (stream,)`;  `unit - stream`: `unit.outs[:] = (stream,)`
  | ["pipe_s_u", s, u] => do some (.sliceAll .i (← u.toNat?) [some (← st.ref s)])
  | ["pipe_u_s", u, s] => do some (.sliceAll .o (← u.toNat?) [some (← st.ref s)])
  | _ => none

/-- `stream - i - unit` / `unit ** i ** stream` with a placeholder object: the placeholder
class has no pipe operators (TypeError) -/
def pipeOfPlaceholder (st : St) (line : String) : Option String :=
  let ph (s : String) : Bool := (st.ref s).any (fun x => !st.w.real x)
  match splitWs line with
  | ["pipe_s_i_u", s, _, _] => if ph s then some "TypeError" else none
  | ["pipe_u_i_s", _, _, s] => if ph s then some "TypeError" else none
  -- `placeholder - unit` ends in `unit.__rsub__`: "cannot pipe" (ValueError);
  -- `unit - placeholder` ends in `placeholder.__rsub__`, which does not exist (AttributeError)
  | ["pipe_s_u", s, _] => if ph s then some "ValueError" else none
  | ["pipe_u_s", _, s] => if ph s then some "TypeError" else none
  | _ => none

def step (st : St) (line : String) : St × String :=
  if st.dead then (st, "dead") else
  match (parseOp st line).filter (fun op => op.units.all (· < st.w.nU)) with
  | none => bad st
  | some op =>
    match pipeOfPlaceholder st line with
    | some e => ({ st with dead := true }, s!"err={e}")
    | none =>
    match op with
    | .pop k u i =>
      let ret := match ((st.w.side k).lst u)[i]? with
        | some s => s!"ret={st.nameOf s} " | none => ""
      st.run (.pop k u i) ret
    | .popBack k u j =>
      let l := (st.w.side k).lst u
      let ret := match (if 0 < j ∧ j ≤ l.length then l[l.length - j]? else none) with
        | some s => s!"ret={st.nameOf s} " | none => ""
      st.run (.popBack k u j) ret
    | op => st.run op

def main : IO Unit := Driver.loop ({} : St) step

end Driver.C18
