import ThermoVerif.Model.ReactionAlgebra
import Driver.Util
/-
Line protocol for C17 (reaction arithmetic).  One op per line.  The answer is
`<status> | <canonical dump of every object>` where status is `ret=r<k>` (the object the
Python expression evaluates to), `err=<class>` (store unchanged) or `out=<vector>`.
Array identities are printed as classes `#k` numbered by first appearance in the dump.
-/
namespace Driver.C17
open ThermoVerif.ReactionAlgebra Driver

abbrev S := Store Rat

structure St where
  s : S := {}

def parseBasis : String → Option Basis
  | "m" => some .mol | "w" => some .wt | _ => none

def parseBArg : String → Option BArg
  | "-" => some .none | "m" => some .mol | "w" => some .wt | "x" => some .bad | _ => none

def parseRef (t : String) : Option Nat :=
  if t.startsWith "r" then (t.drop 1).toString.toNat? else none

def parseOptRef (t : String) : Option (Option Nat) :=
  if t == "none" || t == "zero" then some none else (parseRef t).map some

/-- a scalar may carry a suffix `@f|@n|@a|@i` saying how the adapter hands it to the real code (Python float,
`numpy.float64`, 0-d `numpy.ndarray`, `int`); the setters and operators coerce with `float()`, so the model reads
the value only -/
def parseNum (t : String) : Option Rat :=
  match splitOn1 t '@' with
  | v :: _ => parseRat? v
  | [] => none

def parseRats (t : String) : Option (List Rat) := (splitComma t).mapM parseRat?

/-- sparse vector `i:val;i:val` (or `-`) of the given dense length -/
def parseSparse (t : String) (len : Nat) : Option (List Rat) :=
  if t == "-" then some (List.replicate len 0) else do
    let items ← (splitOn1 t ';').mapM fun it =>
      match splitOn1 it ':' with
      | [i, v] => do some ((← i.toNat?), (← parseRat? v))
      | _ => none
    if items.any (fun p => p.1 ≥ len) then none
    else some (items.foldl (fun acc p => acc.set p.1 p.2) (List.replicate len 0))

def showSparse (v : List Rat) : String :=
  let items := v.zipIdx.filter (fun p => p.1 ≠ 0) |>.map fun p => s!"{p.2}:{showRat p.1}"
  if items.isEmpty then "-" else joinWith ";" items

def showDense (v : List Rat) : String := joinWith "," (v.map showRat)

def showBasis : Basis → String
  | .mol => "m" | .wt => "w"

/-- canonical class of an id: position of its first occurrence in `seen` -/
def classOf (seen : List Nat) (id : Nat) : List Nat × Nat :=
  match seen.idxOf? id with
  | some k => (seen, k)
  | none => (seen ++ [id], seen.length)

def dump (s : S) : String := Id.run do
  let mut seenA : List Nat := []
  let mut seenX : List Nat := []
  let mut parts : List String := []
  let mut k := 0
  for o in s.objs do
    match o with
    | .rxn r =>
      let (sa, c) := classOf seenA r.nu
      seenA := sa
      let (kind, xs) ← match r.x with
        | .own _ => pure ("R", "own")
        | .shared xa i =>
          let (sx, cx) := classOf seenX xa
          seenX := sx
          pure ("I", s!"#x{cx}.{i}")
      parts := parts ++ [s!"r{k}:{kind} nu=#{c} ri={r.ridx} X={showRat (s.getX r.x)} xs={xs} b={showBasis r.basis} ph={r.ph} pk={r.pkg} v={showSparse (s.arr r.nu)}"]
    | .set t =>
      let mut cs : List String := []
      for id in t.rows do
        let (sa, c) := classOf seenA id
        seenA := sa
        cs := cs ++ [s!"#{c}"]
      let (sx, cx) := classOf seenX t.xa
      seenX := sx
      let vs := t.rows.zipIdx.map fun p => s!"v{p.2}={showSparse (s.arr p.1)}"
      let kind := if t.series then "S" else "P"
      let xs := ((s.xarrs.getD t.xa []).drop t.xoff).take t.rows.length
      parts := parts ++ [s!"r{k}:{kind} rows={joinWith "," cs} xa=#x{cx}+{if t.rows.isEmpty then 0 else t.xoff} ri={joinWith "," (t.ridxs.map toString)} X={showDense xs} b={showBasis t.basis} ph={t.ph} pk={t.pkg} {joinWith " " vs}"]
    k := k + 1
  return joinWith " | " parts

def parseOp (s : S) (line : String) : Option (Op Rat) :=
  match splitWs line with
  | ["new", ph, b, c, x, v] => do
    let ph ← ph.toNat?
    some (.new ph (← parseBasis b) (← c.toNat?) (← parseNum x) (← parseSparse v (nrows ph * s.nchem)))
  | ["empty", b, c, x] => do some (.empty (← parseBasis b) (← c.toNat?) (← parseNum x))
  | ["copy", a, b] => do some (.copy (← parseRef a) (← parseBArg b))
  | ["add", a, b] => do some (.add (← parseRef a) (← parseOptRef b))
  | ["radd", a, b] => do some (.add (← parseRef a) (← parseOptRef b))
  | ["sub", a, b] => do some (.sub (← parseRef a) (← parseOptRef b))
  | ["iadd", a, b] => do some (.iadd (← parseRef a) (← parseOptRef b))
  | ["isub", a, b] => do some (.isub (← parseRef a) (← parseOptRef b))
  | ["mul", a, k] => do some (.mul (← parseRef a) (← parseNum k))
  | ["rmul", a, k] => do some (.mul (← parseRef a) (← parseNum k))
  | ["div", a, k] => do some (.div (← parseRef a) (← parseNum k))
  | ["neg", a] => do some (.neg (← parseRef a))
  | ["imul", a, k] => do some (.imul (← parseRef a) (← parseNum k))
  | ["idiv", a, k] => do some (.idiv (← parseRef a) (← parseNum k))
  | ["back", a, c, x] => do
    let c ← if c == "-" then some none else c.toNat?.map some
    let x ← if x == "-" then some none else (parseNum x).map some
    some (.backwards (← parseRef a) c x)
  | ["setbasis", a, b] => do some (.setBasis (← parseRef a) (← parseBArg b))
  | ["yield", a, c, y, b] => do some (.setYield (← parseRef a) (← c.toNat?) (← parseNum y) (← parseBArg b))
  | ["setx", a, x] => do some (.setX (← parseRef a) (← parseNum x))
  | ["mkset", ms] => do some (.mkSet false (← (splitComma ms).mapM parseRef))
  | ["mkseries", ms] => do some (.mkSet true (← (splitComma ms).mapM parseRef))
  | ["setcopy", t, b] => do some (.setCopy (← parseRef t) (← parseBArg b))
  | ["slice", t, i, j] => do some (.slice (← parseRef t) (← i.toNat?) (← j.toNat?))
  | ["item", t, i] => do some (.item (← parseRef t) (← i.toNat?))
  | ["iteritem", t, i] => do some (.item (← parseRef t) (← i.toNat?))   -- the i-th object of `for item in set`
  | ["setsx", t, i, x] => do some (.setSetX (← parseRef t) (← i.toNat?) (← parseNum x))
  | ["setsxall", t, xs] => do some (.setSetXAll (← parseRef t) (← (splitComma xs).mapM parseNum))
  | ["reset", a, p] => do some (.reset (← parseRef a) (← p.toNat?))
  | ["reduce", t, order] => do
    some (.reduce (← parseRef t) (← (splitComma (if order == "-" then "" else order)).mapM (·.toNat?)))
  | _ => none

def step (st : St) (line : String) : St × String :=
  let s := st.s
  match splitWs line with
  | "pkg" :: n :: mws =>
    match n.toNat?, mws.mapM parseRat? with
    | some n, some mw =>
      if mw.length = n then ({ s := { nchem := n, mw := mw } }, "ok") else (st, "bad-op")
    | _, _ => (st, "bad-op")
  | ["alt", ids, mws] =>
    match (splitComma ids).mapM (·.toNat?), parseRats mws with
    | some ids, some mw =>
      if ids.length = mw.length then ({ s := { s with alts := s.alts ++ [{ ids := ids, mw := mw }] } }, "ok")
      else (st, "bad-op")
    | _, _ => (st, "bad-op")
  | ["applys2", a, p, feed] =>
    match parseRef a, p.toNat?, parseRats feed with
    | some a, some p, some n =>
      match s.applyStrPkg a p n with
      | .ok out => (st, s!"out={showDense out} | {dump s}")
      | .error e => (st, s!"err={e.toString} | {dump s}")
    | _, _, _ => (st, "bad-op")
  | ["apply", a, feed] =>
    match parseRef a, parseRats feed with
    | some a, some n =>
      match s.applyArr a n with
      | .ok out => (st, s!"out={showDense out} | {dump s}")
      | .error e => (st, s!"err={e.toString} | {dump s}")
    | _, _ => (st, "bad-op")
  | ["applys", a, feed] =>
    match parseRef a, parseRats feed with
    | some a, some n =>
      match s.applyStr a n with
      | .ok out => (st, s!"out={showDense out} | {dump s}")
      | .error e => (st, s!"err={e.toString} | {dump s}")
    | _, _ => (st, "bad-op")
  | ["subcancel", a, b, feed] =>
    -- the literal clause "(a+b)-b acts like a": both sides on one feed, nothing is stored
    match parseRef a, parseRef b, parseRats feed with
    | some a, some b, some n =>
      match s.valOf a, s.valOf b with
      | .ok va, .ok vb =>
        match (do let ob ← s.optValFor a (some b)
                  let c ← va.addSub (s.mwOf (s.pkgOf a)) false ob
                  c.addSub (s.mwOf (s.pkgOf a)) true ob) with
        | .ok d => (st, s!"out={showDense (react d.v d.ridx d.x n)} out2={showDense (react va.v va.ridx va.x n)} | {dump s}")
        | .error e => (st, s!"err={e.toString} | {dump s}")
      | _, _ => (st, s!"err=badRef | {dump s}")
    | _, _, _ => (st, "bad-op")
  | _ =>
    match parseOp s line with
    | none => (st, "bad-op")
    | some op =>
      match s.step op with
      | .ok (s', k) => ({ s := s' }, s!"ret=r{k} | {dump s'}")
      | .error e => (st, s!"err={e.toString} | {dump s}")

def main : IO Unit := Driver.loop ({} : St) step

end Driver.C17
