import ThermoVerif.Model.Unifac
import Driver.Util
/-
Line protocol for C16 (activity-coefficient models).

  tab U|M <nC> <nG> <index> <cg> <Qs> <Rs> <qs> <rs> <cQ> <mask> <inter>
        the real arrays of one `GroupActivityCoefficients` object (row-major csv of `b<bits>`
        floats; `mask` csv of 0/1; `inter` is nG×nG (U) or nG×nG×3 (M));
        answer `ok wf=<0|1>`: whether the arrays are what the model of `__new__` (`build`)
        derives from (cg, Qs, Rs) and meet the hypotheses of the theorems
  tab I                           the object is an `IdealActivityCoefficients`
  new <csv>                       the caller creates a float ndarray          → `id=<k>`
  newo <csv>                      the caller creates an ndarray of another dtype (int, float32) with these values
  set <id> <csv>                  the caller overwrites that array in place          → `ok`
  call nd <id> <T>                `Gamma(x, T)` with that ndarray
  call seq <csv> <T>              `Gamma([..], T)` with a Python list
  f <id> <T>                      `Gamma.f(x, T, *Gamma.args)`
  ac <csv> <T>                    `Gamma.activity_coefficients(x, T)` (x over the members with groups only)
        answer `g=<csv> fresh=<0|1> x=<csv: the caller's array/list after the call>`
  phi | pcf | idealf              ideal fugacity / mock Poynting / `_ideal_coefficient()` → `g=<1.0>`
-/
namespace Driver.C16
open ThermoVerif.Unifac Driver

inductive Obj where
  | none
  | ideal
  | group (kind : Kind) (tb : Tables Float) (inter : Nat → Nat → Nat → Float)

structure St where
  w : World Float := {}
  obj : Obj := .none
  /-- heap ids of the caller's arrays, in creation order (`new` answers the position here) -/
  names : Array Nat := #[]
  /-- heap ids of caller arrays whose dtype is not float64 (`newo`) -/
  other : List Nat := []

def floats? (s : String) : Option (Array Float) :=
  if s == "-" then some #[] else ((splitComma s).mapM parseFloat?).map List.toArray

def nats? (s : String) : Option (Array Nat) :=
  if s == "-" then some #[] else ((splitComma s).mapM String.toNat?).map List.toArray

def showFloats (a : Array Float) : String :=
  if a.size == 0 then "-" else joinWith "," (a.toList.map showFloat)

def closeF (a b : Float) : Bool :=
  a == b || (a - b).abs ≤ 1e-12 * (if a.abs > b.abs then a.abs else b.abs)

def allN (n : Nat) (p : Nat → Bool) : Bool := !(anyN n fun i => !p i)

/-- hypothesis monitor: the real tables are the ones `build` derives, and satisfy the
hypotheses under which the theorems are stated -/
def wellFormed (tb : Tables Float) (Rs : Nat → Float) : List String :=
  let b := build tb.nC tb.nG tb.index tb.cg tb.Qs Rs
  let chk (name : String) (ok : Bool) : List String := if ok then [] else [name]
  chk "qs" (allN tb.nC fun i => closeF (tb.qs i) (b.qs i) && tb.qs i > 0)
  ++ chk "rs" (allN tb.nC fun i => closeF (tb.rs i) (b.rs i) && tb.rs i > 0)
  ++ chk "cQ" (allN tb.nC fun i => allN tb.nG fun k => closeF (tb.cQ i k) (b.cQ i k))
  ++ chk "cg" (allN tb.nC fun i => allN tb.nG fun k => tb.cg i k ≥ 0)
  ++ chk "QR" (allN tb.nG fun k => tb.Qs k ≥ 0 && Rs k ≥ 0)
  ++ chk "mask" (allN tb.nG fun k => allN tb.nG fun m => tb.mask k m == b.mask k m)
  ++ chk "index" (allN tb.nC fun i => allN tb.nC fun j => decide (i ≤ j) || decide (tb.index i > tb.index j))
  ++ chk "nC" (tb.nC > 1)

def parseTab (t : List String) : Option (Obj × List String) :=
  match t with
  | ["I"] => some (.ideal, [])
  | [k, nC, nG, idx, cg, Qs, Rs, qs, rs, cQ, mask, inter] => do
    let kind ← (match k with | "U" => some Kind.unifac | "M" => some Kind.modified | _ => none)
    let nC ← nC.toNat?
    let nG ← nG.toNat?
    let idx ← nats? idx
    let cg ← floats? cg
    let Qs ← floats? Qs
    let Rs ← floats? Rs
    let qs ← floats? qs
    let rs ← floats? rs
    let cQ ← floats? cQ
    let mask ← nats? mask
    let inter ← floats? inter
    let depth := if kind == .unifac then 1 else 3
    if idx.size ≠ nC || cg.size ≠ nC * nG || Qs.size ≠ nG || Rs.size ≠ nG || qs.size ≠ nC || rs.size ≠ nC
        || cQ.size ≠ nC * nG || mask.size ≠ nG * nG || inter.size ≠ nG * nG * depth then none
    else
      let tb : Tables Float :=
        { nC := nC, nG := nG, index := fun i => idx.getD i 0
          cg := fun i k => if k < nG then cg.getD (i * nG + k) 0 else 0
          Qs := fun k => Qs.getD k 0, qs := fun i => qs.getD i 0, rs := fun i => rs.getD i 0
          cQ := fun i k => if k < nG then cQ.getD (i * nG + k) 0 else 0
          mask := fun k m => m < nG && mask.getD (k * nG + m) 0 == 1 }
      let it : Nat → Nat → Nat → Float := fun k m p =>
        if m < nG && p < depth then inter.getD ((k * nG + m) * depth + p) 0 else 0
      some (.group kind tb it, wellFormed tb (fun k => Rs.getD k 0))
  | _ => none

def St.answer (st : St) (w' : World Float) (rid : Nat) (after : Array Float) (argId : Option Nat) : St × String :=
  let fresh : Bool := match argId with
    | some a => rid != a
    | none => true
  ({ st with w := w' }, s!"g={showFloats (w'.read rid)} fresh={if fresh then 1 else 0} x={showFloats after}")

def step (st : St) (line : String) : St × String :=
  match splitWs line with
  | "tab" :: rest =>
    match parseTab rest with
    | some (o, wf) =>
      ({ st with obj := o }, if wf.isEmpty then "ok wf=1" else s!"ok wf=0:{joinWith "," wf}")
    | none => (st, "bad-op")
  | ["new", xs] =>
    match floats? xs with
    | some a =>
      let (w', id) := st.w.alloc a
      ({ st with w := w', names := st.names.push id }, s!"id={st.names.size}")
    | none => (st, "bad-op")
  | ["newo", xs] =>
    -- an ndarray of another dtype (int64, float32, …) holding these values
    match floats? xs with
    | some a =>
      let (w', id) := st.w.alloc a
      ({ st with w := w', names := st.names.push id, other := id :: st.other }, s!"id={st.names.size}")
    | none => (st, "bad-op")
  | ["set", id, xs] =>
    -- the caller overwrites its own array in place
    match id.toNat? >>= (st.names[·]?), floats? xs with
    | some id, some a =>
      if id < st.w.heap.size then ({ st with w := st.w.write id a }, "ok") else (st, "bad-op")
    | _, _ => (st, "bad-op")
  | ["call", "nd", id, T] =>
    match id.toNat? >>= (st.names[·]?), parseFloat? T, st.obj with
    | some id, some T, .group kind tb it =>
      if id < st.w.heap.size then
        let (w', r) := st.w.call kind tb it (if st.other.contains id then .ndOther id else .nd id) T
        st.answer w' r (w'.read id) (some id)
      else (st, "bad-op")
    | some id, some T, .ideal =>
      if id < st.w.heap.size then
        let (w', r) := st.w.callIdeal (if st.other.contains id then .ndOther id else .nd id) T
        st.answer w' r (w'.read id) (some id)
      else (st, "bad-op")
    | _, _, _ => (st, "bad-op")
  | ["call", "seq", xs, T] =>
    match floats? xs, parseFloat? T, st.obj with
    | some v, some T, .group kind tb it =>
      let (w', r) := st.w.call kind tb it (.seq v) T
      st.answer w' r v none
    | some v, some T, .ideal =>
      let (w', r) := st.w.callIdeal (.seq v) T
      st.answer w' r v none
    | _, _, _ => (st, "bad-op")
  | ["f", id, T] =>
    match id.toNat? >>= (st.names[·]?), parseFloat? T, st.obj with
    | some id, some T, .group kind tb it =>
      if id < st.w.heap.size then
        let (w', r) := st.w.fForm kind tb it id T
        st.answer w' r (w'.read id) (some id)
      else (st, "bad-op")
    | some id, some _, .ideal =>
      if id < st.w.heap.size then
        -- `_ideal_coefficient(x, T)`: the scalar 1.0, no array involved
        (st, s!"g={showFloat (idealF (some (st.w.read id)) none none)} fresh=1 x={showFloats (st.w.read id)}")
      else (st, "bad-op")
    | _, _, _ => (st, "bad-op")
  | ["ac", xs, T] =>
    -- `Gamma.activity_coefficients(x, T)`: the kernels on the composition of the members with groups, as given
    match floats? xs, parseFloat? T, st.obj with
    | some v, some T, .group kind tb it =>
      (st, s!"g={showFloats (gammaSub kind tb it T (vget v)).1} fresh=1 x={showFloats v}")
    | _, _, _ => (st, "bad-op")
  | ["phi"] => (st, s!"g={showFloat (idealPhiCall (α := Float) #[] 0 0)}")
  | ["pcf"] => (st, s!"g={showFloat (mockPcfCall (α := Float) 0 0)}")
  | ["idealf"] => (st, s!"g={showFloat (idealF (α := Float) none none none)}")
  | _ => (st, "bad-op")

def main : IO Unit := Driver.loop ({} : St) step

end Driver.C16
