import ThermoVerif.Model.FlowViews
import Driver.Util
/-
Line protocol for C11 (molar / mass / volumetric views and units of measure).

  cfg-thermo <mw,mw,…>                       → ok <k> | hyp-violated MW>0
  cfg-units <name>=<pint dimensionality exponents e1,…,e8>=<factor> …   → ok | hyp-violated nonzero <name>
  cfg-conv <u>=<u'>=<pint factor u→u'> …     → ok | hyp-violated factor_consistent <u> <u'>
  new1 <th> <ph> <T> <P> <row>               → ok <sid>
  newm <th> <phases> <T> <P> <mat>           → ok <sid>
  setT|setP <s> <x>                          → ok
  setphase <s> <c> <R> | setphases <s> <ps> <R> | copylike <s> <o> <R> | thermo <s> <k> <R>
  sync <s> <T> <P> <ph|-> <R> | mixinto <s> <phases of the inlets> <P> <R>
                                             → ok <0|1> <phase(s)>
  link <s> <o> <flow> <phase> <TP> | unlink <s>   → ok
  view <s> <c> | proxy <s> | flowproxy <s>       → ok <sid of ms[c] / the proxy>
  copy <s> <thermo> <R>                          → ok <sid of the copy>   (Stream.copy(thermo=…))
  rdmol <s> | rdmass <s> | rdvol <s> <V>     → m <-|v<id>> <mat of floats>
  rdF <s> <dim> <V>                          → x - <float>
  wrF <s> <dim> <x> <V>                      → ok
  get <s> <dim> <ph|-> <i> <V>               → x <-|v<id>> <float>
  put <s> <dim> <ph|-> <i> <x> <V>           → w <-|v<id>>
  putrow <s> <dim> <ph|-> <row> <V>          → w <-|v<id>>     (whole-row assignment through a view)
  getflow <s> <unit> <ph|-> <i> <V>          → x <-|v<id>> <float>
  setflow <s> <unit> <ph|-> <i> <x> <V>      → w <-|v<id>>
  gettotal <s> <unit> <V>                    → x - <float>
  settotal <s> <unit> <x> <V>                → ok
  getdata <s> <dim> <unit> <ph|-> <i> <V>    → x <-|v<id>> <float>      (imol/imass/ivol .get_data(units, key))
  setdata <s> <dim> <unit> <ph|-> <i> <x> <V> → w <-|v<id>>
  getprop <s> <dim> <unit> <V>               → x - <float>              (get_property('F_<dim>', units))
  setprop <s> <dim> <unit> <x> <V>           → ok
  unitfor <dim> <unit>                       → x - <factor>             (units= of an indexer constructor)
  scale <s> <q> | empty <s> | emptyneg <s>   → ok <0|1> <phase(s)>     (emptyneg = empty_negative_flows)
  rdagg <s> <dim> <V>                        → m <-|v<id>> <row>        (stream.mol / .mass / .vol)
  getflowall <s> <unit> <V>                  → m <-|v<id>> <row>        (get_flow(units) with the default key ...)
  any line carrying V                        → hyp-violated V-is-a-function-of(th,phase,T,P) … if the same key was seen with other volumes
  any of them                                → err <Name>

Numbers in: exact rationals `n/d`.  Matrices: rows separated by `|`, entries by `,`; `_` = no rows.
Numbers out: IEEE doubles as `b<bits>` (the exact rational result rounded once).
-/
namespace Driver.C11
open ThermoVerif.FlowViews Driver

def ratToFloat (q : Rat) : Float :=
  let n := q.num.natAbs
  let d := q.den
  let sh := (max n.log2 d.log2) - 900
  let f := (n >>> sh).toFloat / (d >>> sh).toFloat
  if q.num < 0 then -f else f

def parseRow? (s : String) : Option (List Rat) := (splitComma s).mapM parseRat?

def parseMat? (s : String) : Option Mat :=
  if s == "_" then some [] else (splitOn1 s '|').mapM parseRow?

def showMat (m : Mat) : String :=
  if m.isEmpty then "_" else
  joinWith "|" (m.map (fun r => joinWith "," (r.map (fun x => showFloat (ratToFloat x)))))

def parseDim? : String → Option Dim
  | "mol" => some .mol | "mass" => some .mass | "vol" => some .vol | "other" => some .other
  | _ => none

def parseBool? : String → Option Bool
  | "0" => some false | "1" => some true | _ => none

def parseChar? (s : String) : Option Char := match s.toList with | [c] => some c | _ => none

def parsePh? (s : String) : Option (Option Char) :=
  if s == "-" then some none else (parseChar? s).map some

def showVid : Option Nat → String
  | none => "-"
  | some v => s!"v{v}"

def parseOp? (t : List String) : Option Op :=
  match t with
  | ["new1", th, ph, T, P, row] => do
    pure (.new1 (← th.toNat?) (← parseChar? ph) (← parseRat? T) (← parseRat? P) (← parseRow? row))
  | ["newm", th, phs, T, P, m] => do
    pure (.newm (← th.toNat?) phs.toList (← parseRat? T) (← parseRat? P) (← parseMat? m))
  | ["setT", s, x] => do pure (.setT (← s.toNat?) (← parseRat? x))
  | ["setP", s, x] => do pure (.setP (← s.toNat?) (← parseRat? x))
  | ["setphase", s, c, r] => do pure (.setPhase (← s.toNat?) (← parseChar? c) (← parseMat? r))
  | ["setphases", s, ps, r] => do pure (.setPhases (← s.toNat?) ps.toList (← parseMat? r))
  | ["link", s, o, f, p, tp] => do
    pure (.link (← s.toNat?) (← o.toNat?) (← parseBool? f) (← parseBool? p) (← parseBool? tp))
  | ["unlink", s] => do pure (.unlink (← s.toNat?))
  | ["copylike", s, o, r] => do pure (.copyLike (← s.toNat?) (← o.toNat?) (← parseMat? r))
  | ["thermo", s, k, r] => do pure (.thermo (← s.toNat?) (← k.toNat?) (← parseMat? r))
  | ["sync", s, T, P, ph, r] => do
    pure (.sync (← s.toNat?) (← parseRat? T) (← parseRat? P) (← parsePh? ph) (← parseMat? r))
  | ["mixinto", s, others, P, r] => do
    pure (.mixInto (← s.toNat?) others.toList (← parseRat? P) (← parseMat? r))
  | ["view", s, c] => do pure (.view (← s.toNat?) (← parseChar? c))
  | ["proxy", s] => do pure (.proxy (← s.toNat?))
  | ["flowproxy", s] => do pure (.flowProxy (← s.toNat?))
  | ["copy", s, k, r] => do pure (.copy (← s.toNat?) (← k.toNat?) (← parseMat? r))
  | ["rdmol", s] => do pure (.readMol (← s.toNat?))
  | ["rdmass", s] => do pure (.readMass (← s.toNat?))
  | ["rdvol", s, v] => do pure (.readVol (← s.toNat?) (← parseMat? v))
  | ["rdF", s, d, v] => do pure (.readF (← s.toNat?) (← parseDim? d) (← parseMat? v))
  | ["wrF", s, d, x, v] => do pure (.writeF (← s.toNat?) (← parseDim? d) (← parseRat? x) (← parseMat? v))
  | ["get", s, d, ph, i, v] => do
    pure (.get (← s.toNat?) (← parseDim? d) (← parsePh? ph) (← i.toNat?) (← parseMat? v))
  | ["put", s, d, ph, i, x, v] => do
    pure (.put (← s.toNat?) (← parseDim? d) (← parsePh? ph) (← i.toNat?) (← parseRat? x) (← parseMat? v))
  | ["putrow", s, d, ph, xs, v] => do
    pure (.putRow (← s.toNat?) (← parseDim? d) (← parsePh? ph) (← parseRow? xs) (← parseMat? v))
  | ["getflow", s, u, ph, i, v] => do
    pure (.getFlow (← s.toNat?) u (← parsePh? ph) (← i.toNat?) (← parseMat? v))
  | ["setflow", s, u, ph, i, x, v] => do
    pure (.setFlow (← s.toNat?) u (← parsePh? ph) (← i.toNat?) (← parseRat? x) (← parseMat? v))
  | ["gettotal", s, u, v] => do pure (.getTotal (← s.toNat?) u (← parseMat? v))
  | ["settotal", s, u, x, v] => do pure (.setTotal (← s.toNat?) u (← parseRat? x) (← parseMat? v))
  | ["getdata", s, d, u, ph, i, v] => do
    pure (.getData (← s.toNat?) (← parseDim? d) u (← parsePh? ph) (← i.toNat?) (← parseMat? v))
  | ["setdata", s, d, u, ph, i, x, v] => do
    pure (.setData (← s.toNat?) (← parseDim? d) u (← parsePh? ph) (← i.toNat?) (← parseRat? x) (← parseMat? v))
  | ["getprop", s, d, u, v] => do pure (.getProp (← s.toNat?) (← parseDim? d) u (← parseMat? v))
  | ["setprop", s, d, u, x, v] => do pure (.setProp (← s.toNat?) (← parseDim? d) u (← parseRat? x) (← parseMat? v))
  | ["unitfor", d, u] => do pure (.unitFor (← parseDim? d) u)
  | ["scale", s, q] => do pure (.scale (← s.toNat?) (← parseRat? q))
  | ["empty", s] => do pure (.empty (← s.toNat?))
  | ["emptyneg", s] => do pure (.removeNegatives (← s.toNat?))
  | ["rdagg", s, d, v] => do pure (.readAgg (← s.toNat?) (← parseDim? d) (← parseMat? v))
  | ["getflowall", s, u, v] => do pure (.getFlowAll (← s.toNat?) u (← parseMat? v))
  | _ => none

def showOut : Out → String
  | .unit => "ok"
  | .sid n => s!"ok {n}"
  | .shape m ps => s!"ok {if m then 1 else 0} {String.ofList ps}"
  | .mat vid vals => s!"m {showVid vid} {showMat vals}"
  | .num vid x => s!"x {showVid vid} {showFloat (ratToFloat x)}"
  | .wrote vid => s!"w {showVid vid}"

def parseUnit? (s : String) : Option UnitDef :=
  match splitOn1 s '=' with
  | [n, d, f] => do pure { name := n, dimv := (← (splitComma d).mapM (·.toInt?)), factor := (← parseRat? f) }
  | _ => none

def relClose (a b : Rat) : Bool :=
  let d := if a - b < 0 then b - a else a - b
  let m := max (if a < 0 then -a else a) (if b < 0 then -b else b)
  decide (d ≤ m / 1000000000000)

/-- hypothesis `factor_consistent`: pint's direct factor `u → u'` is `f(u') / f(u)` -/
def checkConv (units : List UnitDef) (s : String) : Option String :=
  match splitOn1 s '=' with
  | [u, u', f] =>
    match findUnit units u, findUnit units u', parseRat? f with
    | some a, some b, some f =>
      if a.dim == b.dim && a.factor != 0 && relClose f (b.factor / a.factor) then none
      else some s!"{u} {u'}"
    | _, _, _ => some s!"{u} {u'}"
  | _ => some s

/-- the molar-volume matrix an operation carries, with the stream it belongs to -/
def opV : Op → Option (Nat × Mat)
  | .readVol s V | .readF s _ V | .writeF s _ _ V | .get s _ _ _ V | .put s _ _ _ _ V | .putRow s _ _ _ V
  | .getFlow s _ _ _ V | .setFlow s _ _ _ _ V | .getTotal s _ V | .setTotal s _ _ V | .getData s _ _ _ _ V
  | .setData s _ _ _ _ _ V | .getProp s _ _ V | .setProp s _ _ _ V | .readAgg s _ V | .getFlowAll s _ V => some (s, V)
  | _ => none

/-- driver state: the model world and, as a hypothesis monitor for `VLine` / `RunOk`, every molar-volume row seen so
far keyed by (chemicals, phase, T, P): the parameter must be a *function* of that key -/
structure St where
  w : World := {}
  vseen : List ((Nat × Char × Rat × Rat) × List Rat) := []

def rowsClose (a b : List Rat) : Bool :=
  a.length == b.length && (a.zip b).all (fun (x, y) => relClose x y)

/-- check the rows of `V` against what was seen for the same key; returns the offending key or the extended table -/
def monitorV (st : St) (sid : Nat) (V : Mat) : Except String (List ((Nat × Char × Rat × Rat) × List Rat)) :=
  let s := st.w.stream sid
  let (T, P) := st.w.c.tcs s.tc
  let phases := if s.multi then s.phases else [st.w.c.phs s.ph]
  (phases.zip V).foldlM (fun tbl (ph, row) =>
    let key := (s.th, ph, T, P)
    match tbl.find? (fun e => e.1 == key) with
    | some e => if e.2 == row then .ok tbl else .error s!"{ph}"
    | none => .ok ((key, row) :: tbl)) st.vseen

def step (st : St) (line : String) : St × String :=
  let w := st.w
  match splitWs line with
  | ["cfg-thermo", mws] =>
    match parseRow? mws with
    | some l =>
      if mwPositive l then ({ st with w := { w with thermos := w.thermos ++ [l] } }, s!"ok {w.thermos.length}")
      else (st, "hyp-violated MW>0")
    | none => (st, "bad-op")
  | "cfg-units" :: us =>
    match us.mapM parseUnit? with
    | some l =>
      match l.find? (fun d => !(d.dim == .other || d.factor != 0)) with
      | some d => (st, s!"hyp-violated nonzero {d.name}")
      | none => ({ st with w := { w with units := l } }, "ok")
    | none => (st, "bad-op")
  | "cfg-conv" :: cs =>
    match cs.filterMap (checkConv w.units) with
    | [] => (st, "ok")
    | bad :: _ => (st, s!"hyp-violated factor_consistent {bad}")
  | t =>
    match parseOp? t with
    | none => (st, "bad-op")
    | some op =>
      let mon : Except String St :=
        match opV op with
        | some (sid, V) =>
          if V.isEmpty || sid ≥ w.s.nstreams then .ok st
          else (monitorV st sid V).map (fun tbl => { st with vseen := tbl })
        | none => .ok st
      match mon with
      | .error k => (st, s!"hyp-violated V-is-a-function-of(th,phase,T,P) {k}")
      | .ok st1 =>
        match w.exec op with
        | .ok (w1, out) => ({ st1 with w := w1 }, showOut out)
        | .error e => (st1, s!"err {e.toString}")

def main : IO Unit := Driver.loop ({} : St) step

end Driver.C11
