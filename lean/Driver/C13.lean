import ThermoVerif.Model.Links
import Driver.Util
/-
Line protocol for C13 (copies, links, pickles).  One op per line; the answer is
`ok <canonical dump of every stream>` (values, and object identities as classes
numbered by first appearance), `skip` (outside the domain), or `err=<class>`.
-/
namespace Driver.C13
open ThermoVerif.Links Driver

structure St where
  w : World := World.init
  dead : Bool := false

def parsePh : String → Option Ph
  | "L" => some .L | "S" => some .S | "g" => some .g | "l" => some .l | "s" => some .s | _ => none

def parsePhs (t : String) : Option (List Ph) := (splitComma t).mapM parsePh

def parseNats (t : String) : Option (List Nat) :=
  if t == "-" then some [] else (splitComma t).mapM (·.toNat?)

/-- `k:v,k:v` or `-` -/
def parsePairs (t : String) : Option (List (Nat × Rat)) :=
  if t == "-" then some [] else
  (splitComma t).mapM fun kv =>
    match splitOn1 kv ':' with
    | [k, v] => do some ((← k.toNat?), (← parseRat? v))
    | _ => none

/-- per-phase flows separated by `;` -/
def parseFlows (t : String) : Option (List FlowSpec) :=
  if t == "-" then some [] else (splitOn1 t ';').mapM parsePairs

def parseBool : String → Option Bool
  | "0" => some false | "1" => some true | _ => none

def parseOp (line : String) : Option Op :=
  match splitWs line with
  | ["new", k, sid, pkg, phases, flows, T, P, price, cf] => do
    let multi ← (match k with | "S" => some false | "M" => some true | _ => none)
    let sid ← (if sid == "-" then some none else sid.toNat?.map some)
    let (pid, pkg) ← (match splitOn1 pkg '=' with
      | [i, l] => do some ((← i.toNat?), (← parseNats l))
      | _ => none)
    some (.new { multi := multi, sid := sid, pkg := pkg, pkgId := pid, phases := (← parsePhs phases),
                 flows := (← parseFlows flows), T := (← parseRat? T), P := (← parseRat? P),
                 price := (← parseRat? price), cf := (← parsePairs cf) })
  | ["setflow", s, p, c, v] => do some (.setFlow (← s.toNat?) (← parsePh p) (← c.toNat?) (← parseRat? v))
  | ["setT", s, v] => do some (.setT (← s.toNat?) (← parseRat? v))
  | ["setP", s, v] => do some (.setP (← s.toNat?) (← parseRat? v))
  | ["setphase", s, p] => do some (.setPhase (← s.toNat?) (← parsePh p))
  | ["empty", s] => do some (.empty (← s.toNat?))
  | ["setprice", s, v] => do some (.setPrice (← s.toNat?) (← parseRat? v))
  | ["setcf", s, k, v] => do some (.setCF (← s.toNat?) (← k.toNat?) (← parseRat? v))
  | ["copy", s] => do some (.copy (← s.toNat?))
  | ["copyto", s, pkg] => do
    let (pid, pkg) ← (match splitOn1 pkg '=' with
      | [i, l] => do some ((← i.toNat?), (← parseNats l))
      | _ => none)
    some (.copyTo (← s.toNat?) pid pkg)
  | ["copylike", t, s] => do some (.copyLike (← t.toNat?) (← s.toNat?))
  | ["copytc", t, s] => do some (.copyTC (← t.toNat?) (← s.toNat?))
  | ["link", t, s, f, p, tp] => do
    some (.link (← t.toNat?) (← s.toNat?) (← parseBool f) (← parseBool p) (← parseBool tp))
  | ["unlink", s] => do some (.unlink (← s.toNat?))
  | ["proxy", s] => do some (.proxy (← s.toNat?))
  | ["flowproxy", s] => do some (.flowProxy (← s.toNat?))
  | ["pickle", s] => do some (.pickle (← s.toNat?))
  | _ => none

/-- insertion sort of naturals (packages are tiny) -/
def sortNat (l : List Nat) : List Nat :=
  l.foldl (fun acc x => (acc.takeWhile (· < x)) ++ [x] ++ (acc.dropWhile (· < x))) []

def showRow (pkg : List Nat) (r : Row) : String :=
  joinWith "," ((sortNat pkg).filterMap fun c => if r c == 0 then none else some s!"{c}:{showRat (r c)}")

def showCf (d : List (Nat × Rat)) : String :=
  let keys := sortNat (d.map (·.1))
  joinWith "," (keys.map fun k => s!"{k}:{showRat ((d.lookup k).getD 0)}")

/-- canonical numbering of object ids by first appearance -/
def canon (seen : List Nat) (x : Nat) : List Nat × Nat :=
  match seen.idxOf? x with
  | some i => (seen, i)
  | none => (seen ++ [x], seen.length)

def canonAll (seen : List Nat) (xs : List Nat) : List Nat × List Nat :=
  xs.foldl (fun (sn, out) x => let (sn', i) := canon sn x; (sn', out ++ [i])) (seen, [])

def showStream (w : World) (seen : List Nat) (i : Nat) : List Nat × String :=
  let s := w.strs i
  let phases := w.phasesOf s.imol
  let rows := w.rowIdsOf s.imol
  let body := joinWith "" ((phases.zip rows).map fun (p, r) => s!"{p.toString}[{showRow s.pkg (w.rows r)}]")
  let kind := if w.isMat s.imol then "M" else "S"
  let cont := match w.imols s.imol with
    | .chem ph _ => ph
    | .mat _ a => a
  -- package identities live in their own id space: offset them away from the store ids
  let (seen, ids) := canonAll seen ([s.imol, cont] ++ rows ++ [s.tc, s.cf, 1000000000 + s.pkgId])
  let tc := w.tcs s.tc
  let sid := match s.sid with | some n => toString n | none => "-"
  -- phases and rows may differ in number only in states outside the domain; print both counts then
  let extra := if phases.length == rows.length then "" else s!"!{phases.length}/{rows.length}"
  (seen, s!"{i}={kind};{body}{extra};{showRat tc.1};{showRat tc.2};{showRat s.price};" ++
         "{" ++ showCf (w.cfs s.cf) ++ "}" ++ s!";{sid};@{joinWith "." (ids.map toString)}")

def showWorld (w : World) : String :=
  let (_, parts) := (List.range w.nS).foldl
    (fun (seen, acc) i => let (sn, t) := showStream w seen i; (sn, acc ++ [t])) ([], [])
  joinWith " " parts

def step (st : St) (line : String) : St × String :=
  if st.dead then (st, "dead") else
  match parseOp line with
  | none => ({ st with dead := true }, "bad-op")
  | some op =>
    match st.w.step op with
    | .ok w' => ({ st with w := w' }, "ok " ++ showWorld w')
    | .skip => (st, "skip")
    | .err e => ({ st with dead := true }, "err=" ++ e.toString)

def main : IO Unit := Driver.loop ({} : St) step

end Driver.C13
