import ThermoVerif.Model.Links
import Driver.Util
/-
Line protocol for C13 (copies, links, pickles).  One op per line; the answer is
`ok <canonical dump of every stream>` (values, and object identities as classes
numbered by first appearance), `skip` (outside the domain), or `err=<class>`.
-/
namespace Driver.C13
open ThermoVerif.Links Driver

structure St where
  vw : VWorld := VWorld.init
  dead : Bool := false

def parsePh : String → Option Ph
  | "L" => some .L | "S" => some .S | "g" => some .g | "l" => some .l | "s" => some .s | _ => none

def parsePhs (t : String) : Option (List Ph) := (splitComma t).mapM parsePh

def parseNats (t : String) : Option (List Nat) :=
  if t == "-" then some [] else (splitComma t).mapM (·.toNat?)

/-- `k:v,k:v` or `-` -/
def parsePairs (t : String) : Option (List (Nat × Rat)) :=
  if t == "-" then some [] else
  (splitComma t).mapM fun kv =>
    match splitOn1 kv ':' with
    | [k, v] => do some ((← k.toNat?), (← parseRat? v))
    | _ => none

/-- per-phase flows separated by `;` -/
def parseFlows (t : String) : Option (List FlowSpec) :=
  if t == "-" then some [] else (splitOn1 t ';').mapM parsePairs

def parseBool : String → Option Bool
  | "0" => some false | "1" => some true | _ => none

def parseOp0 (line : String) : Option Op :=
  match splitWs line with
  | "new" :: k :: sid :: pkg :: phases :: flows :: T :: P :: price :: cf :: extras => do
    -- optional: `u:<m|k>:<factor>` (mass / molar units), `t:<total_flow>`, `mw:<cas:MW,...>`
    let units ← extras.foldlM (fun (acc : Option (Bool × Rat)) tok =>
      match splitOn1 tok ':' with
      | ["u", b, f] => do some (some (b == "m", (← parseRat? f)))
      | _ => some acc) none
    let total ← extras.foldlM (fun (acc : Option Rat) tok =>
      match splitOn1 tok ':' with
      | ["t", v] => do some (some (← parseRat? v))
      | _ => some acc) none
    let mws ← extras.foldlM (fun (acc : List (Nat × Rat)) tok =>
      if tok.startsWith "mw:" then parsePairs (tok.drop 3).toString else some acc) []
    let multi ← (match k with | "S" => some false | "M" => some true | _ => none)
    let sid ← (if sid == "-" then some none else sid.toNat?.map some)
    let (pid, pkg) ← (match splitOn1 pkg '=' with
      | [i, l] => do some ((← i.toNat?), (← parseNats l))
      | _ => none)
    some (.new { multi := multi, sid := sid, pkg := pkg, pkgId := pid, phases := (← parsePhs phases),
                 flows := (← parseFlows flows), T := (← parseRat? T), P := (← parseRat? P),
                 price := (← parseRat? price), cf := (← parsePairs cf), units := units, total := total,
                 mw := fun c => (mws.lookup c).getD 1 })
  | ["setflow", s, p, c, v] => do some (.setFlow (← s.toNat?) (← parsePh p) (← c.toNat?) (← parseRat? v))
  | ["setT", s, v] => do some (.setT (← s.toNat?) (← parseRat? v))
  | ["setP", s, v] => do some (.setP (← s.toNat?) (← parseRat? v))
  | ["setphase", s, p] => do some (.setPhase (← s.toNat?) (← parsePh p))
  | ["empty", s] => do some (.empty (← s.toNat?))
  | ["setprice", s, v] => do some (.setPrice (← s.toNat?) (← parseRat? v))
  | ["setcf", s, k, v] => do some (.setCF (← s.toNat?) (← k.toNat?) (← parseRat? v))
  | ["copy", s] => do some (.copy (← s.toNat?))
  | ["copyto", s, pkg] => do
    let (pid, pkg) ← (match splitOn1 pkg '=' with
      | [i, l] => do some ((← i.toNat?), (← parseNats l))
      | _ => none)
    some (.copyTo (← s.toNat?) pid pkg)
  | ["copylike", t, s] => do some (.copyLike (← t.toNat?) (← s.toNat?))
  | ["copytc", t, s] => do some (.copyTC (← t.toNat?) (← s.toNat?))
  | ["link", t, s, f, p, tp] => do
    some (.link (← t.toNat?) (← s.toNat?) (← parseBool f) (← parseBool p) (← parseBool tp))
  | ["unlink", s] => do some (.unlink (← s.toNat?))
  | ["proxy", s] => do some (.proxy (← s.toNat?))
  | ["flowproxy", s] => do some (.flowProxy (← s.toNat?))
  | ["pickle", s] => do some (.pickle (← s.toNat?))
  | _ => none

/-- insertion sort of naturals (packages are tiny) -/
def parseOp (line : String) : Option VOp :=
  match splitWs line with
  | ["view", i, p] => do some (.view (← i.toNat?) (← parsePh p))
  | _ => (parseOp0 line).map VOp.op

def sortNat (l : List Nat) : List Nat :=
  l.foldl (fun acc x => (acc.takeWhile (· < x)) ++ [x] ++ (acc.dropWhile (· < x))) []

def showRow (pkg : List Nat) (r : Row) : String :=
  joinWith "," ((sortNat pkg).filterMap fun c => if r c == 0 then none else some s!"{c}:{showRat (r c)}")

def showCf (d : List (Nat × Rat)) : String :=
  let keys := sortNat (d.map (·.1))
  joinWith "," (keys.map fun k => s!"{k}:{showRat ((d.lookup k).getD 0)}")

/-- canonical numbering of object ids by first appearance -/
def canon (seen : List Nat) (x : Nat) : List Nat × Nat :=
  match seen.idxOf? x with
  | some i => (seen, i)
  | none => (seen ++ [x], seen.length)

def canonAll (seen : List Nat) (xs : List Nat) : List Nat × List Nat :=
  xs.foldl (fun (sn, out) x => let (sn', i) := canon sn x; (sn', out ++ [i])) (seen, [])

def showStream (vw : VWorld) (seen : List Nat) (i : Nat) : List Nat × String :=
  let w := vw.w
  let s := w.strs i
  let phases := w.phasesOf s.imol
  let rows := w.rowIdsOf s.imol
  let body := joinWith "" ((phases.zip rows).map fun (p, r) => s!"{p.toString}[{showRow s.pkg (w.rows r)}]")
  let kind := if w.isMat s.imol then "M" else "S"
  let cont := match w.imols s.imol with
    | .chem ph _ => ph
    | .mat _ a => a
  -- package identities live in their own id space: offset them away from the store ids
  let (seen, ids) := canonAll seen ([s.imol, cont] ++ rows ++ [s.tc, s.cf, 1000000000 + s.pkgId])
  let tc := w.tcs s.tc
  let sid := match s.sid with | some n => toString n | none => "-"
  -- phases and rows may differ in number only in states outside the domain; print both counts then
  let extra := if phases.length == rows.length then "" else s!"!{phases.length}/{rows.length}"
  -- the views handed out, by phase: (row object, thermal condition) they are bound to
  let vs := Ph.all.filterMap fun p => ((vw.vdict i).lookup p).map fun b => (p, b)
  let (seen, vparts) := vs.foldl (fun (sn, acc) (p, r, t) =>
    let (sn1, a) := canon sn r
    let (sn2, b) := canon sn1 t
    (sn2, acc ++ [s!"{p.toString}:{a}.{b}"])) (seen, [])
  (seen, s!"{i}={kind};{body}{extra};{showRat tc.1};{showRat tc.2};{showRat s.price};" ++
         "{" ++ showCf (w.cfs s.cf) ++ "}" ++ s!";{sid};@{joinWith "." (ids.map toString)};v[{joinWith "," vparts}]")

def showWorld (vw : VWorld) : String :=
  let (_, parts) := (List.range vw.w.nS).foldl
    (fun (seen, acc) i => let (sn, t) := showStream vw seen i; (sn, acc ++ [t])) ([], [])
  joinWith " " parts

/-- `pslots <s|c> <n> <k:tok,...>`: slot-wise pickling. Mode `s`: default / cucumber pickling of a slotted object
(`tok` a number; unset slots are not listed).  Mode `c`: `Chemical.__reduce__` (`tok` a number or `n` for None). -/
def stepPSlots (mode n items : String) : String :=
  match n.toNat? with
  | none => "bad-op"
  | some n =>
    let entries := if items == "-" then [] else splitComma items
    let parsed : Option (List (Nat × Option Nat)) := entries.mapM fun kv =>
      match splitOn1 kv ':' with
      | [k, v] => do
        let k ← k.toNat?
        if v == "n" then some (k, none) else do some (k, some (← v.toNat?))
      | _ => none
    match parsed with
    | none => "bad-op"
    | some l =>
      let slots := List.range n
      if mode == "c" then
        let obj : Nat → Option (Option Nat) := fun k => l.lookup k
        let re := chemFromData (chemGetData slots obj)
        "ok " ++ joinWith "," (slots.map fun k => match observeD re k with | some v => s!"{k}:{v}" | none => s!"{k}:n")
      else
        let obj : Nat → Option Nat := fun k => (l.lookup k).join
        let re := newFromState (getState slots obj)
        "ok " ++ joinWith "," (slots.map fun k => match re k with | some v => s!"{k}:{v}" | none => s!"{k}:-")

/-- `pchems <cas=name|name;...> <group=cas|cas;...|-> <key,key,...>`: `CompiledChemicals` round trip, then the
position(s) every key is looked up to -/
def stepPChems (chems groups keys : String) : String :=
  let pc : Option (List (Nat × List Nat)) := (splitOn1 chems ';').mapM fun e =>
    match splitOn1 e '=' with
    | [c, names] => do some ((← c.toNat?), (← (splitOn1 names '|').mapM (·.toNat?)))
    | _ => none
  let pg : Option (List (Nat × List Nat × List Rat)) :=
    if groups == "-" then some [] else (splitOn1 groups ';').mapM fun e =>
      match splitOn1 e '=' with
      | [g, members] => do some ((← g.toNat?), (← (splitOn1 members '|').mapM (·.toNat?)), [])
      | _ => none
  match pc, pg, (splitComma keys).mapM (·.toNat?) with
  | some c, some g, some ks =>
    let x : CChems := ⟨c, g⟩
    let y := CChems.rebuild x.pickleArgs
    "ok " ++ joinWith "," (ks.map fun k => match y.index k with
      | some l => s!"{k}:{joinWith "|" (l.map toString)}"
      | none => s!"{k}:-")
  | _, _, _ => "bad-op"

/-- `fromstreams i,j,...` (`MultiStream.from_streams`): the last operation of a case -/
def stepFromStreams (st : St) (t : String) : St × String :=
  match parseNats t with
  | none => ({ st with dead := true }, "bad-op")
  | some l =>
    if !(l.all (· < st.vw.w.nS)) then ({ st with dead := true }, "err=BadStream") else
    -- one property package is a precondition of `from_streams`
    if l.any (fun j => (st.vw.w.strs j).pkgId != (st.vw.w.strs (l.headD 0)).pkgId) then (st, "skip") else
    match st.vw.w.fromStreams l with
    | .error e => ({ st with dead := true }, "err=" ++ e.toString)
    | .ok (w', i) =>
      -- the given streams are the phase views of the new stream
      let views := l.map fun j =>
        ((w'.phasesOf (w'.strs j).imol).headD .l, (w'.rowIdsOf (w'.strs j).imol).headD 0, (w'.strs j).tc)
      let vw' : VWorld := ⟨w', upd st.vw.vdict i views⟩
      ({ vw := vw', dead := true }, "ok " ++ showWorld vw')

def step (st : St) (line : String) : St × String :=
  if st.dead then (st, "dead") else
  if line.startsWith "fromstreams " then stepFromStreams st (line.drop 12).toString else
  match splitWs line with
  | ["pslots", mode, n, items] => (st, stepPSlots mode n items)
  | ["pchems", chems, groups, keys] => (st, stepPChems chems groups keys)
  | _ =>
  match parseOp line with
  | none => ({ st with dead := true }, "bad-op")
  | some op =>
    match st.vw.step op with
    | .ok vw' => ({ st with vw := vw' }, "ok " ++ showWorld vw')
    | .skip => (st, "skip")
    | .err e => ({ st with dead := true }, "err=" ++ e.toString)

def main : IO Unit := Driver.loop ({} : St) step

end Driver.C13
