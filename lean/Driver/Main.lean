import Driver.C18
/-
Entry point of the line-protocol driver: `driver <property-id>` reads operations
on stdin and writes one canonical answer per line.
-/
def main (args : List String) : IO UInt32 := do
  match args with
  | ["C18"] => Driver.C18.main; return 0
  | _ => IO.eprintln "usage: driver <property-id>"; return 2
