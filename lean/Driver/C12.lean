import ThermoVerif.Model.Phases
import Driver.Util
/-
Line protocol for C12 (phase representation of streams).  One op per line; the answer is the canonical
state of every stream of the universe and of every phase view handed out so far, prefixed by
`err=<Class> ` when the op raised (an error leaves the state as it was).  See harness/props/c12.py for
the op list.
-/
namespace Driver.C12
open ThermoVerif.Phases Driver

/-- a `stream.temporary(T=, P=)` context object: its stream, the T and P it sets on entering, and the model
snapshot that plays the role of its `data` attribute -/
structure Ctx where
  k : Nat
  T : Option Rat
  P : Option Rat
  snap : Nat

structure St where
  w : World := World.init 3
  snapMap : List Nat := []      -- adapter snapshot number ↦ index into `w.snaps`
  ctxs : List Ctx := []

def parseOptRat (t : String) : Option (Option Rat) :=
  if t == "-" then some none else (parseRat? t).map some

/-- `__enter__`: `self.data = stream.get_data()`, then T and P as given -/
def enterCtx (w : World) (c : Ctx) : World × Ctx :=
  let idx := w.snaps.length
  let w1 := w.apply (.save c.k)
  let w2 := match c.T with | some x => w1.apply (.wT c.k x) | none => w1
  let w3 := match c.P with | some x => w2.apply (.wP c.k x) | none => w2
  (w3, { c with snap := idx })

def parsePh : String → Option Ph
  | "L" => some .L | "S" => some .S | "g" => some .g | "l" => some .l | "s" => some .s | _ => none

def parsePhs (t : String) : Option (List Ph) := (splitComma t).mapM parsePh

def parseLetters (t : String) : Option (List Ph) :=
  if t == "-" then some [] else t.toList.mapM (fun c => parsePh c.toString)

def parseVals (n : Nat) (t : String) : Option (Nat → Rat) := do
  let l ← (splitComma t).mapM parseRat?
  if l.length = n then some (fun i => l.getD i 0) else none

def parseFlows (n : Nat) (t : String) : Option (List (Ph × (Nat → Rat))) :=
  if t == "-" then some [] else
  (splitOn1 t ';').mapM fun part =>
    match splitOn1 part ':' with
    | [p, vs] => do some ((← parsePh p), (← parseVals n vs))
    | _ => none

def parseBool : String → Option Bool
  | "1" => some true | "0" => some false | _ => none

def showVals (n : Nat) (v : Nat → Rat) : String :=
  "[" ++ joinWith "," ((List.range n).map (fun i => showRat (v i))) ++ "]"

/-- smallest stream index with the same value of `f` -/
def cls (w : World) (f : Nat → Bool) : String :=
  match (List.range w.nStr).find? f with
  | some j => toString j | none => "-"

def showStream (w : World) (k : Nat) : String :=
  let s := w.str k
  let kd := if s.multi then "M" else "S"
  let cache := if s.multi then (Ph.all.filterMap fun p =>
      ((w.cacheOf k).find? (fun c => c.1 == p)).map (fun c => s!"{p.toString}>h{c.2}")) else []
  s!"s{k}:k={kd} ph={joinWith "," ((w.phases k).map Ph.toString)} " ++
  s!"rows={joinWith ";" ((w.pr k).map (fun x => showVals w.n (w.row x.2)))} " ++
  s!"T={showRat (w.temp k)} P={showRat (w.pres k)} " ++
  s!"id={cls w (fun j => (w.str j).imol == s.imol)}/{cls w (fun j => w.rows j == w.rows k)}/" ++
  s!"{cls w (fun j => (w.str j).tc == s.tc)}/{cls w (fun j => (w.str j).cache == s.cache)} " ++
  s!"cache={joinWith "," cache}"

def showState (w : World) : String :=
  let hs := (List.range w.nView).map fun h =>
    let v := w.view h
    let att := match (List.range w.nStr).findSome? (fun k =>
        ((w.pr k).find? (fun x => x.2 == v.row)).map (fun x => s!"{k}.{x.1.toString}")) with
      | some s => s | none => "-"
    s!"h{h}:{v.phase.toString}@{att}:tc{cls w (fun j => (w.str j).tc == v.tc)}:{showVals w.n (w.row v.row)}"
  joinWith " || " ((List.range w.nStr).map (showStream w)) ++ s!" || hs={joinWith "|" hs}"

def parseNats (t : String) : Option (List Nat) := (splitComma t).mapM (·.toNat?)

def parseOp (w : World) (line : String) : Option Op :=
  match splitWs line with
  | ["new", "S", p, T, P, f] => do
    some (.newS (← parsePh p) (← parseRat? T) (← parseRat? P) (← parseVals w.n f))
  | ["new", "M", ps, T, P, fl] => do
    let ps ← parsePhs ps
    let fl ← parseFlows w.n fl
    if (phaseTuple ps).length < 2 then none
    else if fl.all (fun x => ps.contains x.1) then
      some (.newM ps (← parseRat? T) (← parseRat? P) fl)
    else none
  | ["sphases", k, ps] => do
    let ps ← parsePhs ps
    if ps.isEmpty then none else some (.setPhases (← k.toNat?) ps)
  | ["sphases", k, ps, form] => do
    -- the container the labels are handed over in (tuple, list, set, str, generator) makes no difference
    let ps ← parsePhs ps
    if ps.isEmpty || !(["tuple", "list", "set", "str", "gen"].contains form) then none
    else some (.setPhases (← k.toNat?) ps)
  | ["sphase", k, ls] => do some (.setPhase (← k.toNat?) (← parseLetters ls))
  | ["reduce", k] => do some (.reduce (← k.toNat?))
  | ["asstream", k] => do some (.asStream (← k.toNat?))
  | ["vle", k] => do some (.vle (← k.toNat?))
  | ["lle", k] => do some (.lle (← k.toNat?))
  | ["sle", k] => do some (.sle (← k.toNat?))
  | ["empty", k] => do some (.empty (← k.toNat?))
  | ["view", k, p] => do some (.view (← k.toNat?) (← parsePh p))
  | ["wview", h, i, x] => do
    let i ← i.toNat?
    if i < w.n then some (.wView (← h.toNat?) i (← parseRat? x)) else none
  | ["wpar", k, p, i, x] => do
    let i ← i.toNat?
    let p ← if p == "-" then some none else (parsePh p).map some
    if i < w.n then some (.wPar (← k.toNat?) p i (← parseRat? x)) else none
  | ["wT", k, x] => do some (.wT (← k.toNat?) (← parseRat? x))
  | ["wP", k, x] => do some (.wP (← k.toNat?) (← parseRat? x))
  | ["wvT", h, x] => do some (.wvT (← h.toNat?) (← parseRat? x))
  | ["wvP", h, x] => do some (.wvP (← h.toNat?) (← parseRat? x))
  | ["vphase", h, p] => do some (.vPhase (← h.toNat?) (← parsePh p))
  | ["hphases", h, ps] => do
    let ps ← parsePhs ps
    if ps.isEmpty then none else some (.hPhases (← h.toNat?) ps)
  | ["hvle", h] => do some (.hAccessor (← h.toNat?))
  | ["hlle", h] => do some (.hAccessor (← h.toNat?))
  | ["hsle", h] => do some (.hAccessor (← h.toNat?))
  | ["save", k] => do some (.save (← k.toNat?))
  | ["restore", k, idx] => do some (.restore (← k.toNat?) (← idx.toNat?))
  | ["unlink", k] => do some (.unlink (← k.toNat?))
  | ["link", k, j, fl, tp] => do some (.link (← k.toNat?) (← j.toNat?) (← parseBool fl) (← parseBool tp))
  | ["copylike", k, j] => do some (.copyLike (← k.toNat?) (← j.toNat?))
  | ["mix", k, js] => do some (.mixFrom (← k.toNat?) (← parseNats js))
  | ["thermo", k, t] => do some (.resetThermo (← k.toNat?) (← t.toNat?))
  | ["proxy", k] => do some (.proxy (← k.toNat?))
  | _ => none

def step (st : St) (line : String) : St × String :=
  -- `chems n` before the first stream: the number of chemicals of the case
  match splitWs line with
  | ["chems", n] =>
    match n.toNat? with
    | some n => if st.w.nStr == 0 && 2 ≤ n && n ≤ 4 then ({ st with w := World.init n }, s!"chems={n}") else (st, "bad-op")
    | none => (st, "bad-op")
  | ["iter", k] =>
    -- `list(stream)`: `MultiStream.__iter__` asks for the view of every phase in order; a `Stream` yields itself
    match k.toNat? with
    | some k =>
      if k < st.w.nStr then
        let w' := if (st.w.str k).multi then
            (st.w.phases k).foldl (fun w p => w.apply (.view k p)) st.w
          else st.w
        ({ st with w := w' }, showState w')
      else (st, "err=IndexError " ++ showState st.w)
    | none => (st, "bad-op")
  | ["tmp", k, T, P] =>
    -- `ctx = stream.temporary(T=, P=)`: the constructor already takes a snapshot
    match k.toNat?, parseOptRat T, parseOptRat P with
    | some k, some T, some P =>
      if k < st.w.nStr then
        let idx := st.w.snaps.length
        let w' := st.w.apply (.save k)
        ({ st with w := w', ctxs := st.ctxs ++ [{ k := k, T := T, P := P, snap := idx }] }, showState w')
      else (st, "err=IndexError " ++ showState st.w)
    | _, _, _ => (st, "bad-op")
  | ["enter", c] =>
    match c.toNat? with
    | some c =>
      match st.ctxs[c]? with
      | some cx =>
        let (w', cx') := enterCtx st.w cx
        ({ st with w := w', ctxs := st.ctxs.set c cx' }, showState w')
      | none => (st, "err=IndexError " ++ showState st.w)
    | none => (st, "bad-op")
  | ["exit", c] =>
    -- `__exit__`: `stream.set_data(self.data)`
    match c.toNat? with
    | some c =>
      match st.ctxs[c]? with
      | some cx =>
        match st.w.step (.restore cx.k cx.snap) with
        | .ok w' => ({ st with w := w' }, showState w')
        | .error e => (st, s!"err={e.toString} " ++ showState st.w)
      | none => (st, "err=IndexError " ++ showState st.w)
    | none => (st, "bad-op")
  | ["with", k, T, P] =>
    -- `with stream.temporary(T=, P=): pass`
    match k.toNat?, parseOptRat T, parseOptRat P with
    | some k, some T, some P =>
      if k < st.w.nStr then
        let w0 := st.w.apply (.save k)
        let (w1, cx) := enterCtx w0 { k := k, T := T, P := P, snap := 0 }
        match w1.step (.restore k cx.snap) with
        | .ok w' => ({ st with w := w' }, showState w')
        | .error e => (st, s!"err={e.toString} " ++ showState st.w)
      else (st, "err=IndexError " ++ showState st.w)
    | _, _, _ => (st, "bad-op")
  | ["save", k] =>
    match k.toNat? with
    | some k =>
      match st.w.step (.save k) with
      | .ok w' => ({ st with w := w', snapMap := st.snapMap ++ [st.w.snaps.length] }, showState w')
      | .error e => (st, s!"err={e.toString} " ++ showState st.w)
    | none => (st, "bad-op")
  | ["restore", k, n] =>
    match k.toNat?, n.toNat? with
    | some k, some n =>
      match st.w.step (.restore k ((st.snapMap[n]?).getD st.w.snaps.length)) with
      | .ok w' => ({ st with w := w' }, showState w')
      | .error e => (st, s!"err={e.toString} " ++ showState st.w)
    | _, _ => (st, "bad-op")
  | _ =>
  match parseOp st.w line with
  | none => (st, "bad-op")
  | some op =>
    match st.w.step op with
    | .ok w' => ({ st with w := w' }, showState w')
    | .error .outOfModel => (st, "bad-op")
    | .error e => (st, s!"err={e.toString} " ++ showState st.w)

def main : IO Unit := Driver.loop ({} : St) step

end Driver.C12
