import ThermoVerif.Model.Phases
import Driver.Util
/-
Line protocol for C12 (phase representation of streams).  One op per line; the answer is the canonical
state of the stream and of every phase view handed out so far, prefixed by `err=<Class> ` when the op
raised (an error leaves the state as it was).  See harness/props/c12.py for the op list.
-/
namespace Driver.C12
open ThermoVerif.Phases Driver

structure St where
  w : World := World.init
  started : Bool := false

def parsePh : String → Option Ph
  | "L" => some .L | "S" => some .S | "g" => some .g | "l" => some .l | "s" => some .s | _ => none

def parsePhs (t : String) : Option (List Ph) := (splitComma t).mapM parsePh

def parseLetters (t : String) : Option (List Ph) :=
  if t == "-" then some [] else t.toList.mapM (fun c => parsePh c.toString)

def parseVals (n : Nat) (t : String) : Option (Nat → Rat) := do
  let l ← (splitComma t).mapM parseRat?
  if l.length = n then some (fun i => l.getD i 0) else none

def parseFlows (n : Nat) (t : String) : Option (List (Ph × (Nat → Rat))) :=
  if t == "-" then some [] else
  (splitOn1 t ';').mapM fun part =>
    match splitOn1 part ':' with
    | [p, vs] => do some ((← parsePh p), (← parseVals n vs))
    | _ => none

def showVals (n : Nat) (v : Nat → Rat) : String :=
  "[" ++ joinWith "," ((List.range n).map (fun i => showRat (v i))) ++ "]"

def showState (w : World) : String :=
  let s := w.s
  let k := if s.multi then "M" else "S"
  let cache := (Ph.all.filterMap fun p =>
      (s.cache.find? (fun c => c.1 == p)).map (fun c => s!"{p.toString}>h{c.2}"))
  let hs := (List.range w.nView).map fun h =>
    let v := w.view h
    let att := match s.pr.find? (fun x => x.2 == v.row) with
      | some x => x.1.toString | none => "-"
    s!"h{h}:{v.phase.toString}@{att}:tc{if v.tc == s.tc then 1 else 0}:{showVals w.n (w.row v.row)}"
  s!"k={k} ph={joinWith "," (s.phases.map Ph.toString)} " ++
  s!"rows={joinWith ";" (s.pr.map (fun x => showVals w.n (w.row x.2)))} " ++
  s!"T={showRat w.temp} P={showRat w.pres} cache={joinWith "," cache} hs={joinWith "|" hs}"

def parseOp (w : World) (line : String) : Option Op :=
  match splitWs line with
  | ["new", "S", p, T, P, f] => do
    some (.newS (← parsePh p) (← parseRat? T) (← parseRat? P) (← parseVals w.n f))
  | ["new", "M", ps, T, P, fl] => do
    let ps ← parsePhs ps
    let fl ← parseFlows w.n fl
    if (phaseTuple ps).length < 2 then none
    else if fl.all (fun x => ps.contains x.1) then
      some (.newM ps (← parseRat? T) (← parseRat? P) fl)
    else none
  | ["sphases", ps] => do
    let ps ← parsePhs ps
    if ps.isEmpty then none else some (.setPhases ps)
  | ["sphase", ls] => do some (.setPhase (← parseLetters ls))
  | ["reduce"] => some .reduce
  | ["asstream"] => some .asStream
  | ["vle"] => some .vle
  | ["lle"] => some .lle
  | ["sle"] => some .sle
  | ["empty"] => some .empty
  | ["view", p] => do some (.view (← parsePh p))
  | ["wview", h, i, x] => do
    let i ← i.toNat?
    if i < w.n then some (.wView (← h.toNat?) i (← parseRat? x)) else none
  | ["wpar", p, i, x] => do
    let i ← i.toNat?
    let p ← if p == "-" then some none else (parsePh p).map some
    if i < w.n then some (.wPar p i (← parseRat? x)) else none
  | ["wT", x] => do some (.wT (← parseRat? x))
  | ["wP", x] => do some (.wP (← parseRat? x))
  | ["wvT", h, x] => do some (.wvT (← h.toNat?) (← parseRat? x))
  | ["wvP", h, x] => do some (.wvP (← h.toNat?) (← parseRat? x))
  | ["vphase", h, p] => do some (.vPhase (← h.toNat?) (← parsePh p))
  | ["save"] => some .save
  | ["restore", k] => do some (.restore (← k.toNat?))
  | _ => none

def isNew : Op → Bool
  | .newS .. | .newM .. => true
  | _ => false

def step (st : St) (line : String) : St × String :=
  match parseOp st.w line with
  | none => (st, "bad-op")
  | some op =>
    if !st.started && !isNew op then (st, "err=NoStream") else
    match st.w.step op with
    | .ok w' => ({ w := w', started := true }, showState w')
    | .error e => (st, s!"err={e.toString} " ++ showState st.w)

def main : IO Unit := Driver.loop ({} : St) step

end Driver.C12
