import ThermoVerif.Model.Reaction
import Driver.Util
/-
Line protocol for C05 (reactions conserve atoms and mass and convert exactly X).

  pkg <k> ids=<u,..> names=<a|b;c;..> mw=<q,..> atoms=<q,..;q,..> am=<q,..>
        → `ok mw=ok|BAD`            (monitor of the hypothesis MW = mᵀA)
  rxn <name> pkg=<k> basis=<mol|wt> X=<q> r=<auto|ID> phases=<-|chars> def=<str|dict|xdict> | <payload>
        → `nu=<rows> r=<flat> ph=<codes> bal=<0|1> exact=<0|1> chk=<0|1>` or `err=<class>`
          (chk: would `check_atomic_balance=True` accept the definition)
  setbasis <name> <mol|wt>          → as `rxn`
  copybasis <new> <orig> <mol|wt> [how=copy|setter]   → as `rxn`, for the new object (`orig.copy(basis=…)`)
  show <name>                       → as `rxn` (the stored single reaction as it is now)
  repkg <name> <k>                  → as `rxn`: `rxn.reset_chemicals(package k)`
  balance <name> constants=<IDs|-> x=<rows>   → as `rxn`: `correct_atomic_balance(constants)`; `x` = the balanced
                                      stoichiometry by mol the external solve must produce (monitored)
  rxn … correct=1 x=<rows>          the constructor flag `correct_atomic_balance=True`
  par|ser|sys <name> <member,..>    → `ok` or `err=<class>`
  call <name> arr rows=<rows>       → `out=<rows> exact=<0|1> tag=<clean|clamp> negsum=<q>` or `err=<class> negsum=<q>`
  call <name> stream pkg=<k> ph=<chars> rows=<rows>   → likewise
  (… mode=force on a call line: `force_reaction` instead of `__call__`; mode=nocheck: `__call__` with
   `tmo.reaction.CHECK_FEASIBILITY = False`, the same code path)
  call <name> view sel=<mol|mass> ph=<chars> rows=<mol rows>   → likewise (a view of a stream handed as array)
  sys <name> <members> [basis=…]    members may be systems themselves (flattened)

rows are `q,q,..;q,q,..` (one group per phase row).
-/
namespace Driver.C05
open ThermoVerif.Reaction Driver

structure Pk where
  ids : List Nat
  names : Names
  mw : Vec
  atoms : List Vec
  am : Vec

/-- a named reaction object; `bal` = every reaction in it is atomically balanced;
`ex` = its stoichiometry is exactly what the implementation holds (raw coefficients and the
rescaled ones are binary64 values and no basis change happened) -/
structure Entry where
  o : RObj
  bal : Bool
  ex : Bool
  /-- a `ReactionSystem` keeps references to its member objects (names here) -/
  members : List String := []

structure St where
  pkgs : List (Nat × Pk) := []
  objs : List (String × Entry) := []

def kv (toks : List String) (key : String) : Option String :=
  toks.findSome? fun t => if t.startsWith (key ++ "=") then some (t.drop (key.length + 1)).toString else none

def parseVec (s : String) : Option Vec := (splitComma s).mapM parseRat?

def parseRows (s : String) : Option (List Vec) :=
  if s == "" then some [] else (splitOn1 s ';').mapM parseVec

def showVec (v : Vec) : String := joinWith "," (v.map showRat)
def showRows (r : List Vec) : String := joinWith ";" (r.map showVec)

def absQ (q : Rat) : Rat := if q < 0 then -q else q

/-- is the rational exactly a binary64 value (exponent range not checked beyond 2^±1000)? -/
def oddPartAux : Nat → Nat → Nat
  | 0, n => n
  | fuel + 1, n => if n != 0 && n % 2 == 0 then oddPartAux fuel (n / 2) else n

/-- `n` without its factors of two (`n` itself is more fuel than there are such factors) -/
def oddPart (n : Nat) : Nat := oddPartAux n n

def isPow2 (d : Nat) : Bool := d != 0 && (d &&& (d - 1)) == 0

def isDouble (q : Rat) : Bool :=
  isPow2 q.den && oddPart q.num.natAbs < 2 ^ 53 && q.den ≤ 2 ^ 1000 && q.num.natAbs < 2 ^ 1000

/-! exactness evaluator: would every intermediate of the implementation's float arithmetic be
exactly representable?  (Then IEEE arithmetic returns exactly the rational results.) -/

def exAxpy (c : Rat) (x y : Vec) : Bool :=
  (List.zip y x).all fun (yi, xi) => isDouble (c * xi) && isDouble (yi + c * xi)

def exRxn (rx : Rxn) (n : Vec) : Bool :=
  let c := n.getD rx.r 0 * rx.X
  isDouble c && exAxpy c rx.nu n

def exSeries : List Rxn → Vec → Bool
  | [], _ => true
  | rx :: rxs, n => exRxn rx n && exSeries rxs (rx.react n)

def exApply : List Rat → List Rxn → Vec → Bool
  | e :: es, rx :: rxs, acc => isDouble e && exAxpy e rx.nu acc && exApply es rxs (axpy e rx.nu acc)
  | _, _, _ => true

def exMember : Member → Vec → Bool
  | .single rx, n => exRxn rx n
  | .parallel rxs, n => exApply (extents rxs n) rxs n
  | .series rxs, n => exSeries rxs n

def exSystem : List Member → Vec → Bool
  | [], _ => true
  | m :: ms, n => exMember m n && exSystem ms (m.react n)

def exKind : Kind → Vec → Bool
  | .member m, n => exMember m n
  | .system ms, n => exSystem ms n


def St.pkg (st : St) (k : Nat) : Option Pk := (st.pkgs.find? (·.1 == k)).map (·.2)
def St.obj (st : St) (n : String) : Option Entry := (st.objs.find? (·.1 == n)).map (·.2)
def St.put (st : St) (n : String) (e : Entry) : St :=
  { st with objs := (n, e) :: st.objs.filter (·.1 != n) }

def parseBasis : String → Option Basis
  | "mol" => some .mol | "wt" => some .wt | _ => none

/-- is the (single) reaction atomically balanced, judged like `atomic_balance_error`
(`formula_array @ stoichiometry_by_mol`), with tolerance 1e-9 relative to the largest
coefficient -/
def balanced (pk : Pk) (basis : Basis) (p : Nat) (nu : Vec) : Bool :=
  let mwT := tile p pk.mw
  let numol := match basis with | .mol => nu | .wt => hdiv nu mwT
  let scale := numol.foldl (fun a x => if absQ x > a then absQ x else a) 0
  pk.atoms.all fun a => absQ (dot (tile p a) numol) ≤ scale / 1000000000

/-- `Reaction.check_atomic_balance` (tol = 1e-3) as proposed in fixes_proposed/C05-4.md: every
element's imbalance of the rescaled stoichiometry, summed over the phases, is within `tol` -/
def checkAtomic (pk : Pk) (basis : Basis) (p : Nat) (nu : Vec) : Bool :=
  let mwT := tile p pk.mw
  let numol := match basis with | .mol => nu | .wt => hdiv nu mwT
  pk.atoms.all fun a => absQ (dot (tile p a) numol) ≤ 1 / 1000

def showRxn (o : RObj) (rx : Rxn) (bal : Bool) (ex : Bool) : String :=
  let n := o.pkg.length
  let rows := chunk n o.nRows rx.nu
  s!"nu={showRows rows} r={rx.r} ph={joinWith "," (o.phases.map toString)} bal={if bal then 1 else 0} exact={if ex then 1 else 0}"

def errLine (e : Err) : String := s!"err={e.toString}"

def parseTermsDict (x : Bool) (payload : String) : Option Terms :=
  (splitComma payload).mapM fun t =>
    match splitOn1 t ':', x with
    | [id, c], false => (parseRat? c).map fun c => (id, none, c)
    | [id, ph, c], true =>
      match ph.toList with
      | [p] => (parseRat? c).map fun c => (id, some p, c)
      | _ => none
    | _, _ => none

/-- `Reaction.__init__` -/
def mkRxn (pk : Pk) (basis : Basis) (X : Rat) (r : String) (phasesArg : String) (defKind : String)
    (payload : String) : Option (Except Err (RObj × Rxn × Bool)) :=
  let n := pk.ids.length
  -- phases: the keyword if given, else those found in the definition
  let found : List Char :=
    if defKind == "str" then stringPhases payload
    else if defKind == "xdict" then ((parseTermsDict true payload).getD []).filterMap (·.2.1)
    else []
  let phasesE := if phasesArg != "-" then phaseTuple phasesArg.toList else phaseTuple found
  match phasesE with
  | .error e => some (.error e)
  | .ok phases =>
    let x := !phases.isEmpty
    let termsO : Option (Except Err Terms) :=
      if defKind == "str" then str2terms x payload
      else if defKind == "dict" then
        (parseTermsDict false payload).map fun t => .ok (t.filter (·.2.2 != 0))
      else if defKind == "xdict" then (parseTermsDict true payload).map .ok
      else if defKind == "xarr" then some (.ok [])       -- rows given directly (below)
      else none
    match termsO with
    | none => none
    | some (.error e) => some (.error e)
    | some (.ok terms) =>
      if x && (defKind == "dict") then none else   -- a plain dict with phases is not generated
      let flatE : Except Err (Vec × Nat) :=
        if x then do
          -- `Reaction([[…], […]], phases=…)`: the rows are taken as given, in the order of the sorted phases
          let rows ← if defKind == "xarr" then
              (match parseRows payload with
               | some r => if r.length == phases.length && r.all (·.length == n) then .ok r else .error .shape
               | none => .error .shape)
            else terms2rows pk.names phases terms
          let j ← if r == "auto" then autoReactantCol rows n
                  else match pk.names.index r with
                    | some j => pure j
                    | none => throw .undefinedChemical
          pure (rows.flatten, reactantFlat rows n j)
        else do
          let v ← terms2vec pk.names terms
          let j ← if r == "auto" then autoReactant v
                  else match pk.names.index r with
                    | some j => pure j
                    | none => throw .undefinedChemical
          pure (v, j)
      some do
        let (raw, rf) ← flatE
        let rx ← Rxn.make raw rf X
        let o : RObj := { kind := .member (.single rx), basis, phases, pkg := pk.ids, mw := pk.mw }
        pure (o, rx, raw.all isDouble && rx.nu.all isDouble)

def pkOf (st : St) (o : RObj) : Option Pk := (st.pkgs.find? (fun (_, pk) => pk.ids == o.pkg)).map (·.2)

def members (st : St) (names : List String) : Option (List Entry) := names.mapM st.obj

def sameConfig (es : List Entry) : Except Err (Basis × List Nat × List Nat × Vec) :=
  match es with
  | [] => .error .valueError
  | e :: rest =>
    let o := e.o
    if rest.all fun e' => e'.o.phases == o.phases && e'.o.pkg == o.pkg && e'.o.basis == o.basis
    then .ok (o.basis, o.phases, o.pkg, o.mw) else .error .valueError

/-- a `ReactionSystem` is looked at through its references: the members as they are *now*
(stoichiometry and basis; `member.basis = …` may have been used after the system was built) -/
def St.currentAux (st : St) : Nat → Entry → Option (List Member × List Basis × Bool)
  | 0, _ => none
  | fuel + 1, e =>
    if e.members.isEmpty then
      match e.o.kind with
      | .member (.single rx) => some ([.single rx], [e.o.basis], e.ex)   -- a plain Reaction: basis as it is now
      | .member m => some ([m], [], e.ex)                                   -- a set keeps its label
      | .system ms => some (ms, [], e.ex)
    else
      -- a (possibly nested) ReactionSystem: its members one after the other, i.e. the flattened list;
      -- every level re-checks the basis of its members (the label of a nested system is its own basis)
      match e.members.mapM st.obj with
      | none => none
      | some es =>
        (es.mapM (st.currentAux fuel)).map fun parts =>
          (parts.flatMap (·.1), e.o.basis :: parts.flatMap (·.2.1), parts.all (·.2.2))

def St.current (st : St) (e : Entry) : Entry :=
  if e.members.isEmpty then e else
  match st.currentAux 8 e with
  | none => e
  | some (ms, bases, ex) => { e with o := { e.o with kind := .system ms, memberBases := bases }, ex := ex }

def callLine (o : RObj) (nuEx : Bool) (mat : Material) (flatIn : Vec) (streamWt : Bool)
    (force : Bool := false) : String :=
  -- negsum of the reacted material in the reaction's own layout is reported for the
  -- comparison's leniency at the threshold (tolerance mode only)
  let feed : Option Vec :=
    match mat with
    | .array rows => some rows.flatten
    | .stream _ pkg rows =>
      match (if pkg == o.pkg then .ok rows else remapRows pkg o.pkg rows) with
      | .ok rows1 =>
        let f := rows1.flatten
        some (if streamWt then hmul f (tile rows1.length o.mw) else f)
      | .error _ => none
  let reacted := feed.map o.kind.react
  let ns := match reacted with | some v => negSum v | none => 0
  -- `fragile`: some entry that a reaction of the object can change ends within round-off of zero,
  -- so that in floating point the sign of that entry (and with it the feasibility decision, or
  -- whether a residue of it has to be written back) is not determined
  let touched (i : Nat) : Bool := o.kind.rxns.any fun rx => rx.nu.getD i 0 != 0
  let fragile := match feed, reacted with
    | some f, some v =>
      let scale := (f ++ v).foldl (fun a x => if absQ x > a then absQ x else a) 1
      (List.zip (List.range v.length) v).any fun (i, b) => touched i && absQ b ≤ scale / 1000000000
    | _, _ => false
  -- 2 = moreover a reaction touches a chemical that the stream's own package lacks, so that a
  -- round-off residue of it cannot be written back (UndefinedChemical in floating point)
  let touchAbsent := match mat with
    | .stream _ pkg _ =>
      let n := o.pkg.length
      o.kind.rxns.any fun rx => (List.zip (List.range rx.nu.length) rx.nu).any fun (i, c) =>
        c != 0 && !(pkg.contains (o.pkg.getD (i % n) 0))
    | _ => false
  let ex := !streamWt && nuEx && exKind o.kind flatIn
  let tail := s!"exact={if ex then 1 else 0} fragile={if fragile then (if touchAbsent then 2 else 1) else 0} negsum={showRat ns}"
  match (if force then o.force negEps mat else o.call feasTol mat) with
  | .error e => s!"err={e.toString} {tail}"
  | .ok rows =>
    let tag := match reacted with | some v => if v.any (· < 0) then "clamp" else "clean" | none => "clean"
    s!"out={showRows rows} tag={tag} {tail}"

/-- `head | payload`: split at the first ` | ` (space, bar, space) -/
def splitPayload (line : String) : String × String :=
  let rec go (acc : List Char) : List Char → String × String
    | ' ' :: '|' :: ' ' :: rest => (String.ofList acc.reverse, (String.ofList rest).trimAscii.toString)
    | c :: rest => go (c :: acc) rest
    | [] => (String.ofList acc.reverse, "")
  go [] line.toList

def step (st : St) (line : String) : St × String :=
  let (head, payload) := splitPayload line
  let toks := splitWs head
  match toks with
  | "pkg" :: k :: rest =>
    match k.toNat?, (kv rest "ids").bind (fun s => (splitComma s).mapM (·.toNat?)),
          kv rest "names", (kv rest "mw").bind parseVec, (kv rest "atoms").bind parseRows,
          (kv rest "am").bind parseVec with
    | some k, some ids, some names, some mw, some atoms, some am =>
      let names : Names := (splitOn1 names ';').map fun s => splitOn1 s '|'
      let pk : Pk := { ids, names, mw, atoms, am }
      -- hypothesis monitor: MW_j = Σ_a am_a · A_aj (to 1e-9 relative)
      let implied := mwOf am atoms ids.length
      let ok := (List.range ids.length).all fun j =>
        absQ (mw.getD j 0 - implied.getD j 0) ≤ absQ (mw.getD j 0) / 1000000000
      let shapes := mw.length == ids.length && names.length == ids.length &&
        atoms.all (·.length == ids.length) && am.length == atoms.length
      if shapes then
        ({ st with pkgs := (k, pk) :: st.pkgs.filter (·.1 != k) }, s!"ok mw={if ok then "ok" else "BAD"}")
      else (st, "bad-op")
    | _, _, _, _, _, _ => (st, "bad-op")
  | "rxn" :: name :: rest =>
    match (kv rest "pkg").bind (·.toNat?) |>.bind st.pkg, (kv rest "basis").bind parseBasis,
          (kv rest "X").bind parseRat?, kv rest "r", kv rest "phases", kv rest "def" with
    | some pk, some basis, some X, some r, some ph, some dk =>
      match mkRxn pk basis X r ph dk payload with
      | none => (st, "bad-op")
      | some (.error e) => (st, errLine e)
      | some (.ok (o0, rx0, ex0)) =>
        -- the constructor flag `correct_atomic_balance=True`: balance right after the first rescale
        let corr : Option (Except Err (RObj × Rxn × Bool)) :=
          match kv rest "correct", (kv rest "x").bind parseRows with
          | some "1", some xrows =>
            let x := xrows.flatten
            let okBal := pk.atoms.all fun a => dot (tile o0.nRows a) x == 0
            let okPat := x.length == rx0.nu.length && (List.zip rx0.nu x).all fun (a, b) => (a == 0) == (b == 0)
            if !(okBal && okPat) then none else
            some ((rx0.rebalance basis (tile o0.nRows o0.mw) x).map fun rx' =>
              -- (the solve is floating point: never exact)
              ({ o0 with kind := .member (.single rx') }, rx', false))
          | some "1", none => none
          | _, _ => some (.ok (o0, rx0, ex0))
        match corr with
        | none => (st, "hyp=BAD")
        | some (.error err) => (st, errLine err)
        | some (.ok (o, rx, ex)) =>
        let bal := balanced pk basis o.nRows rx.nu
        (st.put name { o, bal, ex },
          -- chk: the gate `check_atomic_balance=True` alone, i.e. on the definition as written
          showRxn o rx bal ex ++ s!" chk={if checkAtomic pk basis o0.nRows rx0.nu then 1 else 0}")
    | _, _, _, _, _, _ => (st, "bad-op")
  | ["setbasis", name, b] =>
    match st.obj name, parseBasis b with
    | none, _ => (st, "noref")
    | some e, some b =>
      let o := e.o
      match o.kind with
      | .member (.single rx) =>
        if b == o.basis then (st, showRxn o rx e.bal e.ex) else
        let mwT := tile o.nRows o.mw
        match (if b == .wt then rx.toWt mwT else rx.toMol mwT) with
        | .error err => (st, errLine err)
        | .ok rx' =>
          let o' := { o with kind := .member (.single rx'), basis := b }
          (st.put name { o := o', bal := e.bal, ex := false }, showRxn o' rx' e.bal false)
      | _ => (st, "bad-op")
    | _, _ => (st, "bad-op")
  | "balance" :: name :: rest =>
    -- `rxn.correct_atomic_balance(constants=…)`; `x` = the balanced stoichiometry by mol the solver must
    -- arrive at (hypothesis monitors: it balances every element; it has the zero pattern of the reaction)
    match st.obj name, (kv rest "x").bind parseRows with
    | none, _ => (st, "noref")
    | some e, some xrows =>
      let o := e.o
      match o.kind, pkOf st o with
      | .member (.single rx), some pk =>
        let x := xrows.flatten
        let p := o.nRows
        let okBal := pk.atoms.all fun a => dot (tile p a) x == 0
        let okPat := x.length == rx.nu.length && (List.zip rx.nu x).all fun (a, b) => (a == 0) == (b == 0)
        if !(okBal && okPat) then (st, s!"hyp=BAD bal={okBal} pattern={okPat}") else
        match rx.rebalance o.basis (tile p o.mw) x with
        | .error err => (st, errLine err)
        | .ok rx' =>
          let o' := { o with kind := .member (.single rx') }
          -- (the solve is floating point: never exact)
          (st.put name { e with o := o', bal := true, ex := false }, showRxn o' rx' true false)
      | _, _ => (st, "bad-op")
    | _, _ => (st, "bad-op")
  | ["repkg", name, k] =>
    -- `rxn.reset_chemicals(<package k>)` on a single reaction
    match st.obj name, k.toNat?.bind st.pkg with
    | none, _ => (st, "noref")
    | some e, some pk =>
      let o := e.o
      match o.kind with
      | .member (.single rx) =>
        if pk.ids == o.pkg then (st, showRxn o rx e.bal e.ex) else
        match rx.repackage o.pkg pk.ids o.nRows with
        | .error err => (st, errLine err)
        | .ok rx' =>
          let o' := { o with kind := .member (.single rx'), pkg := pk.ids, mw := pk.mw }
          -- (a weight-basis stoichiometry is carried over as it is: same chemicals, same molecular weights)
          (st.put name { e with o := o' }, showRxn o' rx' e.bal e.ex)
      | _ => (st, "bad-op")
    | _, _ => (st, "bad-op")
  | "massbal" :: name :: _ =>
    -- `rxn.correct_mass_balance(variable=…)` on a reaction that is balanced already: an external root
    -- solve (flexsolve) that must hand the coefficient back; the object is not used afterwards, the real
    -- object is judged by the oracle (definition kept within the solver's tolerance)
    match st.obj name with
    | none => (st, "noref")
    | some _ => (st, "ok")
  | ["show", name] =>
    match st.obj name with
    | none => (st, "noref")
    | some e =>
      match e.o.kind with
      | .member (.single rx) => (st, showRxn e.o rx e.bal e.ex)
      | _ => (st, "bad-op")
  | "copybasis" :: name :: orig :: b :: _ =>
    -- `orig.copy(basis=b)` (or a copy followed by the basis setter): a new object; `orig` stays as it is
    match st.obj orig, parseBasis b with
    | none, _ => (st, "noref")
    | some e, some b =>
      let o := e.o
      match o.kind with
      | .member (.single rx) =>
        if b == o.basis then (st.put name e, showRxn o rx e.bal e.ex) else
        let mwT := tile o.nRows o.mw
        match (if b == .wt then rx.toWt mwT else rx.toMol mwT) with
        | .error err => (st, errLine err)
        | .ok rx' =>
          let o' := { o with kind := .member (.single rx'), basis := b }
          (st.put name { o := o', bal := e.bal, ex := false }, showRxn o' rx' e.bal false)
      | _ => (st, "bad-op")
    | _, _ => (st, "bad-op")
  | "call" :: name :: "arr" :: rest =>
    match st.obj name, (kv rest "rows").bind parseRows with
    | none, _ => (st, "noref")
    | some e0, some rows =>
      let e := st.current e0
      -- an integer ndarray cannot hold the result (the write-back would truncate): rejected
      -- (proposed repair fixes_proposed/C05-7.md; the code as found truncates silently)
      if kv rest "as" == some "int" then (st, "err=TypeError exact=1 fragile=0 negsum=0") else
      -- `Reaction.conversion(material)`: the material is left as it was
      if kv rest "mode" == some "conversion" then (st, s!"out={showRows rows} tag=clean exact=1 fragile=0 negsum=0") else
      (st, callLine e.o e.ex (.array rows) rows.flatten false (kv rest "mode" == some "force" || kv rest "mode" == some "nocheck"))
    | _, _ => (st, "bad-op")
  | "call" :: name :: "view" :: rest =>
    -- a flow array that is a view of a stream of the object's own package: `stream.mol` / `imol.data`
    -- (sel=mol) or `stream.mass` / `imass.data` (sel=mass, written back through the view); the array
    -- path reacts the entries as they are, whatever the basis label of the object
    match st.obj name, (kv rest "sel").bind (fun s => if s == "mol" then some Basis.mol else if s == "mass" then some Basis.wt else none),
          kv rest "ph", (kv rest "rows").bind parseRows with
    | none, _, _, _ => (st, "noref")
    | some e0, some sel, some ph, some rows =>
      let e := st.current e0
      match phaseTuple ph.toList with
      | .error _ => (st, "bad-op")
      | .ok phases =>
        let o := { e.o with basis := sel }
        if rows.length != phases.length || !(rows.all (·.length == o.pkg.length)) then (st, "bad-op") else
        -- the phase check of the stream path does not apply to a bare array: hand the object's own phases
        let phs := if o.phases.isEmpty then phases.take 1 else o.phases
        if phs.length != rows.length then (st, "bad-op") else
        (st, callLine o e.ex (.stream phs o.pkg rows) rows.flatten (sel == .wt)
          (kv rest "mode" == some "force" || kv rest "mode" == some "nocheck"))
    | _, _, _, _ => (st, "bad-op")
  | "call" :: name :: "stream" :: rest =>
    match st.obj name, (kv rest "pkg").bind (·.toNat?) |>.bind st.pkg, kv rest "ph",
          (kv rest "rows").bind parseRows with
    | some e0, some pk, some ph, some rows =>
      let e := st.current e0
      match phaseTuple ph.toList with
      | .error _ => (st, "bad-op")
      | .ok phases =>
        if rows.length != phases.length || !(rows.all (·.length == pk.ids.length)) then (st, "bad-op") else
        let o := e.o
        if kv rest "mode" == some "conversion" then
          -- `Reaction.conversion(stream)`: same guards and package remap as `__call__`, the stream is left
          -- as it was (the remap there and back must give the rows back)
          let guard : Except Err (List Vec) :=
            if !o.phases.isEmpty && phases != o.phases then .error .valueError
            else if o.phases.isEmpty && phases.length > 1 then .error .valueError
            else if pk.ids == o.pkg then .ok rows
            else (remapRows pk.ids o.pkg rows).bind (remapRows o.pkg pk.ids)
          match guard with
          | .error err => (st, s!"err={err.toString} exact=1 fragile=0 negsum=0")
          | .ok r => (st, s!"out={showRows r} tag=clean exact=1 fragile=0 negsum=0")
        else
        let flatIn := match (if pk.ids == o.pkg then .ok rows else remapRows pk.ids o.pkg rows) with
          | .ok r => r.flatten | .error _ => []
        (st, callLine o e.ex (.stream phases pk.ids rows) flatIn (o.basis == .wt)
          (kv rest "mode" == some "force" || kv rest "mode" == some "nocheck"))
    | none, _, _, _ => (st, "noref")
    | _, _, _, _ => (st, "bad-op")
  | op :: name :: ms0 :: _ =>
    if op == "par" || op == "ser" || op == "sys" then
      match members st (splitComma ms0) with
      | none => (st, "noref")
      | some es =>
        match sameConfig es with
        | .error e => (st, errLine e)
        | .ok (basis, phases, pkg, mw) =>
          let bal := es.all (·.bal)
          let ex := es.all (·.ex)
          if op == "sys" then
            -- a member that is itself a system contributes its members (applied one after the other)
            let msO : Option (List Member) := some (es.flatMap fun e => match e.o.kind with
              | .member m => [m]
              | .system ms => ms)
            match msO with
            | none => (st, "bad-op")
            | some ms =>
              (st.put name { o := { kind := .system ms, basis, phases, pkg, mw }, bal, ex,
                             members := splitComma ms0 }, "ok")
          else
            let rxsO := es.mapM fun e => match e.o.kind with
              | .member (.single rx) => some rx
              | _ => none
            match rxsO with
            | none => (st, "bad-op")
            | some rxs =>
              let m := if op == "par" then Member.parallel rxs else Member.series rxs
              (st.put name { o := { kind := .member m, basis, phases, pkg, mw }, bal, ex }, "ok")
    else (st, "bad-op")
  | _ => (st, "bad-op")

def main : IO Unit := Driver.loop ({} : St) step

end Driver.C05
