import ThermoVerif.Model.Flow
import Driver.Util
/-
Line protocol for C01 (material bookkeeping of streams).  One op per line; the answer is
`tot=<per-chemical totals of every stream> ph=<kind and phases of every stream> rows=<per-phase rows>`
or `err=<class>`; after an error every further line of the case is answered `dead`.

  pkg <id,id,...>                         declare the next property package (chemical ids in package order)
  new <pkg> S <phase> <v,v,...> [o<perm>] single-phase stream, dense flows in package order (o…: entry order, ignored)
  new <pkg> M <phases> <v,..;v,..;...>    multi-phase stream, one row per listed phase
  mix <r> <i,j.p,...|->                   r.mix_from([...], energy_balance=False); `j.p` = the phase view S[j]['p']
  sum <pkg> <i,j,...|->                   Stream.sum([...], thermo=pkg, energy_balance=False)  (new stream)
  split <f> <a> <b> s <q> | v <q,q,...>   f.split_to(a, b, split, energy_balance=False)
  sep <x> <y|j.p>                         x.separate_out(y, energy_balance=False)
  copy <d> <s> <*|=c|c,c,..|()> <rm> <ex> [phase]  d.copy_flow(s, [phase,] IDs, remove=, exclude=)
  scale <i> <k> | idiv <i> <k> | mul <i> <k> | div <i> <k> | empty <i>
  obs <j> (S[j].flow_proxy()) | obs <j.p> (S[j]['p']) | from <i,j,..> (MultiStream.from_streams): new stream indices that
      hold the same flow data; in-place scaling of any holder scales the data for all of them
  mix lines may carry `vle` or `cp` (vle=True / conserve_phases=True) before `eb`: totals only, last op of the case
  mix / sum / split / sep lines may end with `eb`: the call is made with the default energy_balance=True
  iadd <a> <b> (a += b) | add <a> <b> (a + b, new stream on package 0) | isub <a> <b> (a -= b) | neg <a> | rmul <a> <k> (k * a) | imul <a> <k>
-/
namespace Driver.C01
open ThermoVerif.Flow Driver

structure St where
  w : World := { pkgs := [], strms := [] }
  dead : Bool := false
  /-- holders of shared flow data (phase views, flow proxies, constituents of `from_streams`) -/
  al : List Alias := []

def parseNats (s : String) : Option (List Nat) :=
  if s == "-" || s == "()" then some [] else (splitComma s).mapM (·.toNat?)

def parsePhases (s : String) : Option (List Char) :=
  let cs := s.toList
  if cs.all (fun c => c == 's' || c == 'l' || c == 'g' || c == 'S' || c == 'L') && !cs.isEmpty
  then some cs else none

/-- `3` = stream 3, `3.g` = the phase view `S[3]['g']` -/
def parseRef (t : String) : Option Ref :=
  match splitOn1 t '.' with
  | [i] => i.toNat?.map Ref.strm
  | [j, p] => match j.toNat?, p.toList with
    | some j, [c] => if (parsePhases p).isSome then some (.view j c) else none
    | _, _ => none
  | _ => none

def parseRefs (s : String) : Option (List Ref) :=
  if s == "-" || s == "()" then some [] else (splitComma s).mapM parseRef

def parseRats (s : String) : Option (List Rat) := (splitComma s).mapM parseRat?

def sortedNats (l : List Nat) : List Nat :=
  l.foldr (fun x acc => (acc.filter (· < x)) ++ [x] ++ (acc.filter (fun y => !(y < x)))) []

def showTotals (w : World) (s : Strm) : String :=
  let P := w.pkgOf s
  let items := (sortedNats P).filterMap fun c =>
    let a := amount P s c
    if a == 0 then none else some s!"{c}:{showRat a}"
  joinWith "," items

def showRow (r : Row) : String := joinWith "," (r.map showRat)

def St.show (st : St) : String :=
  let w := st.w
  let tot := joinWith "|" (w.strms.map (showTotals w))
  let ph := joinWith "|" (w.strms.map fun s => (if s.multi then "M" else "S") ++ String.ofList (s.ph.map (·.1)))
  let rows := joinWith "|" (w.strms.map fun s => joinWith ";" (s.ph.map fun pr => showRow pr.2))
  s!"tot={tot} ph={ph} rows={rows}"

def finish (st : St) (r : Except Err World) : St × String :=
  match r with
  | .ok w' => let st' := { st with w := refresh w' st.al }; (st', st'.show)
  | .error e => ({ st with dead := true }, s!"err={e.toString}")

def bad (st : St) : St × String := ({ st with dead := true }, "bad-op")

def parseIDs (t : String) : Option IDs :=
  if t == "*" then some .all
  else if t.startsWith "=" then (t.drop 1).toString.toNat?.map IDs.one
  else (parseNats t).map IDs.many

/-- the owner (and row) of the data stream `i` holds, if `i` is only a holder -/
def holderOf (st : St) (i : Nat) : Option Alias := st.al.find? (·.i == i)

/-- in-place scaling (`scale`, `*=`, `/=`): applied to the data itself, i.e. to the owner when `i` is a holder -/
def scaleOp (st : St) (i : Nat) (k : Rat) (divide : Bool) : Except Err World :=
  match holderOf st i with
  | some a =>
    match a.q with
    | some q => if divide then divRow st.w a.j q k else scaleRow st.w a.j q k
    | none => if divide then idiv st.w a.j k else scale st.w a.j k
  | none => if divide then idiv st.w i k else scale st.w i k

def copyOp (st : St) (d s ids rm ex ph : String) : St × String :=
  let w := st.w
  match d.toNat?, s.toNat?, parseIDs ids with
  | some d, some s, some ids =>
    match w.strms[d]? with
    | some ds =>
      if ds.multi then
        if ph == "*" then finish st (copyMulti w d s none ids (rm == "1") (ex == "1"))
        else match parsePhases ph with
          | some [c] => finish st (copyMulti w d s (some c) ids (rm == "1") (ex == "1"))
          | _ => bad st
      else
        -- a single-phase destination has no phase argument (`Stream.copy_flow`): the harness does not pass it either
        finish st (copySingle w d s ids (rm == "1") (ex == "1"))
    | none => bad st
  | _, _, _ => bad st

def step (st : St) (line : String) : St × String :=
  if st.dead then (st, "dead") else
  let w := st.w
  -- `new … o<perm>`: the order in which the flows were entered on the real stream; irrelevant to the model
  let toks := match splitWs line with
    | ["new", a, b, c, d, o] => if o.startsWith "o" && (parseNats (o.drop 1).toString).isSome then ["new", a, b, c, d] else ["new", a, b, c, d, o]
    | l => l
  -- a trailing `tot!` = the harness compares the totals of this line only and ends the case (an energy balance with
  -- negative flows among the streams: what the enthalpy solve does to the phase label is meaningless there)
  let forceTotals := toks.getLast? == some "tot!"
  let toks := if forceTotals then toks.dropLast else toks
  -- a trailing `ph:<i>:<letter>` = the phase label stream i ended with after an energy balance (g <-> l flip of the
  -- enthalpy setter: external numerics, reported by the harness)
  let flip : Option (Nat × Char) := match toks.getLast? with
    | some t => if t.startsWith "ph:" then
        match splitOn1 (t.drop 3).toString ':' with
        | [i, p] => match i.toNat?, p.toList with
          | some i, [c] => some (i, c)
          | _, _ => none
        | _ => none
      else none
    | none => none
  let toks := if flip.isSome then toks.dropLast else toks
  -- a trailing `eb` = the library default `energy_balance=True`
  let eb := toks.getLast? == some "eb"
  let toks := if eb then toks.dropLast else toks
  -- `vle` / `cp` (vle=True / conserve_phases=True): the phase layout afterwards is the flash's / the setter's business;
  -- the model answers the totals only and the case ends
  let totalsOnly := forceTotals || toks.getLast? == some "vle" || toks.getLast? == some "cp"
  let toks := if toks.getLast? == some "vle" || toks.getLast? == some "cp" then toks.dropLast else toks
  let finish (st : St) (r : Except Err World) : St × String :=
    let r := match flip, r with
      | some (i, p), .ok w' => .ok (flipPhase w' i p)
      | _, r => r
    let (st', o) := Driver.C01.finish st r
    if totalsOnly && !o.startsWith "err=" then
      ({ st' with dead := true }, (o.splitOn " ph=").headD o)
    else (st', o)
  match toks with
  | ["pkg", ids, _how] =>
    -- `alt` / `swap`: how the harness names the chemicals of this package (other IDs for the same CAS numbers / the
    -- usual IDs on other substances); the model's chemical ids are the CAS numbers
    match parseNats ids with
    | some l => if l.eraseDups.length == l.length then ({ st with w := { w with pkgs := w.pkgs ++ [l] } }, "ok") else bad st
    | none => bad st
  | ["pkg", ids] =>
    match parseNats ids with
    | some l => if l.eraseDups.length == l.length then ({ st with w := { w with pkgs := w.pkgs ++ [l] } }, "ok") else bad st
    | none => bad st
  | ["new", pkg, "S", phase, vals] =>
    match pkg.toNat?, parsePhases phase, parseRats vals with
    | some p, some [c], some v =>
      if p < w.pkgs.length && v.length == (w.pkgs.getD p []).length then
        finish st (.ok { w with strms := w.strms ++ [{ pkg := p, multi := false, ph := [(c, v)] }] })
      else bad st
    | _, _, _ => bad st
  | ["new", pkg, "M", phases, rows] =>
    match pkg.toNat?, parsePhases phases, (splitOn1 rows ';').mapM parseRats with
    | some p, some cs, some rs =>
      let n := (w.pkgs.getD p []).length
      if p < w.pkgs.length && rs.length == cs.length && rs.all (·.length == n) && cs.eraseDups.length == cs.length
      then
        let ph := (cs.zip rs).foldl (fun acc (c, r) => insPh c r acc) []
        finish st (.ok { w with strms := w.strms ++ [{ pkg := p, multi := true, ph := ph }] })
      else bad st
    | _, _, _ => bad st
  | ["mix", r, ins] =>
    match r.toNat?, parseRefs ins with
    | some r, some ins => if r < w.strms.length then finish st (mixR w r ins eb) else finish st (mix w r [])
    | _, _ => bad st
  | ["sum", pkg, ins] =>
    match pkg.toNat?, parseNats ins with
    | some p, some ins => if p < w.pkgs.length then finish st (sumNewE w p ins eb) else bad st
    | _, _ => bad st
  | ["split", f, a, b, kind, q] =>
    match f.toNat?, a.toNat?, b.toNat? with
    | some f, some a, some b =>
      if kind == "s" then
        match parseRat? q with
        | some q => finish st (split w f a b (.scalar q) eb)
        | none => bad st
      else if kind == "v" then
        match parseRats q, w.strms[f]? with
        | some v, some fs => if v.length == (w.pkgOf fs).length then finish st (split w f a b (.vector v) eb) else bad st
        | _, _ => bad st
      else bad st
    | _, _, _ => bad st
  | ["sep", x, y] =>
    match x.toNat?, parseRef y with
    | some x, some y => if x < w.strms.length then finish st (sepR w x y) else finish st (sep w x x)
    | _, _ => bad st
  | ["copy", d, s, ids, rm, ex] => copyOp st d s ids rm ex "*"
  | ["copy", d, s, ids, rm, ex, ph] => copyOp st d s ids rm ex ph
  | ["scale", i, k] =>
    match i.toNat?, parseRat? k with
    | some i, some k => finish st (scaleOp st i k false)
    | _, _ => bad st
  | ["idiv", i, k] =>
    match i.toNat?, parseRat? k with
    | some i, some k => finish st (scaleOp st i k true)
    | _, _ => bad st
  -- holders of shared flow data
  | ["obs", t] =>
    match parseRef t with
    | some (.strm j) =>
      -- `S[j].flow_proxy()`
      match w.strms[j]?, holderOf st j with
      | some s, none => finish { st with al := st.al ++ [{ i := w.strms.length, j := j, q := none }] }
                          (.ok { w with strms := w.strms ++ [s] })
      | _, _ => bad st
    | some (.view j p) =>
      -- `S[j][p]`
      match w.strms[j]?, holderOf st j with
      | some s, none =>
        if s.multi then
          match resolve s.ph p with
          | some q => finish { st with al := st.al ++ [{ i := w.strms.length, j := j, q := some q }] }
                        (.ok { w with strms := w.strms ++ [{ pkg := s.pkg, multi := false, ph := [(p, rowOf s.ph q)] }] })
          | none => finish st (.error .undefinedPhase)
        else if p.toLower == s.phase.toLower then
          finish { st with al := st.al ++ [{ i := w.strms.length, j := j, q := none }] } (.ok { w with strms := w.strms ++ [s] })
        else finish st (.error .undefinedPhase)
      | _, _ => bad st
    | none => bad st
  | ["from", ids] =>
    match parseNats ids with
    | some ids =>
      if ids.any (fun i => (holderOf st i).isSome) then bad st else
      match fromStreams w ids with
      | .ok w' =>
        let new := w.strms.length
        let al' := ids.filterMap fun i => (w.strms[i]?).map fun x => ({ i := i, j := new, q := some x.phase } : Alias)
        finish { st with al := st.al ++ al' } (.ok w')
      | .error e => finish st (.error e)
    | none => bad st
  | ["mul", i, k] =>
    match i.toNat?, parseRat? k with
    | some i, some k => finish st (mulNew w i k)
    | _, _ => bad st
  | ["div", i, k] =>
    match i.toNat?, parseRat? k with
    | some i, some k => finish st (divNew w i k)
    | _, _ => bad st
  -- operator forms (library defaults, i.e. with the energy balance)
  | ["iadd", a, b] =>
    match a.toNat?, b.toNat? with
    | some a, some b => if a < w.strms.length then finish st (mixR w a [.strm a, .strm b] true) else bad st
    | _, _ => bad st
  | ["add", a, b] =>
    match a.toNat?, b.toNat? with
    | some a, some b => if 0 < w.pkgs.length then finish st (sumNewE w 0 [a, b] true) else bad st
    | _, _ => bad st
  | ["isub", a, b] =>
    match a.toNat?, b.toNat? with
    | some a, some b => if a < w.strms.length then finish st (sepR w a (.strm b)) else bad st
    | _, _ => bad st
  | ["neg", i] =>
    match i.toNat? with
    | some i => finish st (negNew w i)
    | none => bad st
  | ["rmul", i, k] =>
    match i.toNat?, parseRat? k with
    | some i, some k => finish st (mulNew w i k)
    | _, _ => bad st
  | ["imul", i, k] =>
    match i.toNat?, parseRat? k with
    | some i, some k => finish st (scaleOp st i k false)
    | _, _ => bad st
  -- the harness stopped judging this case (an enthalpy solve failed in the real code): nothing to model
  | ["skip"] => (st, "skip=numerics")
  | ["empty", i] =>
    match i.toNat? with
    | some i => finish st (emptyS w i)
    | none => bad st
  | _ => bad st

def main : IO Unit := Driver.loop ({} : St) step

end Driver.C01
