import ThermoVerif.Model.SparseArray
import Driver.Util
/-
Line protocol for C09 (sparse arrays vs NumPy).  One operation per line.  The answer is

    <result> | np=<what the Lean NumPy spec computes on the dense images> | chg=<objects that changed>

`<result>` comes from the sparse model, `np=` from `Model/Dense.lean`; the harness prints the same
three fields from the real `sparse` objects and from the real NumPy.
-/
namespace Driver.C09
open ThermoVerif.Sparse ThermoVerif.Dense Driver

structure St where
  s : Store := []
  dead : Bool := false

/-! ### printing -/

def showVec (l : List Rat) : String := "[" ++ joinWith "," (l.map showRat) ++ "]"
def showMat (l : List (List Rat)) : String := "[" ++ joinWith "," (l.map showVec) ++ "]"
def showKeys (l : List Nat) : String := "[" ++ joinWith "," (l.map toString) ++ "]"

def showVObj : Obj → String
  | .sv v => s!"sv/{v.size}/{joinWith ";" ((sortItems v.dct).map fun p => s!"{p.1}={showRat p.2}")}/{if v.readOnly then 1 else 0}"
  | .slv v => s!"slv/{v.size}/{joinWith ";" ((sortKeys v.set).map toString)}"
  | .sa rows => s!"sa/{joinWith "," (rows.map fun r => s!"@{r}")}"

def showObj (s : Store) (i : Nat) : String :=
  match s[i]? with
  | some o => s!"@{i}:{showVObj o}"
  | none => s!"@{i}:?"

def showND (a : ND) : String :=
  match a.shape with
  | .s => s!"x={showRat a.x0}"
  | .v => s!"v={showVec a.row0}"
  | .m => s!"m={showMat a.data}"

def showRes (s : Store) (old : Nat) : Res → String
  | .obj i =>
    -- a fresh array is printed with its fresh rows
    match s[i]? with
    | some (.sa rows) =>
      if i ≥ old then showObj s i ++ "{" ++ joinWith "," ((rows.filter (· ≥ old)).map (showObj s)) ++ "}" else showObj s i
    | _ => showObj s i
  | .num x => s!"x={showRat x}"
  | .vec l => s!"v={showVec l}"
  | .mat l => s!"m={showMat l}"
  | .keys l => s!"k={showKeys l}"
  | .items l => "it=[" ++ joinWith "," (l.map fun p => s!"{p.1}:{showRat p.2}") ++ "]"
  | .none => "none"

def showErr : Err → String
  | .readOnly => "err=readonly"
  | .zeroDiv => "err=zerodiv"
  | _ => "err=rejected"

def showNp : Option (Except NpErr ND) → String
  | none => "np=-"
  | some (.ok a) => "np:" ++ showND a
  | some (.error .nonFinite) => "np=nonfinite"
  | some (.error .type) => "np=typeerr"
  | some (.error _) => "np=err"

def showChg (old new : Store) : String :=
  let ch := (List.range old.length).filter (fun i => (old[i]?).map showVObj != (new[i]?).map showVObj)
  if ch.isEmpty then "chg=-" else "chg=" ++ joinWith "," (ch.map (showObj new))

/-! ### parsing -/

def parseRef (t : String) : Option Nat :=
  if t.startsWith "@" then (t.drop 1).toString.toNat? else none

def parseRats (t : String) : Option (List Rat) := (splitComma t).mapM parseRat?
def parseNats (t : String) : Option (List Nat) := (splitComma t).mapM (·.toNat?)

def parseOptNat (t : String) : Option (Option Nat) :=
  if t == "_" then some none else t.toNat?.map some

/-- `<P|N><f|i|b><d1>x<d2>..:<data>` -/
def parseLit (t : String) : Option Lit :=
  match splitOn1 t ':' with
  | [h, d] =>
    let cs := h.toList
    match cs with
    | k :: ty :: rest =>
      let shapeS := String.ofList rest
      do
        let shape ← if shapeS == "" then some [] else (splitOn1 shapeS 'x').mapM (·.toNat?)
        let data ← parseRats d
        if (k != 'P' && k != 'N') || (ty != 'f' && ty != 'i' && ty != 'b') then none
        else if data.length != shape.foldl (· * ·) 1 then none
        else some { isNd := k == 'N', isBool := ty == 'b', shape := shape, data := data }
    | _ => none
  | _ => none

def parseOperand (t : String) : Option Operand :=
  if t.startsWith "@" then (parseRef t).map .ref else (parseLit t).map .lit

/-- `i3`, `s_:2:_`, `f0,2`, `m1,0,1`; a leading `t` (tuple-wrapped) and upper case (ndarray) are
variations of the Python spelling only -/
def parseIdx (t0 : String) : Option Idx :=
  let t := if t0.startsWith "t" then (t0.drop 1).toString else t0
  let body := (t.drop 1).toString
  match t.toList.head? with
  | some 'i' => body.toNat?.map .int
  | some 's' =>
    match splitOn1 body ':' with
    | [a, b, c] => do some (.slice (← parseOptNat a) (← parseOptNat b) (← parseOptNat c))
    | _ => none
  | some 'f' | some 'F' => (parseNats body).map .fancy
  | some 'm' | some 'M' => (parseNats body).map (fun l => .mask (l.map (· != 0)))
  | some 'o' => none
  | _ => none

def parseBinOp : String → Option BinOp
  | "add" => some .add | "sub" => some .sub | "mul" => some .mul | "truediv" => some .truediv
  | "eq" => some .eq | "ne" => some .ne | "gt" => some .gt | "lt" => some .lt | "ge" => some .ge | "le" => some .le
  | "and" => some .and | "or" => some .or | "xor" => some .xor
  | _ => none

def parseRed : String → Option Red
  | "sum" => some .sum | "any" => some .any | "all" => some .all
  | "max" => some .max | "min" => some .min | "mean" => some .mean
  | _ => none

def parseItems (t : String) : Option (List (Nat × Rat)) :=
  if t == "-" then some [] else
  (splitComma t).mapM fun kv =>
    match splitOn1 kv ':' with
    | [k, v] => do some ((← k.toNat?), (← parseRat? v))
    | _ => none

def parseRefs (t : String) : Option (List Nat) :=
  if t == "-" then some [] else (splitComma t).mapM parseRef

def parseIdx2 (t : String) : Option Idx2 :=
  match splitOn1 t '|' with
  | [a] => (parseIdx a).map .one
  | [a, b] => do some (.two (← parseIdx a) (← parseIdx b))
  | _ => none

def parseOp (line : String) : Option Op :=
  match splitWs line with
  | ["new", l] => (parseLit l).map .new
  | ["newsv", l, n] => do some (.newSV (← parseLit l) (← parseOptNat n))
  | ["newdict", it, n] => do some (.newDict (← parseItems it) (← n.toNat?))
  | ["newsize", n] => n.toNat?.map .newSize
  | ["newsa", rs] => (parseRefs rs).map .newSA
  | ["copyctor", a] => (parseRef a).map .copyCtor
  | ["bin", op, a, b] => do some (.bin (← parseBinOp op) (← parseRef a) (← parseOperand b))
  | ["rbin", op, b, a] => do some (.rbin (← parseBinOp op) (← parseLit b) (← parseRef a))
  | ["ibin", op, a, b] => do some (.ibin (← parseBinOp op) (← parseRef a) (← parseOperand b))
  | ["neg", a] => (parseRef a).map .neg
  | ["abs", a] => (parseRef a).map .abs
  | ["inv", a] => (parseRef a).map .invert
  | ["get", a, i] => do some (.get (← parseRef a) (← parseIdx2 i))
  | ["set", a, i, v] => do some (.set (← parseRef a) (← parseIdx2 i) (← parseOperand v))
  | ["red", r, a, ax, kd] => do some (.reduce (← parseRed r) (← parseRef a) (← parseOptNat ax) (kd == "1"))
  | ["copy", a] => (parseRef a).map .copy
  | ["toarray", a] => (parseRef a).map .toArray
  | ["clear", a] => (parseRef a).map .clear
  | ["remneg", a] => (parseRef a).map .removeNegatives
  | ["hasneg", a] => (parseRef a).map .hasNegatives
  | ["nzkeys", a] => (parseRef a).map .nonzeroKeys
  | ["nzitems", a] => (parseRef a).map .nonzeroItems
  | ["negkeys", a] => (parseRef a).map .negativeKeys
  | ["poskeys", a] => (parseRef a).map .positiveKeys
  | ["setflags", a] => (parseRef a).map .setflags
  | ["setro", a, b] => do some (.setRO (← parseRef a) (b == "1"))
  | ["mixfrom", a, os] => do some (.mixFrom (← parseRef a) (← parseRefs os))
  | ["sumof", a, idx] => do some (.sumOf (← parseRef a) (← parseNats idx))
  | ["copylike", a, b] => do some (.copyLike (← parseRef a) (← parseRef b))
  | ["speq", a, b] => do some (.sparseEqual (← parseRef a) (← parseOperand b))
  | _ => none

/-! ### one step -/

def isInplaceArith : Op → Bool
  | .ibin _ _ _ => true
  | _ => false

def step (st : St) (line : String) : St × String :=
  if st.dead then (st, "dead") else
  match parseOp line with
  | none => ({ st with dead := true }, "bad-op")
  | some op =>
    if (opRefs op).any (fun i => i ≥ st.s.length) then ({ st with dead := true }, "bad-op") else
    if (opRefs op).any (fun i => match st.s[i]? with | some o => !(Store.objWF st.s o) | none => false) then (st, "skip=nonwf") else
    let np := showNp (npSide st.s op)
    match ThermoVerif.Sparse.step st.s op with
    | .ok (s', r) =>
      ({ st with s := s' }, s!"{showRes s' st.s.length r} | {np} | {showChg st.s s'}")
    | .error e =>
      -- a ZeroDivisionError in the middle of an in-place loop leaves the target half-updated:
      -- nothing after it is compared
      let dead := e == .zeroDiv && isInplaceArith op
      ({ st with dead := dead }, s!"{showErr e} | {np} | chg={if dead then "?" else "-"}")

def main : IO Unit := Driver.loop ({} : St) step

end Driver.C09
