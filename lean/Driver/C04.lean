import ThermoVerif.Model.Flash
import Driver.Util
/-
Line protocol for C04 (vapour–liquid flash).  Floats travel as `b<bits>`; vectors are
comma-separated; sections of a line are separated by ` | `.

  call <pair> <noeq|one|many> <two:0|1> <T0> <P0> <a> <b> <psat> <tsat> <sol>
        -> T=<f> P=<f>                       (repaired dispatch table)  |  err=<class>
  tpb <P> <Pdew> <Pbub> <heavy:0|1> <light:0|1>
        -> allgas | allliq | solve
  step <2n|rr> <eps> <zl> <zh> <Vin> <Vout> | z | c | xin | lnKin | gamma | phi
        -> V=<f> x=<v> lnK=<v> xh=<v> yh=<v> rr=ok|BAD vb=ok|BAD
  exit <tol> <Vin> <Vout> <Vret> | xin | lnKin | xout | lnKout | Kret | c | gamma | phi | xh | yh
        -> conv bound=ok | conv bound=BAD | nonconv
  wb <eps> <F> <V> | x | lnK | mol
        -> v=<v>
  ideal <zl> <zh> | z | K
        -> V=<f> x=<v> y=<v>
  scale <k> <eps> <F> <V> <Fl> <Fh> | x | lnK | mol | z
        -> scaled=ok | scaled=BAD
  lever <X> <Xbubble> <Xdew> <mol>           (single chemical, H or S specified: leverV + chemSplit)
        -> lv=<f> gv=<f>
  chem <T> <P> <Tc> <psat> <mol> <l0> <g0>
        -> l=<f> g=<f>
-/
namespace Driver.C04
open ThermoVerif.Flash Driver

abbrev Vec (n : Nat) := Fin n → Float

def vecOf (a : Array Float) (n : Nat) : Vec n := fun i => a[i.val]!

def showVec {n : Nat} (v : Vec n) : String := joinWith "," ((List.ofFn v).map showFloat)

def parseVec (s : String) : Option (Array Float) :=
  ((splitComma s).mapM parseFloat?).map List.toArray

def sections (line : String) : List (List String) :=
  (line.splitOn " | ").map splitWs

def parsePair : String → Option Pair
  | "TP" => some .TP | "TV" => some .TV | "TH" => some .TH | "TS" => some .TS
  | "Tx" => some .Tx | "Ty" => some .Ty | "PV" => some .PV | "PH" => some .PH
  | "PS" => some .PS | "Px" => some .Px | "Py" => some .Py | _ => none

def parseN : String → Option NCase
  | "noeq" => some .noEq | "one" => some .one | "many" => some .many | _ => none

def showErr : Err → String
  | .noEquilibrium => "err=NoEquilibrium" | .notImplemented => "err=NotImplemented"
  | .assertion => "err=Assertion"

def fabs (x : Float) : Float := if x < 0 then -x else x

/-- Independent Rachford–Rice solve: the objective is strictly decreasing on (0, 1)
(`Props.C04.rrFull_strictAntiOn`), so its sign at the end points decides the one-phase cases and
bisection finds the unique root otherwise. -/
def rrBisect {n : Nat} (z K : Vec n) (zl zh : Float) : Float := Id.run do
  let f := fun V => rrFull z K zl zh V
  let lo0 : Float := if zl > 0 then 1e-300 else 0
  let hi0 : Float := if zh > 0 then 1 - 1e-16 else 1
  if f lo0 ≤ 0 then return 0
  if f hi0 ≥ 0 then return 1
  let mut lo := lo0
  let mut hi := hi0
  for _ in [0:200] do
    let mid := (lo + hi) / 2
    if f mid > 0 then lo := mid else hi := mid
  return (lo + hi) / 2

def floats (l : List String) : Option (List Float) := l.mapM parseFloat?

def stepLine (kind : String) (hd : List Float) (vs : List (Array Float)) : String :=
  match hd, vs with
  | [eps, zl, zh, Vin, Vout], [z, c, xin, lnKin, gamma, phi] =>
    let n := z.size
    if n = 0 ∨ c.size ≠ n ∨ xin.size ≠ n ∨ lnKin.size ≠ n ∨ gamma.size ≠ n ∨ phi.size ≠ n then "bad-op" else
    let zv := vecOf z n; let cv := vecOf c n
    let Kin : Vec n := fun i => Float.exp (lnKin[i.val]!)
    let (xh, yh) := xyNorm eps (vecOf xin n) Kin
    let gv := vecOf gamma n; let pv := vecOf phi n
    let K' := newK eps cv gv pv
    let twoN := kind == "2n"
    -- the Rachford–Rice solve is a parameter; the pre-checks in front of it are model
    let Vd : Float :=
      match n with
      | 0 => Vout
      | m + 1 =>
        let z1 : Vec (m + 1) := fun i => z[i.val]!
        let K1 : Vec (m + 1) := fun i => newK1 eps (c[i.val]!) (gamma[i.val]!) (phi[i.val]!)
        rrDecide z1 K1 zl zh 1e-16 (1.0 + 1e-9) (1.0 - 1e-9) Vout
    let _ := Vin
    let s := iterStep twoN eps zv cv gv pv Vd
    -- hypothesis monitors on the external solve
    let res := rrFull zv K' zl zh s.V
    let scale := sumF n (fun i => fabs (rrTerm (zv i) (K' i) s.V)) + 1e-300
    let interior := s.V > 1e-12 && s.V < 1 - 1e-12
    let rrok := if twoN then true
                else if interior then fabs res ≤ 1e-7 * (1 + scale)
                else true
    let vb := rrBisect zv K' zl zh
    let vbok := if twoN then true
                else if interior then fabs (vb - s.V) ≤ 1e-6
                else (vb == 0 && s.V ≤ 1e-12) || (vb == 1 && s.V ≥ 1 - 1e-12) || fabs (vb - s.V) ≤ 1e-6
    let lnK' : Vec n := fun i => Float.log (s.K i)
    s!"V={showFloat s.V} x={showVec s.x} lnK={showVec lnK'} xh={showVec xh} yh={showVec yh} rr={if rrok then "ok" else "BAD"} vb={if vbok then "ok" else "BAD"}"
  | _, _ => "bad-op"

def exitLine (hd : List Float) (vs : List (Array Float)) : String :=
  match hd, vs with
  | [tol, Vin, Vout, Vret], [xin, lnKin, xout, lnKout, Kret, c, gamma, phi, xh, yh] =>
    let n := xin.size
    if n = 0 ∨ lnKin.size ≠ n ∨ xout.size ≠ n ∨ lnKout.size ≠ n ∨ Kret.size ≠ n ∨ c.size ≠ n
       ∨ gamma.size ≠ n ∨ phi.size ≠ n ∨ xh.size ≠ n ∨ yh.size ≠ n then "bad-op" else
    -- |in − out| component-wise over (x, V, lnK)
    let d : Fin (2 * n + 1) → Float := fun i =>
      if i.val < n then fabs (xin[i.val]! - xout[i.val]!)
      else if i.val = n then fabs (Vin - Vout)
      else fabs (lnKin[i.val - n - 1]! - lnKout[i.val - n - 1]!)
    let same := Vret == Vout && allF n (fun i => fabs (Float.exp (lnKout[i.val]!) - Kret[i.val]!) ≤ 1e-12 * Kret[i.val]!)
    if exitTest d tol && same then
      -- conclusion of `exit_residual`: at the evaluation point (x̂, ŷ) the liquid fugacity
      -- x̂ γ c and the gas fugacity ŷ φ (both over P) agree up to the factor S = Σ x̂ K_in within 2·tol
      let S := sumF n (fun i => xh[i.val]! * Float.exp (lnKin[i.val]!))
      let ok := allF n (fun i =>
        let fl := xh[i.val]! * gamma[i.val]! * c[i.val]!
        let fg := yh[i.val]! * phi[i.val]!
        -- clipped K (c γ/φ < eps) is outside the theorem's hypothesis; does not occur in range
        fabs (fl - S * fg) ≤ 2 * tol * (S * fg) + 1e-300)
      if ok then "conv bound=ok" else "conv bound=BAD"
    else "nonconv"
  | _, _ => "bad-op"

def step (st : Unit) (line : String) : Unit × String :=
  let secs := sections line
  let ans : String :=
    match secs with
    | ["call", pair, nc, two, T0, P0, a, b, psat, tsat, sol] :: [] =>
      match parsePair pair, parseN nc, floats [T0, P0, a, b, psat, tsat, sol] with
      | some p, some nc, some [T0, P0, a, b, psat, tsat, sol] =>
        let c : Call Float := { pair := p, ncase := nc, twoPhase := two == "1", T0, P0, a, b, psat, tsat, sol }
        match dispatch c with
        | .ok (T, P) => s!"T={showFloat T} P={showFloat P}"
        | .error e => showErr e
      | _, _, _ => "bad-op"
    | ["tpb", P, Pdew, Pbub, heavy, light] :: [] =>
      match floats [P, Pdew, Pbub] with
      | some [P, Pdew, Pbub] =>
        match tpBranch P Pdew Pbub (heavy == "1") (light == "1") with
        | .allGas => "allgas" | .allLiq => "allliq" | .solve => "solve"
      | _ => "bad-op"
    | ("step" :: kind :: hd) :: vs =>
      match floats hd, vs.mapM (fun v => match v with | [x] => parseVec x | _ => none) with
      | some hd, some vs => if kind == "2n" || kind == "rr" then stepLine kind hd vs else "bad-op"
      | _, _ => "bad-op"
    | ("exit" :: hd) :: vs =>
      match floats hd, vs.mapM (fun v => match v with | [x] => parseVec x | _ => none) with
      | some hd, some vs => exitLine hd vs
      | _, _ => "bad-op"
    | ["wb", eps, F, V] :: [[x], [lnK], [mol]] =>
      match floats [eps, F, V], parseVec x, parseVec lnK, parseVec mol with
      | some [eps, F, V], some x, some lnK, some mol =>
        let n := x.size
        if lnK.size ≠ n ∨ mol.size ≠ n then "bad-op" else
        let K : Vec n := fun i => Float.exp (lnK[i.val]!)
        let (xh, _) := xyNorm eps (vecOf x n) K
        s!"v={showVec (writeBack F V xh K (vecOf mol n))}"
      | _, _, _, _ => "bad-op"
    | ["ideal", zl, zh] :: [[z], [K]] =>
      match floats [zl, zh], parseVec z, parseVec K with
      | some [zl, zh], some z, some K =>
        let n := z.size
        if K.size ≠ n then "bad-op" else
        let zv := vecOf z n; let Kv := vecOf K n
        let V := rrBisect zv Kv zl zh
        let x := xOfV zv Kv V
        let y : Vec n := fun i => Kv i * x i
        s!"V={showFloat V} x={showVec x} y={showVec y}"
      | _, _, _ => "bad-op"
    | ["scale", k, eps, F, V, Fl, Fh] :: [[x], [lnK], [mol], [zrec]] =>
      match floats [k, eps, F, V, Fl, Fh], parseVec x, parseVec lnK, parseVec mol, parseVec zrec with
      | some [k, eps, F, V, Fl, Fh], some x, some lnK, some mol, some zrec =>
        let n := x.size
        if lnK.size ≠ n ∨ mol.size ≠ n ∨ zrec.size ≠ n then "bad-op" else
        let K : Vec n := fun i => Float.exp (lnK[i.val]!)
        let (xh, _) := xyNorm eps (vecOf x n) K
        let molv := vecOf mol n
        let kmol : Vec n := fun i => k * molv i
        -- degree 0: the composition the iteration works on; degree 1: the write-back
        let z1 := setupZ molv Fl Fh
        let z2 := setupZ kmol (k * Fl) (k * Fh)
        let v1 := writeBack F V xh K molv
        let v2 := writeBack (k * F) V xh K kmol
        let ok := allF n (fun i => fabs (z1 i - z2 i) ≤ 1e-14 * (1 + fabs (z1 i)))
               -- `_setup`: the composition the real iteration received is mol_vle / F_mol
               && allF n (fun i => fabs (z1 i - zrec[i.val]!) ≤ 1e-12 * (1 + fabs (z1 i)))
               && fabs (setupF molv Fl Fh - F) ≤ 1e-12 * fabs F
               && allF n (fun i => fabs (v2 i - k * v1 i) ≤ 1e-12 * (fabs (k * v1 i) + 1e-300))
        if ok then "scaled=ok" else "scaled=BAD"
      | _, _, _, _, _ => "bad-op"
    | ["lever", X, Xb, Xd, mol] :: [] =>
      match floats [X, Xb, Xd, mol] with
      | some [X, Xb, Xd, mol] =>
        let (l, g) := chemSplit mol (leverV X Xb Xd)
        s!"lv={showFloat l} gv={showFloat g}"
      | _ => "bad-op"
    | ["chem", T, P, Tc, psat, mol, l0, g0] :: [] =>
      match floats [T, P, Tc, psat, mol, l0, g0] with
      | some [T, P, Tc, psat, mol, l0, g0] =>
        let (l, g) := chemTP T P Tc psat 1e-3 mol l0 g0
        s!"l={showFloat l} g={showFloat g}"
      | _ => "bad-op"
    | _ => "bad-op"
  (st, ans)

def main : IO Unit := Driver.loop () step

end Driver.C04
