import ThermoVerif.Model.PropCache
import Driver.Util
/-
Line protocol for C14 (memoised stream properties).
  new <pkg> | proxy <o> | view <o> | mut <o> state|resets|collapse|rebind | mut <o> thermo <pkg>
  | read <o> <name> <keyid> (answer: hit|miss p<pkg the value was computed with>) | readfail <o> <keyid> | readempty <o>
-/
namespace Driver.C14
open ThermoVerif.PropCache Driver

def step (w : World) (line : String) : World × String :=
  match splitWs line with
  | ["new", p] =>
    match p.toNat? with
    | some p => let (w', o) := w.newObj p; (w', s!"ok {o}")
    | none => (w, "bad-op")
  | ["proxy", o] =>
    match o.toNat? with
    | some o => let (w', p) := w.proxy o; (w', s!"ok {p}")
    | none => (w, "bad-op")
  | ["view", o] =>
    match o.toNat? with
    | some o => let (w', v) := w.view o; (w', s!"ok {v}")
    | none => (w, "bad-op")
  | ["mut", o, "thermo", p] =>
    match o.toNat?, p.toNat? with
    | some o, some p => (w.mut o (.thermo p), "ok")
    | _, _ => (w, "bad-op")
  | ["mut", o, m] =>
    match o.toNat?, (match m with
        | "state" => some Mut.state | "resets" => some Mut.resets | "collapse" => some Mut.collapse
        | "rebind" => some Mut.rebind
        | _ => none) with
    | some o, some m => (w.mut o m, "ok")
    | _, _ => (w, "bad-op")
  | ["read", o, name, k] =>
    match o.toNat?, k.toNat? with
    | some o, some k =>
      let (w', out, v) := w.read o name k
      -- the theorem says v = (k, current package); the driver still reports it so a model regression is visible
      (w', (match out with | .hit => "hit" | .miss => "miss") ++ s!" p{v.2}"
            ++ (if v = (k, w.pkgOf o) then "" else s!" STALE({v.1},{v.2})"))
    | _, _ => (w, "bad-op")
  | ["readfail", o, k] =>
    match o.toNat?, k.toNat? with
    | some o, some k => (w.readFail o k, "raised")
    | _, _ => (w, "bad-op")
  | ["readempty", _] => (w, "none")
  | _ => (w, "bad-op")

def main : IO Unit := Driver.loop World.init step

end Driver.C14
