import ThermoVerif.Model.PropCache
import Driver.Util
/-
Line protocol for C14 (memoised stream properties).
  new <pkg> | proxy <o> | view <o> | mut <o> state|resets|collapse|rebind | mut <o> thermo <pkg>
  | read <o> <name> <keyid> (answer: hit|miss p<pkg the value was computed with>) | readfail <o> <keyid> | readempty <o>
-/
namespace Driver.C14
open ThermoVerif.PropCache Driver

/-- position of `d` in `seen` (memo dicts in order of first appearance on a read line), extending `seen` if new -/
def dictNo (seen : List Nat) (d : Nat) : List Nat × Nat :=
  match seen.idxOf? d with
  | some i => (seen, i)
  | none => (seen ++ [d], seen.length)

/-- the model world and the memo dicts seen on read lines so far -/
abbrev St := World × List Nat

def stepW (w : World) (line : String) : World × String :=
  match splitWs line with
  | ["new", p] =>
    match p.toNat? with
    | some p => let (w', o) := w.newObj p; (w', s!"ok {o}")
    | none => (w, "bad-op")
  | ["proxy", o] =>
    match o.toNat? with
    | some o => let (w', p) := w.proxy o; (w', s!"ok {p}")
    | none => (w, "bad-op")
  | ["view", o] =>
    match o.toNat? with
    | some o => let (w', v) := w.view o; (w', s!"ok {v}")
    | none => (w, "bad-op")
  | ["mut", o, "thermo", p] =>
    match o.toNat?, p.toNat? with
    | some o, some p => (w.mut o (.thermo p), "ok")
    | _, _ => (w, "bad-op")
  | ["mut", o, m] =>
    match o.toNat?, (match m with
        | "state" => some Mut.state | "resets" => some Mut.resets | "collapse" => some Mut.collapse
        | "rebind" => some Mut.rebind
        | _ => none) with
    | some o, some m => (w.mut o m, "ok")
    | _, _ => (w, "bad-op")
  | ["read", o, name, k] =>
    match o.toNat?, k.toNat? with
    | some o, some k =>
      let (w', out, v) := w.read o name k
      -- the theorem says v = (k, current package); the driver still reports it so a model regression is visible
      (w', (match out with | .hit => "hit" | .miss => "miss") ++ s!" p{v.2}"
            ++ (if v = (k, w.pkgOf o) then "" else s!" STALE({v.1},{v.2})"))
    | _, _ => (w, "bad-op")
  | ["readfail", o, k] =>
    match o.toNat?, k.toNat? with
    | some o, some k => (w.readFail o k, "raised")
    | _, _ => (w, "bad-op")
  | ["readempty", _] => (w, "none")
  | _ => (w, "bad-op")

/-- read lines also report which memo dict object was consulted (numbered by first appearance), so that a
memo shared between two objects, or one that was not replaced by a reset, shows as a disagreement at once -/
def step (st : St) (line : String) : St × String :=
  let (w, seen) := st
  match splitWs line with
  | ["read", o, _, _] =>
    let (w', ans) := stepW w line
    match o.toNat? >>= w'.obj? with
    | some x => let (seen', i) := dictNo seen x.dict; ((w', seen'), ans ++ s!" d{i}")
    | none => ((w', seen), ans)
  | _ => let (w', ans) := stepW w line; ((w', seen), ans)

def main : IO Unit := Driver.loop ((World.init, []) : St) step

end Driver.C14
