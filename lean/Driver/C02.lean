import ThermoVerif.Model.EnergyBalance
import Driver.Util
/-
Line protocol for C02 (stream energy balance; `Float` instance of the model).

  mix  r=<st> rp=<chars> ins=<inlet>;… Q=<f> cp=<0|1> [eb=<0|1> vle=<0|1> vspec=<H:<H>:<P>|T:<T>:<P>|-> vres=<ok:<T>:<chars>|ex|->] kind=H sol=<sol>;…
       (eb: energy_balance, default 1; vle default 0; vres: what the recorded `stream.vle(...)` call left — the
        temperature and the phases holding material — or that it raised; `-` when it was not called)
  set  r=<st> x=<f> kind=<H|h|S|Sg> sol=…
  iter kind=<HP|xHP|SP|xSP> T=<f> X=<f> XT=<f> Cn=<f>          -> next=<f>   (one step of the solvers' fixed-point map)
  sep  r=<st> Hs=<f> Ho=<f> none=<0|1> oe=<other empty 0|1> same=<0|1> ea=<empty afterwards 0|1> kind=H sol=…

  <st>    = <ph>/<T>/<P>/<empty 0|1>
  <ph>    = one phase letter (a Stream) | `*` followed by the phase letters (a MultiStream)
  <chars> = phase letters, or `-` for none
  <inlet> = s:<empty>:<H>:<P>:<T>:<ph>:<chars>:<is the receiver 0|1>  |  h:<heat>  |  n     (`ins=-`: no inlets)
  <sol>   = ok:<ph>:<T>:<resid>:<slope>:<target>  |  ex:<ph>:<target>                          (`sol=-`: no solver call)
            one entry per call of solve_T_at_HP/SP or xsolve_T_at_HP/SP the real run made, in order:
            the phase(s) it was called with, the temperature it returned, X(T) − target re-evaluated
            with the real property function, and dX/dT at T (C for H, C/T for S); `ex` = it raised.
  <f>     = a float as `b<ieee bits>` (decimals accepted)

Answer (a `mix` line additionally ends with ` vs=<H:<f>:<P> | T:<f>:<P> | ->`, the flash specification):
  out=<ok|raised> tag=<branch> ph=<ph> T=<f> P=<f> e=<0|1> H=<f> calls=<n> q=<ph,…|-> hyp=<ok|range@i|resid@i|slope@i|missing@i>

`H` is what the property says the receiver's enthalpy (entropy) is: the assigned value, the
single inlet's `H` when nothing had to be assigned, 0 for an emptied receiver.  `q` are the phase
states the model asked the solver for, `hyp` the hypothesis monitor over the calls the model used:
the returned T lies in the physical domain [150, 1500] K (`range`; the adapter prints the same test, it is the
precondition under which the slope allowance means anything), `|resid| ≤ rtol·|target| + 2e-6 K · slope` (rtol 1e-9 for H, h, Sg = entropy of a gas; 2e-5 for S) and `slope > 0`.
-/
namespace Driver.C02
open ThermoVerif.EnergyBalance Driver

def phaseOfChar? : Char → Option Phase
  | 'g' => some .g | 'l' => some .l | 's' => some .s | 'L' => some .L | 'S' => some .S
  | _ => none

def phaseChar : Phase → String
  | .g => "g" | .l => "l" | .s => "s" | .L => "L" | .S => "S"

def parseChars? (s : String) : Option (List Phase) :=
  if s == "-" then some [] else s.toList.mapM phaseOfChar?

def parsePh? (s : String) : Option PhaseState :=
  match s.toList with
  | '*' :: cs => (cs.mapM phaseOfChar?).map .multi
  | [c] => (phaseOfChar? c).map .single
  | _ => none

def showPh : PhaseState → String
  | .single p => phaseChar p
  | .multi ps => "*" ++ String.join (ps.map phaseChar)

def parseBool? (s : String) : Option Bool :=
  if s == "1" then some true else if s == "0" then some false else none

def kv (toks : List String) (key : String) : Option String :=
  toks.findSome? (fun t => if t.startsWith (key ++ "=") then some (t.drop (key.length + 1)).toString else none)

def parseSt? (s : String) : Option (St Float) :=
  match splitOn1 s '/' with
  | [ph, T, P, e] => do
    let ph ← parsePh? ph
    let T ← parseFloat? T
    let P ← parseFloat? P
    let e ← parseBool? e
    pure { ph := ph, T := T, P := P, empty := e }
  | _ => none

def parseInlet? (s : String) : Option (Inlet Float) :=
  match splitOn1 s ':' with
  | ["n"] => some .none
  | ["h", q] => (parseFloat? q).map .heat
  | ["s", e, H, P, T, ph, cs, isSelf] => do
    let e ← parseBool? e
    let H ← parseFloat? H
    let P ← parseFloat? P
    let T ← parseFloat? T
    let ph ← parsePh? ph
    let cs ← parseChars? cs
    let isSelf ← parseBool? isSelf
    pure (.stream e H P T ph cs isSelf)
  | _ => none

def parseList? {β : Type} (f : String → Option β) (s : String) : Option (List β) :=
  if s == "-" then some [] else (splitOn1 s ';').mapM f

/-- one recorded solver call -/
structure Call where
  ph : PhaseState
  T : Option Float
  resid : Float
  slope : Float
  /-- the target the real call was made with -/
  target : Float

def parseCall? (s : String) : Option Call :=
  match splitOn1 s ':' with
  | ["ex", ph, x] => do
    let p ← parsePh? ph
    let x ← parseFloat? x
    pure ⟨p, none, 0.0, 0.0, x⟩
  | ["ok", ph, T, r, c, x] => do
    let ph ← parsePh? ph
    let T ← parseFloat? T
    let r ← parseFloat? r
    let c ← parseFloat? c
    let x ← parseFloat? x
    pure ⟨ph, some T, r, c, x⟩
  | _ => none

/-- "the same number up to the rounding of a sum": relative 1e-9 -/
def nearF (t x : Float) : Bool :=
  let d := if t - x < 0.0 then x - t else t - x
  let m := (if t < 0.0 then -t else t) + (if x < 0.0 then -x else x)
  d ≤ 1e-9 * m

/-- the recorded calls as the model's solver parameter (`recordedSolver` of the model file): call `k` answers only
when the model asks for the recorded phase state and, up to rounding, the recorded target; a call the real run never
made = raised -/
def solverOf (calls : List Call) : Solver Float :=
  recordedSolver nearF (calls.map (fun c => ⟨c.ph, c.target, c.T⟩))

def absF (x : Float) : Float := if x < 0.0 then -x else x

/-- hypothesis monitor over the first `n` recorded calls -/
def monitor (calls : List Call) (n : Nat) (target : Float) (rtol : Float) : String :=
  let rec go (i : Nat) (cs : List Call) : String :=
    if i ≥ n then "ok" else
    match cs with
    | [] => s!"missing@{i}"
    | c :: t =>
      match c.T with
      | none => go (i + 1) t
      | some T =>
        if !(T ≥ 150.0 && T ≤ 1500.0) then s!"range@{i}"
        else if !(c.slope > 0.0) then s!"slope@{i}"
        else if !(absF c.resid ≤ rtol * absF target + 2e-6 * c.slope) then s!"resid@{i}"
        else go (i + 1) t
  go 0 calls

def tagStr : Tag → String
  | .n0 => "n0" | .n1 => "n1" | .n1q => "n1q" | .n2 => "n2" | .n2cp => "n2cp" | .n2fb => "n2fb"
  | .sepNone => "sepNone" | .sep => "sep" | .n1m => "n1m" | .n2m => "n2m" | .n2vle => "n2vle"

def outStr : Outcome → String
  | .ok => "ok" | .raised => "raised"

def b01 (b : Bool) : String := if b then "1" else "0"

/-- `S`: entropy with liquid involved (thermo's liquid entropy integral is noisy); `Sg`: entropy of a gas -/
def rtolOf (kind : String) : Float := if kind == "S" then 2e-5 else 1e-9


def showQs (qs : List PhaseState) : String :=
  if qs.isEmpty then "-" else joinWith "," (qs.map showPh)

def answer (o : MixOut Float) (H : Float) (calls : List Call) (target : Float) (kind : String) : String :=
  s!"out={outStr o.out} tag={tagStr o.tag} ph={showPh o.st.ph} T={showFloat o.st.T} P={showFloat o.st.P} " ++
  s!"e={b01 o.st.empty} H={showFloat H} calls={o.k} q={showQs o.qs} hyp={monitor calls o.k target (rtolOf kind)}"

def stepMix (toks : List String) : Option String := do
  let r ← (kv toks "r") >>= parseSt?
  let rp ← (kv toks "rp") >>= parseChars?
  let ins ← (kv toks "ins") >>= parseList? parseInlet?
  let Q ← (kv toks "Q") >>= parseFloat?
  let cp ← (kv toks "cp") >>= parseBool?
  let kind ← kv toks "kind"
  let calls ← (kv toks "sol") >>= parseList? parseCall?
  let eb := ((kv toks "eb") >>= parseBool?).getD true
  let vle := ((kv toks "vle") >>= parseBool?).getD false
  let vres ← match kv toks "vres" with
    | none => some none
    | some "-" => some none
    | some "ex" => some none
    | some v => match splitOn1 v ':' with
      | ["ok", T, cs] => do
        let T ← parseFloat? T
        let cs ← parseChars? cs
        pure (some (⟨T, cs⟩ : VleRes Float))
      | _ => none
  -- what the recorded flash call was asked for: vspec=H:<H>:<P> | T:<T>:<P> | -
  let vspec ← match kv toks "vspec" with
    | none => some none
    | some "-" => some none
    | some v => match splitOn1 v ':' with
      | ["H", H, P] => do
        let H ← parseFloat? H
        let P ← parseFloat? P
        pure (some (VleSpec.HP H P))
      | ["T", T, P] => do
        let T ← parseFloat? T
        let P ← parseFloat? P
        pure (some (VleSpec.TP T P))
      | _ => none
  let vrun : VleRun Float := recordedVle nearF (vspec.map (fun sp => (sp, vres)))
  let o := mixFromX (solverOf calls) vrun r rp ins Q cp eb vle
  let vs := match vleSpecX r ins Q eb vle with
    | none => "-"
    | some (.HP H P) => s!"H:{showFloat H}:{showFloat P}"
    | some (.TP T P) => s!"T:{showFloat T}:{showFloat P}"
  -- the enthalpy the property promises: the assigned one; the lone inlet's; 0 for an emptied receiver
  let H : Float := match o.target, feeds ins with
    | some h, _ => h
    | none, [f] => f.H
    | none, _ => 0.0
  pure (answer o H calls H kind ++ s!" vs={vs}")

def stepSet (toks : List String) : Option String := do
  let r ← (kv toks "r") >>= parseSt?
  let x ← (kv toks "x") >>= parseFloat?
  let kind ← kv toks "kind"
  let calls ← (kv toks "sol") >>= parseList? parseCall?
  let res := setEnergy (solverOf calls) 0 r x
  let o : MixOut Float := ⟨res.st, res.out, res.k, some x, .sep, res.qs⟩
  pure ((answer o x calls x kind).replace "tag=sep" (if res.k == 0 then "tag=skip" else if res.k == 1 then "tag=direct" else "tag=flip"))

def stepSep (toks : List String) : Option String := do
  let r ← (kv toks "r") >>= parseSt?
  let Hs ← (kv toks "Hs") >>= parseFloat?
  let Ho ← (kv toks "Ho") >>= parseFloat?
  let nn ← (kv toks "none") >>= parseBool?
  let oe ← (kv toks "oe") >>= parseBool?
  let same ← (kv toks "same") >>= parseBool?
  let ea ← (kv toks "ea") >>= parseBool?
  let kind ← kv toks "kind"
  let calls ← (kv toks "sol") >>= parseList? parseCall?
  let o := separateOut (solverOf calls) r Hs Ho nn oe same ea
  let H : Float := match o.target with
    | some h => h
    | none => Hs
  pure (answer o H calls H kind)

/-- `iter kind=<HP|xHP|SP|xSP> T= X= XT= Cn=`: one step of the model's iteration map (`iterHP` / `iterSP`, the maps
`newton_fixed_point_iff` and `entropy_step_fixed_point_iff` speak about), compared bit for bit with
`iter_T_at_HP` / `xiter_T_at_HP` / `iter_T_at_SP` / `xiter_T_at_SP` of thermosteam/mixture/mixture.py. -/
def stepIter (toks : List String) : Option String := do
  let kind ← kv toks "kind"
  let T ← (kv toks "T") >>= parseFloat?
  let X ← (kv toks "X") >>= parseFloat?
  let XT ← (kv toks "XT") >>= parseFloat?
  let Cn ← (kv toks "Cn") >>= parseFloat?
  if kind == "HP" || kind == "xHP" then pure s!"next={showFloat (iterHP T X XT Cn)}"
  else if kind == "SP" || kind == "xSP" then pure s!"next={showFloat (iterSP Float.exp T X XT Cn)}"
  else none

def step (st : Unit) (line : String) : Unit × String :=
  let toks := splitWs line
  let r := match toks with
    | "mix" :: rest => stepMix rest
    | "set" :: rest => stepSet rest
    | "sep" :: rest => stepSep rest
    | "iter" :: rest => stepIter rest
    | _ => none
  (st, r.getD "bad-op")

def main : IO Unit := Driver.loop () step

end Driver.C02
