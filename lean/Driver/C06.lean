import ThermoVerif.Model.ReactionEnergy
import Driver.Util
/-
Line protocol for C06 (heat of reaction, isothermal and adiabatic energy bookkeeping).
All numbers are exact rationals (`n/d`); the real code's floats are sent as their exact values.

  pkg N hf=.. mw=.. hvap=.. hfus=.. ref=<N phase letters>      (repeated after a revision of chemical data)
  rxn <id> <mol|wt> <phases|-> X=.. r=<flat index> nu=<flat stoichiometry>
  set <id> <par|ser> <id,id,..>          members are `rxn` ids with equal basis and phases
  sys <id> <id,id,..>                    members are `rxn`/`set` ids
  dh <id>                                Reaction.dH of a `rxn`
  dhitem <id> <k>                        dH of the k-th member of a `set`
  iso <id> n=.. H0=.. H1=..              isothermal reaction of flows n; H0/H1 = recorded stream.H before/after
  adia <id> Q=.. n=.. H0=.. Hgot=.. eps=..   adiabatic reaction; Hgot = recorded stream.H after the H setter
  adiat <id> Q=.. n=.. H0=..                 adiabatic reaction whose H setter did not return a usable state: flows and target only
  sethnett <phases|-> V=.. n=..              `stream.Hnet = V` whose H setter did not return a usable state: target only
  sethnet <phases|-> V=.. n=.. Hgot=.. eps=..   `stream.Hnet = V` on flows n; Hgot = recorded stream.H afterwards
-/
namespace Driver.C06
open ThermoVerif.ReactionEnergy Driver

structure RDef where
  basis : Basis
  phases : List Phase
  blocks : List (Block Rat)
  members : List (Rxn Rat)       -- the reactions in order (for `dh` / `dhitem`)
  isSingle : Bool

structure St where
  pkg : Pkg Rat := { N := 0, hf := [], mw := [], hvap := [], hfus := [], ref := [] }
  rx : List (String × RDef) := []

/-- the binary64 value of the literal `1e-12` used by `Reaction.__call__` -/
def tolF : Rat := (4951760157141521 : Rat) / (4951760157141521099596496896 : Rat)

def parsePhase : Char → Option Phase
  | 's' => some .s | 'l' => some .l | 'g' => some .g | 'S' => some .S | 'L' => some .L | _ => none

def parsePhases (s : String) : Option (List Phase) :=
  if s == "-" then some [] else s.toList.mapM parsePhase

def parseRats (s : String) : Option (List Rat) := (splitComma s).mapM parseRat?

def field? (toks : List String) (key : String) : Option String :=
  toks.findSome? fun t => if t.startsWith (key ++ "=") then some (t.drop (key.length + 1)).toString else none

def ratField? (toks : List String) (key : String) : Option Rat := (field? toks key).bind parseRat?
def ratsField? (toks : List String) (key : String) : Option (List Rat) := (field? toks key).bind parseRats

def absR (x : Rat) : Rat := if x < 0 then -x else x

def showRats (l : List Rat) : String := joinWith "," (l.map showRat)

def showErr : Err → String
  | .invalidPhase => "err=runtime"
  | .invalidRef => "err=runtime"
  | .infeasible => "err=infeasible"

def St.find (st : St) (id : String) : Option RDef := (st.rx.find? (·.1 == id)).map (·.2)

/-- `Σ |coef_s ν_s| · |X|`: the magnitude against which the float result of `dH` is compared -/
def dHScale (pkg : Pkg Rat) (basis : Basis) (S : Nat) (lat : List Rat) (r : Rxn Rat) : Rat :=
  absR r.X * sumN (fun s => absR (coef pkg basis lat s * get r.nu s)) S

def answerDH (st : St) (d : RDef) (r : Rxn Rat) : String :=
  let S := nSpecies st.pkg d.phases
  match latVec st.pkg d.phases r.nu with
  | .error e => showErr e
  | .ok lat => s!"dH={showRat (dHcore st.pkg d.basis S lat r)} sc={showRat (dHScale st.pkg d.basis S lat r)}"

/-- all `dH` of the members, or the first error -/
def allDH (st : St) (d : RDef) : Except Err Unit :=
  d.members.foldl (fun acc r => match acc with
    | .error e => .error e
    | .ok () => match dH st.pkg d.basis d.phases r with | .error e => .error e | .ok _ => .ok ()) (.ok ())

def dFull (st : St) (d : RDef) (r : Rxn Rat) : Rat :=
  match dH st.pkg d.basis d.phases r with | .ok v => v | .error _ => 0
def dForm (st : St) (d : RDef) (S : Nat) (r : Rxn Rat) : Rat := dHcore st.pkg d.basis S [] r

def scaleOf (pkg : Pkg Rat) (S : Nat) (n : List Rat) (extra : List Rat) : Rat :=
  sumN (fun s => absR (get pkg.hf (s % pkg.N) * get n s)) S + (extra.map absR).foldl (· + ·) 0

/-! ### float-level fragility of the feasibility decision

The real code evaluates the routed computation in binary64; the model evaluates it exactly.  `magSys` adds up, per
species, the magnitudes of everything summed on the way to the raw result (`|m_s| + Σ_k |extent_k·ν_k,s|`); a float
evaluation stays within `e_s = 8·(K+1)·2⁻⁵³·mag_s` of the exact entry (K reactions, ≤ 5 roundings each, plus the mass
routing).  The decision `Σ negatives < −1e-12` is *fragile* when entries perturbed by at most `e_s` can decide it either
way; only then may the real call raise while the exact model returns (or the reverse). -/

def magOne (S : Nat) (ext : Rat) (r : Rxn Rat) (mag : List Rat) : List Rat :=
  tab S (fun s => get mag s + absR (ext * get r.nu s))

def magBlock (S : Nat) : Block Rat → List Rat × List Rat → List Rat × List Rat
  | .single r, (m, mag) => (applyOne S r m, magOne S (get m r.r * r.X) r mag)
  | .par rs, (m, mag) => (applyPar S m rs m, rs.foldl (fun g r => magOne S (get m r.r * r.X) r g) mag)
  | .ser rs, (m, mag) => rs.foldl (fun p r => (applyOne S r p.1, magOne S (get p.1 r.r * r.X) r p.2)) (m, mag)

def magSys (S : Nat) (bs : List (Block Rat)) (m : List Rat) : List Rat :=
  (bs.foldl (fun p b => magBlock S b p) (m, tab S (fun s => absR (get m s)))).2

structure Lenient where
  n' : List Rat            -- flows after clamping (also given when the exact decision is "infeasible" but fragile)
  exactInfeasible : Bool
  fragile : Bool
  lo : Rat
  hi : Rat

def reactLenient (pkg : Pkg Rat) (basis : Basis) (S : Nat) (bs : List (Block Rat)) (K : Nat) (n : List Rat) : Lenient :=
  let m := toBasis pkg basis S n
  let raw := applySys S bs m
  let mag := magSys S bs m
  let u : Rat := (8 * ((K : Rat) + 1)) / (9007199254740992 : Rat)
  let lo := sumN (fun s => let v := get raw s - u * get mag s; if v < 0 then v else 0) S
  let hi := sumN (fun s => let v := get raw s + u * get mag s; if v < 0 then v else 0) S
  { n' := fromBasis pkg basis S (clamp S raw), exactInfeasible := decide (negSum S raw < -tolF),
    fragile := decide (lo < -tolF) != decide (hi < -tolF), lo := lo, hi := hi }

def fragileSuffix (l : Lenient) : String :=
  if l.fragile then s!" fragile=1 exact={if l.exactInfeasible then "infeasible" else "ok"} lo={showRat l.lo} hi={showRat l.hi}" else ""

def step (st : St) (line : String) : St × String :=
  match splitWs line with
  | "pkg" :: n :: rest =>
    match n.toNat?, ratsField? rest "hf", ratsField? rest "mw", ratsField? rest "hvap", ratsField? rest "hfus",
          (field? rest "ref").bind (fun s => s.toList.mapM parsePhase) with
    | some N, some hf, some mw, some hvap, some hfus, some ref =>
      if N = 0 || hf.length ≠ N || mw.length ≠ N || hvap.length ≠ N || hfus.length ≠ N || ref.length ≠ N then (st, "bad-op")
      -- a later `pkg` line with the same N revises the chemical data (Hf, Hfus, …) and keeps the reactions
      else ({ st with pkg := { N := N, hf := hf, mw := mw, hvap := hvap, hfus := hfus, ref := ref },
                      rx := if st.pkg.N = N then st.rx else [] }, "ok")
    | _, _, _, _, _, _ => (st, "bad-op")
  | "rxn" :: id :: basis :: ph :: rest =>
    match (match basis with | "mol" => some Basis.mol | "wt" => some Basis.wt | _ => none), parsePhases ph,
          ratField? rest "X", (field? rest "r").bind (·.toNat?), ratsField? rest "nu" with
    | some b, some phases, some X, some r, some nu =>
      let S := nSpecies st.pkg phases
      if nu.length ≠ S || r ≥ S then (st, "bad-op") else
      let rx : Rxn Rat := { nu := nu, r := r, X := X }
      ({ st with rx := (id, { basis := b, phases := phases, blocks := [.single rx], members := [rx], isSingle := true })
                        :: st.rx.filter (·.1 != id) }, "ok")
    | _, _, _, _, _ => (st, "bad-op")
  | ["set", id, kind, ids] =>
    match (splitComma ids).mapM st.find with
    | some (d0 :: ds) =>
      let all := d0 :: ds
      if all.any (fun d => !d.isSingle || d.basis != d0.basis || d.phases != d0.phases) then (st, "bad-op") else
      let rs := all.flatMap (·.members)
      match kind with
      | "par" => ({ st with rx := (id, { d0 with blocks := [.par rs], members := rs, isSingle := false }) :: st.rx.filter (·.1 != id) }, "ok")
      | "ser" => ({ st with rx := (id, { d0 with blocks := [.ser rs], members := rs, isSingle := false }) :: st.rx.filter (·.1 != id) }, "ok")
      | _ => (st, "bad-op")
    | _ => (st, "bad-op")
  | ["sys", id, ids] =>
    match (splitComma ids).mapM st.find with
    | some (d0 :: ds) =>
      let all := d0 :: ds
      if all.any (fun d => d.basis != d0.basis || d.phases != d0.phases) then (st, "bad-op") else
      ({ st with rx := (id, { d0 with blocks := all.flatMap (·.blocks), members := all.flatMap (·.members), isSingle := false })
                        :: st.rx.filter (·.1 != id) }, "ok")
    | _ => (st, "bad-op")
  | ["dh", id] =>
    match st.find id with
    | some d => match d.isSingle, d.members with
      | true, [r] => (st, answerDH st d r)
      | _, _ => (st, "bad-op")
    | none => (st, "bad-op")
  | ["dhitem", id, k] =>
    match st.find id, k.toNat? with
    | some d, some k => match d.members[k]? with
      | some r => (st, answerDH st d r)
      | none => (st, "bad-op")
    | _, _ => (st, "bad-op")
  | "iso" :: id :: rest =>
    match st.find id, ratsField? rest "n", ratField? rest "H0", ratField? rest "H1" with
    | some d, some n, some H0, some H1 =>
      let S := nSpecies st.pkg d.phases
      if n.length ≠ S then (st, "bad-op") else
      match allDH st d with
      | .error e => (st, showErr e)
      | .ok () =>
        let l := reactLenient st.pkg d.basis S d.blocks d.members.length n
        if l.exactInfeasible && !l.fragile then (st, showErr .infeasible) else
          let n' := l.n'
          let m := toBasis st.pkg d.basis S n
          let raw := applySys S d.blocks m
          let heat := heatSys (dFull st d) S d.blocks m
          let form := heatSys (dForm st d S) S d.blocks m
          let Hf0 := hfStream st.pkg S n
          let Hf1 := hfStream st.pkg S n'
          let dHnet := hnet st.pkg S H1 n' - hnet st.pkg S H0 n
          let clamped := clamp S raw != tab S (fun s => get raw s)
          let chk := if clamped then "clamped" else if dHnet == form + (H1 - H0) then "ok" else "BROKEN"
          let sc := scaleOf st.pkg S n [H0, H1] + scaleOf st.pkg S n' []
          (st, s!"n={showRats n'} Hf0={showRat Hf0} Hf1={showRat Hf1} heat={showRat heat} form={showRat form} dHnet={showRat dHnet} sc={showRat sc} chk={chk}{fragileSuffix l}")
    | _, _, _, _ => (st, "bad-op")
  | "adia" :: id :: rest =>
    match st.find id, ratsField? rest "n", ratField? rest "H0", ratField? rest "Hgot", ratField? rest "Q", ratField? rest "eps" with
    | some d, some n, some H0, some Hgot, some Q, some eps =>
      let S := nSpecies st.pkg d.phases
      if n.length ≠ S then (st, "bad-op") else
      let l := reactLenient st.pkg d.basis S d.blocks d.members.length n
      if l.exactInfeasible && !l.fragile then (st, showErr .infeasible) else
        -- `adiabatic` of the model on the exact path; on the fragile-infeasible path the same formulas on the clamped flows
        let (n', target) := match adiabatic tolF st.pkg d.basis S d.blocks H0 Q n with
          | .ok p => p
          | .error _ => (l.n', (hnet st.pkg S H0 n + Q) - hfStream st.pkg S l.n')
        let Hnet0 := hnet st.pkg S H0 n
        let Hnet1 := hnet st.pkg S Hgot n'
        let resid := Hnet1 - (Hnet0 + Q)
        let hyp := if absR (Hgot - target) ≤ eps then "ok" else "unmet"
        -- the theorem `adiabatic_balance` says |resid| ≤ eps whenever the hypothesis holds
        let thm := if hyp == "ok" && !(absR resid ≤ eps) then " BROKEN" else ""
        let sc := scaleOf st.pkg S n [H0, Hgot, Q] + scaleOf st.pkg S n' []
        (st, s!"n={showRats n'} target={showRat target} Hnet0={showRat Hnet0} Hnet1={showRat Hnet1} resid={showRat resid} sc={showRat sc} hyp={hyp}{thm}{fragileSuffix l}")
    | _, _, _, _, _, _ => (st, "bad-op")
  | "adiat" :: id :: rest =>
    match st.find id, ratsField? rest "n", ratField? rest "H0", ratField? rest "Q" with
    | some d, some n, some H0, some Q =>
      let S := nSpecies st.pkg d.phases
      if n.length ≠ S then (st, "bad-op") else
      let l := reactLenient st.pkg d.basis S d.blocks d.members.length n
      if l.exactInfeasible && !l.fragile then (st, showErr .infeasible) else
        let (n', target) := match adiabatic tolF st.pkg d.basis S d.blocks H0 Q n with
          | .ok p => p
          | .error _ => (l.n', (hnet st.pkg S H0 n + Q) - hfStream st.pkg S l.n')
        let Hnet0 := hnet st.pkg S H0 n
        let sc := scaleOf st.pkg S n [H0, Q] + scaleOf st.pkg S n' []
        (st, s!"n={showRats n'} target={showRat target} Hnet0={showRat Hnet0} sc={showRat sc}{fragileSuffix l}")
    | _, _, _, _ => (st, "bad-op")
  | "sethnett" :: ph :: rest =>
    match parsePhases ph, ratsField? rest "n", ratField? rest "V" with
    | some phases, some n, some V =>
      let S := nSpecies st.pkg phases
      if n.length ≠ S then (st, "bad-op") else
      (st, s!"target={showRat (setHnetTarget st.pkg S V n)} sc={showRat (scaleOf st.pkg S n [V])}")
    | _, _, _ => (st, "bad-op")
  | "sethnet" :: ph :: rest =>
    match parsePhases ph, ratsField? rest "n", ratField? rest "V", ratField? rest "Hgot", ratField? rest "eps" with
    | some phases, some n, some V, some Hgot, some eps =>
      let S := nSpecies st.pkg phases
      if n.length ≠ S then (st, "bad-op") else
      let target := setHnetTarget st.pkg S V n
      let Hnet1 := hnet st.pkg S Hgot n
      let resid := Hnet1 - V
      let hyp := if absR (Hgot - target) ≤ eps then "ok" else "unmet"
      let sc := scaleOf st.pkg S n [V, Hgot]
      (st, s!"target={showRat target} Hnet1={showRat Hnet1} resid={showRat resid} sc={showRat sc} hyp={hyp}")
    | _, _, _, _, _ => (st, "bad-op")
  | _ => (st, "bad-op")

def main : IO Unit := Driver.loop ({} : St) step

end Driver.C06
