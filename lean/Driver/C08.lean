import ThermoVerif.Model.BubbleDew
import Driver.Util
/-
Line protocol for C08 (bubble and dew points).  Floats travel as `b<bits>`.

  inst <B|D> <gammaId> <phiId> <pcfId> <chemId,chemId,…>
        → `id <n>`                      (instance cache; separate caches for B and D)
  pt <bubT|bubP|dewT|dewP> <P> <spec> <ret> <sat> <critSpec> <critRet> <z,…> <psat,…> <gamma,…> <phi,…> <pcf,…>
        → `ok <single|multi> val=<f> res=<f> afres=<f> frac=<f,…>`  |  `err <class>`
          (val/res/frac of the FIXED variant, recomputed from the recorded Psat/γ/φ/pcf at the returned point;
           `afres` = residual of the pre-repair variant)
  ordP <uniq> <z,…> <kappaAtBubble,…> <kappaAtDew,…>
        → `hyp=<0|1> pb=<f> pd=<f> le=<0|1>`   bubble/dew pressures implied by the recorded κ, and their order
  ordT <uniq> <P> <z,…> <psatAtTb,…> <psatAtTd,…> <kappaAtBubble,…> <kappaAtDew,…>
        → `hyp=<0|1> sb=<f> dd=<f> le=<0|1> mono=<0|1>`  both sums recomputed; T_b ≤ T_d read off the vapour pressures
  sameT <uniq> <psatA,…> <psatB,…> <fracA,…> <fracB,…>
        → `hyp=<0|1> same=<0|1>`               two temperatures are the same iff every Psat_i agrees
  sameP <bub|dew> <uniq> <zA,…> <kappaA,…> <zB,…> <kappaB,…> <fracA,…> <fracB,…>
        → `hyp=<0|1> pa=<f> pb=<f> same=<0|1>` implied pressures of the two calls agree
Tolerances (see harness/props/c08.py): residual 1e-5, pressures 2e-5 relative, vapour pressures 3e-4 relative
(= 2e-3 K at d ln Psat/dT ≤ 0.15 /K), fractions 1e-4.
-/
namespace Driver.C08
open ThermoVerif.BubbleDew Driver

instance : NatCast Float := ⟨Nat.toFloat⟩

structure St where
  bub : Cache := {}
  dew : Cache := {}

def floats (s : String) : Option (List Float) := (splitComma s).mapM parseFloat?
def nats (s : String) : Option (List Nat) := (splitComma s).mapM (·.toNat?)
def showFloats (l : List Float) : String := joinWith "," (l.map showFloat)

def parseMethod : String → Option Method
  | "bubT" => some .bubbleT | "bubP" => some .bubbleP
  | "dewT" => some .dewT | "dewP" => some .dewP | _ => none

def mkComps : List Float → List Float → List Float → List Float → List Float → Option (List (Comp Float))
  | [], [], [], [], [] => some []
  | z :: zs, p :: ps, g :: gs, f :: fs, c :: cs =>
    (mkComps zs ps gs fs cs).map (fun t => { z := z, psat := p, gamma := g, phi := f, pcf := c } :: t)
  | _, _, _, _, _ => none

def errName : Err → String
  | .noComponents => "noComponents"
  | .shape => "shape"

def b01 (b : Bool) : String := if b then "1" else "0"

def resTol : Float := 1e-5
def pTol : Float := 4e-5
def psatTol : Float := 3e-4
def fracTol : Float := 1e-4

def step (st : St) (line : String) : St × String :=
  match splitWs line with
  | ["inst", which, g, f, c, chems] =>
    match g.toNat?, f.toNat?, c.toNat?, nats chems with
    | some g, some f, some c, some chems =>
      let k : Key := { chems := chems, gamma := g, phi := f, pcf := c }
      if which == "B" then
        let (c', id) := st.bub.get k; ({ st with bub := c' }, s!"id {id}")
      else if which == "D" then
        let (c', id) := st.dew.get k; ({ st with dew := c' }, s!"id {id}")
      else (st, "bad-op")
    | _, _, _, _ => (st, "bad-op")
  | ["pt", m, P, spec, ret, sat, cs, cr, z, psat, g, f, c] =>
    match parseMethod m, parseFloat? P, parseFloat? spec, parseFloat? ret, parseFloat? sat,
          parseFloat? cs, parseFloat? cr, floats z, floats psat, floats g, floats f, floats c with
    | some m, some P, some spec, some ret, some sat, some cs, some cr, some z, some psat, some g, some f, some c =>
      match mkComps z psat g f c with
      | none => (st, "err shape")
      | some comps =>
        let i : Input Float := { comps := comps, P := P, spec := spec, ret := ret, sat := sat,
                                 critSpec := cs, critRet := cr, minimum := 1e-16 }
        match solve .fixed m i, solve .asFound m i with
        | .ok o, .ok a =>
          (st, s!"ok {if o.single then "single" else "multi"} val={showFloat o.value} res={showFloat o.residual} afres={showFloat a.residual} frac={showFloats o.fracs}")
        | .error e, _ => (st, s!"err {errName e}")
        | _, .error e => (st, s!"err {errName e}")
    | _, _, _, _, _, _, _, _, _, _, _, _ => (st, "bad-op")
  | ["ordP", uniq, z, kb, kd] =>
    match floats z, floats kb, floats kd with
    | some z, some kb, some kd =>
      if z.length != kb.length || z.length != kd.length then (st, "err shape") else
      let pb := impliedP true z kb
      let pd := impliedP false z kd
      let hyp := uniq == "1" && allPos kb && allPos kd
      (st, s!"hyp={b01 hyp} pb={showFloat pb} pd={showFloat pd} le={b01 (pd ≤ pb * (1 + pTol))}")
    | _, _, _ => (st, "bad-op")
  | ["ordT", uniq, P, z, pb, pd, kb, kd] =>
    match parseFloat? P, floats z, floats pb, floats pd, floats kb, floats kd with
    | some P, some z, some pb, some pd, some kb, some kd =>
      if z.length != kb.length || z.length != kd.length || z.length != pb.length || z.length != pd.length
      then (st, "err shape") else
      let zn := normalizeZ z
      let sb := bubbleSum (zn.zip (kb.map (· / P)))
      let dd := dewSum (zn.zip (kd.map (· / P)))
      let roots := absClose resTol sb 1 && absClose resTol dd 1
      let hyp := uniq == "1" && allPos kb && allPos kd && roots
      -- monitor of the theorem's hypothesis (κ_i increasing between the two temperatures); reported, not gating
      let mono := allLe psatTol kb kd
      (st, s!"hyp={b01 hyp} sb={showFloat sb} dd={showFloat dd} le={b01 (allLe psatTol pb pd)} mono={b01 mono}")
    | _, _, _, _, _, _ => (st, "bad-op")
  | ["sameT", uniq, pa, pb, fa, fb] =>
    match floats pa, floats pb, floats fa, floats fb with
    | some pa, some pb, some fa, some fb =>
      let hyp := uniq == "1" && allPos pa && allPos pb
      (st, s!"hyp={b01 hyp} same={b01 (allRelClose psatTol pa pb && allAbsClose fracTol fa fb)}")
    | _, _, _, _ => (st, "bad-op")
  | ["sameP", which, uniq, za, ka, zb, kb, fa, fb] =>
    match floats za, floats ka, floats zb, floats kb, floats fa, floats fb with
    | some za, some ka, some zb, some kb, some fa, some fb =>
      if which != "bub" && which != "dew" then (st, "bad-op") else
      if za.length != ka.length || zb.length != kb.length then (st, "err shape") else
      let pa := impliedP (which == "bub") za ka
      let pb := impliedP (which == "bub") zb kb
      let hyp := uniq == "1" && allPos ka && allPos kb
      (st, s!"hyp={b01 hyp} pa={showFloat pa} pb={showFloat pb} same={b01 (relClose pTol pa pb && allAbsClose fracTol fa fb)}")
    | _, _, _, _, _, _ => (st, "bad-op")
  | _ => (st, "bad-op")

def main : IO Unit := Driver.loop ({} : St) step

end Driver.C08
