import ThermoVerif.Model.BubbleDew
import Driver.Util
/-
Line protocol for C08 (bubble and dew points).  Floats travel as `b<bits>`.

  inst <B|D> <gammaId> <phiId> <pcfId> <chemId,chemId,…>
        → `id <n>`                      (instance cache; separate caches for B and D)
  pt <bubT|bubP|dewT|dewP> <P> <spec> <ret> <sat> <critSpec> <critRet> <z,…> <psat,…> <gamma,…> <phi,…> <pcf,…>
        → `ok <single|multi> val=<f> res=<f> afres=<f> frac=<f,…>`  |  `err <class>`
          (val/res/frac of the FIXED variant; `afres` = residual of the as-found variant)
  idealP <z,…> <kappa,…>
        → `pb=<f> pd=<f> le=<0|1>`      (closed forms `_Py_ideal`, `_Px_ideal` on z/Σz)
  ord <T|P> <uniq> <bub> <dew> <kappaAtBubble,…> <kappaAtDew,…>
        → `hyp=1 le=1` | `hyp=0`        (ordering claimed only under the monitored hypotheses)
  same <T|P> <uniq> <a> <b> <kappaAtA,…> <kappaAtB,…>
        → `hyp=1 same=1` | `hyp=0`      (two roots of one strictly monotone equation coincide)
-/
namespace Driver.C08
open ThermoVerif.BubbleDew Driver

instance : NatCast Float := ⟨Nat.toFloat⟩

structure St where
  bub : Cache := {}
  dew : Cache := {}

def floats (s : String) : Option (List Float) := (splitComma s).mapM parseFloat?
def nats (s : String) : Option (List Nat) := (splitComma s).mapM (·.toNat?)
def showFloats (l : List Float) : String := joinWith "," (l.map showFloat)

def parseMethod : String → Option Method
  | "bubT" => some .bubbleT | "bubP" => some .bubbleP
  | "dewT" => some .dewT | "dewP" => some .dewP | _ => none

def mkComps : List Float → List Float → List Float → List Float → List Float → Option (List (Comp Float))
  | [], [], [], [], [] => some []
  | z :: zs, p :: ps, g :: gs, f :: fs, c :: cs =>
    (mkComps zs ps gs fs cs).map (fun t => { z := z, psat := p, gamma := g, phi := f, pcf := c } :: t)
  | _, _, _, _, _ => none

def errName : Err → String
  | .noComponents => "noComponents"
  | .shape => "shape"

def b01 (b : Bool) : String := if b then "1" else "0"

def step (st : St) (line : String) : St × String :=
  match splitWs line with
  | ["inst", which, g, f, c, chems] =>
    match g.toNat?, f.toNat?, c.toNat?, nats chems with
    | some g, some f, some c, some chems =>
      let k : Key := { chems := chems, gamma := g, phi := f, pcf := c }
      if which == "B" then
        let (c', id) := st.bub.get k; ({ st with bub := c' }, s!"id {id}")
      else if which == "D" then
        let (c', id) := st.dew.get k; ({ st with dew := c' }, s!"id {id}")
      else (st, "bad-op")
    | _, _, _, _ => (st, "bad-op")
  | ["pt", m, P, spec, ret, sat, cs, cr, z, psat, g, f, c] =>
    match parseMethod m, parseFloat? P, parseFloat? spec, parseFloat? ret, parseFloat? sat,
          parseFloat? cs, parseFloat? cr, floats z, floats psat, floats g, floats f, floats c with
    | some m, some P, some spec, some ret, some sat, some cs, some cr, some z, some psat, some g, some f, some c =>
      match mkComps z psat g f c with
      | none => (st, "err shape")
      | some comps =>
        let i : Input Float := { comps := comps, P := P, spec := spec, ret := ret, sat := sat,
                                 critSpec := cs, critRet := cr, minimum := 1e-16 }
        match solve .fixed m i, solve .asFound m i with
        | .ok o, .ok a =>
          (st, s!"ok {if o.single then "single" else "multi"} val={showFloat o.value} res={showFloat o.residual} afres={showFloat a.residual} frac={showFloats o.fracs}")
        | .error e, _ => (st, s!"err {errName e}")
        | _, .error e => (st, s!"err {errName e}")
    | _, _, _, _, _, _, _, _, _, _, _, _ => (st, "bad-op")
  | ["idealP", z, k] =>
    match floats z, floats k with
    | some z, some k =>
      if z.length != k.length then (st, "err shape") else
      let zk := (normalizeZ z).zip k
      let pb := idealBubbleP zk
      let pd := idealDewP zk
      (st, s!"pb={showFloat pb} pd={showFloat pd} le={b01 (pd ≤ pb * (1 + 1e-12))}")
    | _, _ => (st, "bad-op")
  | ["ord", kind, uniq, a, b, ka, kb] =>
    match parseFloat? a, parseFloat? b, floats ka, floats kb with
    | some a, some b, some ka, some kb =>
      let pos := allPos ka && allPos kb
      let hyp := uniq == "1" && pos && ka.length == kb.length &&
        (if kind == "T" then monoBetween a b ka kb else true)
      if kind != "T" && kind != "P" then (st, "bad-op")
      else (st, if hyp then "hyp=1 le=1" else "hyp=0")
    | _, _, _, _ => (st, "bad-op")
  | ["same", kind, uniq, a, b, ka, kb] =>
    match parseFloat? a, parseFloat? b, floats ka, floats kb with
    | some a, some b, some ka, some kb =>
      let pos := allPos ka && allPos kb
      let hyp := uniq == "1" && pos && ka.length == kb.length &&
        (if kind == "T" then monoBetween a b ka kb else true)
      if kind != "T" && kind != "P" then (st, "bad-op")
      else (st, if hyp then "hyp=1 same=1" else "hyp=0")
    | _, _, _, _ => (st, "bad-op")
  | _ => (st, "bad-op")

def main : IO Unit := Driver.loop ({} : St) step

end Driver.C08
