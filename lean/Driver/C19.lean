import ThermoVerif.Model.NetSort
import Driver.Util
/-
Line protocol for C19 (simulation order from a flowsheet).

  graph <n> o=<per unit, `;`-separated: outlet stream ids `.`-separated> i=<same for inlets>
            k=<per stream: sink unit or `-`, `,`-separated> c=<per stream: source unit or `-`>
                                            → ok   (followed by ` hyp-failed:<name>` for every hypothesis of
                                                    the theorems that the graph does not meet)
  feeds <F_mass per feed, `,`-separated>    → order=<indices after sort_feeds_big_to_small>
  dfs <feed stream> e=<ends> u=<units>      → W=[path>recycle;…] L=[path;…] E=[ends afterwards, sorted]
  sort e=<ends> ( u0 ( u1 u2 r7 ) u3 )      → ( … ) warn=<number of "could not be determined" warnings>
  fromunits o=<unit order> f=<F_mass per stream id>
                                            → units=<sorted, with multiplicity> R=<recycles> warn=<k> verdict=<checker on
                                              the model's own network> | ( … ): the whole of Network.from_units while no
                                              walk reports a recycle (then err=recycle); the harness compares what stands
                                              before ` | `, the exact order after it is reported only
  valid R=<reported recycles> ( … )         → valid | units | dup | recycle-set | order | recycle-on-dag | no-recycle |
                                              recycles-do-not-cut | backward, then ` all=<every failing clause>`

A network is written `( item … r<stream> … )`; `u<k>` is a unit, `r<k>` a recycle of the
enclosing network.
-/
namespace Driver.C19
open ThermoVerif.NetSort Driver

structure St where
  g : Graph := Graph.empty

def parseIds (sep : Char) (s : String) : Option (List Nat) :=
  if s == "" then some [] else (splitOn1 s sep).mapM (·.toNat?)

def parseOptIds (s : String) : Option (List (Option Nat)) :=
  if s == "" then some [] else
  (splitOn1 s ',').mapM fun t => if t == "-" then some none else t.toNat?.map some

def parsePerUnit (s : String) : Option (List (List Nat)) :=
  (splitOn1 s ';').mapM (parseIds '.')

def dropKey (key : String) (t : String) : Option String :=
  if t.startsWith key then some (t.drop key.length).toString else none

def sortNat (l : List Nat) : List Nat := l.mergeSort (· ≤ ·)

/-- parse the items of a network up to the closing `)`; returns (items, recycles, rest) -/
def parseNet : Nat → List String → Option (List Item × List Nat × List String)
  | 0, _ => none
  | _ + 1, [] => none
  | fuel + 1, t :: ts =>
    if t == ")" then some ([], [], ts)
    else if t == "(" then do
      let (its, rs, rest) ← parseNet fuel ts
      let (its', rs', rest') ← parseNet fuel rest
      some (Item.net its rs :: its', rs', rest')
    else if t.startsWith "u" then do
      let u ← (t.drop 1).toString.toNat?
      let (its', rs', rest') ← parseNet fuel ts
      some (Item.unit u :: its', rs', rest')
    else if t.startsWith "r" then do
      let r ← (t.drop 1).toString.toNat?
      let (its', rs', rest') ← parseNet fuel ts
      some (its', r :: rs', rest')
    else none

def parseTop (ts : List String) : Option Item :=
  match ts with
  | "(" :: rest =>
    match parseNet (rest.length + 1) rest with
    | some (its, rs, []) => some (Item.net its rs)
    | _ => none
  | _ => none

mutual
def showItem : Item → List String
  | .unit u => [s!"u{u}"]
  | .net p r => ["("] ++ showItems p ++ (sortNat r).map (fun s => s!"r{s}") ++ [")"]
def showItems : List Item → List String
  | [] => []
  | i :: is => showItem i ++ showItems is
end

def showPath (p : List Nat) : String := if p.isEmpty then "_" else joinWith "." (p.map toString)

def bad (st : St) : St × String := (st, "bad-op")

def step (st : St) (line : String) : St × String :=
  match splitWs line with
  | ["graph", n, o, i, k, c] =>
    match n.toNat?, (dropKey "o=" o).bind parsePerUnit, (dropKey "i=" i).bind parsePerUnit,
          (dropKey "k=" k).bind parseOptIds, (dropKey "c=" c).bind parseOptIds with
    | some n, some o, some i, some k, some c =>
      let g : Graph := { n := n, outs := o, ins := i, snk := k, src := c }
      -- hypothesis monitors of the theorems: `Graph.SinksOK`, `outs.length ≤ n`, every unit has an outlet
      let sinksOK := k.all fun x => match x with | some v => decide (v < n) | none => true
      let hyp := (if sinksOK then "" else " hyp-failed:SinksOK") ++
                 (if o.length ≤ n then "" else " hyp-failed:outs-length") ++
                 (if (List.range n).all (fun u => !(g.outsOf u).isEmpty) then "" else " hyp-failed:unit-without-outlet") ++
                 (if (List.range n).all (fun u => !(g.insOf u).isEmpty) then "" else " hyp-failed:unit-without-inlet") ++
                 -- `Graph.WF`: port lists and stream ends agree
                 (if (List.range i.length).all (fun u => (g.insOf u).all fun s => g.sinkOf s == some u) &&
                     (List.range k.length).all (fun s => match g.sinkOf s with
                        | some v => (g.insOf v).contains s | none => true) &&
                     (List.range o.length).all (fun u => (g.outsOf u).all fun s => g.sourceOf s == some u) &&
                     (List.range c.length).all (fun s => match g.sourceOf s with
                        | some v => (g.outsOf v).contains s | none => true)
                  then "" else " hyp-failed:WF")
      ({ g := g }, "ok" ++ hyp)
    | _, _, _, _, _ => bad st
  | ["feeds", f] =>
    match parseIds ',' f with
    | some fm => (st, "order=" ++ joinWith "," ((feedOrder fm).map toString))
    | none => bad st
  | ["dfs", feed, e, u] =>
    match feed.toNat?, (dropKey "e=" e).bind (parseIds ','), (dropKey "u=" u).bind (parseIds ',') with
    | some feed, some ends, some units =>
      match findPaths st.g units feed ends with
      | .error err => (st, "err=" ++ err.toString)
      | .ok r =>
        let w := r.withR.map fun (p, s) => showPath p ++ ">" ++ toString s
        (st, s!"W=[{joinWith ";" w}] L=[{joinWith ";" (r.without.map showPath)}] E=[{joinWith "," ((sortNat r.ends).map toString)}]")
    | _, _, _ => bad st
  | "sort" :: e :: net =>
    match (dropKey "e=" e).bind (parseIds ','), parseTop net with
    | some ends, some it =>
      match sortItem st.g ends it with
      | .error err => (st, "err=" ++ err.toString)
      | .ok (it', w) => (st, joinWith " " (showItem it') ++ s!" warn={w}")
    | _, _ => bad st
  | ["fromunits", o, f] =>
    match (dropKey "o=" o).bind (parseIds ','), (dropKey "f=" f).bind (parseIds ',') with
    | some order, some fmass =>
      match fromUnits st.g order fmass with
      | .error err => (st, "err=" ++ err.toString)
      | .ok (it, w) =>
        -- what the property can see (compared), then the exact nested path (reported only)
        let rs := sortNat (allRecycles it)
        (st, s!"units={joinWith "," ((sortNat it.flat).map toString)} R={joinWith "," (rs.map toString)} warn={w} " ++
             s!"verdict={(checkNetwork st.g it rs).toString} | " ++ joinWith " " (showItem it))
    | _, _ => bad st
  | "valid" :: r :: net =>
    match (dropKey "R=" r).bind (parseIds ','), parseTop net with
    | some R, some it =>
      (st, (checkNetwork st.g it R).toString ++ " all=" ++ joinWith "," ((failingClauses st.g it R).map (·.toString)))
    | _, _ => bad st
  | _ => bad st

def main : IO Unit := Driver.loop ({} : St) step

end Driver.C19
