import ThermoVerif.Model.EqWriteback
import Driver.Util
/-
Line protocol for C03 (write-back layer of the phase-equilibrium code).  Floats travel as `b<bits>`.

  cfg <n> light=.. heavy=.. hs=.. vle=.. lle=.. mw=..      -> ok
  state g=.. l=.. L=.. s=..                                -> st g=.. l=.. L=.. s=..
  begin                                                     -> ok          (snapshot for the verdict flags)
  vle.begin <obj> | vle.end | lle.begin | lle.end | sle.begin <obj> | sle.end      -> st ..
  vle.setup                                                 -> st .. idx=.. reuse=0|1|-   (cached `_nonzero`/`_index` of <obj>)
  vle.bublim V <y> | vle.dewlim V <x>                        -> st ..
  vle.reactive <obj> <nonzero keys> <dmol> <dF>             -> ok   (a reactive flash ran on <obj>; leftovers are never read)
  sle.setup j                                               -> ok idx=.. pure=b | err nosolute|notindexed idx=.. pure=b
  vle.solve <raw>                                           -> v <clipped>
  vle.solveu <v>                                            -> v <v>       (`method='shgo'`: no clip in the code)
  vle.setflows reg|<v> | vle.allvap | vle.allliq | vle.frac V | vle.lever x0 <y>
  vle.condense f | vle.vaporise f                           -> st ..   (or `err infeasible`)
  lle.pool                                                  -> st .. idx=..
  lle.write none | solve top=<i|-> <molL> | cache top=<i|-> phi <K> | cacheraw top=<i|-> raw <K>   -> st ..
  sle.update j <idx|all> x msol | sle.allliq j | sle.allsol j | sle.frac j Lf     -> st ..
  vlle.pool | vlle.swap | vlle.normalise <rows> | vlle.assign <rows> | vlle.finish -> st ..
  end <op>                                                  -> st .. cons=b nonneg=b light=b heavy=b

Tokens `tag:<branch>` and `unmet:<hypothesis>` may follow an answer: the first feed the coverage
histogram, the second says that a hypothesis of a theorem does not hold for the recorded parameter.
-/
namespace Driver.C03
open ThermoVerif.EqWriteback Driver

structure St where
  cls : Cls Float := { n := 0, light := [], heavy := [], vle := [], lle := [], hs := [], mw := [] }
  rows : Rows Float := { g := [], l := [], L := [], s := [] }
  reg : Option (VReg Float) := none
  total : Option Float := none
  snap : Rows Float := { g := [], l := [], L := [], s := [] }
  vcaches : List (Nat × VCache) := []      -- per VLE object of the case: `_nonzero`, `_index`
  scaches : List (Nat × SCache) := []      -- per SLE object
  vobj : Nat := 0
  sobj : Nat := 0

def parseVec (s : String) : Option (List Float) := (splitComma s).mapM parseFloat?
def parseIdx (s : String) : Option (List Nat) := (splitComma s).mapM (·.toNat?)

def kv (key : String) (toks : List String) : Option String :=
  (toks.find? (·.startsWith (key ++ "="))).map fun t => (t.drop (key.length + 1)).toString

def parseRows (toks : List String) : Option (Rows Float) := do
  let g ← (kv "g" toks) >>= parseVec
  let l ← (kv "l" toks) >>= parseVec
  let L ← (kv "L" toks) >>= parseVec
  let s ← (kv "s" toks) >>= parseVec
  pure { g := g, l := l, L := L, s := s }

def showVec (n : Nat) (v : List Float) : String :=
  joinWith "," ((List.range n).map fun i => showFloat (get v i))

def showRows (n : Nat) (r : Rows Float) : String :=
  s!"st g={showVec n r.g} l={showVec n r.l} L={showVec n r.L} s={showVec n r.s}"

def showIdx (idx : List Nat) : String := joinWith "," (idx.map toString)

def fabs (x : Float) : Float := if x < 0 then 0 - x else x
def fmax (a b : Float) : Float := if a < b then b else a

/-- `harness.core.close` -/
def close (a b rtol atol : Float) : Bool :=
  if a == b then true else fabs (a - b) <= atol + rtol * fmax (fabs a) (fabs b)

def colTotal (r : Rows Float) (i : Nat) : Float := get r.g i + get r.l i + get r.L i + get r.s i

def scaleOf (n : Nat) (r : Rows Float) : Float :=
  fmax 1.0 ((List.range n).foldl (fun acc i => acc + colTotal r i) 0.0)

def bit (b : Bool) : String := if b then "1" else "0"

/-- the verdict flags, computed on the model state exactly as the oracle computes them on the real stream -/
def verdict (st : St) (op : String) : String :=
  let n := st.cls.n
  -- per chemical: totals to rtol 1e-9 of the chemical's own total, flows >= -1e-12 * (its own total)
  let cons := (List.range n).all fun i => close (colTotal st.rows i) (colTotal st.snap i) 1e-9 0.0
  let nonneg := (List.range n).all fun i =>
    let tol := 0.0 - 1e-12 * fabs (colTotal st.snap i)
    get st.rows.g i >= tol && get st.rows.l i >= tol && get st.rows.L i >= tol && get st.rows.s i >= tol
  let isV := op == "vle" || op == "vlle"
  let light := !isV || st.cls.light.all fun i => get st.rows.l i == 0.0
  let heavy := !isV || st.cls.heavy.all fun i => get st.rows.g i == 0.0
  s!" cons={bit cons} nonneg={bit nonneg} light={bit light} heavy={bit heavy}"

def ans (st : St) (extra : String := "") : String := showRows st.cls.n st.rows ++ extra

/-- hypothesis monitor: `0 ≤ v i ≤ mol i` on the equilibrium index, up to `tol` -/
def boundedOn (idx : List Nat) (v mol : Nat → Float) (tol : Float) : Bool :=
  idx.all fun i => v i >= 0.0 - tol && v i <= mol i + tol

def unmet (ok : Bool) (name : String) : String := if ok then "" else s!" unmet:{name}"

def stepVle (st : St) (ev : VEv Float) (mon : String := "") (tag : String := "") : St × String :=
  match st.reg with
  | none => (st, "err no-setup")
  | some reg =>
    match vleStep st.cls (st.rows, reg) ev with
    | .error .infeasible => (st, "err infeasible" ++ tag)
    | .error .noSolve => (st, "err no-solve")
    | .error _ => (st, "err branch")
    | .ok (rows, reg') =>
      let st' := { st with rows := rows, reg := some reg' }
      (st', ans st' (tag ++ mon))

/-- the skeleton steps of `Stream.vlle` go through the model's own `vlleStep` (the function the theorems are about) -/
def stepVlle (st : St) (ev : VlleEv Float) (extra : String := "") : St × String :=
  match vlleStep st.cls { rows := st.rows, total := st.total } ev with
  | .ok v => let st' := { st with rows := v.rows, total := v.total }; (st', ans st' extra)
  | .error _ => (st, "err branch")

def step (st : St) (line : String) : St × String :=
  let toks := splitWs line
  match toks with
  | "cfg" :: n :: rest =>
    match n.toNat?, (kv "light" rest) >>= parseIdx, (kv "heavy" rest) >>= parseIdx, (kv "hs" rest) >>= parseVec,
          (kv "vle" rest) >>= parseIdx, (kv "lle" rest) >>= parseIdx, (kv "mw" rest) >>= parseVec with
    | some n, some light, some heavy, some hs, some vle, some lle, some mw =>
      let wf := light.all (fun i => !heavy.contains i) && vle.all (fun i => !heavy.contains i && !light.contains i)
      ({ st with cls := { n := n, light := light, heavy := heavy, vle := vle, lle := lle, hs := hs, mw := mw },
                 vcaches := [], scaches := [] },
       "ok" ++ unmet wf "classes-disjoint")
    | _, _, _, _, _, _, _ => (st, "bad-op")
  | "state" :: rest =>
    match parseRows rest with
    | some r => let st' := { st with rows := r, reg := none, total := none }; (st', ans st')
    | none => (st, "bad-op")
  | ["begin"] => ({ st with snap := st.rows, reg := none, total := none }, "ok")
  | ["end", op] => (st, ans st (verdict st op))
  -- ------------------------------------------------------------------ VLE
  | ["vle.begin"] => ({ st with reg := none, vobj := 0 }, ans st)
  | ["vle.begin", o] =>
    match o.toNat? with
    | some o => ({ st with reg := none, vobj := o }, ans st)
    | none => (st, "bad-op")
  | ["vle.reactive", o, nz, _dmol, _dF] =>
    -- a reactive flash happened on object <o> (excluded from the property): only what `_setup` stored matters later
    match o.toNat?, parseIdx nz with
    | some o, some nz =>
      match vleAfterReactive st.cls nz with
      | some k => ({ st with vcaches := (o, k) :: st.vcaches.filter (fun p => p.1 != o) }, "ok")
      | none => (st, "ok")
    | _, _ => (st, "bad-op")
  | ["vle.end"] => (st, ans st)
  | ["vle.unmodelled"] => (st, "unmodelled")
  | ["vle.setup"] =>
    let cache := (st.vcaches.lookup st.vobj)
    let ((rows, reg), cache', reused) := vleSetupC st.cls cache st.rows
    let decided := (List.range st.cls.n).any fun i => isNZ (get reg.mol i)
    let vc := match cache' with
      | some k => (st.vobj, k) :: st.vcaches.filter (fun p => p.1 != st.vobj)
      | none => st.vcaches
    let st' := { st with rows := rows, reg := some reg, vcaches := vc }
    (st', ans st' (s!" idx={showIdx reg.idx} reuse={if decided then bit reused else "-"}" ++ s!" tag:N{reg.idx.length}"
                   ++ (if reused then " tag:index-reused" else "")))
  | ["vle.solve", raw] =>
    match parseVec raw, st.reg with
    | some raw, some reg =>
      match vleStep st.cls (st.rows, reg) (.solve raw) with
      | .ok (rows, reg') =>
        let v := reg'.v.getD []
        let shown := (List.range st.cls.n).map fun i => if reg.idx.contains i then get v i else 0.0
        let clipped := reg.idx.any fun i => !(get v i == get raw i)
        ({ st with rows := rows, reg := some reg' },
         "v " ++ showVec st.cls.n shown ++ (if clipped then " tag:clip-active" else ""))
      | .error _ => (st, "err")
    | _, _ => (st, "bad-op")
  | ["vle.solveu", v] =>
    match parseVec v, st.reg with
    | some v, some reg =>
      let tol := 1e-12 * fmax 1.0 (sumOver reg.idx (get reg.mol))
      match vleStep st.cls (st.rows, reg) (.solveRaw v) with
      | .ok (rows, reg') =>
        ({ st with rows := rows, reg := some reg' },
         "v " ++ showVec st.cls.n ((List.range st.cls.n).map fun i => if reg.idx.contains i then get v i else 0.0)
           ++ unmet (boundedOn reg.idx (get v) (get reg.mol) tol) "unclipped-solver-result-bounded" ++ " tag:unclipped-solver")
      | .error _ => (st, "err")
    | _, _ => (st, "bad-op")
  | ["vle.setflows", "reg"] => stepVle st .setFlowsReg
  | ["vle.setflows", v] =>
    match parseVec v, st.reg with
    | some v, some reg =>
      let tol := 1e-12 * fmax 1.0 (sumOver reg.idx (get reg.mol))
      stepVle st (.setFlowsLit v) (unmet (boundedOn reg.idx (get v) (get reg.mol) tol) "setflows-bounded") " tag:unclipped-source"
    | _, _ => (st, "bad-op")
  | ["vle.allvap"] => stepVle st .allVap
  | ["vle.allliq"] => stepVle st .allLiq
  | ["vle.frac", V] =>
    match parseFloat? V with
    | some V => stepVle st (.frac V) (unmet (V >= 0.0 && V <= 1.0) "fraction-in-unit-interval")
    | none => (st, "bad-op")
  | ["vle.lever", x0, y] =>
    match parseFloat? x0, parseVec y, st.reg with
    | some x0, some y, some reg =>
      let mon := match leverSplit reg x0 y with
        | .ok s =>
          unmet (reg.fmol >= 0.0 && reg.idx.all fun i => get y i >= 0.0) "lever-y-nonneg" ++
          (if reg.idx.any (fun i => get reg.mol i < reg.fmol * s * get y i) then " tag:lever-limited" else "")
        | .error _ => ""
      stepVle st (.lever x0 y) mon
    | _, _, _ => (st, "bad-op")
  | ["vle.bublim", V, y] =>
    match parseFloat? V, parseVec y, st.reg with
    | some V, some y, some reg =>
      stepVle st (.bubbleLimited V y)
        (unmet (V >= 0.0 && reg.fmol >= 0.0 && reg.idx.all fun i => get y i >= 0.0) "limited-V-and-composition-nonneg")
        " tag:bubble-limited"
    | _, _, _ => (st, "bad-op")
  | ["vle.dewlim", V, x] =>
    match parseFloat? V, parseVec x, st.reg with
    | some V, some x, some reg =>
      stepVle st (.dewLimited V x)
        (unmet (V <= 1.0 && reg.fmol >= 0.0 && reg.idx.all fun i => get x i >= 0.0) "limited-V-and-composition-nonneg")
        " tag:dew-limited"
    | _, _, _ => (st, "bad-op")
  | ["vle.condense", f] =>
    match parseFloat? f with
    | some f => stepVle st (.condense f) "" (if f > 1.0 || f < 0.0 then " tag:f-clipped" else "")
    | none => (st, "bad-op")
  | ["vle.vaporise", f] =>
    match parseFloat? f with
    | some f => stepVle st (.vaporise f) "" (if f > 1.0 || f < 0.0 then " tag:f-clipped" else "")
    | none => (st, "bad-op")
  -- ------------------------------------------------------------------ LLE
  | ["lle.begin"] => (st, ans st)
  | ["lle.end"] => (st, ans st)
  | ["lle.pool"] =>
    let rows := llePool st.cls st.rows
    let st' := { st with rows := rows }
    (st', ans st' s!" idx={showIdx (lleIndex st.cls rows.L)}")
  | "lle.write" :: rest =>
    let top : Option Nat := (kv "top" rest) >>= (·.toNat?)
    let idx := lleIndex st.cls st.rows.L
    let F := sumOver idx (get st.rows.L)
    let z := fun i => get st.rows.L i / F
    let path : Option (Option (LlePath Float) × String) :=
      match rest with
      | ["none"] => some (none, " tag:no-split")
      | ["solve", _, v] =>
        (parseVec v).map fun v =>
          (some (.solve v), unmet (boundedOn idx (get v) z 1e-12) "lle-molL-bounded" ++ " tag:solver")
      | ["cacheraw", _, raw, K] =>
        match parseFloat? raw, parseVec K with
        | some raw, some K =>
          some (some (.cacheRaw raw K), unmet (idx.all fun i => asValidFraction raw * get K i >= 0.0 - 1e-12) "lle-cache-K-nonneg"
                ++ " tag:cached-K" ++ (if raw < 0.0 || raw > 1.0 then " tag:root-outside-unit-interval" else ""))
        | _, _ => none
      | ["cache", _, phi, K] =>
        match parseFloat? phi, parseVec K with
        | some phi, some K =>
          some (some (.cache phi K), unmet (phi >= 0.0 && idx.all fun i => phi * get K i >= 0.0 - 1e-12) "lle-cache-K-phi-nonneg"
                ++ " tag:cached-K")
        | _, _ => none
      | _ => none
    match path with
    | none => (st, "bad-op")
    | some (p, extra) =>
      match lleWrite st.cls st.rows p top with
      | .ok rows => let st' := { st with rows := rows }; (st', ans st' extra)
      | .error _ => (st, "err branch")
  -- ------------------------------------------------------------------ SLE
  | ["sle.begin"] => ({ st with sobj := 0 }, ans st)
  | ["sle.begin", o] =>
    match o.toNat? with
    | some o => ({ st with sobj := o }, ans st)
    | none => (st, "bad-op")
  | ["sle.setup", j] =>
    match j.toNat? with
    | some j =>
      let cache := (st.scaches.lookup st.sobj).getD {}
      let (cache', res) := sleSetupC st.cls cache st.rows j
      let st' := { st with scaches := (st.sobj, cache') :: st.scaches.filter (fun p => p.1 != st.sobj) }
      let tail := s!" idx={showIdx cache'.idx} pure={bit cache'.pure}"
      (st', match res with
        | .ok _ => "ok" ++ tail ++ (if cache' == cache then " tag:sle-index-reused" else "")
        | .error .noSolute => "err nosolute" ++ tail
        | .error .notIndexed => "err notindexed" ++ tail
        | .error _ => "err other" ++ tail)
    | none => (st, "bad-op")
  | ["sle.end"] => (st, ans st)
  | ["sle.unmodelled"] => (st, "unmodelled")
  | ["sle.update", j, idx, x, msol] =>
    let regIdx := ((st.scaches.lookup st.sobj).getD {}).idx
    match j.toNat?, (if idx == "all" then some none else if idx == "reg" then some (some regIdx) else (parseIdx idx).map some),
          parseFloat? x, parseFloat? msol with
    | some j, some idx, some x, some msol =>
      let m := get st.rows.l j + get st.rows.s j
      let st' := { st with rows := sleUpdate st.cls st.rows j idx x }
      (st', ans st' (unmet (close m msol 1e-9 1e-12) "sle-solute-register-fresh"
                      ++ unmet ((idx.getD (List.range st.cls.n)).contains j) "sle-solute-in-index"))
    | _, _, _, _ => (st, "bad-op")
  | ["sle.allliq", j] =>
    match j.toNat? with
    | some j => let st' := { st with rows := sleAllLiq st.cls st.rows j }; (st', ans st')
    | none => (st, "bad-op")
  | ["sle.allsol", j] =>
    match j.toNat? with
    | some j => let st' := { st with rows := sleAllSol st.cls st.rows j }; (st', ans st')
    | none => (st, "bad-op")
  | ["sle.frac", j, Lf] =>
    match j.toNat?, parseFloat? Lf with
    | some j, some Lf =>
      let st' := { st with rows := sleFrac st.cls st.rows j Lf }
      (st', ans st' (unmet (Lf >= 0.0 && Lf <= 1.0) "fraction-in-unit-interval"))
    | _, _ => (st, "bad-op")
  -- ------------------------------------------------------------------ vlle skeleton
  | ["vlle.pool"] => stepVlle st .pool
  | ["vlle.swap"] => stepVlle st .swap
  | "vlle.normalise" :: _ => stepVlle st .normalise
  | "vlle.assign" :: rest =>
    match parseRows rest with
    | some x =>
      let n := st.cls.n
      let same := (List.range n).all fun i =>
        close (get x.g i + get x.l i + get x.L i) (get st.rows.g i + get st.rows.l i + get st.rows.L i) 1e-9 1e-12
      stepVlle st (.assign x) (unmet same "vlle-iterate-keeps-totals")
    | none => (st, "bad-op")
  | ["vlle.finish"] =>
    let d := sumOver (List.range st.cls.n) fun i => absV (get st.rows.l i - get st.rows.L i)
    stepVlle st .finish (if d < 0.000001 then " tag:vlle-merged" else "")
  | _ => (st, "bad-op")

/-- The monitored hypotheses belong to theorems whose premise is a non-negative input.  When the flows at `begin`
were already negative (a reactive flash, excluded from the property, can leave its limiting reactant negative)
an unmet monitor says nothing: it is reported as a tag instead. -/
def step' (st : St) (line : String) : St × String :=
  let (st', a) := step st line
  let n := st'.cls.n
  let preOk := (List.range n).all fun i =>
    let tol := 0.0 - 1e-12 * fabs (colTotal st'.snap i)
    get st'.snap.g i >= tol && get st'.snap.l i >= tol && get st'.snap.L i >= tol && get st'.snap.s i >= tol
  if preOk then (st', a)
  else (st', joinWith " " ((splitWs a).map fun t => if t.startsWith "unmet:" then "tag:input-negative-" ++ (t.drop 6).toString else t))

def main : IO Unit := Driver.loop ({} : St) step'

end Driver.C03
