import ThermoVerif.Model.Separations
import Driver.Util
/-
Line protocol for C20 (separation helpers).  Stateless: every line carries all inputs of one
helper call as `key=value` tokens (vectors `a,b,c`; lists of vectors `v;w`; `-` = empty / None).

  ms  n= ins=v;w split=v                                     -> ms top=v bot=v
  am  n= R=v P=v MW=v k= mode=mol|mass mwc= mc= strict=none|0|1 -> am R=v P=v path=clip|noclip | am err=…
  msm n= ins=v;w split=v MW=v k= mode= mwc= mc= strict=      -> msm R=v P=v path=… | msm err=…
  pf  n= feed=v ids=l K=v topc=l botc=l phi= strict=0|1          -> pf phi= | pf err=…
  pt  n= feed=v bot0=v ids=l K=v topc=l botc=l phi= strict=0|1   -> pt phi= top=v bot=v clip=0|1 kok=0|1 [path=silent-clip] [borderline] | pt err=…
      (clip = the clipping was reported by a warning; kok = top_i/(K_i·bottom_i) agree over the equilibrium chemicals;
       bot0 is accepted and ignored: the repaired partition does not read it)
  bpf zs=v ks=v za= zb= solver= x0= x1=                      -> bpf path= phi= sv= root=0|1
      (solver = value returned by solve_phase_fraction_Rashford_Rice; sv = the model's value of it: early exits and sign
       tests modelled, iterated root taken from `solver`; root = that root brackets a sign change of the objective)
  lle n= feed=v L=v l=v tc=0|1 rhol=x|none rhoL=x|none eff= h0L=v h0l=v ldL=v ldl=v -> lle top=v bot=v hyp=0|1 load=0|1
  vle n= feed=v g=v l=v h0g=v h0l=v ldg=v ldl=v              -> vle vap=v liq=v hyp=0|1 load=0|1
      (h0* = rows of the multi_stream holder before the call (`-` = no holder / empty); ld* = rows observed on entry of
       the equilibrium routine; load = they are exactly the feed in `l` and nothing elsewhere;
       hyp = the rows left by the equilibrium sum to the feed)
  ps  n= phases=g,l rows=v;w nout=                           -> ps outs=g:v;l:w | ps err=runtime
  cs  n= a=v b=v|- mixed=v|-                                 -> cs split=v
  mb  n= idx=l vin=v;w cin=v;w|- cout=v;w                    -> mb vin=v;w res=0 | mb err=…
  mbc n= idx=l vin=v;w cin=v;w cout=v;w fuel= tol=           -> mbc vin=v;w it= shift=0|1 | mbc err=noconv|singular
  pt  … alias=top|bottom   (the feed object is that outlet)   -> <as found> || <alias-safe result>
-/
namespace Driver.C20
open ThermoVerif.Separations Driver

abbrev KV := List (String × String)

def parseKV (toks : List String) : KV :=
  toks.filterMap (fun t => match splitOn1 t '=' with
    | [k, v] => some (k, v)
    | _ => none)

def KV.get (kv : KV) (k : String) : Option String := kv.lookup k

def parseVec (s : String) : Option Vec :=
  if s == "-" then some [] else (splitComma s).mapM parseRat?

def parseNats (s : String) : Option (List Nat) :=
  if s == "-" then some [] else (splitComma s).mapM (·.toNat?)

def parseVecs (s : String) : Option (List Vec) :=
  if s == "-" then some [] else (splitOn1 s ';').mapM parseVec

def parseOptRat (s : String) : Option (Option Rat) :=
  if s == "none" then some none else (parseRat? s).map some

def parseBool (s : String) : Option Bool :=
  match s with | "0" => some false | "1" => some true | _ => none

def showVec (v : Vec) : String := if v.isEmpty then "-" else ",".intercalate (v.map showRat)
def showVecs (vs : List Vec) : String := if vs.isEmpty then "-" else ";".intercalate (vs.map showVec)
def showB (b : Bool) : String := if b then "1" else "0"

def absR (x : Rat) : Rat := if x < 0 then -x else x

/-- `|a − b| ≤ 1e-9 · (|b| + 1)` componentwise -/
def nearVec (n : Nat) (a b : Vec) : Bool :=
  (List.range n).all (fun i => decide (absR (a.at i - b.at i) ≤ tol9 * (absR (b.at i) + 1)))

def parsePart (kv : KV) : Option PartIn := do
  let n ← (← kv.get "n").toNat?
  let feed ← parseVec (← kv.get "feed")
  let bot0 ← parseVec ((kv.get "bot0").getD "-")
  let ids ← parseNats (← kv.get "ids")
  let K ← parseVec (← kv.get "K")
  let topc ← parseNats (← kv.get "topc")
  let botc ← parseNats (← kv.get "botc")
  let phi ← parseRat? (← kv.get "phi")
  let strict ← parseBool (← kv.get "strict")
  if K.length ≠ ids.length then none
  else some { n, feed, bot0, ids, K, topc, botc, phi, strict }

/-- largest relative spread of `top_i / (K_i · bottom_i)` over the equilibrium chemicals whose
outlet flows are both non-zero (0 when fewer than two such chemicals) -/
def kSpread (p : PartIn) (o : PartOut) : Rat :=
  let rs := (List.zipWith (fun i k =>
      if o.top.at i = 0 ∨ o.bottom.at i = 0 ∨ k = 0 then none
      else some (o.top.at i / (k * o.bottom.at i))) p.ids p.K).filterMap id
  match rs with
  | [] => 0
  | r :: _ => rs.foldl (fun acc x => let d := absR (x / r - 1); if acc < d then d else acc) 0

def run (op : String) (kv : KV) : Option String :=
  match op with
  | "ms" => do
    let n ← (← kv.get "n").toNat?
    let ins ← parseVecs (← kv.get "ins")
    let split ← parseVec (← kv.get "split")
    let (t, b) := mixAndSplit n ins split
    some s!"ms top={showVec t} bot={showVec b}"
  | "am" => do
    let n ← (← kv.get "n").toNat?
    let R ← parseVec (← kv.get "R")
    let P ← parseVec (← kv.get "P")
    let MW ← parseVec (← kv.get "MW")
    let k ← (← kv.get "k").toNat?
    let byMol ← (match (← kv.get "mode") with | "mol" => some true | "mass" => some false | _ => none)
    let mwc ← parseRat? (← kv.get "mwc")
    let mc ← parseRat? (← kv.get "mc")
    let strict ← (match (← kv.get "strict") with
      | "none" => some none | "0" => some (some false) | "1" => some (some true) | _ => none)
    match adjustMoisture { n, R, P, MW, k, byMol, mwc, mc, strict } with
    | .ok (r, p, c) => some (s!"am R={showVec r} P={showVec p}" ++ (if c then " path=clip" else " path=noclip"))
    | .error e => some s!"am err={e.toString}"
  | "msm" => do
    let n ← (← kv.get "n").toNat?
    let ins ← parseVecs (← kv.get "ins")
    let split ← parseVec (← kv.get "split")
    let MW ← parseVec (← kv.get "MW")
    let k ← (← kv.get "k").toNat?
    let byMol ← (match (← kv.get "mode") with | "mol" => some true | "mass" => some false | _ => none)
    let mwc ← parseRat? (← kv.get "mwc")
    let mc ← parseRat? (← kv.get "mc")
    let strict ← (match (← kv.get "strict") with
      | "none" => some none | "0" => some (some false) | "1" => some (some true) | _ => none)
    match mixSplitMoisture n ins split MW k byMol mwc mc strict with
    | .ok (r, p, c) => some (s!"msm R={showVec r} P={showVec p}" ++ (if c then " path=clip" else " path=noclip"))
    | .error e => some s!"msm err={e.toString}"
  | "pf" => do
    let p ← parsePart kv
    let two := decide (0 < p.phi) && decide (p.phi < 1)
    let path := if two && p.anyClip && !p.reportedClip then " path=silent-clip" else ""
    match phaseFraction p with
    | .ok phi => some (s!"pf phi={showRat phi}" ++ path ++ (if p.borderline tol9 then " borderline" else ""))
    | .error e => some (s!"pf err={e.toString}" ++ path ++ (if p.borderline tol9 then " borderline" else ""))
  | "pt" => do
    let p ← parsePart kv
    let al ← (match (kv.get "alias").getD "none" with
      | "none" => some Alias.none | "top" => some Alias.top | "bottom" => some Alias.bottom | _ => none)
    let bl := if p.borderline tol9 then " borderline" else ""
    let showRes (r : Except Err PartOut) : String :=
      match r with
      | .ok o =>
        let kok := showB (decide (kSpread p o ≤ tol9))
        let path := if o.clipped && !o.warned then " path=silent-clip" else ""
        s!"pt phi={showRat o.phi} top={showVec o.top} bot={showVec o.bottom} clip={showB o.warned} kok={kok}" ++ path ++ bl
      | .error e => s!"pt err={e.toString}" ++ bl
    match al with
    | .none => some (showRes (partition p))
    -- feed aliased to an outlet: the behaviour as found, then what an alias-safe partition would give
    | _ => some (showRes (partitionAliased p al) ++ " || " ++ showRes (partition p))
  | "bpf" => do
    let zs ← parseVec (← kv.get "zs")
    let ks ← parseVec (← kv.get "ks")
    let za ← parseRat? (← kv.get "za")
    let zb ← parseRat? (← kv.get "zb")
    let solver ← parseRat? (← kv.get "solver")
    let x0 ← parseRat? ((kv.get "x0").getD "0")
    let x1 ← parseRat? ((kv.get "x1").getD "1")
    let pth := pfPath zs ks za zb
    let path := match pth with
      | .solver => "solver" | .allKle1 => "allKle1" | .allKge1 => "allKge1" | .closed2N => "closed2N"
      | .valueError => "valueError"
    -- the N-component solver: early exits and end-point sign tests are modelled, the iterated root is a parameter
    -- that must bracket a sign change of the objective
    let (sv, root, sub) := match pth with
      | .solver =>
        let it := rrIterative zs ks za zb x0 x1
        (showRat (rrSolve zs ks za zb x0 x1 solver),
         -- (only for coefficients inside the property's domain: with K ≤ 0 the objective has poles in [0,1])
         showB (!it || !(ks.all (fun k => decide (0 < k))) || rrRootOK zs ks za zb x0 x1 solver (1 / 500000)),
         if it then " path=rr-iterated" else " path=rr-early-exit")
      | _ => ("-", "1", "")
    match binaryPhaseFraction zs ks za zb (match pth with | .solver => rrSolve zs ks za zb x0 x1 solver | _ => solver) with
    | .ok phi => some (s!"bpf path={path} phi={showRat phi} sv={sv} root={root}" ++ sub)
    | .error e => some s!"bpf path={path} err={e.toString}"
  | "lle" => do
    let n ← (← kv.get "n").toNat?
    let feed ← parseVec (← kv.get "feed")
    let rL ← parseVec (← kv.get "L")
    let rl ← parseVec (← kv.get "l")
    let tc ← parseBool (← kv.get "tc")
    let rhol ← parseOptRat (← kv.get "rhol")
    let rhoL ← parseOptRat (← kv.get "rhoL")
    let e ← parseRat? (← kv.get "eff")
    let (t, b) := lleWrap n feed rL rl tc rhol rhoL e
    let hyp := nearVec n (tab n (fun i => rL.at i + rl.at i)) feed
    -- holder: previous rows (ignored by the model) and the rows observed when the equilibrium routine was entered
    let h0L ← parseVec ((kv.get "h0L").getD "-")
    let h0l ← parseVec ((kv.get "h0l").getD "-")
    let ldL ← parseVec (← kv.get "ldL")
    let ldl ← parseVec (← kv.get "ldl")
    let ld := holderLoad n (h0L, h0l) feed
    let load := decide (tab n ldL.at = ld.1) && decide (tab n ldl.at = ld.2)
    some s!"lle top={showVec t} bot={showVec b} hyp={showB hyp} load={showB load}"
  | "vle" => do
    let n ← (← kv.get "n").toNat?
    let feed ← parseVec (← kv.get "feed")
    let g ← parseVec (← kv.get "g")
    let l ← parseVec (← kv.get "l")
    let (v, q) := vleWrap n g l
    let hyp := nearVec n (tab n (fun i => g.at i + l.at i)) feed
    let h0g ← parseVec ((kv.get "h0g").getD "-")
    let h0l ← parseVec ((kv.get "h0l").getD "-")
    let ldg ← parseVec (← kv.get "ldg")
    let ldl ← parseVec (← kv.get "ldl")
    let ld := holderLoad n (h0g, h0l) feed
    let load := decide (tab n ldg.at = ld.1) && decide (tab n ldl.at = ld.2)
    some s!"vle vap={showVec v} liq={showVec q} hyp={showB hyp} load={showB load}"
  | "ps" => do
    let n ← (← kv.get "n").toNat?
    let phases := splitComma (← kv.get "phases")
    let rows ← parseVecs (← kv.get "rows")
    let nout ← (← kv.get "nout").toNat?
    match phaseSplit n phases rows nout with
    | .ok outs => some ("ps outs=" ++ ";".intercalate (outs.map (fun (ph, v) => ph ++ ":" ++ showVec v)))
    | .error e => some s!"ps err={e.toString}"
  | "cs" => do
    let n ← (← kv.get "n").toNat?
    let a ← parseVec (← kv.get "a")
    let bs ← kv.get "b"
    let ms ← kv.get "mixed"
    let b ← (if bs == "-" then some none else (parseVec bs).map some)
    let m ← (if ms == "-" then some none else (parseVec ms).map some)
    some s!"cs split={showVec (chemicalSplits n a b m)}"
  | "mb" => do
    let n ← (← kv.get "n").toNat?
    let idx ← parseNats (← kv.get "idx")
    let vin ← parseVecs (← kv.get "vin")
    let cin ← parseVecs (← kv.get "cin")
    let cout ← parseVecs (← kv.get "cout")
    let m : BalIn := { n, idx, vin, cin, cout }
    match materialBalance m with
    | .ok v =>
      let res := idx.all (fun c => m.residual v c == 0)
      some s!"mb vin={showVecs v} res={showB res}"
    | .error e => some s!"mb err={e.toString}"
  | "mbc" => do
    let n ← (← kv.get "n").toNat?
    let idx ← parseNats (← kv.get "idx")
    let vin ← parseVecs (← kv.get "vin")
    let cin ← parseVecs (← kv.get "cin")
    let cout ← parseVecs (← kv.get "cout")
    let fuel ← (← kv.get "fuel").toNat?
    let tol ← parseRat? (← kv.get "tol")
    let m : CompIn := { n, idx, vin, cin, cout, fuel, tol }
    let hist := if m.anyShift m.fuel (List.replicate m.idx.length 1) then " path=shift-history" else ""
    match compositionBalance m with
    | .ok o => some (s!"mbc vin={showVecs o.vin} it={o.iterations} shift={showB o.shifted}" ++ hist)
    | .error e => some (s!"mbc err={e.toString}" ++ hist)
  | _ => none

def step (st : Unit) (line : String) : Unit × String :=
  match splitWs line with
  | op :: rest => (st, (run op (parseKV rest)).getD "bad-op")
  | [] => (st, "bad-op")

def main : IO Unit := Driver.loop () step

end Driver.C20
