/-
Shared helpers for the line-protocol drivers.  Core Lean only.
-/
namespace Driver

def splitWs (s : String) : List String :=
  (s.split (· == ' ')).toList.map (·.toString) |>.filter (· ≠ "")

def splitOn1 (s : String) (c : Char) : List String :=
  (s.split (· == c)).toList.map (·.toString)

def splitComma (s : String) : List String :=
  if s == "" then [] else splitOn1 s ','

def joinWith (sep : String) (l : List String) : String := sep.intercalate l

/-- Parse a rational written as `n`, `-n`, `n/d`, `-n/d`. -/
def parseRat? (s : String) : Option Rat :=
  match splitOn1 s '/' with
  | [n] => n.toInt?.map (fun i => (i : Rat))
  | [n, d] => do
    let n ← n.toInt?
    let d ← d.toNat?
    if d = 0 then none else some ((n : Rat) / (d : Rat))
  | _ => none

def showRat (q : Rat) : String :=
  if q.den = 1 then toString q.num else s!"{q.num}/{q.den}"

/-- Floats travel as the decimal integer of their IEEE-754 bit pattern (`b<bits>`), so
nothing is lost in either direction; plain decimals (`1.5e-3`, `-2`, `inf`, `nan`) are
accepted on input as a convenience. -/
def parseFloat? (s : String) : Option Float :=
  if s.startsWith "b" then (s.drop 1).toString.toNat?.map (fun n => Float.ofBits n.toUInt64)
  else if s == "inf" then some (1.0 / 0.0)
  else if s == "-inf" then some (-1.0 / 0.0)
  else if s == "nan" then some (0.0 / 0.0)
  else
    let (neg, body) := if s.startsWith "-" then (true, (s.drop 1).toString)
                       else if s.startsWith "+" then (false, (s.drop 1).toString) else (false, s)
    let (mant, ex) := match (body.split (fun c => c == 'e' || c == 'E')).toList.map (·.toString) with
      | [m] => (m, some (0 : Int))
      | [m, e] => (m, e.toInt?)
      | _ => ("", none)
    match ex with
    | none => none
    | some ex =>
      let (ip, fp) := match splitOn1 mant '.' with
        | [i] => (i, "")
        | [i, f] => (i, f)
        | _ => ("x", "")
      match (ip ++ fp).toNat? with
      | none => none
      | some digits =>
        if (ip ++ fp) == "" then none else
        let e10 : Int := ex - fp.length
        let v := if e10 ≥ 0 then Float.ofScientific (digits * 10 ^ e10.toNat) false 0
                 else Float.ofScientific digits true e10.natAbs
        some (if neg then -v else v)

def showFloat (x : Float) : String := s!"b{x.toBits.toNat}"

/-- Read stdin line by line, threading a state; a line `reset` restores the initial state. -/
partial def loop {σ : Type} (init : σ) (step : σ → String → σ × String) : IO Unit := do
  let h ← IO.getStdin
  let out ← IO.getStdout
  let rec go (st : σ) : IO Unit := do
    let line ← h.getLine
    if line.isEmpty then return ()
    let l := line.trimAscii.toString
    if l == "reset" then
      out.putStrLn "ok"
      go init
    else
      let (st', o) := step st l
      out.putStrLn o
      go st'
  go init
  out.flush

end Driver
