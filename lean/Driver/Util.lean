/-
Shared helpers for the line-protocol drivers.  Core Lean only.
-/
namespace Driver

def splitWs (s : String) : List String :=
  (s.split (· == ' ')).toList.map (·.toString) |>.filter (· ≠ "")

def splitOn1 (s : String) (c : Char) : List String :=
  (s.split (· == c)).toList.map (·.toString)

def splitComma (s : String) : List String :=
  if s == "" then [] else splitOn1 s ','

def joinWith (sep : String) (l : List String) : String := sep.intercalate l

/-- Parse a rational written as `n`, `-n`, `n/d`, `-n/d`. -/
def parseRat? (s : String) : Option Rat :=
  match splitOn1 s '/' with
  | [n] => n.toInt?.map (fun i => (i : Rat))
  | [n, d] => do
    let n ← n.toInt?
    let d ← d.toNat?
    if d = 0 then none else some ((n : Rat) / (d : Rat))
  | _ => none

def showRat (q : Rat) : String :=
  if q.den = 1 then toString q.num else s!"{q.num}/{q.den}"

/-- Read stdin line by line, threading a state; a line `reset` restores the initial state. -/
partial def loop {σ : Type} (init : σ) (step : σ → String → σ × String) : IO Unit := do
  let h ← IO.getStdin
  let out ← IO.getStdout
  let rec go (st : σ) : IO Unit := do
    let line ← h.getLine
    if line.isEmpty then return ()
    let l := line.trimAscii.toString
    if l == "reset" then
      out.putStrLn "ok"
      go init
    else
      let (st', o) := step st l
      out.putStrLn o
      go st'
  go init
  out.flush

end Driver
