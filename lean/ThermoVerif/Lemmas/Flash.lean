import ThermoVerif.Model.Flash
import Mathlib.Algebra.BigOperators.Fin
import Mathlib.Algebra.Order.BigOperators.Group.Finset
import Mathlib.Algebra.Order.Field.Basic
import Mathlib.Order.Monotone.Defs
import Mathlib.Order.Interval.Set.Defs
import Mathlib.Tactic.Ring
import Mathlib.Tactic.FieldSimp
import Mathlib.Tactic.Linarith
import Mathlib.Tactic.Positivity
import Mathlib.Tactic.NormNum
import Mathlib.Tactic.FinCases
import Mathlib.Analysis.SpecialFunctions.Exp
/-
Helper lemmas for C04: the model's recursive sums are `Finset` sums; algebra of one
Rachford–Rice term.
-/
namespace ThermoVerif.Flash
set_option linter.unusedSectionVars false

variable {α : Type} [Field α] [LinearOrder α] [IsStrictOrderedRing α]

theorem sumF_eq_sum (n : Nat) (f : Fin n → α) : sumF n f = ∑ i, f i := by
  induction n with
  | zero => simp [sumF]
  | succ n ih => simp [sumF, ih, Fin.sum_univ_succ]

theorem sumF_mul_left (n : Nat) (k : α) (f : Fin n → α) : sumF n (fun i => k * f i) = k * sumF n f := by
  rw [sumF_eq_sum, sumF_eq_sum, Finset.mul_sum]

theorem allF_iff (n : Nat) (p : Fin n → Bool) : allF n p = true ↔ ∀ i, p i = true := by
  induction n with
  | zero => simp [allF]
  | succ n ih =>
    simp only [allF, Bool.and_eq_true, ih]
    constructor
    · rintro ⟨h0, hs⟩ i
      refine Fin.cases h0 (fun j => hs j) i
    · intro h
      exact ⟨h 0, fun j => h j.succ⟩

theorem exitTest_iff {m : Nat} (d : Fin m → α) (tol : α) : exitTest d tol = true ↔ ∀ i, d i < tol := by
  simp [exitTest, allF_iff]

/-- `1 + V (K − 1) = (1 − V) + V K > 0` for `V ∈ [0, 1]`, `K > 0`. -/
theorem den_pos {K V : α} (hK : 0 < K) (hV0 : 0 ≤ V) (hV1 : V ≤ 1) : 0 < 1 + V * (K - 1) := by
  have h : 1 + V * (K - 1) = (1 - V) + V * K := by ring
  rw [h]
  rcases eq_or_lt_of_le hV1 with h1 | h1
  · subst h1; simpa using hK
  · have : 0 ≤ V * K := mul_nonneg hV0 hK.le
    linarith

/-- difference of one Rachford–Rice term at two vapour fractions -/
theorem rrTerm_sub {z K V W : α} (hV : 1 + V * (K - 1) ≠ 0) (hW : 1 + W * (K - 1) ≠ 0) :
    rrTerm z K V - rrTerm z K W
      = z * (K - 1) ^ 2 * (W - V) / ((1 + V * (K - 1)) * (1 + W * (K - 1))) := by
  unfold rrTerm
  rw [div_sub_div _ _ hV hW]
  congr 1
  ring

theorem rrTerm_anti {z K V W : α} (hz : 0 ≤ z) (hK : 0 < K) (hV0 : 0 ≤ V) (hVW : V < W) (hW1 : W ≤ 1) :
    rrTerm z K W ≤ rrTerm z K V := by
  have dV := den_pos hK hV0 (hVW.le.trans hW1)
  have dW := den_pos hK (hV0.trans hVW.le) hW1
  have h := rrTerm_sub (z := z) dV.ne' dW.ne'
  have : 0 ≤ z * (K - 1) ^ 2 * (W - V) / ((1 + V * (K - 1)) * (1 + W * (K - 1))) := by
    apply div_nonneg
    · exact mul_nonneg (mul_nonneg hz (sq_nonneg _)) (sub_pos.mpr hVW).le
    · exact (mul_pos dV dW).le
  linarith

theorem rrTerm_strictAnti {z K V W : α} (hz : 0 < z) (hK : 0 < K) (hK1 : K ≠ 1) (hV0 : 0 ≤ V) (hVW : V < W)
    (hW1 : W ≤ 1) : rrTerm z K W < rrTerm z K V := by
  have dV := den_pos hK hV0 (hVW.le.trans hW1)
  have dW := den_pos hK (hV0.trans hVW.le) hW1
  have h := rrTerm_sub (z := z) dV.ne' dW.ne'
  have hk : 0 < (K - 1) ^ 2 := by
    have : K - 1 ≠ 0 := sub_ne_zero.mpr hK1
    positivity
  have : 0 < z * (K - 1) ^ 2 * (W - V) / ((1 + V * (K - 1)) * (1 + W * (K - 1))) := by
    apply div_pos
    · exact mul_pos (mul_pos hz hk) (sub_pos.mpr hVW)
    · exact mul_pos dV dW
  linarith

/-! # Facts moved out of Props/C04.lean: definitional consequences of the model's own definitions and helper
lemmas.  They are not counted as property obligations. -/

/-! ## The dispatch table as found before the repairs a4a241f, 6fc75e3, 4a8369b (kept for the record) -/

/-- non-vacuity: calls that return -/
def exTV : Call ℚ where
  pair := .TV
  ncase := .one
  twoPhase := true
  T0 := 300
  P0 := 101325
  a := 350
  b := 2/5
  psat := 95203
  tsat := 0
  sol := 0

def exPH : Call ℚ := { exTV with pair := .PH, ncase := .many, a := 50000, b := 7, sol := 341 }
def exTH : Call ℚ := { exTV with pair := .TH, b := 1 }
def exPx : Call ℚ := { exTV with pair := .Px, ncase := .many, a := 50000, b := 0, sol := 339 }

/-- The code as found does NOT have the property: the single-chemical `T, V` branch
(`_set_TV_chemical` writes `Psat(T)` into `T`) … -/
theorem asFound_TV_one_counterexample :
    ∃ (c : Call ℚ) (T P : ℚ), c.pair.hasT = true ∧ dispatchAsFound c = .ok (T, P) ∧ T ≠ c.a :=
  ⟨exTV, 95203, 101325, rfl, rfl, by norm_num [exTV]⟩

/-- … the single-chemical `T, H` / `T, S` branches (T is never written) … -/
theorem asFound_TH_one_counterexample :
    ∃ (c : Call ℚ) (T P : ℚ), c.pair.hasT = true ∧ dispatchAsFound c = .ok (T, P) ∧ T ≠ c.a :=
  ⟨exTH, 300, 95203, rfl, rfl, by norm_num [exTH, exTV]⟩

/-- … and the composition-specified pairs (`set_Tx`, `set_Ty` never write `T`; `set_Px`, `set_Py`
never write `P`). -/
theorem asFound_Px_counterexample :
    ∃ (c : Call ℚ) (T P : ℚ), c.pair.hasP = true ∧ c.pair.hasT = false ∧ dispatchAsFound c = .ok (T, P) ∧ P ≠ c.a :=
  ⟨exPx, 339, 101325, rfl, rfl, rfl, by norm_num [exPx, exTV]⟩

/-- Outside those branches the code as found agrees with the repaired table. -/
theorem asFound_eq_dispatch (c : Call α)
    (h : ¬ (c.ncase = .one ∧ (c.pair = .TV ∨ c.pair = .TH ∨ c.pair = .TS)))
    (hxy : c.pair ≠ .Tx ∧ c.pair ≠ .Ty ∧ c.pair ≠ .Px ∧ c.pair ≠ .Py) :
    dispatchAsFound c = dispatch c := by
  obtain ⟨pair, ncase, two, T0, P0, a, b, psat, tsat, sol⟩ := c
  cases pair <;> cases ncase <;> simp_all [dispatchAsFound]


/-- `_set_TV_chemical` / `_set_PV_chemical`: the split conserves the chemical and has vapour
fraction `V`. -/
theorem chemSplit_spec (mol V : α) :
    (chemSplit mol V).1 + (chemSplit mol V).2 = mol ∧ (chemSplit mol V).2 = V * mol := by
  simp [chemSplit]


/-- The last step of `set_PH` / `set_PS`: moving the fraction `f` closes the balance whenever `f`
is not clipped (and the property is linear in the moved fraction). -/
theorem moveFraction_reproduces (H Hcur Hmove : α) (hm : Hmove ≠ 0)
    (h0 : 0 ≤ (H - Hcur) / Hmove) (h1 : (H - Hcur) / Hmove ≤ 1) :
    Hcur + moveFraction H Hcur Hmove * Hmove = H := by
  unfold moveFraction
  simp only [not_lt.mpr h0, not_lt.mpr h1, if_false]
  field_simp
  ring


/-- For one chemical: the iteration evaluated `γ`, `φ` at the normalised compositions
`x̂`, `ŷ = x̂ K_in / S` (`S = Σ x̂ K_in`), produced `K_out = c γ / φ` (`c = pcf·Psat/P`) and the exit
test `|ln K_in − ln K_out| < tol` held.  Then the liquid fugacity `x̂ γ c` and the vapour fugacity
`ŷ φ` (both divided by `P`) agree up to the common factor `S` within `2·tol` relative. -/
theorem exit_residual_one (tol c γ φ xh Kin S lnKin lnKout : ℝ) (htol : 0 < tol) (htol2 : tol ≤ 1 / 2)
    (hx : 0 < xh) (hφ : 0 < φ) (hS : 0 < S)
    (hKin : Kin = Real.exp lnKin) (hKout : c * γ / φ = Real.exp lnKout)
    (hexit : |lnKin - lnKout| < tol) :
    |xh * γ * c - S * (xh * Kin / S * φ)| ≤ 2 * tol * (S * (xh * Kin / S * φ)) := by
  have hKin0 : 0 < Kin := hKin ▸ Real.exp_pos _
  have hg : S * (xh * Kin / S * φ) = xh * Kin * φ := by field_simp
  have hl : xh * γ * c = xh * φ * Real.exp lnKout := by
    rw [← hKout]; field_simp
  rw [hg, hl, hKin]
  set d := lnKout - lnKin with hd
  have hexp : Real.exp lnKout = Real.exp lnKin * Real.exp d := by
    rw [← Real.exp_add]; congr 1; ring
  have hdabs : |d| < tol := by rw [hd, abs_sub_comm]; exact hexit
  have hbase : 0 < xh * Real.exp lnKin * φ := mul_pos (mul_pos hx (Real.exp_pos _)) hφ
  -- |e^d − 1| ≤ 2 tol
  have hdl := (abs_lt.mp hdabs).1
  have hdu := (abs_lt.mp hdabs).2
  have hlow : 1 - tol ≤ Real.exp d := by
    have := Real.add_one_le_exp d
    linarith
  have hup : Real.exp d ≤ 1 + 2 * tol := by
    have h1 : Real.exp d ≤ Real.exp tol := Real.exp_le_exp.mpr hdu.le
    have h2 : Real.exp tol < 1 / (1 - tol) :=
      Real.exp_bound_div_one_sub_of_interval' htol (by linarith)
    have h3 : 1 / (1 - tol) ≤ 1 + 2 * tol := by
      rw [div_le_iff₀ (by linarith)]
      nlinarith
    linarith
  have key : |Real.exp d - 1| ≤ 2 * tol := by
    rw [abs_le]; constructor <;> linarith
  have : xh * φ * (Real.exp lnKin * Real.exp d) - xh * Real.exp lnKin * φ
      = (xh * Real.exp lnKin * φ) * (Real.exp d - 1) := by ring
  rw [hexp, this, abs_mul, abs_of_pos hbase]
  calc xh * Real.exp lnKin * φ * |Real.exp d - 1| ≤ xh * Real.exp lnKin * φ * (2 * tol) :=
        mul_le_mul_of_nonneg_left key hbase.le
    _ = 2 * tol * (xh * Real.exp lnKin * φ) := by ring


theorem setupF_scale {n : Nat} (k : α) (mol : Fin n → α) (Fl Fh : α) :
    setupF (fun i => k * mol i) (k * Fl) (k * Fh) = k * setupF mol Fl Fh := by
  simp only [setupF, sumF_mul_left]; ring


theorem writeBack1_scale (k : α) (hk : 0 < k) (F V xh K mol : α) :
    writeBack1 (k * F) V xh K (k * mol) = k * writeBack1 F V xh K mol := by
  unfold writeBack1
  have e : k * F * V * xh * K = k * (F * V * xh * K) := by ring
  simp only [e, mul_lt_mul_iff_right₀ hk]
  have z : ∀ t : α, k * t < 0 ↔ t < 0 := fun t => by
    constructor
    · intro h; by_contra h'; exact absurd h (not_lt.mpr (mul_nonneg hk.le (not_lt.mp h')))
    · intro h; exact mul_neg_of_pos_of_neg hk h
  split <;> simp only [z] <;> split <;> simp


theorem chemSplit_scale (k mol V : α) :
    chemSplit (k * mol) V = (k * (chemSplit mol V).1, k * (chemSplit mol V).2) := by
  simp only [chemSplit, Prod.mk.injEq]; constructor <;> ring


/-! ## A concrete exact fixed point of the iteration (non-vacuity witness used by Props/C04.lean) -/

def exZ : Fin 2 → ℚ := fun _ => 1/2
def exPsat : Fin 2 → ℚ := fun i => if i = 0 then 2 else 1/2
def exS : St 2 ℚ := { x := fun i => if i = 0 then 1/3 else 2/3, V := 1/2, K := exPsat }

theorem exS_fixed :
    iterMap false 0 exZ (fun i => 1 * exPsat i / 1) (fun _ _ => 1) (fun _ _ => 1) (fun K _ => rr2Nv exZ K) exS = exS := by
  have hK : newK (0 : ℚ) (fun i => 1 * exPsat i / 1) (fun _ : Fin 2 => (1 : ℚ)) (fun _ => 1) = exPsat := by
    funext i; fin_cases i <;> simp [newK, newK1, exPsat]
  have hV : rr2Nv exZ exPsat = 1/2 := by
    simp [rr2Nv, rr2N, exZ, exPsat]; norm_num
  simp only [iterMap, iterStep, hK, Bool.false_eq_true, if_false, hV, exS, St.mk.injEq, and_true]
  funext i; fin_cases i <;> simp [xOfV, exZ, exPsat] <;> norm_num


end ThermoVerif.Flash
