import ThermoVerif.Model.Flash
import Mathlib.Algebra.BigOperators.Fin
import Mathlib.Algebra.Order.BigOperators.Group.Finset
import Mathlib.Algebra.Order.Field.Basic
import Mathlib.Order.Monotone.Defs
import Mathlib.Order.Interval.Set.Defs
import Mathlib.Tactic.Ring
import Mathlib.Tactic.FieldSimp
import Mathlib.Tactic.Linarith
import Mathlib.Tactic.Positivity
/-
Helper lemmas for C04: the model's recursive sums are `Finset` sums; algebra of one
Rachford–Rice term.
-/
namespace ThermoVerif.Flash
set_option linter.unusedSectionVars false

variable {α : Type} [Field α] [LinearOrder α] [IsStrictOrderedRing α]

theorem sumF_eq_sum (n : Nat) (f : Fin n → α) : sumF n f = ∑ i, f i := by
  induction n with
  | zero => simp [sumF]
  | succ n ih => simp [sumF, ih, Fin.sum_univ_succ]

theorem sumF_mul_left (n : Nat) (k : α) (f : Fin n → α) : sumF n (fun i => k * f i) = k * sumF n f := by
  rw [sumF_eq_sum, sumF_eq_sum, Finset.mul_sum]

theorem allF_iff (n : Nat) (p : Fin n → Bool) : allF n p = true ↔ ∀ i, p i = true := by
  induction n with
  | zero => simp [allF]
  | succ n ih =>
    simp only [allF, Bool.and_eq_true, ih]
    constructor
    · rintro ⟨h0, hs⟩ i
      refine Fin.cases h0 (fun j => hs j) i
    · intro h
      exact ⟨h 0, fun j => h j.succ⟩

theorem exitTest_iff {m : Nat} (d : Fin m → α) (tol : α) : exitTest d tol = true ↔ ∀ i, d i < tol := by
  simp [exitTest, allF_iff]

/-- `1 + V (K − 1) = (1 − V) + V K > 0` for `V ∈ [0, 1]`, `K > 0`. -/
theorem den_pos {K V : α} (hK : 0 < K) (hV0 : 0 ≤ V) (hV1 : V ≤ 1) : 0 < 1 + V * (K - 1) := by
  have h : 1 + V * (K - 1) = (1 - V) + V * K := by ring
  rw [h]
  rcases eq_or_lt_of_le hV1 with h1 | h1
  · subst h1; simpa using hK
  · have : 0 ≤ V * K := mul_nonneg hV0 hK.le
    linarith

/-- difference of one Rachford–Rice term at two vapour fractions -/
theorem rrTerm_sub {z K V W : α} (hV : 1 + V * (K - 1) ≠ 0) (hW : 1 + W * (K - 1) ≠ 0) :
    rrTerm z K V - rrTerm z K W
      = z * (K - 1) ^ 2 * (W - V) / ((1 + V * (K - 1)) * (1 + W * (K - 1))) := by
  unfold rrTerm
  rw [div_sub_div _ _ hV hW]
  congr 1
  ring

theorem rrTerm_anti {z K V W : α} (hz : 0 ≤ z) (hK : 0 < K) (hV0 : 0 ≤ V) (hVW : V < W) (hW1 : W ≤ 1) :
    rrTerm z K W ≤ rrTerm z K V := by
  have dV := den_pos hK hV0 (hVW.le.trans hW1)
  have dW := den_pos hK (hV0.trans hVW.le) hW1
  have h := rrTerm_sub (z := z) dV.ne' dW.ne'
  have : 0 ≤ z * (K - 1) ^ 2 * (W - V) / ((1 + V * (K - 1)) * (1 + W * (K - 1))) := by
    apply div_nonneg
    · exact mul_nonneg (mul_nonneg hz (sq_nonneg _)) (sub_pos.mpr hVW).le
    · exact (mul_pos dV dW).le
  linarith

theorem rrTerm_strictAnti {z K V W : α} (hz : 0 < z) (hK : 0 < K) (hK1 : K ≠ 1) (hV0 : 0 ≤ V) (hVW : V < W)
    (hW1 : W ≤ 1) : rrTerm z K W < rrTerm z K V := by
  have dV := den_pos hK hV0 (hVW.le.trans hW1)
  have dW := den_pos hK (hV0.trans hVW.le) hW1
  have h := rrTerm_sub (z := z) dV.ne' dW.ne'
  have hk : 0 < (K - 1) ^ 2 := by
    have : K - 1 ≠ 0 := sub_ne_zero.mpr hK1
    positivity
  have : 0 < z * (K - 1) ^ 2 * (W - V) / ((1 + V * (K - 1)) * (1 + W * (K - 1))) := by
    apply div_pos
    · exact mul_pos (mul_pos hz hk) (sub_pos.mpr hVW)
    · exact mul_pos dV dW
  linarith

end ThermoVerif.Flash
