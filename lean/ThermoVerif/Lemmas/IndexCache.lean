import ThermoVerif.Model.IndexCache
/-
Lemmas behind `cache_transparent` (C10): each memoised lookup returns what the
un-memoised resolution returns and keeps every stored pair correct.
-/
namespace ThermoVerif.IndexCache
open ThermoVerif.Chemicals ThermoVerif.Indexer

theorem alookup_mem {κ β : Type} [DecidableEq κ] {k : κ} {v : β} :
    ∀ {l : List (κ × β)}, alookup k l = some v → (k, v) ∈ l
  | [], h => by simp [alookup] at h
  | (k', v') :: t, h => by
    unfold alookup at h
    split at h
    · rename_i hk; cases h; subst hk; exact List.mem_cons_self
    · exact List.mem_cons_of_mem _ (alookup_mem h)

theorem mem_ainsert {κ β : Type} [DecidableEq κ] {k : κ} {v : β} {x : κ × β} :
    ∀ {l : List (κ × β)}, x ∈ ainsert k v l → x = (k, v) ∨ x ∈ l
  | [], h => by simp [ainsert] at h; exact Or.inl h
  | (k', v') :: t, h => by
    unfold ainsert at h
    split at h
    · rcases List.mem_cons.mp h with h | h
      · exact Or.inl h
      · exact Or.inr (List.mem_cons_of_mem _ h)
    · rcases List.mem_cons.mp h with h | h
      · exact Or.inr (h ▸ List.mem_cons_self)
      · rcases mem_ainsert h with h | h
        · exact Or.inl h
        · exact Or.inr (List.mem_cons_of_mem _ h)

/-- Every stored pair of a chemicals memo is what `resolveC` says. -/
def CacheOK (c : Chem) (cache : List (HKey × Ix)) : Prop :=
  ∀ k v, (k, v) ∈ cache → resolveC c k = .ok v

/-- Every stored pair of a `(phases, chemicals)` memo is what `resolveM` says. -/
def MCacheOK (c : Chem) (ps : List Char) (mc : MCache) : Prop :=
  ∀ k v, (k, v) ∈ mc → resolveM c ps k = .ok v

theorem cacheOK_nil (c : Chem) : CacheOK c [] := by intro k v h; cases h
theorem mcacheOK_nil (c : Chem) (ps : List Char) : MCacheOK c ps [] := by intro k v h; cases h

theorem mem_evict1 {κ β : Type} {x : κ × β} {l : List (κ × β)} (h : x ∈ evict1 l) : x ∈ l := by
  unfold evict1 at h
  split at h
  · exact List.mem_of_mem_drop h
  · exact h

theorem mem_trim {κ β : Type} {x : κ × β} {l : List (κ × β)} (h : x ∈ trim l) : x ∈ l := by
  unfold trim at h
  split at h
  · exact List.mem_of_mem_drop h
  · exact h

theorem cacheOK_insert {c : Chem} {cache : List (HKey × Ix)} {k : HKey} {v : Ix}
    (h : CacheOK c cache) (hv : resolveC c k = .ok v) : CacheOK c (evict1 (cache ++ [(k, v)])) := by
  intro k' v' hm
  have hm := mem_evict1 hm
  rcases List.mem_append.mp hm with hm | hm
  · exact h k' v' hm
  · simp at hm; rcases hm with ⟨rfl, rfl⟩; exact hv

theorem mcacheOK_insert {c : Chem} {ps : List Char} {mc : MCache} {k : HKey} {v : MIx}
    (h : MCacheOK c ps mc) (hv : resolveM c ps k = .ok v) : MCacheOK c ps (trim (mc ++ [(k, v)])) := by
  intro k' v' hm
  have hm := mem_trim hm
  rcases List.mem_append.mp hm with hm | hm
  · exact h k' v' hm
  · simp at hm; rcases hm with ⟨rfl, rfl⟩; exact hv

/-- The chemicals memo is transparent, and stays correct. -/
theorem lookup_spec (s : CState) (h : CacheOK s.chem s.cache) (k : HKey) :
    (s.lookup k).1 = resolveC s.chem k ∧ (s.lookup k).2.chem = s.chem ∧
    (s.lookup k).2.cas = s.cas ∧ CacheOK s.chem (s.lookup k).2.cache := by
  unfold CState.lookup
  split
  · rename_i v hv
    exact ⟨(h k v (alookup_mem hv)).symm, rfl, rfl, h⟩
  · split
    · rename_i v hv
      exact ⟨hv.symm, rfl, rfl, cacheOK_insert h hv⟩
    · rename_i e he
      exact ⟨he.symm, rfl, rfl, h⟩

/-! ### `index_overlap` -/

theorem lookupItems_cas (c : Chem) : ∀ (cas : List String) (es : List Ent),
    lookupItems c (cas.map fun s => HItem.leaf (.str s)) = .ok es →
    (es.any Ent.isGrp = false → overlapPositions c cas = .ok (entsPos es)) ∧
    (es.any Ent.isGrp = true → overlapPositions c cas = .error .runtimeError)
  | [], es, h => by
    simp [lookupItems] at h
    cases h
    simp [overlapPositions, entsPos]
  | a :: t, es, h => by
    simp only [List.map_cons, lookupItems, lookupItem, Chem.lookup] at h
    unfold overlapPositions
    cases ha : alookup a c.index with
    | none => simp [ha, bind, Except.bind] at h
    | some e =>
      simp only [ha, bind, Except.bind] at h
      cases ht : lookupItems c (t.map fun s => HItem.leaf (.str s)) with
      | error e' => simp [ht] at h
      | ok es' =>
        simp only [ht, pure, Except.pure] at h
        cases h
        have ih := lookupItems_cas c t es' ht
        cases e with
        | pos i =>
          simp only [List.any_cons, Ent.isGrp, Bool.false_or, entsPos]
          constructor
          · intro hg; simp [ih.1 hg, bind, Except.bind, pure, Except.pure]
          · intro hg; simp [ih.2 hg, bind, Except.bind]
        | grp is => simp [Ent.isGrp]

theorem overlapPositions_resolve (c : Chem) : ∀ (cas : List String) (is : List Nat),
    overlapPositions c cas = .ok is → resolveC c (casKey cas) = .ok (.arr is)
  | [], is, h => by
    simp [overlapPositions] at h; cases h
    simp [casKey, resolveC, lookupItems, bind, Except.bind, pure, Except.pure, entsPos]
  | a :: t, is, h => by
    unfold overlapPositions at h
    cases ha : alookup a c.index with
    | none => simp [ha] at h
    | some e =>
      cases e with
      | grp g => simp [ha] at h
      | pos i =>
        simp only [ha] at h
        cases ht : overlapPositions c t with
        | error e' => simp [ht, bind, Except.bind] at h
        | ok r =>
          simp only [ht, bind, Except.bind, pure, Except.pure] at h
          cases h
          have ih := overlapPositions_resolve c t r ht
          simp only [casKey, resolveC, bind, Except.bind] at ih
          simp only [casKey, resolveC, List.map_cons, lookupItems, lookupItem, Chem.lookup, ha, bind, Except.bind]
          cases hl : lookupItems c (t.map fun s => HItem.leaf (.str s)) with
          | error e' => simp [hl] at ih
          | ok es =>
            simp only [hl] at ih
            simp only [pure, Except.pure, List.any_cons, Ent.isGrp, Bool.false_or, entsPos]
            split at ih
            · simp [pure, Except.pure] at ih
            · rename_i hg
              simp only [pure, Except.pure] at ih
              simp [hg]
              cases ih
              rfl

/-- `index_overlap` through the shared memo returns the positions of the CAS numbers, and
keeps the memo correct (this is where the unfixed code stored kind 0). -/
theorem overlap_spec (s : CState) (h : CacheOK s.chem s.cache) (cas : List String) :
    (s.overlap cas).1 = overlapPositions s.chem cas ∧ (s.overlap cas).2.chem = s.chem ∧
    (s.overlap cas).2.cas = s.cas ∧ CacheOK s.chem (s.overlap cas).2.cache := by
  unfold CState.overlap
  cases hl : alookup (casKey cas) s.cache with
  | some v =>
    have hv := h _ _ (alookup_mem hl)
    simp only [casKey, resolveC, bind, Except.bind] at hv
    cases hi : lookupItems s.chem (cas.map fun s => HItem.leaf (.str s)) with
    | error e => simp [hi] at hv
    | ok es =>
      have hc := lookupItems_cas s.chem cas es hi
      simp only [hi] at hv
      split at hv
      · rename_i hg
        simp only [pure, Except.pure] at hv
        cases hv
        exact ⟨(hc.2 hg).symm, rfl, rfl, h⟩
      · rename_i hg
        simp only [pure, Except.pure] at hv
        cases hv
        simp at hg
        have hg' : es.any Ent.isGrp = false := by
          cases hh : es.any Ent.isGrp with
          | false => rfl
          | true =>
            simp at hh
            obtain ⟨x, hx, hx'⟩ := hh
            have := hg x hx
            simp [this] at hx'
        exact ⟨(hc.1 hg').symm, rfl, rfl, h⟩
  | none =>
    simp only
    cases hp : overlapPositions s.chem cas with
    | ok is => exact ⟨rfl, rfl, rfl, cacheOK_insert h (overlapPositions_resolve _ _ _ hp)⟩
    | error e => exact ⟨rfl, rfl, rfl, h⟩

/-! ### The `(phases, chemicals)` memo -/

/-- A miss of the material memo computes `resolveM` (through the chemicals memo). -/
theorem lookupMiss_spec (s : CState) (h : CacheOK s.chem s.cache) (ps : List Char) (k : HKey) :
    (lookupMiss s ps k).1 = resolveM s.chem ps k ∧ (lookupMiss s ps k).2.chem = s.chem ∧
    (lookupMiss s ps k).2.cas = s.cas ∧ CacheOK s.chem (lookupMiss s ps k).2.cache := by
  obtain ⟨h1, h2, h3, h4⟩ := lookup_spec s h k
  unfold lookupMiss resolveM
  rw [← h1]
  generalize hL : s.lookup k = L at h1 h2 h3 h4
  obtain ⟨r, s'⟩ := L
  simp only at h1 h2 h3 h4 ⊢
  cases r with
  | ok ix => exact ⟨rfl, h2, h3, h4⟩
  | error e =>
    cases e with
    | undefinedAlias =>
      simp only
      split
      · -- `(phase, IDs)`
        rename_i first ids
        simp only [resolvePhase]
        cases hp : phaseOfFirst ps first with
        | error e => exact ⟨rfl, h2, h3, h4⟩
        | ok p =>
          simp only
          have h4' : CacheOK s'.chem s'.cache := by rw [h2]; exact h4
          obtain ⟨g1, g2, g3, g4⟩ := lookup_spec s' h4' ids.toKey
          rw [h2] at g1 g2 g4
          rw [← g1]
          generalize s'.lookup ids.toKey = L2 at g1 g2 g3 g4
          obtain ⟨r2, s2⟩ := L2
          simp only at g1 g2 g3 g4 ⊢
          cases r2 with
          | error e2 => exact ⟨rfl, g2, g3.trans h3, g4⟩
          | ok ix2 => exact ⟨rfl, g2, g3.trans h3, g4⟩
      · exact ⟨by rw [h2], h2, h3, h4⟩
    | undefinedPhase => exact ⟨rfl, h2, h3, h4⟩
    | typeError => exact ⟨rfl, h2, h3, h4⟩
    | indexError => exact ⟨rfl, h2, h3, h4⟩
    | valueError => exact ⟨rfl, h2, h3, h4⟩
    | keyError => exact ⟨rfl, h2, h3, h4⟩
    | runtimeError => exact ⟨rfl, h2, h3, h4⟩

/-- The material memo is transparent, and both memos stay correct. -/
theorem lookupM_spec (s : CState) (mc : MCache) (ps : List Char) (h : CacheOK s.chem s.cache)
    (hm : MCacheOK s.chem ps mc) (k : HKey) :
    (lookupM s mc ps k).1 = resolveM s.chem ps k ∧ (lookupM s mc ps k).2.1.chem = s.chem ∧
    (lookupM s mc ps k).2.1.cas = s.cas ∧ CacheOK s.chem (lookupM s mc ps k).2.1.cache ∧
    MCacheOK s.chem ps (lookupM s mc ps k).2.2 := by
  unfold lookupM
  split
  · rename_i v hv
    exact ⟨(hm k v (alookup_mem hv)).symm, rfl, rfl, h, hm⟩
  · obtain ⟨h1, h2, h3, h4⟩ := lookupMiss_spec s h ps k
    generalize lookupMiss s ps k = L at h1 h2 h3 h4
    obtain ⟨r, s'⟩ := L
    simp only at h1 h2 h3 h4 ⊢
    cases r with
    | ok v => exact ⟨h1, h2, h3, h4, mcacheOK_insert hm h1.symm⟩
    | error e => exact ⟨h1, h2, h3, h4, hm⟩

/-- Key resolution of an indexer through the memos equals the memo-free specification. -/
theorem resolveIx_spec (s : CState) (mc : MCache) (phases : Option (List Char)) (key : PyKey)
    (h : CacheOK s.chem s.cache) (hm : ∀ ps, phases = some ps → MCacheOK s.chem ps mc) :
    (resolveIx s mc phases key).1 = resolveIxP s.chem phases key ∧
    (resolveIx s mc phases key).2.1.chem = s.chem ∧ (resolveIx s mc phases key).2.1.cas = s.cas ∧
    CacheOK s.chem (resolveIx s mc phases key).2.1.cache ∧
    (∀ ps, phases = some ps → MCacheOK s.chem ps (resolveIx s mc phases key).2.2) := by
  unfold resolveIx resolveIxP
  cases phases with
  | none =>
    simp only
    cases hn : normC key with
    | error e => exact ⟨rfl, rfl, rfl, h, by intro ps hp; cases hp⟩
    | ok k =>
      simp only
      obtain ⟨h1, h2, h3, h4⟩ := lookup_spec s h k
      rw [← h1]
      generalize s.lookup k = L at h1 h2 h3 h4
      obtain ⟨r, s'⟩ := L
      cases r with
      | ok ix => exact ⟨rfl, h2, h3, h4, by intro ps hp; cases hp⟩
      | error e => exact ⟨rfl, h2, h3, h4, by intro ps hp; cases hp⟩
  | some ps =>
    simp only
    cases hn : normM key with
    | error e => exact ⟨rfl, rfl, rfl, h, by intro ps' hp; cases hp; exact hm ps rfl⟩
    | ok k =>
    simp only
    obtain ⟨h1, h2, h3, h4, h5⟩ := lookupM_spec s mc ps h (hm ps rfl) k
    rw [← h1]
    generalize lookupM s mc ps k = L at h1 h2 h3 h4 h5
    obtain ⟨r, s', mc'⟩ := L
    cases r with
    | ok v => exact ⟨rfl, h2, h3, h4, by intro ps' hp; cases hp; exact h5⟩
    | error e => exact ⟨rfl, h2, h3, h4, by intro ps' hp; cases hp; exact h5⟩

end ThermoVerif.IndexCache
