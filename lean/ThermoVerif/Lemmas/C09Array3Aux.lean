import ThermoVerif.Props.C09Array2
/-
Helper lemmas and auxiliary definitions for Props/C09Array3.lean (property C09): plumbing about lists, options, the
store and the NumPy reference that the property theorems use.  Nothing here is a clause of the property.
-/
namespace ThermoVerif.Props.C09
open ThermoVerif.Sparse ThermoVerif.Dense

theorem keys_contains_iff (a : SV) (ha : a.WF) (j : Nat) : (VecObj.sv a).keys.contains j = (a.get j != 0) := by
  rw [Bool.eq_iff_iff]
  simp only [VecObj.keys, List.contains_eq_mem, decide_eq_true_eq, bne_iff_ne]
  rw [← SV.has_iff ha j, Dct.has_iff_mem_keys]
  rfl

theorem unionKeys_mem (n : Nat) (vs : List VecObj) (j : Nat) (hj : j < n) :
    SLV.mem ⟨n, unionKeys n vs⟩ j = vs.any (fun r => r.keys.contains j) := by
  unfold SLV.mem unionKeys
  rw [Bool.eq_iff_iff]
  simp [List.mem_filter, hj]

theorem mem_flat (A : Mat) (y : Rat) : y ∈ flat A ↔ ∃ r ∈ A, y ∈ r := by
  unfold flat
  induction A with
  | nil => simp
  | cons r A ih => simp only [List.foldr_cons, List.mem_append, ih, List.mem_cons, exists_eq_or_imp]

theorem mapM_redVec_max_spec : ∀ (A : Mat) (l : Vec), A.mapM (redVec .max) = .ok l →
    (∀ m ∈ l, ∃ r ∈ A, vmax r = some m) ∧ (∀ r ∈ A, ∃ m ∈ l, vmax r = some m) := by
  intro A
  induction A with
  | nil => intro l h; simp [List.mapM_nil, pure, Except.pure] at h; subst h; simp
  | cons r A ih =>
    intro l h
    rw [List.mapM_cons] at h
    obtain ⟨m, hm, h'⟩ := except_bind_ok h
    obtain ⟨ms, hms, h''⟩ := except_bind_ok h'
    simp only [pure, Except.pure, Except.ok.injEq] at h''; subst h''
    have hv : vmax r = some m := by
      simp only [redVec] at hm
      cases hx : vmax r with
      | none => rw [hx] at hm; cases hm
      | some x => rw [hx] at hm; simp only [Except.ok.injEq] at hm; rw [hm]
    obtain ⟨i1, i2⟩ := ih ms hms
    constructor
    · intro x hx
      rcases List.mem_cons.mp hx with e | e
      · subst e; exact ⟨r, List.mem_cons_self, hv⟩
      · obtain ⟨r', hr', hv'⟩ := i1 x e; exact ⟨r', List.mem_cons_of_mem _ hr', hv'⟩
    · intro r' hr'
      rcases List.mem_cons.mp hr' with e | e
      · subst e; exact ⟨m, List.mem_cons_self, hv⟩
      · obtain ⟨x, hx, hv'⟩ := i2 r' e; exact ⟨x, List.mem_cons_of_mem _ hx, hv'⟩

theorem mapM_redVec_min_spec : ∀ (A : Mat) (l : Vec), A.mapM (redVec .min) = .ok l →
    (∀ m ∈ l, ∃ r ∈ A, vmin r = some m) ∧ (∀ r ∈ A, ∃ m ∈ l, vmin r = some m) := by
  intro A
  induction A with
  | nil => intro l h; simp [List.mapM_nil, pure, Except.pure] at h; subst h; simp
  | cons r A ih =>
    intro l h
    rw [List.mapM_cons] at h
    obtain ⟨m, hm, h'⟩ := except_bind_ok h
    obtain ⟨ms, hms, h''⟩ := except_bind_ok h'
    simp only [pure, Except.pure, Except.ok.injEq] at h''; subst h''
    have hv : vmin r = some m := by
      simp only [redVec] at hm
      cases hx : vmin r with
      | none => rw [hx] at hm; cases hm
      | some x => rw [hx] at hm; simp only [Except.ok.injEq] at hm; rw [hm]
    obtain ⟨i1, i2⟩ := ih ms hms
    constructor
    · intro x hx
      rcases List.mem_cons.mp hx with e | e
      · subst e; exact ⟨r, List.mem_cons_self, hv⟩
      · obtain ⟨r', hr', hv'⟩ := i1 x e; exact ⟨r', List.mem_cons_of_mem _ hr', hv'⟩
    · intro r' hr'
      rcases List.mem_cons.mp hr' with e | e
      · subst e; exact ⟨m, List.mem_cons_self, hv⟩
      · obtain ⟨x, hx, hv'⟩ := i2 r' e; exact ⟨x, List.mem_cons_of_mem _ hx, hv'⟩

theorem length_flat (A : Mat) : (flat A).length = ((A.map List.length).foldl (· + ·) 0) := by
  have : ∀ (l : List Nat) (x : Nat), l.foldl (· + ·) x = x + l.sum := by
    intro l; induction l with
    | nil => intro x; simp
    | cons a l ih => intro x; simp only [List.foldl_cons, List.sum_cons]; rw [ih]; omega
  rw [this, Nat.zero_add]
  unfold flat
  induction A with
  | nil => rfl
  | cons r A ih => simp only [List.foldr_cons, List.length_append, List.map_cons, List.sum_cons, ih]

theorem keepB_b2r (b : Bool) : keepB (b2r b != 0) = keepB b := by cases b <;> rfl

theorem rowsVec_getElem (s : Store) : ∀ (rids : List Nat) (vs : List VecObj), s.rowsVec rids = some vs →
    ∀ k, k < rids.length → ∃ rid v, rids[k]? = some rid ∧ vs[k]? = some v ∧ s.getVec rid = some v := by
  intro rids
  induction rids with
  | nil => intro vs _ k hk; simp at hk
  | cons r rids ih =>
    intro vs h k hk
    rw [rowsVec_cons] at h
    cases hg : s.getVec r with
    | none => rw [hg] at h; cases h
    | some v =>
      rw [hg] at h
      cases hr : s.rowsVec rids with
      | none => rw [hr] at h; cases h
      | some vr =>
        rw [hr] at h
        simp only [Option.bind, Option.some.injEq] at h; subst h
        cases k with
        | zero => exact ⟨r, v, rfl, rfl, hg⟩
        | succ k =>
          obtain ⟨rid, w, h1, h2, h3⟩ := ih vr hr k (by simpa using hk)
          exact ⟨rid, w, by simpa using h1, by simpa using h2, h3⟩

theorem filterMap_getElem?_of_lt {α β : Type} (f : α → β) (l : List α) (d : α) :
    ∀ ks : List Nat, (∀ k ∈ ks, k < l.length) →
      List.filterMap (fun k => Option.map f l[k]?) ks = ks.map (fun k => f (l.getD k d)) := by
  intro ks
  induction ks with
  | nil => intro _; rfl
  | cons k ks ih =>
    intro h
    have hk : k < l.length := h k List.mem_cons_self
    rw [List.filterMap_cons, ih (fun x hx => h x (List.mem_cons_of_mem _ hx))]
    simp [List.getElem?_eq_getElem hk, List.getD_eq_getElem?_getD]

theorem filterMap_range_getElem? {α β : Type} (f : α → β) (l : List α) :
    List.filterMap (fun k => Option.map f l[k]?) (List.range l.length) = l.map f := by
  cases l with
  | nil => rfl
  | cons a t =>
    rw [filterMap_getElem?_of_lt f (a :: t) a _ (fun k hk => List.mem_range.mp hk)]
    apply List.ext_getElem
    · simp
    · intro i h1 h2
      have hi : i < (a :: t).length := by simpa using h2
      simp only [List.getD_eq_getElem?_getD, List.getElem?_eq_getElem hi, List.getElem_map, List.getElem_range,
        Option.getD_some]

/-- selecting rows `sel` (all inside the array) of the row list gives row objects whose dense
images are the selected rows of the matrix -/
theorem rowsVec_sel (s : Store) (rowIds : List Nat) (rows : List SV)
    (hrows : s.rowsVec rowIds = some (svRows rows)) :
    ∀ sel : List Nat, (∀ k ∈ sel, k < rows.length) →
      ∃ rows', s.rowsVec (sel.filterMap (rowIds[·]?)) = some (svRows rows') ∧
        (∀ c ∈ rows', c ∈ rows) ∧
        denseRows rows' = sel.map (fun k => (denseRows rows).getD k []) := by
  have hrl : rowIds.length = rows.length := by
    have := rowsVec_length hrows; simpa [svRows] using this.symm
  intro sel
  induction sel with
  | nil => intro _; exact ⟨[], rfl, by simp, rfl⟩
  | cons k sel ih =>
    intro h
    have hk : k < rows.length := h k List.mem_cons_self
    obtain ⟨rows', h1, h2, h3⟩ := ih (fun x hx => h x (List.mem_cons_of_mem _ hx))
    obtain ⟨rid, v, g1, g2, g3⟩ := rowsVec_getElem s rowIds _ hrows k (by omega)
    have hv : v = .sv rows[k] := by
      simp only [svRows, List.getElem?_map, List.getElem?_eq_getElem hk, Option.map_some, Option.some.injEq] at g2
      exact g2.symm
    subst hv
    refine ⟨rows[k] :: rows', ?_, ?_, ?_⟩
    · rw [List.filterMap_cons, g1]
      simp only
      rw [rowsVec_cons, g3, h1]; rfl
    · intro c hc
      rcases List.mem_cons.mp hc with rfl | hc
      · exact List.getElem_mem hk
      · exact h2 c hc
    · simp only [denseRows, List.map_cons] at h3 ⊢
      rw [h3]
      congr 1
      simp [List.getD_eq_getElem?_getD, List.getElem?_eq_getElem hk]

theorem npPositions_fancy (n : Nat) (l : List Nat) (h : ∀ k ∈ l, k < n) :
    Idx.npPositions n (.fancy l) = .ok l := by
  have : (l.any fun i => decide (n ≤ i)) = false := by
    rw [List.any_eq_false]; intro x hx; simpa using h x hx
  simp only [Idx.npPositions, this, Bool.false_eq_true, ↓reduceIte]

theorem npGetIdx_mat_one (A : Mat) (i : Idx) (ps : List Nat) (h : i.npPositions A.length = .ok ps) :
    npGetIdx (ND.mat A) (.one i) =
      .ok (if i.isInt then ND.vec (A.getD (ps.getD 0 0) []) else ND.mat (ps.map (fun k => A.getD k []))) := by
  unfold npGetIdx
  simp only [ND.mat]
  rw [h]

theorem npGetIdx_mat_two (A : Mat) (m n : Idx) (ms ns : List Nat) (hm : m.npPositions A.length = .ok ms)
    (hn : n.npPositions (shapeOf A).2 = .ok ns) :
    npGetIdx (ND.mat A) (.two m n) =
      (let el (r c : Nat) : Rat := (A.getD r []).getD c 0
       if m.isAdvanced && n.isAdvanced then
          if ms.length = ns.length then .ok (ND.vec ((List.zip ms ns).map (fun p => el p.1 p.2)))
          else if ms.length = 1 then .ok (ND.vec (ns.map (fun c => el (ms.getD 0 0) c)))
          else if ns.length = 1 then .ok (ND.vec (ms.map (fun r => el r (ns.getD 0 0))))
          else .error .shape
        else if m.isInt && n.isInt then .ok (ND.scalar (el (ms.getD 0 0) (ns.getD 0 0)))
        else if m.isInt then .ok (ND.vec (ns.map (fun c => el (ms.getD 0 0) c)))
        else if n.isInt then .ok (ND.vec (ms.map (fun r => el r (ns.getD 0 0))))
        else .ok (ND.mat (ms.map (fun r => ns.map (fun c => el r c))))) := by
  unfold npGetIdx
  simp only [ND.mat]
  rw [hm, hn]

theorem maskIdx_lt (m : List Bool) : ∀ k ∈ maskIdx m, k < m.length := by
  intro k hk
  exact List.mem_range.mp (List.mem_filter.mp hk).1

theorem npSlice_lt (n : Nat) (a b c : Option Nat) : ∀ k ∈ npSlice n a b c, k < n := by
  intro k hk
  have := pyRange_lt _ _ _ k hk
  exact Nat.lt_of_lt_of_le this (Nat.min_le_right _ _)

end ThermoVerif.Props.C09
