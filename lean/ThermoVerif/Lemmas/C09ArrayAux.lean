import ThermoVerif.Props.C09Store
/-
Helper lemmas and auxiliary definitions for Props/C09Array.lean (property C09): plumbing about lists, options, the
store and the NumPy reference that the property theorems use.  Nothing here is a clause of the property.
-/
namespace ThermoVerif.Props.C09
open ThermoVerif.Sparse ThermoVerif.Dense

theorem cmpOf_fn (op : BinOp) (c : Cmp) (h : cmpOf op = some c) : op.fn = c.toBin.fn := by
  cases op <;> simp [cmpOf] at h <;> subst h <;> rfl

theorem vec_toDense_copy (c : SV) : (VecObj.sv c.copy).toDense = c.toDense := rfl

/-- row kernel, sparse operand: NumPy's 1-d result on the dense images -/
theorem row_hom_sparse (op : BinOp) (a b : SV) (r : VecObj) (ha : a.WF) (hb : b.WF)
    (h : SV.opSparse op a b = .ok r) : VecWF r ∧ np1 op.fn a.toDense b.toDense = .ok r.toDense := by
  refine ⟨sv_opSparse_wf op a b r ha hb h, ?_⟩
  unfold SV.opSparse at h
  split at h
  · rename_i ar har
    obtain ⟨c, hc, e⟩ := except_map_ok h; subst e
    rw [arithOf_fn op ar har]
    exact (dense_hom_arith_sparse ar false a b c ha hb hc).2
  · rename_i _ _ c hcm _
    obtain ⟨v, hv, e⟩ := except_map_ok h; subst e
    rw [cmpOf_fn op c hcm]
    exact (cmpSparse_ok c a b v hv).2
  · cases h

theorem row_hom_array (op : BinOp) (a : SV) (l : Vec) (r : VecObj) (ha : a.WF)
    (h : SV.opArray op a l = .ok r) : VecWF r ∧ np1 op.fn a.toDense l = .ok r.toDense := by
  refine ⟨sv_opArray_wf op a l r ha h, ?_⟩
  unfold SV.opArray at h
  split at h
  · rename_i ar har
    obtain ⟨c, hc, e⟩ := except_map_ok h; subst e
    rw [arithOf_fn op ar har]
    exact (dense_hom_arith_array ar a c l ha hc).2
  · rename_i _ _ c hcm _
    obtain ⟨v, hv, e⟩ := except_map_ok h; subst e
    rw [cmpOf_fn op c hcm]
    exact (cmpArray_ok c a l v hv).2
  · cases h

/-- NumPy with a one-element operand is the scalar operation -/
theorem np1_singleton (f : Rat → Rat → Rat) (l : Vec) (x : Rat) : np1 f l [x] = .ok (np1s f l x) := by
  unfold np1 np1s
  by_cases h1 : l.length = 1
  · obtain ⟨y, rfl⟩ := List.length_eq_one_iff.mp h1
    simp
  · simp [h1]

theorem row_hom_scalar (op : BinOp) (a : SV) (x : Rat) (r : VecObj) (ha : a.WF)
    (h : SV.opScalar op a x = .ok r) : VecWF r ∧ np1 op.fn a.toDense [x] = .ok r.toDense := by
  refine ⟨sv_opScalar_wf op a x r ha h, ?_⟩
  rw [np1_singleton]
  unfold SV.opScalar at h
  split at h
  · rename_i ar har
    obtain ⟨c, hc, e⟩ := except_map_ok h; subst e
    rw [arithOf_fn op ar har, vec_toDense_copy, (dense_hom_arith_scalar ar a c x ha hc).2]
  · rename_i _ _ c hcm _
    simp only [Except.ok.injEq] at h; subst h
    rw [cmpOf_fn op c hcm]
    exact congrArg Except.ok (cmpScalar_ok c a x).2.symm
  · cases h

/-- if every step of a `mapM` has a dense counterpart, the whole `mapM` has -/
theorem mapM_lift {α : Type} (K : α → Except Err VecObj) (D : α → Except NpErr Vec)
    (hKD : ∀ x r, K x = .ok r → D x = .ok r.toDense) :
    ∀ (l : List α) (cs : List VecObj), l.mapM K = .ok cs → l.mapM D = .ok (cs.map VecObj.toDense) := by
  intro l
  induction l with
  | nil => intro cs h; simp [List.mapM_nil, pure, Except.pure] at h; subst h; rfl
  | cons a l ih =>
    intro cs h
    rw [List.mapM_cons] at h ⊢
    cases hka : K a with
    | error e => rw [hka] at h; cases h
    | ok r =>
      rw [hka] at h
      cases hl : l.mapM K with
      | error e => rw [hl] at h; cases h
      | ok rs =>
        rw [hl] at h
        simp only [bind, Except.bind, pure, Except.pure, Except.ok.injEq] at h
        subst h
        rw [hKD a r hka, ih rs hl]
        rfl

theorem mapM_map {α β γ ε : Type} (g : α → β) (D : β → Except ε γ) (l : List α) :
    (l.map g).mapM D = l.mapM (fun x => D (g x)) := by
  induction l with
  | nil => rfl
  | cons a l ih => simp only [List.map_cons, List.mapM_cons, ih]

/-- the rows of a float array -/
def svRows (rows : List SV) : List VecObj := rows.map VecObj.sv

def denseRows (rows : List SV) : Mat := rows.map SV.toDense

theorem rowsBool_svRows (rows : List SV) : rowsBool (svRows rows) = false := by
  cases rows <;> rfl

theorem coerce_float (v : VecObj) (me : Bool) : coerce false false v me = v := by
  unfold coerce; cases me <;> simp

theorem map_coerce_float (l : List VecObj) (me : Bool) : l.map (fun r => coerce false false r me) = l := by
  induction l with
  | nil => rfl
  | cons a l ih => simp [coerce_float, ih]

/-- row-wise lifting: if the row kernel `K` agrees with the 1-d NumPy function `D` on every
well-formed row, the list of result rows agrees with `D` mapped over the dense rows -/
theorem sv_mapM_hom (K : SV → Except Err VecObj) (D : Vec → Except NpErr Vec)
    (hKD : ∀ a r, a.WF → K a = .ok r → VecWF r ∧ D a.toDense = .ok r.toDense) :
    ∀ (rs : List SV) (cs : List VecObj), (∀ r ∈ rs, r.WF) → rs.mapM K = .ok cs →
      (∀ c ∈ cs, VecWF c) ∧ (denseRows rs).mapM D = .ok (cs.map VecObj.toDense) := by
  intro rs
  induction rs with
  | nil => intro cs _ h; simp [List.mapM_nil, pure, Except.pure] at h; subst h; exact ⟨by simp, rfl⟩
  | cons a rs ih =>
    intro cs hwf h
    rw [List.mapM_cons] at h
    cases hka : K a with
    | error e => rw [hka] at h; cases h
    | ok r =>
      rw [hka] at h
      cases hl : rs.mapM K with
      | error e => rw [hl] at h; cases h
      | ok rs' =>
        rw [hl] at h
        simp only [bind, Except.bind, pure, Except.pure, Except.ok.injEq] at h
        subst h
        have h1 := hKD a r (hwf a List.mem_cons_self) hka
        have h2 := ih rs' (fun r hr => hwf r (List.mem_cons_of_mem _ hr)) hl
        refine ⟨?_, ?_⟩
        · intro c hc
          rcases List.mem_cons.mp hc with e | e
          · subst e; exact h1.1
          · exact h2.1 c e
        · unfold denseRows at h2 ⊢
          rw [List.map_cons, List.mapM_cons, h1.2, h2.2]
          rfl

/-- `np2` with a single operand row (a 1-d or 0-d operand, or a one-row array) is the row-wise map -/
theorem np2_single (f : Rat → Rat → Rat) (A : Mat) (b : Vec) :
    np2 f A [b] = A.mapM (fun r => np1 f r b) := by
  unfold np2
  by_cases h1 : A.length = 1
  · obtain ⟨a, rfl⟩ := List.length_eq_one_iff.mp h1
    simp
  · have h1' : ¬ A.length = [b].length := by simpa using h1
    rw [if_neg h1', if_neg h1]
    simp

/-- which row meets which (on float rows): mirror of `pairRows` -/
def pairSV (rs os : List SV) : List (SV × SV) :=
  match rs, os with
  | [r], _ => os.map (fun o => (r, o))
  | _, [o] => rs.map (fun r => (r, o))
  | _, _ => rs.zip os

theorem pairRows_sv (rs os : List SV) :
    pairRows (svRows rs) (svRows os) = (pairSV rs os).map (fun p => (VecObj.sv p.1, VecObj.sv p.2)) := by
  rcases rs with _ | ⟨r, _ | ⟨r2, rt⟩⟩ <;> rcases os with _ | ⟨o, _ | ⟨o2, ot⟩⟩ <;>
    simp [pairRows, pairSV, svRows, zipTrunc, List.zip_map, List.map_map, Function.comp_def]

/-- for broadcastable row counts `np2` meets exactly the row pairs of `pairSV` -/
theorem np2_pairSV (f : Rat → Rat → Rat) (rs os : List SV)
    (hshape : rs.length = os.length ∨ rs.length = 1 ∨ os.length = 1) :
    np2 f (denseRows rs) (denseRows os) =
      ((pairSV rs os).map (fun p => (p.1.toDense, p.2.toDense))).mapM (fun p => np1 f p.1 p.2) := by
  rcases rs with _ | ⟨r, _ | ⟨r2, rt⟩⟩ <;> rcases os with _ | ⟨o, _ | ⟨o2, ot⟩⟩ <;>
    simp [np2, pairSV, denseRows, List.zip_map, mapM_map, List.map_map, Function.comp_def] at hshape ⊢
  intro hn; exact absurd hshape hn

theorem gen_mapM_hom {α : Type} (P : α → Prop) (K : α → Except Err VecObj) (D : α → Except NpErr Vec)
    (hKD : ∀ a r, P a → K a = .ok r → VecWF r ∧ D a = .ok r.toDense) :
    ∀ (l : List α) (cs : List VecObj), (∀ a ∈ l, P a) → l.mapM K = .ok cs →
      (∀ c ∈ cs, VecWF c) ∧ l.mapM D = .ok (cs.map VecObj.toDense) := by
  intro l
  induction l with
  | nil => intro cs _ h; simp [List.mapM_nil, pure, Except.pure] at h; subst h; exact ⟨by simp, rfl⟩
  | cons a l ih =>
    intro cs hp h
    rw [List.mapM_cons] at h
    cases hka : K a with
    | error e => rw [hka] at h; cases h
    | ok r =>
      rw [hka] at h
      cases hl : l.mapM K with
      | error e => rw [hl] at h; cases h
      | ok rs' =>
        rw [hl] at h
        simp only [bind, Except.bind, pure, Except.pure, Except.ok.injEq] at h
        subst h
        have h1 := hKD a r (hp a List.mem_cons_self) hka
        have h2 := ih rs' (fun x hx => hp x (List.mem_cons_of_mem _ hx)) hl
        refine ⟨?_, ?_⟩
        · intro c hc
          rcases List.mem_cons.mp hc with e | e
          · subst e; exact h1.1
          · exact h2.1 c e
        · rw [List.mapM_cons, h1.2, h2.2]; rfl

theorem pairSV_mem (rs os : List SV) (p : SV × SV) (h : p ∈ pairSV rs os) : p.1 ∈ rs ∧ p.2 ∈ os := by
  unfold pairSV at h
  split at h
  · obtain ⟨o, ho, e⟩ := List.mem_map.mp h; subst e; exact ⟨List.mem_singleton.mpr rfl, ho⟩
  · obtain ⟨r, hr, e⟩ := List.mem_map.mp h; subst e; exact ⟨hr, List.mem_singleton.mpr rfl⟩
  · exact ⟨(List.of_mem_zip h).1, (List.of_mem_zip h).2⟩

theorem tab_toDense (n : Nat) (f : Nat → Rat) : VecObj.toDense (.sv ⟨n, Dct.tabulate n f, false⟩) = vecOf n f := by
  show SV.toDense _ = _
  apply SV.toDense_of_get _ _ _ rfl
  intro i hi
  rw [SV.get_def]; dsimp only
  rw [Dct.get_tabulate]; simp [hi]

theorem vecOf_getElem? {α : Type} (l : List α) (g : α → Rat) (d : Rat) :
    vecOf l.length (fun i => match l[i]? with | some r => g r | none => d) = l.map g := by
  apply List.ext_getElem
  · simp [vecOf_length]
  · intro i h1 h2
    simp only [vecOf_length] at h1
    simp [vecOf, List.getElem?_eq_getElem h1]

theorem keepN_toDense (x : Rat) : (keepN x).toDense = [x] := by
  show SV.toDense (SV.keep x) = _
  unfold SV.keep SV.toDense
  by_cases h : x = 0
  · subst h; simp [SV.get, Dct.get]
  · simp [h, SV.get, Dct.get]

theorem keepB_toDense (b : Bool) : (keepB b).toDense = [b2r b] := by
  show SLV.toDense (SLV.keep b) = _
  unfold SLV.keep SLV.toDense
  cases b <;> simp [SLV.mem, b2r]

theorem ofList_toDense (l : Vec) : VecObj.toDense (.sv ⟨l.length, Dct.ofList l, false⟩) = l := by
  show SV.toDense _ = _
  rw [vec_eq_vecOf l]
  simp only [vecOf_length]
  apply SV.toDense_of_get _ _ _ rfl
  intro i _
  rw [SV.get_def]; dsimp only
  rw [Dct.get_ofList, ← vec_eq_vecOf l]

/-- reducing the rows one by one, on the dense side -/
theorem rows_redVec (r : Red) (g : SV → Rat) (rows : List SV)
    (hg : ∀ a ∈ rows, redVec r a.toDense = .ok (g a)) :
    (denseRows rows).mapM (redVec r) = .ok (rows.map g) := by
  unfold denseRows
  induction rows with
  | nil => rfl
  | cons a rows ih =>
    rw [List.map_cons, List.mapM_cons, hg a List.mem_cons_self, ih (fun x hx => hg x (List.mem_cons_of_mem _ hx))]
    rfl

theorem rows_max (rows : List SV) (hw : ∀ a ∈ rows, a.WF ∧ a.size ≠ 0) :
    ∃ l, (svRows rows).mapM VecObj.max = .ok l ∧ (denseRows rows).mapM (redVec .max) = .ok l := by
  induction rows with
  | nil => exact ⟨[], rfl, rfl⟩
  | cons a rows ih =>
    obtain ⟨l, h1, h2⟩ := ih (fun x hx => hw x (List.mem_cons_of_mem _ hx))
    obtain ⟨m, hm1, hm2⟩ := dense_hom_max a (hw a List.mem_cons_self).1 (hw a List.mem_cons_self).2
    refine ⟨m :: l, ?_, ?_⟩
    · simp only [svRows, List.map_cons, List.mapM_cons] at h1 ⊢
      rw [show VecObj.max (.sv a) = a.max from rfl, hm1, h1]; rfl
    · simp only [denseRows, List.map_cons, List.mapM_cons] at h2 ⊢
      rw [hm2, h2]; rfl

theorem rows_min (rows : List SV) (hw : ∀ a ∈ rows, a.WF ∧ a.size ≠ 0) :
    ∃ l, (svRows rows).mapM VecObj.min = .ok l ∧ (denseRows rows).mapM (redVec .min) = .ok l := by
  induction rows with
  | nil => exact ⟨[], rfl, rfl⟩
  | cons a rows ih =>
    obtain ⟨l, h1, h2⟩ := ih (fun x hx => hw x (List.mem_cons_of_mem _ hx))
    obtain ⟨m, hm1, hm2⟩ := dense_hom_min a (hw a List.mem_cons_self).1 (hw a List.mem_cons_self).2
    refine ⟨m :: l, ?_, ?_⟩
    · simp only [svRows, List.map_cons, List.mapM_cons] at h1 ⊢
      rw [show VecObj.min (.sv a) = a.min from rfl, hm1, h1]; rfl
    · simp only [denseRows, List.map_cons, List.mapM_cons] at h2 ⊢
      rw [hm2, h2]; rfl

/-- the row mean of the array code (`x / size if x else 0`) is the vector's `mean` -/
theorem row_mean_eq (a : SV) : (if a.sum = 0 then 0 else a.sum / (a.size : Rat)) = a.mean := by
  unfold SV.mean
  by_cases he : a.dct.isEmpty = true
  · have : a.sum = 0 := by
      unfold SV.sum
      have : a.dct = [] := by simpa using he
      rw [this]; rfl
    simp [he, this]
  · by_cases hs : a.sum = 0
    · simp [he, hs]
    · simp [he, hs]

def flat (A : Mat) : Vec := A.foldr (· ++ ·) []

theorem sum_flat (A : Mat) : (flat A).sum = (A.map List.sum).sum := by
  unfold flat
  induction A with
  | nil => rfl
  | cons r A ih => simp only [List.foldr_cons, List.sum_append, List.map_cons, List.sum_cons, ih]

theorem any_flat (A : Mat) (p : Rat → Bool) : (flat A).any p = A.any (fun r => r.any p) := by
  unfold flat
  induction A with
  | nil => rfl
  | cons r A ih => simp only [List.foldr_cons, List.any_append, List.any_cons, ih]

theorem all_flat (A : Mat) (p : Rat → Bool) : (flat A).all p = A.all (fun r => r.all p) := by
  unfold flat
  induction A with
  | nil => rfl
  | cons r A ih => simp only [List.foldr_cons, List.all_append, List.all_cons, ih]

theorem any_congr_mem {α : Type} (l : List α) (p q : α → Bool) (h : ∀ a ∈ l, p a = q a) : l.any p = l.any q := by
  induction l with
  | nil => rfl
  | cons a l ih =>
    simp only [List.any_cons, h a List.mem_cons_self, ih (fun x hx => h x (List.mem_cons_of_mem _ hx))]

theorem all_congr_mem {α : Type} (l : List α) (p q : α → Bool) (h : ∀ a ∈ l, p a = q a) : l.all p = l.all q := by
  induction l with
  | nil => rfl
  | cons a l ih =>
    simp only [List.all_cons, h a List.mem_cons_self, ih (fun x hx => h x (List.mem_cons_of_mem _ hx))]

/-- the columns of the dense image of a rectangular array -/
theorem transpose_dense (rows : List SV) (hrect : ∀ a ∈ rows, a.size = vectorSize (svRows rows)) :
    transpose (denseRows rows) =
      (List.range (vectorSize (svRows rows))).map (fun j => rows.map (fun a => a.get j)) := by
  unfold transpose
  have hlen : ((denseRows rows).getD 0 []).length = vectorSize (svRows rows) := by
    cases rows with
    | nil => rfl
    | cons a rows => simp [denseRows, vectorSize, svRows, SV.toDense_length, VecObj.size]
  rw [hlen]
  apply List.map_congr_left
  intro j hj
  have hj' := List.mem_range.mp hj
  unfold denseRows
  rw [List.map_map]
  apply List.map_congr_left
  intro a ha
  simp only [Function.comp]
  exact toDense_getD a j (by rw [hrect a ha]; exact hj')

end ThermoVerif.Props.C09
