import ThermoVerif.Lemmas.NetworkExec
/-
Bridge between the count formulation of the per-side invariant used in the lemma files
(`SInv … All`, `GoodS`) and the clauses of the property as `Props/C18.lean` states them
(listed ↔ docked, at most one port, fixed size; allocation discipline).
-/
namespace ThermoVerif.Network

/-- The docking clauses on one side, as a plain conjunction. -/
def SideClauses (sd : Side) : Prop :=
  (∀ u s, (s ∈ sd.lst u ↔ sd.loc s = some u)) ∧
  (∀ u s, (sd.lst u).count s ≤ 1) ∧
  (∀ u, sd.fixed u = true → (sd.lst u).length = sd.size u)

/-- The allocation discipline, as a plain conjunction. -/
def ScopeClauses (w : World) : Prop :=
  (∀ k u s, s ∈ (w.side k).lst u → s < w.nS) ∧
  (∀ k s, w.nS ≤ s → (w.side k).loc s = none) ∧
  (∀ s, w.nS ≤ s → w.real s = false) ∧
  (∀ k u, w.nU ≤ u → (w.side k).lst u = []) ∧
  (∀ k u, w.nU ≤ u → (w.side k).fixed u = false) ∧
  (∀ k s u, (w.side k).loc s = some u → u < w.nU)

theorem sinv_of_clauses {w : World} (k : Which) (hi : SideClauses (w.side k)) (hs : ScopeClauses w) :
    SInv w.nU All (w.get k) := by
  obtain ⟨h1, h2, h3⟩ := hi
  obtain ⟨s1, s2, _, s4, s5, s6⟩ := hs
  refine ⟨fun u s _ => ?_, fun u hf => ?_, ?_⟩
  · simp only [get_sd]
    by_cases hl : (w.side k).loc s = some u
    · have := List.count_pos_iff.mpr ((h1 u s).mpr hl)
      have := h2 u s
      rw [if_pos hl]; omega
    · rw [if_neg hl]
      exact List.count_eq_zero.mpr (fun hm => hl ((h1 u s).mp hm))
  · simp only [get_sd] at hf ⊢
    exact h3 u hf
  · constructor
    · intro u s h; simpa using s1 k u s (by simpa using h)
    · intro s h; simpa using s2 k s (by simpa using h)
    · intro u h; simpa using s4 k u h
    · intro u h; simpa using s5 k u h
    · intro s u h; exact s6 k s u (by simpa using h)

theorem clauses_of_sinv {w : World} (k : Which) (h : SInv w.nU All (w.get k)) :
    SideClauses (w.side k) := by
  refine ⟨fun u s => ?_, fun u s => ?_, fun u hf => ?_⟩
  · have := h.cnt u s trivial
    simp only [get_sd] at this
    rw [← List.count_pos_iff, this]
    split <;> simp [*]
  · have := h.cnt u s trivial
    simp only [get_sd] at this
    rw [this]; split <;> omega
  · have := h.fx u (by simpa using hf)
    simpa using this

/-- `GoodS` says exactly: both sides satisfy the docking clauses and the allocation discipline holds. -/
theorem goodS_iff (w : World) :
    GoodS w ↔ SideClauses w.ins ∧ SideClauses w.outs ∧ ScopeClauses w := by
  constructor
  · intro h
    refine ⟨clauses_of_sinv .i h.ins, clauses_of_sinv .o h.outs, ?_, ?_, h.nreal, ?_, ?_, ?_⟩
    · intro k u s hm; simpa using (h.side k).sc.lst_lt u s (by simpa using hm)
    · intro k s hs; simpa using (h.side k).sc.loc_none s (by simpa using hs)
    · intro k u hu; simpa using (h.side k).sc.lst_nil u hu
    · intro k u hu; simpa using (h.side k).sc.fixed_false u hu
    · intro k s u hl; exact (h.side k).sc.loc_lt s u (by simpa using hl)
  · intro ⟨hi, ho, hs⟩
    exact ⟨sinv_of_clauses .i hi hs, sinv_of_clauses .o ho hs, hs.2.2.1⟩

theorem goodS_init : GoodS World.init := by
  rw [goodS_iff]
  refine ⟨?_, ?_, ?_⟩
  · exact ⟨by simp [World.init, Side.init], by simp [World.init, Side.init],
      by simp [World.init, Side.init]⟩
  · exact ⟨by simp [World.init, Side.init], by simp [World.init, Side.init],
      by simp [World.init, Side.init]⟩
  · refine ⟨?_, ?_, ?_, ?_, ?_, ?_⟩
    · intro k u s; cases k <;> simp [World.init, Side.init, World.side]
    · intro k s; cases k <;> simp [World.init, Side.init, World.side]
    · intro s; simp [World.init]
    · intro k u; cases k <;> simp [World.init, Side.init, World.side]
    · intro k u; cases k <;> simp [World.init, Side.init, World.side]
    · intro k s u; cases k <;> simp [World.init, Side.init, World.side]

end ThermoVerif.Network
