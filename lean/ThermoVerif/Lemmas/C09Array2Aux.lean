import ThermoVerif.Props.C09Array
/-
Helper lemmas and auxiliary definitions for Props/C09Array2.lean (property C09): plumbing about lists, options, the
store and the NumPy reference that the property theorems use.  Nothing here is a clause of the property.
-/
namespace ThermoVerif.Props.C09
open ThermoVerif.Sparse ThermoVerif.Dense

theorem option_mapM_cons {α β : Type} (f : α → Option β) (a : α) (l : List α) :
    (a :: l).mapM f = (f a).bind (fun b => (l.mapM f).bind (fun bs => some (b :: bs))) := by
  rw [List.mapM_cons]
  cases f a <;> simp [bind, Option.bind]

theorem rowsVec_cons (s : Store) (rid : Nat) (rids : List Nat) :
    s.rowsVec (rid :: rids) = (s.getVec rid).bind (fun v => (s.rowsVec rids).bind (fun vs => some (v :: vs))) := by
  unfold Store.rowsVec; exact option_mapM_cons _ _ _

theorem rowsVec_congr (s t : Store) (rids : List Nat) (h : ∀ j ∈ rids, t[j]? = s[j]?) : t.rowsVec rids = s.rowsVec rids := by
  induction rids with
  | nil => rfl
  | cons r rids ih =>
    rw [rowsVec_cons, rowsVec_cons, ih (fun j hj => h j (List.mem_cons_of_mem _ hj))]
    have : t.getVec r = s.getVec r := by unfold Store.getVec; rw [h r List.mem_cons_self]
    rw [this]

/-- the loop `for (row, x) in pairs: row._i<op>_…(x)` on distinct row objects: every row is replaced by
the kernel's result on its old value, nothing else changes -/
theorem foldlM_updRow {β : Type} (K : β → VecObj → Except Err VecObj) :
    ∀ (ps : List (Nat × β)) (s s' : Store) (vs : List VecObj),
      (ps.map Prod.fst).Nodup → s.rowsVec (ps.map Prod.fst) = some vs →
      ps.foldlM (fun s p => updRow s p.1 (K p.2)) s = .ok s' →
      ∃ vs', (List.zip ps vs).mapM (fun q => K q.1.2 q.2) = .ok vs' ∧ s'.rowsVec (ps.map Prod.fst) = some vs' ∧
        (∀ j, j ∉ ps.map Prod.fst → s'[j]? = s[j]?) := by
  intro ps
  induction ps with
  | nil =>
    intro s s' vs _ hv h
    simp only [List.foldlM_nil, pure, Except.pure, Except.ok.injEq] at h; subst h
    exact ⟨[], rfl, rfl, fun _ _ => rfl⟩
  | cons p ps ih =>
    intro s s' vs hnd hv h
    simp only [List.map_cons, List.nodup_cons] at hnd
    rw [List.foldlM_cons] at h
    obtain ⟨s1, h1, h2⟩ := except_bind_ok h
    -- the first row
    simp only [List.map_cons] at hv
    rw [rowsVec_cons] at hv
    cases hg : s.getVec p.1 with
    | none => rw [hg] at hv; cases hv
    | some v =>
      rw [hg] at hv
      simp only [Option.bind] at hv
      cases hrest : s.rowsVec (ps.map Prod.fst) with
      | none => rw [hrest] at hv; cases hv
      | some vrest =>
        rw [hrest] at hv
        simp only [Option.some.injEq] at hv; subst hv
        unfold updRow at h1
        rw [hg] at h1
        obtain ⟨v', hv', e⟩ := except_map_ok h1; subst e
        have hfr1 : ∀ j, j ≠ p.1 → (s.set p.1 v'.toObj)[j]? = s[j]? := fun j hj => getElem?_set_ne _ hj
        have hrest1 : Store.rowsVec (s.set p.1 v'.toObj) (ps.map Prod.fst) = some vrest := by
          rw [rowsVec_congr s _ _ (fun j hj => hfr1 j (by intro e; subst e; exact hnd.1 hj)), hrest]
        obtain ⟨vs', hm, hr, hfr⟩ := ih _ s' vrest hnd.2 hrest1 h2
        refine ⟨v' :: vs', ?_, ?_, ?_⟩
        · simp only [List.zip_cons_cons, List.mapM_cons, hv', hm]; rfl
        · simp only [List.map_cons]
          rw [rowsVec_cons, hr]
          have : s'.getVec p.1 = some v' := by
            have h3 := hfr p.1 hnd.1
            apply getVec_toObj
            rw [h3, List.getElem?_set]
            have hi : p.1 < s.length := by
              unfold Store.getVec at hg
              by_contra hc
              have : s[p.1]? = none := List.getElem?_eq_none (by omega)
              simp [this] at hg
            simp [hi]
          rw [this]; rfl
        · intro j hj
          simp only [List.map_cons, List.mem_cons, not_or] at hj
          rw [hfr j hj.2, hfr1 j hj.1]

/-- the same for `for row in rows: row._i<op>_…(operand)` with one operand for all rows -/
theorem foldlM_updRow_const (K : VecObj → Except Err VecObj) (rids : List Nat) (s s' : Store) (vs : List VecObj)
    (hnd : rids.Nodup) (hv : s.rowsVec rids = some vs)
    (h : rids.foldlM (fun s rid => updRow s rid K) s = .ok s') :
    ∃ vs', vs.mapM K = .ok vs' ∧ s'.rowsVec rids = some vs' ∧ (∀ j, j ∉ rids → s'[j]? = s[j]?) := by
  have hmap : (rids.map (fun r => (r, ()))).map Prod.fst = rids := by simp [List.map_map, Function.comp_def]
  have h' : (rids.map (fun r => (r, ()))).foldlM (fun s p => updRow s p.1 ((fun _ => K) p.2)) s = .ok s' := by
    rw [List.foldlM_map]; exact h
  obtain ⟨vs', hm, hr, hfr⟩ := foldlM_updRow (fun (_ : Unit) => K) _ s s' vs (by rw [hmap]; exact hnd) (by rw [hmap]; exact hv) h'
  rw [hmap] at hr hfr
  refine ⟨vs', ?_, hr, hfr⟩
  have hlen : vs.length = rids.length := by
    unfold Store.rowsVec at hv
    clear h h' hm hr hfr hmap hnd
    induction rids generalizing vs with
    | nil => simp [List.mapM_nil, pure] at hv; subst hv; rfl
    | cons r rids ih =>
      rw [option_mapM_cons] at hv
      cases hg : s.getVec r with
      | none => rw [hg] at hv; cases hv
      | some v =>
        rw [hg] at hv
        cases hr : rids.mapM s.getVec with
        | none => rw [hr] at hv; cases hv
        | some vr =>
          rw [hr] at hv
          simp only [Option.bind, Option.some.injEq] at hv; subst hv
          simp [ih vr hr]
  -- zip with a list of units is a map
  have : (List.zip (rids.map (fun r => (r, ()))) vs).mapM (fun q => (fun (_ : Unit) => K) q.1.2 q.2) = vs.mapM K := by
    clear h h' hm hr hfr hmap hnd hv
    induction rids generalizing vs with
    | nil => cases vs <;> simp at hlen; rfl
    | cons r rids ih =>
      cases vs with
      | nil => simp at hlen
      | cons v vs =>
        simp only [List.map_cons, List.zip_cons_cons, List.mapM_cons]
        rw [ih vs (by simpa using hlen)]
  rw [← this]; exact hm

theorem np1_inplace_length (f : Rat → Rat → Rat) (a b r : Vec) (hok : a.length = b.length ∨ b.length = 1)
    (h : np1 f a b = .ok r) : r.length = a.length := by
  unfold np1 at h
  by_cases h1 : a.length = b.length
  · rw [if_pos h1] at h; simp only [Except.ok.injEq] at h; subst h; simp [h1]
  · have h3 : b.length = 1 := hok.resolve_left h1
    have h2 : ¬ a.length = 1 := by omega
    rw [if_neg h1, if_neg h2, if_pos h3] at h
    simp only [Except.ok.injEq] at h; subst h; simp

theorem shapeOf_denseRows_eq (rows rows' : List SV) (h : rows'.map SV.size = rows.map SV.size) :
    shapeOf (denseRows rows') = shapeOf (denseRows rows) := by
  unfold shapeOf denseRows
  have hl : rows'.length = rows.length := by simpa using congrArg List.length h
  cases rows with
  | nil => cases rows' with
    | nil => rfl
    | cons _ _ => simp at hl
  | cons a rows => cases rows' with
    | nil => simp at hl
    | cons a' rows' =>
      simp only [List.map_cons, List.cons.injEq] at h
      have hl' : rows'.length = rows.length := by simpa using hl
      simp [SV.toDense_length, h.1, hl']

theorem np2i_single (f : Rat → Rat → Rat) (rows rows' : List SV) (y : Vec)
    (hsz : rows'.map SV.size = rows.map SV.size)
    (hd : (denseRows rows).mapM (fun r => np1 f r y) = .ok (denseRows rows')) :
    np2i f (denseRows rows) [y] = .ok (denseRows rows') := by
  unfold np2i
  rw [np2_single, hd]
  simp [shapeOf_denseRows_eq rows rows' hsz]

/-- the in-place kernel of a float row with a float operand: NumPy's row, same size, still well formed -/
theorem irow_hom_sparse (op : BinOp) (ar : Arith) (hop : arithOf op = some ar) (a b : SV) (r : VecObj)
    (ha : a.WF) (hb : b.WF) (hok : InplaceOK a.size b.size) (h : (VecObj.sv a).iopSparse op (.sv b) = .ok r) :
    ∃ c, r = .sv c ∧ c.WF ∧ c.size = a.size ∧ np1 op.fn a.toDense b.toDense = .ok c.toDense := by
  simp only [VecObj.iopSparse, hop, VecObj.toSV] at h
  obtain ⟨c, hc, e⟩ := except_map_ok h
  obtain ⟨h1, h2⟩ := dense_hom_arith_sparse ar true a b c ha hb hc
  refine ⟨c, e, h1, ?_, by rw [arithOf_fn op ar hop]; exact h2⟩
  have := np1_inplace_length _ _ _ _ (by simpa [SV.toDense_length, InplaceOK] using hok) h2
  simpa [SV.toDense_length] using this

theorem irow_hom_array (op : BinOp) (ar : Arith) (hop : arithOf op = some ar) (a : SV) (l : Vec) (r : VecObj)
    (ha : a.WF) (hok : InplaceOK a.size l.length) (h : (VecObj.sv a).iopArray op l = .ok r) :
    ∃ c, r = .sv c ∧ c.WF ∧ c.size = a.size ∧ np1 op.fn a.toDense l = .ok c.toDense := by
  simp only [VecObj.iopArray, hop] at h
  obtain ⟨c, hc, e⟩ := except_map_ok h
  obtain ⟨h1, h2⟩ := dense_hom_arith_array ar a c l ha hc
  refine ⟨c, e, h1, ?_, by rw [arithOf_fn op ar hop]; exact h2⟩
  have := np1_inplace_length _ _ _ _ (by simpa [SV.toDense_length, InplaceOK] using hok) h2
  simpa [SV.toDense_length] using this

theorem irow_hom_scalar (op : BinOp) (ar : Arith) (hop : arithOf op = some ar) (a : SV) (x : Rat) (r : VecObj)
    (ha : a.WF) (h : (VecObj.sv a).iopScalar op x = .ok r) :
    ∃ c, r = .sv c ∧ c.WF ∧ c.size = a.size ∧ np1 op.fn a.toDense [x] = .ok c.toDense := by
  simp only [VecObj.iopScalar, hop] at h
  obtain ⟨c, hc, e⟩ := except_map_ok h
  obtain ⟨h1, h2⟩ := dense_hom_arith_scalar ar a c x ha hc
  refine ⟨c, e, h1, ?_, ?_⟩
  · have := congrArg List.length h2
    simpa [np1s, SV.toDense_length] using this
  · rw [np1_singleton, arithOf_fn op ar hop, h2]

theorem readOnly_svRows (rows : List SV) : (svRows rows).any (·.readOnly) = rows.any (·.readOnly) := by
  simp [svRows, List.any_map, Function.comp_def, VecObj.readOnly]

theorem isBoolObj_sv (s : Store) (j : Nat) (b : SV) (h : s[j]? = some (.sv b)) : s.isBoolObj j = false := by
  unfold Store.isBoolObj; rw [h]

theorem rowsVec_length {s : Store} {rids : List Nat} {vs : List VecObj} (h : s.rowsVec rids = some vs) : vs.length = rids.length := by
  unfold Store.rowsVec at h
  induction rids generalizing vs with
  | nil => simp [List.mapM_nil, pure] at h; subst h; rfl
  | cons r rids ih =>
    rw [option_mapM_cons] at h
    cases hg : s.getVec r with
    | none => rw [hg] at h; cases h
    | some v =>
      rw [hg] at h
      cases hr : rids.mapM s.getVec with
      | none => rw [hr] at h; cases h
      | some vr =>
        rw [hr] at h
        simp only [Option.bind, Option.some.injEq] at h; subst h
        simp [ih hr]

theorem map_fst_zip {α β : Type} (l : List α) (m : List β) (h : l.length = m.length) : (List.zip l m).map Prod.fst = l := by
  induction l generalizing m with
  | nil => rfl
  | cons a l ih =>
    cases m with
    | nil => simp at h
    | cons b m => simp [ih m (by simpa using h)]

theorem map_snd_zip {α β : Type} (l : List α) (m : List β) (h : l.length = m.length) : (List.zip l m).map Prod.snd = m := by
  induction l generalizing m with
  | nil => cases m <;> simp at h ⊢
  | cons a l ih =>
    cases m with
    | nil => simp at h
    | cons b m => simp [ih m (by simpa using h)]

theorem zip3_mem {α β γ : Type} : ∀ (l : List α) (m : List β) (r : List γ) (q : (α × β) × γ),
    q ∈ List.zip (List.zip l m) r → (q.2, q.1.2) ∈ List.zip r m := by
  intro l
  induction l with
  | nil => intro m r q h; simp at h
  | cons a l ih =>
    intro m r q h
    cases m with
    | nil => simp at h
    | cons b m =>
      cases r with
      | nil => simp at h
      | cons c r =>
        simp only [List.zip_cons_cons, List.mem_cons] at h ⊢
        rcases h with e | e
        · subst e; exact Or.inl rfl
        · exact Or.inr (ih m r q e)

/-- the step of the zipped SparseArray loop, with the operand row given -/
def stepPre (op : BinOp) (conv : VecObj → VecObj) (o : Option VecObj) (r : VecObj) : Except Err VecObj :=
  match o with
  | some ov => r.iopSparse op (conv ov)
  | none => .error .type

theorem updRow_stepPre (t : Store) (rid : Nat) (op : BinOp) (conv : VecObj → VecObj) (o : Option VecObj) :
    (match o with
      | some ov => updRow t rid (fun r => r.iopSparse op (conv ov))
      | none => Except.error Err.type) = updRow t rid (stepPre op conv o) := by
  cases o with
  | some ov => rfl
  | none =>
    unfold updRow stepPre
    cases t.getVec rid <;> rfl

/-- reading the operand rows from the running store or from the initial one is the same when they are
not among the rows being written -/
theorem foldlM_read_eq (s : Store) (R : List Nat) (op : BinOp) (conv : VecObj → VecObj) :
    ∀ (ps : List (Nat × Nat)) (t : Store), (∀ p ∈ ps, p.1 ∈ R ∧ p.2 ∉ R) → (∀ j, j ∉ R → t[j]? = s[j]?) →
      ps.foldlM (fun t p => match t.getVec p.2 with
        | some ov => updRow t p.1 (fun r => r.iopSparse op (conv ov))
        | none => Except.error Err.type) t =
      ps.foldlM (fun t p => updRow t p.1 (stepPre op conv (s.getVec p.2))) t := by
  intro ps
  induction ps with
  | nil => intro t _ _; rfl
  | cons p ps ih =>
    intro t hp ht
    rw [List.foldlM_cons, List.foldlM_cons]
    have hg : t.getVec p.2 = s.getVec p.2 := by
      unfold Store.getVec; rw [ht p.2 (hp p List.mem_cons_self).2]
    rw [hg, updRow_stepPre]
    cases hu : updRow t p.1 (stepPre op conv (s.getVec p.2)) with
    | error e => rfl
    | ok t1 =>
      simp only [bind, Except.bind]
      apply ih t1 (fun q hq => hp q (List.mem_cons_of_mem _ hq))
      intro j hj
      have := (updRow_frame p.1 _ hu).2 j (by intro e; subst e; exact hj (hp p List.mem_cons_self).1)
      rw [this, ht j hj]

theorem rowsVec_zip_getVec (s : Store) : ∀ (orows : List Nat) (ors : List VecObj), s.rowsVec orows = some ors →
    orows.map s.getVec = ors.map some := by
  intro orows
  induction orows with
  | nil => intro ors h; simp [Store.rowsVec, List.mapM_nil, pure] at h; subst h; rfl
  | cons o orows ih =>
    intro ors h
    rw [rowsVec_cons] at h
    cases hg : s.getVec o with
    | none => rw [hg] at h; cases h
    | some v =>
      rw [hg] at h
      cases hr : s.rowsVec orows with
      | none => rw [hr] at h; cases h
      | some vr =>
        rw [hr] at h
        simp only [Option.bind, Option.some.injEq] at h; subst h
        simp [hg, ih vr hr]

theorem guard_zip : ∀ (ps : List (Nat × Option VecObj)) (ors rows : List SV),
    ps.map Prod.snd = ors.map (fun b => some (VecObj.sv b)) →
    ∀ q ∈ List.zip ps rows, ∃ b, q.1.2 = some (.sv b) ∧ (q.2, b) ∈ List.zip rows ors := by
  intro ps
  induction ps with
  | nil => intro ors rows _ q hq; simp at hq
  | cons p ps ih =>
    intro ors rows h q hq
    cases ors with
    | nil => simp at h
    | cons b ors =>
      cases rows with
      | nil => simp at hq
      | cons a rows =>
        simp only [List.map_cons, List.cons.injEq] at h
        simp only [List.zip_cons_cons, List.mem_cons] at hq ⊢
        rcases hq with e | e
        · subst e; exact ⟨b, h.1, Or.inl rfl⟩
        · obtain ⟨b', h1, h2⟩ := ih ors rows h.2 q e
          exact ⟨b', h1, Or.inr h2⟩

def slvRows (rows : List SLV) : List VecObj := rows.map VecObj.slv

def denseRowsB (rows : List SLV) : Mat := rows.map SLV.toDense

/-- the operators of a boolean array that NumPy defines on boolean arrays -/
def LogicOp (op : BinOp) (l : LOp) : Prop := lopOf op = some l ∧ l ≠ .truediv ∧ cmpOf op = none

theorem logic_fn (op : BinOp) (l : LOp) (h : LogicOp op l) : op.fnBool = (lopBin l).fnBool := by
  obtain ⟨h1, h2, _⟩ := h
  cases op <;> simp [lopOf] at h1 <;> subst h1 <;> first | rfl | exact absurd rfl h2

theorem rowb_hom_sparse (op : BinOp) (l : LOp) (hl : LogicOp op l) (a b : SLV) (r : VecObj)
    (ha : SLVWF a) (hb : SLVWF b) (h : (VecObj.slv a).opSparse op (.slv b) = .ok r) :
    VecWF r ∧ np1 op.fnBool a.toDense b.toDense = .ok r.toDense := by
  simp only [VecObj.opSparse, hl.2.2, hl.1] at h
  obtain ⟨c, hc, e⟩ := except_map_ok h; subst e
  have := dense_hom_logical_sparse l hl.2.1 a.copy b c (slv_copy_wf ha) hb hc
  rw [logic_fn op l hl]
  exact ⟨this.1, this.2⟩

theorem rowsBool_slvRows (rows : List SLV) (hne : rows ≠ []) : rowsBool (slvRows rows) = true := by
  cases rows with
  | nil => exact absurd rfl hne
  | cons a rows => rfl

theorem coerce_bool (v : VecObj) (me : Bool) : coerce true true v me = v := by
  unfold coerce; cases me <;> simp

theorem map_coerce_bool (l : List VecObj) (me : Bool) : l.map (fun r => coerce true true r me) = l := by
  induction l with
  | nil => rfl
  | cons a l ih => simp [coerce_bool, ih]

/-- `any` of a logical vector -/
theorem slv_dense_any (a : SLV) (ha : SLVWF a) : redVec .any a.toDense = .ok (b2r a.any) := by
  simp only [redVec, SLV.any]
  congr 2
  rw [slv_toDense_eq]
  unfold vecOf
  rw [Bool.eq_iff_iff]
  simp only [List.any_map, List.any_eq_true, List.mem_range, Function.comp, bne_iff_ne, Bool.not_eq_true',
    List.isEmpty_eq_false_iff]
  constructor
  · rintro ⟨i, _, hne⟩ he
    apply hne
    simp [SLV.mem, he, b2r]
  · intro hne
    match hd : a.set with
    | [] => exact absurd hd hne
    | k :: r =>
      have hk : k ∈ a.set := by rw [hd]; exact List.mem_cons_self
      refine ⟨k, ha.2 k hk, ?_⟩
      have : a.mem k = true := by simp only [SLV.mem, List.contains_eq_mem, decide_eq_true_eq]; exact hk
      rw [this]; decide

/-- `all` of a logical vector (`len(set) == size`) -/
theorem slv_dense_all (a : SLV) (ha : SLVWF a) : redVec .all a.toDense = .ok (b2r a.allTrue) := by
  simp only [redVec, SLV.allTrue]
  congr 2
  rw [slv_toDense_eq]
  unfold vecOf
  rw [Bool.eq_iff_iff]
  simp only [List.all_map, List.all_eq_true, List.mem_range, Function.comp, bne_iff_ne, beq_iff_eq]
  have hsub : ∀ x ∈ a.set, x ∈ List.range a.size := fun x hx => List.mem_range.mpr (ha.2 x hx)
  have hmem : ∀ i, b2r (a.mem i) ≠ 0 ↔ i ∈ a.set := by
    intro i
    unfold SLV.mem
    by_cases h : i ∈ a.set
    · simp [h, b2r]
    · simp [h, b2r]
  constructor
  · intro hall
    have h1 := nodup_subset_length_le _ _ ha.1 hsub
    have h2 : ∀ x ∈ List.range a.size, x ∈ a.set := fun x hx => (hmem x).mp (hall x (List.mem_range.mp hx))
    have h3 := nodup_subset_length_le _ _ List.nodup_range h2
    simp only [List.length_range] at h1 h3
    omega
  · intro hlen i hi
    rw [hmem]
    by_contra hni
    have hsub' : ∀ x ∈ a.set, x ∈ (List.range a.size).erase i := by
      intro x hx
      have hxi : x ≠ i := by intro e; subst e; exact hni hx
      exact (List.mem_erase_of_ne hxi).mpr (hsub x hx)
    have := nodup_subset_length_le _ _ ha.1 hsub'
    rw [List.length_erase_of_mem (List.mem_range.mpr hi)] at this
    simp only [List.length_range] at this
    omega

def pairSLV (rs os : List SLV) : List (SLV × SLV) :=
  match rs, os with
  | [r], _ => os.map (fun o => (r, o))
  | _, [o] => rs.map (fun r => (r, o))
  | _, _ => rs.zip os

theorem pairRows_slv (rs os : List SLV) :
    pairRows (slvRows rs) (slvRows os) = (pairSLV rs os).map (fun p => (VecObj.slv p.1, VecObj.slv p.2)) := by
  rcases rs with _ | ⟨r, _ | ⟨r2, rt⟩⟩ <;> rcases os with _ | ⟨o, _ | ⟨o2, ot⟩⟩ <;>
    simp [pairRows, pairSLV, slvRows, zipTrunc, List.zip_map, List.map_map, Function.comp_def]

theorem np2_pairSLV (f : Rat → Rat → Rat) (rs os : List SLV)
    (hshape : rs.length = os.length ∨ rs.length = 1 ∨ os.length = 1) :
    np2 f (denseRowsB rs) (denseRowsB os) =
      ((pairSLV rs os).map (fun p => (p.1.toDense, p.2.toDense))).mapM (fun p => np1 f p.1 p.2) := by
  rcases rs with _ | ⟨r, _ | ⟨r2, rt⟩⟩ <;> rcases os with _ | ⟨o, _ | ⟨o2, ot⟩⟩ <;>
    simp [np2, pairSLV, denseRowsB, List.zip_map, mapM_map, List.map_map, Function.comp_def] at hshape ⊢
  intro hn; exact absurd hshape hn

theorem pairSLV_mem (rs os : List SLV) (p : SLV × SLV) (h : p ∈ pairSLV rs os) : p.1 ∈ rs ∧ p.2 ∈ os := by
  unfold pairSLV at h
  split at h
  · obtain ⟨o, ho, e⟩ := List.mem_map.mp h; subst e; exact ⟨List.mem_singleton.mpr rfl, ho⟩
  · obtain ⟨r, hr, e⟩ := List.mem_map.mp h; subst e; exact ⟨hr, List.mem_singleton.mpr rfl⟩
  · exact ⟨(List.of_mem_zip h).1, (List.of_mem_zip h).2⟩

end ThermoVerif.Props.C09
