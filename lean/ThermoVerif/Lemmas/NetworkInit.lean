import ThermoVerif.Lemmas.NetworkWorld
/-
Unit construction (`initSeq`, `newUnit`).
-/
namespace ThermoVerif.Network

def Which.other : Which → Which | .i => .o | .o => .i

@[simp] theorem put_side_same (w : World) (k : Which) (sw : SW) : (w.put k sw).side k = sw.sd := by
  cases k <;> rfl
@[simp] theorem put_side_other (w : World) (k : Which) (sw : SW) :
    (w.put k sw).side k.other = w.side k.other := by cases k <;> rfl
@[simp] theorem put_nS (w : World) (k : Which) (sw : SW) : (w.put k sw).nS = sw.next := by
  cases k <;> rfl
@[simp] theorem put_nU (w : World) (k : Which) (sw : SW) : (w.put k sw).nU = w.nU := by
  cases k <;> rfl
@[simp] theorem put_real (w : World) (k : Which) (sw : SW) : (w.put k sw).real = w.real := by
  cases k <;> rfl
@[simp] theorem put_pre (w : World) (k : Which) (sw : SW) : (w.put k sw).pre = sw.pre := by
  cases k <;> rfl

/-- Invariant of the construction loops on side `k` for the unit `u` being built; `acc` is the
list of objects docked at `u` so far.  While a fixed-size list is being loaded, the port list of
`u` holds the placeholders created up front (distinct, pointing at `u`, disjoint from `acc`);
otherwise it is empty. -/
structure PInv (nU : Nat) (w : World) (k : Which) (u : Nat) (acc : List Nat) : Prop where
  sc : Sc nU (w.get k)
  off : ∀ v, v ≠ u → CntAt All (w.get k) v
  fxo : ∀ v, v ≠ u → (w.side k).fixed v = true → ((w.side k).lst v).length = (w.side k).size v
  acc_cnt : ∀ t, t ∉ (w.side k).lst u → acc.count t = if (w.side k).loc t = some u then 1 else 0
  acc_lt : ∀ x ∈ acc, x < w.nS
  junk_nodup : ((w.side k).lst u).Nodup
  junk_loc : ∀ x ∈ (w.side k).lst u, (w.side k).loc x = some u
  junk_acc : ∀ x ∈ (w.side k).lst u, x ∉ acc

structure LoopExt (w w' : World) (k : Which) (u : Nat) : Prop where
  pre : w'.pre = w.pre
  nS : w.nS ≤ w'.nS
  nU : w'.nU = w.nU
  nreal : (∀ s, w.nS ≤ s → w.real s = false) → (∀ s, w'.nS ≤ s → w'.real s = false)
  real_old : ∀ s, s < w.nS → w'.real s = w.real s
  other : w'.side k.other = w.side k.other
  fixed : (w'.side k).fixed = (w.side k).fixed
  size : (w'.side k).size = (w.side k).size
  lst_u : (w'.side k).lst u = (w.side k).lst u

theorem LoopExt.refl (w : World) (k : Which) (u : Nat) : LoopExt w w k u :=
  ⟨rfl, Nat.le_refl _, rfl, id, fun _ _ => rfl, rfl, rfl, rfl, rfl⟩

theorem LoopExt.trans {a b c : World} {k : Which} {u : Nat} (h1 : LoopExt a b k u)
    (h2 : LoopExt b c k u) : LoopExt a c k u :=
  ⟨h2.pre.trans h1.pre, Nat.le_trans h1.nS h2.nS, h2.nU.trans h1.nU,
   fun h => h2.nreal (h1.nreal h),
   fun s hs => (h2.real_old s (Nat.lt_of_lt_of_le hs h1.nS)).trans (h1.real_old s hs),
   h2.other.trans h1.other, h2.fixed.trans h1.fixed, h2.size.trans h1.size, h2.lst_u.trans h1.lst_u⟩

/-- `dock(Stream())`: a new stream docked at `u`. -/
def World.dockNew (w : World) (k : Which) (u : Nat) : World :=
  w.newStream.1.put k ((w.newStream.1.get k).dock u w.newStream.2)

theorem dockNew_ext (w : World) (k : Which) (u : Nat) : LoopExt w (w.dockNew k u) k u := by
  cases k <;>
  exact ⟨rfl, Nat.le_succ _, rfl, fun h s hs => by
    have h1 : w.nS + 1 ≤ s := hs
    have := h s (by omega)
    have h2 : s ≠ w.nS := by omega
    simp only [World.dockNew, World.newStream, World.put, h2, if_false]; exact this,
    fun s hs => by
      have : s ≠ w.nS := by omega
      simp [World.dockNew, World.newStream, World.put, this],
    rfl, rfl, rfl, rfl⟩

theorem dockNew_pinv {nU : Nat} {w : World} {k : Which} {u : Nat} {acc : List Nat}
    (h : PInv nU w k u acc) (hu : u < nU) : PInv nU (w.dockNew k u) k u (w.nS :: acc) := by
  have hln := h.sc.loc_none
  have hlt := h.sc.lst_lt
  have hll := h.sc.loc_lt
  have hoff := h.off
  have hacc := h.acc_cnt
  have hacclt := h.acc_lt
  have hjl := h.junk_loc
  have hja := h.junk_acc
  have hjn := h.junk_nodup
  cases k <;>
  · simp only [World.get, World.side, CntAt] at hln hlt hll hoff hacc hacclt hjl hja hjn
    constructor
    · constructor <;> simp only [World.dockNew, World.newStream, World.put, World.get, SW.dock, Side.setLoc]
      · intro v x hx; have := hlt v x hx; omega
      · intro x hx; have := hln x; grind
      · exact h.sc.lst_nil
      · exact h.sc.fixed_false
      · intro x v; have := hll x v; grind
    · intro v hv t _
      simp only [World.dockNew, World.newStream, World.put, World.get, SW.dock, Side.setLoc]
      by_cases htn : t = w.nS
      · subst htn
        have : w.nS ∉ _ := fun hm => Nat.lt_irrefl _ (hlt v w.nS hm)
        rw [List.count_eq_zero.mpr this]
        simp; exact fun h => hv h.symm
      · simp only [htn, if_false]
        exact hoff v hv t trivial
    · exact h.fxo
    · intro t
      simp only [World.dockNew, World.newStream, World.put, World.side, World.get, SW.dock, Side.setLoc]
      intro ht
      by_cases htn : t = w.nS
      · subst htn
        have : w.nS ∉ acc := fun hm => Nat.lt_irrefl _ (hacclt _ hm)
        simp [List.count_eq_zero.mpr this]
      · simp only [htn, if_false]
        have hc : List.count t (w.nS :: acc) = List.count t acc := by
          rw [List.count_cons]; simp; omega
        rw [hc]; exact hacc t ht
    · intro x hx
      simp only [List.mem_cons] at hx
      simp only [World.dockNew, World.newStream, World.put, World.get, SW.dock]
      rcases hx with rfl | hx
      · omega
      · have := hacclt x hx; omega
    · simpa [World.dockNew, World.newStream, World.put, World.side, World.get, SW.dock, Side.setLoc]
        using hjn
    · intro x
      simp only [World.dockNew, World.newStream, World.put, World.side, World.get, SW.dock, Side.setLoc]
      intro hx
      have := hlt u x hx
      have : x ≠ w.nS := by omega
      simp only [this, if_false]; exact hjl x hx
    · intro x
      simp only [World.dockNew, World.newStream, World.put, World.side, World.get, SW.dock, Side.setLoc,
        List.mem_cons, not_or]
      intro hx
      have := hlt u x hx
      exact ⟨by omega, hja x hx⟩

theorem put_get (w : World) (k : Which) (sw : SW) : (w.put k sw).get k = sw := by
  cases sw; cases k <;> rfl

@[simp] theorem get_next' (w : World) (k : Which) : (w.get k).next = w.nS := get_next w k

theorem put_ext {w : World} {k : Which} {u : Nat} {sw : SW} (hpre : sw.pre = w.pre)
    (hnext : w.nS ≤ sw.next) (hfixed : sw.sd.fixed = (w.side k).fixed)
    (hsize : sw.sd.size = (w.side k).size) (hlu : sw.sd.lst u = (w.side k).lst u) :
    LoopExt w (w.put k sw) k u :=
  ⟨by simpa using hpre, by simpa using hnext, by simp,
   fun h s hs => by simp only [put_nS, put_real] at hs ⊢; exact h s (Nat.le_trans hnext hs),
   fun _ _ => by simp,
   by simp, by simpa using hfixed, by simpa using hsize, by simpa using hlu⟩

theorem redockPut_pinv {nU : Nat} {w : World} {k : Which} {u s : Nat} {acc : List Nat} {sw1 : SW}
    (h : PInv nU w k u acc) (hs : s < w.nS) (hu : u < nU)
    (hnd : (w.side k).loc s ≠ some u) (hsJ : s ∉ (w.side k).lst u)
    (hr : (w.get k).redock u s = .ok sw1) :
    PInv nU (w.put k sw1) k u (s :: acc) ∧ LoopExt w (w.put k sw1) k u ∧
      (∀ t, t < w.nS → t ≠ s → ((w.put k sw1).side k).loc t = (w.side k).loc t) := by
  have R := redock_spec h.sc (by simpa using hs) hu hr
  have hfixed : sw1.sd.fixed = (w.side k).fixed := by simpa using R.ext.fixed
  have hsize : sw1.sd.size = (w.side k).size := by simpa using R.ext.size
  have hnext : w.nS ≤ sw1.next := by simpa using R.ext.next
  have hlen : ∀ v, (sw1.sd.lst v).length = ((w.side k).lst v).length := by simpa using R.len
  have hlu : sw1.sd.lst u = (w.side k).lst u := by simpa using R.lst_u
  have hlo : ∀ t, t < w.nS → t ≠ s → sw1.sd.loc t = (w.side k).loc t := by
    simpa using R.loc_other
  have hln : ∀ t, w.nS ≤ t → sw1.sd.loc t ≠ some u := by simpa using R.loc_new
  have hJlt : ∀ x ∈ (w.side k).lst u, x < w.nS := by
    intro x hx; simpa using h.sc.lst_lt u x (by simpa using hx)
  refine ⟨⟨?_, ?_, ?_, ?_, ?_, ?_, ?_, ?_⟩, put_ext (by simpa using R.pre_eq) hnext hfixed hsize hlu, ?_⟩
  · rw [put_get]; exact R.sc
  · rw [put_get]; exact R.cntOff All h.off
  · intro v hv hf
    simp only [put_side_same] at hf ⊢
    rw [hfixed] at hf
    rw [hlen, hsize]; exact h.fxo v hv hf
  · intro t ht
    simp only [put_side_same] at ht ⊢
    rw [hlu] at ht
    by_cases hts : t = s
    · subst hts
      have h0 := h.acc_cnt t ht
      rw [if_neg hnd] at h0
      rw [R.loc_s, List.count_cons, h0]; simp
    · have hc : List.count t (s :: acc) = List.count t acc := by
        rw [List.count_cons]
        have : (s == t) = false := by simp; exact fun h => hts h.symm
        simp [this]
      rw [hc]
      by_cases htn : t < w.nS
      · rw [hlo t htn hts]; exact h.acc_cnt t ht
      · have h1 : t ∉ acc := fun hm => htn (h.acc_lt t hm)
        rw [List.count_eq_zero.mpr h1, if_neg (hln t (by omega))]
  · intro x hx
    simp only [List.mem_cons] at hx
    simp only [put_nS]
    rcases hx with rfl | hx
    · omega
    · have := h.acc_lt x hx; omega
  · simp only [put_side_same]; rw [hlu]; exact h.junk_nodup
  · intro x hx
    simp only [put_side_same] at hx ⊢
    rw [hlu] at hx
    rw [hlo x (hJlt x hx) (fun hxs => hsJ (hxs ▸ hx))]
    exact h.junk_loc x hx
  · intro x hx
    simp only [put_side_same] at hx
    rw [hlu] at hx
    simp only [List.mem_cons, not_or]
    exact ⟨fun hxs => hsJ (hxs ▸ hx), h.junk_acc x hx⟩
  · simpa using hlo

theorem missingPut_pinv {nU : Nat} {w : World} {k : Which} {u : Nat} {acc : List Nat}
    (h : PInv nU w k u acc) (hu : u < nU) :
    PInv nU (w.put k ((w.get k).newMissing u).1) k u (w.nS :: acc) ∧
      LoopExt w (w.put k ((w.get k).newMissing u).1) k u := by
  have hJlt : ∀ x ∈ (w.side k).lst u, x < w.nS := by
    intro x hx; simpa using h.sc.lst_lt u x (by simpa using hx)
  refine ⟨⟨?_, ?_, ?_, ?_, ?_, ?_, ?_, ?_⟩,
    put_ext (by simp [SW.newMissing]) (by simp) (by simp [SW.newMissing, Side.setLoc])
      (by simp [SW.newMissing, Side.setLoc]) (by simp [SW.newMissing, Side.setLoc])⟩
  · rw [put_get]; exact h.sc.newMissing hu
  · rw [put_get]
    intro v hv t _
    by_cases htn : t = w.nS
    · subst htn
      have : w.nS ∉ (w.side k).lst v := fun hm => by
        have := h.sc.lst_lt v w.nS (by simpa using hm); simp at this
      simp only [newMissing_lst, get_sd, List.count_eq_zero.mpr this]
      have := newMissing_loc (w.get k) u
      simp only [get_next] at this
      rw [this]; simp; exact fun h => hv h.symm
    · have := (h.off v hv).newMissing (u := u) t ⟨trivial, by simpa using htn⟩
      exact this
  · intro v hv hf
    simp only [put_side_same, SW.newMissing, Side.setLoc, get_sd] at hf ⊢
    exact h.fxo v hv hf
  · intro t ht
    simp only [put_side_same, SW.newMissing, Side.setLoc, get_sd, get_next] at ht ⊢
    by_cases htn : t = w.nS
    · subst htn
      have : w.nS ∉ acc := fun hm => Nat.lt_irrefl _ (h.acc_lt _ hm)
      simp [List.count_eq_zero.mpr this]
    · simp only [htn, if_false]
      rw [← h.acc_cnt t ht, List.count_cons]
      have : (w.nS == t) = false := by simp; exact fun h => htn h.symm
      simp [this]
  · intro x hx
    simp only [List.mem_cons] at hx
    simp only [put_nS, newMissing_next, get_next]
    rcases hx with rfl | hx
    · omega
    · have := h.acc_lt x hx; omega
  · simpa [SW.newMissing, Side.setLoc] using h.junk_nodup
  · intro x hx
    simp only [put_side_same, SW.newMissing, Side.setLoc, get_sd, get_next] at hx ⊢
    have : x ≠ w.nS := by have := hJlt x hx; omega
    simp only [this, if_false]; exact h.junk_loc x hx
  · intro x hx
    simp only [put_side_same, SW.newMissing, Side.setLoc, get_sd] at hx
    simp only [List.mem_cons, not_or]
    exact ⟨by have := hJlt x hx; omega, h.junk_acc x hx⟩

theorem dockNew_loc (w : World) (k : Which) (u t : Nat) (ht : t < w.nS) :
    ((w.dockNew k u).side k).loc t = (w.side k).loc t := by
  have : t ≠ w.nS := by omega
  cases k <;> simp [World.dockNew, World.newStream, World.put, World.get, World.side, SW.dock,
    Side.setLoc, this]

theorem missingPut_loc (w : World) (k : Which) (u t : Nat) (ht : t < w.nS) :
    ((w.put k ((w.get k).newMissing u).1).side k).loc t = (w.side k).loc t := by
  have : t ≠ w.nS := by omega
  simp [SW.newMissing, Side.setLoc, this]

theorem freshStreams_spec {nU : Nat} {w : World} {k : Which} {u : Nat} {acc : List Nat} (j : Nat)
    (h : PInv nU w k u acc) (hu : u < nU) :
    ∃ acc', (w.freshStreams k u acc j).2 = acc'.reverse ∧
      PInv nU (w.freshStreams k u acc j).1 k u acc' ∧ acc'.length = acc.length + j ∧
      LoopExt w (w.freshStreams k u acc j).1 k u := by
  induction j generalizing w acc with
  | zero => exact ⟨acc, rfl, h, rfl, LoopExt.refl _ _ _⟩
  | succ j ih =>
    have heq : w.freshStreams k u acc (j + 1) = (w.dockNew k u).freshStreams k u (w.nS :: acc) j := rfl
    rw [heq]
    obtain ⟨acc', h1, h2, h3, h4⟩ := ih (dockNew_pinv h hu)
    exact ⟨acc', h1, h2, by rw [h3]; simp; omega, (dockNew_ext w k u).trans h4⟩

/-- The stream objects among the items. -/
def givens : List Item → List Nat
  | [] => []
  | .strm s :: r => s :: givens r
  | .new :: r => givens r
  | .none :: r => givens r

theorem filterMap_givens (f : Item → Option Nat) (h1 : ∀ s, f (.strm s) = some s)
    (h2 : f .new = none) (h3 : f .none = none) (l : List Item) : l.filterMap f = givens l := by
  induction l with
  | nil => rfl
  | cons a l ih => cases a <;> simp [givens, h1, h2, h3, ih]

theorem loop_transfer {w w' : World} {k : Which} {u x : Nat} {g : List Nat}
    (E : LoopExt w w' k u)
    (hk : ∀ t, t < w.nS → t ≠ x → (w'.side k).loc t = (w.side k).loc t)
    (hb : ∀ s ∈ g, s < w.nS)
    (hfresh : ∀ s ∈ g, (w.side k).loc s ≠ some u)
    (hgJ : ∀ s ∈ g, s ∉ (w.side k).lst u)
    (hx : ∀ s ∈ g, s ≠ x) :
    (∀ s ∈ g, s < w'.nS) ∧ (∀ s ∈ g, (w'.side k).loc s ≠ some u) ∧
      (∀ s ∈ g, s ∉ (w'.side k).lst u) := by
  refine ⟨fun s hs => Nat.lt_of_lt_of_le (hb s hs) E.nS, fun s hs => ?_, fun s hs => ?_⟩
  · rw [hk s (hb s hs) (hx s hs)]
    exact hfresh s hs
  · rw [E.lst_u]; exact hgJ s hs

theorem loadItems_spec {nU : Nat} {w w' : World} {k : Which} {u : Nat} {fx : Bool}
    {acc ss : List Nat} {l : List Item}
    (h : PInv nU w k u acc) (hu : u < nU)
    (hb : ∀ s ∈ givens l, s < w.nS) (hnd : (givens l).Nodup)
    (hfresh : ∀ s ∈ givens l, (w.side k).loc s ≠ some u)
    (hgJ : ∀ s ∈ givens l, s ∉ (w.side k).lst u)
    (hl : w.loadItems k u fx acc l = .ok (w', ss)) :
    ∃ acc', ss = acc'.reverse ∧ PInv nU w' k u acc' ∧ acc'.length = acc.length + l.length ∧
      LoopExt w w' k u := by
  induction l generalizing w acc with
  | nil =>
    simp only [World.loadItems] at hl
    cases hl
    exact ⟨acc, rfl, h, rfl, LoopExt.refl _ _ _⟩
  | cons it r ih =>
    have fin : ∀ (w1 : World) (x : Nat), PInv nU w1 k u (x :: acc) → LoopExt w w1 k u →
        (∀ t, t < w.nS → t ≠ x → (w1.side k).loc t = (w.side k).loc t) →
        (∀ s ∈ givens r, s < w.nS) → (givens r).Nodup →
        (∀ s ∈ givens r, (w.side k).loc s ≠ some u) →
        (∀ s ∈ givens r, s ∉ (w.side k).lst u) →
        (∀ s ∈ givens r, s ≠ x) →
        w1.loadItems k u fx (x :: acc) r = .ok (w', ss) →
        ∃ acc', ss = acc'.reverse ∧ PInv nU w' k u acc' ∧
          acc'.length = acc.length + (it :: r).length ∧ LoopExt w w' k u := by
      intro w1 x hP hE hk hb' hnd' hfr' hgJ' hx' hl'
      obtain ⟨a1, a2, a3⟩ := loop_transfer hE hk hb' hfr' hgJ' hx'
      obtain ⟨acc', b1, b2, b3, b4⟩ := ih hP a1 hnd' a2 a3 hl'
      exact ⟨acc', b1, b2, by rw [b3]; simp; omega, hE.trans b4⟩
    have hnew : ∀ (hr : givens (it :: r) = givens r),
        (w.dockNew k u).loadItems k u fx (w.nS :: acc) r = .ok (w', ss) →
        ∃ acc', ss = acc'.reverse ∧ PInv nU w' k u acc' ∧
          acc'.length = acc.length + (it :: r).length ∧ LoopExt w w' k u := by
      intro hr hl'
      rw [hr] at hb hnd hfresh hgJ
      exact fin _ _ (dockNew_pinv h hu) (dockNew_ext w k u)
        (fun t ht _ => dockNew_loc w k u t ht) hb hnd hfresh hgJ
        (fun s hs => Nat.ne_of_lt (hb s hs)) hl'
    cases it with
    | strm s =>
      simp only [World.loadItems] at hl
      obtain ⟨sw1, hr, hl⟩ := bind_ok.mp hl
      simp only [givens] at hb hnd hfresh hgJ
      have hs := hb s (by simp)
      obtain ⟨p1, p2, p3⟩ := redockPut_pinv h hs hu (hfresh s (by simp)) (hgJ s (by simp)) hr
      refine fin _ _ p1 p2 p3 (fun x hx => hb x (by simp [hx])) (List.nodup_cons.mp hnd).2
        (fun x hx => hfresh x (by simp [hx])) (fun x hx => hgJ x (by simp [hx])) ?_ hl
      intro x hx hxs
      subst hxs
      exact (List.nodup_cons.mp hnd).1 hx
    | new => exact hnew rfl hl
    | none =>
      cases fx with
      | true => exact hnew rfl hl
      | false =>
        simp only [givens] at hb hnd hfresh hgJ
        obtain ⟨p1, p2⟩ := missingPut_pinv h hu
        have hl' : (w.put k ((w.get k).newMissing u).1).loadItems k u false
            (((w.get k).newMissing u).2 :: acc) r = .ok (w', ss) := hl
        rw [newMissing_snd, get_next] at hl'
        replace hl := hl'
        exact fin _ _ p1 p2 (fun t ht _ => missingPut_loc w k u t ht) hb hnd hfresh hgJ
          (fun s hs => Nat.ne_of_lt (hb s hs)) hl

/-! ## `initSeq` -/

/-- Registration of size and fixedness of the new port list. -/
def World.register (w : World) (k : Which) (u n : Nat) (fx : Bool) : World :=
  w.put k { (w.get k) with sd := { (w.get k).sd with
    fixed := fun x => if x = u then fx else (w.get k).sd.fixed x
    size := fun x => if x = u then n else (w.get k).sd.size x } }

/-- Rebinding of the port list of `u` on side `k`. -/
def World.bindLst (w : World) (k : Which) (u : Nat) (L : List Nat) : World :=
  w.put k { (w.get k) with sd := (w.get k).sd.setLst u L }

structure InitSpec (w w' : World) (k : Which) (u : Nat) : Prop where
  pre : w'.pre = true → w.pre = true
  nS : w.nS ≤ w'.nS
  nU : w'.nU = w.nU
  nreal : (∀ s, w.nS ≤ s → w.real s = false) → (∀ s, w'.nS ≤ s → w'.real s = false)
  real_old : ∀ s, s < w.nS → w'.real s = w.real s
  other : w'.side k.other = w.side k.other
  /-- fixedness and size of the port lists of every unit other than the one being built are untouched -/
  fx : ∀ v, v ≠ u → (w'.side k).fixed v = (w.side k).fixed v ∧ (w'.side k).size v = (w.side k).size v

theorem InitSpec.trans {a b c : World} {k : Which} {u : Nat} (h1 : InitSpec a b k u) (h2 : InitSpec b c k u) :
    InitSpec a c k u :=
  ⟨fun h => h1.pre (h2.pre h), Nat.le_trans h1.nS h2.nS, h2.nU.trans h1.nU,
   fun h => h2.nreal (h1.nreal h),
   fun s hs => (h2.real_old s (Nat.lt_of_lt_of_le hs h1.nS)).trans (h1.real_old s hs),
   h2.other.trans h1.other,
   fun v hv => ⟨(h2.fx v hv).1.trans (h1.fx v hv).1, (h2.fx v hv).2.trans (h1.fx v hv).2⟩⟩

theorem LoopExt.toInit {a b : World} {k : Which} {u : Nat} (h : LoopExt a b k u) : InitSpec a b k u :=
  ⟨fun hp => h.pre ▸ hp, h.nS, h.nU, h.nreal, h.real_old, h.other,
   fun v _ => ⟨by rw [h.fixed], by rw [h.size]⟩⟩

theorem register_init (w : World) (k : Which) (u n : Nat) (fx : Bool) :
    InitSpec w (w.register k u n fx) k u :=
  ⟨by simp [World.register], by simp [World.register], by simp [World.register],
   by simp [World.register], by simp [World.register], by simp [World.register],
   fun v hv => by simp [World.register, hv]⟩

theorem bindLst_init (w : World) (k : Which) (u : Nat) (L : List Nat) :
    InitSpec w (w.bindLst k u L) k u :=
  ⟨by simp [World.bindLst], by simp [World.bindLst], by simp [World.bindLst],
   by simp [World.bindLst], by simp [World.bindLst], by simp [World.bindLst],
   fun v _ => by simp [World.bindLst]⟩

theorem register_pinv {nU : Nat} {w : World} {k : Which} {u n : Nat} {fx : Bool}
    (h : SInv u All (w.get k)) (hu : u < nU) :
    PInv nU (w.register k u n fx) k u [] ∧ ((w.register k u n fx).side k).fixed u = fx ∧
      ((w.register k u n fx).side k).size u = n ∧ ((w.register k u n fx).side k).lst u = [] := by
  have hlst := h.sc.lst_nil u (Nat.le_refl _)
  have hlst' : ((w.register k u n fx).side k).lst u = [] := by
    simpa [World.register] using hlst
  refine ⟨⟨?_, ?_, ?_, ?_, ?_, ?_, ?_, ?_⟩, ?_, ?_, hlst'⟩
  · simp only [World.register]
    rw [put_get]
    constructor
    · exact h.sc.lst_lt
    · exact h.sc.loc_none
    · intro v hv; exact h.sc.lst_nil v (by omega)
    · intro v hv
      have : v ≠ u := by omega
      simp only [this, if_false]
      exact h.sc.fixed_false v (by omega)
    · intro s v hs; have := h.sc.loc_lt s v hs; omega
  · intro v _
    simp only [World.register]
    rw [put_get]
    exact h.cnt v
  · intro v hv hf
    simp only [World.register, put_side_same, hv, if_false] at hf ⊢
    exact h.fx v hf
  · intro t _
    have : (w.side k).loc t ≠ some u := by
      intro hc
      have := h.sc.loc_lt t u (by simpa using hc)
      omega
    simp [World.register, this]
  · simp
  · rw [hlst']; exact List.nodup_nil
  · intro x hx; rw [hlst'] at hx; cases hx
  · intro x hx; rw [hlst'] at hx; cases hx
  · simp [World.register]
  · simp [World.register]

theorem PInv.setPre {nU : Nat} {w : World} {k : Which} {u : Nat} {acc : List Nat} (p : Bool)
    (h : PInv nU w k u acc) : PInv nU { w with pre := p } k u acc := by
  cases k <;>
  exact ⟨h.sc.of_eq rfl rfl, fun v hv => (h.off v hv).of_eq rfl, h.fxo, h.acc_cnt,
    h.acc_lt, h.junk_nodup, h.junk_loc, h.junk_acc⟩

/-- `_initialize_missing_streams()` of a list that is still empty: the `n` placeholders become the
(provisional) port list. -/
def World.junkInit (w : World) (k : Which) (u n : Nat) : World :=
  (w.put k ((w.get k).newMissings u n).1).bindLst k u ((w.get k).newMissings u n).2

theorem junkInit_side (w : World) (k : Which) (u n : Nat) :
    (w.junkInit k u n).side k =
      ((w.get k).newMissings u n).1.sd.setLst u ((w.get k).newMissings u n).2 := by
  simp [World.junkInit, World.bindLst, put_get]

theorem junkInit_init (w : World) (k : Which) (u n : Nat) : InitSpec w (w.junkInit k u n) k u := by
  have M := newMissings_spec (w.get k) u n
  refine ⟨fun hp => ?_, ?_, ?_, ?_, ?_, ?_, fun v _ => ?_⟩
  rotate_right
  · rw [junkInit_side, setLst_fixed, setLst_size, M.fixed, M.size]; simp
  · have : (w.junkInit k u n).pre = w.pre := by simpa [World.junkInit, World.bindLst] using M.pre_eq
    rw [← this]; exact hp
  · simp [World.junkInit, World.bindLst, M.next]
  · simp [World.junkInit, World.bindLst]
  · intro hn s hs
    simp only [World.junkInit, World.bindLst, put_nS, put_real, M.next, get_next] at hs ⊢
    exact hn s (by omega)
  · intro s _; simp [World.junkInit, World.bindLst]
  · simp [World.junkInit, World.bindLst]

theorem junkInit_pinv {nU : Nat} {w : World} {k : Which} {u : Nat} (n : Nat)
    (h : PInv nU w k u []) (hl : (w.side k).lst u = []) (hu : u < nU) :
    PInv nU (w.junkInit k u n) k u [] := by
  have M := newMissings_spec (w.get k) u n
  have hsd := junkInit_side w k u n
  have hget : (w.junkInit k u n).get k =
      { ((w.get k).newMissings u n).1 with
        sd := ((w.get k).newMissings u n).1.sd.setLst u ((w.get k).newMissings u n).2 } := by
    simp [World.junkInit, World.bindLst, put_get]
  refine ⟨?_, ?_, ?_, ?_, ?_, ?_, ?_, ?_⟩
  · rw [hget]
    exact (h.sc.newMissings hu n).setLst hu M.lt
  · rw [hget]
    intro v hv t _
    have := (h.off v hv).newMissings h.sc hv n t trivial
    show List.count t ((((w.get k).newMissings u n).1.sd.setLst u _).lst v) = _
    rw [setLst_lst_ne _ _ hv]; exact this
  · intro v hv hf
    rw [hsd] at hf ⊢
    rw [setLst_fixed, M.fixed] at hf
    rw [setLst_lst_ne _ _ hv, setLst_size, M.lst, M.size]
    simp only [get_sd] at hf ⊢
    exact h.fxo v hv hf
  · intro t ht
    rw [hsd] at ht ⊢
    rw [setLst_lst_same] at ht
    rw [setLst_loc, M.loc_eq, if_neg (fun hc => ht ((M.mem_iff t).mpr hc))]
    have := h.acc_cnt t (by rw [hl]; simp)
    simpa using this
  · intro x hx; cases hx
  · rw [hsd, setLst_lst_same]; exact M.nodup
  · intro x hx
    rw [hsd] at hx ⊢
    rw [setLst_lst_same] at hx
    rw [setLst_loc, M.loc_eq, if_pos ((M.mem_iff x).mp hx)]
  · intro x _; simp

theorem pinv_finish {nU : Nat} {w : World} {k : Which} {u : Nat} {acc L : List Nat}
    (h : PInv nU w k u acc) (hu : u < nU) (hL : ∀ x ∈ L, x < w.nS)
    (hc : ∀ t, L.count t = if (w.side k).loc t = some u then 1 else 0)
    (hf : (w.side k).fixed u = true → L.length = (w.side k).size u) :
    SInv nU All ((w.bindLst k u L).get k) := by
  simp only [World.bindLst]
  rw [put_get]
  apply SInv.setLst h.sc hu
  · simpa using hL
  · exact h.off
  · intro t _; simpa using hc t
  · simpa using h.fxo
  · simpa using hf

/-- with an empty provisional list, the objects docked so far are the final list -/
theorem pinv_finish_acc {nU : Nat} {w : World} {k : Which} {u : Nat} {acc : List Nat}
    (h : PInv nU w k u acc) (hu : u < nU) (hl : (w.side k).lst u = [])
    (hf : (w.side k).fixed u = true → acc.length = (w.side k).size u) :
    SInv nU All ((w.bindLst k u acc.reverse).get k) := by
  apply pinv_finish h hu
  · intro x hx; exact h.acc_lt x (by simpa using hx)
  · intro t; rw [List.count_reverse]; exact h.acc_cnt t (by rw [hl]; simp)
  · intro hx; rw [List.length_reverse]; exact hf hx

theorem put_bindLst (w : World) (k : Which) (sw1 : SW) (u : Nat) (L : List Nat) :
    w.put k { sw1 with sd := sw1.sd.setLst u L } = (w.put k sw1).bindLst k u L := by
  cases k <;> rfl

theorem put_init {w : World} {k : Which} {u : Nat} {sw : SW} (h : Ext (w.get k) sw) :
    InitSpec w (w.put k sw) k u :=
  ⟨fun hp => by simpa using h.pre (by simpa using hp), by simpa using h.next, by simp,
   fun hn s hs => by
     simp only [put_nS, put_real] at hs ⊢
     exact hn s (Nat.le_trans (by simpa using h.next) hs), fun _ _ => by simp, by simp,
   fun v _ => ⟨by simpa using congrFun h.fixed v, by simpa using congrFun h.size v⟩⟩

theorem InitSpec.refl (w : World) (k : Which) (u : Nat) : InitSpec w w k u :=
  ⟨id, Nat.le_refl _, rfl, id, fun _ _ => rfl, rfl, fun _ _ => ⟨rfl, rfl⟩⟩

theorem freshStreams_init (w : World) (k : Which) (u : Nat) (acc : List Nat) (j : Nat) :
    InitSpec w (w.freshStreams k u acc j).1 k u := by
  induction j generalizing w acc with
  | zero => exact InitSpec.refl _ _ _
  | succ j ih =>
    have heq : w.freshStreams k u acc (j + 1) = (w.dockNew k u).freshStreams k u (w.nS :: acc) j := rfl
    rw [heq]
    exact (dockNew_ext w k u).toInit.trans (ih _ _)

theorem loadItems_init {w w' : World} {k : Which} {u : Nat} {fx : Bool} {acc ss : List Nat}
    {l : List Item} (hl : w.loadItems k u fx acc l = .ok (w', ss)) : InitSpec w w' k u := by
  induction l generalizing w acc with
  | nil => simp only [World.loadItems] at hl; cases hl; exact InitSpec.refl _ _ _
  | cons it r ih =>
    have hnew : ∀ acc', (w.dockNew k u).loadItems k u fx acc' r = .ok (w', ss) → InitSpec w w' k u :=
      fun _ hl' => (dockNew_ext w k u).toInit.trans (ih hl')
    cases it with
    | strm s =>
      simp only [World.loadItems] at hl
      obtain ⟨sw1, hr, hl⟩ := bind_ok.mp hl
      exact (put_init (redock_ext hr).1).trans (ih hl)
    | new => exact hnew _ hl
    | none =>
      cases fx with
      | true => exact hnew _ hl
      | false =>
        have hl' : (w.put k ((w.get k).newMissing u).1).loadItems k u false
            (((w.get k).newMissing u).2 :: acc) r = .ok (w', ss) := hl
        exact (put_init (newMissing_ext _ u)).trans (ih hl')

theorem setPre_init (w : World) (k : Which) (u : Nat) (c : Bool) :
    InitSpec w { w with pre := w.pre && c } k u :=
  ⟨fun hp => by simp only [Bool.and_eq_true] at hp; exact hp.1, Nat.le_refl _, rfl,
   id, fun _ _ => rfl, by cases k <;> rfl, fun _ _ => by cases k <;> exact ⟨rfl, rfl⟩⟩

theorem initGiven_spec {nU : Nat} {wP w' : World} {k : Which} {u n : Nat} {fx : Bool}
    {l : List Item}
    (h : (if fx = true then
        if n < l.length then Except.error Err.fixedSize
        else
          ((wP.put k { ((wP.get k).newMissings u n).1 with
              sd := ((wP.get k).newMissings u n).1.sd.setLst u ((wP.get k).newMissings u n).2 }).loadItems
            k u true [] l) >>= fun x =>
              Except.ok (x.1.put k { ((x.1.get k).undockAll (((x.1.get k).sd.lst u).take x.2.length)) with
                sd := ((x.1.get k).undockAll (((x.1.get k).sd.lst u).take x.2.length)).sd.setLst u
                  (x.2 ++ List.drop x.2.length
                    (((x.1.get k).undockAll (((x.1.get k).sd.lst u).take x.2.length)).sd.lst u)) })
      else
        (wP.loadItems k u false [] l) >>= fun x =>
          Except.ok (x.1.put k { (x.1.get k) with sd := (x.1.get k).sd.setLst u x.2 })) =
      Except.ok w') :
    InitSpec wP w' k u ∧
    (PInv nU wP k u [] → (wP.side k).lst u = [] → (wP.side k).fixed u = fx → (wP.side k).size u = n →
      u < nU → (∀ s ∈ givens l, s < wP.nS) → (givens l).Nodup →
      (∀ s ∈ givens l, (wP.side k).loc s ≠ some u) →
      SInv nU All (w'.get k)) := by
  cases fx with
  | false =>
    simp only [Bool.false_eq_true, if_false] at h
    obtain ⟨⟨w1, ss⟩, hl, h⟩ := bind_ok.mp h
    have h' : Except.ok (w1.bindLst k u ss) = Except.ok w' := h
    cases h'
    refine ⟨(loadItems_init hl).trans (bindLst_init _ k u _), fun hP hlu hfx hsz hu hb hnd hfr => ?_⟩
    obtain ⟨acc', e1, hP', hlen, E⟩ := loadItems_spec hP hu hb hnd hfr
      (fun s _ => by rw [hlu]; simp) hl
    subst e1
    apply pinv_finish_acc hP' hu (by rw [E.lst_u]; exact hlu)
    intro hf; rw [E.fixed, hfx] at hf; cases hf
  | true =>
    simp only [if_true] at h
    split at h
    · cases h
    · rename_i hnl
      rw [put_bindLst] at h
      obtain ⟨⟨w1, ss⟩, hl, h⟩ := bind_ok.mp h
      simp only [undockAll_lst] at h
      cases h
      have hl' : (wP.junkInit k u n).loadItems k u true [] l = .ok (w1, ss) := hl
      have M := newMissings_spec (wP.get k) u n
      have Efin : Ext (w1.get k)
          { ((w1.get k).undockAll (((w1.get k).sd.lst u).take ss.length)) with
            sd := ((w1.get k).undockAll (((w1.get k).sd.lst u).take ss.length)).sd.setLst u
              (ss ++ List.drop ss.length ((w1.get k).sd.lst u)) } :=
        ⟨by simp, by simp, by simp, by simp⟩
      refine ⟨((junkInit_init wP k u n).trans (loadItems_init hl')).trans (put_init Efin),
        fun hP hlu hfx hsz hu hb hnd hfr => ?_⟩
      have hPJ := junkInit_pinv n hP hlu hu
      have hJI := junkInit_init wP k u n
      have hsd := junkInit_side wP k u n
      have hJlst : ((wP.junkInit k u n).side k).lst u = ((wP.get k).newMissings u n).2 := by
        rw [hsd, setLst_lst_same]
      obtain ⟨acc', e1, hP', hlen, E⟩ := loadItems_spec hPJ hu
        (fun s hs => Nat.lt_of_lt_of_le (hb s hs) hJI.nS) hnd
        (fun s hs => by
          rw [hsd, setLst_loc, M.loc_eq, if_neg (by have := hb s hs; simp only [get_next]; omega)]
          simpa using hfr s hs)
        (fun s hs hm => by
          rw [hJlst] at hm
          have := (M.mem_iff s).mp hm
          have := hb s hs
          simp only [get_next] at *
          omega) hl'
      subst e1
      have hlu1 : (w1.get k).sd.lst u = ((wP.get k).newMissings u n).2 := by
        simp only [get_sd]; rw [E.lst_u]; exact hJlst
      have hJn := hP'.junk_nodup
      have hJl := hP'.junk_loc
      have hJa := hP'.junk_acc
      have hAc := hP'.acc_cnt
      simp only [← get_sd] at hJn hJl hJa hAc
      rw [put_get]
      simp only [List.length_reverse]
      generalize hJ : (w1.get k).sd.lst u = J at *
      apply SInv.setLst (hP'.sc.undockAll _) hu
      · intro x hx
        simp only [undockAll_next]
        rcases List.mem_append.mp hx with hx | hx
        · simpa using hP'.acc_lt x (by simpa using hx)
        · exact hP'.sc.lst_lt u x (by rw [hJ]; exact List.mem_of_mem_drop hx)
      · exact cntOff_undockAll' hP'.off (fun x hx => hJl x (List.mem_of_mem_take hx))
      · intro t _
        rw [undockAll_loc, List.count_append, List.count_reverse]
        have hsplit : J.count t = (J.take acc'.length).count t + (J.drop acc'.length).count t := by
          conv => lhs; rw [← List.take_append_drop acc'.length J]
          rw [List.count_append]
        by_cases htJ : t ∈ J
        · have h1 : J.count t = 1 := by rw [hJn.count]; simp [htJ]
          have h2 : acc'.count t = 0 := List.count_eq_zero.mpr (hJa t htJ)
          have hloc := hJl t htJ
          by_cases hT : t ∈ J.take acc'.length
          · have := List.count_pos_iff.mpr hT
            rw [if_pos hT]; simp; omega
          · have := List.count_eq_zero.mpr hT
            rw [if_neg hT, hloc]; simp; omega
        · have h0 : (J.drop acc'.length).count t = 0 :=
            List.count_eq_zero.mpr (fun hm => htJ (List.mem_of_mem_drop hm))
          have hT : t ∉ J.take acc'.length := fun hm => htJ (List.mem_of_mem_take hm)
          rw [if_neg hT, h0]; simpa using hAc t htJ
      · intro v hv hf
        simp only [undockAll_fixed, undockAll_lst, undockAll_size, get_sd] at hf ⊢
        exact hP'.fxo v hv hf
      · intro _
        have hsz' : (w1.side k).size u = n := by
          rw [E.size, hsd, setLst_size, M.size]; simpa using hsz
        simp only [undockAll_size, get_sd, hsz']
        have hJlen : J.length = n := by rw [hlu1, M.len]
        rw [List.length_append, List.length_drop, hJlen, List.length_reverse, hlen]
        simp only [List.length_nil]
        omega

theorem initSeq_spec {nU : Nat} {w w' : World} {k : Which} {u n : Nat} {fx : Bool} {arg : PortsArg}
    (h : w.initSeq k u n fx arg = .ok w') :
    InitSpec w w' k u ∧
    (w'.pre = true → SInv u All (w.get k) → u < nU → (∀ s ∈ arg.ids, s < w.nS) →
      SInv nU All (w'.get k)) := by
  unfold World.initSeq at h
  dsimp only at h
  cases arg with
  | fresh =>
    have h' : Except.ok (((w.register k u n fx).freshStreams k u [] n).1.bindLst k u
        ((w.register k u n fx).freshStreams k u [] n).2) = Except.ok w' := h
    cases h'
    refine ⟨((register_init w k u n fx).trans (freshStreams_init _ k u [] n)).trans
      (bindLst_init _ k u _), fun _ hI hu _ => ?_⟩
    obtain ⟨hP, hfx, hsz, hlu⟩ := register_pinv (n := n) (fx := fx) hI hu
    obtain ⟨acc', e1, hP', hlen, E⟩ := freshStreams_spec n hP hu
    rw [e1]
    apply pinv_finish_acc hP' hu (by rw [E.lst_u]; exact hlu)
    intro _; rw [E.size, hsz, hlen]; simp
  | missing =>
    have h' : Except.ok ((w.register k u n fx).put k
        { (((w.register k u n fx).get k).newMissings u n).1 with
          sd := (((w.register k u n fx).get k).newMissings u n).1.sd.setLst u
            (((w.register k u n fx).get k).newMissings u n).2 }) = Except.ok w' := h
    rw [put_bindLst] at h'
    have h'' : (Except.ok ((w.register k u n fx).junkInit k u n) : Except Err World) = Except.ok w' := h'
    cases h''
    refine ⟨(register_init w k u n fx).trans (junkInit_init _ k u n), fun _ hI hu _ => ?_⟩
    obtain ⟨hP, hfx, hsz, hlu⟩ := register_pinv (n := n) (fx := fx) hI hu
    have M := newMissings_spec ((w.register k u n fx).get k) u n
    have := SInv.pad (n := n) (L := []) hP.sc hu (by simp) hP.off
      (by intro t; simpa using hP.acc_cnt t (by rw [hlu]; simp))
      (by simpa using hP.fxo) (by intro _; simpa using hsz.symm)
    simpa [World.junkInit, World.bindLst, put_get] using this
  | given l =>
    have G := initGiven_spec (nU := nU) h
    refine ⟨((register_init w k u n fx).trans ((setPre_init _ k u _).trans (setPre_init _ k u _))).trans G.1,
      fun hp hI hu hb => ?_⟩
    obtain ⟨hP, hfx, hsz, hlu⟩ := register_pinv (n := n) (fx := fx) hI hu
    have hpP := G.1.pre hp
    simp only [Bool.and_eq_true, decide_eq_true_eq] at hpP
    have hnd := hpP.1.2
    rw [filterMap_givens _ (fun _ => rfl) rfl rfl] at hnd
    simp only [PortsArg.ids] at hb
    rw [filterMap_givens _ (fun _ => rfl) rfl rfl] at hb
    apply G.2 (hP.setPre _) (by cases k <;> exact hlu) hfx hsz hu
    · simpa [World.register] using hb
    · exact hnd
    · intro s _ hc
      have hc' : (w.side k).loc s = some u := by cases k <;> exact hc
      have := hI.sc.loc_lt s u (by simpa using hc')
      omega

  | single it =>
    have h' : (if (fx && n == 0) = true then Except.error Err.indexError
        else (w.register k u n fx).loadGiven k u n fx [it]) = Except.ok w' := h
    clear h
    split at h'
    · cases h'
    · have G := initGiven_spec (nU := nU) h'
      refine ⟨(register_init w k u n fx).trans G.1, fun hp hI hu hb => ?_⟩
      obtain ⟨hP, hfx, hsz, hlu⟩ := register_pinv (n := n) (fx := fx) hI hu
      have hg : ∀ s ∈ givens [it], s ∈ (PortsArg.single it).ids := by
        intro s hs; cases it <;> simp_all [givens, PortsArg.ids]
      apply G.2 hP hlu hfx hsz hu
      · intro s hs; simpa [World.register] using hb s (hg s hs)
      · cases it <;> simp [givens]
      · intro s _ hc
        have hc' : (w.side k).loc s = some u := by cases k <;> exact hc
        have := hI.sc.loc_lt s u (by simpa using hc')
        omega

theorem newUnit_wstep {w w' : World} {ni no : Nat} {fi fo : Bool} {ai ao : PortsArg} {u : Nat}
    (h : w.newUnit ni fi ai no fo ao = .ok (w', u)) :
    WStep ((∀ s ∈ ai.ids, s < w.nS) ∧ (∀ s ∈ ao.ids, s < w.nS)) w w' := by
  unfold World.newUnit at h
  dsimp only at h
  obtain ⟨w1, h1, h⟩ := bind_ok.mp h
  obtain ⟨w2, h2, h⟩ := bind_ok.mp h
  cases h
  have S1 := initSeq_spec (nU := w.nU + 1) h1
  have S2 := initSeq_spec (nU := w.nU + 1) h2
  have hnU1 : w1.nU = w.nU + 1 := S1.1.nU
  have hnU2 : w'.nU = w.nU + 1 := S2.1.nU.trans hnU1
  have hnS1 : w.nS ≤ w1.nS := S1.1.nS
  have ho1 : w1.outs = w.outs := S1.1.other
  have hi2 : w'.ins = w1.ins := S2.1.other
  refine ⟨⟨fun hp => S1.1.pre (S2.1.pre hp), Nat.le_trans hnS1 S2.1.nS, by omega,
    fun s hs => (S2.1.real_old s (Nat.lt_of_lt_of_le hs hnS1)).trans (S1.1.real_old s hs),
    fun k' v hv => by
      have hne : v ≠ w.nU := Nat.ne_of_lt hv
      have f1 := S1.1.fx v hne
      have f2 := S2.1.fx v hne
      cases k'
      · show w'.ins.fixed v = w.ins.fixed v ∧ w'.ins.size v = w.ins.size v
        rw [hi2]; exact f1
      · show w'.outs.fixed v = w.outs.fixed v ∧ w'.outs.size v = w.outs.size v
        rw [← ho1]; exact f2⟩,
    fun hp hG ⟨hb1, hb2⟩ => ?_⟩
  have hp1 := S2.1.pre hp
  have I1 : SInv (w.nU + 1) All (w1.get .i) := S1.2 hp1 hG.ins (Nat.lt_succ_self _) hb1
  have O1 : SInv w.nU All (w1.get .o) := by
    show SInv w.nU All ⟨w1.outs, w1.nS, w1.pre⟩
    rw [ho1]
    exact hG.outs.grow hnS1 (Nat.le_refl _)
  have O2 : SInv (w.nU + 1) All (w'.get .o) :=
    S2.2 hp O1 (Nat.lt_succ_self _) (fun s hs => Nat.lt_of_lt_of_le (hb2 s hs) hnS1)
  have I2 : SInv (w.nU + 1) All (w'.get .i) := by
    show SInv (w.nU + 1) All ⟨w'.ins, w'.nS, w'.pre⟩
    rw [hi2]
    exact I1.grow S2.1.nS (Nat.le_refl _)
  refine ⟨?_, ?_, S2.1.nreal (S1.1.nreal hG.nreal)⟩
  · rw [hnU2]; exact I2
  · rw [hnU2]; exact O2

end ThermoVerif.Network
