import ThermoVerif.Lemmas.NetworkWorld
/-
Unit construction (`initSeq`, `newUnit`).
-/
namespace ThermoVerif.Network

def Which.other : Which → Which | .i => .o | .o => .i

@[simp] theorem put_side_same (w : World) (k : Which) (sw : SW) : (w.put k sw).side k = sw.sd := by
  cases k <;> rfl
@[simp] theorem put_side_other (w : World) (k : Which) (sw : SW) :
    (w.put k sw).side k.other = w.side k.other := by cases k <;> rfl
@[simp] theorem put_nS (w : World) (k : Which) (sw : SW) : (w.put k sw).nS = sw.next := by
  cases k <;> rfl
@[simp] theorem put_nU (w : World) (k : Which) (sw : SW) : (w.put k sw).nU = w.nU := by
  cases k <;> rfl
@[simp] theorem put_real (w : World) (k : Which) (sw : SW) : (w.put k sw).real = w.real := by
  cases k <;> rfl
@[simp] theorem put_pre (w : World) (k : Which) (sw : SW) : (w.put k sw).pre = sw.pre := by
  cases k <;> rfl

/-- Invariant of the construction loops on side `k` for the unit `u` being built; `acc` is the
list of streams docked at `u` so far. -/
structure PInv (nU : Nat) (w : World) (k : Which) (u : Nat) (acc : List Nat) : Prop where
  sc : Sc nU (w.get k)
  off : ∀ v, v ≠ u → CntAt (w.get k) v
  fxo : ∀ v, v ≠ u → (w.side k).fixed v = true → ((w.side k).lst v).length = (w.side k).size v
  acc_cnt : ∀ t, w.real t = true → acc.count t = if (w.side k).loc t = some u then 1 else 0
  acc_lt : ∀ x ∈ acc, x < w.nS
  junk : ∀ x ∈ (w.side k).lst u, w.real x = false

structure LoopExt (w w' : World) (k : Which) (u : Nat) : Prop where
  pre : w'.pre = w.pre
  nS : w.nS ≤ w'.nS
  nU : w'.nU = w.nU
  real_old : ∀ s, s < w.nS → w'.real s = w.real s
  other : w'.side k.other = w.side k.other
  fixed : (w'.side k).fixed = (w.side k).fixed
  size : (w'.side k).size = (w.side k).size
  lst_u : (w'.side k).lst u = (w.side k).lst u

theorem LoopExt.refl (w : World) (k : Which) (u : Nat) : LoopExt w w k u :=
  ⟨rfl, Nat.le_refl _, rfl, fun _ _ => rfl, rfl, rfl, rfl, rfl⟩

theorem LoopExt.trans {a b c : World} {k : Which} {u : Nat} (h1 : LoopExt a b k u)
    (h2 : LoopExt b c k u) : LoopExt a c k u :=
  ⟨h2.pre.trans h1.pre, Nat.le_trans h1.nS h2.nS, h2.nU.trans h1.nU,
   fun s hs => (h2.real_old s (Nat.lt_of_lt_of_le hs h1.nS)).trans (h1.real_old s hs),
   h2.other.trans h1.other, h2.fixed.trans h1.fixed, h2.size.trans h1.size, h2.lst_u.trans h1.lst_u⟩

/-- `dock(Stream())`: a new stream docked at `u`. -/
def World.dockNew (w : World) (k : Which) (u : Nat) : World :=
  w.newStream.1.put k ((w.newStream.1.get k).dock u w.newStream.2)

theorem dockNew_ext (w : World) (k : Which) (u : Nat) : LoopExt w (w.dockNew k u) k u := by
  cases k <;>
  exact ⟨rfl, Nat.le_succ _, rfl, fun s hs => by
    simp [World.dockNew, World.newStream, World.put]; intro h; omega, rfl, rfl, rfl, rfl⟩

theorem dockNew_pinv {nU : Nat} {w : World} {k : Which} {u : Nat} {acc : List Nat}
    (h : PInv nU w k u acc) (hu : u < nU) : PInv nU (w.dockNew k u) k u (w.nS :: acc) := by
  have hnr := h.sc.not_real
  have hln := h.sc.loc_none
  have hlt := h.sc.lst_lt
  have hll := h.sc.loc_lt
  have hoff := h.off
  have hacc := h.acc_cnt
  have hjunk := h.junk
  have hacclt := h.acc_lt
  cases k <;>
  · simp only [World.get, World.side, CntAt] at hnr hln hlt hll hoff hacc hjunk hacclt
    constructor
    · constructor <;> simp only [World.dockNew, World.newStream, World.put, World.get, SW.dock, Side.setLoc]
      · intro v x hx; have := hlt v x hx; omega
      · intro x hx; have := hln x; grind
      · intro x hx; have := hnr x; grind
      · exact h.sc.lst_nil
      · exact h.sc.fixed_false
      · intro x v; have := hll x v; grind
    · intro v hv t
      simp only [World.dockNew, World.newStream, World.put, World.get, SW.dock, Side.setLoc]
      intro ht
      by_cases htn : t = w.nS
      · subst htn
        have : w.nS ∉ _ := fun hm => Nat.lt_irrefl _ (hlt v w.nS hm)
        rw [List.count_eq_zero.mpr this]
        simp; exact fun h => hv h.symm
      · simp only [htn, if_false] at ht ⊢
        exact hoff v hv t ht
    · exact h.fxo
    · intro t
      simp only [World.dockNew, World.newStream, World.put, World.side, World.get, SW.dock, Side.setLoc]
      intro ht
      by_cases htn : t = w.nS
      · subst htn
        have : w.nS ∉ acc := fun hm => Nat.lt_irrefl _ (hacclt _ hm)
        simp [List.count_eq_zero.mpr this]
      · simp only [htn, if_false] at ht ⊢
        have hc : List.count t (w.nS :: acc) = List.count t acc := by
          rw [List.count_cons]; simp; omega
        rw [hc]; exact hacc t ht
    · intro x hx
      simp only [List.mem_cons] at hx
      simp only [World.dockNew, World.newStream, World.put, World.get, SW.dock]
      rcases hx with rfl | hx
      · omega
      · have := hacclt x hx; omega
    · intro x
      simp only [World.dockNew, World.newStream, World.put, World.side, World.get, SW.dock, Side.setLoc]
      intro hx
      have := hlt u x hx
      have := hjunk x hx
      have : x ≠ w.nS := by omega
      simp [*]

theorem put_get {w : World} {k : Which} {sw : SW} (h : sw.real = w.real) :
    (w.put k sw).get k = sw := by
  cases sw; simp only at h; subst h; cases k <;> rfl

@[simp] theorem get_next' (w : World) (k : Which) : (w.get k).next = w.nS := get_next w k

theorem redockPut_pinv {nU : Nat} {w : World} {k : Which} {u s : Nat} {acc : List Nat} {sw1 : SW}
    (h : PInv nU w k u acc) (hs : s < w.nS) (hu : u < nU)
    (hnd : w.real s = true → (w.side k).loc s ≠ some u)
    (hr : (w.get k).redock u s = .ok sw1) :
    PInv nU (w.put k sw1) k u (s :: acc) ∧ LoopExt w (w.put k sw1) k u ∧
      (∀ t, w.real t = true → t ≠ s → ((w.put k sw1).side k).loc t = (w.side k).loc t) := by
  have R := redock_spec h.sc (by simpa using hs) hu hr
  have hreal : sw1.real = w.real := by simpa using R.ext.real
  have hfixed : sw1.sd.fixed = (w.side k).fixed := by simpa using R.ext.fixed
  have hsize : sw1.sd.size = (w.side k).size := by simpa using R.ext.size
  have hnext : w.nS ≤ sw1.next := by simpa using R.ext.next
  have hlen : ∀ v, (sw1.sd.lst v).length = ((w.side k).lst v).length := by simpa using R.len
  have hlu : sw1.sd.lst u = (w.side k).lst u := by simpa using R.lst_u
  have hlo : ∀ t, w.real t = true → t ≠ s → sw1.sd.loc t = (w.side k).loc t := by
    simpa using R.loc_other
  refine ⟨⟨?_, ?_, ?_, ?_, ?_, ?_⟩, ⟨?_, ?_, ?_, ?_, ?_, ?_, ?_, ?_⟩, ?_⟩
  · rw [put_get hreal]; exact R.sc
  · rw [put_get hreal]; exact R.cntOff h.off
  · intro v hv hf
    simp only [put_side_same] at hf ⊢
    rw [hfixed] at hf
    rw [hlen, hsize]; exact h.fxo v hv hf
  · intro t ht
    simp only [put_real] at ht
    simp only [put_side_same]
    by_cases hts : t = s
    · subst hts
      have h0 := h.acc_cnt t ht
      rw [if_neg (hnd ht)] at h0
      rw [R.loc_s, List.count_cons, h0]; simp
    · rw [hlo t ht hts, ← h.acc_cnt t ht, List.count_cons]
      have : (s == t) = false := by simp; exact fun h => hts h.symm
      simp [this]
  · intro x hx
    simp only [List.mem_cons] at hx
    simp only [put_nS]
    rcases hx with rfl | hx
    · omega
    · have := h.acc_lt x hx; omega
  · intro x hx
    simp only [put_side_same, put_real] at hx ⊢
    rw [hlu] at hx; exact h.junk x hx
  · simp [R.pre_eq]
  · simpa using hnext
  · simp
  · intro _ _; simp
  · simp
  · simpa using hfixed
  · simpa using hsize
  · simpa using hlu
  · simpa using hlo

theorem missingPut_pinv {nU : Nat} {w : World} {k : Which} {u : Nat} {acc : List Nat}
    (h : PInv nU w k u acc) (hu : u < nU) :
    PInv nU (w.put k ((w.get k).newMissing u).1) k u (w.nS :: acc) ∧
      LoopExt w (w.put k ((w.get k).newMissing u).1) k u := by
  have hreal : ((w.get k).newMissing u).1.real = w.real := by simp [SW.newMissing]
  have hnr : w.real w.nS = false := by have := h.sc.not_real w.nS; simpa using this
  refine ⟨⟨?_, ?_, ?_, ?_, ?_, ?_⟩, ⟨?_, ?_, ?_, ?_, ?_, ?_, ?_, ?_⟩⟩
  · rw [put_get hreal]; exact h.sc.newMissing hu
  · rw [put_get hreal]; exact fun v hv => (h.off v hv).newMissing h.sc
  · intro v hv hf
    simp only [put_side_same, SW.newMissing, Side.setLoc, get_sd] at hf ⊢
    exact h.fxo v hv hf
  · intro t ht
    simp only [put_real] at ht
    have htn : t ≠ w.nS := by intro h; rw [h] at ht; simp [hnr] at ht
    simp only [put_side_same, SW.newMissing, Side.setLoc, get_sd, get_next, htn, if_false]
    rw [← h.acc_cnt t ht, List.count_cons]
    have : (w.nS == t) = false := by simp; exact fun h => htn h.symm
    simp [this]
  · intro x hx
    simp only [List.mem_cons] at hx
    simp only [put_nS, newMissing_next, get_next]
    rcases hx with rfl | hx
    · omega
    · have := h.acc_lt x hx; omega
  · intro x hx
    simp only [put_side_same, put_real, SW.newMissing, Side.setLoc, get_sd] at hx ⊢
    exact h.junk x hx
  · simp [SW.newMissing]
  · simp
  · simp
  · intro _ _; simp
  · simp
  · simp [SW.newMissing, Side.setLoc]
  · simp [SW.newMissing, Side.setLoc]
  · simp [SW.newMissing, Side.setLoc]

theorem dockNew_loc (w : World) (k : Which) (u t : Nat) (ht : t < w.nS) :
    ((w.dockNew k u).side k).loc t = (w.side k).loc t := by
  have : t ≠ w.nS := by omega
  cases k <;> simp [World.dockNew, World.newStream, World.put, World.get, World.side, SW.dock,
    Side.setLoc, this]

theorem missingPut_loc (w : World) (k : Which) (u t : Nat) (ht : t < w.nS) :
    ((w.put k ((w.get k).newMissing u).1).side k).loc t = (w.side k).loc t := by
  have : t ≠ w.nS := by omega
  simp [SW.newMissing, Side.setLoc, this]

theorem freshStreams_spec {nU : Nat} {w : World} {k : Which} {u : Nat} {acc : List Nat} (j : Nat)
    (h : PInv nU w k u acc) (hu : u < nU) :
    ∃ acc', (w.freshStreams k u acc j).2 = acc'.reverse ∧
      PInv nU (w.freshStreams k u acc j).1 k u acc' ∧ acc'.length = acc.length + j ∧
      LoopExt w (w.freshStreams k u acc j).1 k u := by
  induction j generalizing w acc with
  | zero => exact ⟨acc, rfl, h, rfl, LoopExt.refl _ _ _⟩
  | succ j ih =>
    have heq : w.freshStreams k u acc (j + 1) = (w.dockNew k u).freshStreams k u (w.nS :: acc) j := rfl
    rw [heq]
    obtain ⟨acc', h1, h2, h3, h4⟩ := ih (dockNew_pinv h hu)
    exact ⟨acc', h1, h2, by rw [h3]; simp; omega, (dockNew_ext w k u).trans h4⟩

/-- The stream objects among the items. -/
def givens : List Item → List Nat
  | [] => []
  | .strm s :: r => s :: givens r
  | .new :: r => givens r
  | .none :: r => givens r

theorem filterMap_givens (f : Item → Option Nat) (h1 : ∀ s, f (.strm s) = some s)
    (h2 : f .new = none) (h3 : f .none = none) (l : List Item) : l.filterMap f = givens l := by
  induction l with
  | nil => rfl
  | cons a l ih => cases a <;> simp [givens, h1, h2, h3, ih]

theorem loop_transfer {w w' : World} {k : Which} {u x : Nat} {g : List Nat}
    (E : LoopExt w w' k u)
    (hk : ∀ t, w.real t = true → t < w.nS → t ≠ x → (w'.side k).loc t = (w.side k).loc t)
    (hb : ∀ s ∈ g, s < w.nS) (hnd : (g.filter w.real).Nodup)
    (hfresh : ∀ s ∈ g, w.real s = true → (w.side k).loc s ≠ some u)
    (hx : ∀ s ∈ g, w.real s = true → s ≠ x) :
    (∀ s ∈ g, s < w'.nS) ∧ (g.filter w'.real).Nodup ∧
      (∀ s ∈ g, w'.real s = true → (w'.side k).loc s ≠ some u) := by
  have hf : g.filter w'.real = g.filter w.real :=
    List.filter_congr (fun s hs => E.real_old s (hb s hs))
  refine ⟨fun s hs => Nat.lt_of_lt_of_le (hb s hs) E.nS, hf ▸ hnd, fun s hs hr => ?_⟩
  rw [E.real_old s (hb s hs)] at hr
  rw [hk s hr (hb s hs) (hx s hs hr)]
  exact hfresh s hs hr

theorem loadItems_spec {nU : Nat} {w w' : World} {k : Which} {u : Nat} {fx : Bool}
    {acc ss : List Nat} {l : List Item}
    (h : PInv nU w k u acc) (hu : u < nU)
    (hb : ∀ s ∈ givens l, s < w.nS) (hnd : ((givens l).filter w.real).Nodup)
    (hfresh : ∀ s ∈ givens l, w.real s = true → (w.side k).loc s ≠ some u)
    (hl : w.loadItems k u fx acc l = .ok (w', ss)) :
    ∃ acc', ss = acc'.reverse ∧ PInv nU w' k u acc' ∧ acc'.length = acc.length + l.length ∧
      LoopExt w w' k u := by
  induction l generalizing w acc with
  | nil =>
    simp only [World.loadItems] at hl
    cases hl
    exact ⟨acc, rfl, h, rfl, LoopExt.refl _ _ _⟩
  | cons it r ih =>
    have fin : ∀ (w1 : World) (x : Nat), PInv nU w1 k u (x :: acc) → LoopExt w w1 k u →
        (∀ t, w.real t = true → t < w.nS → t ≠ x → (w1.side k).loc t = (w.side k).loc t) →
        (∀ s ∈ givens r, s < w.nS) → ((givens r).filter w.real).Nodup →
        (∀ s ∈ givens r, w.real s = true → (w.side k).loc s ≠ some u) →
        (∀ s ∈ givens r, w.real s = true → s ≠ x) →
        w1.loadItems k u fx (x :: acc) r = .ok (w', ss) →
        ∃ acc', ss = acc'.reverse ∧ PInv nU w' k u acc' ∧
          acc'.length = acc.length + (it :: r).length ∧ LoopExt w w' k u := by
      intro w1 x hP hE hk hb' hnd' hfr' hx' hl'
      obtain ⟨a1, a2, a3⟩ := loop_transfer hE hk hb' hnd' hfr' hx'
      obtain ⟨acc', b1, b2, b3, b4⟩ := ih hP a1 a2 a3 hl'
      exact ⟨acc', b1, b2, by rw [b3]; simp; omega, hE.trans b4⟩
    have hnew : ∀ (hr : givens (it :: r) = givens r),
        (w.dockNew k u).loadItems k u fx (w.nS :: acc) r = .ok (w', ss) →
        ∃ acc', ss = acc'.reverse ∧ PInv nU w' k u acc' ∧
          acc'.length = acc.length + (it :: r).length ∧ LoopExt w w' k u := by
      intro hr hl'
      rw [hr] at hb hnd hfresh
      exact fin _ _ (dockNew_pinv h hu) (dockNew_ext w k u)
        (fun t _ ht _ => dockNew_loc w k u t ht) hb hnd hfresh
        (fun s hs _ => Nat.ne_of_lt (hb s hs)) hl'
    cases it with
    | strm s =>
      simp only [World.loadItems] at hl
      obtain ⟨sw1, hr, hl⟩ := bind_ok.mp hl
      simp only [givens] at hb hnd hfresh
      have hs := hb s (by simp)
      obtain ⟨p1, p2, p3⟩ := redockPut_pinv h hs hu (hfresh s (by simp)) hr
      refine fin _ _ p1 p2 (fun t ht _ hts => p3 t ht hts) (fun x hx => hb x (by simp [hx])) ?_
        (fun x hx => hfresh x (by simp [hx])) ?_ hl
      · rw [List.filter_cons] at hnd
        split at hnd
        · exact (List.nodup_cons.mp hnd).2
        · exact hnd
      · intro x hx hrx hxs
        subst hxs
        rw [List.filter_cons, if_pos hrx] at hnd
        exact (List.nodup_cons.mp hnd).1 (List.mem_filter.mpr ⟨hx, hrx⟩)
    | new => exact hnew rfl hl
    | none =>
      cases fx with
      | true => exact hnew rfl hl
      | false =>
        simp only [givens] at hb hnd hfresh
        obtain ⟨p1, p2⟩ := missingPut_pinv h hu
        have hl' : (w.put k ((w.get k).newMissing u).1).loadItems k u false
            (((w.get k).newMissing u).2 :: acc) r = .ok (w', ss) := hl
        rw [newMissing_snd, get_next] at hl'
        replace hl := hl'
        exact fin _ _ p1 p2 (fun t _ ht _ => missingPut_loc w k u t ht) hb hnd hfresh
          (fun s hs _ => Nat.ne_of_lt (hb s hs)) hl

/-! ## `initSeq` -/

/-- Registration of size and fixedness of the new port list. -/
def World.register (w : World) (k : Which) (u n : Nat) (fx : Bool) : World :=
  w.put k { (w.get k) with sd := { (w.get k).sd with
    fixed := fun x => if x = u then fx else (w.get k).sd.fixed x
    size := fun x => if x = u then n else (w.get k).sd.size x } }

/-- Rebinding of the port list of `u` on side `k`. -/
def World.bindLst (w : World) (k : Which) (u : Nat) (L : List Nat) : World :=
  w.put k { (w.get k) with sd := (w.get k).sd.setLst u L }

structure InitSpec (w w' : World) (k : Which) : Prop where
  pre : w'.pre = true → w.pre = true
  nS : w.nS ≤ w'.nS
  nU : w'.nU = w.nU
  real_old : ∀ s, s < w.nS → w'.real s = w.real s
  other : w'.side k.other = w.side k.other

theorem InitSpec.trans {a b c : World} {k : Which} (h1 : InitSpec a b k) (h2 : InitSpec b c k) :
    InitSpec a c k :=
  ⟨fun h => h1.pre (h2.pre h), Nat.le_trans h1.nS h2.nS, h2.nU.trans h1.nU,
   fun s hs => (h2.real_old s (Nat.lt_of_lt_of_le hs h1.nS)).trans (h1.real_old s hs),
   h2.other.trans h1.other⟩

theorem LoopExt.toInit {a b : World} {k : Which} {u : Nat} (h : LoopExt a b k u) : InitSpec a b k :=
  ⟨fun hp => h.pre ▸ hp, h.nS, h.nU, h.real_old, h.other⟩

theorem register_init (w : World) (k : Which) (u n : Nat) (fx : Bool) :
    InitSpec w (w.register k u n fx) k :=
  ⟨by simp [World.register], by simp [World.register], by simp [World.register],
   by simp [World.register], by simp [World.register]⟩

theorem bindLst_init (w : World) (k : Which) (u : Nat) (L : List Nat) :
    InitSpec w (w.bindLst k u L) k :=
  ⟨by simp [World.bindLst], by simp [World.bindLst], by simp [World.bindLst],
   by simp [World.bindLst], by simp [World.bindLst]⟩

theorem register_pinv {nU : Nat} {w : World} {k : Which} {u n : Nat} {fx : Bool}
    (h : SInv u (w.get k)) (hu : u < nU) :
    PInv nU (w.register k u n fx) k u [] ∧ ((w.register k u n fx).side k).fixed u = fx ∧
      ((w.register k u n fx).side k).size u = n ∧ ((w.register k u n fx).side k).lst u = [] := by
  have hreal : ∀ (sd : Side), (⟨sd, (w.get k).next, (w.get k).real, (w.get k).pre⟩ : SW).real = w.real := by
    intro sd; simp
  have hlst := h.sc.lst_nil u (Nat.le_refl _)
  refine ⟨⟨?_, ?_, ?_, ?_, ?_, ?_⟩, ?_, ?_, ?_⟩
  · simp only [World.register]
    rw [put_get (hreal _)]
    constructor
    · exact h.sc.lst_lt
    · exact h.sc.loc_none
    · exact h.sc.not_real
    · intro v hv; exact h.sc.lst_nil v (by omega)
    · intro v hv
      have : v ≠ u := by omega
      simp only [this, if_false]
      exact h.sc.fixed_false v (by omega)
    · intro s v hs; have := h.sc.loc_lt s v hs; omega
  · intro v _
    simp only [World.register]
    rw [put_get (hreal _)]
    exact h.cnt v
  · intro v hv hf
    simp only [World.register, put_side_same, hv, if_false] at hf ⊢
    exact h.fx v hf
  · intro t _
    have : (w.side k).loc t ≠ some u := by
      intro hc
      have := h.sc.loc_lt t u (by simpa using hc)
      omega
    simp [World.register, this]
  · simp
  · intro x hx
    simp only [World.register, put_side_same] at hx
    rw [hlst] at hx; cases hx
  · simp [World.register]
  · simp [World.register]
  · simpa [World.register] using hlst

theorem PInv.setPre {nU : Nat} {w : World} {k : Which} {u : Nat} {acc : List Nat} (p : Bool)
    (h : PInv nU w k u acc) : PInv nU { w with pre := p } k u acc := by
  cases k <;>
  exact ⟨h.sc.of_eq rfl rfl rfl, fun v hv => (h.off v hv).of_eq rfl rfl, h.fxo, h.acc_cnt,
    h.acc_lt, h.junk⟩

theorem missingsPut_pinv {nU : Nat} {w : World} {k : Which} {u : Nat} {acc : List Nat} (n : Nat)
    (h : PInv nU w k u acc) (hu : u < nU) :
    PInv nU (w.put k ((w.get k).newMissings u n).1) k u acc ∧
      LoopExt w (w.put k ((w.get k).newMissings u n).1) k u := by
  have M := newMissings_spec (w.get k) u n
  have hreal : ((w.get k).newMissings u n).1.real = w.real := by simpa using M.real
  have hnr : ∀ t, w.real t = true → t < w.nS := by
    intro t ht
    have := h.sc.not_real t
    simp only [get_next, get_real] at this
    grind
  refine ⟨⟨?_, ?_, ?_, ?_, ?_, ?_⟩, ⟨?_, ?_, ?_, ?_, ?_, ?_, ?_, ?_⟩⟩
  · rw [put_get hreal]; exact h.sc.newMissings hu n
  · rw [put_get hreal]; exact fun v hv => (h.off v hv).newMissings h.sc hu n
  · intro v hv hf
    simp only [put_side_same] at hf ⊢
    rw [M.fixed] at hf
    rw [M.lst, M.size]
    simp only [get_sd] at hf ⊢
    exact h.fxo v hv hf
  · intro t ht
    simp only [put_real] at ht
    simp only [put_side_same]
    rw [M.loc_old t (by simpa using hnr t ht)]
    simpa using h.acc_cnt t ht
  · intro x hx
    have := h.acc_lt x hx
    have := M.next
    simp only [put_nS, get_next] at *
    omega
  · intro x hx
    simp only [put_side_same, put_real] at hx ⊢
    rw [M.lst] at hx
    exact h.junk x (by simpa using hx)
  · simpa using M.pre_eq
  · simpa using M.next
  · simp
  · intro _ _; simp
  · simp
  · simpa using M.fixed
  · simpa using M.size
  · simp [M.lst]

theorem bindLst_pinv {nU : Nat} {w : World} {k : Which} {u : Nat} {acc L : List Nat}
    (h : PInv nU w k u acc) (hu : u < nU) (hL : ∀ x ∈ L, x < w.nS ∧ w.real x = false) :
    PInv nU (w.bindLst k u L) k u acc := by
  have hreal : ∀ (sd : Side), (⟨sd, (w.get k).next, (w.get k).real, (w.get k).pre⟩ : SW).real = w.real := by
    intro sd; simp
  refine ⟨?_, ?_, ?_, ?_, ?_, ?_⟩
  · simp only [World.bindLst]
    rw [put_get (hreal _)]
    exact h.sc.setLst hu (fun x hx => by simpa using (hL x hx).1)
  · intro v hv
    simp only [World.bindLst]
    rw [put_get (hreal _)]
    intro t ht
    have := h.off v hv t ht
    simpa [Side.setLst, hv] using this
  · intro v hv hf
    simp only [World.bindLst, put_side_same, Side.setLst, hv, if_false, get_sd] at hf ⊢
    exact h.fxo v hv hf
  · intro t ht
    simp only [World.bindLst, put_real] at ht
    simpa [World.bindLst, Side.setLst] using h.acc_cnt t ht
  · simpa [World.bindLst] using h.acc_lt
  · intro x hx
    simp only [World.bindLst, put_side_same, Side.setLst, if_true, put_real] at hx ⊢
    exact (hL x hx).2

theorem pinv_finish {nU : Nat} {w : World} {k : Which} {u : Nat} {acc L : List Nat}
    (h : PInv nU w k u acc) (hu : u < nU) (hL : ∀ x ∈ L, x < w.nS)
    (hc : ∀ t, w.real t = true → L.count t = acc.count t)
    (hf : (w.side k).fixed u = true → L.length = (w.side k).size u) :
    SInv nU ((w.bindLst k u L).get k) := by
  have hreal : ∀ (sd : Side), (⟨sd, (w.get k).next, (w.get k).real, (w.get k).pre⟩ : SW).real = w.real := by
    intro sd; simp
  simp only [World.bindLst]
  rw [put_get (hreal _)]
  apply SInv.setLst h.sc hu
  · simpa using hL
  · exact h.off
  · intro t ht
    simp only [get_real] at ht
    rw [hc t ht]
    simpa using h.acc_cnt t ht
  · simpa using h.fxo
  · simpa using hf

theorem put_bindLst (w : World) (k : Which) (sw1 : SW) (u : Nat) (L : List Nat) :
    w.put k { sw1 with sd := sw1.sd.setLst u L } = (w.put k sw1).bindLst k u L := by
  cases k <;> rfl

theorem put_init {w : World} {k : Which} {sw : SW} (h : Ext (w.get k) sw) :
    InitSpec w (w.put k sw) k :=
  ⟨fun hp => by simpa using h.pre (by simpa using hp), by simpa using h.next, by simp,
   fun _ _ => by simp, by simp⟩

theorem InitSpec.refl (w : World) (k : Which) : InitSpec w w k :=
  ⟨id, Nat.le_refl _, rfl, fun _ _ => rfl, rfl⟩

theorem freshStreams_init (w : World) (k : Which) (u : Nat) (acc : List Nat) (j : Nat) :
    InitSpec w (w.freshStreams k u acc j).1 k := by
  induction j generalizing w acc with
  | zero => exact InitSpec.refl _ _
  | succ j ih =>
    have heq : w.freshStreams k u acc (j + 1) = (w.dockNew k u).freshStreams k u (w.nS :: acc) j := rfl
    rw [heq]
    exact (dockNew_ext w k u).toInit.trans (ih _ _)

theorem loadItems_init {w w' : World} {k : Which} {u : Nat} {fx : Bool} {acc ss : List Nat}
    {l : List Item} (hl : w.loadItems k u fx acc l = .ok (w', ss)) : InitSpec w w' k := by
  induction l generalizing w acc with
  | nil => simp only [World.loadItems] at hl; cases hl; exact InitSpec.refl _ _
  | cons it r ih =>
    have hnew : ∀ acc', (w.dockNew k u).loadItems k u fx acc' r = .ok (w', ss) → InitSpec w w' k :=
      fun _ hl' => (dockNew_ext w k u).toInit.trans (ih hl')
    cases it with
    | strm s =>
      simp only [World.loadItems] at hl
      obtain ⟨sw1, hr, hl⟩ := bind_ok.mp hl
      exact (put_init (redock_ext hr).1).trans (ih hl)
    | new => exact hnew _ hl
    | none =>
      cases fx with
      | true => exact hnew _ hl
      | false =>
        have hl' : (w.put k ((w.get k).newMissing u).1).loadItems k u false
            (((w.get k).newMissing u).2 :: acc) r = .ok (w', ss) := hl
        exact (put_init (newMissing_ext _ u)).trans (ih hl')

theorem setPre_init (w : World) (k : Which) (c : Bool) :
    InitSpec w { w with pre := w.pre && c } k :=
  ⟨fun hp => by simp only [Bool.and_eq_true] at hp; exact hp.1, Nat.le_refl _, rfl,
   fun _ _ => rfl, by cases k <;> rfl⟩

theorem initGiven_spec {nU : Nat} {wP w' : World} {k : Which} {u n : Nat} {fx : Bool}
    {l : List Item}
    (h : (if fx = true then
        if n < l.length then Except.error Err.fixedSize
        else
          ((wP.put k { ((wP.get k).newMissings u n).1 with
              sd := ((wP.get k).newMissings u n).1.sd.setLst u ((wP.get k).newMissings u n).2 }).loadItems
            k u true [] l) >>= fun x =>
              Except.ok (x.1.put k { (x.1.get k) with
                sd := (x.1.get k).sd.setLst u (x.2 ++ List.drop x.2.length ((x.1.get k).sd.lst u)) })
      else
        (wP.loadItems k u false [] l) >>= fun x =>
          Except.ok (x.1.put k { (x.1.get k) with sd := (x.1.get k).sd.setLst u x.2 })) =
      Except.ok w') :
    InitSpec wP w' k ∧
    (PInv nU wP k u [] → (wP.side k).fixed u = fx → (wP.side k).size u = n → u < nU →
      (∀ s ∈ givens l, s < wP.nS) → ((givens l).filter wP.real).Nodup →
      (∀ s ∈ givens l, wP.real s = true → (wP.side k).loc s ≠ some u) →
      SInv nU (w'.get k)) := by
  cases fx with
  | false =>
    simp only [Bool.false_eq_true, if_false] at h
    obtain ⟨⟨w1, ss⟩, hl, h⟩ := bind_ok.mp h
    have h' : Except.ok (w1.bindLst k u ss) = Except.ok w' := h
    cases h'
    refine ⟨(loadItems_init hl).trans (bindLst_init _ k u _), fun hP hfx hsz hu hb hnd hfr => ?_⟩
    obtain ⟨acc', e1, hP', hlen, E⟩ := loadItems_spec hP hu hb hnd hfr hl
    subst e1
    apply pinv_finish hP' hu
    · intro x hx; exact hP'.acc_lt x (by simpa using hx)
    · intro t _; exact List.count_reverse
    · intro hf; rw [E.fixed, hfx] at hf; cases hf
  | true =>
    simp only [if_true] at h
    split at h
    · cases h
    · rename_i hnl
      rw [put_bindLst] at h
      obtain ⟨⟨w1, ss⟩, hl, h⟩ := bind_ok.mp h
      have h' : Except.ok (w1.bindLst k u (ss ++ List.drop ss.length ((w1.get k).sd.lst u))) =
          Except.ok w' := h
      cases h'
      have M := newMissings_spec (wP.get k) u n
      refine ⟨(((put_init M.ext).trans (bindLst_init _ k u _)).trans (loadItems_init hl)).trans
        (bindLst_init _ k u _), fun hP hfx hsz hu hb hnd hfr => ?_⟩
      obtain ⟨hP1, E1⟩ := missingsPut_pinv n hP hu
      have hnr : ∀ t, wP.real t = true → t < wP.nS := by
        intro t ht
        have := hP.sc.not_real t
        simp only [get_next, get_real] at this
        grind
      have hms : ∀ x ∈ ((wP.get k).newMissings u n).2,
          x < (wP.put k ((wP.get k).newMissings u n).1).nS ∧
            (wP.put k ((wP.get k).newMissings u n).1).real x = false := by
        intro x hx
        have hf := M.fresh x hx
        simp only [get_next] at hf
        refine ⟨by simpa using hf.2, ?_⟩
        simp only [put_real]
        cases hr : wP.real x with
        | false => rfl
        | true => have := hnr x hr; omega
      have hP2 := bindLst_pinv hP1 hu hms
      have E2 := bindLst_init (wP.put k ((wP.get k).newMissings u n).1) k u
        ((wP.get k).newMissings u n).2
      have hloc2 : ∀ t, t < wP.nS →
          (((wP.put k ((wP.get k).newMissings u n).1).bindLst k u
            ((wP.get k).newMissings u n).2).side k).loc t = (wP.side k).loc t := by
        intro t ht
        simp only [World.bindLst, put_side_same, Side.setLst]
        simpa using M.loc_old t (by simpa using ht)
      obtain ⟨acc', e1, hP', hlen, E⟩ := loadItems_spec hP2 hu
        (fun s hs => by
          have := hb s hs
          have := M.next
          simp only [World.bindLst, put_nS, get_next] at *
          omega)
        (by simpa [World.bindLst] using hnd)
        (fun s hs hr => by
          simp only [World.bindLst, put_real] at hr
          rw [hloc2 s (hb s hs)]
          exact hfr s hs hr) hl
      subst e1
      have hlu : (w1.side k).lst u = ((wP.get k).newMissings u n).2 := by
        rw [E.lst_u]; simp [World.bindLst, Side.setLst]
      have hjunk := hP'.junk
      rw [hlu] at hjunk
      simp only [get_sd, hlu]
      apply pinv_finish hP' hu
      · intro x hx
        rcases List.mem_append.mp hx with hx | hx
        · exact hP'.acc_lt x (by simpa using hx)
        · have := hP'.sc.lst_lt u x (by simp only [get_sd, hlu]; exact List.mem_of_mem_drop hx)
          simpa using this
      · intro t ht
        rw [List.count_append, List.count_reverse]
        have : t ∉ List.drop acc'.reverse.length ((wP.get k).newMissings u n).2 := by
          intro hm
          have := hjunk t (List.mem_of_mem_drop hm)
          rw [this] at ht; cases ht
        rw [List.count_eq_zero.mpr this]; rfl
      · intro _
        have hsz' : (w1.side k).size u = n := by
          rw [E.size]
          have : (((wP.put k ((wP.get k).newMissings u n).1).bindLst k u
              ((wP.get k).newMissings u n).2).side k).size =
              ((wP.put k ((wP.get k).newMissings u n).1).side k).size := by
            simp [World.bindLst, Side.setLst]
          rw [this, E1.size]; exact hsz
        rw [hsz', List.length_append, List.length_drop, M.len, List.length_reverse, hlen]
        simp only [List.length_nil]
        omega

theorem initSeq_spec {nU : Nat} {w w' : World} {k : Which} {u n : Nat} {fx : Bool} {arg : PortsArg}
    (h : w.initSeq k u n fx arg = .ok w') :
    InitSpec w w' k ∧
    (w'.pre = true → SInv u (w.get k) → u < nU → (∀ s ∈ arg.ids, s < w.nS) →
      SInv nU (w'.get k)) := by
  unfold World.initSeq at h
  dsimp only at h
  cases arg with
  | fresh =>
    have h' : Except.ok (((w.register k u n fx).freshStreams k u [] n).1.bindLst k u
        ((w.register k u n fx).freshStreams k u [] n).2) = Except.ok w' := h
    cases h'
    refine ⟨((register_init w k u n fx).trans (freshStreams_init _ k u [] n)).trans
      (bindLst_init _ k u _), fun _ hI hu _ => ?_⟩
    obtain ⟨hP, hfx, hsz, -⟩ := register_pinv (n := n) (fx := fx) hI hu
    obtain ⟨acc', e1, hP', hlen, E⟩ := freshStreams_spec n hP hu
    rw [e1]
    apply pinv_finish hP' hu
    · intro x hx; exact hP'.acc_lt x (by simpa using hx)
    · intro t _; exact List.count_reverse
    · intro _; rw [E.size, hsz, List.length_reverse, hlen]; simp
  | missing =>
    have h' : Except.ok ((w.register k u n fx).put k
        { (((w.register k u n fx).get k).newMissings u n).1 with
          sd := (((w.register k u n fx).get k).newMissings u n).1.sd.setLst u
            (((w.register k u n fx).get k).newMissings u n).2 }) = Except.ok w' := h
    rw [put_bindLst] at h'
    cases h'
    have M := newMissings_spec ((w.register k u n fx).get k) u n
    refine ⟨((register_init w k u n fx).trans (put_init M.ext)).trans
      (bindLst_init _ k u _), fun _ hI hu _ => ?_⟩
    obtain ⟨hP, hfx, hsz, -⟩ := register_pinv (n := n) (fx := fx) hI hu
    obtain ⟨hP', E⟩ := missingsPut_pinv n hP hu
    apply pinv_finish hP' hu
    · intro x hx; simpa using (M.fresh x hx).2
    · intro t ht
      simp only [put_real] at ht
      have : t < (w.register k u n fx).nS := by
        have := hP.sc.not_real t
        simp only [get_next, get_real] at this
        grind
      simp only [List.count_nil]
      apply List.count_eq_zero.mpr
      intro hm
      have := (M.fresh t hm).1
      simp only [get_next] at this
      omega
    · intro _; rw [E.size, hsz, M.len]
  | given l =>
    have G := initGiven_spec (nU := nU) h
    refine ⟨((register_init w k u n fx).trans (setPre_init _ k _)).trans G.1, fun hp hI hu hb => ?_⟩
    obtain ⟨hP, hfx, hsz, -⟩ := register_pinv (n := n) (fx := fx) hI hu
    have hpP := G.1.pre hp
    simp only [Bool.and_eq_true, decide_eq_true_eq] at hpP
    have hnd := hpP.2
    rw [filterMap_givens _ (fun _ => rfl) rfl rfl] at hnd
    simp only [PortsArg.ids] at hb
    rw [filterMap_givens _ (fun _ => rfl) rfl rfl] at hb
    apply G.2 (hP.setPre _) hfx hsz hu
    · simpa [World.register] using hb
    · exact hnd
    · intro s _ _ hc
      have hc' : (w.side k).loc s = some u := by cases k <;> exact hc
      have := hI.sc.loc_lt s u (by simpa using hc')
      omega

theorem newUnit_wstep {w w' : World} {ni no : Nat} {fi fo : Bool} {ai ao : PortsArg} {u : Nat}
    (h : w.newUnit ni fi ai no fo ao = .ok (w', u)) :
    WStep ((∀ s ∈ ai.ids, s < w.nS) ∧ (∀ s ∈ ao.ids, s < w.nS)) w w' := by
  unfold World.newUnit at h
  dsimp only at h
  obtain ⟨w1, h1, h⟩ := bind_ok.mp h
  obtain ⟨w2, h2, h⟩ := bind_ok.mp h
  cases h
  have S1 := initSeq_spec (nU := w.nU + 1) h1
  have S2 := initSeq_spec (nU := w.nU + 1) h2
  have hnU1 : w1.nU = w.nU + 1 := S1.1.nU
  have hnU2 : w'.nU = w.nU + 1 := S2.1.nU.trans hnU1
  have hnS1 : w.nS ≤ w1.nS := S1.1.nS
  have ho1 : w1.outs = w.outs := S1.1.other
  have hi2 : w'.ins = w1.ins := S2.1.other
  refine ⟨⟨fun hp => S1.1.pre (S2.1.pre hp), Nat.le_trans hnS1 S2.1.nS, by omega⟩,
    fun hp hG ⟨hb1, hb2⟩ => ?_⟩
  have hp1 := S2.1.pre hp
  have I1 : SInv (w.nU + 1) (w1.get .i) := S1.2 hp1 hG.1 (Nat.lt_succ_self _) hb1
  have O1 : SInv w.nU (w1.get .o) := by
    show SInv w.nU ⟨w1.outs, w1.nS, w1.real, w1.pre⟩
    rw [ho1]
    exact hG.2.grow hnS1 (Nat.le_refl _) S1.1.real_old I1.sc.not_real
  have O2 : SInv (w.nU + 1) (w'.get .o) :=
    S2.2 hp O1 (Nat.lt_succ_self _) (fun s hs => Nat.lt_of_lt_of_le (hb2 s hs) hnS1)
  have I2 : SInv (w.nU + 1) (w'.get .i) := by
    show SInv (w.nU + 1) ⟨w'.ins, w'.nS, w'.real, w'.pre⟩
    rw [hi2]
    exact I1.grow S2.1.nS (Nat.le_refl _) S2.1.real_old O2.sc.not_real
  unfold GoodS
  rw [hnU2]
  exact ⟨I2, O2⟩

end ThermoVerif.Network
