import Mathlib.Tactic.Ring
import Mathlib.Tactic.Linarith
import Mathlib.Tactic.FieldSimp
import Mathlib.Algebra.Order.Field.Rat
import Mathlib.Algebra.Order.Ring.Abs
import Mathlib.Algebra.Order.BigOperators.Group.List
import ThermoVerif.Model.Reaction
/-
Helper lemmas for C05: list algebra over `Rat` (`dot`, `axpy`, `hmul`, `hdiv`, `tile`,
`chunk`), the reaction steps, the feasibility step and the package remap of
`ThermoVerif.Reaction` (Model/Reaction.lean).
-/
namespace ThermoVerif.Reaction

/-! ### dot / axpy -/

@[simp] theorem dot_nil_left (b : Vec) : dot [] b = 0 := by simp [dot]
@[simp] theorem dot_nil_right (a : Vec) : dot a [] = 0 := by simp [dot]
@[simp] theorem dot_cons (a b : Rat) (as bs : Vec) :
    dot (a :: as) (b :: bs) = a * b + dot as bs := by simp [dot]

@[simp] theorem axpy_nil_left (c : Rat) (y : Vec) : axpy c [] y = [] := by
  cases y <;> simp [axpy]
@[simp] theorem axpy_nil_right (c : Rat) (x : Vec) : axpy c x [] = [] := by simp [axpy]
@[simp] theorem axpy_cons (c x y : Rat) (xs ys : Vec) :
    axpy c (x :: xs) (y :: ys) = (y + c * x) :: axpy c xs ys := by simp [axpy]

theorem length_axpy (c : Rat) (x y : Vec) (h : x.length = y.length) :
    (axpy c x y).length = y.length := by
  simp [axpy, h]

/-- `a·(y + c x) = a·y + c (a·x)` -/
theorem dot_axpy (a : Vec) (c : Rat) : ∀ (x y : Vec), x.length = y.length →
    dot a (axpy c x y) = dot a y + c * dot a x := by
  induction a with
  | nil => intro x y _; simp
  | cons a as ih =>
    intro x y h
    cases x with
    | nil =>
      cases y with
      | nil => simp
      | cons y ys => simp at h
    | cons x xs =>
      cases y with
      | nil => simp at h
      | cons y ys =>
        simp only [List.length_cons, Nat.add_right_cancel_iff] at h
        simp only [axpy_cons, dot_cons, ih xs ys h]
        ring

theorem getD_axpy (c : Rat) : ∀ (x y : Vec) (i : Nat), x.length = y.length →
    (axpy c x y).getD i 0 = y.getD i 0 + c * x.getD i 0 := by
  intro x
  induction x with
  | nil => intro y i h; cases y with
    | nil => simp
    | cons y ys => simp at h
  | cons x xs ih =>
    intro y i h
    cases y with
    | nil => simp at h
    | cons y ys =>
      simp only [List.length_cons, Nat.add_right_cancel_iff] at h
      cases i with
      | zero => simp
      | succ i => simpa using ih ys i h

/-! ### a single reaction -/

theorem length_react (rx : Rxn) (n : Vec) (h : rx.nu.length = n.length) :
    (rx.react n).length = n.length := length_axpy _ _ _ h

theorem dot_react (a : Vec) (rx : Rxn) (n : Vec) (h : rx.nu.length = n.length) :
    dot a (rx.react n) = dot a n + (n.getD rx.r 0 * rx.X) * dot a rx.nu := by
  unfold Rxn.react
  rw [dot_axpy a _ _ _ h]

theorem getD_react (rx : Rxn) (n : Vec) (i : Nat) (h : rx.nu.length = n.length) :
    (rx.react n).getD i 0 = n.getD i 0 + (n.getD rx.r 0 * rx.X) * rx.nu.getD i 0 := by
  unfold Rxn.react
  rw [getD_axpy _ _ _ _ h]

/-- `_rescale` succeeds exactly when the reactant has a non-zero coefficient, and then
divides every coefficient by `-raw[r]`. -/
theorem rescale_def (raw : Vec) (r : Nat) :
    rescale raw r = if -(raw.getD r 0) = 0 then .error .noReactant
      else .ok (raw.map (· / (-(raw.getD r 0)))) := rfl

theorem rescale_ok_iff (raw : Vec) (r : Nat) (nu : Vec) :
    rescale raw r = .ok nu ↔ raw.getD r 0 ≠ 0 ∧ nu = raw.map (· / (-(raw.getD r 0))) := by
  rw [rescale_def]
  by_cases h : raw.getD r 0 = 0
  · have h' : -(raw.getD r 0) = 0 := by rw [h, neg_zero]
    rw [if_pos h']
    constructor
    · intro hh; cases hh
    · intro hh; exact absurd h hh.1
  · have h' : -(raw.getD r 0) ≠ 0 := neg_ne_zero.mpr h
    rw [if_neg h']
    constructor
    · intro hh; injection hh with hh; exact ⟨h, hh.symm⟩
    · intro hh; rw [hh.2]

theorem rescale_error_iff (raw : Vec) (r : Nat) :
    rescale raw r = .error .noReactant ↔ raw.getD r 0 = 0 := by
  rw [rescale_def]
  by_cases h : raw.getD r 0 = 0
  · have h' : -(raw.getD r 0) = 0 := by rw [h, neg_zero]
    rw [if_pos h']; exact ⟨fun _ => h, fun _ => rfl⟩
  · have h' : -(raw.getD r 0) ≠ 0 := neg_ne_zero.mpr h
    rw [if_neg h']
    constructor
    · intro hh; cases hh
    · intro hh; exact absurd hh h

theorem getD_map_div (raw : Vec) (s : Rat) (i : Nat) :
    (raw.map (· / s)).getD i 0 = raw.getD i 0 / s := by
  induction raw generalizing i with
  | nil => simp
  | cons x xs ih => cases i with
    | zero => simp
    | succ i => simpa using ih i

theorem rescale_getD (raw : Vec) (r : Nat) (nu : Vec) (h : rescale raw r = .ok nu) (i : Nat) :
    nu.getD i 0 = raw.getD i 0 / (-(raw.getD r 0)) := by
  obtain ⟨_, rfl⟩ := (rescale_ok_iff raw r nu).mp h
  exact getD_map_div raw _ i

theorem rescale_reactant (raw : Vec) (r : Nat) (nu : Vec) (h : rescale raw r = .ok nu) :
    nu.getD r 0 = -1 := by
  have h0 := ((rescale_ok_iff raw r nu).mp h).1
  rw [rescale_getD raw r nu h r]
  field_simp

theorem rescale_length (raw : Vec) (r : Nat) (nu : Vec) (h : rescale raw r = .ok nu) :
    nu.length = raw.length := by
  obtain ⟨_, rfl⟩ := (rescale_ok_iff raw r nu).mp h
  simp

theorem dot_map_div (a raw : Vec) (s : Rat) : dot a (raw.map (· / s)) = dot a raw / s := by
  induction a generalizing raw with
  | nil => simp
  | cons a as ih =>
    cases raw with
    | nil => simp
    | cons x xs => simp only [List.map_cons, dot_cons, ih xs]; ring

/-- rescaling keeps a balanced stoichiometry balanced -/
theorem rescale_balanced (a raw : Vec) (r : Nat) (nu : Vec) (h : rescale raw r = .ok nu)
    (hb : dot a raw = 0) : dot a nu = 0 := by
  obtain ⟨_, rfl⟩ := (rescale_ok_iff raw r nu).mp h
  rw [dot_map_div, hb]; simp

/-! ### parallel / series / system -/

theorem length_applyExtents : ∀ (es : List Rat) (rxs : List Rxn) (acc : Vec),
    (∀ rx ∈ rxs, rx.nu.length = acc.length) → (applyExtents es rxs acc).length = acc.length := by
  intro es
  induction es with
  | nil => intro rxs acc _; simp [applyExtents]
  | cons e es ih =>
    intro rxs acc h
    cases rxs with
    | nil => simp [applyExtents]
    | cons rx rxs =>
      have h1 : rx.nu.length = acc.length := h rx (by simp)
      have hl := length_axpy e rx.nu acc h1
      simp only [applyExtents]
      rw [ih rxs (axpy e rx.nu acc) (by intro rx' hrx'; rw [hl]; exact h rx' (by simp [hrx'])), hl]

theorem dot_applyExtents (a : Vec) : ∀ (es : List Rat) (rxs : List Rxn) (acc : Vec),
    (∀ rx ∈ rxs, rx.nu.length = acc.length) →
    dot a (applyExtents es rxs acc)
      = dot a acc + (List.zipWith (fun e (rx : Rxn) => e * dot a rx.nu) es rxs).sum := by
  intro es
  induction es with
  | nil => intro rxs acc _; simp [applyExtents]
  | cons e es ih =>
    intro rxs acc h
    cases rxs with
    | nil => simp [applyExtents]
    | cons rx rxs =>
      have h1 : rx.nu.length = acc.length := h rx (by simp)
      have hl := length_axpy e rx.nu acc h1
      simp only [applyExtents, List.zipWith_cons_cons, List.sum_cons]
      rw [ih rxs (axpy e rx.nu acc) (by intro rx' hrx'; rw [hl]; exact h rx' (by simp [hrx'])),
        dot_axpy a e _ _ h1]
      ring

theorem getD_applyExtents (i : Nat) : ∀ (es : List Rat) (rxs : List Rxn) (acc : Vec),
    (∀ rx ∈ rxs, rx.nu.length = acc.length) →
    (applyExtents es rxs acc).getD i 0
      = acc.getD i 0 + (List.zipWith (fun e (rx : Rxn) => e * rx.nu.getD i 0) es rxs).sum := by
  intro es
  induction es with
  | nil => intro rxs acc _; simp [applyExtents]
  | cons e es ih =>
    intro rxs acc h
    cases rxs with
    | nil => simp [applyExtents]
    | cons rx rxs =>
      have h1 : rx.nu.length = acc.length := h rx (by simp)
      have hl := length_axpy e rx.nu acc h1
      simp only [applyExtents, List.zipWith_cons_cons, List.sum_cons]
      rw [ih rxs (axpy e rx.nu acc) (by intro rx' hrx'; rw [hl]; exact h rx' (by simp [hrx'])),
        getD_axpy e _ _ _ h1]
      ring

theorem length_reactParallel (rxs : List Rxn) (n : Vec) (h : ∀ rx ∈ rxs, rx.nu.length = n.length) :
    (reactParallel rxs n).length = n.length := length_applyExtents _ _ _ h

theorem length_reactSeries : ∀ (rxs : List Rxn) (n : Vec), (∀ rx ∈ rxs, rx.nu.length = n.length) →
    (reactSeries rxs n).length = n.length := by
  intro rxs
  induction rxs with
  | nil => intro n _; rfl
  | cons rx rxs ih =>
    intro n h
    have h1 : rx.nu.length = n.length := h rx (by simp)
    have hl := length_react rx n h1
    show (reactSeries rxs (rx.react n)).length = n.length
    rw [ih (rx.react n) (by intro rx' hrx'; rw [hl]; exact h rx' (by simp [hrx'])), hl]

theorem length_memberReact (m : Member) (n : Vec) (h : ∀ rx ∈ m.rxns, rx.nu.length = n.length) :
    (m.react n).length = n.length := by
  cases m with
  | single rx => exact length_react rx n (h rx (by simp [Member.rxns]))
  | parallel rxs => exact length_reactParallel rxs n h
  | series rxs => exact length_reactSeries rxs n h

theorem length_reactSystem : ∀ (ms : List Member) (n : Vec),
    (∀ m ∈ ms, ∀ rx ∈ m.rxns, rx.nu.length = n.length) → (reactSystem ms n).length = n.length := by
  intro ms
  induction ms with
  | nil => intro n _; rfl
  | cons m ms ih =>
    intro n h
    have hl := length_memberReact m n (h m (by simp))
    show (reactSystem ms (m.react n)).length = n.length
    rw [ih (m.react n) (by intro m' hm' rx hrx; rw [hl]; exact h m' (by simp [hm']) rx hrx), hl]

/-! ### entry-wise product and quotient -/

@[simp] theorem hmul_nil_left (b : Vec) : hmul [] b = [] := by simp [hmul]
@[simp] theorem hmul_nil_right (a : Vec) : hmul a [] = [] := by simp [hmul]
@[simp] theorem hmul_cons (a b : Rat) (as bs : Vec) : hmul (a :: as) (b :: bs) = (a * b) :: hmul as bs := by
  simp [hmul]
@[simp] theorem hdiv_nil_left (b : Vec) : hdiv [] b = [] := by simp [hdiv]
@[simp] theorem hdiv_nil_right (a : Vec) : hdiv a [] = [] := by simp [hdiv]
@[simp] theorem hdiv_cons (a b : Rat) (as bs : Vec) : hdiv (a :: as) (b :: bs) = (a / b) :: hdiv as bs := by
  simp [hdiv]

theorem length_hmul (a b : Vec) (h : a.length = b.length) : (hmul a b).length = a.length := by
  simp [hmul, h]

theorem hdiv_hmul_cancel : ∀ (v mw : Vec), v.length = mw.length → (∀ x ∈ mw, x ≠ 0) →
    hdiv (hmul v mw) mw = v := by
  intro v
  induction v with
  | nil => intro mw _ _; simp
  | cons x xs ih =>
    intro mw h hz
    cases mw with
    | nil => simp at h
    | cons m ms =>
      simp only [List.length_cons, Nat.add_right_cancel_iff] at h
      have hm : m ≠ 0 := hz m (by simp)
      simp only [hmul_cons, hdiv_cons, ih ms h (fun x hx => hz x (by simp [hx]))]
      congr 1
      field_simp

theorem getD_hmul : ∀ (a b : Vec) (i : Nat), (hmul a b).getD i 0 = a.getD i 0 * b.getD i 0 := by
  intro a
  induction a with
  | nil => intro b i; simp
  | cons x xs ih =>
    intro b i
    cases b with
    | nil => simp
    | cons y ys => cases i with
      | zero => simp
      | succ i => simpa using ih ys i

/-- `axpy` commutes with an entry-wise scaling: `(y + c x) ⊙ w = y ⊙ w + c (x ⊙ w)` -/
theorem hmul_axpy (c : Rat) : ∀ (x y w : Vec),
    hmul (axpy c x y) w = axpy c (hmul x w) (hmul y w) := by
  intro x
  induction x with
  | nil => intro y w; simp
  | cons x xs ih =>
    intro y w
    cases y with
    | nil => simp
    | cons y ys =>
      cases w with
      | nil => simp
      | cons w ws => simp only [axpy_cons, hmul_cons, ih ys ws]; congr 1; ring

theorem axpy_smul_right (c k : Rat) : ∀ (x y : Vec),
    axpy c (x.map (· / k)) y = axpy (c / k) x y := by
  intro x
  induction x with
  | nil => intro y; simp
  | cons x xs ih =>
    intro y
    cases y with
    | nil => simp
    | cons y ys => simp only [List.map_cons, axpy_cons, ih ys]; congr 1; ring

/-! ### tile / chunk / flatten -/

theorem length_tile (p : Nat) (a : Vec) : (tile p a).length = p * a.length := by
  induction p with
  | zero => simp [tile]
  | succ p ih => simp [tile, ih]; ring

theorem dot_append : ∀ (a b c d : Vec), a.length = c.length →
    dot (a ++ b) (c ++ d) = dot a c + dot b d := by
  intro a
  induction a with
  | nil => intro b c d h; cases c with
    | nil => simp
    | cons _ _ => simp at h
  | cons x xs ih =>
    intro b c d h
    cases c with
    | nil => simp at h
    | cons y ys =>
      simp only [List.length_cons, Nat.add_right_cancel_iff] at h
      simp only [List.cons_append, dot_cons, ih b ys d h]; ring

/-- the tiled row against the flattened material is the sum over the phase rows -/
theorem dot_tile_flatten (a : Vec) : ∀ (rows : List Vec), (∀ r ∈ rows, r.length = a.length) →
    dot (tile rows.length a) rows.flatten = (rows.map (dot a)).sum := by
  intro rows
  induction rows with
  | nil => intro _; simp [tile]
  | cons r rs ih =>
    intro h
    simp only [List.length_cons, tile, List.flatten_cons, List.map_cons, List.sum_cons]
    rw [dot_append a _ r _ (h r (by simp)).symm, ih (fun r' hr' => h r' (by simp [hr']))]

theorem chunk_flatten (n : Nat) : ∀ (p : Nat) (v : Vec), v.length = p * n → (chunk n p v).flatten = v := by
  intro p
  induction p with
  | zero => intro v h; simp at h; simp [chunk, h]
  | succ p ih =>
    intro v h
    simp only [chunk, List.flatten_cons]
    rw [ih (v.drop n) (by simp [h]; ring_nf; omega), List.take_append_drop]

theorem length_chunk (n : Nat) : ∀ (p : Nat) (v : Vec), (chunk n p v).length = p := by
  intro p
  induction p with
  | zero => intro v; simp [chunk]
  | succ p ih => intro v; simp [chunk, ih]

theorem chunk_rows_length (n : Nat) : ∀ (p : Nat) (v : Vec), v.length = p * n →
    ∀ r ∈ chunk n p v, r.length = n := by
  intro p
  induction p with
  | zero => intro v _ r hr; simp [chunk] at hr
  | succ p ih =>
    intro v h r hr
    simp only [chunk, List.mem_cons] at hr
    rcases hr with rfl | hr
    · simp [h]; have : n ≤ (p + 1) * n := by nlinarith
      omega
    · exact ih (v.drop n) (by simp [h]; ring_nf; omega) r hr

/-! ### feasibility -/

theorem negSum_nonpos (v : Vec) : negSum v ≤ 0 := by
  unfold negSum
  induction v with
  | nil => simp
  | cons x xs ih =>
    by_cases hx : x < 0
    · simp only [List.filter_cons, decide_eq_true_eq, hx, if_true, List.sum_cons]; linarith
    · simp only [List.filter_cons, decide_eq_true_eq, hx, if_false]; exact ih

theorem negSum_eq_zero_of_nonneg (v : Vec) (h : ∀ x ∈ v, 0 ≤ x) : negSum v = 0 := by
  unfold negSum
  induction v with
  | nil => simp
  | cons x xs ih =>
    have hx : ¬ x < 0 := not_lt.mpr (h x (by simp))
    simp only [List.filter_cons, decide_eq_true_eq, hx, if_false]
    exact ih (fun y hy => h y (by simp [hy]))

theorem clamp_of_nonneg (v : Vec) (h : ∀ x ∈ v, 0 ≤ x) : clamp v = v := by
  unfold clamp
  induction v with
  | nil => simp
  | cons x xs ih =>
    have hx : ¬ x < 0 := not_lt.mpr (h x (by simp))
    simp only [List.map_cons, hx, if_false]
    rw [ih (fun y hy => h y (by simp [hy]))]

theorem clamp_nonneg (v : Vec) : ∀ x ∈ clamp v, 0 ≤ x := by
  intro x hx
  unfold clamp at hx
  obtain ⟨y, _, rfl⟩ := List.mem_map.mp hx
  by_cases hy : y < 0
  · simp [hy]
  · simp [hy]; exact not_lt.mp hy

theorem clamped_nonneg (v : Vec) : ∀ x ∈ clamped v, 0 ≤ x := by
  intro x hx
  unfold clamped at hx
  obtain ⟨y, _, rfl⟩ := List.mem_map.mp hx
  by_cases hy : y < 0
  · simp [hy]; linarith
  · simp [hy]

theorem length_clamp (v : Vec) : (clamp v).length = v.length := by simp [clamp]
theorem length_clamped (v : Vec) : (clamped v).length = v.length := by simp [clamped]

/-- the clamp removes exactly the negatives: their total is `-negSum` -/
theorem sum_clamped (v : Vec) : (clamped v).sum = -negSum v := by
  unfold clamped negSum
  induction v with
  | nil => simp
  | cons x xs ih =>
    by_cases hx : x < 0
    · simp only [List.map_cons, hx, if_true, List.sum_cons, List.filter_cons, decide_eq_true_eq, ih]; ring
    · simp only [List.map_cons, hx, if_false, List.sum_cons, List.filter_cons, decide_eq_true_eq, ih]; ring

/-- entry by entry, `clamp v = v + clamped v` -/
theorem dot_clamp (a v : Vec) : dot a (clamp v) = dot a v + dot a (clamped v) := by
  unfold clamp clamped
  induction a generalizing v with
  | nil => simp
  | cons a as ih =>
    cases v with
    | nil => simp
    | cons x xs =>
      simp only [List.map_cons, dot_cons, ih xs]
      by_cases hx : x < 0
      · simp [hx]; ring
      · simp [hx]; ring

theorem getD_clamp (v : Vec) (i : Nat) : (clamp v).getD i 0 = if v.getD i 0 < 0 then 0 else v.getD i 0 := by
  unfold clamp
  induction v generalizing i with
  | nil => simp
  | cons x xs ih => cases i with
    | zero => simp
    | succ i => simpa using ih i

/-- `|a · c| ≤ amax · Σ c` for `c ≥ 0` and `|a_j| ≤ amax` -/
theorem abs_dot_le (amax : Rat) (h0 : 0 ≤ amax) : ∀ (a c : Vec), (∀ x ∈ a, |x| ≤ amax) →
    (∀ x ∈ c, 0 ≤ x) → |dot a c| ≤ amax * c.sum := by
  intro a
  induction a with
  | nil =>
    intro c _ hc
    simp only [dot_nil_left, abs_zero]
    exact mul_nonneg h0 (List.sum_nonneg hc)
  | cons a as ih =>
    intro c ha hc
    cases c with
    | nil => simp
    | cons x xs =>
      have hx : 0 ≤ x := hc x (by simp)
      have h1 : |a * x| ≤ amax * x := by
        rw [abs_mul, abs_of_nonneg hx]
        exact mul_le_mul_of_nonneg_right (ha a (by simp)) hx
      have h2 := ih xs (fun y hy => ha y (by simp [hy])) (fun y hy => hc y (by simp [hy]))
      simp only [dot_cons, List.sum_cons]
      calc |a * x + dot as xs| ≤ |a * x| + |dot as xs| := abs_add_le _ _
        _ ≤ amax * x + amax * xs.sum := add_le_add h1 h2
        _ = amax * (x + xs.sum) := by ring

/-! ### more list algebra -/

theorem dot_comm : ∀ (a b : Vec), dot a b = dot b a := by
  intro a
  induction a with
  | nil => intro b; simp
  | cons x xs ih => intro b; cases b with
    | nil => simp
    | cons y ys => simp only [dot_cons, ih ys]; ring

theorem dot_axpy_left (v : Vec) (c : Rat) (x y : Vec) (h : x.length = y.length) :
    dot (axpy c x y) v = dot y v + c * dot x v := by
  rw [dot_comm, dot_axpy v c x y h, dot_comm v y, dot_comm v x]

theorem dot_replicate_zero (n : Nat) (v : Vec) : dot (List.replicate n 0) v = 0 := by
  induction n generalizing v with
  | zero => simp
  | succ n ih => cases v with
    | nil => simp
    | cons x xs => simp [List.replicate_succ, ih xs]

theorem length_mwOf (n : Nat) : ∀ (m : Vec) (A : List Vec), (∀ row ∈ A, row.length = n) →
    (mwOf m A n).length = n := by
  intro m
  induction m with
  | nil => intro A _; simp [mwOf]
  | cons x xs ih =>
    intro A hA
    cases A with
    | nil => simp [mwOf]
    | cons row rows =>
      have ih' := ih rows (fun r hr => hA r (by simp [hr]))
      unfold mwOf at ih' ⊢
      simp only [List.zip_cons_cons, List.foldr_cons]
      rw [length_axpy _ _ _ (by rw [ih']; exact hA row (by simp)), ih']

/-- `(mᵀA) · v = Σ_e m_e (A_e · v)` -/
theorem dot_mwOf (n : Nat) (v : Vec) : ∀ (m : Vec) (A : List Vec), (∀ row ∈ A, row.length = n) →
    dot (mwOf m A n) v = (List.zipWith (fun me row => me * dot row v) m A).sum := by
  intro m
  induction m with
  | nil => intro A _; simp [mwOf, dot_replicate_zero]
  | cons x xs ih =>
    intro A hA
    cases A with
    | nil => simp [mwOf, dot_replicate_zero]
    | cons row rows =>
      have hrows : ∀ r ∈ rows, r.length = n := fun r hr => hA r (by simp [hr])
      have ih' := ih rows hrows
      have hl := length_mwOf n xs rows hrows
      unfold mwOf at ih' hl ⊢
      simp only [List.zip_cons_cons, List.foldr_cons, List.zipWith_cons_cons, List.sum_cons]
      rw [dot_axpy_left v x row _ (by rw [hl]; exact hA row (by simp)), ih']
      ring

theorem getD_lt_of_ne_zero (l : Vec) (i : Nat) (h : l.getD i 0 ≠ 0) : i < l.length := by
  by_contra hc
  apply h
  simp only [List.getD_eq_getElem?_getD]
  rw [List.getElem?_eq_none (not_lt.mp hc)]; rfl

theorem getD_mem (l : Vec) (i : Nat) (h : i < l.length) : l.getD i 0 ∈ l := by
  simp only [List.getD_eq_getElem?_getD]
  rw [List.getElem?_eq_getElem h]; exact List.getElem_mem h

theorem zipWith_map_self {α β γ : Type} (g : β → α → γ) (f : α → β) : ∀ l : List α,
    List.zipWith g (l.map f) l = l.map (fun x => g (f x) x) := by
  intro l
  induction l with
  | nil => simp
  | cons x xs ih => simp [ih]

theorem mem_tile (p : Nat) (a : Vec) (x : Rat) (h : x ∈ tile p a) : x ∈ a := by
  induction p with
  | zero => simp [tile] at h
  | succ p ih =>
    simp only [tile, List.mem_append] at h
    rcases h with h | h
    · exact h
    · exact ih h

theorem length_flatten_rect (n : Nat) : ∀ (rows : List Vec), (∀ r ∈ rows, r.length = n) →
    rows.flatten.length = rows.length * n := by
  intro rows
  induction rows with
  | nil => intro _; simp
  | cons r rs ih =>
    intro h
    simp only [List.flatten_cons, List.length_append, List.length_cons, h r (by simp),
      ih (fun r' hr' => h r' (by simp [hr']))]
    ring

/-- clamping commutes with a positive entry-wise scaling -/
theorem clamp_hmul : ∀ (v w : Vec), (∀ x ∈ w, 0 < x) → clamp (hmul v w) = hmul (clamp v) w := by
  intro v
  induction v with
  | nil => intro w _; simp [clamp]
  | cons x xs ih =>
    intro w hw
    cases w with
    | nil => simp [clamp]
    | cons y ys =>
      have hy : 0 < y := hw y (by simp)
      have ih' := ih ys (fun z hz => hw z (by simp [hz]))
      unfold clamp at ih' ⊢
      simp only [hmul_cons, List.map_cons, ih']
      congr 1
      by_cases hx : x < 0
      · have : x * y < 0 := mul_neg_of_neg_of_pos hx hy
        simp [hx, this]
      · have : ¬ x * y < 0 := not_lt.mpr (mul_nonneg (not_lt.mp hx) hy.le)
        simp [hx, this]

theorem hdiv_nonneg : ∀ (v w : Vec), (∀ x ∈ v, 0 ≤ x) → (∀ x ∈ w, 0 < x) → ∀ x ∈ hdiv v w, 0 ≤ x := by
  intro v
  induction v with
  | nil => intro w _ _ x hx; simp at hx
  | cons a as ih =>
    intro w hv hw x hx
    cases w with
    | nil => simp at hx
    | cons b bs =>
      simp only [hdiv_cons, List.mem_cons] at hx
      rcases hx with rfl | hx
      · exact div_nonneg (hv a (by simp)) (hw b (by simp)).le
      · exact ih bs (fun y hy => hv y (by simp [hy])) (fun y hy => hw y (by simp [hy])) x hx

theorem mem_chunk (n : Nat) : ∀ (p : Nat) (v : Vec) (r : Vec), r ∈ chunk n p v → ∀ x ∈ r, x ∈ v := by
  intro p
  induction p with
  | zero => intro v r hr; simp [chunk] at hr
  | succ p ih =>
    intro v r hr x hx
    simp only [chunk, List.mem_cons] at hr
    rcases hr with rfl | hr
    · exact List.mem_of_mem_take hx
    · exact List.mem_of_mem_drop (ih (v.drop n) r hr x hx)

/-! ### package remap -/

theorem lift_cons (d u : Nat) (ds : List Nat) (x : Rat) (xs : Vec) :
    lift (d :: ds) (x :: xs) u = if d = u then x else lift ds xs u := by
  unfold lift
  rw [List.idxOf?_cons]
  by_cases h : d = u
  · simp [h]
  · simp [h]
    cases ds.idxOf? u <;> simp

@[simp] theorem lift_nil_left (row : Vec) (u : Nat) : lift [] row u = 0 := by simp [lift]

@[simp] theorem lift_nil_right (pkg : List Nat) (u : Nat) : lift pkg [] u = 0 := by
  unfold lift; cases pkg.idxOf? u <;> simp

theorem lift_of_not_mem : ∀ (pkg : List Nat) (row : Vec) (u : Nat), u ∉ pkg → lift pkg row u = 0 := by
  intro pkg
  induction pkg with
  | nil => intro row u _; simp
  | cons d ds ih =>
    intro row u hu
    cases row with
    | nil => simp
    | cons x xs =>
      have hd : d ≠ u := fun h => hu (by simp [h])
      rw [lift_cons, if_neg hd]
      exact ih xs u (fun h => hu (by simp [h]))

theorem lift_map_self (f : Nat → Rat) : ∀ (dst : List Nat) (u : Nat),
    lift dst (dst.map f) u = if u ∈ dst then f u else 0 := by
  intro dst
  induction dst with
  | nil => intro u; simp
  | cons d ds ih =>
    intro u
    rw [List.map_cons, lift_cons]
    by_cases h : d = u
    · simp [h]
    · rw [if_neg h, ih u]
      have : (u ∈ d :: ds) ↔ u ∈ ds := by
        simp only [List.mem_cons]
        constructor
        · rintro (h' | h')
          · exact absurd h'.symm h
          · exact h'
        · exact Or.inr
      simp only [this]

theorem supported_iff (src dst : List Nat) (row : Vec) :
    supported src dst row = true ↔ ∀ p ∈ List.zip src row, p.2 = 0 ∨ p.1 ∈ dst := by
  unfold supported
  rw [List.all_eq_true]
  constructor
  · intro h p hp
    have := h p hp
    simpa using this
  · intro h p hp
    have := h p hp
    simpa using this

theorem lift_ne_zero_mem_zip : ∀ (src : List Nat) (row : Vec) (u : Nat), lift src row u ≠ 0 →
    (u, lift src row u) ∈ List.zip src row := by
  intro src
  induction src with
  | nil => intro row u h; simp at h
  | cons d ds ih =>
    intro row u h
    cases row with
    | nil => simp at h
    | cons x xs =>
      rw [lift_cons] at h ⊢
      by_cases hd : d = u
      · simp [hd]
      · rw [if_neg hd] at h ⊢
        simp only [List.zip_cons_cons, List.mem_cons]
        exact Or.inr (ih xs u h)

theorem remapRow_ok_iff (src dst : List Nat) (row out : Vec) :
    remapRow src dst row = .ok out ↔ supported src dst row = true ∧ out = dst.map (lift src row) := by
  unfold remapRow
  by_cases h : supported src dst row = true
  · rw [if_pos h]; constructor
    · intro hh; injection hh with hh; exact ⟨h, hh.symm⟩
    · intro hh; rw [hh.2]
  · rw [if_neg h]; constructor
    · intro hh; cases hh
    · intro hh; exact absurd hh.1 h

/-- Moving a row to another package changes no chemical's flow: every identity has the same
flow before and after. -/
theorem lift_remapRow (src dst : List Nat) (row out : Vec) (h : remapRow src dst row = .ok out)
    (u : Nat) : lift dst out u = lift src row u := by
  obtain ⟨hs, rfl⟩ := (remapRow_ok_iff src dst row out).mp h
  rw [lift_map_self]
  by_cases hu : u ∈ dst
  · rw [if_pos hu]
  · rw [if_neg hu]
    by_contra hne
    have hz : lift src row u ≠ 0 := fun h0 => hne h0.symm
    have := (supported_iff src dst row).mp hs _ (lift_ne_zero_mem_zip src row u hz)
    rcases this with h0 | hm
    · exact hz h0
    · exact hu hm

theorem map_lift_self : ∀ (src : List Nat) (row : Vec), src.Nodup → row.length = src.length →
    src.map (lift src row) = row := by
  intro src
  induction src with
  | nil => intro row _ h; cases row with
    | nil => rfl
    | cons _ _ => simp at h
  | cons d ds ih =>
    intro row hn hl
    cases row with
    | nil => simp at hl
    | cons x xs =>
      simp only [List.length_cons, Nat.add_right_cancel_iff] at hl
      rw [List.nodup_cons] at hn
      rw [List.map_cons, lift_cons, if_pos rfl]
      congr 1
      rw [← ih xs hn.2 hl]
      apply List.map_congr_left
      intro u hu
      have : d ≠ u := fun h => hn.1 (h ▸ hu)
      rw [lift_cons, if_neg this, ih xs hn.2 hl]

/-- there and back gives the original row -/
theorem remapRow_roundtrip (src dst : List Nat) (row mid back : Vec) (hn : src.Nodup)
    (hl : row.length = src.length) (h1 : remapRow src dst row = .ok mid)
    (h2 : remapRow dst src mid = .ok back) : back = row := by
  obtain ⟨_, rfl⟩ := (remapRow_ok_iff dst src mid back).mp h2
  have : ∀ u, lift dst mid u = lift src row u := lift_remapRow src dst row mid h1
  rw [show lift dst mid = lift src row from funext this]
  exact map_lift_self src row hn hl

/-- Σ_j [s = dst_j] · f(dst_j) over a duplicate-free list -/
theorem sum_map_ite_eq (s : Nat) (f : Nat → Rat) : ∀ (dst : List Nat), dst.Nodup →
    (dst.map fun d => if s = d then f d else 0).sum = if s ∈ dst then f s else 0 := by
  intro dst
  induction dst with
  | nil => intro _; simp
  | cons d ds ih =>
    intro hn
    rw [List.nodup_cons] at hn
    rw [List.map_cons, List.sum_cons, ih hn.2]
    by_cases h : s = d
    · subst h
      simp [hn.1]
    · have : (s ∈ d :: ds) ↔ s ∈ ds := by
        simp only [List.mem_cons]
        exact ⟨fun h' => h'.elim (fun e => absurd e h) id, Or.inr⟩
      simp only [if_neg h, zero_add, this]

theorem dot_map_eq_sum (w : Nat → Rat) (g : Nat → Rat) : ∀ dst : List Nat,
    dot (dst.map w) (dst.map g) = (dst.map fun d => w d * g d).sum := by
  intro dst
  induction dst with
  | nil => simp
  | cons d ds ih => simp [ih]

/-- any per-chemical weighting (atoms of an element, molecular weight) gives the same total
before and after the move -/
theorem dot_remapRow (w : Nat → Rat) (dst : List Nat) (hd : dst.Nodup) : ∀ (src : List Nat) (row out : Vec),
    src.Nodup → row.length = src.length → remapRow src dst row = .ok out →
    dot (dst.map w) out = dot (src.map w) row := by
  intro src
  induction src with
  | nil =>
    intro row out _ hl h
    obtain ⟨_, rfl⟩ := (remapRow_ok_iff _ _ _ _).mp h
    rw [dot_map_eq_sum]
    simp
  | cons s ss ih =>
    intro row out hn hl h
    cases row with
    | nil => simp at hl
    | cons x xs =>
      simp only [List.length_cons, Nat.add_right_cancel_iff] at hl
      rw [List.nodup_cons] at hn
      obtain ⟨hs, rfl⟩ := (remapRow_ok_iff _ _ _ _).mp h
      have hsup := (supported_iff _ _ _).mp hs
      -- the tail is supported as well
      have hs' : supported ss dst xs = true := by
        rw [supported_iff]; intro p hp
        exact hsup p (by simp only [List.zip_cons_cons, List.mem_cons]; exact Or.inr hp)
      have ih' := ih xs (dst.map (lift ss xs)) hn.2 hl ((remapRow_ok_iff _ _ _ _).mpr ⟨hs', rfl⟩)
      have hx : x = 0 ∨ s ∈ dst := hsup (s, x) (by simp)
      rw [dot_map_eq_sum] at ih' ⊢
      have hsplit : (dst.map fun d => w d * lift (s :: ss) (x :: xs) d)
          = List.zipWith (· + ·) (dst.map fun d => w d * lift ss xs d)
              (dst.map fun d => if s = d then w d * x else 0) := by
        rw [List.zipWith_map_left, List.zipWith_map_right, List.zipWith_self]
        apply List.map_congr_left
        intro d _
        rw [lift_cons]
        by_cases hsd : s = d
        · subst hsd
          rw [if_pos rfl, if_pos rfl, lift_of_not_mem ss xs s hn.1]; ring
        · rw [if_neg hsd, if_neg hsd]; ring
      have hsum : ∀ (a b : Vec), a.length = b.length →
          (List.zipWith (· + ·) a b).sum = a.sum + b.sum := by
        intro a
        induction a with
        | nil => intro b hb; cases b with
          | nil => simp
          | cons _ _ => simp at hb
        | cons y ys iha =>
          intro b hb
          cases b with
          | nil => simp at hb
          | cons z zs =>
            simp only [List.length_cons, Nat.add_right_cancel_iff] at hb
            simp only [List.zipWith_cons_cons, List.sum_cons, iha zs hb]; ring
      rw [hsplit, hsum _ _ (by simp), ih', sum_map_ite_eq s (fun d => w d * x) dst hd]
      simp only [List.map_cons, dot_cons]
      rcases hx with hx | hx
      · subst hx; simp
      · rw [if_pos hx]; ring

/-! ### weight basis: rows per unit mass -/

theorem dot_hdiv_right : ∀ (a v w : Vec), dot a (hdiv v w) = dot (hdiv a w) v := by
  intro a
  induction a with
  | nil => intro v w; simp
  | cons x xs ih =>
    intro v w
    cases v with
    | nil => simp
    | cons y ys =>
      cases w with
      | nil => simp
      | cons z zs => simp only [hdiv_cons, dot_cons, ih ys zs]; ring

theorem dot_hdiv_hmul : ∀ (a n w : Vec), (∀ x ∈ w, x ≠ 0) → n.length = w.length →
    dot (hdiv a w) (hmul n w) = dot a n := by
  intro a
  induction a with
  | nil => intro n w _ _; simp
  | cons x xs ih =>
    intro n w hw hl
    cases n with
    | nil => cases w <;> simp
    | cons y ys =>
      cases w with
      | nil => simp at hl
      | cons z zs =>
        simp only [List.length_cons, Nat.add_right_cancel_iff] at hl
        have hz : z ≠ 0 := hw z (by simp)
        simp only [hdiv_cons, hmul_cons, dot_cons, ih ys zs (fun t ht => hw t (by simp [ht])) hl]
        congr 1; field_simp

theorem hdiv_append : ∀ (a b w c : Vec), a.length = w.length →
    hdiv (a ++ b) (w ++ c) = hdiv a w ++ hdiv b c := by
  intro a b w c h
  unfold hdiv
  exact List.zipWith_append h

theorem tile_hdiv (a w : Vec) (h : a.length = w.length) : ∀ p, tile p (hdiv a w) = hdiv (tile p a) (tile p w) := by
  intro p
  induction p with
  | zero => simp [tile]
  | succ p ih => simp only [tile, ih]; rw [hdiv_append _ _ _ _ h]

theorem length_hdiv (a b : Vec) (h : a.length = b.length) : (hdiv a b).length = a.length := by
  simp [hdiv, h]

theorem dot_hmul_div (a nu mw : Vec) (k : Rat) :
    dot (hdiv a mw) ((hmul nu mw).map (· / k)) = dot (hdiv a mw) (hmul nu mw) / k :=
  dot_map_div _ _ _

/-! ### `force_reaction`: removing negligible negatives -/

theorem absSum_nonneg (v : Vec) : 0 ≤ absSum v := by
  unfold absSum
  apply List.sum_nonneg
  intro x hx
  obtain ⟨y, _, rfl⟩ := List.mem_map.mp hx
  by_cases hy : y < 0
  · simp [hy]; linarith
  · simp [hy]; exact not_lt.mp hy

theorem abs_le_absSum (v : Vec) : ∀ x ∈ v, |x| ≤ absSum v := by
  unfold absSum
  induction v with
  | nil => intro x hx; simp at hx
  | cons y ys ih =>
    intro x hx
    have hrest : 0 ≤ (ys.map fun x => if x < 0 then -x else x).sum := absSum_nonneg ys
    have hy : (if y < 0 then -y else y) = |y| := by
      by_cases h : y < 0
      · simp [h, abs_of_neg h]
      · simp [h, abs_of_nonneg (not_lt.mp h)]
    simp only [List.map_cons, List.sum_cons, hy]
    simp only [List.mem_cons] at hx
    rcases hx with rfl | hx
    · linarith
    · have := ih x hx
      have : 0 ≤ |y| := abs_nonneg y
      linarith

/-- entry by entry, `removeNegligible v = v + removedBy v` -/
theorem dot_removeNegligible (eps : Rat) (a v : Vec) :
    dot a (removeNegligible eps v) = dot a v + dot a (removedBy eps v) := by
  unfold removeNegligible removedBy
  generalize absSum v = s
  induction a generalizing v with
  | nil => simp
  | cons a as ih =>
    cases v with
    | nil => simp
    | cons x xs =>
      simp only [List.map_cons, dot_cons, ih xs]
      by_cases hx : negligible eps s x = true
      · simp [hx]; ring
      · simp [hx]; ring

/-- what is removed is non-negative and small: below `eps · Σ|v|`, or (when that sum itself is
at most `eps`) at most `Σ|v| ≤ eps` -/
theorem removedBy_bound (eps : Rat) (h0 : 0 ≤ eps) (v : Vec) :
    ∀ r ∈ removedBy eps v, 0 ≤ r ∧ r ≤ eps * (absSum v + 1) := by
  intro r hr
  unfold removedBy at hr
  obtain ⟨x, hxv, rfl⟩ := List.mem_map.mp hr
  have hs := absSum_nonneg v
  have hbound : 0 ≤ eps * (absSum v + 1) := mul_nonneg h0 (by linarith)
  by_cases hx : negligible eps (absSum v) x = true
  · rw [if_pos hx]
    unfold negligible at hx
    simp only [Bool.and_eq_true, decide_eq_true_eq] at hx
    obtain ⟨hneg, hcond⟩ := hx
    refine ⟨by linarith, ?_⟩
    by_cases hse : absSum v > eps
    · rw [if_pos hse] at hcond
      simp only [decide_eq_true_eq] at hcond
      have hspos : 0 < absSum v := lt_of_le_of_lt h0 hse
      have : -eps * absSum v < x := by
        have := (lt_div_iff₀ hspos).mp hcond
        linarith
      nlinarith
    · have hle : absSum v ≤ eps := not_lt.mp hse
      have hab := abs_le_absSum v x hxv
      rw [abs_of_neg hneg] at hab
      nlinarith
  · rw [if_neg hx]; exact ⟨le_refl 0, hbound⟩

/-- non-negative entries (bystanders, products, unreacted feed) are never touched -/
theorem removeNegligible_keeps_nonneg (eps : Rat) (v : Vec) (i : Nat) (h : 0 ≤ v.getD i 0) :
    (removeNegligible eps v).getD i 0 = v.getD i 0 := by
  unfold removeNegligible
  generalize absSum v = s
  induction v generalizing i with
  | nil => simp
  | cons x xs ih =>
    cases i with
    | zero =>
      simp only [List.getD_cons_zero] at h
      have : negligible eps s x = false := by
        unfold negligible; simp [not_lt.mpr h]
      simp [this]
    | succ i =>
      simp only [List.getD_cons_succ] at h
      simpa using ih i h

theorem length_removeNegligible (eps : Rat) (v : Vec) : (removeNegligible eps v).length = v.length := by
  simp [removeNegligible]

theorem length_removedBy (eps : Rat) (v : Vec) : (removedBy eps v).length = v.length := by
  simp [removedBy]

theorem sum_le_length_mul (B : Rat) : ∀ (c : Vec), (∀ x ∈ c, x ≤ B) → c.sum ≤ c.length * B := by
  intro c
  induction c with
  | nil => intro _; simp
  | cons x xs ih =>
    intro h
    have := ih (fun y hy => h y (by simp [hy]))
    have hx := h x (by simp)
    simp only [List.sum_cons, List.length_cons]
    push_cast
    linarith

theorem lift_mem_or_zero (pkg : List Nat) (row : Vec) (u : Nat) : lift pkg row u ∈ row ∨ lift pkg row u = 0 := by
  unfold lift
  cases pkg.idxOf? u with
  | none => exact Or.inr rfl
  | some i =>
    by_cases h : i < row.length
    · exact Or.inl (getD_mem row i h)
    · right
      simp only [List.getD_eq_getElem?_getD]
      rw [List.getElem?_eq_none (not_lt.mp h)]; rfl

theorem remapRow_nonneg (src dst : List Nat) (row out : Vec) (h : remapRow src dst row = .ok out)
    (hn : ∀ x ∈ row, 0 ≤ x) : ∀ x ∈ out, 0 ≤ x := by
  obtain ⟨_, rfl⟩ := (remapRow_ok_iff src dst row out).mp h
  intro x hx
  obtain ⟨u, _, rfl⟩ := List.mem_map.mp hx
  rcases lift_mem_or_zero src row u with h1 | h1
  · exact hn _ h1
  · rw [h1]

/-! ### definitional unfoldings (kept out of the property file) -/

/-- `SeriesReaction._reaction` is a fold: the head reacts first, the tail sees its result -/
theorem series_uses_running (rx : Rxn) (rxs : List Rxn) (n : Vec) :
    reactSeries (rx :: rxs) n = reactSeries rxs (rx.react n) := rfl

/-- `ReactionSystem._reaction` is a fold over the members -/
theorem system_uses_running (m : Member) (ms : List Member) (n : Vec) :
    reactSystem (m :: ms) n = reactSystem ms (m.react n) := rfl

end ThermoVerif.Reaction
