import ThermoVerif.Lemmas.SparseStore
/-
Helper lemmas and auxiliary definitions for Props/C09.lean (property C09): plumbing about lists, options, the
store and the NumPy reference that the property theorems use.  Nothing here is a clause of the property.
-/
namespace ThermoVerif.Props.C09
open ThermoVerif.Sparse ThermoVerif.Dense

/-- the element function of the add/sub kernels: `x + y` or `x - y` -/
def addFn (sub : Bool) : Rat → Rat → Rat := fun x y => x + SV.sgn sub * y

theorem addFn_false : addFn false = Arith.fn .add := by
  funext x y; simp [addFn, Arith.fn, SV.sgn]

theorem addFn_true : addFn true = Arith.fn .sub := by
  funext x y; simp only [addFn, Arith.fn, SV.sgn, ↓reduceIte]; ring

theorem sgn_ne_zero (sub : Bool) : SV.sgn sub ≠ 0 := by
  cases sub <;> simp [SV.sgn]

theorem np1_vecOf_list (f : Rat → Rat → Rat) (n : Nat) (g : Nat → Rat) (l : Vec) :
    np1 f (vecOf n g) l =
      if n = l.length then .ok (vecOf n (fun i => f (g i) (l.getD i 0)))
      else if n = 1 then .ok (vecOf l.length (fun i => f (g 0) (l.getD i 0)))
      else if l.length = 1 then .ok (vecOf n (fun i => f (g i) (l.getD 0 0)))
      else .error .shape := by
  have := np1_vecOf f n l.length g (fun i => l.getD i 0)
  rwa [← vec_eq_vecOf] at this

theorem np1i_vecOf_list (f : Rat → Rat → Rat) (n : Nat) (g : Nat → Rat) (l : Vec) :
    np1i f (vecOf n g) l =
      if n = l.length then .ok (vecOf n (fun i => f (g i) (l.getD i 0)))
      else if l.length = 1 then .ok (vecOf n (fun i => f (g i) (l.getD 0 0)))
      else .error .shape := by
  have := np1i_vecOf f n l.length g (fun i => l.getD i 0)
  rwa [← vec_eq_vecOf] at this

theorem get_of_isEmpty (d : Dct) (h : d.isEmpty = true) (i : Nat) : Dct.get d i = 0 := by
  cases d with
  | nil => rfl
  | cons p r => simp at h

theorem rat_abs_ne_zero (x : Rat) (h : x ≠ 0) : Rat.abs x ≠ 0 := by
  unfold Rat.abs
  split
  · exact h
  · exact neg_ne_zero.mpr h

theorem rat_abs_zero : Rat.abs 0 = 0 := by
  unfold Rat.abs; simp

theorem ofPred_mem (n : Nat) (p : Nat → Bool) (i : Nat) :
    (SLV.ofPred n p).mem i = (decide (i < n) && p i) := by
  unfold SLV.ofPred SLV.mem
  rw [Bool.eq_iff_iff]
  simp [List.mem_filter, List.mem_range]

theorem ofPred_toDense (n : Nat) (p : Nat → Bool) : (SLV.ofPred n p).toDense = vecOf n (fun i => b2r (p i)) := by
  unfold SLV.toDense
  show vecOf n _ = _
  apply vecOf_congr
  intro i hi
  rw [ofPred_mem]; simp [hi]

theorem cmp_fn (op : Cmp) (x y : Rat) : op.toBin.fn x y = b2r (op.eval x y) := by
  cases op <;> rfl

theorem np1i_eq_np1 (f : Rat → Rat → Rat) (a b : Vec) (h : a.length = b.length ∨ b.length = 1) :
    np1i f a b = np1 f a b := by
  unfold np1i np1
  by_cases h1 : a.length = b.length
  · simp [h1]
  · have h3 : b.length = 1 := h.resolve_left h1
    have h2 : ¬ a.length = 1 := by omega
    simp [h1, h2, h3]

/-- size of the result of the add/sub kernel: the target's, unless a length-1 target met a longer operand -/
theorem addSparse_size (sub : Bool) (a b c : SV) (h : SV.addSparse sub a b = .ok c) :
    c.size = if a.size = 1 ∧ b.size ≠ 0 ∧ a.size ≠ b.size then b.size else a.size := by
  unfold SV.addSparse at h
  split at h
  · rename_i h1
    simp only [Except.ok.injEq] at h; subst h
    have : ¬ (a.size = 1 ∧ b.size ≠ 0 ∧ a.size ≠ b.size) := by intro hc; exact hc.2.2 h1
    rw [if_neg this]
  · rename_i h1
    split at h
    · rename_i h2
      have : a.size = 1 ∧ b.size ≠ 0 ∧ a.size ≠ b.size := ⟨h2.1, h2.2, h1⟩
      rw [if_pos this]
      split at h <;> (simp only [Except.ok.injEq] at h; subst h; rfl)
    · rename_i h2
      have : ¬ (a.size = 1 ∧ b.size ≠ 0 ∧ a.size ≠ b.size) := by intro hc; exact h2 ⟨hc.1, hc.2.1⟩
      rw [if_neg this]
      split at h
      · split at h <;> (simp only [Except.ok.injEq] at h; subst h; rfl)
      · cases h

theorem mul_fn_eq : (fun x y : Rat => x * y) = Arith.fn .mul := rfl

theorem div_fn_eq : (fun x y : Rat => x / y) = Arith.fn .truediv := rfl

/-- NumPy's true division is finite exactly when no divisor is zero; then it is the plain quotient -/
theorem np1div_eq_np1 (a b : Vec) (hb : b.any (· == 0) = false) : np1div a b = np1 (· / ·) a b := by
  unfold np1div
  cases np1 (· / ·) a b with
  | error e => rfl
  | ok r => simp [hb]

/-- the boolean function behind each logical kernel family -/
def lfn : LOp → Bool → Bool → Bool
  | .add | .or => fun x y => x || y
  | .mul | .and => fun x y => x && y
  | .xor => fun x y => x != y
  | .truediv => fun x _ => x

/-- the NumPy operator on boolean arrays (as 0/1 numbers) for each family -/
def lopBin : LOp → BinOp
  | .add => .add | .or => .or | .mul => .mul | .and => .and | .xor => .xor | .truediv => .truediv

theorem lfn_b2r (op : LOp) (hop : op ≠ .truediv) (x y : Bool) :
    (lopBin op).fnBool (b2r x) (b2r y) = b2r (lfn op x y) := by
  cases op <;> cases x <;> cases y <;> first | exact absurd rfl hop | decide | (simp [lopBin, BinOp.fnBool, BinOp.fn, b2r, lfn])

theorem slv_toDense_of_mem (c : SLV) (n : Nat) (g : Nat → Bool) (hs : c.size = n) (hm : ∀ i, i < n → c.mem i = g i) :
    c.toDense = vecOf n (fun i => b2r (g i)) := by
  unfold SLV.toDense
  rw [hs]
  exact vecOf_congr (fun i hi => by rw [hm i hi])

theorem slv_toDense_eq (a : SLV) : a.toDense = vecOf a.size (fun i => b2r (a.mem i)) := rfl

theorem mem_false_of_ge {a : SLV} (ha : SLVWF a) (i : Nat) (hi : a.size ≤ i) : a.mem i = false := by
  unfold SLV.mem
  by_contra h
  have : i ∈ a.set := by simpa using h
  have := ha.2 i this
  omega

/-- a well-formed logical vector of size 1 that does not contain 0 is empty -/
theorem slv_mem_of_size1 {a : SLV} (ha : SLVWF a) (hs : a.size = 1) (h0 : a.has0 = false) (i : Nat) : a.mem i = false := by
  cases i with
  | zero => exact h0
  | succ k => exact mem_false_of_ge ha _ (by omega)

theorem slv_nil_toDense (n : Nat) : SLV.toDense ⟨n, []⟩ = vecOf n (fun _ => 0) := by
  unfold SLV.toDense
  exact vecOf_congr (fun i _ => by simp [SLV.mem, b2r])

theorem foldl_add_eq (l : List Rat) (x : Rat) : l.foldl (· + ·) x = x + l.sum := by
  induction l generalizing x with
  | nil => simp
  | cons a l ih => simp only [List.foldl_cons, List.sum_cons]; rw [ih]; ring

theorem vsum_eq_sum (l : Vec) : vsum l = l.sum := by
  unfold vsum; rw [foldl_add_eq]; ring

theorem sum_vecOf_ite (n k : Nat) (v : Rat) (g : Nat → Rat) :
    (vecOf n (fun i => if i = k then v else g i)).sum = (if k < n then v - g k else 0) + (vecOf n g).sum := by
  unfold vecOf
  induction n with
  | zero => simp
  | succ n ih =>
    simp only [List.range_succ, List.map_append, List.sum_append, List.map_cons, List.map_nil, List.sum_cons,
      List.sum_nil, add_zero]
    rw [ih]
    by_cases h1 : k < n
    · have h2 : k < n + 1 := by omega
      have h3 : n ≠ k := by omega
      simp only [h1, h2, h3, ↓reduceIte]; ring
    · by_cases h4 : n = k
      · subst h4
        have h5 : n < n + 1 := by omega
        simp only [h1, h5, ↓reduceIte]; ring
      · have h2 : ¬ k < n + 1 := by omega
        simp only [h1, h2, h4, ↓reduceIte]; ring

/-- the sum of the stored values is the sum of the dense image -/
theorem dct_sum_eq (n : Nat) (d : Dct) (hd : Dct.WF n d) : d.vals.sum = (vecOf n (Dct.get d)).sum := by
  induction d with
  | nil =>
    have : vecOf n (Dct.get []) = vecOf n (fun _ => 0) := vecOf_congr (fun i _ => Dct.get_nil i)
    rw [this]
    unfold vecOf Dct.vals
    have hz : ∀ l : List Nat, (l.map (fun _ => (0 : Rat))).sum = 0 := by
      intro l; induction l with
      | nil => rfl
      | cons x l ih => simp [ih]
    rw [hz]; rfl
  | cons p d ih =>
    obtain ⟨k, v⟩ := p
    have hd' : Dct.WF n d := ⟨(List.nodup_cons.mp hd.1).2, fun q hq => hd.2 q (List.mem_cons_of_mem _ hq)⟩
    have hk : k < n := (hd.2 (k, v) List.mem_cons_self).1
    have hgk : Dct.get d k = 0 := by
      apply Dct.get_eq_zero_of_not_has
      by_contra hc
      rw [Bool.not_eq_false] at hc
      exact (List.nodup_cons.mp hd.1).1 ((Dct.has_iff_mem_keys d k).mp hc)
    have : vecOf n (Dct.get ((k, v) :: d)) = vecOf n (fun i => if i = k then v else Dct.get d i) :=
      vecOf_congr (fun i _ => Dct.get_cons k v d i)
    rw [this, sum_vecOf_ite, ← ih hd']
    simp only [Dct.vals, List.map_cons, List.sum_cons, hk, ↓reduceIte, hgk]
    ring

theorem nodup_subset_length_le : ∀ (l m : List Nat), l.Nodup → (∀ x ∈ l, x ∈ m) → l.length ≤ m.length := by
  intro l
  induction l with
  | nil => intro m _ _; simp
  | cons a l ih =>
    intro m hnd hsub
    have ha : a ∈ m := hsub a List.mem_cons_self
    have hl : ∀ x ∈ l, x ∈ m.erase a := by
      intro x hx
      have hxa : x ≠ a := by intro e; subst e; exact (List.nodup_cons.mp hnd).1 hx
      exact (List.mem_erase_of_ne hxa).mpr (hsub x (List.mem_cons_of_mem _ hx))
    have := ih (m.erase a) (List.nodup_cons.mp hnd).2 hl
    rw [List.length_erase_of_mem ha] at this
    have hm : 0 < m.length := List.length_pos_of_mem ha
    simp only [List.length_cons]; omega

/-- a well-formed dict has as many entries as its size iff every position is stored -/
theorem length_eq_size_iff (a : SV) (ha : a.WF) : a.dct.length = a.size ↔ ∀ i, i < a.size → a.get i ≠ 0 := by
  have hkeys : ∀ x ∈ a.dct.map Prod.fst, x ∈ List.range a.size := by
    intro x hx
    obtain ⟨p, hp, e⟩ := List.mem_map.mp hx
    subst e; exact List.mem_range.mpr (ha.2 p hp).1
  constructor
  · intro hlen i hi
    by_contra hz
    -- then the keys fit into `range size` without `i`: one too few places
    have hsub : ∀ x ∈ a.dct.map Prod.fst, x ∈ (List.range a.size).erase i := by
      intro x hx
      have hxi : x ≠ i := by
        intro e; subst e
        exact ((SV.has_iff ha x).mp ((Dct.has_iff_mem_keys _ x).mpr hx)) hz
      exact (List.mem_erase_of_ne hxi).mpr (hkeys x hx)
    have := nodup_subset_length_le _ _ ha.1 hsub
    rw [List.length_erase_of_mem (List.mem_range.mpr hi)] at this
    simp only [List.length_map, List.length_range] at this
    omega
  · intro hall
    have h1 := nodup_subset_length_le _ _ ha.1 hkeys
    have h2 : ∀ x ∈ List.range a.size, x ∈ a.dct.map Prod.fst := by
      intro x hx
      exact (Dct.has_iff_mem_keys _ x).mp ((SV.has_iff ha x).mpr (hall x (List.mem_range.mp hx)))
    have h3 := nodup_subset_length_le _ _ List.nodup_range h2
    simp only [List.length_map, List.length_range] at h1 h3
    omega

theorem toDense_getD (a : SV) (i : Nat) (hi : i < a.size) : a.toDense.getD i 0 = a.get i := vecOf_getD _ _ i hi

theorem vecOf_set (n : Nat) (g : Nat → Rat) (i : Nat) (x : Rat) :
    (vecOf n g).set i x = vecOf n (fun j => if j = i then x else g j) := by
  apply List.ext_getElem
  · simp [vecOf_length]
  · intro j h1 h2
    simp only [vecOf_length, List.length_set] at h1 h2
    simp only [vecOf, List.getElem_set, List.getElem_map, List.getElem_range]
    by_cases e : i = j
    · subst e; simp
    · have : ¬ j = i := fun h => e h.symm
      simp [e, this]

/-- storing one element (or deleting it when the value is zero) is NumPy's `a[i] = x` -/
theorem toDense_setNZ (a : SV) (i : Nat) (x : Rat) :
    SV.toDense { a with dct := a.dct.setNZ i x } = setAt a.toDense i x := by
  unfold setAt
  rw [SV.toDense_eq a, vecOf_set]
  apply SV.toDense_of_get _ _ _ rfl
  intro j _
  rw [SV.get_def]; dsimp only
  rw [Dct.get_setNZ]; rfl

theorem toDense_foldl_setNZ (a : SV) (l : List (Nat × Rat)) :
    SV.toDense { a with dct := l.foldl (fun acc p => Dct.setNZ acc p.1 p.2) a.dct } =
      l.foldl (fun acc p => setAt acc p.1 p.2) a.toDense := by
  induction l generalizing a with
  | nil => rfl
  | cons p rest ih =>
    simp only [List.foldl_cons]
    have := ih { a with dct := a.dct.setNZ p.1 p.2 }
    dsimp only at this
    rw [this, toDense_setNZ]

def vmaxStep (acc : Option Rat) (x : Rat) : Option Rat :=
  match acc with | none => some x | some m => some (if x > m then x else m)

theorem vmax_eq_foldl (l : Vec) : vmax l = l.foldl vmaxStep none := by
  unfold vmax
  congr 1

/-- `vmax` returns an upper bound that is attained -/
theorem vmax_foldl_spec (l : Vec) : ∀ (acc : Option Rat),
    match l.foldl vmaxStep acc with
    | none => acc = none ∧ l = []
    | some m => (m ∈ l ∨ acc = some m) ∧ (∀ x ∈ l, x ≤ m) ∧ (∀ a, acc = some a → a ≤ m) := by
  induction l with
  | nil =>
    intro acc
    cases acc with
    | none => simp
    | some a => simp
  | cons y l ih =>
    intro acc
    simp only [List.foldl_cons]
    have := ih (vmaxStep acc y)
    revert this
    cases hres : List.foldl vmaxStep (vmaxStep acc y) l with
    | none =>
      intro this
      cases acc <;> simp [vmaxStep] at this
    | some m =>
      intro this
      obtain ⟨h1, h2, h3⟩ := this
      cases acc with
      | none =>
        simp only [vmaxStep] at h1 h3
        refine ⟨?_, ?_, by simp⟩
        · rcases h1 with h | h
          · exact Or.inl (List.mem_cons_of_mem _ h)
          · simp only [Option.some.injEq] at h; subst h; exact Or.inl List.mem_cons_self
        · intro x hx
          rcases List.mem_cons.mp hx with e | e
          · subst e; exact h3 _ rfl
          · exact h2 x e
      | some a =>
        simp only [vmaxStep] at h1 h3
        have hmax := h3 _ rfl
        refine ⟨?_, ?_, ?_⟩
        · rcases h1 with h | h
          · exact Or.inl (List.mem_cons_of_mem _ h)
          · simp only [Option.some.injEq] at h
            by_cases hya : y > a
            · rw [if_pos hya] at h; subst h; exact Or.inl List.mem_cons_self
            · rw [if_neg hya] at h; subst h; exact Or.inr rfl
        · intro x hx
          rcases List.mem_cons.mp hx with e | e
          · subst e
            by_cases hya : x > a
            · rw [if_pos hya] at hmax; exact hmax
            · rw [if_neg hya] at hmax; exact le_trans (not_lt.mp hya) hmax
          · exact h2 x e
        · intro a' ha'
          simp only [Option.some.injEq] at ha'; subst ha'
          by_cases hya : y > a
          · rw [if_pos hya] at hmax; exact le_trans (le_of_lt hya) hmax
          · rw [if_neg hya] at hmax; exact hmax

theorem vmax_none_iff (l : Vec) : vmax l = none ↔ l = [] := by
  rw [vmax_eq_foldl]
  have := vmax_foldl_spec l none
  constructor
  · intro h; rw [h] at this; exact this.2
  · intro h; subst h; rfl

theorem vmax_some (l : Vec) (m : Rat) (h : vmax l = some m) : m ∈ l ∧ ∀ x ∈ l, x ≤ m := by
  rw [vmax_eq_foldl] at h
  have := vmax_foldl_spec l none
  rw [h] at this
  simp only at this
  exact ⟨this.1.resolve_right (by simp), this.2.1⟩

/-- an attained upper bound is what `vmax` returns -/
theorem vmax_eq_of (l : Vec) (m : Rat) (hm : m ∈ l) (hub : ∀ x ∈ l, x ≤ m) : vmax l = some m := by
  cases h : vmax l with
  | none => rw [(vmax_none_iff l).mp h] at hm; cases hm
  | some m' =>
    obtain ⟨h1, h2⟩ := vmax_some l m' h
    congr 1
    exact le_antisymm (hub m' h1) (h2 m hm)

theorem mem_toDense_iff (a : SV) (x : Rat) : x ∈ a.toDense ↔ ∃ i, i < a.size ∧ a.get i = x := by
  rw [SV.toDense_eq]
  unfold vecOf
  simp only [List.mem_map, List.mem_range]

theorem mem_vals_iff (a : SV) (ha : a.WF) (x : Rat) : x ∈ a.dct.vals ↔ ∃ i, i < a.size ∧ a.get i = x ∧ x ≠ 0 := by
  unfold Dct.vals
  simp only [List.mem_map]
  constructor
  · rintro ⟨p, hp, e⟩
    subst e
    exact ⟨p.1, (ha.2 p hp).1, by rw [SV.get_def, Dct.get_mem _ ha.1 p hp], (ha.2 p hp).2⟩
  · rintro ⟨i, _, hg, hne⟩
    subst hg
    exact ⟨(i, a.get i), Dct.mem_of_has _ _ ((SV.has_iff ha i).mpr hne), rfl⟩

def vminStep (acc : Option Rat) (x : Rat) : Option Rat :=
  match acc with | none => some x | some m => some (if x < m then x else m)

theorem vmin_eq_foldl (l : Vec) : vmin l = l.foldl vminStep none := by
  unfold vmin
  congr 1

/-- `vmin` returns an lower bound that is attained -/
theorem vmin_foldl_spec (l : Vec) : ∀ (acc : Option Rat),
    match l.foldl vminStep acc with
    | none => acc = none ∧ l = []
    | some m => (m ∈ l ∨ acc = some m) ∧ (∀ x ∈ l, m ≤ x) ∧ (∀ a, acc = some a → m ≤ a) := by
  induction l with
  | nil =>
    intro acc
    cases acc with
    | none => simp
    | some a => simp
  | cons y l ih =>
    intro acc
    simp only [List.foldl_cons]
    have := ih (vminStep acc y)
    revert this
    cases hres : List.foldl vminStep (vminStep acc y) l with
    | none =>
      intro this
      cases acc <;> simp [vminStep] at this
    | some m =>
      intro this
      obtain ⟨h1, h2, h3⟩ := this
      cases acc with
      | none =>
        simp only [vminStep] at h1 h3
        refine ⟨?_, ?_, by simp⟩
        · rcases h1 with h | h
          · exact Or.inl (List.mem_cons_of_mem _ h)
          · simp only [Option.some.injEq] at h; subst h; exact Or.inl List.mem_cons_self
        · intro x hx
          rcases List.mem_cons.mp hx with e | e
          · subst e; exact h3 _ rfl
          · exact h2 x e
      | some a =>
        simp only [vminStep] at h1 h3
        have hmax := h3 _ rfl
        refine ⟨?_, ?_, ?_⟩
        · rcases h1 with h | h
          · exact Or.inl (List.mem_cons_of_mem _ h)
          · simp only [Option.some.injEq] at h
            by_cases hya : y < a
            · rw [if_pos hya] at h; subst h; exact Or.inl List.mem_cons_self
            · rw [if_neg hya] at h; subst h; exact Or.inr rfl
        · intro x hx
          rcases List.mem_cons.mp hx with e | e
          · subst e
            by_cases hya : x < a
            · rw [if_pos hya] at hmax; exact hmax
            · rw [if_neg hya] at hmax; exact le_trans hmax (not_lt.mp hya)
          · exact h2 x e
        · intro a' ha'
          simp only [Option.some.injEq] at ha'; subst ha'
          by_cases hya : y < a
          · rw [if_pos hya] at hmax; exact le_trans hmax (le_of_lt hya)
          · rw [if_neg hya] at hmax; exact hmax

theorem vmin_none_iff (l : Vec) : vmin l = none ↔ l = [] := by
  rw [vmin_eq_foldl]
  have := vmin_foldl_spec l none
  constructor
  · intro h; rw [h] at this; exact this.2
  · intro h; subst h; rfl

theorem vmin_some (l : Vec) (m : Rat) (h : vmin l = some m) : m ∈ l ∧ ∀ x ∈ l, m ≤ x := by
  rw [vmin_eq_foldl] at h
  have := vmin_foldl_spec l none
  rw [h] at this
  simp only at this
  exact ⟨this.1.resolve_right (by simp), this.2.1⟩

/-- an attained lower bound is what `vmin` returns -/
theorem vmin_eq_of (l : Vec) (m : Rat) (hm : m ∈ l) (hub : ∀ x ∈ l, m ≤ x) : vmin l = some m := by
  cases h : vmin l with
  | none => rw [(vmin_none_iff l).mp h] at hm; cases hm
  | some m' =>
    obtain ⟨h1, h2⟩ := vmin_some l m' h
    congr 1
    exact le_antisymm (h2 m hm) (hub m' h1)

theorem get_mergeWith_add (d o : Dct) (ho : (o.map Prod.fst).Nodup) (i : Nat) :
    Dct.get (Dct.mergeWith (· + ·) d o) i = Dct.get d i + Dct.get o i := by
  rw [Dct.get_mergeWith _ _ _ ho]
  by_cases hh : o.has i = true
  · simp [hh]
  · have : Dct.get o i = 0 := Dct.get_eq_zero_of_not_has _ _ (by simpa using hh)
    simp [hh, this]

end ThermoVerif.Props.C09
