import ThermoVerif.Model.EnergyBalance
import Mathlib.Analysis.Calculus.Deriv.MeanValue
import Mathlib.Analysis.Complex.Exponential
import Mathlib.Tactic.Linarith
import Mathlib.Tactic.Ring
import Mathlib.Tactic.FieldSimp
/-
Helper lemmas for C02: folds of the inlet list (Q folding, enthalpy sum, pressure minimum), the
setter's frame facts, and the two calculus facts behind "invertible in temperature"
(a positive derivative makes the function strictly increasing; a derivative bounded below by
`c > 0` turns a residual bound into a temperature bound).
-/
set_option linter.unusedSectionVars false

namespace ThermoVerif.Lemmas.EnergyBalance
open ThermoVerif.EnergyBalance

section Field
variable {α : Type} [Field α] [LinearOrder α] [IsStrictOrderedRing α]

/-- the heats carried by the `Heat` / `Power` entries -/
def heats : List (Inlet α) → List α
  | [] => []
  | .heat q :: t => q :: heats t
  | .stream .. :: t => heats t
  | .none :: t => heats t

theorem heatSum_eq (Q : α) (ins : List (Inlet α)) : heatSum Q ins = Q + (heats ins).sum := by
  induction ins generalizing Q with
  | nil => simp [heatSum, heats]
  | cons i t ih =>
    cases i with
    | stream e H P T ph s b => simpa [heatSum, heats] using ih Q
    | heat q => simp [heatSum, heats, ih, add_assoc]
    | none => simpa [heatSum, heats] using ih Q

theorem sumFrom_eq (a : α) (l : List α) : sumFrom a l = a + l.sum := by
  unfold sumFrom
  induction l generalizing a with
  | nil => simp
  | cons x t ih => simp [List.foldl_cons, ih, add_assoc]

theorem minList_le_head (p : α) (ps : List α) : minList p ps ≤ p := by
  unfold minList
  induction ps generalizing p with
  | nil => simp
  | cons x t ih =>
    simp only [List.foldl_cons]
    split
    · exact le_trans (ih x) (le_of_lt ‹_›)
    · exact ih p

theorem minList_le_mem (p : α) (ps : List α) : ∀ x ∈ ps, minList p ps ≤ x := by
  induction ps generalizing p with
  | nil => simp
  | cons y t ih =>
    intro x hx
    have hstep : minList p (y :: t) = minList (if y < p then y else p) t := by simp [minList]
    rw [hstep]
    rcases List.mem_cons.mp hx with rfl | hx
    · refine le_trans (minList_le_head _ t) ?_
      split
      · exact le_rfl
      · exact not_lt.mp ‹_›
    · exact ih _ x hx

theorem minList_mem (p : α) (ps : List α) : minList p ps ∈ p :: ps := by
  induction ps generalizing p with
  | nil => simp [minList]
  | cons y t ih =>
    have hstep : minList p (y :: t) = minList (if y < p then y else p) t := by simp [minList]
    rw [hstep]
    have := ih (if y < p then y else p)
    rcases List.mem_cons.mp this with h | h
    · rw [h]; split <;> simp
    · exact List.mem_cons_of_mem _ (List.mem_cons_of_mem _ h)

/-- every entry of `feeds` comes from a non-empty stream entry of the inlet list -/
theorem feeds_mem {ins : List (Inlet α)} {f : Feed α} (h : f ∈ feeds ins) :
    ∃ isSelf, Inlet.stream false f.H f.P f.T f.ph f.phaseStr isSelf ∈ ins := by
  induction ins with
  | nil => simp [feeds] at h
  | cons i t ih =>
    have lift : (∃ isSelf, Inlet.stream false f.H f.P f.T f.ph f.phaseStr isSelf ∈ t) →
        ∃ isSelf, Inlet.stream false f.H f.P f.T f.ph f.phaseStr isSelf ∈ i :: t := by
      rintro ⟨b, hb⟩
      exact ⟨b, List.mem_cons_of_mem _ hb⟩
    cases i with
    | stream e H P T ph s isSelf =>
      cases e with
      | false =>
        simp only [feeds, List.mem_cons] at h
        rcases h with rfl | h
        · exact ⟨isSelf, by simp⟩
        · exact lift (ih h)
      | true => exact lift (ih (by simpa [feeds] using h))
    | heat q => exact lift (ih (by simpa [feeds] using h))
    | none => exact lift (ih (by simpa [feeds] using h))

/-! ### frame facts of the setter -/

theorem setEnergy_P (solve : Solver α) (k : Nat) (st : St α) (x : α) :
    (setEnergy solve k st x).st.P = st.P := by
  unfold setEnergy
  split
  · rfl
  · split
    · rfl
    · split
      · rfl
      · split
        · rfl
        · dsimp only
          split <;> rfl

theorem setEnergy_empty (solve : Solver α) (k : Nat) (st : St α) (x : α) :
    (setEnergy solve k st x).st.empty = st.empty := by
  unfold setEnergy
  split
  · rfl
  · split
    · rfl
    · split
      · rfl
      · split
        · rfl
        · dsimp only
          split <;> rfl

end Field

/-! ### calculus -/

section Real
open Set

/-- A function whose derivative is positive on `[a, b]` is strictly increasing there. -/
theorem strictMonoOn_of_hasDerivAt_pos {f f' : ℝ → ℝ} {a b : ℝ}
    (hd : ∀ T ∈ Icc a b, HasDerivAt f (f' T) T) (hpos : ∀ T ∈ Icc a b, 0 < f' T) :
    StrictMonoOn f (Icc a b) := by
  apply strictMonoOn_of_deriv_pos (convex_Icc a b)
  · intro T hT
    exact (hd T hT).continuousAt.continuousWithinAt
  · intro T hT
    rw [interior_Icc] at hT
    have hT' : T ∈ Icc a b := Ioo_subset_Icc_self hT
    rw [(hd T hT').deriv]
    exact hpos T hT'

/-- Mean-value estimate: a derivative bounded below by `c` on `[a, b]` gives
`c · (y − x) ≤ f y − f x` for `x ≤ y` in `[a, b]`. -/
theorem mul_sub_le_of_le_hasDerivAt {f f' : ℝ → ℝ} {a b c : ℝ}
    (hd : ∀ T ∈ Icc a b, HasDerivAt f (f' T) T) (hc : ∀ T ∈ Icc a b, c ≤ f' T)
    {x y : ℝ} (hx : x ∈ Icc a b) (hy : y ∈ Icc a b) (hxy : x ≤ y) :
    c * (y - x) ≤ f y - f x := by
  refine Convex.mul_sub_le_image_sub_of_le_deriv (convex_Icc a b) ?_ ?_ ?_ x hx y hy hxy
  · intro T hT
    exact (hd T hT).continuousAt.continuousWithinAt
  · intro T hT
    rw [interior_Icc] at hT
    exact (hd T (Ioo_subset_Icc_self hT)).differentiableAt.differentiableWithinAt
  · intro T hT
    rw [interior_Icc] at hT
    have hT' : T ∈ Icc a b := Ioo_subset_Icc_self hT
    rw [(hd T hT').deriv]
    exact hc T hT'

/-- With the derivative at least `c > 0` on `[a, b]`, two temperatures whose function values
differ by at most `ε` differ by at most `ε / c`. -/
theorem abs_sub_le_div_of_le_hasDerivAt {f f' : ℝ → ℝ} {a b c ε : ℝ} (hc0 : 0 < c)
    (hd : ∀ T ∈ Icc a b, HasDerivAt f (f' T) T) (hc : ∀ T ∈ Icc a b, c ≤ f' T)
    {x y : ℝ} (hx : x ∈ Icc a b) (hy : y ∈ Icc a b) (h : |f y - f x| ≤ ε) :
    |y - x| ≤ ε / c := by
  rw [le_div_iff₀ hc0]
  rcases le_total x y with hxy | hyx
  · have h1 := mul_sub_le_of_le_hasDerivAt hd hc hx hy hxy
    have h2 : f y - f x ≤ ε := le_trans (le_abs_self _) h
    rw [abs_of_nonneg (sub_nonneg.mpr hxy)]
    linarith
  · have h1 := mul_sub_le_of_le_hasDerivAt hd hc hy hx hyx
    have h2 : f x - f y ≤ ε := by
      have := neg_abs_le (f y - f x)
      linarith
    rw [abs_of_nonpos (sub_nonpos.mpr hyx)]
    linarith

end Real

end ThermoVerif.Lemmas.EnergyBalance
