import ThermoVerif.Model.EqWriteback
import Mathlib.Tactic.Ring
import Mathlib.Tactic.Linarith
import Mathlib.Tactic.FieldSimp
import Mathlib.Algebra.Order.Field.Basic
import Mathlib.Algebra.Order.Field.Rat
/-
Helper lemmas for C03 (write-back layer of the equilibrium code), over any linearly ordered field.
-/
namespace ThermoVerif.EqWriteback
set_option linter.unusedSectionVars false

variable {K : Type} [Field K] [LinearOrder K] [IsStrictOrderedRing K]

theorem get_tab (n : Nat) (f : Nat → K) {i : Nat} (h : i < n) : get (tab n f) i = f i := by
  simp [get, tab, List.getD_eq_getElem?_getD, h]

theorem isNZ_iff (x : K) : isNZ x = true ↔ x ≠ 0 := by
  unfold isNZ
  simp only [Bool.or_eq_true, decide_eq_true_eq]
  constructor
  · rintro (h | h) <;> [exact ne_of_gt h; exact ne_of_lt h]
  · intro h
    rcases lt_or_gt_of_ne h with h | h
    · exact Or.inr h
    · exact Or.inl h

/-! ### sums -/

theorem foldl_add_ge (l : List K) (a : K) (h : ∀ x ∈ l, 0 ≤ x) : a ≤ l.foldl (· + ·) a := by
  induction l generalizing a with
  | nil => simp
  | cons x xs ih =>
    simp only [List.foldl_cons]
    have hx : 0 ≤ x := h x (by simp)
    have := ih (a + x) (fun y hy => h y (by simp [hy]))
    linarith

theorem foldl_add_ge_mem (l : List K) (a : K) (h : ∀ x ∈ l, 0 ≤ x) {y : K} (hy : y ∈ l) :
    a + y ≤ l.foldl (· + ·) a := by
  induction l generalizing a with
  | nil => simp at hy
  | cons x xs ih =>
    simp only [List.foldl_cons]
    have hx : 0 ≤ x := h x (by simp)
    have hxs : ∀ z ∈ xs, 0 ≤ z := fun z hz => h z (by simp [hz])
    rcases List.mem_cons.mp hy with rfl | hy'
    · exact foldl_add_ge xs (a + y) hxs
    · have := ih (a + x) hxs hy'
      linarith

theorem sumOver_nonneg (idx : List Nat) (f : Nat → K) (h : ∀ i ∈ idx, 0 ≤ f i) : 0 ≤ sumOver idx f := by
  unfold sumOver
  apply foldl_add_ge
  intro x hx
  obtain ⟨i, hi, rfl⟩ := List.mem_map.mp hx
  exact h i hi

theorem single_le_sumOver (idx : List Nat) (f : Nat → K) (h : ∀ i ∈ idx, 0 ≤ f i) {j : Nat} (hj : j ∈ idx) :
    f j ≤ sumOver idx f := by
  unfold sumOver
  have := foldl_add_ge_mem (idx.map f) 0 (by
    intro x hx
    obtain ⟨i, hi, rfl⟩ := List.mem_map.mp hx
    exact h i hi) (List.mem_map.mpr ⟨j, hj, rfl⟩)
  simpa using this

/-! ### the clip of `_solve_v` -/

theorem clipV_bounds {mol : K} (hm : 0 ≤ mol) (v : K) : 0 ≤ clipV mol v ∧ clipV mol v ≤ mol := by
  unfold clipV
  by_cases h1 : mol < v
  · simp only [h1, if_true]
    by_cases h2 : mol < 0
    · exact absurd hm (not_le.mpr h2)
    · simp [h2, hm]
  · simp only [h1, if_false]
    by_cases h2 : v < 0
    · simp [h2, hm]
    · simp only [h2, if_false]
      exact ⟨not_lt.mp h2, not_lt.mp h1⟩

/-- DESIGN §8.1: `g := max 0 (min v total)`, `l := total − g` ⇒ `g + l = total ∧ 0 ≤ g ∧ 0 ≤ l`. -/
theorem clip_writeback {total : K} (ht : 0 ≤ total) (v : K) :
    clipV total v + (total - clipV total v) = total ∧ 0 ≤ clipV total v ∧ 0 ≤ total - clipV total v := by
  have := clipV_bounds ht v
  exact ⟨by ring, this.1, by linarith [this.2]⟩

theorem corrFrac_bounds {f f' : K} (h : corrFrac f = some f') : 0 ≤ f' ∧ f' ≤ 1 := by
  unfold corrFrac at h
  by_cases h1 : f < 0
  · simp [h1] at h
  · simp only [h1, if_false] at h
    by_cases h2 : 0 < f
    · simp only [h2, if_true, Option.some.injEq] at h
      by_cases h3 : 1 < f
      · simp only [h3, if_true] at h; subst h; exact ⟨zero_le_one, le_refl _⟩
      · simp only [h3, if_false] at h; subst h; exact ⟨le_of_lt h2, not_lt.mp h3⟩
    · simp [h2] at h

theorem asValidFraction_bounds (x : K) : 0 ≤ asValidFraction x ∧ asValidFraction x ≤ 1 := by
  unfold asValidFraction
  by_cases h1 : x < 0
  · simp [h1]
  · by_cases h2 : 1 < x
    · simp [h1, h2]
    · simp only [h1, h2, if_false]
      exact ⟨not_lt.mp h1, not_lt.mp h2⟩

/-! ### folds in `Except` -/

theorem foldlM_inv {σ ε β : Type} (P : σ → Prop) (Q : β → Prop) (f : σ → β → Except ε σ)
    (hf : ∀ s b s', P s → Q b → f s b = .ok s' → P s') :
    ∀ (l : List β) (s s' : σ), P s → (∀ b ∈ l, Q b) → l.foldlM f s = .ok s' → P s' := by
  intro l
  induction l with
  | nil =>
    intro s s' hs _ h
    simp only [List.foldlM_nil] at h
    cases h; exact hs
  | cons b bs ih =>
    intro s s' hs hQ h
    simp only [List.foldlM_cons] at h
    cases hfb : f s b with
    | error e => rw [hfb] at h; cases h
    | ok s1 =>
      rw [hfb] at h
      exact ih s1 s' (hf s b s1 hs (hQ b (by simp)) hfb) (fun x hx => hQ x (by simp [hx])) h

/-! ### VLE -/

/-- Balance invariant of a VLE call that started from `r0`. -/
structure VInv (c : Cls K) (r0 : Rows K) (st : Rows K × VReg K) : Prop where
  bal : ∀ i < c.n, get st.1.g i + get st.1.l i = get st.2.mol i
  mol : ∀ i < c.n, get st.2.mol i = get r0.l i + get r0.g i
  rowL : st.1.L = r0.L
  rowS : st.1.s = r0.s

theorem writeGL_inv (c : Cls K) (r0 : Rows K) (st : Rows K × VReg K) (h : VInv c r0 st) (gv lv : Nat → K)
    (hw : ∀ i < c.n, i ∈ st.2.idx → gv i + lv i = get st.2.mol i) :
    VInv c r0 (writeGL c st.2 st.1 gv lv, st.2) := by
  refine ⟨?_, h.mol, h.rowL, h.rowS⟩
  intro i hi
  simp only [writeGL, get_tab _ _ hi]
  by_cases hm : i ∈ st.2.idx
  · simp only [hm, if_true]; exact hw i hi hm
  · simp only [hm, if_false]; exact h.bal i hi

theorem vleSetup_inv (c : Cls K) (hdisj : ∀ i, ¬ (i ∈ c.light ∧ i ∈ c.heavy)) (r : Rows K) :
    VInv c r (vleSetup c r) := by
  unfold vleSetup
  simp only
  split
  · refine ⟨?_, ?_, rfl, rfl⟩
    · intro i hi
      simp only [get_tab _ _ hi]
      by_cases hl : i ∈ c.light
      · have hh : i ∉ c.heavy := fun hh => hdisj i ⟨hl, hh⟩
        simp [hl, hh]
      · by_cases hh : i ∈ c.heavy
        · simp [hl, hh]
        · simp [hl, hh]; ring
    · intro i hi
      simp only [get_tab _ _ hi]
  · refine ⟨?_, ?_, rfl, rfl⟩
    · intro i hi
      simp only [get_tab _ _ hi]; ring
    · intro i hi
      simp only [get_tab _ _ hi]

theorem vleStep_inv (c : Cls K) (r0 : Rows K) (st st' : Rows K × VReg K) (e : VEv K)
    (h : VInv c r0 st) (hs : vleStep c st e = .ok st') : VInv c r0 st' := by
  cases e with
  | solve raw =>
    simp only [vleStep, Except.ok.injEq] at hs
    subst hs
    exact ⟨h.bal, h.mol, h.rowL, h.rowS⟩
  | solveRaw v =>
    simp only [vleStep, Except.ok.injEq] at hs
    subst hs
    exact ⟨h.bal, h.mol, h.rowL, h.rowS⟩
  | setFlowsReg =>
    simp only [vleStep] at hs
    cases hv : st.2.v with
    | none => rw [hv] at hs; cases hs
    | some v =>
      rw [hv] at hs
      simp only [Except.ok.injEq] at hs
      subst hs
      exact writeGL_inv c r0 st h _ _ (fun i _ _ => by ring)
  | setFlowsLit v =>
    simp only [vleStep, Except.ok.injEq] at hs
    subst hs
    exact writeGL_inv c r0 st h _ _ (fun i _ _ => by ring)
  | allVap =>
    simp only [vleStep, Except.ok.injEq] at hs
    subst hs
    exact writeGL_inv c r0 st h _ _ (fun i _ _ => by ring)
  | allLiq =>
    simp only [vleStep, Except.ok.injEq] at hs
    subst hs
    exact writeGL_inv c r0 st h _ _ (fun i _ _ => by ring)
  | frac V =>
    simp only [vleStep, Except.ok.injEq] at hs
    subst hs
    exact writeGL_inv c r0 st h _ _ (fun i _ _ => by ring)
  | lever x0 y =>
    simp only [vleStep] at hs
    cases hl : leverSplit st.2 x0 y with
    | error e => rw [hl] at hs; cases hs
    | ok s =>
      rw [hl] at hs
      simp only [Except.ok.injEq] at hs
      subst hs
      exact writeGL_inv c r0 st h _ _ (fun i _ _ => by ring)
  | bubbleLimited V y =>
    simp only [vleStep, Except.ok.injEq] at hs
    subst hs
    exact writeGL_inv c r0 st h _ _ (fun i _ _ => by ring)
  | dewLimited V x =>
    simp only [vleStep, Except.ok.injEq] at hs
    subst hs
    exact writeGL_inv c r0 st h _ _ (fun i _ _ => by ring)
  | condense f =>
    simp only [vleStep] at hs
    cases hf : corrFrac f with
    | none => rw [hf] at hs; simp only [Except.ok.injEq] at hs; subst hs; exact h
    | some f' =>
      rw [hf] at hs
      simp only [Except.ok.injEq] at hs
      subst hs
      exact writeGL_inv c r0 st h _ _ (fun i hi _ => by have := h.bal i hi; linarith)
  | vaporise f =>
    simp only [vleStep] at hs
    cases hf : corrFrac f with
    | none => rw [hf] at hs; simp only [Except.ok.injEq] at hs; subst hs; exact h
    | some f' =>
      rw [hf] at hs
      simp only [Except.ok.injEq] at hs
      subst hs
      exact writeGL_inv c r0 st h _ _ (fun i hi _ => by have := h.bal i hi; linarith)

/-- The registers `_setup` leaves are never written by a write-back step (only `_v` is). -/
def SameReg (a b : VReg K) : Prop := a.mol = b.mol ∧ a.idx = b.idx ∧ a.fmol = b.fmol

theorem vleStep_sameReg (c : Cls K) (st st' : Rows K × VReg K) (e : VEv K)
    (hs : vleStep c st e = .ok st') : SameReg st'.2 st.2 := by
  cases e <;> simp only [vleStep] at hs
  case solve raw => cases hs; exact ⟨rfl, rfl, rfl⟩
  case solveRaw v => cases hs; exact ⟨rfl, rfl, rfl⟩
  case setFlowsReg =>
    cases hv : st.2.v with
    | none => rw [hv] at hs; cases hs
    | some v => rw [hv] at hs; cases hs; exact ⟨rfl, rfl, rfl⟩
  case setFlowsLit v => cases hs; exact ⟨rfl, rfl, rfl⟩
  case allVap => cases hs; exact ⟨rfl, rfl, rfl⟩
  case allLiq => cases hs; exact ⟨rfl, rfl, rfl⟩
  case frac V => cases hs; exact ⟨rfl, rfl, rfl⟩
  case lever x0 y =>
    cases hl : leverSplit st.2 x0 y with
    | error e => rw [hl] at hs; cases hs
    | ok s => rw [hl] at hs; cases hs; exact ⟨rfl, rfl, rfl⟩
  case bubbleLimited V y => cases hs; exact ⟨rfl, rfl, rfl⟩
  case dewLimited V x => cases hs; exact ⟨rfl, rfl, rfl⟩
  case condense f =>
    cases hf : corrFrac f with
    | none => rw [hf] at hs; cases hs; exact ⟨rfl, rfl, rfl⟩
    | some f' => rw [hf] at hs; cases hs; exact ⟨rfl, rfl, rfl⟩
  case vaporise f =>
    cases hf : corrFrac f with
    | none => rw [hf] at hs; cases hs; exact ⟨rfl, rfl, rfl⟩
    | some f' => rw [hf] at hs; cases hs; exact ⟨rfl, rfl, rfl⟩

theorem leverSplit_bounds (reg : VReg K) (x0 : K) (y : List K) {s : K} (h : leverSplit reg x0 y = .ok s) :
    0 ≤ s ∧ s ≤ 1 := by
  unfold leverSplit at h
  simp only at h
  split at h
  · simp only [Except.ok.injEq] at h
    subst h
    split
    · exact ⟨zero_le_one, le_refl _⟩
    · rename_i h1
      split
      · exact ⟨le_refl _, zero_le_one⟩
      · rename_i h2
        exact ⟨not_lt.mp h2, not_lt.mp h1⟩
  · cases h

/-- the per-chemical cap of the bubble-limited branch: whatever `V` and `y_bubble` are, the vapour flow never
exceeds what is there -/
theorem bubbleV_le (reg : VReg K) (V : K) (y : List K) (i : Nat) : bubbleV reg V y i ≤ get reg.mol i := by
  unfold bubbleV
  simp only
  split
  · exact le_refl _
  · rename_i h; exact not_lt.mp h

theorem bubbleV_nonneg (reg : VReg K) (V : K) (y : List K) (i : Nat) (hm : 0 ≤ get reg.mol i)
    (hV : 0 ≤ V) (hF : 0 ≤ reg.fmol) (hy : 0 ≤ get y i) : 0 ≤ bubbleV reg V y i := by
  unfold bubbleV
  simp only
  split
  · exact hm
  · exact mul_nonneg hy (mul_nonneg hF hV)

/-- the cap of the dew-limited branch: the liquid flow never exceeds what is there -/
theorem dewL_le (reg : VReg K) (V : K) (x : List K) (i : Nat) : dewL reg V x i ≤ get reg.mol i := by
  unfold dewL
  simp only
  split
  · exact le_refl _
  · rename_i h; exact not_lt.mp h

theorem dewL_nonneg (reg : VReg K) (V : K) (x : List K) (i : Nat) (hm : 0 ≤ get reg.mol i)
    (hV : V ≤ 1) (hF : 0 ≤ reg.fmol) (hx : 0 ≤ get x i) : 0 ≤ dewL reg V x i := by
  unfold dewL
  simp only
  split
  · exact hm
  · exact mul_nonneg (mul_nonneg hx hF) (by linarith)

/-- The hypothesis a step needs for non-negativity: only the steps whose vapour flows were **not**
clipped by the code carry one (it is monitored by the driver on every recorded parameter). -/
def EvOK (c : Cls K) (reg : VReg K) : VEv K → Prop
  | .solveRaw v => ∀ i < c.n, 0 ≤ get v i ∧ get v i ≤ get reg.mol i
  | .setFlowsLit v => ∀ i < c.n, i ∈ reg.idx → 0 ≤ get v i ∧ get v i ≤ get reg.mol i
  | .frac V => 0 ≤ V ∧ V ≤ 1
  | .lever _ y => 0 ≤ reg.fmol ∧ ∀ i < c.n, i ∈ reg.idx → 0 ≤ get y i
  | .bubbleLimited V y => 0 ≤ V ∧ 0 ≤ reg.fmol ∧ ∀ i < c.n, i ∈ reg.idx → 0 ≤ get y i
  | .dewLimited V x => V ≤ 1 ∧ 0 ≤ reg.fmol ∧ ∀ i < c.n, i ∈ reg.idx → 0 ≤ get x i
  | _ => True

/-- Non-negativity invariant of a VLE call whose `_setup` left the registers `reg0`. -/
structure VPos (c : Cls K) (reg0 : VReg K) (st : Rows K × VReg K) : Prop where
  g : ∀ i < c.n, 0 ≤ get st.1.g i
  l : ∀ i < c.n, 0 ≤ get st.1.l i
  mol : ∀ i < c.n, 0 ≤ get st.2.mol i
  v : ∀ v, st.2.v = some v → ∀ i < c.n, 0 ≤ get v i ∧ get v i ≤ get st.2.mol i
  same : SameReg st.2 reg0

theorem writeGL_pos (c : Cls K) (reg0 : VReg K) (st : Rows K × VReg K) (h : VPos c reg0 st) (gv lv : Nat → K)
    (hw : ∀ i < c.n, i ∈ st.2.idx → 0 ≤ gv i ∧ 0 ≤ lv i) :
    VPos c reg0 (writeGL c st.2 st.1 gv lv, st.2) := by
  refine ⟨?_, ?_, h.mol, h.v, h.same⟩
  · intro i hi
    simp only [writeGL, get_tab _ _ hi]
    by_cases hm : i ∈ st.2.idx
    · simp only [hm, if_true]; exact (hw i hi hm).1
    · simp only [hm, if_false]; exact h.g i hi
  · intro i hi
    simp only [writeGL, get_tab _ _ hi]
    by_cases hm : i ∈ st.2.idx
    · simp only [hm, if_true]; exact (hw i hi hm).2
    · simp only [hm, if_false]; exact h.l i hi

theorem vleSetup_pos (c : Cls K) (r : Rows K) (hg : ∀ i < c.n, 0 ≤ get r.g i) (hl : ∀ i < c.n, 0 ≤ get r.l i) :
    VPos c (vleSetup c r).2 (vleSetup c r) := by
  have hmol : ∀ i < c.n, 0 ≤ get (tab c.n fun i => get r.l i + get r.g i) i := by
    intro i hi
    rw [get_tab _ _ hi]
    exact add_nonneg (hl i hi) (hg i hi)
  unfold vleSetup
  simp only
  split
  · refine ⟨?_, ?_, hmol, ?_, ⟨rfl, rfl, rfl⟩⟩
    · intro i hi
      simp only [get_tab _ _ hi]
      split
      · exact add_nonneg (hl i hi) (hg i hi)
      · split
        · exact le_refl _
        · exact hg i hi
    · intro i hi
      simp only [get_tab _ _ hi]
      split
      · exact add_nonneg (hl i hi) (hg i hi)
      · split
        · exact le_refl _
        · exact hl i hi
    · intro v hv; cases hv
  · exact ⟨hg, hl, hmol, (fun v hv => by cases hv), ⟨rfl, rfl, rfl⟩⟩

theorem vleStep_pos (c : Cls K) (reg0 : VReg K) (st st' : Rows K × VReg K) (e : VEv K)
    (h : VPos c reg0 st) (hok : EvOK c reg0 e) (hs : vleStep c st e = .ok st') : VPos c reg0 st' := by
  obtain ⟨hmol0, hidx0, hf0⟩ := h.same
  cases e with
  | solve raw =>
    simp only [vleStep, Except.ok.injEq] at hs
    subst hs
    refine ⟨h.g, h.l, h.mol, ?_, h.same⟩
    intro v hv i hi
    simp only [Option.some.injEq] at hv
    subst hv
    rw [get_tab _ _ hi]
    exact clipV_bounds (h.mol i hi) _
  | solveRaw v =>
    simp only [vleStep, Except.ok.injEq] at hs
    subst hs
    refine ⟨h.g, h.l, h.mol, ?_, h.same⟩
    intro v' hv i hi
    simp only [Option.some.injEq] at hv
    subst hv
    have := hok i hi
    rw [← hmol0] at this
    exact this
  | setFlowsReg =>
    simp only [vleStep] at hs
    cases hv : st.2.v with
    | none => rw [hv] at hs; cases hs
    | some v =>
      rw [hv] at hs
      simp only [Except.ok.injEq] at hs
      subst hs
      refine writeGL_pos c reg0 st h _ _ (fun i hi _ => ?_)
      have := h.v v hv i hi
      exact ⟨this.1, by linarith [this.2]⟩
  | setFlowsLit v =>
    simp only [vleStep, Except.ok.injEq] at hs
    subst hs
    refine writeGL_pos c reg0 st h _ _ (fun i hi hm => ?_)
    have := hok i hi (hidx0 ▸ hm)
    rw [← hmol0] at this
    exact ⟨this.1, by linarith [this.2]⟩
  | allVap =>
    simp only [vleStep, Except.ok.injEq] at hs
    subst hs
    exact writeGL_pos c reg0 st h _ _ (fun i hi _ => ⟨h.mol i hi, le_refl _⟩)
  | allLiq =>
    simp only [vleStep, Except.ok.injEq] at hs
    subst hs
    exact writeGL_pos c reg0 st h _ _ (fun i hi _ => ⟨le_refl _, h.mol i hi⟩)
  | frac V =>
    simp only [vleStep, Except.ok.injEq] at hs
    subst hs
    refine writeGL_pos c reg0 st h _ _ (fun i hi _ => ?_)
    have hm := h.mol i hi
    obtain ⟨hV0, hV1⟩ := hok
    refine ⟨mul_nonneg hV0 hm, ?_⟩
    have : get st.2.mol i - V * get st.2.mol i = (1 - V) * get st.2.mol i := by ring
    rw [this]
    exact mul_nonneg (by linarith) hm
  | lever x0 y =>
    simp only [vleStep] at hs
    cases hl : leverSplit st.2 x0 y with
    | error e => rw [hl] at hs; cases hs
    | ok s =>
      rw [hl] at hs
      simp only [Except.ok.injEq] at hs
      subst hs
      obtain ⟨hs0, _⟩ := leverSplit_bounds _ _ _ hl
      refine writeGL_pos c reg0 st h _ _ (fun i hi hm => ?_)
      obtain ⟨hF, hy⟩ := hok
      have hyi := hy i hi (hidx0 ▸ hm)
      have hm' := h.mol i hi
      have hFs : 0 ≤ st.2.fmol * s * get y i := by
        rw [hf0]; exact mul_nonneg (mul_nonneg hF hs0) hyi
      unfold leverV
      simp only
      split
      · exact ⟨hm', by linarith⟩
      · rename_i hlt
        exact ⟨hFs, by linarith [not_lt.mp hlt]⟩
  | bubbleLimited V y =>
    simp only [vleStep, Except.ok.injEq] at hs
    subst hs
    refine writeGL_pos c reg0 st h _ _ (fun i hi hm => ?_)
    obtain ⟨hV, hF, hy⟩ := hok
    have hle := bubbleV_le st.2 V y i
    exact ⟨bubbleV_nonneg st.2 V y i (h.mol i hi) hV (hf0 ▸ hF) (hy i hi (hidx0 ▸ hm)), by linarith⟩
  | dewLimited V x =>
    simp only [vleStep, Except.ok.injEq] at hs
    subst hs
    refine writeGL_pos c reg0 st h _ _ (fun i hi hm => ?_)
    obtain ⟨hV, hF, hx⟩ := hok
    have hle := dewL_le st.2 V x i
    have hnn := dewL_nonneg st.2 V x i (h.mol i hi) hV (hf0 ▸ hF) (hx i hi (hidx0 ▸ hm))
    exact ⟨by linarith, by linarith⟩
  | condense f =>
    simp only [vleStep] at hs
    cases hf : corrFrac f with
    | none => rw [hf] at hs; simp only [Except.ok.injEq] at hs; subst hs; exact h
    | some f' =>
      rw [hf] at hs
      simp only [Except.ok.injEq] at hs
      subst hs
      obtain ⟨h0, h1⟩ := corrFrac_bounds hf
      refine writeGL_pos c reg0 st h _ _ (fun i hi _ => ?_)
      have hg := h.g i hi
      have hl := h.l i hi
      have e1 : get st.1.g i - f' * get st.1.g i = (1 - f') * get st.1.g i := by ring
      refine ⟨?_, add_nonneg hl (mul_nonneg h0 hg)⟩
      rw [e1]; exact mul_nonneg (by linarith) hg
  | vaporise f =>
    simp only [vleStep] at hs
    cases hf : corrFrac f with
    | none => rw [hf] at hs; simp only [Except.ok.injEq] at hs; subst hs; exact h
    | some f' =>
      rw [hf] at hs
      simp only [Except.ok.injEq] at hs
      subst hs
      obtain ⟨h0, h1⟩ := corrFrac_bounds hf
      refine writeGL_pos c reg0 st h _ _ (fun i hi _ => ?_)
      have hg := h.g i hi
      have hl := h.l i hi
      have e1 : get st.1.l i - f' * get st.1.l i = (1 - f') * get st.1.l i := by ring
      refine ⟨add_nonneg hg (mul_nonneg h0 hl), ?_⟩
      rw [e1]; exact mul_nonneg (by linarith) hl

/-- Frame: entries outside the equilibrium index are not touched by a write-back step. -/
theorem vleStep_frame (c : Cls K) (st st' : Rows K × VReg K) (e : VEv K)
    (hs : vleStep c st e = .ok st') {i : Nat} (hi : i < c.n) (hni : i ∉ st.2.idx) :
    get st'.1.g i = get st.1.g i ∧ get st'.1.l i = get st.1.l i := by
  have key : ∀ gv lv : Nat → K, get (writeGL c st.2 st.1 gv lv).g i = get st.1.g i ∧
      get (writeGL c st.2 st.1 gv lv).l i = get st.1.l i := by
    intro gv lv
    simp only [writeGL, get_tab _ _ hi, hni, if_false, and_self]
  cases e <;> simp only [vleStep] at hs
  case solve raw => cases hs; exact ⟨rfl, rfl⟩
  case solveRaw v => cases hs; exact ⟨rfl, rfl⟩
  case setFlowsReg =>
    cases hv : st.2.v with
    | none => rw [hv] at hs; cases hs
    | some v => rw [hv] at hs; cases hs; exact key _ _
  case setFlowsLit v => cases hs; exact key _ _
  case allVap => cases hs; exact key _ _
  case allLiq => cases hs; exact key _ _
  case frac V => cases hs; exact key _ _
  case lever x0 y =>
    cases hl : leverSplit st.2 x0 y with
    | error e => rw [hl] at hs; cases hs
    | ok s => rw [hl] at hs; cases hs; exact key _ _
  case bubbleLimited V y => cases hs; exact key _ _
  case dewLimited V x => cases hs; exact key _ _
  case condense f =>
    cases hf : corrFrac f with
    | none => rw [hf] at hs; cases hs; exact ⟨rfl, rfl⟩
    | some f' => rw [hf] at hs; cases hs; exact key _ _
  case vaporise f =>
    cases hf : corrFrac f with
    | none => rw [hf] at hs; cases hs; exact ⟨rfl, rfl⟩
    | some f' => rw [hf] at hs; cases hs; exact key _ _

/-! ### LLE -/

theorem lleSplitCache_sum (z : Nat → K) (phi : K) (K' : List K) (i : Nat) :
    (lleSplitCache z phi K').1 i + (lleSplitCache z phi K').2 i = z i := by
  by_cases h : phi < 1
  · simp [lleSplitCache, h]
  · simp [lleSplitCache, h]

theorem lleSplit_sum (z : Nat → K) (p : LlePath K) (i : Nat) :
    (lleSplit z p).1 i + (lleSplit z p).2 i = z i := by
  cases p with
  | solve molL => simp [lleSplit]
  | cache phi K' => exact lleSplitCache_sum z phi K' i
  | cacheRaw raw K' => exact lleSplitCache_sum z _ K' i

/-- The hypothesis on the LLE solver output under which both liquid phases stay non-negative. -/
def PathOK (z : Nat → K) (idx : List Nat) : LlePath K → Prop
  | .solve molL => ∀ i ∈ idx, 0 ≤ get molL i ∧ get molL i ≤ z i
  | .cache phi Kp => 0 ≤ phi ∧ ∀ i ∈ idx, 0 ≤ phi * get Kp i
  | .cacheRaw raw Kp => ∀ i ∈ idx, 0 ≤ asValidFraction raw * get Kp i   -- nothing about the root itself: the clip takes care of it

theorem lleSplitCache_nonneg (z : Nat → K) (phi : K) (Kp : List K) (_hphi : 0 ≤ phi) {i : Nat}
    (hKi : 0 ≤ phi * get Kp i) (hz : 0 ≤ z i) :
    0 ≤ (lleSplitCache z phi Kp).1 i ∧ 0 ≤ (lleSplitCache z phi Kp).2 i := by
  by_cases hlt : phi < 1
  · have hd : 0 < phi * get Kp i + (1 - phi) := by linarith
    have hne : phi * get Kp i + (1 - phi) ≠ 0 := ne_of_gt hd
    have e1 : z i * get Kp i / (phi * get Kp i + (1 - phi)) * phi
        = z i * (phi * get Kp i) / (phi * get Kp i + (1 - phi)) := by
      field_simp
    have h1 : 0 ≤ z i * get Kp i / (phi * get Kp i + (1 - phi)) * phi := by
      rw [e1]; exact div_nonneg (mul_nonneg hz hKi) (le_of_lt hd)
    have e : z i - z i * get Kp i / (phi * get Kp i + (1 - phi)) * phi
        = z i * (1 - phi) / (phi * get Kp i + (1 - phi)) := by
      generalize hdd : phi * get Kp i + (1 - phi) = d at hne
      have hc : z i * get Kp i / d * phi * d = z i * get Kp i * phi := by field_simp
      rw [eq_div_iff hne, sub_mul, hc, ← hdd]
      ring
    simp only [lleSplitCache, hlt, if_true]
    refine ⟨h1, ?_⟩
    rw [e]
    exact div_nonneg (mul_nonneg hz (by linarith)) (le_of_lt hd)
  · simp only [lleSplitCache, hlt, if_false]
    exact ⟨hz, by simp⟩

theorem lleSplit_nonneg (z : Nat → K) (idx : List Nat) (p : LlePath K) (hp : PathOK z idx p)
    {i : Nat} (hi : i ∈ idx) (hz : 0 ≤ z i) : 0 ≤ (lleSplit z p).1 i ∧ 0 ≤ (lleSplit z p).2 i := by
  cases p with
  | solve molL =>
    have := hp i hi
    simp only [lleSplit]
    exact ⟨by linarith [this.2], this.1⟩
  | cache phi Kp =>
    obtain ⟨hphi, hK⟩ := hp
    exact lleSplitCache_nonneg z phi Kp hphi (hK i hi) hz
  | cacheRaw raw Kp =>
    have hphi := (asValidFraction_bounds raw).1
    exact lleSplitCache_nonneg z _ Kp hphi (hp i hi) hz

/-! ### SLE -/

theorem sle_solute_split {Fliq m x : K} (hF : 0 ≤ Fliq) (hm : 0 ≤ m) (hx0 : ¬ x < 0) (hx : x < m / (Fliq + m)) :
    0 ≤ Fliq * x / (1 - x) ∧ 0 ≤ m - Fliq * x / (1 - x) := by
  have hx0' : 0 ≤ x := not_lt.mp hx0
  have hD : 0 < Fliq + m := by
    rcases lt_or_eq_of_le (add_nonneg hF hm) with h | h
    · exact h
    · rw [← h, div_zero] at hx
      exact absurd hx hx0
  have h1 : x * (Fliq + m) < m := (lt_div_iff₀ hD).mp hx
  have hx1 : x < 1 := by
    by_contra hge
    have hge' : 1 ≤ x := not_lt.mp hge
    have : Fliq + m ≤ x * (Fliq + m) := by nlinarith
    linarith
  have h1x : 0 < 1 - x := by linarith
  refine ⟨div_nonneg (mul_nonneg hF hx0') (le_of_lt h1x), ?_⟩
  have : Fliq * x / (1 - x) ≤ m := by
    rw [div_le_iff₀ h1x]
    nlinarith
  linarith

/-! ### folds with a hypothesis on the state reached before each step -/

theorem foldlM_inv_dep {σ ε β : Type} (P : σ → Prop) (Q : σ → β → Prop) (f : σ → β → Except ε σ)
    (hf : ∀ s b s', P s → Q s b → f s b = .ok s' → P s') :
    ∀ (l : List β) (s s' : σ), P s →
      (∀ pre b post s1, l = pre ++ b :: post → pre.foldlM f s = .ok s1 → Q s1 b) →
      l.foldlM f s = .ok s' → P s' := by
  intro l
  induction l with
  | nil =>
    intro s s' hs _ h
    simp only [List.foldlM_nil] at h
    cases h; exact hs
  | cons b bs ih =>
    intro s s' hs hQ h
    simp only [List.foldlM_cons] at h
    have hq : Q s b := hQ [] b bs s rfl rfl
    cases hfb : f s b with
    | error e => rw [hfb] at h; cases h
    | ok s1 =>
      rw [hfb] at h
      refine ih s1 s' (hf s b s1 hs hq hfb) ?_ h
      intro pre b' post s2 hl hpre
      refine hQ (b :: pre) b' post s2 (by rw [hl]; rfl) ?_
      simp only [List.foldlM_cons, hfb]
      exact hpre

/-! ### vlle skeleton -/

/-- total flow of chemical `i` over the three rows `Stream.vlle` works on -/
def colsum (r : Rows K) (i : Nat) : K := get r.g i + get r.l i + get r.L i

theorem colsum_pool (c : Cls K) (r : Rows K) {i : Nat} (hi : i < c.n) : colsum (vllePool c r) i = colsum r i := by
  simp only [colsum, vllePool, get_tab _ _ hi]; ring

theorem colsum_swap (r : Rows K) (i : Nat) : colsum (vlleSwap r) i = colsum r i := by
  simp only [colsum, vlleSwap]; ring

theorem colsum_scale (c : Cls K) (r : Rows K) (k : K) {i : Nat} (hi : i < c.n) :
    colsum (scaleRows c r fun _ x => x * k) i = colsum r i * k := by
  simp only [colsum, scaleRows, get_tab _ _ hi]; ring

theorem colsum_normalise (c : Cls K) (r : Rows K) (t : K) {i : Nat} (hi : i < c.n) :
    colsum (vlleNormalise c r t) i = colsum r i / t := by
  simp only [colsum, vlleNormalise, scaleRows, get_tab _ _ hi]; ring

theorem colsum_finish (c : Cls K) (r : Rows K) (t : K) {i : Nat} (hi : i < c.n) :
    colsum (vlleFinish c r t) i = colsum r i * t := by
  unfold vlleFinish
  simp only
  split
  · rw [colsum_scale c _ t hi, colsum_pool c r hi]
  · rw [colsum_scale c _ t hi]

/-! ### moved helper lemmas (frames, index, LLE phases, vlle totals) -/

/-- Entries of chemicals outside the equilibrium index after a whole call are those `_setup` left. -/
theorem vle_frame (c : Cls K) (r : Rows K) (evs : List (VEv K)) (r' : Rows K) (reg' : VReg K)
    (h : vleCall c r evs = .ok (r', reg')) {i : Nat} (hi : i < c.n) (hni : i ∉ (vleSetup c r).2.idx) :
    get r'.g i = get (vleSetup c r).1.g i ∧ get r'.l i = get (vleSetup c r).1.l i := by
  let P : Rows K × VReg K → Prop := fun st =>
    st.2.idx = (vleSetup c r).2.idx ∧ get st.1.g i = get (vleSetup c r).1.g i ∧ get st.1.l i = get (vleSetup c r).1.l i
  have inv : P (r', reg') :=
    foldlM_inv P (fun _ => True) (vleStep c)
      (fun s b s' hs _ hf => by
        obtain ⟨hidx, hgs, hls⟩ := hs
        have hfr := vleStep_frame c s s' b hf hi (by rw [hidx]; exact hni)
        exact ⟨(vleStep_sameReg c s s' b hf).2.1.trans hidx, hfr.1.trans hgs, hfr.2.trans hls⟩)
      evs _ _ ⟨rfl, rfl, rfl⟩ (fun _ _ => trivial) h
  exact ⟨inv.2.1, inv.2.2⟩

theorem vleSetup_idx_sub (c : Cls K) (r : Rows K) : ∀ i ∈ (vleSetup c r).2.idx, i ∈ c.vle := by
  intro i hi
  unfold vleSetup at hi
  simp only at hi
  split at hi
  · exact (List.mem_filter.mp hi).1
  · simp at hi

/-- `not mol.any()`: every pooled total is zero -/
theorem all_zero_of_not_any (c : Cls K) (mol : List K)
    (h : ¬ ((List.range c.n).any (fun i => isNZ (get mol i)) = true)) : ∀ i < c.n, get mol i = 0 := by
  intro i hi
  by_contra hne
  apply h
  rw [List.any_eq_true]
  exact ⟨i, List.mem_range.mpr hi, (isNZ_iff _).mpr hne⟩


theorem llePhases_sum (c : Cls K) (idx : List Nat) (top : Option Nat) (z : Nat → K) (p : LlePath K) (i : Nat) :
    (llePhases c idx top z p).1 i + (llePhases c idx top z p).2 i = z i := by
  unfold llePhases
  simp only
  split
  · rw [add_comm]; exact lleSplit_sum z p i
  · exact lleSplit_sum z p i

theorem llePhases_nonneg (c : Cls K) (idx : List Nat) (top : Option Nat) (z : Nat → K) (p : LlePath K)
    (hp : PathOK z idx p) {i : Nat} (hi : i ∈ idx) (hz : 0 ≤ z i) :
    0 ≤ (llePhases c idx top z p).1 i ∧ 0 ≤ (llePhases c idx top z p).2 i := by
  have := lleSplit_nonneg z idx p hp hi hz
  unfold llePhases
  simp only
  split
  · exact ⟨this.2, this.1⟩
  · exact this


/-- all three rows non-negative -/
def RowsNonneg (c : Cls K) (r : Rows K) : Prop :=
  ∀ i < c.n, 0 ≤ get r.g i ∧ 0 ≤ get r.l i ∧ 0 ≤ get r.L i

theorem vlleTotal_nonneg (c : Cls K) (r : Rows K) (h : RowsNonneg c r) : 0 ≤ vlleTotal c r := by
  unfold vlleTotal
  have hr : ∀ i ∈ List.range c.n, i < c.n := fun i hi => List.mem_range.mp hi
  have h1 := sumOver_nonneg (List.range c.n) (get r.L) (fun i hi => (h i (hr i hi)).2.2)
  have h2 := sumOver_nonneg (List.range c.n) (get r.g) (fun i hi => (h i (hr i hi)).1)
  have h3 := sumOver_nonneg (List.range c.n) (get r.l) (fun i hi => (h i (hr i hi)).2.1)
  linarith


/-! ### what `_setup` keeps between calls -/

theorem get_tab_ge (n : Nat) (f : Nat → K) {i : Nat} (h : n ≤ i) : get (tab n f) i = 0 := by
  simp [get, tab, List.getD_eq_getElem?_getD, h]

theorem isNZ_zero : isNZ (0 : K) = false := by
  have : ¬ (isNZ (0 : K) = true) := fun h => (isNZ_iff (0 : K)).mp h rfl
  simpa using this

/-- membership in `mol.nonzero_keys()` decides Python truthiness of every entry of a pooled vector -/
theorem isNZ_eq_mem_nzKeys (c : Cls K) (f : Nat → K) (i : Nat) :
    isNZ (get (tab c.n f) i) = decide (i ∈ nzKeys c (tab c.n f)) := by
  by_cases hi : i < c.n
  · by_cases hz : isNZ (get (tab c.n f) i) = true
    · have : i ∈ nzKeys c (tab c.n f) := by
        unfold nzKeys; exact List.mem_filter.mpr ⟨List.mem_range.mpr hi, hz⟩
      simp [hz, this]
    · have : i ∉ nzKeys c (tab c.n f) := by
        unfold nzKeys; intro hm; exact hz (List.mem_filter.mp hm).2
      simp only [Bool.not_eq_true] at hz
      simp [hz, this]
  · have hge : c.n ≤ i := not_lt.mp hi
    have : i ∉ nzKeys c (tab c.n f) := by
      unfold nzKeys; intro hm; exact hi (List.mem_range.mp (List.mem_filter.mp hm).1)
    rw [get_tab_ge _ _ hge, isNZ_zero]
    simp [this]

/-- the index is a function of the set of nonzero keys: `[i for i in self._vle_index if i in nonzeros]` -/
theorem vleIndex_eq_filter_nzKeys (c : Cls K) (f : Nat → K) :
    vleIndex c (tab c.n f) = c.vle.filter fun i => decide (i ∈ nzKeys c (tab c.n f)) := by
  unfold vleIndex
  exact List.filter_congr (fun i _ => isNZ_eq_mem_nzKeys c f i)

theorem lleIndex_eq_filter_nzKeys (c : Cls K) (f : Nat → K) :
    lleIndex c (tab c.n f) = c.lle.filter fun i => decide (i ∈ nzKeys c (tab c.n f)) := by
  unfold lleIndex
  exact List.filter_congr (fun i _ => isNZ_eq_mem_nzKeys c f i)

/-- Consistency of what a VLE object remembers: the stored index is the index of the stored key set. -/
def VCacheOK (c : Cls K) : Option VCache → Prop
  | none => True
  | some k => k.idx = c.vle.filter fun i => decide (i ∈ k.nz)

/-- **The reset decision of `_setup` is sound**: with a consistent cache, re-using the stored index gives
exactly what a fresh `_setup` computes, and the cache stays consistent. -/
theorem vleSetupC_eq (c : Cls K) (cache : Option VCache) (hc : VCacheOK c cache) (r : Rows K) :
    (vleSetupC c cache r).1 = vleSetup c r ∧ VCacheOK c (vleSetupC c cache r).2.1 := by
  unfold vleSetupC vleSetup
  simp only
  split
  · cases cache with
    | none => exact ⟨rfl, vleIndex_eq_filter_nzKeys c _⟩
    | some k =>
      simp only
      split
      · rename_i hk
        refine ⟨?_, hc⟩
        have : k.idx = vleIndex c (tab c.n fun i => get r.l i + get r.g i) := by
          rw [vleIndex_eq_filter_nzKeys, ← hk]; exact hc
        simp only [vleSetupWith, this]
      · exact ⟨rfl, vleIndex_eq_filter_nzKeys c _⟩
  · exact ⟨rfl, hc⟩

/-- Consistency of what an SLE object remembers. -/
def SCacheOK (c : Cls K) (k : SCache) : Prop :=
  ∀ nz, k.nz = some nz → k.idx = c.lle.filter fun i => decide (i ∈ nz)

theorem sleSetupC_ok (c : Cls K) (cache : SCache) (hc : SCacheOK c cache) (r : Rows K) (j : Nat) :
    SCacheOK c (sleSetupC c cache r j).1 := by
  have hfresh : ∀ k : SCache, k.nz = some (nzKeys c (tab c.n fun i => get r.l i + get r.s i)) →
      k.idx = lleIndex c (tab c.n fun i => get r.l i + get r.s i) → SCacheOK c k := by
    intro k h1 h2 nz hnz
    rw [h1] at hnz
    simp only [Option.some.injEq] at hnz
    subst hnz
    rw [h2]; exact lleIndex_eq_filter_nzKeys c _
  unfold sleSetupC
  simp only
  split
  · split
    · split
      · intro nz hnz; exact hc nz hnz
      · split <;> exact hc
    · split
      · exact hfresh _ rfl rfl
      · split <;> exact hfresh _ rfl rfl
  · exact hc

/-! ### auxiliary facts formerly counted among the property theorems (clip lemma, phase-fraction clip, lever-rule
facts about the pre-repair code and the tie line, `_F_mol ≥ 0`, the limited branches meet the `set_flows` hypothesis,
one cached call equals a fresh call) -/

/-- The solver result is clipped into `[0, mol]` whatever it is (the clip lemma of DESIGN §8.1). -/
theorem solve_clip (total v : K) (ht : 0 ≤ total) :
    clipV total v + (total - clipV total v) = total ∧ 0 ≤ clipV total v ∧ 0 ≤ total - clipV total v :=
  clip_writeback ht v

/-- `binary_phase_fraction.phase_fraction` ends in `as_valid_fraction`: whatever the Rachford–Rice solver
returned, the phase fraction used by the cached path lies in `[0, 1]`. -/
theorem phase_fraction_clipped (x : K) : 0 ≤ asValidFraction x ∧ asValidFraction x ≤ 1 :=
  asValidFraction_bounds x

/-- On the tie line the limit of `leverV` is inactive: for a binary whose overall composition satisfies
`z = s·y + (1−s)·x` with an un-clipped `s ≤ 1`, `x, y` normalised and `x ∈ [0,1]`, the vapour flows
`F·s·y` never exceed what is there — the proposed repair changes nothing for feasible specifications. -/
theorem lever_limit_inactive_on_tie_line (F ma mb xa ya s : K) (hF : 0 ≤ F) (hsum : ma + mb = F)
    (hs1 : s ≤ 1) (hx0 : 0 ≤ xa) (hx1 : xa ≤ 1)
    (htie : ma = F * (s * ya + (1 - s) * xa)) :
    F * s * ya ≤ ma ∧ F * s * (1 - ya) ≤ mb := by
  have h1 : 0 ≤ F * ((1 - s) * xa) := mul_nonneg hF (mul_nonneg (by linarith) hx0)
  have h2 : 0 ≤ F * ((1 - s) * (1 - xa)) := mul_nonneg hF (mul_nonneg (by linarith) (by linarith))
  constructor
  · rw [htie]; nlinarith
  · have : mb = F - ma := by linarith
    rw [this, htie]; nlinarith

/-- `_lever_rule` as found in the tree writes `liquid = mol − F_mol·split_frac·y` without limiting the vapour
flow to what is there.  Witness: 2 + 1 kmol of a binary, `x₀ = 1/2`, dew composition `y₀ = 2/3 − 10⁻⁶`: the
split fraction is `1/(1 − 6·10⁻⁶) ∈ (1, 1.00001)`, passes the range check, is clipped to 1, and the liquid
flow of the second chemical becomes `−3·10⁻⁶`.  (The model's `leverV` carries the proposed limit.) -/
theorem lever_unlimited_counterexample :
    (match leverSplit ({ mol := [2, 1], idx := [0, 1], fmol := 3, v := none } : VReg ℚ) (1/2)
        [2/3 - 1/1000000, 1/3 + 1/1000000] with | .ok s => some s | .error _ => none) = some 1
    ∧ (1 : ℚ) - 3 * 1 * (1/3 + 1/1000000) < 0
    ∧ 0 ≤ (1 : ℚ) - leverV ({ mol := [2, 1], idx := [0, 1], fmol := 3, v := none } : VReg ℚ) 1
        [2/3 - 1/1000000, 1/3 + 1/1000000] 1 := by
  decide +kernel

/-- `_F_mol ≥ 0` (a hypothesis of the lever and limited steps) follows from non-negative flows and
non-negative `N_solutes` of the heavy chemicals. -/
theorem vleSetup_fmol_nonneg (c : Cls K) (r : Rows K) (hg : ∀ i < c.n, 0 ≤ get r.g i) (hl : ∀ i < c.n, 0 ≤ get r.l i)
    (hhs : ∀ h ∈ c.hs, 0 ≤ h) : 0 ≤ (vleSetup c r).2.fmol := by
  have hall : ∀ i, 0 ≤ get (tab c.n fun i => get r.l i + get r.g i) i := by
    intro i
    by_cases hi : i < c.n
    · rw [get_tab _ _ hi]; exact add_nonneg (hl i hi) (hg i hi)
    · rw [get_tab_ge _ _ (not_lt.mp hi)]
  unfold vleSetup
  simp only
  split
  · simp only
    have h1 := sumOver_nonneg (vleIndex c (tab c.n fun i => get r.l i + get r.g i)) _ (fun i _ => hall i)
    have h2 := sumOver_nonneg c.light _ (fun i _ => hall i)
    have h3 : (0 : K) ≤ ((c.heavy.zip c.hs).map fun p =>
        get (tab c.n fun i => get r.l i + get r.g i) p.1 * p.2).foldl (· + ·) 0 := by
      apply foldl_add_ge
      intro x hx
      obtain ⟨p, hp, rfl⟩ := List.mem_map.mp hx
      exact mul_nonneg (hall p.1) (hhs p.2 (List.of_mem_zip hp).2)
    linarith
  · exact le_refl _

/-- The vapour flows of the bubble-limited branch satisfy the hypothesis `0 ≤ v ≤ mol` that `set_flows` with an
un-clipped source needs (what used to be monitored is now a consequence of the cap). -/
theorem bubble_limited_meets_setflows_hypothesis (c : Cls K) (reg : VReg K) (V : K) (y : List K)
    (hmol : ∀ i < c.n, 0 ≤ get reg.mol i) (h : EvOK c reg (.bubbleLimited V y)) :
    EvOK c reg (.setFlowsLit (tab c.n (bubbleV reg V y))) := by
  obtain ⟨hV, hF, hy⟩ := h
  intro i hi hm
  rw [get_tab _ _ hi]
  exact ⟨bubbleV_nonneg reg V y i (hmol i hi) hV hF (hy i hi hm), bubbleV_le reg V y i⟩

theorem dew_limited_meets_setflows_hypothesis (c : Cls K) (reg : VReg K) (V : K) (x : List K)
    (hmol : ∀ i < c.n, 0 ≤ get reg.mol i) (h : EvOK c reg (.dewLimited V x)) :
    EvOK c reg (.setFlowsLit (tab c.n fun i => get reg.mol i - dewL reg V x i)) := by
  obtain ⟨hV, hF, hx⟩ := h
  intro i hi hm
  rw [get_tab _ _ hi]
  have h1 := dewL_nonneg reg V x i (hmol i hi) hV hF (hx i hi hm)
  have h2 := dewL_le reg V x i
  exact ⟨by linarith, by linarith⟩

theorem vleCallC_eq (c : Cls K) (cache : Option VCache) (hc : VCacheOK c cache) (r : Rows K) (evs : List (VEv K)) :
    (vleCallC c cache r evs).1 = vleCall c r evs ∧ VCacheOK c (vleCallC c cache r evs).2 := by
  obtain ⟨h1, h2⟩ := vleSetupC_eq c cache hc r
  exact ⟨by simp only [vleCallC, vleCall, h1], h2⟩


end ThermoVerif.EqWriteback
