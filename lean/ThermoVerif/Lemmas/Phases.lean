import ThermoVerif.Model.Phases
import Mathlib.Tactic.Ring
import Mathlib.Data.List.Nodup
/-
Helper lemmas for Props/C12: sums over lists of rationals, the effect of each primitive of
Model/Phases.lean on the observables (totals, rows, T, P), and the invariants `Live` and `WF`.
-/
namespace ThermoVerif.Phases

/-! ### sums over lists -/

theorem sum_map_zero {β : Type} (s : List β) : (s.map (fun _ => (0:Rat))).sum = 0 := by
  induction s with
  | nil => rfl
  | cons a s ih => rw [List.map_cons, List.sum_cons, ih]; ring

@[simp] theorem sum_replicate_zero (n : Nat) : (List.replicate n (0:Rat)).sum = 0 := by
  induction n with
  | zero => rfl
  | succ n ih => rw [List.replicate_succ, List.sum_cons, ih]; ring

theorem sum_map_add {β : Type} (s : List β) (f g : β → Rat) :
    (s.map (fun x => f x + g x)).sum = (s.map f).sum + (s.map g).sum := by
  induction s with
  | nil => simp
  | cons a s ih => simp only [List.map_cons, List.sum_cons, ih]; ring

theorem sum_comm {α β : Type} (t : List α) (s : List β) (f : β → α → Rat) :
    (t.map (fun q => (s.map (fun x => f x q)).sum)).sum
      = (s.map (fun x => (t.map (fun q => f x q)).sum)).sum := by
  induction t with
  | nil => simp [sum_map_zero]
  | cons a t ih => simp only [List.map_cons, List.sum_cons, ih, sum_map_add]

theorem sum_map_congr {β : Type} (s : List β) (f g : β → Rat) (h : ∀ x ∈ s, f x = g x) :
    (s.map f).sum = (s.map g).sum := by
  rw [List.map_congr_left h]

theorem sum_ite_eq_of_not_mem {α : Type} [DecidableEq α] (t : List α) (q : α) (c : Rat)
    (hq : q ∉ t) : (t.map (fun q' => if q = q' then c else 0)).sum = 0 := by
  have : (t.map (fun q' => if q = q' then c else 0)) = t.map (fun _ => (0:Rat)) := by
    apply List.map_congr_left
    intro x hx
    have : q ≠ x := fun e => hq (e ▸ hx)
    simp [this]
  rw [this, sum_map_zero]

theorem sum_ite_eq_of_mem {α : Type} [DecidableEq α] (t : List α) (q : α) (c : Rat)
    (hn : t.Nodup) (hq : q ∈ t) : (t.map (fun q' => if q = q' then c else 0)).sum = c := by
  induction t with
  | nil => cases hq
  | cons a t ih =>
    rw [List.nodup_cons] at hn
    simp only [List.map_cons, List.sum_cons]
    by_cases h : q = a
    · subst h
      rw [sum_ite_eq_of_not_mem t q c hn.1]; simp
    · have hq' : q ∈ t := by
        rcases List.mem_cons.1 hq with h' | h'
        · exact absurd h' h
        · exact h'
      simp [h, ih hn.2 hq']

theorem sum_filter {β : Type} (s : List β) (p : β → Bool) (f : β → Rat) :
    ((s.filter p).map f).sum = (s.map (fun x => if p x then f x else 0)).sum := by
  induction s with
  | nil => rfl
  | cons a s ih =>
    by_cases h : p a <;> simp [h, ih]

theorem zip_range'_map {α β γ δ : Type} (t : List α) (vals : List β) (a : Nat) (F : Nat → γ) (G : β → γ)
    (H : α → γ → δ) (hl : t.length = vals.length)
    (hF : ∀ j (h : j < vals.length), F (a + j) = G vals[j]) :
    (t.zip (List.range' a vals.length)).map (fun x => H x.1 (F x.2))
      = (t.zip vals).map (fun y => H y.1 (G y.2)) := by
  induction t generalizing vals a with
  | nil => simp
  | cons q t ih =>
    cases vals with
    | nil => simp at hl
    | cons v vals =>
      simp only [List.length_cons, List.range'_succ, List.zip_cons_cons, List.map_cons]
      have h0 := hF 0 (by simp)
      simp only [Nat.add_zero, List.getElem_cons_zero] at h0
      rw [h0]
      congr 1
      apply ih vals (a + 1) (by simpa using hl)
      intro j hj
      have := hF (j + 1) (by simpa using hj)
      simpa [Nat.add_assoc, Nat.add_comm 1 j] using this

theorem zip_map_self {α β : Type} (t : List α) (g : α → β) :
    t.zip (t.map g) = t.map (fun q => (q, g q)) := by
  induction t with
  | nil => rfl
  | cons a t ih => simp [ih]

theorem map_fst_zip_range' {α : Type} (t : List α) (a : Nat) :
    (t.zip (List.range' a t.length)).map (·.1) = t := by
  induction t generalizing a with
  | nil => rfl
  | cons q t ih => simp [List.range'_succ, ih]

theorem map_snd_zip_range' {α : Type} (t : List α) (a : Nat) :
    (t.zip (List.range' a t.length)).map (·.2) = List.range' a t.length := by
  induction t generalizing a with
  | nil => rfl
  | cons q t ih => simp [List.range'_succ, ih]

/-! ### phases -/

theorem Ph.all_nodup : Ph.all.Nodup := by decide

theorem Ph.mem_all (p : Ph) : p ∈ Ph.all := by cases p <;> decide

theorem phaseTuple_nodup (ps : List Ph) : (phaseTuple ps).Nodup :=
  List.Nodup.sublist List.filter_sublist Ph.all_nodup

theorem mem_phaseTuple {ps : List Ph} {p : Ph} : p ∈ phaseTuple ps ↔ p ∈ ps := by
  simp [phaseTuple, Ph.mem_all]

theorem phaseTuple_idem (ps : List Ph) : phaseTuple (phaseTuple ps) = phaseTuple ps := by
  unfold phaseTuple
  apply List.filter_congr
  intro p _
  have := @mem_phaseTuple ps p
  unfold phaseTuple at this
  by_cases h : p ∈ ps
  · simp [h, Ph.mem_all]
  · simp [h]

theorem dest_mem {t : List Ph} {p q : Ph} (h : dest t p = some q) : q ∈ t := by
  unfold dest at h
  split at h
  · rename_i hc
    cases h
    simpa using hc
  · split at h
    · split at h
      · rename_i hc
        cases h
        simpa using hc
      · cases h
    · cases h

theorem dest_of_mem {t : List Ph} {p : Ph} (h : p ∈ t) : dest t p = some p := by
  simp [dest, h]

theorem isEmptyVal_zero {n : Nat} {v : Nat → Rat} (h : isEmptyVal n v = true) {i : Nat} (hi : i < n) :
    v i = 0 := by
  unfold isEmptyVal at h
  rw [List.all_eq_true] at h
  have := h i (List.mem_range.2 hi)
  simpa using this

/-! ### allocation -/

@[simp] theorem allocRows_ids (w : World) (vals : List (Nat → Rat)) :
    (w.allocRows vals).2 = List.range' w.nRow vals.length := rfl

theorem allocRows_row_new (w : World) (vals : List (Nat → Rat)) (j : Nat) (h : j < vals.length) :
    (w.allocRows vals).1.row (w.nRow + j) = vals[j] := by
  simp [World.allocRows, h, List.getD_eq_getElem?_getD]

theorem allocRows_row_old (w : World) (vals : List (Nat → Rat)) (r : Nat) (h : r < w.nRow) :
    (w.allocRows vals).1.row r = w.row r := by
  have : ¬ w.nRow ≤ r := Nat.not_le.2 h
  simp [World.allocRows, this]

/-! ### totals, T, P of stream `k` under the primitives -/

/-- what every conversion of stream `k` preserves -/
def Same (w w' : World) (k : Nat) : Prop :=
  (∀ i, i < w.n → w'.total k i = w.total k i) ∧ w'.temp k = w.temp k ∧ w'.pres k = w.pres k ∧ w'.n = w.n

theorem Same.refl (w : World) (k : Nat) : Same w w k := ⟨fun _ _ => rfl, rfl, rfl, rfl⟩

theorem Same.trans {a b c : World} {k : Nat} (h1 : Same a b k) (h2 : Same b c k) : Same a c k :=
  ⟨fun i hi => (h2.1 i (h1.2.2.2 ▸ hi)).trans (h1.1 i hi), h2.2.1.trans h1.2.1,
   h2.2.2.1.trans h1.2.2.1, h2.2.2.2.trans h1.2.2.2⟩

theorem relabel_pr (w : World) (k : Nat) (q : Ph) :
    (w.relabel k q).pr k = (w.pr k).map (fun x => (q, x.2)) := by
  simp [World.relabel, World.pr, World.setIpr]

theorem relabel_same (w : World) (k : Nat) (q : Ph) : Same w (w.relabel k q) k := by
  refine ⟨fun i _ => ?_, rfl, rfl, rfl⟩
  simp [World.total, relabel_pr, List.map_map, Function.comp_def]
  rfl

theorem toSingle_pr (w : World) (k : Nat) (q : Ph) : (w.toSingle k q).pr k = [(q, w.nRow)] := by
  simp [World.toSingle, World.pr, World.setStr, World.setCache, World.allocImol, World.allocRows]

theorem toSingle_row (w : World) (k : Nat) (q : Ph) (i : Nat) :
    (w.toSingle k q).row w.nRow i = w.total k i := by
  simp [World.toSingle, World.setStr, World.setCache, World.allocImol, World.allocRows, World.total,
    List.map_map, Function.comp_def]

theorem toSingle_same (w : World) (k : Nat) (q : Ph) : Same w (w.toSingle k q) k := by
  refine ⟨fun i _ => ?_, ?_, ?_, rfl⟩
  · simp [World.total, toSingle_pr, toSingle_row]
  · simp [World.temp, World.toSingle, World.setStr, World.setCache, World.allocImol, World.allocRows]
  · simp [World.pres, World.toSingle, World.setStr, World.setCache, World.allocImol, World.allocRows]

@[simp] theorem moveVals_length (srcs : List (Ph × (Nat → Rat) × Bool)) (t : List Ph) :
    (moveVals srcs t).length = t.length := by simp [moveVals]

/-- everything a successful `toMulti` determines about stream `k`, except the view store and the cache -/
theorem toMulti_ok {w w' : World} {k : Nat} {t : List Ph} (h : w.toMulti k t = .ok w') :
    (∀ s ∈ w.sources k, s.2.2 = true → (dest t s.1).isSome = true) ∧
    w'.n = w.n ∧ w'.T = w.T ∧ w'.P = w.P ∧ (w'.str k).tc = (w.str k).tc ∧
    w'.pr k = t.zip (List.range' w.nRow t.length) ∧
    w'.row = (w.allocRows (moveVals (w.sources k) t)).1.row ∧
    w'.snaps = w.snaps ∧ (w'.str k).multi = true ∧ w'.nStr = w.nStr := by
  unfold World.toMulti at h
  simp only [] at h
  split at h
  · rename_i hall
    have hall' : ∀ s ∈ w.sources k, s.2.2 = true → (dest t s.1).isSome = true := by
      intro s hs hne
      rw [List.all_eq_true] at hall
      have := hall s hs
      simpa [hne] using this
    split at h
    · rename_i hm
      injection h with h; subst h
      exact ⟨hall', by simp [World.pr, World.setStr, World.rebind, World.allocImol, World.allocRows, hm]⟩
    · injection h with h; subst h
      exact ⟨hall', by simp [World.pr, World.setStr, World.allocCache, World.allocImol, World.allocRows]⟩
  · cases h

theorem toMulti_phases {w w' : World} {k : Nat} {t : List Ph} (h : w.toMulti k t = .ok w') :
    w'.phases k = t := by
  have := (toMulti_ok h).2.2.2.2.2.1
  simp [World.phases, this, map_fst_zip_range']

/-- what row `q` of the rebuilt indexer receives -/
def moved (srcs : List (Ph × (Nat → Rat) × Bool)) (t : List Ph) (q : Ph) (i : Nat) : Rat :=
  (srcs.map (fun s => if s.2.2 && dest t s.1 == some q then s.2.1 i else 0)).sum

theorem moveVals_eq (srcs : List (Ph × (Nat → Rat) × Bool)) (t : List Ph) :
    moveVals srcs t = t.map (fun q i => moved srcs t q i) := rfl

/-- sums over the rows of the rebuilt indexer, weighted by a function of the label -/
theorem toMulti_sum {w w' : World} {k : Nat} {t : List Ph} (h : w.toMulti k t = .ok w')
    (H : Ph → Rat → Rat) (i : Nat) :
    ((w'.pr k).map (fun x => H x.1 (w'.row x.2 i))).sum
      = (t.map (fun q => H q (moved (w.sources k) t q i))).sum := by
  obtain ⟨_, _, _, _, _, hpr, hrow, _⟩ := toMulti_ok h
  rw [hpr, hrow]
  have hl : t.length = (moveVals (w.sources k) t).length := by simp
  have := zip_range'_map t (moveVals (w.sources k) t) w.nRow
    (fun r => (w.allocRows (moveVals (w.sources k) t)).1.row r i) (fun v => v i) H hl
    (fun j hj => by rw [allocRows_row_new w _ j hj])
  rw [moveVals_length] at this
  rw [this, moveVals_eq, zip_map_self, List.map_map]
  rfl

theorem toMulti_rowAt {w w' : World} {k : Nat} {t : List Ph} (h : w.toMulti k t = .ok w') (ht : t.Nodup)
    (q : Ph) (i : Nat) :
    w'.rowAt k q i = if q ∈ t then moved (w.sources k) t q i else 0 := by
  unfold World.rowAt
  rw [sum_filter]
  have := toMulti_sum h (fun p c => if p == q then c else 0) i
  rw [this]
  have e : (t.map (fun q' => if (q' == q) = true then moved (w.sources k) t q' i else 0))
      = t.map (fun q' => if q = q' then moved (w.sources k) t q i else 0) := by
    apply List.map_congr_left
    intro q' _
    by_cases hq : q' = q
    · subst hq; simp
    · have : ¬ q = q' := fun e => hq e.symm
      simp [hq, this]
  rw [e]
  by_cases hq : q ∈ t
  · rw [sum_ite_eq_of_mem t q _ ht hq]; simp [hq]
  · rw [sum_ite_eq_of_not_mem t q _ hq]; simp [hq]

theorem sources_total (w : World) (k : Nat) (i : Nat) :
    ((w.sources k).map (fun s => s.2.1 i)).sum = w.total k i := by
  simp [World.sources, World.total, List.map_map, Function.comp_def]

theorem sources_empty_zero {w : World} {k : Nat} {s : Ph × (Nat → Rat) × Bool} (hs : s ∈ w.sources k)
    (hne : s.2.2 = false) {i : Nat} (hi : i < w.n) : s.2.1 i = 0 := by
  simp only [World.sources, List.mem_map] at hs
  obtain ⟨x, _, rfl⟩ := hs
  simp only [Bool.not_eq_false'] at hne
  exact isEmptyVal_zero hne hi

theorem toMulti_total {w w' : World} {k : Nat} {t : List Ph} (h : w.toMulti k t = .ok w') (ht : t.Nodup)
    {i : Nat} (hi : i < w.n) : w'.total k i = w.total k i := by
  have e1 : w'.total k i = (t.map (fun q => moved (w.sources k) t q i)).sum :=
    toMulti_sum h (fun _ c => c) i
  rw [e1, ← sources_total w k i]
  unfold moved
  rw [sum_comm]
  apply sum_map_congr
  intro s hs
  have hd := (toMulti_ok h).1 s hs
  cases hne : s.2.2 with
  | false => simp [sum_map_zero, sources_empty_zero hs hne hi]
  | true =>
    have := hd hne
    obtain ⟨q0, hq0⟩ := Option.isSome_iff_exists.1 this
    have hmem := dest_mem hq0
    have e : (t.map (fun q => if (true && dest t s.1 == some q) = true then s.2.1 i else 0))
        = t.map (fun q => if q0 = q then s.2.1 i else 0) := by
      apply List.map_congr_left
      intro q _
      simp [hq0]
    rw [e, sum_ite_eq_of_mem t q0 _ ht hmem]

theorem toMulti_same {w w' : World} {k : Nat} {t : List Ph} (h : w.toMulti k t = .ok w') (ht : t.Nodup) :
    Same w w' k := by
  obtain ⟨_, hn, hT, hP, htc, _⟩ := toMulti_ok h
  exact ⟨fun i hi => toMulti_total h ht hi, by simp [World.temp, hT, htc], by simp [World.pres, hP, htc], hn⟩

/-- the ways `setPhases` can succeed -/
theorem setPhases_cases {w w' : World} {k : Nat} {ps : List Ph} (h : w.setPhases k ps = .ok w') :
    (∃ q, phaseTuple ps = [q] ∧ (w.str k).multi = true ∧ w' = w.toSingle k q) ∨
    (∃ q, phaseTuple ps = [q] ∧ (w.str k).multi = false ∧ w' = w.relabel k q) ∨
    (2 ≤ (phaseTuple ps).length ∧ (w.str k).multi = true ∧ phaseTuple ps = w.phases k ∧ w' = w) ∨
    (2 ≤ (phaseTuple ps).length ∧ ¬ ((w.str k).multi = true ∧ phaseTuple ps = w.phases k) ∧
      w.toMulti k (phaseTuple ps) = .ok w') := by
  unfold World.setPhases at h
  simp only [] at h
  split at h
  · cases h
  · rename_i q hq
    split at h
    · rename_i hm
      injection h with h
      exact Or.inl ⟨q, hq, hm, h.symm⟩
    · rename_i hm
      injection h with h
      exact Or.inr (Or.inl ⟨q, hq, by simpa using hm, h.symm⟩)
  · rename_i h0 h1
    have hlen : 2 ≤ (phaseTuple ps).length := by
      match hp : phaseTuple ps with
      | [] => exact absurd hp h0
      | [q] => exact absurd hp (h1 q)
      | _ :: _ :: _ => simp
    split at h
    · rename_i hc
      injection h with h
      simp only [Bool.and_eq_true, beq_iff_eq] at hc
      exact Or.inr (Or.inr (Or.inl ⟨hlen, hc.1, hc.2, h.symm⟩))
    · rename_i hc
      simp only [Bool.and_eq_true, beq_iff_eq] at hc
      exact Or.inr (Or.inr (Or.inr ⟨hlen, hc, h⟩))

theorem setPhases_same {w w' : World} {k : Nat} {ps : List Ph} (h : w.setPhases k ps = .ok w') :
    Same w w' k := by
  rcases setPhases_cases h with ⟨q, _, _, rfl⟩ | ⟨q, _, _, rfl⟩ | ⟨_, _, _, rfl⟩ | ⟨_, _, h⟩
  · exact toSingle_same w k q
  · exact relabel_same w k q
  · exact Same.refl _ k
  · exact toMulti_same h (phaseTuple_nodup ps)

/-- the ways `setPhase` can succeed -/
theorem setPhase_cases {w w' : World} {k : Nat} {ls : List Ph} (h : w.setPhase k ls = .ok w') :
    ((w.str k).multi = true ∧ ∃ q, (ls = [] ∧ q = Ph.l ∨ ls = [q]) ∧ w' = w.toSingle k q) ∨
    ((w.str k).multi = true ∧ 2 ≤ ls.length ∧ w.setPhases k ls = .ok w') ∨
    ((w.str k).multi = false ∧ ∃ q, ls = [q] ∧ w' = w.relabel k q) := by
  unfold World.setPhase at h
  split at h
  · rename_i hm
    split at h
    · injection h with h
      exact Or.inl ⟨hm, .l, Or.inl ⟨rfl, rfl⟩, h.symm⟩
    · rename_i q
      injection h with h
      exact Or.inl ⟨hm, q, Or.inr rfl, h.symm⟩
    · rename_i h0 h1
      refine Or.inr (Or.inl ⟨hm, ?_, h⟩)
      match ls, h0, h1 with
      | [], h0, _ => exact absurd rfl h0
      | [q], _, h1 => exact absurd rfl (h1 q)
      | _ :: _ :: _, _, _ => simp
  · rename_i hm
    split at h
    · rename_i q
      injection h with h
      exact Or.inr (Or.inr ⟨by simpa using hm, q, rfl, h.symm⟩)
    · cases h

theorem setPhase_same {w w' : World} {k : Nat} {ls : List Ph} (h : w.setPhase k ls = .ok w') :
    Same w w' k := by
  rcases setPhase_cases h with ⟨_, q, _, rfl⟩ | ⟨_, _, h⟩ | ⟨_, q, _, rfl⟩
  · exact toSingle_same w k q
  · exact setPhases_same h
  · exact relabel_same w k q

theorem reduce_same {w w' : World} {k : Nat} (h : w.reduce k = .ok w') : Same w w' k := by
  unfold World.reduce at h
  split at h
  · exact setPhase_same h
  · injection h with h; subst h; exact Same.refl w k

theorem asStream_same {w w' : World} {k : Nat} (h : w.asStream k = .ok w') : Same w w' k := by
  unfold World.asStream at h
  split at h
  · split at h
    · exact setPhase_same h
    · exact setPhase_same h
    · cases h
  · injection h with h; subst h; exact Same.refl w k

theorem accessor_same {w w' : World} {k : Nat} {a b : Ph} {f : Ph → Bool}
    (h : w.accessor k a b f = .ok w') : Same w w' k := by
  unfold World.accessor at h
  split at h
  · split at h
    · injection h with h; subst h; exact Same.refl w k
    · exact setPhases_same h
  · simp only [] at h
    split at h
    · split at h
      · exact (relabel_same w k .l).trans (setPhases_same h)
      · exact setPhases_same h
    · exact setPhases_same h

/-! ### each phase's material stays in that phase -/

/-- the target phase set has a place (exact label, else the other-case label) for every non-empty phase of stream `k` -/
def Covers (w : World) (k : Nat) (t : List Ph) : Prop :=
  ∀ x ∈ w.pr k, w.isEmptyRow x.2 = false → (dest t x.1).isSome = true

/-- every row of stream `k` in `w'` holds exactly the material of the phases of stream `k` in `w` whose destination it is -/
def RowsKept (w w' : World) (k : Nat) : Prop :=
  ∀ q ∈ w'.phases k, ∀ i, i < w.n →
    w'.rowAt k q i = ((w.pr k).map (fun x => if dest (w'.phases k) x.1 = some q then w.row x.2 i else 0)).sum

theorem rowAt_eq (w : World) (k : Nat) (q : Ph) (i : Nat) :
    w.rowAt k q i = ((w.pr k).map (fun x => if x.1 = q then w.row x.2 i else 0)).sum := by
  unfold World.rowAt
  rw [sum_filter]
  apply sum_map_congr
  intro x _
  by_cases h : x.1 = q <;> simp [h]

theorem rowsKept_refl (w : World) (k : Nat) : RowsKept w w k := by
  intro q _ i _
  rw [rowAt_eq]
  apply sum_map_congr
  intro x hx
  have hm : x.1 ∈ w.phases k := List.mem_map.2 ⟨x, hx, rfl⟩
  rw [dest_of_mem hm]
  by_cases h : x.1 = q <;> simp [h]

theorem emptyRow_zero {w : World} {r : Nat} (h : w.isEmptyRow r = true) {i : Nat} (hi : i < w.n) :
    w.row r i = 0 := isEmptyVal_zero h hi

/-- all material ends up under the single label `q0` -/
theorem rowsKept_of_all_eq {w w' : World} {k : Nat} {q0 : Ph} (hph : ∀ q ∈ w'.phases k, q = q0)
    (hrow : ∀ i, w'.rowAt k q0 i = w.total k i) (hc : Covers w k (w'.phases k)) : RowsKept w w' k := by
  intro q hq i hi
  have := hph q hq; subst this
  rw [hrow i]
  unfold World.total
  apply sum_map_congr
  intro x hx
  cases he : w.isEmptyRow x.2 with
  | true => simp [emptyRow_zero he hi]
  | false =>
    obtain ⟨q', hq'⟩ := Option.isSome_iff_exists.1 (hc x hx he)
    have := hph q' (dest_mem hq')
    subst this
    simp [hq']

theorem toSingle_phases (w : World) (k : Nat) (q : Ph) : (w.toSingle k q).phases k = [q] := by
  simp [World.phases, toSingle_pr]

theorem toSingle_rowAt (w : World) (k : Nat) (q : Ph) (i : Nat) :
    (w.toSingle k q).rowAt k q i = w.total k i := by
  simp [World.rowAt, toSingle_pr, toSingle_row]

theorem toSingle_rowsKept (w : World) (k : Nat) (q : Ph) (hc : Covers w k [q]) :
    RowsKept w (w.toSingle k q) k := by
  apply rowsKept_of_all_eq (q0 := q)
  · intro q' hq'
    simpa [toSingle_phases] using hq'
  · exact toSingle_rowAt w k q
  · simpa [toSingle_phases] using hc

theorem relabel_phases (w : World) (k : Nat) (q : Ph) :
    (w.relabel k q).phases k = (w.pr k).map (fun _ => q) := by
  simp [World.phases, relabel_pr, List.map_map, Function.comp_def]

theorem relabel_row (w : World) (k : Nat) (q : Ph) : (w.relabel k q).row = w.row := rfl

theorem relabel_rowsKept (w : World) (k : Nat) (q : Ph) (hc : Covers w k ((w.relabel k q).phases k)) :
    RowsKept w (w.relabel k q) k := by
  apply rowsKept_of_all_eq (q0 := q)
  · intro q' hq'
    rw [relabel_phases] at hq'
    obtain ⟨_, _, h⟩ := List.mem_map.1 hq'
    exact h.symm
  · intro i
    rw [rowAt_eq]
    simp [World.total, relabel_pr, relabel_row, List.map_map, Function.comp_def]
  · exact hc

theorem toMulti_rowsKept {w w' : World} {k : Nat} {t : List Ph} (h : w.toMulti k t = .ok w') (ht : t.Nodup) :
    RowsKept w w' k := by
  intro q hq i hi
  have hp := toMulti_phases h
  rw [hp] at hq ⊢
  rw [toMulti_rowAt h ht q i, if_pos hq]
  unfold moved World.sources
  rw [List.map_map]
  apply sum_map_congr
  intro x _
  simp only [Function.comp_def]
  cases he : w.isEmptyRow x.2 with
  | true => simp [emptyRow_zero he hi]
  | false => simp

/-- a successful `toMulti` had a place for everything -/
theorem toMulti_covers {w w' : World} {k : Nat} {t : List Ph} (h : w.toMulti k t = .ok w') : Covers w k t := by
  intro x hx he
  apply (toMulti_ok h).1 (x.1, w.row x.2, !w.isEmptyRow x.2)
  · exact List.mem_map.2 ⟨x, hx, rfl⟩
  · simp [he]

theorem covers_self (w : World) (k : Nat) : Covers w k (w.phases k) := by
  intro x hx _
  have hm : x.1 ∈ w.phases k := List.mem_map.2 ⟨x, hx, rfl⟩
  rw [dest_of_mem hm]; rfl

theorem setPhases_rowsKept {w w' : World} {k : Nat} {ps : List Ph} (h : w.setPhases k ps = .ok w')
    (hc : Covers w k (w'.phases k)) : RowsKept w w' k := by
  rcases setPhases_cases h with ⟨q, _, _, rfl⟩ | ⟨q, _, _, rfl⟩ | ⟨_, _, _, rfl⟩ | ⟨_, _, h⟩
  · exact toSingle_rowsKept w k q (by simpa [toSingle_phases] using hc)
  · exact relabel_rowsKept w k q hc
  · exact rowsKept_refl _ k
  · exact toMulti_rowsKept h (phaseTuple_nodup ps)

theorem setPhase_rowsKept {w w' : World} {k : Nat} {ls : List Ph} (h : w.setPhase k ls = .ok w')
    (hc : Covers w k (w'.phases k)) : RowsKept w w' k := by
  rcases setPhase_cases h with ⟨_, q, _, rfl⟩ | ⟨_, _, h⟩ | ⟨_, q, _, rfl⟩
  · exact toSingle_rowsKept w k q (by simpa [toSingle_phases] using hc)
  · exact setPhases_rowsKept h hc
  · exact relabel_rowsKept w k q hc

theorem reduce_rowsKept {w w' : World} {k : Nat} (h : w.reduce k = .ok w') (hc : Covers w k (w'.phases k)) :
    RowsKept w w' k := by
  unfold World.reduce at h
  split at h
  · exact setPhase_rowsKept h hc
  · injection h with h; subst h; exact rowsKept_refl w k

theorem asStream_rowsKept {w w' : World} {k : Nat} (h : w.asStream k = .ok w')
    (hc : Covers w k (w'.phases k)) : RowsKept w w' k := by
  unfold World.asStream at h
  split at h
  · split at h
    · exact setPhase_rowsKept h hc
    · exact setPhase_rowsKept h hc
    · cases h
  · injection h with h; subst h; exact rowsKept_refl w k

/-- relabelling first and converting afterwards, seen from the original labels -/
theorem rowsKept_after_relabel {w w' : World} {k : Nat} {q0 : Ph} (hk : RowsKept (w.relabel k q0) w' k)
    (hd : ∀ x ∈ w.pr k, w.isEmptyRow x.2 = false → dest (w'.phases k) x.1 = dest (w'.phases k) q0) :
    RowsKept w w' k := by
  intro q hq i hi
  rw [hk q hq i hi]
  simp only [relabel_pr, relabel_row, List.map_map, Function.comp_def]
  apply sum_map_congr
  intro x hx
  cases he : w.isEmptyRow x.2 with
  | true => simp [emptyRow_zero he hi]
  | false => rw [hd x hx he]

theorem relabel_multi (w : World) (k : Nat) (q : Ph) : ((w.relabel k q).str k).multi = (w.str k).multi := rfl

/-- from a single-phase stream, `setPhases` with two distinct target phases is `toMulti` -/
theorem setPhases_single_two {w w' : World} {k : Nat} {ps : List Ph} (h : w.setPhases k ps = .ok w')
    (hm : (w.str k).multi = false) (hlen : 2 ≤ (phaseTuple ps).length) :
    w.toMulti k (phaseTuple ps) = .ok w' := by
  rcases setPhases_cases h with ⟨q, hq, _, _⟩ | ⟨q, hq, _, _⟩ | ⟨_, hm', _, _⟩ | ⟨_, _, h⟩
  · rw [hq] at hlen; simp at hlen
  · rw [hq] at hlen; simp at hlen
  · rw [hm] at hm'; cases hm'
  · exact h

theorem accessor_rowsKept {w w' : World} {k : Nat} {a b : Ph} {f : Ph → Bool}
    (h : w.accessor k a b f = .ok w')
    (hc : Covers w k (w'.phases k)) (hlen : 2 ≤ (phaseTuple [a, b]).length)
    (hf : ∀ p, f p = true → (dest (phaseTuple [a, b]) p).isSome = true →
      dest (phaseTuple [a, b]) p = dest (phaseTuple [a, b]) .l) :
    RowsKept w w' k := by
  unfold World.accessor at h
  split at h
  · split at h
    · injection h with h; subst h; exact rowsKept_refl w k
    · exact setPhases_rowsKept h hc
  · rename_i hm
    have hm : (w.str k).multi = false := by simpa using hm
    simp only [] at h
    split at h
    · rename_i p hp
      split at h
      · rename_i hfp
        have ht := setPhases_single_two h (by rw [relabel_multi]; exact hm) hlen
        have hph := toMulti_phases ht
        apply rowsKept_after_relabel (toMulti_rowsKept ht (phaseTuple_nodup _))
        intro x hx he
        have hx1 : x.1 = p := by
          have : x.1 ∈ w.phases k := List.mem_map.2 ⟨x, hx, rfl⟩
          rw [hp] at this
          simpa using this
        rw [hph, hx1]
        apply hf p hfp
        have := hc x hx he
        rwa [hph, hx1] at this
      · exact setPhases_rowsKept h hc
    · exact setPhases_rowsKept h hc

theorem vle_rowsKept {w w' : World} {k : Nat} (h : w.vle k = .ok w') (hc : Covers w k (w'.phases k)) :
    RowsKept w w' k :=
  accessor_rowsKept h hc (by decide) (by intro p; cases p <;> decide)

theorem lle_rowsKept {w w' : World} {k : Nat} (h : w.lle k = .ok w') (hc : Covers w k (w'.phases k)) :
    RowsKept w w' k :=
  accessor_rowsKept h hc (by decide) (by intro p; cases p <;> decide)

theorem sle_rowsKept {w w' : World} {k : Nat} (h : w.sle k = .ok w') (hc : Covers w k (w'.phases k)) :
    RowsKept w w' k :=
  accessor_rowsKept h hc (by decide) (by intro p; cases p <;> decide)

/-! ### `reduce_phases` / `as_stream` keep a place for every non-empty phase -/

/-- the lower-case letter of the group (g, l/L, s/S) of a phase -/
def Ph.grp : Ph → Ph
  | .L => .l | .l => .l | .S => .s | .s => .s | .g => .g

theorem dest_isSome_of_grp {t : List Ph} {p : Ph} (h : p.grp ∈ t) : (dest t p).isSome = true := by
  cases p <;> simp [Ph.grp] at h <;> simp [dest, Ph.flip, h] <;>
    (split <;> simp)

theorem grp_mem_phaseString {w : World} {k : Nat} {x : Ph × Nat} (hx : x ∈ w.pr k)
    (he : w.isEmptyRow x.2 = false) : x.1.grp ∈ w.phaseString k := by
  unfold World.phaseString
  simp only [List.mem_append]
  have key : ∀ grp : List Ph, x.1 ∈ grp →
      ((w.pr k).any fun y => grp.contains y.1 && !w.isEmptyRow y.2) = true := by
    intro grp hg
    rw [List.any_eq_true]
    exact ⟨x, hx, by simp [hg, he]⟩
  cases hp : x.1 with
  | g => left; left; rw [hp] at key; rw [if_pos (key [.g] (by simp))]; simp [Ph.grp]
  | l => left; right; rw [hp] at key; rw [if_pos (key [.l, .L] (by simp))]; simp [Ph.grp]
  | L => left; right; rw [hp] at key; rw [if_pos (key [.l, .L] (by simp))]; simp [Ph.grp]
  | s => right; rw [hp] at key; rw [if_pos (key [.s, .S] (by simp))]; simp [Ph.grp]
  | S => right; rw [hp] at key; rw [if_pos (key [.s, .S] (by simp))]; simp [Ph.grp]

theorem setPhases_covers_of_grp {w w' : World} {k : Nat} {ls : List Ph} (h : w.setPhases k ls = .ok w')
    (hg : ∀ x ∈ w.pr k, w.isEmptyRow x.2 = false → x.1.grp ∈ ls) : Covers w k (w'.phases k) := by
  rcases setPhases_cases h with ⟨q, hq, _, rfl⟩ | ⟨q, hq, _, rfl⟩ | ⟨_, _, _, rfl⟩ | ⟨_, _, h⟩
  · intro x hx he
    apply dest_isSome_of_grp
    have := mem_phaseTuple.2 (hg x hx he)
    rw [hq] at this
    simpa [toSingle_phases] using this
  · intro x hx he
    apply dest_isSome_of_grp
    have := mem_phaseTuple.2 (hg x hx he)
    rw [hq] at this
    have hq' : x.1.grp = q := by simpa using this
    rw [relabel_phases, hq']
    exact List.mem_map.2 ⟨x, hx, rfl⟩
  · exact covers_self _ k
  · rw [toMulti_phases h]; exact toMulti_covers h

theorem setPhase_covers_of_grp {w w' : World} {k : Nat} {ls : List Ph} (h : w.setPhase k ls = .ok w')
    (hm : (w.str k).multi = true)
    (hg : ∀ x ∈ w.pr k, w.isEmptyRow x.2 = false → x.1.grp ∈ ls) : Covers w k (w'.phases k) := by
  rcases setPhase_cases h with ⟨_, q, hq, rfl⟩ | ⟨_, _, h⟩ | ⟨hm', _⟩
  · intro x hx he
    apply dest_isSome_of_grp
    have := hg x hx he
    rcases hq with ⟨rfl, _⟩ | rfl
    · cases this
    · simpa [toSingle_phases] using this
  · exact setPhases_covers_of_grp h hg
  · rw [hm] at hm'; cases hm'

theorem reduce_covers {w w' : World} {k : Nat} (h : w.reduce k = .ok w') : Covers w k (w'.phases k) := by
  unfold World.reduce at h
  split at h
  · rename_i hm
    exact setPhase_covers_of_grp h hm (fun x hx he => grp_mem_phaseString hx he)
  · injection h with h; subst h
    exact covers_self w k

theorem asStream_covers {w w' : World} {k : Nat} (h : w.asStream k = .ok w') : Covers w k (w'.phases k) := by
  unfold World.asStream at h
  split at h
  · rename_i hm
    split at h
    · rename_i q hq
      exact setPhase_covers_of_grp h hm (fun x hx he => hq ▸ grp_mem_phaseString hx he)
    · rename_i hq
      exact setPhase_covers_of_grp h hm (fun x hx he => by
        have := grp_mem_phaseString hx he
        rw [hq] at this; cases this)
    · cases h
  · injection h with h; subst h
    exact covers_self w k

/-! ### phase views stay attached -/

/-- Every view in the `_streams` dict of stream `k` is the view of the stream's CURRENT row for its key
(looked up the way `get_phase` does) and shares the stream's thermal-condition object. -/
def LiveAt (w : World) (k : Nat) : Prop :=
  ∀ e ∈ w.cacheOf k, (w.view e.2).phase = e.1 ∧ (w.view e.2).tc = (w.str k).tc ∧
    lookupRow (w.pr k) e.1 = some (w.view e.2).row

/-- Allocation discipline, separation of the streams' `_streams` dicts and their views, streams that share an
indexer object (proxies) are of the same class, and liveness of the views of every MultiStream. -/
structure Inv (w : World) : Prop where
  imol_lt : ∀ k, k < w.nStr → (w.str k).imol < w.nImol
  cache_lt : ∀ k, k < w.nStr → (w.str k).cache < w.nCache
  kind_alias : ∀ j k, j < w.nStr → k < w.nStr → (w.str j).imol = (w.str k).imol → (w.str j).multi = (w.str k).multi
  cache_inj : ∀ j k, j < w.nStr → k < w.nStr → (w.str j).cache = (w.str k).cache → j = k
  view_lt : ∀ k, k < w.nStr → ∀ e ∈ w.cacheOf k, e.2 < w.nView
  view_sep : ∀ j k, j < w.nStr → k < w.nStr → j ≠ k → ∀ e1 ∈ w.cacheOf j, ∀ e2 ∈ w.cacheOf k, e1.2 ≠ e2.2
  live : ∀ k, k < w.nStr → (w.str k).multi = true → LiveAt w k

theorem inv_init (n : Nat) : Inv (World.init n) := by
  constructor <;> intro k <;> simp [World.init]

/-- An operation that touches only the private objects of stream `k` (its `Strm` record, its indexer, its
`_streams` dict and the views in it) and fresh objects keeps the invariant if it keeps stream `k` live. -/
theorem inv_of_frame {w w' : World} {k : Nat} (hi : Inv w) (hk : k < w.nStr)
    (hn : w'.nStr = w.nStr)
    (hstr : ∀ j, j ≠ k → w'.str j = w.str j)
    (himol : (w'.str k).imol = (w.str k).imol ∨ w.nImol ≤ (w'.str k).imol)
    (himol_lt : (w'.str k).imol < w'.nImol) (hnImol : w.nImol ≤ w'.nImol)
    (hcache : (w'.str k).cache = (w.str k).cache ∨ w.nCache ≤ (w'.str k).cache)
    (hcache_lt : (w'.str k).cache < w'.nCache) (hnCache : w.nCache ≤ w'.nCache)
    (hipr : ∀ i, i < w.nImol → i ≠ (w.str k).imol → w'.ipr i = w.ipr i)
    (hcch : ∀ c, c < w.nCache → c ≠ (w.str k).cache → w'.cache c = w.cache c)
    (hview : ∀ v, v < w.nView → (∀ e ∈ w.cacheOf k, e.2 ≠ v) → w'.view v = w.view v)
    (hnView : w.nView ≤ w'.nView)
    (hk_views : ∀ e ∈ w'.cacheOf k, e.2 < w'.nView ∧ ((∃ e0 ∈ w.cacheOf k, e0.2 = e.2) ∨ w.nView ≤ e.2))
    (hk_live : (w'.str k).multi = true → LiveAt w' k)
    (hold : w'.ipr (w.str k).imol = w.ipr (w.str k).imol ∨
      ∀ j, j ≠ k → j < w.nStr → (w.str j).imol = (w.str k).imol → (w.str j).multi = true →
        ∀ e ∈ w.cacheOf j, lookupRow (w'.ipr (w.str k).imol) e.1 = lookupRow (w.ipr (w.str k).imol) e.1)
    (hkind : (w'.str k).imol = (w.str k).imol → (w'.str k).multi = (w.str k).multi) : Inv w' := by
  have hcacheOf : ∀ j, j ≠ k → j < w.nStr → w'.cacheOf j = w.cacheOf j := by
    intro j hj hjn
    unfold World.cacheOf
    rw [hstr j hj]
    apply hcch _ (hi.cache_lt j hjn)
    intro e
    exact hj (hi.cache_inj j k hjn hk e)
  constructor
  · intro j hj
    rw [hn] at hj
    by_cases hjk : j = k
    · subst hjk; exact himol_lt
    · rw [hstr j hjk]; exact Nat.lt_of_lt_of_le (hi.imol_lt j hj) hnImol
  · intro j hj
    rw [hn] at hj
    by_cases hjk : j = k
    · subst hjk; exact hcache_lt
    · rw [hstr j hjk]; exact Nat.lt_of_lt_of_le (hi.cache_lt j hj) hnCache
  · intro j j' hj hj' he
    rw [hn] at hj hj'
    by_cases hjk : j = k <;> by_cases hjk' : j' = k
    · rw [hjk, hjk']
    · subst hjk
      rw [hstr j' hjk'] at he ⊢
      rcases himol with h | h
      · rw [h] at he; rw [hkind h]; exact hi.kind_alias _ _ hj hj' he
      · have := hi.imol_lt j' hj'; omega
    · subst hjk'
      rw [hstr j hjk] at he ⊢
      rcases himol with h | h
      · rw [h] at he; rw [hkind h]; exact hi.kind_alias _ _ hj hj' he
      · have := hi.imol_lt j hj; omega
    · rw [hstr j hjk, hstr j' hjk'] at he ⊢; exact hi.kind_alias _ _ hj hj' he
  · intro j j' hj hj' he
    rw [hn] at hj hj'
    by_cases hjk : j = k <;> by_cases hjk' : j' = k
    · rw [hjk, hjk']
    · subst hjk
      rw [hstr j' hjk'] at he
      rcases hcache with h | h
      · rw [h] at he; exact hi.cache_inj _ _ hj hj' he
      · have := hi.cache_lt j' hj'; omega
    · subst hjk'
      rw [hstr j hjk] at he
      rcases hcache with h | h
      · rw [h] at he; exact hi.cache_inj _ _ hj hj' he
      · have := hi.cache_lt j hj; omega
    · rw [hstr j hjk, hstr j' hjk'] at he; exact hi.cache_inj _ _ hj hj' he
  · intro j hj e he
    rw [hn] at hj
    by_cases hjk : j = k
    · subst hjk; exact (hk_views e he).1
    · rw [hcacheOf j hjk hj] at he
      exact Nat.lt_of_lt_of_le (hi.view_lt j hj e he) hnView
  · intro j j' hj hj' hne e1 he1 e2 he2
    rw [hn] at hj hj'
    by_cases hjk : j = k <;> by_cases hjk' : j' = k
    · exact absurd (hjk.trans hjk'.symm) hne
    · subst hjk
      rw [hcacheOf j' hjk' hj'] at he2
      rcases (hk_views e1 he1).2 with ⟨e0, he0, h0⟩ | h
      · rw [← h0]; exact hi.view_sep _ _ hj hj' hne e0 he0 e2 he2
      · have := hi.view_lt j' hj' e2 he2; omega
    · subst hjk'
      rw [hcacheOf j hjk hj] at he1
      rcases (hk_views e2 he2).2 with ⟨e0, he0, h0⟩ | h
      · rw [← h0]; exact hi.view_sep _ _ hj hj' hne e1 he1 e0 he0
      · have := hi.view_lt j hj e1 he1; omega
    · rw [hcacheOf j hjk hj] at he1
      rw [hcacheOf j' hjk' hj'] at he2
      exact hi.view_sep _ _ hj hj' hne e1 he1 e2 he2
  · intro j hj hm
    rw [hn] at hj
    by_cases hjk : j = k
    · subst hjk; exact hk_live hm
    · rw [hstr j hjk] at hm
      intro e he
      rw [hcacheOf j hjk hj] at he
      have hv : w'.view e.2 = w.view e.2 :=
        hview _ (hi.view_lt j hj e he) (fun e0 he0 h0 => hi.view_sep k j hk hj (Ne.symm hjk) e0 he0 e he h0)
      obtain ⟨l1, l2, l3⟩ := hi.live j hj hm e he
      rw [hv, hstr j hjk]
      refine ⟨l1, l2, ?_⟩
      unfold World.pr at l3 ⊢
      rw [hstr j hjk]
      by_cases himj : (w.str j).imol = (w.str k).imol
      · rw [himj] at l3 ⊢
        rcases hold with h | h
        · rw [h]; exact l3
        · rw [h j hjk hj himj hm e he]; exact l3
      · rw [hipr _ (hi.imol_lt j hj) himj]; exact l3

/-- an operation that changes only row values, T, P or the snapshots -/
theorem inv_of_shape {w w' : World} (hi : Inv w) (h1 : w'.str = w.str) (h2 : w'.ipr = w.ipr)
    (h3 : w'.cache = w.cache) (h4 : w'.view = w.view) (h5 : w'.nStr = w.nStr) (h6 : w'.nImol = w.nImol)
    (h7 : w'.nCache = w.nCache) (h8 : w'.nView = w.nView) : Inv w' := by
  have hc : ∀ k, w'.cacheOf k = w.cacheOf k := by intro k; simp [World.cacheOf, h1, h3]
  have hp : ∀ k, w'.pr k = w.pr k := by intro k; simp [World.pr, h1, h2]
  constructor
  · intro k hk; rw [h5] at hk; rw [h1, h6]; exact hi.imol_lt k hk
  · intro k hk; rw [h5] at hk; rw [h1, h7]; exact hi.cache_lt k hk
  · intro j k hj hk; rw [h5] at hj hk; rw [h1]; exact hi.kind_alias j k hj hk
  · intro j k hj hk; rw [h5] at hj hk; rw [h1]; exact hi.cache_inj j k hj hk
  · intro k hk e he; rw [h5] at hk; rw [hc] at he; rw [h8]; exact hi.view_lt k hk e he
  · intro j k hj hk hne e1 he1 e2 he2; rw [h5] at hj hk; rw [hc] at he1 he2
    exact hi.view_sep j k hj hk hne e1 he1 e2 he2
  · intro k hk hm e he; rw [h5] at hk; rw [h1] at hm; rw [hc] at he
    rw [h4, h1, hp]; exact hi.live k hk hm e he

theorem emptyRows_inv {w : World} (hi : Inv w) (k : Nat) : Inv (w.emptyRows k) :=
  inv_of_shape hi rfl rfl rfl rfl rfl rfl rfl rfl
theorem writeRow_inv {w : World} (hi : Inv w) (r i : Nat) (x : Rat) : Inv (w.writeRow r i x) :=
  inv_of_shape hi rfl rfl rfl rfl rfl rfl rfl rfl
theorem setT_inv {w : World} (hi : Inv w) (t : Nat) (x : Rat) : Inv (w.setT t x) :=
  inv_of_shape hi rfl rfl rfl rfl rfl rfl rfl rfl
theorem setP_inv {w : World} (hi : Inv w) (t : Nat) (x : Rat) : Inv (w.setP t x) :=
  inv_of_shape hi rfl rfl rfl rfl rfl rfl rfl rfl
theorem copyRows_inv {w : World} (hi : Inv w) (k : Nat) (vals : List (Nat → Rat)) : Inv (w.copyRows k vals) :=
  inv_of_shape hi rfl rfl rfl rfl rfl rfl rfl rfl
theorem writeByPhase_inv {w : World} (hi : Inv w) (k : Nat) (vals : Ph → Nat → Rat) :
    Inv (w.writeByPhase k vals) :=
  inv_of_shape hi rfl rfl rfl rfl rfl rfl rfl rfl
theorem save_inv {w : World} (hi : Inv w) (k : Nat) : Inv (w.save k) :=
  inv_of_shape hi rfl rfl rfl rfl rfl rfl rfl rfl

theorem not_aliased {w : World} {k : Nat} (h : w.aliased k = false) {j : Nat} (hj : j < w.nStr) (hjk : j ≠ k) :
    (w.str j).imol ≠ (w.str k).imol := by
  unfold World.aliased at h
  rw [List.any_eq_false] at h
  have := h j (List.mem_range.2 hj)
  intro he
  apply this
  simp [hjk, he]

theorem relabel_inv {w : World} {k : Nat} (hi : Inv w) (hk : k < w.nStr) (hm : (w.str k).multi = false)
    (q : Ph) : Inv (w.relabel k q) := by
  apply inv_of_frame (w' := w.relabel k q) hi hk rfl (fun _ _ => rfl) (Or.inl rfl) (hi.imol_lt k hk) (Nat.le_refl _)
    (Or.inl rfl) (hi.cache_lt k hk) (Nat.le_refl _)
  · intro i _ hne; simp [World.relabel, World.setIpr, hne]
  · intro c _ _; rfl
  · intro v _ _; rfl
  · exact Nat.le_refl _
  · intro e he
    exact ⟨hi.view_lt k hk e he, Or.inl ⟨e, he, rfl⟩⟩
  · intro h
    rw [relabel_multi, hm] at h; cases h
  · right
    intro j _ hj he hmj
    rw [hi.kind_alias j k hj hk he, hm] at hmj; cases hmj
  · intro _; rfl

theorem toSingle_inv {w : World} {k : Nat} (hi : Inv w) (hk : k < w.nStr) (q : Ph) :
    Inv (w.toSingle k q) := by
  apply inv_of_frame hi hk
  · simp [World.toSingle, World.setStr, World.setCache, World.allocImol, World.allocRows]
  · intro j hj; simp [World.toSingle, World.setStr, World.setCache, World.allocImol, World.allocRows, hj]
  · right; simp [World.toSingle, World.setStr, World.setCache, World.allocImol, World.allocRows]
  · simp [World.toSingle, World.setStr, World.setCache, World.allocImol, World.allocRows]
  · simp [World.toSingle, World.setStr, World.setCache, World.allocImol, World.allocRows]
  · left; simp [World.toSingle, World.setStr, World.setCache, World.allocImol, World.allocRows]
  · have := hi.cache_lt k hk
    simpa [World.toSingle, World.setStr, World.setCache, World.allocImol, World.allocRows] using this
  · simp [World.toSingle, World.setStr, World.setCache, World.allocImol, World.allocRows]
  · intro i hi' _
    have : i ≠ w.nImol := Nat.ne_of_lt hi'
    simp [World.toSingle, World.setStr, World.setCache, World.allocImol, World.allocRows, this]
  · intro c _ hne
    simp [World.toSingle, World.setStr, World.setCache, World.allocImol, World.allocRows, hne]
  · intro v _ _
    simp [World.toSingle, World.setStr, World.setCache, World.allocImol, World.allocRows]
  · simp [World.toSingle, World.setStr, World.setCache, World.allocImol, World.allocRows]
  · intro e he
    simp [World.toSingle, World.cacheOf, World.setStr, World.setCache, World.allocImol, World.allocRows] at he
  · intro h
    simp [World.toSingle, World.setStr, World.setCache, World.allocImol, World.allocRows] at h
  · left
    have hne : (w.str k).imol ≠ w.nImol := Nat.ne_of_lt (hi.imol_lt k hk)
    simp [World.toSingle, World.setStr, World.setCache, World.allocImol, World.allocRows, hne]
  · intro he
    have := hi.imol_lt k hk
    simp [World.toSingle, World.setStr, World.setCache, World.allocImol, World.allocRows] at he
    omega

/-! re-seating the cached views -/

@[simp] theorem rebind_str (w : World) (k : Nat) (b : Bool) : (w.rebind k b).str = w.str := rfl
@[simp] theorem rebind_ipr (w : World) (k : Nat) (b : Bool) : (w.rebind k b).ipr = w.ipr := rfl
@[simp] theorem rebind_pr (w : World) (k j : Nat) (b : Bool) : (w.rebind k b).pr j = w.pr j := rfl
@[simp] theorem rebind_nStr (w : World) (k : Nat) (b : Bool) : (w.rebind k b).nStr = w.nStr := rfl
@[simp] theorem rebind_nImol (w : World) (k : Nat) (b : Bool) : (w.rebind k b).nImol = w.nImol := rfl
@[simp] theorem rebind_nCache (w : World) (k : Nat) (b : Bool) : (w.rebind k b).nCache = w.nCache := rfl
@[simp] theorem rebind_nView (w : World) (k : Nat) (b : Bool) : (w.rebind k b).nView = w.nView := rfl
@[simp] theorem rebind_row (w : World) (k : Nat) (b : Bool) : (w.rebind k b).row = w.row := rfl
@[simp] theorem rebind_T (w : World) (k : Nat) (b : Bool) : (w.rebind k b).T = w.T := rfl
@[simp] theorem rebind_P (w : World) (k : Nat) (b : Bool) : (w.rebind k b).P = w.P := rfl
@[simp] theorem rebind_snaps (w : World) (k : Nat) (b : Bool) : (w.rebind k b).snaps = w.snaps := rfl
@[simp] theorem rebind_n (w : World) (k : Nat) (b : Bool) : (w.rebind k b).n = w.n := rfl

theorem rebind_cacheOf (w : World) (k : Nat) (b : Bool) :
    (w.rebind k b).cacheOf k = (w.cacheOf k).filter (fun e => (lookupRow (w.pr k) e.1).isSome) := by
  simp [World.rebind, World.cacheOf]

theorem rebind_cache_other (w : World) (k : Nat) (b : Bool) (c : Nat) (h : c ≠ (w.str k).cache) :
    (w.rebind k b).cache c = w.cache c := by
  simp [World.rebind, h]

theorem rebind_view_other (w : World) (k : Nat) (b : Bool) (v : Nat) (h : ∀ e ∈ w.cacheOf k, e.2 ≠ v) :
    (w.rebind k b).view v = w.view v := by
  have : ((w.cacheOf k).map (·.2)).contains v = false := by
    cases hc : ((w.cacheOf k).map (·.2)).contains v with
    | false => rfl
    | true =>
      rw [List.contains_iff_mem, List.mem_map] at hc
      obtain ⟨e, he, hev⟩ := hc
      exact absurd hev (h e he)
  simp only [World.rebind, this, Bool.false_eq_true, if_false]

theorem rebind_liveAt {w : World} {k : Nat} {b : Bool}
    (hph : ∀ e ∈ w.cacheOf k, (w.view e.2).phase = e.1)
    (htc : b = false → ∀ e ∈ w.cacheOf k, (w.view e.2).tc = (w.str k).tc) : LiveAt (w.rebind k b) k := by
  intro e he
  rw [rebind_cacheOf] at he
  simp only [List.mem_filter] at he
  obtain ⟨he, hsome⟩ := he
  obtain ⟨r, hr⟩ := Option.isSome_iff_exists.1 hsome
  have hmem : ((w.cacheOf k).map (·.2)).contains e.2 = true := by
    rw [List.contains_iff_mem, List.mem_map]
    exact ⟨e, he, rfl⟩
  have hp := hph e he
  have hv : (w.rebind k b).view e.2
      = { row := r, tc := if b = true then (w.str k).tc else (w.view e.2).tc, phase := e.1 } := by
    simp only [World.rebind, hmem, if_true, hp, hr]
  rw [hv]
  refine ⟨rfl, ?_, by simpa using hr⟩
  cases b with
  | true => simp
  | false => simpa using htc rfl e he

/-- the frame part of a re-seating operation: `w1` differs from `w` only in the private objects of stream
`k` and in fresh objects, its dict of `k` and the views are still those of `w`; then `w1.rebind k b` keeps
the invariant -/
theorem inv_rebind {w w1 : World} {k : Nat} {b : Bool} (hi : Inv w) (hk : k < w.nStr)
    (hm : (w.str k).multi = true)
    (hn : w1.nStr = w.nStr)
    (hstr : ∀ j, j ≠ k → w1.str j = w.str j)
    (himol : (w1.str k).imol = (w.str k).imol ∨ w.nImol ≤ (w1.str k).imol)
    (himol_lt : (w1.str k).imol < w1.nImol) (hnImol : w.nImol ≤ w1.nImol)
    (hcache : (w1.str k).cache = (w.str k).cache) (hnCache : w1.nCache = w.nCache)
    (hipr : ∀ i, i < w.nImol → i ≠ (w.str k).imol → w1.ipr i = w.ipr i)
    (hcch : w1.cache = w.cache) (hview : w1.view = w.view) (hnView : w1.nView = w.nView)
    (htc : b = false → (w1.str k).tc = (w.str k).tc)
    (hold : w1.ipr (w.str k).imol = w.ipr (w.str k).imol ∨
      ∀ j, j ≠ k → j < w.nStr → (w.str j).imol = (w.str k).imol → (w.str j).multi = true →
        ∀ e ∈ w.cacheOf j, lookupRow (w1.ipr (w.str k).imol) e.1 = lookupRow (w.ipr (w.str k).imol) e.1)
    (hkind : (w1.str k).imol = (w.str k).imol → (w1.str k).multi = (w.str k).multi) :
    Inv (w1.rebind k b) := by
  have hc1 : w1.cacheOf k = w.cacheOf k := by simp [World.cacheOf, hcache, hcch]
  apply inv_of_frame hi hk (by simpa using hn) (by simpa using hstr) (by simpa using himol)
    (by simpa using himol_lt) (by simpa using hnImol) (Or.inl (by simpa using hcache))
    (by simpa [hcache, hnCache] using hi.cache_lt k hk) (by simp [hnCache])
  · simpa using hipr
  · intro c _ hne
    rw [rebind_cache_other w1 k b c (by rw [hcache]; exact hne), hcch]
  · intro v _ hv
    rw [rebind_view_other w1 k b v (by rw [hc1]; exact hv), hview]
  · simp [hnView]
  · intro e he
    rw [rebind_cacheOf, hc1] at he
    have he' := (List.mem_filter.1 he).1
    exact ⟨by simpa [hnView] using hi.view_lt k hk e he', Or.inl ⟨e, he', rfl⟩⟩
  · intro _
    apply rebind_liveAt
    · intro e he
      rw [hc1] at he; rw [hview]
      exact (hi.live k hk hm e he).1
    · intro hb e he
      rw [hc1] at he; rw [hview, htc hb]
      exact (hi.live k hk hm e he).2.1
  · simpa using hold
  · simpa using hkind

theorem toMulti_inv {w w' : World} {k : Nat} {t : List Ph} (hi : Inv w) (hk : k < w.nStr)
    (h : w.toMulti k t = .ok w') : Inv w' := by
  unfold World.toMulti at h
  simp only [] at h
  split at h
  · split at h
    · rename_i hm
      injection h with h; subst h
      apply inv_rebind hi hk hm
      · simp [World.setStr, World.allocImol, World.allocRows]
      · intro j hj; simp [World.setStr, World.allocImol, World.allocRows, hj]
      · right; simp [World.setStr, World.allocImol, World.allocRows]
      · simp [World.setStr, World.allocImol, World.allocRows]
      · simp [World.setStr, World.allocImol, World.allocRows]
      · simp [World.setStr, World.allocImol, World.allocRows]
      · simp [World.setStr, World.allocImol, World.allocRows]
      · intro i hi' _
        have : i ≠ w.nImol := Nat.ne_of_lt hi'
        simp [World.setStr, World.allocImol, World.allocRows, this]
      · simp [World.setStr, World.allocImol, World.allocRows]
      · simp [World.setStr, World.allocImol, World.allocRows]
      · simp [World.setStr, World.allocImol, World.allocRows]
      · intro _; simp [World.setStr, World.allocImol, World.allocRows]
      · left
        have hne : (w.str k).imol ≠ w.nImol := Nat.ne_of_lt (hi.imol_lt k hk)
        simp [World.setStr, World.allocImol, World.allocRows, hne]
      · intro he
        have := hi.imol_lt k hk
        simp [World.setStr, World.allocImol, World.allocRows] at he
        omega
    · injection h with h; subst h
      apply inv_of_frame hi hk
      · simp [World.setStr, World.allocCache, World.allocImol, World.allocRows]
      · intro j hj; simp [World.setStr, World.allocCache, World.allocImol, World.allocRows, hj]
      · right; simp [World.setStr, World.allocCache, World.allocImol, World.allocRows]
      · simp [World.setStr, World.allocCache, World.allocImol, World.allocRows]
      · simp [World.setStr, World.allocCache, World.allocImol, World.allocRows]
      · right; simp [World.setStr, World.allocCache, World.allocImol, World.allocRows]
      · simp [World.setStr, World.allocCache, World.allocImol, World.allocRows]
      · simp [World.setStr, World.allocCache, World.allocImol, World.allocRows]
      · intro i hi' _
        have : i ≠ w.nImol := Nat.ne_of_lt hi'
        simp [World.setStr, World.allocCache, World.allocImol, World.allocRows, this]
      · intro c hc _
        have : c ≠ w.nCache := Nat.ne_of_lt hc
        simp [World.setStr, World.allocCache, World.allocImol, World.allocRows, this]
      · intro v _ _
        simp [World.setStr, World.allocCache, World.allocImol, World.allocRows]
      · simp [World.setStr, World.allocCache, World.allocImol, World.allocRows]
      · intro e he
        simp [World.cacheOf, World.setStr, World.allocCache, World.allocImol, World.allocRows] at he
      · intro _ e he
        simp [World.cacheOf, World.setStr, World.allocCache, World.allocImol, World.allocRows] at he
      · left
        have hne : (w.str k).imol ≠ w.nImol := Nat.ne_of_lt (hi.imol_lt k hk)
        simp [World.setStr, World.allocCache, World.allocImol, World.allocRows, hne]
      · intro he
        have := hi.imol_lt k hk
        simp [World.setStr, World.allocCache, World.allocImol, World.allocRows] at he
        omega
  · cases h

theorem setPhases_inv {w w' : World} {k : Nat} {ps : List Ph} (hi : Inv w) (hk : k < w.nStr)
    (h : w.setPhases k ps = .ok w') : Inv w' := by
  rcases setPhases_cases h with ⟨q, _, _, rfl⟩ | ⟨q, _, hm, rfl⟩ | ⟨_, _, _, rfl⟩ | ⟨_, _, h⟩
  · exact toSingle_inv hi hk q
  · exact relabel_inv hi hk hm q
  · exact hi
  · exact toMulti_inv hi hk h

theorem setPhase_inv {w w' : World} {k : Nat} {ls : List Ph} (hi : Inv w) (hk : k < w.nStr)
    (h : w.setPhase k ls = .ok w') : Inv w' := by
  rcases setPhase_cases h with ⟨_, q, _, rfl⟩ | ⟨_, _, h⟩ | ⟨hm, q, _, rfl⟩
  · exact toSingle_inv hi hk q
  · exact setPhases_inv hi hk h
  · exact relabel_inv hi hk hm q

theorem reduce_inv {w w' : World} {k : Nat} (hi : Inv w) (hk : k < w.nStr) (h : w.reduce k = .ok w') :
    Inv w' := by
  unfold World.reduce at h
  split at h
  · exact setPhase_inv hi hk h
  · injection h with h; subst h; exact hi

theorem asStream_inv {w w' : World} {k : Nat} (hi : Inv w) (hk : k < w.nStr) (h : w.asStream k = .ok w') :
    Inv w' := by
  unfold World.asStream at h
  split at h
  · split at h
    · exact setPhase_inv hi hk h
    · exact setPhase_inv hi hk h
    · cases h
  · injection h with h; subst h; exact hi

theorem accessor_inv {w w' : World} {k : Nat} {a b : Ph} {f : Ph → Bool} (hi : Inv w) (hk : k < w.nStr)
    (h : w.accessor k a b f = .ok w') : Inv w' := by
  unfold World.accessor at h
  split at h
  · split at h
    · injection h with h; subst h; exact hi
    · exact setPhases_inv hi hk h
  · rename_i hm
    have hm : (w.str k).multi = false := by simpa using hm
    simp only [] at h
    split at h
    · split at h
      · exact setPhases_inv (relabel_inv hi hk hm .l) hk h
      · exact setPhases_inv hi hk h
    · exact setPhases_inv hi hk h

theorem getView_inv {w w' : World} {k : Nat} {p : Ph} (hi : Inv w) (hk : k < w.nStr)
    (h : w.getView k p = .ok w') : Inv w' := by
  unfold World.getView at h
  split at h
  · rename_i hm
    split at h
    · injection h with h; subst h; exact hi
    · split at h
      · rename_i r hr
        injection h with h; subst h
        apply inv_of_frame hi hk
        · rfl
        · intro _ _; rfl
        · exact Or.inl rfl
        · exact hi.imol_lt k hk
        · exact Nat.le_refl _
        · exact Or.inl rfl
        · exact hi.cache_lt k hk
        · exact Nat.le_refl _
        · intro _ _ _; rfl
        · intro c _ hne; simp [hne]
        · intro v hv _
          have : v ≠ w.nView := Nat.ne_of_lt hv
          simp [this]
        · simp
        · intro e he
          simp only [World.cacheOf, if_true, List.mem_append, List.mem_singleton] at he
          rcases he with he | rfl
          · exact ⟨Nat.lt_succ_of_lt (hi.view_lt k hk e he), Or.inl ⟨e, he, rfl⟩⟩
          · exact ⟨Nat.lt_succ_self _, Or.inr (Nat.le_refl _)⟩
        · intro _ e he
          simp only [World.cacheOf, if_true, List.mem_append, List.mem_singleton] at he
          rcases he with he | rfl
          · have hne : e.2 ≠ w.nView := Nat.ne_of_lt (hi.view_lt k hk e he)
            simp only [hne, if_false]
            exact hi.live k hk hm e he
          · simp only [World.pr] at hr
            simp [World.pr, hr]
        · exact Or.inl rfl
        · intro _; rfl
      · cases h
  · split at h
    · split at h
      · injection h with h; subst h; exact hi
      · cases h
    · cases h

theorem setPhases_nStr {w w' : World} {k : Nat} {ps : List Ph} (h : w.setPhases k ps = .ok w') :
    w'.nStr = w.nStr := by
  rcases setPhases_cases h with ⟨q, _, _, rfl⟩ | ⟨q, _, _, rfl⟩ | ⟨_, _, _, rfl⟩ | ⟨_, _, h⟩
  · simp [World.toSingle, World.setStr, World.setCache, World.allocImol, World.allocRows]
  · rfl
  · rfl
  · exact (toMulti_ok h).2.2.2.2.2.2.2.2.2

theorem restore_inv {w w' : World} {k idx : Nat} (hi : Inv w) (hk : k < w.nStr)
    (h : w.restore k idx = .ok w') : Inv w' := by
  unfold World.restore at h
  split at h
  · cases h
  · simp only [bind, Except.bind] at h
    split at h
    · cases h
    · rename_i w2 h2
      injection h with h; subst h
      exact setP_inv (setT_inv (copyRows_inv (setPhases_inv (emptyRows_inv hi k) hk h2) _ _) _ _) _ _

/-! a new stream -/

theorem inv_new {w w' : World} (hi : Inv w) (hn : w'.nStr = w.nStr + 1)
    (hstr : ∀ j, j < w.nStr → w'.str j = w.str j)
    (hkindnew : ∀ j, j < w.nStr → (w.str j).imol = (w'.str w.nStr).imol → (w.str j).multi = (w'.str w.nStr).multi)
    (himol_lt : (w'.str w.nStr).imol < w'.nImol)
    (hcache : w.nCache ≤ (w'.str w.nStr).cache) (hcache_lt : (w'.str w.nStr).cache < w'.nCache)
    (hnImol : w.nImol ≤ w'.nImol) (hnCache : w.nCache ≤ w'.nCache)
    (hipr : ∀ i, i < w.nImol → w'.ipr i = w.ipr i) (hcch : ∀ c, c < w.nCache → w'.cache c = w.cache c)
    (hview : w'.view = w.view) (hnView : w'.nView = w.nView)
    (hempty : w'.cache (w'.str w.nStr).cache = []) : Inv w' := by
  have hcacheOf : ∀ j, j < w.nStr → w'.cacheOf j = w.cacheOf j := by
    intro j hj
    unfold World.cacheOf
    rw [hstr j hj]
    exact hcch _ (hi.cache_lt j hj)
  have hprOf : ∀ j, j < w.nStr → w'.pr j = w.pr j := by
    intro j hj
    unfold World.pr
    rw [hstr j hj]
    exact hipr _ (hi.imol_lt j hj)
  have hnew : w'.cacheOf w.nStr = [] := hempty
  have split : ∀ j, j < w'.nStr → j < w.nStr ∨ j = w.nStr := by
    intro j hj; rw [hn] at hj; omega
  constructor
  · intro j hj
    rcases split j hj with h | rfl
    · rw [hstr j h]; exact Nat.lt_of_lt_of_le (hi.imol_lt j h) hnImol
    · exact himol_lt
  · intro j hj
    rcases split j hj with h | rfl
    · rw [hstr j h]; exact Nat.lt_of_lt_of_le (hi.cache_lt j h) hnCache
    · exact hcache_lt
  · intro j j' hj hj' he
    rcases split j hj with h | rfl <;> rcases split j' hj' with h' | rfl
    · rw [hstr j h, hstr j' h'] at he ⊢; exact hi.kind_alias j j' h h' he
    · rw [hstr j h] at he ⊢; exact hkindnew j h he
    · rw [hstr j' h'] at he ⊢; exact (hkindnew j' h' he.symm).symm
    · rfl
  · intro j j' hj hj' he
    rcases split j hj with h | rfl <;> rcases split j' hj' with h' | rfl
    · rw [hstr j h, hstr j' h'] at he; exact hi.cache_inj j j' h h' he
    · rw [hstr j h] at he; have := hi.cache_lt j h; omega
    · rw [hstr j' h'] at he; have := hi.cache_lt j' h'; omega
    · rfl
  · intro j hj e he
    rcases split j hj with h | rfl
    · rw [hcacheOf j h] at he; rw [hnView]; exact hi.view_lt j h e he
    · rw [hnew] at he; cases he
  · intro j j' hj hj' hne e1 he1 e2 he2
    rcases split j hj with h | rfl <;> rcases split j' hj' with h' | rfl
    · rw [hcacheOf j h] at he1; rw [hcacheOf j' h'] at he2
      exact hi.view_sep j j' h h' hne e1 he1 e2 he2
    · rw [hnew] at he2; cases he2
    · rw [hnew] at he1; cases he1
    · exact absurd rfl hne
  · intro j hj hm e he
    rcases split j hj with h | rfl
    · rw [hcacheOf j h] at he
      rw [hstr j h] at hm
      rw [hview, hprOf j h, hstr j h]
      exact hi.live j h hm e he
    · rw [hnew] at he; cases he

theorem newSingle_inv {w : World} (hi : Inv w) (p : Ph) (T P : Rat) (f : Nat → Rat) :
    Inv (w.newSingle p T P f) := by
  apply inv_new hi
  · simp [World.newSingle, World.setStr, World.allocCache, World.allocTc, World.allocImol, World.allocRows]
  · intro j hj
    have : j ≠ w.nStr := Nat.ne_of_lt hj
    simp [World.newSingle, World.setStr, World.allocCache, World.allocTc, World.allocImol, World.allocRows, this]
  · intro j hj he
    have := hi.imol_lt j hj
    simp [World.newSingle, World.setStr, World.allocCache, World.allocTc, World.allocImol, World.allocRows] at he
    omega
  · simp [World.newSingle, World.setStr, World.allocCache, World.allocTc, World.allocImol, World.allocRows]
  · simp [World.newSingle, World.setStr, World.allocCache, World.allocTc, World.allocImol, World.allocRows]
  · simp [World.newSingle, World.setStr, World.allocCache, World.allocTc, World.allocImol, World.allocRows]
  · simp [World.newSingle, World.setStr, World.allocCache, World.allocTc, World.allocImol, World.allocRows]
  · simp [World.newSingle, World.setStr, World.allocCache, World.allocTc, World.allocImol, World.allocRows]
  · intro i hi'
    have : i ≠ w.nImol := Nat.ne_of_lt hi'
    simp [World.newSingle, World.setStr, World.allocCache, World.allocTc, World.allocImol, World.allocRows, this]
  · intro c hc
    have : c ≠ w.nCache := Nat.ne_of_lt hc
    simp [World.newSingle, World.setStr, World.allocCache, World.allocTc, World.allocImol, World.allocRows, this]
  · simp [World.newSingle, World.setStr, World.allocCache, World.allocTc, World.allocImol, World.allocRows]
  · simp [World.newSingle, World.setStr, World.allocCache, World.allocTc, World.allocImol, World.allocRows]
  · simp [World.newSingle, World.setStr, World.allocCache, World.allocTc, World.allocImol, World.allocRows]

theorem newMulti_inv {w : World} (hi : Inv w) (ps : List Ph) (T P : Rat) (fl : List (Ph × (Nat → Rat))) :
    Inv (w.newMulti ps T P fl) := by
  apply inv_new hi
  · simp [World.newMulti, World.setStr, World.allocCache, World.allocTc, World.allocImol, World.allocRows]
  · intro j hj
    have : j ≠ w.nStr := Nat.ne_of_lt hj
    simp [World.newMulti, World.setStr, World.allocCache, World.allocTc, World.allocImol, World.allocRows, this]
  · intro j hj he
    have := hi.imol_lt j hj
    simp [World.newMulti, World.setStr, World.allocCache, World.allocTc, World.allocImol, World.allocRows] at he
    omega
  · simp [World.newMulti, World.setStr, World.allocCache, World.allocTc, World.allocImol, World.allocRows]
  · simp [World.newMulti, World.setStr, World.allocCache, World.allocTc, World.allocImol, World.allocRows]
  · simp [World.newMulti, World.setStr, World.allocCache, World.allocTc, World.allocImol, World.allocRows]
  · simp [World.newMulti, World.setStr, World.allocCache, World.allocTc, World.allocImol, World.allocRows]
  · simp [World.newMulti, World.setStr, World.allocCache, World.allocTc, World.allocImol, World.allocRows]
  · intro i hi'
    have : i ≠ w.nImol := Nat.ne_of_lt hi'
    simp [World.newMulti, World.setStr, World.allocCache, World.allocTc, World.allocImol, World.allocRows, this]
  · intro c hc
    have : c ≠ w.nCache := Nat.ne_of_lt hc
    simp [World.newMulti, World.setStr, World.allocCache, World.allocTc, World.allocImol, World.allocRows, this]
  · simp [World.newMulti, World.setStr, World.allocCache, World.allocTc, World.allocImol, World.allocRows]
  · simp [World.newMulti, World.setStr, World.allocCache, World.allocTc, World.allocImol, World.allocRows]
  · simp [World.newMulti, World.setStr, World.allocCache, World.allocTc, World.allocImol, World.allocRows]

/-! unlink, link, reset_thermo -/

theorem unlink_inv {w w' : World} {k : Nat} (hi : Inv w) (hk : k < w.nStr) (h : w.unlink k = .ok w') :
    Inv w' := by
  unfold World.unlink at h
  split at h
  · cases h
  · simp only [] at h
    injection h with h; subst h
    split
    · rename_i hm
      apply inv_rebind hi hk hm
      · simp [World.setStr, World.allocTc, World.allocImol, World.allocRows]
      · intro j hj; simp [World.setStr, World.allocTc, World.allocImol, World.allocRows, hj]
      · right; simp [World.setStr, World.allocTc, World.allocImol, World.allocRows]
      · simp [World.setStr, World.allocTc, World.allocImol, World.allocRows]
      · simp [World.setStr, World.allocTc, World.allocImol, World.allocRows]
      · simp [World.setStr, World.allocTc, World.allocImol, World.allocRows]
      · simp [World.setStr, World.allocTc, World.allocImol, World.allocRows]
      · intro i hi' _
        have : i ≠ w.nImol := Nat.ne_of_lt hi'
        simp [World.setStr, World.allocTc, World.allocImol, World.allocRows, this]
      · simp [World.setStr, World.allocTc, World.allocImol, World.allocRows]
      · simp [World.setStr, World.allocTc, World.allocImol, World.allocRows]
      · simp [World.setStr, World.allocTc, World.allocImol, World.allocRows]
      · intro hb; cases hb
      · left
        have hne : (w.str k).imol ≠ w.nImol := Nat.ne_of_lt (hi.imol_lt k hk)
        simp [World.setStr, World.allocTc, World.allocImol, World.allocRows, hne]
      · intro he
        have := hi.imol_lt k hk
        simp [World.setStr, World.allocTc, World.allocImol, World.allocRows] at he
        omega
    · rename_i hm
      apply inv_of_frame hi hk
      · simp [World.setStr, World.allocTc, World.allocImol, World.allocRows]
      · intro j hj; simp [World.setStr, World.allocTc, World.allocImol, World.allocRows, hj]
      · right; simp [World.setStr, World.allocTc, World.allocImol, World.allocRows]
      · simp [World.setStr, World.allocTc, World.allocImol, World.allocRows]
      · simp [World.setStr, World.allocTc, World.allocImol, World.allocRows]
      · left; simp [World.setStr, World.allocTc, World.allocImol, World.allocRows]
      · have := hi.cache_lt k hk
        simpa [World.setStr, World.allocTc, World.allocImol, World.allocRows] using this
      · simp [World.setStr, World.allocTc, World.allocImol, World.allocRows]
      · intro i hi' _
        have : i ≠ w.nImol := Nat.ne_of_lt hi'
        simp [World.setStr, World.allocTc, World.allocImol, World.allocRows, this]
      · intro c _ _
        simp [World.setStr, World.allocTc, World.allocImol, World.allocRows]
      · intro v _ _
        simp [World.setStr, World.allocTc, World.allocImol, World.allocRows]
      · simp [World.setStr, World.allocTc, World.allocImol, World.allocRows]
      · intro e he
        have he' : e ∈ w.cacheOf k := by
          simpa [World.cacheOf, World.setStr, World.allocTc, World.allocImol, World.allocRows] using he
        exact ⟨by simpa [World.setStr, World.allocTc, World.allocImol, World.allocRows] using hi.view_lt k hk e he',
          Or.inl ⟨e, he', rfl⟩⟩
      · intro h'
        simp [World.setStr, World.allocTc, World.allocImol, World.allocRows] at h'
        exact absurd h' hm
      · left
        have hne : (w.str k).imol ≠ w.nImol := Nat.ne_of_lt (hi.imol_lt k hk)
        simp [World.setStr, World.allocTc, World.allocImol, World.allocRows, hne]
      · intro he
        have := hi.imol_lt k hk
        simp [World.setStr, World.allocTc, World.allocImol, World.allocRows] at he
        omega

theorem find_isSome_iff (pr : List (Ph × Nat)) (q : Ph) :
    (pr.find? (fun x => x.1 == q)).isSome = true ↔ q ∈ pr.map (·.1) := by
  rw [List.find?_isSome]
  constructor
  · rintro ⟨x, hx, hxq⟩; exact List.mem_map.2 ⟨x, hx, by simpa using hxq⟩
  · intro h; obtain ⟨x, hx, rfl⟩ := List.mem_map.1 h; exact ⟨x, hx, by simp⟩

theorem lookupRow_isSome_congr {pr pr' : List (Ph × Nat)} (h : pr.map (·.1) = pr'.map (·.1)) (p : Ph) :
    (lookupRow pr p).isSome = (lookupRow pr' p).isSome := by
  have key : ∀ q, (pr.find? (fun x => x.1 == q)).isSome = (pr'.find? (fun x => x.1 == q)).isSome := by
    intro q
    rw [Bool.eq_iff_iff, find_isSome_iff, find_isSome_iff, h]
  unfold lookupRow
  have k1 := key p
  cases h1 : pr.find? (fun x => x.1 == p) <;> cases h2 : pr'.find? (fun x => x.1 == p) <;>
    simp [h1, h2] at k1 ⊢
  cases hq : p.flip with
  | none => rfl
  | some q =>
    simp only []
    have k2 := key q
    cases h3 : pr.find? (fun x => x.1 == q) <;> cases h4 : pr'.find? (fun x => x.1 == q) <;>
      simp [h3, h4] at k2 ⊢

theorem rebindLink_cacheOf (w : World) (k : Nat) (b : Bool) (j : Nat) :
    (w.rebindLink k b).cacheOf j = w.cacheOf j := rfl

theorem rebindLink_view_other (w : World) (k : Nat) (b : Bool) (v : Nat) (h : ∀ e ∈ w.cacheOf k, e.2 ≠ v) :
    (w.rebindLink k b).view v = w.view v := by
  have : ((w.cacheOf k).map (·.2)).contains v = false := by
    cases hc : ((w.cacheOf k).map (·.2)).contains v with
    | false => rfl
    | true =>
      rw [List.contains_iff_mem, List.mem_map] at hc
      obtain ⟨e, he, hev⟩ := hc
      exact absurd hev (h e he)
  simp only [World.rebindLink, this, Bool.false_eq_true, if_false]

theorem link_inv {w w' : World} {k j : Nat} {flow tp : Bool} (hi : Inv w) (hk : k < w.nStr)
    (h : w.link k j flow tp = .ok w') : Inv w' := by
  unfold World.link at h
  split at h
  · cases h
  · split at h
    · cases h
    · rename_i hg
      simp only [] at h
      injection h with h; subst h
      simp only [Bool.or_eq_true, Bool.not_eq_eq_eq_not, Bool.not_true, not_or, Bool.and_eq_true,
        Bool.not_eq_true'] at hg
      have hm : (w.str k).multi = true := by
        cases hmm : (w.str k).multi with
        | true => rfl
        | false => simp [hmm] at hg
      have hna : w.aliased k = false := by
        cases ha : w.aliased k with
        | false => rfl
        | true => simp [ha] at hg
      have hph : flow = true → w.phases k = w.phases j := by
        intro hf
        by_contra hne
        have : (w.phases k == w.phases j) = false := by simpa using hne
        simp [hf, this] at hg
      -- the world before the views are re-seated
      generalize hw2 : (if tp = true then
          (if flow = true then w.setIpr (w.str k).imol (w.pr j) else w).setStr k
            { (if flow = true then w.setIpr (w.str k).imol (w.pr j) else w).str k with tc := (w.str j).tc }
        else (if flow = true then w.setIpr (w.str k).imol (w.pr j) else w)) = w2
      have f_str : ∀ i, i ≠ k → w2.str i = w.str i := by
        intro i hne; subst hw2; cases flow <;> cases tp <;> simp [World.setStr, World.setIpr, hne]
      have f_imol : (w2.str k).imol = (w.str k).imol := by
        subst hw2; cases flow <;> cases tp <;> simp [World.setStr, World.setIpr]
      have f_multi : (w2.str k).multi = (w.str k).multi := by
        subst hw2; cases flow <;> cases tp <;> simp [World.setStr, World.setIpr]
      have f_cache : (w2.str k).cache = (w.str k).cache := by
        subst hw2; cases flow <;> cases tp <;> simp [World.setStr, World.setIpr]
      have f_cch : w2.cache = w.cache := by
        subst hw2; cases flow <;> cases tp <;> simp [World.setStr, World.setIpr]
      have f_view : w2.view = w.view := by
        subst hw2; cases flow <;> cases tp <;> simp [World.setStr, World.setIpr]
      have f_n : w2.nStr = w.nStr ∧ w2.nImol = w.nImol ∧ w2.nCache = w.nCache ∧ w2.nView = w.nView := by
        subst hw2; cases flow <;> cases tp <;> simp [World.setStr, World.setIpr]
      have f_ipr : ∀ i, i ≠ (w.str k).imol → w2.ipr i = w.ipr i := by
        intro i hne; subst hw2; cases flow <;> cases tp <;> simp [World.setStr, World.setIpr, hne]
      have f_pr : w2.pr k = if flow = true then w.pr j else w.pr k := by
        subst hw2; cases flow <;> cases tp <;> simp [World.pr, World.setStr, World.setIpr]
      have hc2 : w2.cacheOf k = w.cacheOf k := by simp [World.cacheOf, f_cache, f_cch]
      have hlabels : (w2.pr k).map (·.1) = (w.pr k).map (·.1) := by
        rw [f_pr]
        cases flow with
        | false => rfl
        | true => exact (hph rfl).symm
      have f_tc : tp = false → (w2.str k).tc = (w.str k).tc := by
        intro ht; subst hw2; subst ht; cases flow <;> simp [World.setStr, World.setIpr]
      -- the final world
      have key : Inv (if (flow || tp) = true then w2.rebindLink k flow else w2) := by
        apply inv_of_frame hi hk
        · split <;> simp [World.rebindLink, f_n.1]
        · intro i hne; split <;> simp [World.rebindLink, f_str i hne]
        · left; split <;> simp [World.rebindLink, f_imol]
        · have := hi.imol_lt k hk
          split <;> simpa [World.rebindLink, f_imol, f_n.2.1] using this
        · split <;> simp [World.rebindLink, f_n.2.1]
        · left; split <;> simp [World.rebindLink, f_cache]
        · have := hi.cache_lt k hk
          split <;> simpa [World.rebindLink, f_cache, f_n.2.2.1] using this
        · split <;> simp [World.rebindLink, f_n.2.2.1]
        · intro i _ hne; split <;> simp [World.rebindLink, f_ipr i hne]
        · intro c _ _; split <;> simp [World.rebindLink, f_cch]
        · intro v _ hv
          split
          · rw [rebindLink_view_other w2 k flow v (by rw [hc2]; exact hv), f_view]
          · rw [f_view]
        · split <;> simp [World.rebindLink, f_n.2.2.2]
        · intro e he
          have he' : e ∈ w.cacheOf k := by
            split at he
            · simpa [rebindLink_cacheOf, hc2] using he
            · simpa [hc2] using he
          refine ⟨?_, Or.inl ⟨e, he', rfl⟩⟩
          have := hi.view_lt k hk e he'
          split <;> simpa [World.rebindLink, f_n.2.2.2] using this
        · intro _ e he
          have he' : e ∈ w.cacheOf k := by
            split at he
            · simpa [rebindLink_cacheOf, hc2] using he
            · simpa [hc2] using he
          obtain ⟨l1, l2, l3⟩ := hi.live k hk hm e he'
          split
          · -- views re-seated
            have hmem : ((w2.cacheOf k).map (·.2)).contains e.2 = true := by
              rw [List.contains_iff_mem, List.mem_map]
              exact ⟨e, by rw [hc2]; exact he', rfl⟩
            have hsome : (lookupRow (w2.pr k) e.1).isSome = true := by
              rw [lookupRow_isSome_congr hlabels e.1, l3]; rfl
            obtain ⟨r, hr⟩ := Option.isSome_iff_exists.1 hsome
            have hv : (w2.rebindLink k flow).view e.2
                = { row := if flow = true then r else (w.view e.2).row, tc := (w2.str k).tc, phase := e.1 } := by
              simp only [World.rebindLink, hmem, if_true, f_view, l1, hr]
            have hpr' : (w2.rebindLink k flow).pr k = w2.pr k := rfl
            rw [hv, hpr']
            refine ⟨rfl, rfl, ?_⟩
            cases flow with
            | true => simpa using hr
            | false =>
              simp only [Bool.false_eq_true, if_false]
              rw [f_pr]; simpa using l3
          · rename_i hb
            have hf : flow = false := by
              cases flow with
              | false => rfl
              | true => simp at hb
            have ht : tp = false := by
              cases tp with
              | false => rfl
              | true => simp at hb
            rw [f_view, f_tc ht, f_pr, hf]
            exact ⟨l1, l2, by simpa using l3⟩
        · right
          intro i hik hi' he _
          exact absurd he (not_aliased hna hi' hik)
        · intro _
          split <;> simp [World.rebindLink, f_multi]
      subst hw2
      exact key

theorem resetThermo_inv {w w' : World} {k t : Nat} (hi : Inv w) (hk : k < w.nStr)
    (h : w.resetThermo k t = .ok w') : Inv w' := by
  unfold World.resetThermo at h
  split at h
  · injection h with h; subst h; exact hi
  · split at h
    · cases h
    · rename_i hg
      simp only [] at h
      injection h with h; subst h
      have hna : w.aliased k = false := by
        cases ha : w.aliased k with
        | false => rfl
        | true => simp [ha] at hg
      split
      · rename_i hm
        apply inv_rebind hi hk hm
        · simp [World.setStr, World.setIpr, World.allocRows]
        · intro j hj; simp [World.setStr, World.setIpr, World.allocRows, hj]
        · left; simp [World.setStr, World.setIpr, World.allocRows]
        · have := hi.imol_lt k hk
          simpa [World.setStr, World.setIpr, World.allocRows] using this
        · simp [World.setStr, World.setIpr, World.allocRows]
        · simp [World.setStr, World.setIpr, World.allocRows]
        · simp [World.setStr, World.setIpr, World.allocRows]
        · intro i _ hne; simp [World.setStr, World.setIpr, World.allocRows, hne]
        · simp [World.setStr, World.setIpr, World.allocRows]
        · simp [World.setStr, World.setIpr, World.allocRows]
        · simp [World.setStr, World.setIpr, World.allocRows]
        · intro _; simp [World.setStr, World.setIpr, World.allocRows]
        · right
          intro i hik hi' he _
          exact absurd he (not_aliased hna hi' hik)
        · intro _; simp [World.setStr, World.setIpr, World.allocRows]
      · rename_i hm
        apply inv_of_frame hi hk
        · simp [World.setStr, World.setIpr, World.allocRows]
        · intro j hj; simp [World.setStr, World.setIpr, World.allocRows, hj]
        · left; simp [World.setStr, World.setIpr, World.allocRows]
        · have := hi.imol_lt k hk
          simpa [World.setStr, World.setIpr, World.allocRows] using this
        · simp [World.setStr, World.setIpr, World.allocRows]
        · left; simp [World.setStr, World.setIpr, World.allocRows]
        · have := hi.cache_lt k hk
          simpa [World.setStr, World.setIpr, World.allocRows] using this
        · simp [World.setStr, World.setIpr, World.allocRows]
        · intro i _ hne; simp [World.setStr, World.setIpr, World.allocRows, hne]
        · intro c _ _; simp [World.setStr, World.setIpr, World.allocRows]
        · intro v _ _; simp [World.setStr, World.setIpr, World.allocRows]
        · simp [World.setStr, World.setIpr, World.allocRows]
        · intro e he
          have he' : e ∈ w.cacheOf k := by
            simpa [World.cacheOf, World.setStr, World.setIpr, World.allocRows] using he
          exact ⟨by simpa [World.setStr, World.setIpr, World.allocRows] using hi.view_lt k hk e he',
            Or.inl ⟨e, he', rfl⟩⟩
        · intro h'
          simp [World.setStr, World.setIpr, World.allocRows] at h'
          exact absurd h' hm
        · right
          intro i hik hi' he _
          exact absurd he (not_aliased hna hi' hik)
        · intro _; simp [World.setStr, World.setIpr, World.allocRows]

/-! growing the phases of an indexer in place -/

theorem find_filterMap_find (all : List (Ph × Nat)) (ks : List Ph) (q : Ph) :
    (ks.filterMap (fun p => all.find? (fun x => x.1 == p))).find? (fun x => x.1 == q)
      = if q ∈ ks then all.find? (fun x => x.1 == q) else none := by
  induction ks with
  | nil => simp
  | cons p ks ih =>
    rw [List.filterMap_cons]
    cases hf : all.find? (fun x => x.1 == p) with
    | none =>
      simp only
      rw [ih]
      by_cases hq : q = p
      · subst hq
        simp [hf]
      · have : (q ∈ p :: ks) ↔ q ∈ ks := by simp [hq]
        simp [this]
    | some x =>
      simp only
      have hx : x.1 = p := by
        have := List.find?_some hf
        simpa using this
      rw [List.find?_cons]
      by_cases hq : q = p
      · subst hq
        simp [hx, hf]
      · have hne : (x.1 == q) = false := by rw [hx]; simpa using Ne.symm hq
        rw [hne, ih]
        have : (q ∈ p :: ks) ↔ q ∈ ks := by simp [hq]
        simp [this]

theorem find_zip_none {new : List Ph} {ids : List Nat} {p : Ph} (h : p ∉ new) :
    (new.zip ids).find? (fun x => x.1 == p) = none := by
  rw [List.find?_eq_none]
  intro x hx hxp
  have := (List.of_mem_zip hx).1
  have e : x.1 = p := by simpa using hxp
  exact h (e ▸ this)

/-- the labels added by `expand` -/
def newLabels (w : World) (k : Nat) (more : List Ph) : List Ph :=
  Ph.all.filter (fun p => more.contains p && !(w.phases k).contains p)

theorem expand_find (w : World) (k : Nat) (more : List Ph) (q : Ph) :
    ((w.expand k more).pr k).find? (fun x => x.1 == q)
      = ((w.pr k).find? (fun x => x.1 == q)).or
          (((newLabels w k more).zip (List.range' w.nRow (newLabels w k more).length)).find? (fun x => x.1 == q)) := by
  unfold World.expand
  simp only []
  split
  · rename_i he
    have : newLabels w k more = [] := by simpa [newLabels] using he
    simp [this]
  · simp only [World.pr, World.setIpr, World.allocRows, if_true]
    rw [find_filterMap_find]
    simp [Ph.mem_all, List.find?_append, newLabels]

theorem expand_lookup {w : World} {k : Nat} {more : List Ph} {p : Ph} {r : Nat}
    (hl : lookupRow (w.pr k) p = some r) (hp : p ∈ w.phases k ∨ p ∉ more) :
    lookupRow ((w.expand k more).pr k) p = some r := by
  unfold lookupRow at hl ⊢
  rw [expand_find]
  cases h1 : (w.pr k).find? (fun x => x.1 == p) with
  | some x =>
    rw [h1] at hl
    simpa using hl
  | none =>
    rw [h1] at hl
    have hnot : p ∉ w.phases k := by
      intro hmem
      obtain ⟨x, hx, hxp⟩ := List.mem_map.1 hmem
      have := List.find?_eq_none.1 h1 x hx
      simp [hxp] at this
    have hpm : p ∉ newLabels w k more := by
      intro hmem
      have := (List.mem_filter.1 hmem).2
      rcases hp with hp | hp
      · exact hnot hp
      · simp at this; exact hp this.1
    simp only [Option.none_or, find_zip_none hpm]
    cases hq : p.flip with
    | none => rw [hq] at hl; cases hl
    | some q =>
      rw [hq] at hl
      simp only at hl ⊢
      rw [expand_find]
      cases h2 : (w.pr k).find? (fun x => x.1 == q) with
      | some y => rw [h2] at hl; simpa using hl
      | none => rw [h2] at hl; cases hl

theorem aliasKeyClash_false {w : World} {k : Nat} {more : List Ph} (hg : w.aliasKeyClash k more = false)
    {j : Nat} (hj : j < w.nStr) (he : (w.str j).imol = (w.str k).imol) {e : Ph × Nat} (hm : e ∈ w.cacheOf j) :
    e.1 ∈ w.phases k ∨ e.1 ∉ more := by
  unfold World.aliasKeyClash at hg
  rw [List.any_eq_false] at hg
  have h1 := hg j (List.mem_range.2 hj)
  simp only [he, beq_self_eq_true, Bool.true_and, Bool.not_eq_true] at h1
  rw [List.any_eq_false] at h1
  have h2 := h1 e hm
  by_cases hin : e.1 ∈ w.phases k
  · exact Or.inl hin
  · right
    intro hmore
    apply h2
    simp [hin, hmore]

theorem expand_inv {w : World} {k : Nat} {more : List Ph} (hi : Inv w) (hk : k < w.nStr)
    (hg : w.aliasKeyClash k more = false) : Inv (w.expand k more) := by
  have hfields : (w.expand k more).str = w.str ∧ (w.expand k more).cache = w.cache ∧
      (w.expand k more).view = w.view ∧ (w.expand k more).nStr = w.nStr ∧
      (w.expand k more).nImol = w.nImol ∧ (w.expand k more).nCache = w.nCache ∧
      (w.expand k more).nView = w.nView ∧
      (∀ i, i ≠ (w.str k).imol → (w.expand k more).ipr i = w.ipr i) := by
    unfold World.expand
    simp only []
    split
    · exact ⟨rfl, rfl, rfl, rfl, rfl, rfl, rfl, fun _ _ => rfl⟩
    · refine ⟨rfl, rfl, rfl, rfl, rfl, rfl, rfl, ?_⟩
      intro i hne
      simp [World.setIpr, World.allocRows, hne]
  obtain ⟨h1, h3, h4, h5, h6, h7, h8, h2⟩ := hfields
  have hc : (w.expand k more).cacheOf k = w.cacheOf k := by simp [World.cacheOf, h1, h3]
  have hprk : (w.expand k more).ipr (w.str k).imol = (w.expand k more).pr k := by simp [World.pr, h1]
  apply inv_of_frame hi hk h5 (fun j _ => by rw [h1]) (Or.inl (by rw [h1]))
    (by rw [h1, h6]; exact hi.imol_lt k hk) (by rw [h6]) (Or.inl (by rw [h1]))
    (by rw [h1, h7]; exact hi.cache_lt k hk) (by rw [h7])
    (fun i _ hne => h2 i hne) (fun c _ _ => by rw [h3]) (fun v _ _ => by rw [h4])
    (by rw [h8])
  · intro e he
    rw [hc] at he
    exact ⟨by rw [h8]; exact hi.view_lt k hk e he, Or.inl ⟨e, he, rfl⟩⟩
  · intro hm e he
    rw [h1] at hm
    rw [hc] at he
    obtain ⟨l1, l2, l3⟩ := hi.live k hk hm e he
    rw [h4, h1]
    exact ⟨l1, l2, expand_lookup l3 (aliasKeyClash_false hg hk rfl he)⟩
  · right
    intro j _ hj hje hmj e he
    obtain ⟨_, _, l3⟩ := hi.live j hj hmj e he
    have l3' : lookupRow (w.pr k) e.1 = some (w.view e.2).row := by
      unfold World.pr at l3 ⊢; rw [← hje]; exact l3
    rw [hprk, expand_lookup l3' (aliasKeyClash_false hg hj hje he)]
    exact l3'.symm
  · intro _; rw [h1]

theorem expand_nStr (w : World) (k : Nat) (more : List Ph) : (w.expand k more).nStr = w.nStr := by
  unfold World.expand
  simp only []
  split <;> rfl

theorem expand_multi (w : World) (k : Nat) (more : List Ph) : (w.expand k more).str = w.str := by
  unfold World.expand
  simp only []
  split <;> rfl

theorem copyLike_inv {w w' : World} {k j : Nat} (hi : Inv w) (hk : k < w.nStr)
    (h : w.copyLike k j = .ok w') : Inv w' := by
  unfold World.copyLike at h
  simp only [] at h
  split at h
  · injection h with h; subst h
    exact setP_inv (setT_inv hi _ _) _ _
  · split at h
    · split at h
      · cases h
      · rename_i hg
        injection h with h; subst h
        refine setP_inv (setT_inv (writeByPhase_inv ?_ _ _) _ _) _ _
        split
        · rename_i hneed
          apply expand_inv hi hk
          simp only [hneed, Bool.true_and, Bool.or_eq_true, not_or, Bool.not_eq_true] at hg
          exact hg.1.2
        · exact hi
    · rename_i hm
      split at h
      · injection h with h; subst h
        refine setP_inv (setT_inv ?_ _ _) _ _
        apply inv_of_frame hi hk
        · simp [World.setStr, World.allocCache, World.allocImol, World.allocRows]
        · intro i hne; simp [World.setStr, World.allocCache, World.allocImol, World.allocRows, hne]
        · right; simp [World.setStr, World.allocCache, World.allocImol, World.allocRows]
        · simp [World.setStr, World.allocCache, World.allocImol, World.allocRows]
        · simp [World.setStr, World.allocCache, World.allocImol, World.allocRows]
        · right; simp [World.setStr, World.allocCache, World.allocImol, World.allocRows]
        · simp [World.setStr, World.allocCache, World.allocImol, World.allocRows]
        · simp [World.setStr, World.allocCache, World.allocImol, World.allocRows]
        · intro i hi' _
          have : i ≠ w.nImol := Nat.ne_of_lt hi'
          simp [World.setStr, World.allocCache, World.allocImol, World.allocRows, this]
        · intro c hc _
          have : c ≠ w.nCache := Nat.ne_of_lt hc
          simp [World.setStr, World.allocCache, World.allocImol, World.allocRows, this]
        · intro v _ _
          simp [World.setStr, World.allocCache, World.allocImol, World.allocRows]
        · simp [World.setStr, World.allocCache, World.allocImol, World.allocRows]
        · intro e he
          simp [World.cacheOf, World.setStr, World.allocCache, World.allocImol, World.allocRows] at he
        · intro _ e he
          simp [World.cacheOf, World.setStr, World.allocCache, World.allocImol, World.allocRows] at he
        · left
          have hne : (w.str k).imol ≠ w.nImol := Nat.ne_of_lt (hi.imol_lt k hk)
          simp [World.setStr, World.allocCache, World.allocImol, World.allocRows, hne]
        · intro he
          have := hi.imol_lt k hk
          simp [World.setStr, World.allocCache, World.allocImol, World.allocRows] at he
          omega
      · split at h
        · injection h with h; subst h
          have hm' : (w.str k).multi = false := by simpa using hm
          exact setP_inv (setT_inv (copyRows_inv (relabel_inv hi hk hm' _) _ _) _ _) _ _
        · cases h

theorem mixP_inv {w : World} (hi : Inv w) (k : Nat) (live : List Nat) : Inv (w.mixP k live) := by
  unfold World.mixP
  split
  · exact setP_inv hi _ _
  · exact hi

theorem mixP_str (w : World) (k : Nat) (live : List Nat) : (w.mixP k live).str = w.str := by
  unfold World.mixP; split <;> rfl
theorem mixP_nStr (w : World) (k : Nat) (live : List Nat) : (w.mixP k live).nStr = w.nStr := by
  unfold World.mixP; split <;> rfl
theorem mixP_cache (w : World) (k : Nat) (live : List Nat) : (w.mixP k live).cache = w.cache := by
  unfold World.mixP; split <;> rfl
theorem mixP_ipr (w : World) (k : Nat) (live : List Nat) : (w.mixP k live).ipr = w.ipr := by
  unfold World.mixP; split <;> rfl

theorem mixP_aliasKeyClash (w : World) (k : Nat) (live : List Nat) (more : List Ph) :
    (w.mixP k live).aliasKeyClash k more = w.aliasKeyClash k more := by
  simp [World.aliasKeyClash, World.cacheOf, World.phases, World.pr, mixP_str, mixP_cache, mixP_ipr, mixP_nStr]

theorem mixFrom_inv {w w' : World} {k : Nat} {js : List Nat} (hi : Inv w) (hk : k < w.nStr)
    (h : w.mixFrom k js = .ok w') : Inv w' := by
  unfold World.mixFrom at h
  simp only [] at h
  split at h
  · injection h with h; subst h; exact emptyRows_inv hi k
  · rename_i live _
    split at h
    · split at h
      · cases h
      · rename_i hg
        injection h with h; subst h
        apply writeByPhase_inv
        split
        · rename_i hneed
          apply expand_inv (mixP_inv hi _ _) (by rw [mixP_nStr]; exact hk)
          rw [mixP_aliasKeyClash]
          simp only [hneed, Bool.true_and, Bool.or_eq_true, not_or, Bool.not_eq_true] at hg
          exact hg.1.2
        · exact mixP_inv hi _ _
    · rename_i hm
      have hm' : (w.str k).multi = false := by simpa using hm
      split at h
      · cases h
      · injection h with h; subst h
        apply copyRows_inv
        split
        · split
          · exact relabel_inv (mixP_inv hi _ _) (by rw [mixP_nStr]; exact hk) (by rw [mixP_str]; exact hm') _
          · exact mixP_inv hi _ _
        · exact mixP_inv hi _ _

theorem proxy_inv {w w' : World} {k : Nat} (hi : Inv w) (hk : k < w.nStr) (h : w.proxy k = .ok w') :
    Inv w' := by
  unfold World.proxy at h
  simp only [] at h
  injection h with h; subst h
  have hne : ∀ j, j < w.nStr → j ≠ w.nStr := fun j hj => Nat.ne_of_lt hj
  apply inv_new hi
  · simp [World.setStr, World.allocCache]
  · intro j hj; simp [World.setStr, World.allocCache, hne j hj]
  · intro j hj he
    have he' : (w.str j).imol = (w.str k).imol := by simpa [World.setStr, World.allocCache] using he
    simpa [World.setStr, World.allocCache] using hi.kind_alias j k hj hk he'
  · simpa [World.setStr, World.allocCache] using hi.imol_lt k hk
  · simp [World.setStr, World.allocCache]
  · simp [World.setStr, World.allocCache]
  · simp [World.setStr, World.allocCache]
  · simp [World.setStr, World.allocCache]
  · intro i _; simp [World.setStr, World.allocCache]
  · intro c hc
    have : c ≠ w.nCache := Nat.ne_of_lt hc
    simp [World.setStr, World.allocCache, this]
  · simp [World.setStr, World.allocCache]
  · simp [World.setStr, World.allocCache]
  · simp [World.setStr, World.allocCache]

/-- a successful step was within the bounds of the universe and is the body -/
theorem step_ok {w w' : World} {op : Op} (h : w.step op = .ok w') :
    op.inBounds w.nStr = true ∧ w.body op = .ok w' := by
  unfold World.step at h
  split at h
  · rename_i hc; exact ⟨hc, h⟩
  · cases h

theorem step_target_lt {w w' : World} {op : Op} (h : w.step op = .ok w') {k : Nat}
    (ht : op.target = some k) : k < w.nStr := by
  have := (step_ok h).1
  unfold Op.inBounds at this
  rw [ht] at this
  simp only [Bool.and_eq_true, decide_eq_true_eq] at this
  exact this.1

theorem step_inv {w w' : World} {op : Op} (hi : Inv w) (h : w.step op = .ok w') : Inv w' := by
  have hb := (step_ok h).2
  cases op with
  | newS p T P f => simp only [World.body] at hb; injection hb with hb; subst hb; exact newSingle_inv hi p T P f
  | newM ps T P fl =>
    simp only [World.body] at hb
    split at hb
    · injection hb with hb; subst hb; exact newMulti_inv hi ps T P fl
    · cases hb
  | setPhases k ps => exact setPhases_inv hi (step_target_lt h rfl) hb
  | setPhase k ls => exact setPhase_inv hi (step_target_lt h rfl) hb
  | reduce k => exact reduce_inv hi (step_target_lt h rfl) hb
  | asStream k => exact asStream_inv hi (step_target_lt h rfl) hb
  | vle k => exact accessor_inv hi (step_target_lt h rfl) hb
  | lle k => exact accessor_inv hi (step_target_lt h rfl) hb
  | sle k => exact accessor_inv hi (step_target_lt h rfl) hb
  | empty k => simp only [World.body] at hb; injection hb with hb; subst hb; exact emptyRows_inv hi k
  | view k p => exact getView_inv hi (step_target_lt h rfl) hb
  | wView hd i x =>
    simp only [World.body, World.writeView] at hb
    split at hb
    · injection hb with hb; subst hb; exact writeRow_inv hi _ _ _
    · cases hb
  | wPar k p i x =>
    simp only [World.body, World.writePar] at hb
    split at hb
    · split at hb
      · cases hb
      · split at hb
        · injection hb with hb; subst hb; exact writeRow_inv hi _ _ _
        · cases hb
    · split at hb
      · cases hb
      · injection hb with hb; subst hb; exact writeRow_inv hi _ _ _
  | wT k x => simp only [World.body] at hb; injection hb with hb; subst hb; exact setT_inv hi _ _
  | wP k x => simp only [World.body] at hb; injection hb with hb; subst hb; exact setP_inv hi _ _
  | wvT hd x =>
    simp only [World.body] at hb
    split at hb
    · injection hb with hb; subst hb; exact setT_inv hi _ _
    · cases hb
  | wvP hd x =>
    simp only [World.body] at hb
    split at hb
    · injection hb with hb; subst hb; exact setP_inv hi _ _
    · cases hb
  | vPhase hd p =>
    simp only [World.body] at hb
    split at hb
    · split at hb
      · injection hb with hb; subst hb; exact hi
      · cases hb
    · cases hb
  | hPhases hd ps =>
    simp only [World.body] at hb
    split at hb
    · split at hb
      · cases hb
      · split at hb
        · injection hb with hb; subst hb; exact hi
        · cases hb
      · cases hb
    · cases hb
  | hAccessor hd =>
    simp only [World.body] at hb
    split at hb <;> cases hb
  | save k => simp only [World.body] at hb; injection hb with hb; subst hb; exact save_inv hi k
  | restore k idx => exact restore_inv hi (step_target_lt h rfl) hb
  | unlink k => exact unlink_inv hi (step_target_lt h rfl) hb
  | link k j flow tp => exact link_inv hi (step_target_lt h rfl) hb
  | copyLike k j => exact copyLike_inv hi (step_target_lt h rfl) hb
  | mixFrom k js => exact mixFrom_inv hi (step_target_lt h rfl) hb
  | resetThermo k t => exact resetThermo_inv hi (step_target_lt h rfl) hb
  | proxy k => exact proxy_inv hi (step_target_lt h rfl) hb

theorem apply_inv {w : World} (hi : Inv w) (op : Op) : Inv (w.apply op) := by
  unfold World.apply
  split
  · rename_i w' h; exact step_inv hi h
  · exact hi

theorem run_inv {w : World} (hi : Inv w) (ops : List Op) : Inv (w.run ops) := by
  induction ops generalizing w with
  | nil => exact hi
  | cons op ops ih => exact ih (apply_inv hi op)

/-! ### well-formedness -/

/-- a `StreamData` taken from a well-formed stream -/
def SnapOK (d : Snap) : Prop :=
  d.vals.length = d.phases.length ∧
  ((∃ p, d.phases = [p]) ∨ (phaseTuple d.phases = d.phases ∧ 2 ≤ d.phases.length))

/-- shape of an indexer: distinct allocated row objects; one row, or a sorted duplicate-free tuple of ≥ 2 phases -/
def IndexerOK (nRow : Nat) (pr : List (Ph × Nat)) : Prop :=
  (pr.map (·.2)).Nodup ∧ (∀ x ∈ pr, x.2 < nRow) ∧
  ((∃ x, pr = [x]) ∨ (phaseTuple (pr.map (·.1)) = pr.map (·.1) ∧ 2 ≤ pr.length))

structure WF (w : World) : Prop where
  imol_lt : ∀ k, k < w.nStr → (w.str k).imol < w.nImol
  idx_ok : ∀ i, i < w.nImol → IndexerOK w.nRow (w.ipr i)
  kind : ∀ k, k < w.nStr → (w.str k).multi = decide (2 ≤ (w.pr k).length)
  snaps : ∀ d ∈ w.snaps, SnapOK d

theorem wf_init (n : Nat) : WF (World.init n) := by
  constructor <;> simp [World.init]

theorem IndexerOK.mono {n n' : Nat} {pr : List (Ph × Nat)} (h : IndexerOK n pr) (hn : n ≤ n') :
    IndexerOK n' pr :=
  ⟨h.1, fun x hx => Nat.lt_of_lt_of_le (h.2.1 x hx) hn, h.2.2⟩

theorem WF.pr_ok {w : World} (hw : WF w) {k : Nat} (hk : k < w.nStr) : IndexerOK w.nRow (w.pr k) :=
  hw.idx_ok _ (hw.imol_lt k hk)

theorem WF.single {w : World} (hw : WF w) {k : Nat} (hk : k < w.nStr) (hm : (w.str k).multi = false) :
    ∃ x, w.pr k = [x] := by
  have hkind := hw.kind k hk
  rw [hm] at hkind
  rcases (hw.pr_ok hk).2.2 with h | ⟨_, h⟩
  · exact h
  · simp [h] at hkind

theorem WF.multi {w : World} (hw : WF w) {k : Nat} (hk : k < w.nStr) (hm : (w.str k).multi = true) :
    phaseTuple (w.phases k) = w.phases k ∧ 2 ≤ (w.pr k).length := by
  have hkind := hw.kind k hk
  rw [hm] at hkind
  rcases (hw.pr_ok hk).2.2 with ⟨x, h⟩ | h
  · simp [h] at hkind
  · exact h

/-- fresh rows under a given tuple of labels -/
theorem indexerOK_fresh {nRow : Nat} {t : List Ph}
    (ht : (∃ p, t = [p]) ∨ (phaseTuple t = t ∧ 2 ≤ t.length)) :
    IndexerOK (nRow + t.length) (t.zip (List.range' nRow t.length)) := by
  refine ⟨?_, ?_, ?_⟩
  · rw [map_snd_zip_range']; exact List.nodup_range'
  · intro x hx
    have := (List.of_mem_zip hx).2
    rw [List.mem_range'_1] at this
    exact this.2
  · rcases ht with ⟨p, rfl⟩ | ⟨h1, h2⟩
    · exact Or.inl ⟨_, rfl⟩
    · right
      rw [map_fst_zip_range']
      exact ⟨h1, by simpa using h2⟩

/-- The general step: an operation on stream `k` that changes, apart from row values, T, P and views, only
the `Strm` record of `k`, the indexer `k` had (in place, keeping its kind) and one fresh indexer. -/
theorem wf_op {w w' : World} {k : Nat} (hw : WF w) (hk : k < w.nStr) (hn : w'.nStr = w.nStr)
    (hnRow : w.nRow ≤ w'.nRow) (hnImol : w.nImol ≤ w'.nImol)
    (hstr : ∀ j, j ≠ k → w'.str j = w.str j)
    (hipr : ∀ i, i < w.nImol → i ≠ (w.str k).imol → w'.ipr i = w.ipr i)
    (hold : IndexerOK w'.nRow (w'.ipr (w.str k).imol) ∧
      decide (2 ≤ (w'.ipr (w.str k).imol).length) = decide (2 ≤ (w.ipr (w.str k).imol).length))
    (hk_lt : (w'.str k).imol < w'.nImol)
    (hk_kind : (w'.str k).multi = decide (2 ≤ (w'.pr k).length))
    (hfresh : ∀ i, w.nImol ≤ i → i < w'.nImol → IndexerOK w'.nRow (w'.ipr i))
    (hsn : w'.snaps = w.snaps) : WF w' := by
  constructor
  · intro j hj
    rw [hn] at hj
    by_cases hjk : j = k
    · subst hjk; exact hk_lt
    · rw [hstr j hjk]; exact Nat.lt_of_lt_of_le (hw.imol_lt j hj) hnImol
  · intro i hi
    by_cases hlt : i < w.nImol
    · by_cases he : i = (w.str k).imol
      · subst he; exact hold.1
      · rw [hipr i hlt he]; exact (hw.idx_ok i hlt).mono hnRow
    · exact hfresh i (Nat.le_of_not_lt hlt) hi
  · intro j hj
    rw [hn] at hj
    by_cases hjk : j = k
    · subst hjk; exact hk_kind
    · unfold World.pr
      rw [hstr j hjk]
      by_cases he : (w.str j).imol = (w.str k).imol
      · rw [he, hold.2, ← he]; exact hw.kind j hj
      · rw [hipr _ (hw.imol_lt j hj) he]; exact hw.kind j hj
  · rw [hsn]; exact hw.snaps

/-- an operation that changes only row values, T, P, views, caches -/
theorem wf_same {w w' : World} (hw : WF w) (h1 : w'.str = w.str) (h2 : w'.ipr = w.ipr)
    (h3 : w'.nStr = w.nStr) (h4 : w'.nImol = w.nImol) (h5 : w.nRow ≤ w'.nRow) (h6 : w'.snaps = w.snaps) :
    WF w' := by
  constructor
  · intro k hk; rw [h3] at hk; rw [h1, h4]; exact hw.imol_lt k hk
  · intro i hi; rw [h4] at hi; rw [h2]; exact (hw.idx_ok i hi).mono h5
  · intro k hk; rw [h3] at hk; simp only [World.pr, h1, h2]; exact hw.kind k hk
  · rw [h6]; exact hw.snaps

theorem shape_labels {n : Nat} {pr : List (Ph × Nat)} (h : IndexerOK n pr) :
    (∃ p, pr.map (·.1) = [p]) ∨ (phaseTuple (pr.map (·.1)) = pr.map (·.1) ∧ 2 ≤ (pr.map (·.1)).length) := by
  rcases h.2.2 with ⟨x, rfl⟩ | ⟨h1, h2⟩
  · exact Or.inl ⟨x.1, rfl⟩
  · exact Or.inr ⟨h1, by simpa using h2⟩

theorem emptyRows_wf {w : World} (hw : WF w) (k : Nat) : WF (w.emptyRows k) :=
  wf_same hw rfl rfl rfl rfl (Nat.le_refl _) rfl
theorem writeRow_wf {w : World} (hw : WF w) (r i : Nat) (x : Rat) : WF (w.writeRow r i x) :=
  wf_same hw rfl rfl rfl rfl (Nat.le_refl _) rfl
theorem setT_wf {w : World} (hw : WF w) (t : Nat) (x : Rat) : WF (w.setT t x) :=
  wf_same hw rfl rfl rfl rfl (Nat.le_refl _) rfl
theorem setP_wf {w : World} (hw : WF w) (t : Nat) (x : Rat) : WF (w.setP t x) :=
  wf_same hw rfl rfl rfl rfl (Nat.le_refl _) rfl
theorem copyRows_wf {w : World} (hw : WF w) (k : Nat) (vals : List (Nat → Rat)) : WF (w.copyRows k vals) :=
  wf_same hw rfl rfl rfl rfl (Nat.le_refl _) rfl
theorem writeByPhase_wf {w : World} (hw : WF w) (k : Nat) (vals : Ph → Nat → Rat) :
    WF (w.writeByPhase k vals) :=
  wf_same hw rfl rfl rfl rfl (Nat.le_refl _) rfl
theorem rebind_wf {w : World} (hw : WF w) (k : Nat) (b : Bool) : WF (w.rebind k b) :=
  wf_same hw rfl rfl rfl rfl (Nat.le_refl _) rfl

theorem relabel_wf {w : World} {k : Nat} (hw : WF w) (hk : k < w.nStr) (hm : (w.str k).multi = false)
    (q : Ph) : WF (w.relabel k q) := by
  obtain ⟨x, hx⟩ := hw.single hk hm
  have hx' : w.ipr (w.str k).imol = [x] := hx
  have hok := hw.pr_ok hk
  rw [hx] at hok
  apply wf_op (w' := w.relabel k q) hw hk rfl (Nat.le_refl _) (Nat.le_refl _) (fun _ _ => rfl)
  · intro i _ hne; simp [World.relabel, World.setIpr, hne]
  · simp only [World.relabel, World.setIpr, World.pr, if_true, hx', List.map_cons, List.map_nil]
    exact ⟨⟨by simp, by simpa using hok.2.1, Or.inl ⟨_, rfl⟩⟩, rfl⟩
  · exact hw.imol_lt k hk
  · rw [relabel_multi, hm, relabel_pr, hx]; simp
  · intro i h1 h2; exact absurd h2 (Nat.not_lt.2 h1)
  · rfl

theorem toSingle_wf {w : World} {k : Nat} (hw : WF w) (hk : k < w.nStr) (q : Ph) : WF (w.toSingle k q) := by
  have hlt := hw.imol_lt k hk
  have hne : (w.str k).imol ≠ w.nImol := Nat.ne_of_lt hlt
  apply wf_op hw hk
  · simp [World.toSingle, World.setStr, World.setCache, World.allocImol, World.allocRows]
  · simp [World.toSingle, World.setStr, World.setCache, World.allocImol, World.allocRows]
  · simp [World.toSingle, World.setStr, World.setCache, World.allocImol, World.allocRows]
  · intro j hj; simp [World.toSingle, World.setStr, World.setCache, World.allocImol, World.allocRows, hj]
  · intro i hi _
    have : i ≠ w.nImol := Nat.ne_of_lt hi
    simp [World.toSingle, World.setStr, World.setCache, World.allocImol, World.allocRows, this]
  · constructor
    · simp only [World.toSingle, World.setStr, World.setCache, World.allocImol, World.allocRows, hne, if_false]
      exact (hw.idx_ok _ hlt).mono (Nat.le_add_right _ _)
    · simp [World.toSingle, World.setStr, World.setCache, World.allocImol, World.allocRows, hne]
  · simp [World.toSingle, World.setStr, World.setCache, World.allocImol, World.allocRows]
  · rw [toSingle_pr]
    simp [World.toSingle, World.setStr, World.setCache, World.allocImol, World.allocRows]
  · intro i h1 h2
    have : i = w.nImol := by
      simp [World.toSingle, World.setStr, World.setCache, World.allocImol, World.allocRows] at h2
      omega
    subst this
    simp only [World.toSingle, World.setStr, World.setCache, World.allocImol, World.allocRows, if_true]
    exact ⟨by simp, by simp, Or.inl ⟨_, rfl⟩⟩
  · simp [World.toSingle, World.setStr, World.setCache, World.allocImol, World.allocRows]

/-- a stream that gets a fresh indexer over the labels `t` with fresh rows -/
theorem wf_fresh_imol {w w' : World} {k : Nat} {t : List Ph} (hw : WF w) (hk : k < w.nStr)
    (ht : (∃ p, t = [p]) ∨ (phaseTuple t = t ∧ 2 ≤ t.length))
    (hn : w'.nStr = w.nStr) (hnRow : w'.nRow = w.nRow + t.length) (hnImol : w'.nImol = w.nImol + 1)
    (hstr : ∀ j, j ≠ k → w'.str j = w.str j)
    (hipr : ∀ i, i < w.nImol → w'.ipr i = w.ipr i)
    (hnew : w'.ipr w.nImol = t.zip (List.range' w.nRow t.length))
    (himol : (w'.str k).imol = w.nImol)
    (hkind : (w'.str k).multi = decide (2 ≤ t.length))
    (hsn : w'.snaps = w.snaps) : WF w' := by
  have hlt := hw.imol_lt k hk
  apply wf_op hw hk hn (by omega) (by omega) hstr (fun i hi _ => hipr i hi)
  · rw [hipr _ hlt]
    exact ⟨(hw.idx_ok _ hlt).mono (by omega), rfl⟩
  · omega
  · simp only [World.pr, himol, hnew, hkind]
    simp
  · intro i h1 h2
    have : i = w.nImol := by omega
    subst this
    rw [hnew, hnRow]
    exact indexerOK_fresh ht
  · exact hsn

theorem toMulti_wf {w w' : World} {k : Nat} {t : List Ph} (hw : WF w) (hk : k < w.nStr)
    (h : w.toMulti k t = .ok w') (ht : phaseTuple t = t) (hlen : 2 ≤ t.length) : WF w' := by
  unfold World.toMulti at h
  simp only [] at h
  split at h
  · split at h
    · injection h with h; subst h
      apply rebind_wf
      apply wf_fresh_imol (t := t) hw hk (Or.inr ⟨ht, hlen⟩)
      · simp [World.setStr, World.allocImol, World.allocRows]
      · simp [World.setStr, World.allocImol, World.allocRows]
      · simp [World.setStr, World.allocImol, World.allocRows]
      · intro j hj; simp [World.setStr, World.allocImol, World.allocRows, hj]
      · intro i hi
        have : i ≠ w.nImol := Nat.ne_of_lt hi
        simp [World.setStr, World.allocImol, World.allocRows, this]
      · simp [World.setStr, World.allocImol, World.allocRows]
      · simp [World.setStr, World.allocImol, World.allocRows]
      · rename_i hm
        simp [World.setStr, World.allocImol, World.allocRows, hm, hlen]
      · simp [World.setStr, World.allocImol, World.allocRows]
    · injection h with h; subst h
      apply wf_fresh_imol (t := t) hw hk (Or.inr ⟨ht, hlen⟩)
      · simp [World.setStr, World.allocCache, World.allocImol, World.allocRows]
      · simp [World.setStr, World.allocCache, World.allocImol, World.allocRows]
      · simp [World.setStr, World.allocCache, World.allocImol, World.allocRows]
      · intro j hj; simp [World.setStr, World.allocCache, World.allocImol, World.allocRows, hj]
      · intro i hi
        have : i ≠ w.nImol := Nat.ne_of_lt hi
        simp [World.setStr, World.allocCache, World.allocImol, World.allocRows, this]
      · simp [World.setStr, World.allocCache, World.allocImol, World.allocRows]
      · simp [World.setStr, World.allocCache, World.allocImol, World.allocRows]
      · simp [World.setStr, World.allocCache, World.allocImol, World.allocRows, hlen]
      · simp [World.setStr, World.allocCache, World.allocImol, World.allocRows]
  · cases h

theorem setPhases_wf {w w' : World} {k : Nat} {ps : List Ph} (hw : WF w) (hk : k < w.nStr)
    (h : w.setPhases k ps = .ok w') : WF w' := by
  rcases setPhases_cases h with ⟨q, _, _, rfl⟩ | ⟨q, _, hm, rfl⟩ | ⟨_, _, _, rfl⟩ | ⟨hlen, _, h⟩
  · exact toSingle_wf hw hk q
  · exact relabel_wf hw hk hm q
  · exact hw
  · exact toMulti_wf hw hk h (phaseTuple_idem ps) hlen

theorem setPhase_wf {w w' : World} {k : Nat} {ls : List Ph} (hw : WF w) (hk : k < w.nStr)
    (h : w.setPhase k ls = .ok w') : WF w' := by
  rcases setPhase_cases h with ⟨_, q, _, rfl⟩ | ⟨_, _, h⟩ | ⟨hm, q, _, rfl⟩
  · exact toSingle_wf hw hk q
  · exact setPhases_wf hw hk h
  · exact relabel_wf hw hk hm q

theorem reduce_wf {w w' : World} {k : Nat} (hw : WF w) (hk : k < w.nStr) (h : w.reduce k = .ok w') :
    WF w' := by
  unfold World.reduce at h
  split at h
  · exact setPhase_wf hw hk h
  · injection h with h; subst h; exact hw

theorem asStream_wf {w w' : World} {k : Nat} (hw : WF w) (hk : k < w.nStr) (h : w.asStream k = .ok w') :
    WF w' := by
  unfold World.asStream at h
  split at h
  · split at h
    · exact setPhase_wf hw hk h
    · exact setPhase_wf hw hk h
    · cases h
  · injection h with h; subst h; exact hw

theorem accessor_wf {w w' : World} {k : Nat} {a b : Ph} {f : Ph → Bool} (hw : WF w) (hk : k < w.nStr)
    (h : w.accessor k a b f = .ok w') : WF w' := by
  unfold World.accessor at h
  split at h
  · split at h
    · injection h with h; subst h; exact hw
    · exact setPhases_wf hw hk h
  · rename_i hm
    have hm : (w.str k).multi = false := by simpa using hm
    simp only [] at h
    split at h
    · split at h
      · exact setPhases_wf (relabel_wf hw hk hm .l) hk h
      · exact setPhases_wf hw hk h
    · exact setPhases_wf hw hk h

theorem getView_wf {w w' : World} {k : Nat} {p : Ph} (hw : WF w) (h : w.getView k p = .ok w') : WF w' := by
  unfold World.getView at h
  split at h
  · split at h
    · injection h with h; subst h; exact hw
    · split at h
      · injection h with h; subst h
        exact wf_same hw rfl rfl rfl rfl (Nat.le_refl _) rfl
      · cases h
  · split at h
    · split at h
      · injection h with h; subst h; exact hw
      · cases h
    · cases h

/-! growing an indexer keeps its shape -/

theorem filterMap_find_labels (all : List (Ph × Nat)) (ks : List Ph) :
    (ks.filterMap (fun p => all.find? (fun x => x.1 == p))).map (·.1)
      = ks.filter (fun p => (all.find? (fun x => x.1 == p)).isSome) := by
  induction ks with
  | nil => rfl
  | cons p ks ih =>
    rw [List.filterMap_cons, List.filter_cons]
    cases hf : all.find? (fun x => x.1 == p) with
    | none => simpa using ih
    | some x =>
      have hx : x.1 = p := by simpa using List.find?_some hf
      simp [ih, hx]

theorem filterMap_find_mem {all : List (Ph × Nat)} {ks : List Ph} {x : Ph × Nat}
    (h : x ∈ ks.filterMap (fun p => all.find? (fun y => y.1 == p))) : x ∈ all := by
  rw [List.mem_filterMap] at h
  obtain ⟨p, _, hp⟩ := h
  exact List.mem_of_find?_eq_some hp

theorem phaseTuple_filter_all (g : Ph → Bool) : phaseTuple (Ph.all.filter g) = Ph.all.filter g := by
  unfold phaseTuple
  apply List.filter_congr
  intro p hp
  simp [List.mem_filter, hp]

theorem expand_ok {w : World} {k : Nat} {more : List Ph} (hw : WF w) (hk : k < w.nStr)
    (hm : (w.str k).multi = true) :
    IndexerOK (w.expand k more).nRow ((w.expand k more).pr k) ∧ 2 ≤ ((w.expand k more).pr k).length := by
  have hok := hw.pr_ok hk
  obtain ⟨hsorted, hlen⟩ := hw.multi hk hm
  unfold World.expand
  simp only []
  split
  · exact ⟨hok, hlen⟩
  · generalize hnew : (Ph.all.filter fun p => more.contains p && !(w.phases k).contains p) = new
    simp only [World.pr, World.setIpr, World.allocRows, if_true, List.length_map]
    generalize hall : w.ipr (w.str k).imol ++ new.zip (List.range' w.nRow new.length) = all
    have hpr : w.pr k = w.ipr (w.str k).imol := rfl
    have hall_snd : (all.map (·.2)).Nodup := by
      rw [← hall, List.map_append, map_snd_zip_range', List.nodup_append]
      refine ⟨hok.1, List.nodup_range', ?_⟩
      intro a ha b hb
      obtain ⟨x, hx, rfl⟩ := List.mem_map.1 ha
      have h1 := hok.2.1 x hx
      rw [List.mem_range'_1] at hb
      omega
    have hall_lt : ∀ x ∈ all, x.2 < w.nRow + new.length := by
      intro x hx
      rw [← hall, List.mem_append] at hx
      rcases hx with hx | hx
      · have := hok.2.1 x hx; omega
      · have := (List.of_mem_zip hx).2
        rw [List.mem_range'_1] at this
        exact this.2
    have hlabels := filterMap_find_labels all Ph.all
    have hnodup_labels : ((Ph.all.filterMap fun p => all.find? fun x => x.1 == p).map (·.1)).Nodup := by
      rw [hlabels]; exact List.Nodup.sublist List.filter_sublist Ph.all_nodup
    have hsub : (Ph.all.filter (fun p => (w.phases k).contains p)).Sublist
        (Ph.all.filter (fun p => (all.find? (fun x => x.1 == p)).isSome)) := by
      apply List.monotone_filter_right
      intro p hp
      have hp' : p ∈ w.phases k := by simpa using hp
      obtain ⟨x, hx, hxp⟩ := List.mem_map.1 hp'
      rw [← hall, List.find?_append]
      have : ((w.ipr (w.str k).imol).find? (fun y => y.1 == p)).isSome = true := by
        rw [List.find?_isSome]
        exact ⟨x, hx, by simpa using hxp⟩
      obtain ⟨y, hy⟩ := Option.isSome_iff_exists.1 this
      simp [hy]
    have hlen' : 2 ≤ (Ph.all.filterMap fun p => all.find? fun x => x.1 == p).length := by
      have h1 : (Ph.all.filterMap fun p => all.find? fun x => x.1 == p).length
          = (Ph.all.filter (fun p => (all.find? (fun x => x.1 == p)).isSome)).length := by
        rw [← hlabels, List.length_map]
      have h2 := hsub.length_le
      have h3 : (Ph.all.filter (fun p => (w.phases k).contains p)).length = (w.pr k).length := by
        have : Ph.all.filter (fun p => (w.phases k).contains p) = w.phases k := hsorted
        rw [this]; simp [World.phases]
      omega
    refine ⟨⟨?_, ?_, Or.inr ⟨?_, hlen'⟩⟩, hlen'⟩
    · apply List.Nodup.map_on
      · intro x hx y hy hxy
        exact List.inj_on_of_nodup_map hall_snd (filterMap_find_mem hx) (filterMap_find_mem hy) hxy
      · exact List.Nodup.of_map _ hnodup_labels
    · intro x hx
      exact hall_lt x (filterMap_find_mem hx)
    · rw [hlabels]; exact phaseTuple_filter_all _

theorem expand_fields (w : World) (k : Nat) (more : List Ph) :
    (w.expand k more).str = w.str ∧ (w.expand k more).nStr = w.nStr ∧
    (w.expand k more).nImol = w.nImol ∧ w.nRow ≤ (w.expand k more).nRow ∧
    (w.expand k more).snaps = w.snaps ∧
    (∀ i, i ≠ (w.str k).imol → (w.expand k more).ipr i = w.ipr i) := by
  unfold World.expand
  simp only []
  split
  · exact ⟨rfl, rfl, rfl, Nat.le_refl _, rfl, fun _ _ => rfl⟩
  · refine ⟨rfl, rfl, rfl, by simp [World.setIpr, World.allocRows], rfl, ?_⟩
    intro i hne
    simp [World.setIpr, World.allocRows, hne]

theorem expand_wf {w : World} {k : Nat} {more : List Ph} (hw : WF w) (hk : k < w.nStr)
    (hm : (w.str k).multi = true) : WF (w.expand k more) := by
  obtain ⟨h1, h2, h3, h4, h5, h6⟩ := expand_fields w k more
  obtain ⟨hok, hlen⟩ := expand_ok (more := more) hw hk hm
  have hlen0 := (hw.multi hk hm).2
  have hpr : (w.expand k more).pr k = (w.expand k more).ipr (w.str k).imol := by
    simp [World.pr, h1]
  apply wf_op hw hk h2 h4 (by rw [h3]) (fun j _ => by rw [h1]) (fun i _ hne => h6 i hne)
  · rw [← hpr]
    refine ⟨hok, ?_⟩
    have : 2 ≤ (w.ipr (w.str k).imol).length := hlen0
    simp [hlen, this]
  · rw [h1, h3]; exact hw.imol_lt k hk
  · rw [h1, hm]; simp [hlen]
  · intro i hi1 hi2; rw [h3] at hi2; omega
  · exact h5

theorem phases_length (w : World) (k : Nat) : (w.phases k).length = (w.pr k).length := by
  simp [World.phases]

theorem unlink_wf {w w' : World} {k : Nat} (hw : WF w) (hk : k < w.nStr) (h : w.unlink k = .ok w') :
    WF w' := by
  unfold World.unlink at h
  split at h
  · cases h
  · simp only [] at h
    injection h with h; subst h
    have hshape := shape_labels (hw.pr_ok hk)
    have hkind := hw.kind k hk
    have key : WF ((((w.allocRows ((w.pr k).map fun x => w.row x.2)).1.allocImol
        ((w.phases k).zip (w.allocRows ((w.pr k).map fun x => w.row x.2)).2)).1.allocTc
        (w.T (w.str k).tc) (w.P (w.str k).tc)).1.setStr k
        { w.str k with imol := w.nImol, tc := w.nTc }) := by
      apply wf_fresh_imol (t := w.phases k) hw hk hshape
      · simp [World.setStr, World.allocTc, World.allocImol, World.allocRows]
      · simp [World.setStr, World.allocTc, World.allocImol, World.allocRows, phases_length]
      · simp [World.setStr, World.allocTc, World.allocImol, World.allocRows]
      · intro j hj; simp [World.setStr, World.allocTc, World.allocImol, World.allocRows, hj]
      · intro i hi
        have : i ≠ w.nImol := Nat.ne_of_lt hi
        simp [World.setStr, World.allocTc, World.allocImol, World.allocRows, this]
      · simp [World.setStr, World.allocTc, World.allocImol, World.allocRows, phases_length]
      · simp [World.setStr, World.allocTc, World.allocImol, World.allocRows]
      · simp [World.setStr, World.allocTc, World.allocImol, World.allocRows, hkind, phases_length]
      · simp [World.setStr, World.allocTc, World.allocImol, World.allocRows]
    split
    · exact rebind_wf key _ _
    · exact key

theorem rebindLink_wf {w : World} (hw : WF w) (k : Nat) (b : Bool) : WF (w.rebindLink k b) :=
  wf_same hw rfl rfl rfl rfl (Nat.le_refl _) rfl

theorem link_wf {w w' : World} {k j : Nat} {flow tp : Bool} (hw : WF w) (hk : k < w.nStr) (hj : j < w.nStr)
    (h : w.link k j flow tp = .ok w') : WF w' := by
  unfold World.link at h
  split at h
  · cases h
  · rename_i hcls
    split at h
    · cases h
    · rename_i hg
      simp only [] at h
      injection h with h; subst h
      have hm : (w.str k).multi = true := by
        cases hmm : (w.str k).multi with
        | true => rfl
        | false => simp [hmm] at hg
      have hmj : (w.str j).multi = true := by
        cases hmm : (w.str j).multi with
        | true => rfl
        | false => simp [hm, hmm] at hcls
      have hlenk := (hw.multi hk hm).2
      have hlenj := (hw.multi hj hmj).2
      have hlenk' : 2 ≤ (w.ipr (w.str k).imol).length := hlenk
      have hlenj' : 2 ≤ (w.ipr (w.str j).imol).length := hlenj
      have key : WF (if tp = true then
          (if flow = true then w.setIpr (w.str k).imol (w.pr j) else w).setStr k
            { (if flow = true then w.setIpr (w.str k).imol (w.pr j) else w).str k with tc := (w.str j).tc }
        else (if flow = true then w.setIpr (w.str k).imol (w.pr j) else w)) := by
        apply wf_op hw hk
        · cases flow <;> cases tp <;> simp [World.setStr, World.setIpr]
        · cases flow <;> cases tp <;> simp [World.setStr, World.setIpr]
        · cases flow <;> cases tp <;> simp [World.setStr, World.setIpr]
        · intro i hne; cases flow <;> cases tp <;> simp [World.setStr, World.setIpr, hne]
        · intro i _ hne; cases flow <;> cases tp <;> simp [World.setStr, World.setIpr, hne]
        · have hokk := hw.pr_ok hk
          have hokj := hw.pr_ok hj
          cases flow <;> cases tp <;>
            simp [World.setStr, World.setIpr, World.pr, hlenk', hlenj'] <;>
            first | exact hokk | exact hokj
        · have := hw.imol_lt k hk
          cases flow <;> cases tp <;> simpa [World.setStr, World.setIpr] using this
        · cases flow <;> cases tp <;> simp [World.setStr, World.setIpr, World.pr, hm, hlenk', hlenj']
        · intro i h1 h2
          exfalso
          cases flow <;> cases tp <;> simp [World.setStr, World.setIpr] at h2 <;> omega
        · cases flow <;> cases tp <;> simp [World.setStr, World.setIpr]
      split
      · exact rebindLink_wf key _ _
      · exact key

theorem resetThermo_wf {w w' : World} {k t : Nat} (hw : WF w) (hk : k < w.nStr)
    (h : w.resetThermo k t = .ok w') : WF w' := by
  unfold World.resetThermo at h
  split at h
  · injection h with h; subst h; exact hw
  · split at h
    · cases h
    · simp only [] at h
      injection h with h; subst h
      have hshape := shape_labels (hw.pr_ok hk)
      have hkind := hw.kind k hk
      have hfr := indexerOK_fresh (nRow := w.nRow) hshape
      have key : WF (((w.allocRows ((w.pr k).map fun x => w.row x.2)).1.setIpr (w.str k).imol
          ((w.phases k).zip (w.allocRows ((w.pr k).map fun x => w.row x.2)).2)).setStr k
          { w.str k with thermo := t }) := by
        apply wf_op hw hk
        · simp [World.setStr, World.setIpr, World.allocRows]
        · simp [World.setStr, World.setIpr, World.allocRows]
        · simp [World.setStr, World.setIpr, World.allocRows]
        · intro j hj; simp [World.setStr, World.setIpr, World.allocRows, hj]
        · intro i _ hne; simp [World.setStr, World.setIpr, World.allocRows, hne]
        · simp only [World.setStr, World.setIpr, World.allocRows, if_true, List.length_map,
            allocRows_ids]
          rw [← phases_length]
          refine ⟨hfr, ?_⟩
          have : (w.ipr (w.str k).imol).length = (w.phases k).length := (phases_length w k).symm
          simp [this]
        · have := hw.imol_lt k hk
          simpa [World.setStr, World.setIpr, World.allocRows] using this
        · simp [World.setStr, World.setIpr, World.allocRows, World.pr, hkind, phases_length]
          rfl
        · intro i h1 h2
          simp [World.setStr, World.setIpr, World.allocRows] at h2
          omega
        · simp [World.setStr, World.setIpr, World.allocRows]
      split
      · exact rebind_wf key _ _
      · exact key

theorem mixP_wf {w : World} (hw : WF w) (k : Nat) (live : List Nat) : WF (w.mixP k live) := by
  unfold World.mixP
  split
  · exact setP_wf hw _ _
  · exact hw

theorem copyLike_wf {w w' : World} {k j : Nat} (hw : WF w) (hk : k < w.nStr) (hj : j < w.nStr)
    (h : w.copyLike k j = .ok w') : WF w' := by
  unfold World.copyLike at h
  simp only [] at h
  split at h
  · injection h with h; subst h
    exact setP_wf (setT_wf hw _ _) _ _
  · split at h
    · rename_i hm
      split at h
      · cases h
      · injection h with h; subst h
        refine setP_wf (setT_wf (writeByPhase_wf ?_ _ _) _ _) _ _
        split
        · exact expand_wf hw hk hm
        · exact hw
    · rename_i hm
      have hm' : (w.str k).multi = false := by simpa using hm
      split at h
      · rename_i hmj
        injection h with h; subst h
        refine setP_wf (setT_wf ?_ _ _) _ _
        have hj2 := hw.multi hj hmj
        apply wf_fresh_imol (t := w.phases j) hw hk (Or.inr ⟨hj2.1, by rw [phases_length]; exact hj2.2⟩)
        · simp [World.setStr, World.allocCache, World.allocImol, World.allocRows]
        · simp [World.setStr, World.allocCache, World.allocImol, World.allocRows, phases_length]
        · simp [World.setStr, World.allocCache, World.allocImol, World.allocRows]
        · intro i hne; simp [World.setStr, World.allocCache, World.allocImol, World.allocRows, hne]
        · intro i hi
          have : i ≠ w.nImol := Nat.ne_of_lt hi
          simp [World.setStr, World.allocCache, World.allocImol, World.allocRows, this]
        · simp [World.setStr, World.allocCache, World.allocImol, World.allocRows, phases_length]
        · simp [World.setStr, World.allocCache, World.allocImol, World.allocRows]
        · simp [World.setStr, World.allocCache, World.allocImol, World.allocRows, phases_length, hj2.2]
        · simp [World.setStr, World.allocCache, World.allocImol, World.allocRows]
      · split at h
        · injection h with h; subst h
          exact setP_wf (setT_wf (copyRows_wf (relabel_wf hw hk hm' _) _ _) _ _) _ _
        · cases h

theorem mixFrom_wf {w w' : World} {k : Nat} {js : List Nat} (hw : WF w) (hk : k < w.nStr)
    (h : w.mixFrom k js = .ok w') : WF w' := by
  unfold World.mixFrom at h
  simp only [] at h
  split at h
  · injection h with h; subst h; exact emptyRows_wf hw k
  · split at h
    · rename_i hm
      split at h
      · cases h
      · injection h with h; subst h
        apply writeByPhase_wf
        split
        · exact expand_wf (mixP_wf hw _ _) (by rw [mixP_nStr]; exact hk) (by rw [mixP_str]; exact hm)
        · exact mixP_wf hw _ _
    · rename_i hm
      have hm' : (w.str k).multi = false := by simpa using hm
      split at h
      · cases h
      · injection h with h; subst h
        apply copyRows_wf
        split
        · split
          · exact relabel_wf (mixP_wf hw _ _) (by rw [mixP_nStr]; exact hk) (by rw [mixP_str]; exact hm') _
          · exact mixP_wf hw _ _
        · exact mixP_wf hw _ _

/-- a new stream record over existing or fresh objects -/
theorem wf_new {w w' : World} (hw : WF w) (hn : w'.nStr = w.nStr + 1)
    (hnRow : w.nRow ≤ w'.nRow) (hnImol : w.nImol ≤ w'.nImol)
    (hstr : ∀ j, j < w.nStr → w'.str j = w.str j)
    (hipr : ∀ i, i < w.nImol → w'.ipr i = w.ipr i)
    (hk_lt : (w'.str w.nStr).imol < w'.nImol)
    (hk_kind : (w'.str w.nStr).multi = decide (2 ≤ (w'.pr w.nStr).length))
    (hfresh : ∀ i, w.nImol ≤ i → i < w'.nImol → IndexerOK w'.nRow (w'.ipr i))
    (hsn : w'.snaps = w.snaps) : WF w' := by
  constructor
  · intro j hj
    rw [hn] at hj
    by_cases hjk : j < w.nStr
    · rw [hstr j hjk]; exact Nat.lt_of_lt_of_le (hw.imol_lt j hjk) hnImol
    · have : j = w.nStr := by omega
      subst this; exact hk_lt
  · intro i hi
    by_cases hlt : i < w.nImol
    · rw [hipr i hlt]; exact (hw.idx_ok i hlt).mono hnRow
    · exact hfresh i (Nat.le_of_not_lt hlt) hi
  · intro j hj
    rw [hn] at hj
    by_cases hjk : j < w.nStr
    · unfold World.pr
      rw [hstr j hjk, hipr _ (hw.imol_lt j hjk)]; exact hw.kind j hjk
    · have : j = w.nStr := by omega
      subst this; exact hk_kind
  · rw [hsn]; exact hw.snaps

theorem proxy_wf {w w' : World} {k : Nat} (hw : WF w) (hk : k < w.nStr) (h : w.proxy k = .ok w') :
    WF w' := by
  unfold World.proxy at h
  simp only [] at h
  injection h with h; subst h
  have hne : ∀ j, j < w.nStr → j ≠ w.nStr := fun j hj => Nat.ne_of_lt hj
  apply wf_new hw
  · simp [World.setStr, World.allocCache]
  · simp [World.setStr, World.allocCache]
  · simp [World.setStr, World.allocCache]
  · intro j hj; simp [World.setStr, World.allocCache, hne j hj]
  · intro i _; simp [World.setStr, World.allocCache]
  · simpa [World.setStr, World.allocCache] using hw.imol_lt k hk
  · have hk' := hw.kind k hk
    simp only [World.pr] at hk'
    simp [World.setStr, World.allocCache, World.pr, hk']
    rfl
  · intro i h1 h2; simp [World.setStr, World.allocCache] at h2; omega
  · simp [World.setStr, World.allocCache]

theorem newSingle_wf {w : World} (hw : WF w) (p : Ph) (T P : Rat) (f : Nat → Rat) :
    WF (w.newSingle p T P f) := by
  have hne : ∀ j, j < w.nStr → j ≠ w.nStr := fun j hj => Nat.ne_of_lt hj
  apply wf_new hw
  · simp [World.newSingle, World.setStr, World.allocCache, World.allocTc, World.allocImol, World.allocRows]
  · simp [World.newSingle, World.setStr, World.allocCache, World.allocTc, World.allocImol, World.allocRows]
  · simp [World.newSingle, World.setStr, World.allocCache, World.allocTc, World.allocImol, World.allocRows]
  · intro j hj
    simp [World.newSingle, World.setStr, World.allocCache, World.allocTc, World.allocImol, World.allocRows, hne j hj]
  · intro i hi
    have : i ≠ w.nImol := Nat.ne_of_lt hi
    simp [World.newSingle, World.setStr, World.allocCache, World.allocTc, World.allocImol, World.allocRows, this]
  · simp [World.newSingle, World.setStr, World.allocCache, World.allocTc, World.allocImol, World.allocRows]
  · simp [World.newSingle, World.pr, World.setStr, World.allocCache, World.allocTc, World.allocImol, World.allocRows]
  · intro i h1 h2
    have : i = w.nImol := by
      simp [World.newSingle, World.setStr, World.allocCache, World.allocTc, World.allocImol, World.allocRows] at h2
      omega
    subst this
    simp only [World.newSingle, World.setStr, World.allocCache, World.allocTc, World.allocImol, World.allocRows, if_true]
    exact ⟨by simp, by simp, Or.inl ⟨_, rfl⟩⟩
  · simp [World.newSingle, World.setStr, World.allocCache, World.allocTc, World.allocImol, World.allocRows]

theorem newMulti_wf {w : World} (hw : WF w) (ps : List Ph) (T P : Rat) (fl : List (Ph × (Nat → Rat)))
    (hlen : 2 ≤ (phaseTuple ps).length) : WF (w.newMulti ps T P fl) := by
  have hne : ∀ j, j < w.nStr → j ≠ w.nStr := fun j hj => Nat.ne_of_lt hj
  apply wf_new hw
  · simp [World.newMulti, World.setStr, World.allocCache, World.allocTc, World.allocImol, World.allocRows]
  · simp [World.newMulti, World.setStr, World.allocCache, World.allocTc, World.allocImol, World.allocRows]
  · simp [World.newMulti, World.setStr, World.allocCache, World.allocTc, World.allocImol, World.allocRows]
  · intro j hj
    simp [World.newMulti, World.setStr, World.allocCache, World.allocTc, World.allocImol, World.allocRows, hne j hj]
  · intro i hi
    have : i ≠ w.nImol := Nat.ne_of_lt hi
    simp [World.newMulti, World.setStr, World.allocCache, World.allocTc, World.allocImol, World.allocRows, this]
  · simp [World.newMulti, World.setStr, World.allocCache, World.allocTc, World.allocImol, World.allocRows]
  · simp [World.newMulti, World.pr, World.setStr, World.allocCache, World.allocTc, World.allocImol, World.allocRows, hlen]
  · intro i h1 h2
    have : i = w.nImol := by
      simp [World.newMulti, World.setStr, World.allocCache, World.allocTc, World.allocImol, World.allocRows] at h2
      omega
    subst this
    simp only [World.newMulti, World.setStr, World.allocCache, World.allocTc, World.allocImol, World.allocRows,
      if_true, List.length_map]
    exact indexerOK_fresh (Or.inr ⟨phaseTuple_idem ps, hlen⟩)
  · simp [World.newMulti, World.setStr, World.allocCache, World.allocTc, World.allocImol, World.allocRows]

theorem restore_wf {w w' : World} {k idx : Nat} (hw : WF w) (hk : k < w.nStr)
    (h : w.restore k idx = .ok w') : WF w' := by
  unfold World.restore at h
  split at h
  · cases h
  · simp only [bind, Except.bind] at h
    split at h
    · cases h
    · rename_i w2 h2
      injection h with h; subst h
      exact setP_wf (setT_wf (copyRows_wf (setPhases_wf (emptyRows_wf hw k) hk h2) _ _) _ _) _ _

/-! streams and snapshots are never lost -/

/-- the universe only grows: stream indices stay valid, snapshots are only appended -/
def Mono (w w' : World) : Prop := w.nStr ≤ w'.nStr ∧ ∃ l, w'.snaps = w.snaps ++ l

theorem Mono.refl (w : World) : Mono w w := ⟨Nat.le_refl _, [], by simp⟩
theorem Mono.trans {a b c : World} (h1 : Mono a b) (h2 : Mono b c) : Mono a c := by
  obtain ⟨l1, e1⟩ := h1.2
  obtain ⟨l2, e2⟩ := h2.2
  exact ⟨Nat.le_trans h1.1 h2.1, l1 ++ l2, by rw [e2, e1, List.append_assoc]⟩
theorem mono_of_eq {w w' : World} (h1 : w'.nStr = w.nStr) (h2 : w'.snaps = w.snaps) : Mono w w' :=
  ⟨by rw [h1], [], by simp [h2]⟩

theorem toSingle_mono (w : World) (k : Nat) (q : Ph) : Mono w (w.toSingle k q) :=
  mono_of_eq (by simp [World.toSingle, World.setStr, World.setCache, World.allocImol, World.allocRows])
    (by simp [World.toSingle, World.setStr, World.setCache, World.allocImol, World.allocRows])

theorem toMulti_mono {w w' : World} {k : Nat} {t : List Ph} (h : w.toMulti k t = .ok w') : Mono w w' :=
  mono_of_eq (toMulti_ok h).2.2.2.2.2.2.2.2.2 (toMulti_ok h).2.2.2.2.2.2.2.1

theorem setPhases_mono {w w' : World} {k : Nat} {ps : List Ph} (h : w.setPhases k ps = .ok w') : Mono w w' := by
  rcases setPhases_cases h with ⟨q, _, _, rfl⟩ | ⟨q, _, _, rfl⟩ | ⟨_, _, _, rfl⟩ | ⟨_, _, h⟩
  · exact toSingle_mono w k q
  · exact mono_of_eq rfl rfl
  · exact Mono.refl _
  · exact toMulti_mono h

theorem setPhase_mono {w w' : World} {k : Nat} {ls : List Ph} (h : w.setPhase k ls = .ok w') : Mono w w' := by
  rcases setPhase_cases h with ⟨_, q, _, rfl⟩ | ⟨_, _, h⟩ | ⟨_, q, _, rfl⟩
  · exact toSingle_mono w k q
  · exact setPhases_mono h
  · exact mono_of_eq rfl rfl

theorem accessor_mono {w w' : World} {k : Nat} {a b : Ph} {f : Ph → Bool}
    (h : w.accessor k a b f = .ok w') : Mono w w' := by
  unfold World.accessor at h
  split at h
  · split at h
    · injection h with h; subst h; exact Mono.refl w
    · exact setPhases_mono h
  · simp only [] at h
    split at h
    · split at h
      · exact (mono_of_eq (w := w) (w' := w.relabel k .l) rfl rfl).trans (setPhases_mono h)
      · exact setPhases_mono h
    · exact setPhases_mono h

theorem expand_mono (w : World) (k : Nat) (more : List Ph) : Mono w (w.expand k more) := by
  obtain ⟨_, h2, _, _, h5, _⟩ := expand_fields w k more
  exact mono_of_eq h2 h5

theorem mixP_snaps (w : World) (k : Nat) (live : List Nat) : (w.mixP k live).snaps = w.snaps := by
  unfold World.mixP; split <;> rfl

theorem Mono.wbp {a b : World} (h : Mono a b) {k : Nat} {v : Ph → Nat → Rat} : Mono a (b.writeByPhase k v) :=
  h.trans (mono_of_eq rfl rfl)
theorem Mono.copyRows {a b : World} (h : Mono a b) {k : Nat} {v : List (Nat → Rat)} : Mono a (b.copyRows k v) :=
  h.trans (mono_of_eq rfl rfl)
theorem Mono.relabel {a b : World} (h : Mono a b) (k : Nat) (q : Ph) : Mono a (b.relabel k q) :=
  h.trans (mono_of_eq rfl rfl)
theorem Mono.expand {a b : World} (h : Mono a b) (k : Nat) (more : List Ph) : Mono a (b.expand k more) :=
  h.trans (expand_mono _ _ _)
theorem Mono.mixP {a b : World} (h : Mono a b) (k : Nat) (live : List Nat) : Mono a (b.mixP k live) :=
  h.trans (mono_of_eq (mixP_nStr _ _ _) (mixP_snaps _ _ _))

theorem body_mono {w w' : World} {op : Op} (h : w.body op = .ok w') : Mono w w' := by
  cases op with
  | newS p T P f =>
    simp only [World.body] at h; injection h with h; subst h
    exact ⟨by simp [World.newSingle, World.setStr, World.allocCache, World.allocTc, World.allocImol, World.allocRows],
      [], by simp [World.newSingle, World.setStr, World.allocCache, World.allocTc, World.allocImol, World.allocRows]⟩
  | newM ps T P fl =>
    simp only [World.body] at h
    split at h
    · injection h with h; subst h
      exact ⟨by simp [World.newMulti, World.setStr, World.allocCache, World.allocTc, World.allocImol, World.allocRows],
        [], by simp [World.newMulti, World.setStr, World.allocCache, World.allocTc, World.allocImol, World.allocRows]⟩
    · cases h
  | setPhases k ps => exact setPhases_mono h
  | setPhase k ls => exact setPhase_mono h
  | reduce k =>
    simp only [World.body, World.reduce] at h
    split at h
    · exact setPhase_mono h
    · injection h with h; subst h; exact Mono.refl w
  | asStream k =>
    simp only [World.body, World.asStream] at h
    split at h
    · split at h
      · exact setPhase_mono h
      · exact setPhase_mono h
      · cases h
    · injection h with h; subst h; exact Mono.refl w
  | vle k => exact accessor_mono h
  | lle k => exact accessor_mono h
  | sle k => exact accessor_mono h
  | empty k => simp only [World.body] at h; injection h with h; subst h; exact mono_of_eq rfl rfl
  | view k p =>
    simp only [World.body, World.getView] at h
    split at h
    · split at h
      · injection h with h; subst h; exact Mono.refl w
      · split at h
        · injection h with h; subst h; exact mono_of_eq rfl rfl
        · cases h
    · split at h
      · split at h
        · injection h with h; subst h; exact Mono.refl w
        · cases h
      · cases h
  | wView hd i x =>
    simp only [World.body, World.writeView] at h
    split at h
    · injection h with h; subst h; exact mono_of_eq rfl rfl
    · cases h
  | wPar k p i x =>
    simp only [World.body, World.writePar] at h
    split at h
    · split at h
      · cases h
      · split at h
        · injection h with h; subst h; exact mono_of_eq rfl rfl
        · cases h
    · split at h
      · cases h
      · injection h with h; subst h; exact mono_of_eq rfl rfl
  | wT k x => simp only [World.body] at h; injection h with h; subst h; exact mono_of_eq rfl rfl
  | wP k x => simp only [World.body] at h; injection h with h; subst h; exact mono_of_eq rfl rfl
  | wvT hd x =>
    simp only [World.body] at h
    split at h
    · injection h with h; subst h; exact mono_of_eq rfl rfl
    · cases h
  | wvP hd x =>
    simp only [World.body] at h
    split at h
    · injection h with h; subst h; exact mono_of_eq rfl rfl
    · cases h
  | vPhase hd p =>
    simp only [World.body] at h
    split at h
    · split at h
      · injection h with h; subst h; exact Mono.refl w
      · cases h
    · cases h
  | hPhases hd ps =>
    simp only [World.body] at h
    split at h
    · split at h
      · cases h
      · split at h
        · injection h with h; subst h; exact Mono.refl w
        · cases h
      · cases h
    · cases h
  | hAccessor hd =>
    simp only [World.body] at h
    split at h <;> cases h
  | save k =>
    simp only [World.body] at h; injection h with h; subst h
    exact ⟨Nat.le_refl _, [w.snapshot k], rfl⟩
  | restore k idx =>
    simp only [World.body, World.restore] at h
    split at h
    · cases h
    · simp only [bind, Except.bind] at h
      split at h
      · cases h
      · rename_i w2 h2
        injection h with h; subst h
        exact (mono_of_eq (w := w) (w' := w.emptyRows k) rfl rfl).trans
          ((setPhases_mono h2).trans (mono_of_eq rfl rfl))
  | unlink k =>
    simp only [World.body, World.unlink] at h
    split at h
    · cases h
    · injection h with h; subst h
      split <;> exact mono_of_eq (by simp [World.setStr, World.allocTc, World.allocImol, World.allocRows])
        (by simp [World.setStr, World.allocTc, World.allocImol, World.allocRows])
  | link k j flow tp =>
    simp only [World.body, World.link] at h
    split at h
    · cases h
    · split at h
      · cases h
      · injection h with h; subst h
        exact mono_of_eq (by cases flow <;> cases tp <;> simp [World.setStr, World.setIpr, World.rebindLink])
          (by cases flow <;> cases tp <;> simp [World.setStr, World.setIpr, World.rebindLink])
  | copyLike k j =>
    simp only [World.body, World.copyLike] at h
    split at h
    · injection h with h; subst h; exact mono_of_eq rfl rfl
    · split at h
      · split at h
        · cases h
        · injection h with h; subst h
          refine Mono.trans (b := if w.copyNeed k j = true then w.expand k (w.phases j) else w) ?_
            (mono_of_eq rfl rfl)
          split
          · exact expand_mono _ _ _
          · exact Mono.refl w
      · split at h
        · injection h with h; subst h
          exact mono_of_eq (by simp [World.setT, World.setP, World.setStr, World.allocCache, World.allocImol, World.allocRows])
            (by simp [World.setT, World.setP, World.setStr, World.allocCache, World.allocImol, World.allocRows])
        · split at h
          · injection h with h; subst h; exact mono_of_eq rfl rfl
          · cases h
  | mixFrom k js =>
    simp only [World.body, World.mixFrom] at h
    split at h
    · injection h with h; subst h; exact mono_of_eq rfl rfl
    · split at h
      · split at h
        · cases h
        · injection h with h; subst h
          apply Mono.wbp
          split
          · exact ((Mono.refl w).mixP _ _).expand _ _
          · exact (Mono.refl w).mixP _ _
      · split at h
        · cases h
        · injection h with h; subst h
          apply Mono.copyRows
          split
          · split
            · exact ((Mono.refl w).mixP _ _).relabel _ _
            · exact (Mono.refl w).mixP _ _
          · exact (Mono.refl w).mixP _ _
  | resetThermo k t =>
    simp only [World.body, World.resetThermo] at h
    split at h
    · injection h with h; subst h; exact Mono.refl w
    · split at h
      · cases h
      · injection h with h; subst h
        split <;> exact mono_of_eq (by simp [World.setStr, World.setIpr, World.allocRows])
          (by simp [World.setStr, World.setIpr, World.allocRows])
  | proxy k =>
    simp only [World.body, World.proxy] at h
    injection h with h; subst h
    exact ⟨by simp [World.setStr, World.allocCache], [], by simp [World.setStr, World.allocCache]⟩

theorem step_wf {w w' : World} {op : Op} (hw : WF w) (h : w.step op = .ok w') : WF w' := by
  obtain ⟨hb0, hb⟩ := step_ok h
  have hreads : ∀ j ∈ op.reads, j < w.nStr := by
    unfold Op.inBounds at hb0
    simp only [Bool.and_eq_true, List.all_eq_true, decide_eq_true_eq] at hb0
    exact hb0.2
  cases op with
  | newS p T P f => simp only [World.body] at hb; injection hb with hb; subst hb; exact newSingle_wf hw p T P f
  | newM ps T P fl =>
    simp only [World.body] at hb
    split at hb
    · rename_i hlen
      injection hb with hb; subst hb; exact newMulti_wf hw ps T P fl hlen
    · cases hb
  | setPhases k ps => exact setPhases_wf hw (step_target_lt h rfl) hb
  | setPhase k ls => exact setPhase_wf hw (step_target_lt h rfl) hb
  | reduce k => exact reduce_wf hw (step_target_lt h rfl) hb
  | asStream k => exact asStream_wf hw (step_target_lt h rfl) hb
  | vle k => exact accessor_wf hw (step_target_lt h rfl) hb
  | lle k => exact accessor_wf hw (step_target_lt h rfl) hb
  | sle k => exact accessor_wf hw (step_target_lt h rfl) hb
  | empty k => simp only [World.body] at hb; injection hb with hb; subst hb; exact emptyRows_wf hw k
  | view k p => exact getView_wf hw hb
  | wView hd i x =>
    simp only [World.body, World.writeView] at hb
    split at hb
    · injection hb with hb; subst hb; exact writeRow_wf hw _ _ _
    · cases hb
  | wPar k p i x =>
    simp only [World.body, World.writePar] at hb
    split at hb
    · split at hb
      · cases hb
      · split at hb
        · injection hb with hb; subst hb; exact writeRow_wf hw _ _ _
        · cases hb
    · split at hb
      · cases hb
      · injection hb with hb; subst hb; exact writeRow_wf hw _ _ _
  | wT k x => simp only [World.body] at hb; injection hb with hb; subst hb; exact setT_wf hw _ _
  | wP k x => simp only [World.body] at hb; injection hb with hb; subst hb; exact setP_wf hw _ _
  | wvT hd x =>
    simp only [World.body] at hb
    split at hb
    · injection hb with hb; subst hb; exact setT_wf hw _ _
    · cases hb
  | wvP hd x =>
    simp only [World.body] at hb
    split at hb
    · injection hb with hb; subst hb; exact setP_wf hw _ _
    · cases hb
  | vPhase hd p =>
    simp only [World.body] at hb
    split at hb
    · split at hb
      · injection hb with hb; subst hb; exact hw
      · cases hb
    · cases hb
  | hPhases hd ps =>
    simp only [World.body] at hb
    split at hb
    · split at hb
      · cases hb
      · split at hb
        · injection hb with hb; subst hb; exact hw
        · cases hb
      · cases hb
    · cases hb
  | hAccessor hd =>
    simp only [World.body] at hb
    split at hb <;> cases hb
  | save k =>
    simp only [World.body] at hb; injection hb with hb; subst hb
    have hk := step_target_lt h rfl
    refine ⟨hw.imol_lt, hw.idx_ok, hw.kind, ?_⟩
    intro d hd
    simp only [World.save, List.mem_append, List.mem_singleton] at hd
    rcases hd with hd | rfl
    · exact hw.snaps d hd
    · refine ⟨by simp [World.snapshot, World.phases], ?_⟩
      rcases shape_labels (hw.pr_ok hk) with h1 | h1
      · exact Or.inl h1
      · exact Or.inr h1
  | restore k idx => exact restore_wf hw (step_target_lt h rfl) hb
  | unlink k => exact unlink_wf hw (step_target_lt h rfl) hb
  | link k j flow tp => exact link_wf hw (step_target_lt h rfl) (hreads j (by simp [Op.reads])) hb
  | copyLike k j => exact copyLike_wf hw (step_target_lt h rfl) (hreads j (by simp [Op.reads])) hb
  | mixFrom k js => exact mixFrom_wf hw (step_target_lt h rfl) hb
  | resetThermo k t => exact resetThermo_wf hw (step_target_lt h rfl) hb
  | proxy k => exact proxy_wf hw (step_target_lt h rfl) hb

theorem apply_wf {w : World} (hw : WF w) (op : Op) : WF (w.apply op) := by
  unfold World.apply
  split
  · rename_i w' h; exact step_wf hw h
  · exact hw

theorem run_wf {w : World} (hw : WF w) (ops : List Op) : WF (w.run ops) := by
  induction ops generalizing w with
  | nil => exact hw
  | cons op ops ih => exact ih (apply_wf hw op)

theorem apply_mono (w : World) (op : Op) : Mono w (w.apply op) := by
  unfold World.apply
  split
  · rename_i w' h; exact body_mono (step_ok h).2
  · exact Mono.refl w

theorem run_mono (w : World) (ops : List Op) : Mono w (w.run ops) := by
  induction ops generalizing w with
  | nil => exact Mono.refl w
  | cons op ops ih => exact (apply_mono w op).trans (ih (w.apply op))

/-! ### restoring a snapshot -/

/-- what the property talks about: class, phase tuple, the flows of every phase, T and P -/
structure Obs where
  multi : Bool
  phases : List Ph
  vals : List (Nat → Rat)
  T : Rat
  P : Rat

def World.obs (w : World) (k : Nat) : Obs :=
  ⟨(w.str k).multi, w.phases k, (w.pr k).map (fun x => w.row x.2), w.temp k, w.pres k⟩

theorem find_zip_of_mem {β : Type} {rows : List Nat} {vals : List β} (hn : rows.Nodup) {r : Nat} {v : β}
    (hm : (r, v) ∈ rows.zip vals) : (rows.zip vals).find? (fun x => x.1 == r) = some (r, v) := by
  induction rows generalizing vals with
  | nil => simp at hm
  | cons r0 rows ih =>
    cases vals with
    | nil => simp at hm
    | cons v0 vals =>
      rw [List.nodup_cons] at hn
      simp only [List.zip_cons_cons, List.mem_cons] at hm
      by_cases hr : r0 = r
      · subst hr
        rcases hm with hm | hm
        · cases hm; simp
        · exact absurd (List.of_mem_zip hm).1 hn.1
      · rcases hm with hm | hm
        · cases hm; exact absurd rfl hr
        · simp only [List.zip_cons_cons, List.find?_cons]
          have : (r0 == r) = false := by simpa using hr
          simp only [this]
          exact ih hn.2 hm

theorem copyRows_vals {w : World} {k : Nat} {vals : List (Nat → Rat)} (hn : (w.rows k).Nodup)
    (hl : (w.pr k).length = vals.length) :
    ((w.copyRows k vals).pr k).map (fun x => (w.copyRows k vals).row x.2) = vals := by
  have hpr : (w.copyRows k vals).pr k = w.pr k := rfl
  rw [hpr]
  apply List.ext_getElem
  · simp [hl]
  · intro j h1 h2
    simp only [List.getElem_map]
    have hj : j < (w.pr k).length := by simpa using h1
    have hrows : (w.rows k).length = vals.length := by simpa [World.rows] using hl
    have hjr : j < (w.rows k).length := by simpa [World.rows] using hj
    have hmem : ((w.rows k)[j], vals[j]) ∈ (w.rows k).zip vals := by
      rw [List.mem_iff_getElem]
      refine ⟨j, by simp [hrows]; exact h2, by simp⟩
    have hf := find_zip_of_mem hn hmem
    have hx : ((w.pr k)[j]).2 = (w.rows k)[j] := by simp [World.rows]
    simp only [World.copyRows]
    rw [hx, hf]

theorem isEmptyVal_const_zero (n : Nat) : isEmptyVal n (fun _ => 0) = true := by
  simp [isEmptyVal]

theorem emptyRows_pr (w : World) (k j : Nat) : (w.emptyRows k).pr j = w.pr j := rfl

theorem emptyRows_isEmpty {w : World} {k : Nat} {x : Ph × Nat} (hx : x ∈ w.pr k) :
    (w.emptyRows k).isEmptyRow x.2 = true := by
  have : x.2 ∈ w.rows k := by
    simp only [World.rows, List.mem_map]
    exact ⟨x, hx, rfl⟩
  simp only [World.isEmptyRow, World.emptyRows, List.contains_iff_mem, this, if_true]
  exact isEmptyVal_const_zero _

theorem toMulti_of_empty {w : World} {k : Nat} (he : ∀ x ∈ w.pr k, w.isEmptyRow x.2 = true) (t : List Ph) :
    ∃ w', w.toMulti k t = .ok w' := by
  have hall : ((w.sources k).all fun s => !s.2.2 || (dest t s.1).isSome) = true := by
    rw [List.all_eq_true]
    intro s hs
    simp only [World.sources, List.mem_map] at hs
    obtain ⟨x, hx, rfl⟩ := hs
    simp [he x hx]
  unfold World.toMulti
  simp only [hall, if_true]
  split <;> exact ⟨_, rfl⟩

theorem phaseTuple_single (p : Ph) : phaseTuple [p] = [p] := by cases p <;> rfl

theorem setPhases_of_empty {w : World} {k : Nat} (hw : WF w) (hk : k < w.nStr)
    (he : ∀ x ∈ w.pr k, w.isEmptyRow x.2 = true)
    {ps : List Ph} (hd : (∃ p, ps = [p]) ∨ (phaseTuple ps = ps ∧ 2 ≤ ps.length)) :
    ∃ w', w.setPhases k ps = .ok w' ∧ w'.phases k = ps ∧ (w'.str k).multi = decide (2 ≤ ps.length) := by
  rcases hd with ⟨p, rfl⟩ | ⟨ht, hlen⟩
  · cases hm : (w.str k).multi with
    | true =>
      exact ⟨w.toSingle k p, by simp [World.setPhases, phaseTuple_single, hm],
        toSingle_phases w k p,
        by simp [World.toSingle, World.setStr, World.setCache, World.allocImol, World.allocRows]⟩
    | false =>
      obtain ⟨x, hx⟩ := hw.single hk hm
      exact ⟨w.relabel k p, by simp [World.setPhases, phaseTuple_single, hm],
        by simp [relabel_phases, hx], by simp [relabel_multi, hm]⟩
  · match hps : ps, ht, hlen with
    | a :: b :: rest, ht, hlen =>
      by_cases hc : (w.str k).multi = true ∧ (a :: b :: rest) = w.phases k
      · refine ⟨w, ?_, hc.2.symm, ?_⟩
        · simp only [World.setPhases, ht]
          simp [hc.1, hc.2.symm]
        · simp [hc.1]
      · obtain ⟨w', hw'⟩ := toMulti_of_empty he (a :: b :: rest)
        refine ⟨w', ?_, toMulti_phases hw', ?_⟩
        · simp only [World.setPhases, ht]
          have : ((w.str k).multi && (a :: b :: rest) == w.phases k) = false := by
            rcases Bool.eq_false_or_eq_true (w.str k).multi with hm | hm
            · have : ¬ (a :: b :: rest) = w.phases k := fun e => hc ⟨hm, e⟩
              simp [hm, this]
            · simp [hm]
          simp only [this]
          exact hw'
        · simp [(toMulti_ok hw').2.2.2.2.2.2.2.2.1]

/-- `set_data` of any snapshot held by a well-formed world succeeds and reproduces the snapshot -/
theorem restore_spec {w : World} {k : Nat} (hw : WF w) (hk : k < w.nStr) {idx : Nat} {d : Snap}
    (hidx : w.snaps[idx]? = some d) :
    ∃ w', w.restore k idx = .ok w' ∧
      w'.obs k = ⟨decide (2 ≤ d.phases.length), d.phases, d.vals, d.T, d.P⟩ := by
  have hd : SnapOK d := hw.snaps d (List.mem_of_getElem? hidx)
  have hw1 : WF (w.emptyRows k) := emptyRows_wf hw k
  have he : ∀ x ∈ (w.emptyRows k).pr k, (w.emptyRows k).isEmptyRow x.2 = true :=
    fun x hx => emptyRows_isEmpty hx
  obtain ⟨w2, h2, hph, hm⟩ := setPhases_of_empty hw1 hk he hd.2
  have hk2 : k < w2.nStr := Nat.lt_of_lt_of_le hk (setPhases_mono h2).1
  have hw2 := setPhases_wf hw1 hk h2
  have hlen : (w2.pr k).length = d.vals.length := by
    rw [← phases_length, hph, hd.1]
  have hv := copyRows_vals (w := w2) (k := k) (hw2.pr_ok hk2).1 hlen
  refine ⟨((w2.copyRows k d.vals).setT ((w2.copyRows k d.vals).str k).tc d.T).setP
    ((w2.copyRows k d.vals).str k).tc d.P, ?_, ?_⟩
  · simp [World.restore, hidx, bind, Except.bind, h2]
  · simp only [World.obs, World.setP, World.setT, World.temp, World.pres, if_true]
    rw [Obs.mk.injEq]
    exact ⟨hm, hph, hv, rfl, rfl⟩

/-! ### unlink / _reset_thermo / proxy keep what the stream shows -/

theorem fresh_copy_vals (w : World) (pr : List (Ph × Nat)) :
    ((pr.map (·.1)).zip (List.range' w.nRow pr.length)).map
        (fun x => (w.allocRows (pr.map fun y => w.row y.2)).1.row x.2)
      = pr.map (fun y => w.row y.2) := by
  have hl : (pr.map (·.1)).length = (pr.map fun y => w.row y.2).length := by simp
  have := zip_range'_map (pr.map (·.1)) (pr.map fun y => w.row y.2) w.nRow
    (fun r => (w.allocRows (pr.map fun y => w.row y.2)).1.row r) (fun v => v) (fun _ c => c) hl
    (fun j hj => by rw [allocRows_row_new w _ j hj])
  simp only [List.length_map] at this
  rw [this]
  exact List.map_snd_zip (by simp)

theorem unlink_obs {w w' : World} {k : Nat} (h : w.unlink k = .ok w') : w'.obs k = w.obs k := by
  unfold World.unlink at h
  split at h
  · cases h
  · simp only [] at h
    injection h with h; subst h
    have hv := fresh_copy_vals w (w.pr k)
    have hph : ((w.phases k).zip (List.range' w.nRow (w.pr k).length)).map (·.1) = w.phases k := by
      have := map_fst_zip_range' (w.phases k) w.nRow
      rwa [phases_length] at this
    split <;>
    · simp only [World.obs, World.phases, World.pr, World.temp, World.pres, World.setStr, World.allocTc,
        World.allocImol, World.allocRows, rebind_str, rebind_ipr, rebind_row, rebind_T, rebind_P, if_true,
        List.length_map]
      rw [Obs.mk.injEq]
      refine ⟨rfl, hph, ?_, rfl, rfl⟩
      simpa [World.allocRows, World.phases, World.pr] using hv

theorem resetThermo_obs {w w' : World} {k t : Nat} (h : w.resetThermo k t = .ok w') :
    w'.obs k = w.obs k := by
  unfold World.resetThermo at h
  split at h
  · injection h with h; subst h; rfl
  · split at h
    · cases h
    · simp only [] at h
      injection h with h; subst h
      have hv := fresh_copy_vals w (w.pr k)
      have hph : ((w.phases k).zip (List.range' w.nRow (w.pr k).length)).map (·.1) = w.phases k := by
        have := map_fst_zip_range' (w.phases k) w.nRow
        rwa [phases_length] at this
      split <;>
      · simp only [World.obs, World.phases, World.pr, World.temp, World.pres, World.setStr, World.setIpr,
          World.allocRows, rebind_str, rebind_ipr, rebind_row, rebind_T, rebind_P, if_true,
          List.length_map]
        rw [Obs.mk.injEq]
        refine ⟨rfl, hph, ?_, rfl, rfl⟩
        simpa [World.allocRows, World.phases, World.pr] using hv

theorem proxy_obs {w w' : World} {k : Nat} (h : w.proxy k = .ok w') :
    w'.obs w.nStr = w.obs k ∧ w'.nStr = w.nStr + 1 := by
  unfold World.proxy at h
  simp only [] at h
  injection h with h; subst h
  simp [World.obs, World.phases, World.pr, World.temp, World.pres, World.setStr, World.allocCache]

/-- a conversion of stream `k` (any of the seven operations) keeps its totals, T, P -/
theorem conversion_same {w w' : World} {op : Op} {k : Nat} (hop : op.isConversion = true)
    (ht : op.target = some k) (h : w.step op = .ok w') : Same w w' k := by
  have hb := (step_ok h).2
  cases op with
  | setPhases k' ps => cases ht; exact setPhases_same hb
  | setPhase k' ls => cases ht; exact setPhase_same hb
  | reduce k' => cases ht; exact reduce_same hb
  | asStream k' => cases ht; exact asStream_same hb
  | vle k' => cases ht; exact accessor_same hb
  | lle k' => cases ht; exact accessor_same hb
  | sle k' => cases ht; exact accessor_same hb
  | _ => simp [Op.isConversion] at hop

/-! ### small facts, history helpers and counterexamples (documentation; not counted among the property theorems) -/

/-- a phase that keeps its exact label keeps exactly its material when no other-case phase folds into it -/
theorem dest_exact (t : List Ph) (p : Ph) (hp : p ∈ t) : dest t p = some p := dest_of_mem hp

/-- the same from any state that satisfies the invariant -/
theorem views_live_from (w : World) (hi : Inv w) (ops : List Op) : Inv (w.run ops) := run_inv hi ops

/-! counterexamples: what the setters did before they re-seated the views -/

/-- `a = MultiStream(phases=(g,l)); a['l']` -/
def viewWorld : World := (World.init 3).run [.newM [.g, .l] 300 101325 [], .view 0 .l]

/-- The `MultiStream.phases` setter before commit bab44aa (defect #7): `a.phases = (g,l,s)` leaves the cached
view of `'l'` bound to the pre-change row. -/
theorem legacy_phases_setter_detaches_views :
    ∃ w', viewWorld.toMultiLegacy 0 [.g, .l, .s] = .ok w' ∧ ¬ LiveAt w' 0 := by
  have hall : ((viewWorld.sources 0).all fun s => !s.2.2 || (dest [.g, .l, .s] s.1).isSome) = true := by
    decide
  have hok : ∃ w', viewWorld.toMultiLegacy 0 [.g, .l, .s] = .ok w' := by
    unfold World.toMultiLegacy
    simp only [hall, if_true]
    exact ⟨_, rfl⟩
  obtain ⟨w', hw'⟩ := hok
  refine ⟨w', hw', ?_⟩
  intro hl
  unfold World.toMultiLegacy at hw'
  simp only [hall, if_true] at hw'
  injection hw' with hw'
  subst hw'
  have := (hl (.l, 0) (by decide)).2.2
  revert this
  decide

/-- `b = MultiStream(phases=(g,l))` next to `a` -/
def linkWorld : World := (World.init 3).run [.newM [.g, .l] 300 101325 [], .view 0 .l, .newM [.g, .l] 350 90000 []]

/-- `link_with` before commit d9738d9 (defect C12-5): after `a.link_with(b)` the cached view of `a['l']` is
still bound to `a`'s old row and old thermal condition. -/
theorem legacy_link_detaches_views : ¬ LiveAt (linkWorld.linkLegacy 0 1 true true) 0 := by
  intro hl
  have := (hl (.l, 0) (by decide)).2.1
  revert this
  decide

/-- the shape invariant holds along every history (proxies included) -/
theorem wf_history (n : Nat) (ops : List Op) : WF ((World.init n).run ops) := run_wf (wf_init n) ops


/-- `a = MultiStream(phases=(S,l)); a['s']`: the view of the SOLID row cached under the alias key `'s'` -/
def aliasWorld : World := (World.init 3).run [.newM [.S, .l] 300 101325 [], .view 0 .s]

/-- one of the regions the model refuses (`aliasKeyClash`, fixes_proposed/C12-6): growing the phases in place to
(S,g,l,s) leaves the view cached under `'s'` on the `'S'` row although `'s'` is now a row of its own -/
theorem aliasKey_growth_detaches_view : LiveAt aliasWorld 0 ∧ ¬ LiveAt (aliasWorld.expand 0 [.g, .s]) 0 := by
  constructor
  · exact (run_inv (inv_init 3) _).live 0 (by decide) (by decide)
  · intro hl
    have := (hl (.s, 0) (by decide)).2.2
    revert this
    decide

end ThermoVerif.Phases
