import ThermoVerif.Model.Phases
import Mathlib.Tactic.Ring
/-
Helper lemmas for Props/C12: sums over lists of rationals, the effect of each primitive of
Model/Phases.lean on the observables (totals, rows, T, P), and the invariants `Live` and `WF`.
-/
namespace ThermoVerif.Phases

/-! ### sums over lists -/

theorem sum_map_zero {β : Type} (s : List β) : (s.map (fun _ => (0:Rat))).sum = 0 := by
  induction s with
  | nil => rfl
  | cons a s ih => simp [ih]

theorem sum_map_add {β : Type} (s : List β) (f g : β → Rat) :
    (s.map (fun x => f x + g x)).sum = (s.map f).sum + (s.map g).sum := by
  induction s with
  | nil => simp
  | cons a s ih => simp only [List.map_cons, List.sum_cons, ih]; ring

theorem sum_comm {α β : Type} (t : List α) (s : List β) (f : β → α → Rat) :
    (t.map (fun q => (s.map (fun x => f x q)).sum)).sum
      = (s.map (fun x => (t.map (fun q => f x q)).sum)).sum := by
  induction t with
  | nil => simp [sum_map_zero]
  | cons a t ih => simp only [List.map_cons, List.sum_cons, ih, sum_map_add]

theorem sum_map_congr {β : Type} (s : List β) (f g : β → Rat) (h : ∀ x ∈ s, f x = g x) :
    (s.map f).sum = (s.map g).sum := by
  rw [List.map_congr_left h]

theorem sum_ite_eq_of_not_mem {α : Type} [DecidableEq α] (t : List α) (q : α) (c : Rat)
    (hq : q ∉ t) : (t.map (fun q' => if q = q' then c else 0)).sum = 0 := by
  have : (t.map (fun q' => if q = q' then c else 0)) = t.map (fun _ => (0:Rat)) := by
    apply List.map_congr_left
    intro x hx
    have : q ≠ x := fun e => hq (e ▸ hx)
    simp [this]
  rw [this, sum_map_zero]

theorem sum_ite_eq_of_mem {α : Type} [DecidableEq α] (t : List α) (q : α) (c : Rat)
    (hn : t.Nodup) (hq : q ∈ t) : (t.map (fun q' => if q = q' then c else 0)).sum = c := by
  induction t with
  | nil => cases hq
  | cons a t ih =>
    rw [List.nodup_cons] at hn
    simp only [List.map_cons, List.sum_cons]
    by_cases h : q = a
    · subst h
      rw [sum_ite_eq_of_not_mem t q c hn.1]; simp
    · have hq' : q ∈ t := by
        rcases List.mem_cons.1 hq with h' | h'
        · exact absurd h' h
        · exact h'
      simp [h, ih hn.2 hq']

theorem sum_filter {β : Type} (s : List β) (p : β → Bool) (f : β → Rat) :
    ((s.filter p).map f).sum = (s.map (fun x => if p x then f x else 0)).sum := by
  induction s with
  | nil => rfl
  | cons a s ih =>
    by_cases h : p a <;> simp [h, ih]

theorem zip_range'_map {α β γ δ : Type} (t : List α) (vals : List β) (a : Nat) (F : Nat → γ) (G : β → γ)
    (H : α → γ → δ) (hl : t.length = vals.length)
    (hF : ∀ j (h : j < vals.length), F (a + j) = G vals[j]) :
    (t.zip (List.range' a vals.length)).map (fun x => H x.1 (F x.2))
      = (t.zip vals).map (fun y => H y.1 (G y.2)) := by
  induction t generalizing vals a with
  | nil => simp
  | cons q t ih =>
    cases vals with
    | nil => simp at hl
    | cons v vals =>
      simp only [List.length_cons, List.range'_succ, List.zip_cons_cons, List.map_cons]
      have h0 := hF 0 (by simp)
      simp only [Nat.add_zero, List.getElem_cons_zero] at h0
      rw [h0]
      congr 1
      apply ih vals (a + 1) (by simpa using hl)
      intro j hj
      have := hF (j + 1) (by simpa using hj)
      simpa [Nat.add_assoc, Nat.add_comm 1 j] using this

theorem zip_map_self {α β : Type} (t : List α) (g : α → β) :
    t.zip (t.map g) = t.map (fun q => (q, g q)) := by
  induction t with
  | nil => rfl
  | cons a t ih => simp [ih]

theorem map_fst_zip_range' {α : Type} (t : List α) (a : Nat) :
    (t.zip (List.range' a t.length)).map (·.1) = t := by
  induction t generalizing a with
  | nil => rfl
  | cons q t ih => simp [List.range'_succ, ih]

theorem map_snd_zip_range' {α : Type} (t : List α) (a : Nat) :
    (t.zip (List.range' a t.length)).map (·.2) = List.range' a t.length := by
  induction t generalizing a with
  | nil => rfl
  | cons q t ih => simp [List.range'_succ, ih]

/-! ### phases -/

theorem Ph.all_nodup : Ph.all.Nodup := by decide

theorem Ph.mem_all (p : Ph) : p ∈ Ph.all := by cases p <;> decide

theorem phaseTuple_nodup (ps : List Ph) : (phaseTuple ps).Nodup :=
  List.Nodup.sublist List.filter_sublist Ph.all_nodup

theorem mem_phaseTuple {ps : List Ph} {p : Ph} : p ∈ phaseTuple ps ↔ p ∈ ps := by
  simp [phaseTuple, Ph.mem_all]

theorem phaseTuple_idem (ps : List Ph) : phaseTuple (phaseTuple ps) = phaseTuple ps := by
  unfold phaseTuple
  apply List.filter_congr
  intro p _
  have := @mem_phaseTuple ps p
  unfold phaseTuple at this
  by_cases h : p ∈ ps
  · simp [h, Ph.mem_all]
  · simp [h]

theorem dest_mem {t : List Ph} {p q : Ph} (h : dest t p = some q) : q ∈ t := by
  unfold dest at h
  split at h
  · rename_i hc
    cases h
    simpa using hc
  · split at h
    · split at h
      · rename_i hc
        cases h
        simpa using hc
      · cases h
    · cases h

theorem dest_of_mem {t : List Ph} {p : Ph} (h : p ∈ t) : dest t p = some p := by
  simp [dest, h]

theorem isEmptyVal_zero {n : Nat} {v : Nat → Rat} (h : isEmptyVal n v = true) {i : Nat} (hi : i < n) :
    v i = 0 := by
  unfold isEmptyVal at h
  rw [List.all_eq_true] at h
  have := h i (List.mem_range.2 hi)
  simpa using this

/-! ### allocation -/

@[simp] theorem allocRows_ids (w : World) (vals : List (Nat → Rat)) :
    (w.allocRows vals).2 = List.range' w.nRow vals.length := rfl

theorem allocRows_row_new (w : World) (vals : List (Nat → Rat)) (j : Nat) (h : j < vals.length) :
    (w.allocRows vals).1.row (w.nRow + j) = vals[j] := by
  simp [World.allocRows, h, List.getD_eq_getElem?_getD]

theorem allocRows_row_old (w : World) (vals : List (Nat → Rat)) (r : Nat) (h : r < w.nRow) :
    (w.allocRows vals).1.row r = w.row r := by
  have : ¬ w.nRow ≤ r := Nat.not_le.2 h
  simp [World.allocRows, this]

/-! ### totals, T, P under the primitives -/

/-- what every conversion preserves -/
def Same (w w' : World) : Prop :=
  (∀ i, i < w.n → w'.total i = w.total i) ∧ w'.temp = w.temp ∧ w'.pres = w.pres ∧ w'.n = w.n

theorem Same.refl (w : World) : Same w w := ⟨fun _ _ => rfl, rfl, rfl, rfl⟩

theorem Same.trans {a b c : World} (h1 : Same a b) (h2 : Same b c) : Same a c :=
  ⟨fun i hi => (h2.1 i (h1.2.2.2 ▸ hi)).trans (h1.1 i hi), h2.2.1.trans h1.2.1,
   h2.2.2.1.trans h1.2.2.1, h2.2.2.2.trans h1.2.2.2⟩

theorem relabel_same (w : World) (q : Ph) : Same w (w.relabel q) := by
  refine ⟨fun i _ => ?_, rfl, rfl, rfl⟩
  simp [World.total, World.relabel, List.map_map, Function.comp_def]

theorem toSingle_same (w : World) (q : Ph) : Same w (w.toSingle q) := by
  refine ⟨fun i _ => ?_, rfl, rfl, rfl⟩
  simp [World.total, World.toSingle, World.allocRows, List.map_map, Function.comp_def]


@[simp] theorem moveVals_length (srcs : List (Ph × (Nat → Rat) × Bool)) (t : List Ph) :
    (moveVals srcs t).length = t.length := by simp [moveVals]

/-- everything a successful `toMulti` determines, except the view store and the cache -/
theorem toMulti_ok {w w' : World} {t : List Ph} (h : w.toMulti t = .ok w') :
    (∀ s ∈ w.sources, s.2.2 = true → (dest t s.1).isSome = true) ∧
    w'.n = w.n ∧ w'.T = w.T ∧ w'.P = w.P ∧ w'.s.tc = w.s.tc ∧ w'.nTc = w.nTc ∧
    w'.nRow = w.nRow + t.length ∧
    w'.s.pr = t.zip (List.range' w.nRow t.length) ∧
    w'.row = (w.allocRows (moveVals w.sources t)).1.row ∧
    w'.snaps = w.snaps ∧ w'.nView = w.nView ∧ w'.s.multi = true := by
  unfold World.toMulti at h
  simp only [] at h
  split at h
  · rename_i hall
    have hall' : ∀ s ∈ w.sources, s.2.2 = true → (dest t s.1).isSome = true := by
      intro s hs hne
      rw [List.all_eq_true] at hall
      have := hall s hs
      simpa [hne] using this
    split at h
    · rename_i hm
      injection h with h; subst h
      exact ⟨hall', by simp [World.allocRows, hm]⟩
    · injection h with h; subst h
      exact ⟨hall', by simp [World.allocRows]⟩
  · cases h

theorem toMulti_phases {w w' : World} {t : List Ph} (h : w.toMulti t = .ok w') : w'.s.phases = t := by
  have := (toMulti_ok h).2.2.2.2.2.2.2.1
  simp [Strm.phases, this, map_fst_zip_range']


/-- what row `q` of the rebuilt indexer receives -/
def moved (srcs : List (Ph × (Nat → Rat) × Bool)) (t : List Ph) (q : Ph) (i : Nat) : Rat :=
  (srcs.map (fun s => if s.2.2 && dest t s.1 == some q then s.2.1 i else 0)).sum

theorem moveVals_eq (srcs : List (Ph × (Nat → Rat) × Bool)) (t : List Ph) :
    moveVals srcs t = t.map (fun q i => moved srcs t q i) := rfl

/-- sums over the rows of the rebuilt indexer, weighted by a function of the label -/
theorem toMulti_sum {w w' : World} {t : List Ph} (h : w.toMulti t = .ok w') (H : Ph → Rat → Rat) (i : Nat) :
    (w'.s.pr.map (fun x => H x.1 (w'.row x.2 i))).sum
      = (t.map (fun q => H q (moved w.sources t q i))).sum := by
  obtain ⟨_, _, _, _, _, _, _, hpr, hrow, _⟩ := toMulti_ok h
  rw [hpr, hrow]
  have hl : t.length = (moveVals w.sources t).length := by simp
  have := zip_range'_map t (moveVals w.sources t) w.nRow
    (fun r => (w.allocRows (moveVals w.sources t)).1.row r i) (fun v => v i) H hl
    (fun j hj => by rw [allocRows_row_new w _ j hj])
  rw [moveVals_length] at this
  rw [this, moveVals_eq, zip_map_self, List.map_map]
  rfl

theorem toMulti_rowAt {w w' : World} {t : List Ph} (h : w.toMulti t = .ok w') (ht : t.Nodup)
    (q : Ph) (i : Nat) :
    w'.rowAt q i = if q ∈ t then moved w.sources t q i else 0 := by
  unfold World.rowAt
  rw [sum_filter]
  have := toMulti_sum h (fun p c => if p == q then c else 0) i
  rw [this]
  have e : (t.map (fun q' => if (q' == q) = true then moved w.sources t q' i else 0))
      = t.map (fun q' => if q = q' then moved w.sources t q i else 0) := by
    apply List.map_congr_left
    intro q' _
    by_cases hq : q' = q
    · subst hq; simp
    · have : ¬ q = q' := fun e => hq e.symm
      simp [hq, this]
  rw [e]
  by_cases hq : q ∈ t
  · rw [sum_ite_eq_of_mem t q _ ht hq]; simp [hq]
  · rw [sum_ite_eq_of_not_mem t q _ hq]; simp [hq]

theorem sources_total (w : World) (i : Nat) :
    (w.sources.map (fun s => s.2.1 i)).sum = w.total i := by
  simp [World.sources, World.total, List.map_map, Function.comp_def]

theorem sources_empty_zero {w : World} {s : Ph × (Nat → Rat) × Bool} (hs : s ∈ w.sources)
    (hne : s.2.2 = false) {i : Nat} (hi : i < w.n) : s.2.1 i = 0 := by
  simp only [World.sources, List.mem_map] at hs
  obtain ⟨x, _, rfl⟩ := hs
  simp only [Bool.not_eq_false'] at hne
  exact isEmptyVal_zero hne hi

theorem toMulti_total {w w' : World} {t : List Ph} (h : w.toMulti t = .ok w') (ht : t.Nodup)
    {i : Nat} (hi : i < w.n) : w'.total i = w.total i := by
  have e1 : w'.total i = (t.map (fun q => moved w.sources t q i)).sum :=
    toMulti_sum h (fun _ c => c) i
  rw [e1, ← sources_total w i]
  unfold moved
  rw [sum_comm]
  apply sum_map_congr
  intro s hs
  have hd := (toMulti_ok h).1 s hs
  cases hne : s.2.2 with
  | false => simp [sum_map_zero, sources_empty_zero hs hne hi]
  | true =>
    have := hd hne
    obtain ⟨q0, hq0⟩ := Option.isSome_iff_exists.1 this
    have hmem := dest_mem hq0
    have e : (t.map (fun q => if (true && dest t s.1 == some q) = true then s.2.1 i else 0))
        = t.map (fun q => if q0 = q then s.2.1 i else 0) := by
      apply List.map_congr_left
      intro q _
      simp [hq0]
    rw [e, sum_ite_eq_of_mem t q0 _ ht hmem]

theorem toMulti_same {w w' : World} {t : List Ph} (h : w.toMulti t = .ok w') (ht : t.Nodup) :
    Same w w' := by
  obtain ⟨_, hn, hT, hP, htc, _⟩ := toMulti_ok h
  exact ⟨fun i hi => toMulti_total h ht hi, by simp [World.temp, hT, htc], by simp [World.pres, hP, htc], hn⟩


/-- the three ways `setPhases` can succeed -/
theorem setPhases_cases {w w' : World} {ps : List Ph} (h : w.setPhases ps = .ok w') :
    (∃ q, phaseTuple ps = [q] ∧ w.s.multi = true ∧ w' = w.toSingle q) ∨
    (∃ q, phaseTuple ps = [q] ∧ w.s.multi = false ∧ w' = w.relabel q) ∨
    (2 ≤ (phaseTuple ps).length ∧ w.s.multi = true ∧ phaseTuple ps = w.s.phases ∧ w' = w) ∨
    (2 ≤ (phaseTuple ps).length ∧ ¬ (w.s.multi = true ∧ phaseTuple ps = w.s.phases) ∧
      w.toMulti (phaseTuple ps) = .ok w') := by
  unfold World.setPhases at h
  simp only [] at h
  split at h
  · cases h
  · rename_i q hq
    split at h
    · rename_i hm
      injection h with h
      exact Or.inl ⟨q, hq, hm, h.symm⟩
    · rename_i hm
      injection h with h
      exact Or.inr (Or.inl ⟨q, hq, by simpa using hm, h.symm⟩)
  · rename_i h0 h1
    have hlen : 2 ≤ (phaseTuple ps).length := by
      match hp : phaseTuple ps with
      | [] => exact absurd hp h0
      | [q] => exact absurd hp (h1 q)
      | _ :: _ :: _ => simp
    split at h
    · rename_i hc
      injection h with h
      simp only [Bool.and_eq_true, beq_iff_eq] at hc
      exact Or.inr (Or.inr (Or.inl ⟨hlen, hc.1, hc.2, h.symm⟩))
    · rename_i hc
      simp only [Bool.and_eq_true, beq_iff_eq] at hc
      exact Or.inr (Or.inr (Or.inr ⟨hlen, hc, h⟩))

theorem setPhases_same {w w' : World} {ps : List Ph} (h : w.setPhases ps = .ok w') : Same w w' := by
  rcases setPhases_cases h with ⟨q, _, _, rfl⟩ | ⟨q, _, _, rfl⟩ | ⟨_, _, _, rfl⟩ | ⟨_, _, h⟩
  · exact toSingle_same w q
  · exact relabel_same w q
  · exact Same.refl _
  · exact toMulti_same h (phaseTuple_nodup ps)

/-- the ways `setPhase` can succeed -/
theorem setPhase_cases {w w' : World} {ls : List Ph} (h : w.setPhase ls = .ok w') :
    (w.s.multi = true ∧ ∃ q, (ls = [] ∧ q = Ph.l ∨ ls = [q]) ∧ w' = w.toSingle q) ∨
    (w.s.multi = true ∧ 2 ≤ ls.length ∧ w.setPhases ls = .ok w') ∨
    (w.s.multi = false ∧ ∃ q, ls = [q] ∧ w' = w.relabel q) := by
  unfold World.setPhase at h
  split at h
  · rename_i hm
    split at h
    · injection h with h
      exact Or.inl ⟨hm, .l, Or.inl ⟨rfl, rfl⟩, h.symm⟩
    · rename_i q
      injection h with h
      exact Or.inl ⟨hm, q, Or.inr rfl, h.symm⟩
    · rename_i h0 h1
      refine Or.inr (Or.inl ⟨hm, ?_, h⟩)
      match ls, h0, h1 with
      | [], h0, _ => exact absurd rfl h0
      | [q], _, h1 => exact absurd rfl (h1 q)
      | _ :: _ :: _, _, _ => simp
  · rename_i hm
    split at h
    · rename_i q
      injection h with h
      exact Or.inr (Or.inr ⟨by simpa using hm, q, rfl, h.symm⟩)
    · cases h

theorem setPhase_same {w w' : World} {ls : List Ph} (h : w.setPhase ls = .ok w') : Same w w' := by
  rcases setPhase_cases h with ⟨_, q, _, rfl⟩ | ⟨_, _, h⟩ | ⟨_, q, _, rfl⟩
  · exact toSingle_same w q
  · exact setPhases_same h
  · exact relabel_same w q

theorem reduce_same {w w' : World} (h : w.reduce = .ok w') : Same w w' := by
  unfold World.reduce at h
  split at h
  · exact setPhase_same h
  · injection h with h; subst h; exact Same.refl w

theorem asStream_same {w w' : World} (h : w.asStream = .ok w') : Same w w' := by
  unfold World.asStream at h
  split at h
  · split at h
    · exact setPhase_same h
    · exact setPhase_same h
    · cases h
  · injection h with h; subst h; exact Same.refl w

theorem accessor_same {w w' : World} {a b : Ph} {f : Ph → Bool} (h : w.accessor a b f = .ok w') :
    Same w w' := by
  unfold World.accessor at h
  split at h
  · split at h
    · injection h with h; subst h; exact Same.refl w
    · exact setPhases_same h
  · simp only [] at h
    split at h
    · split at h
      · exact (relabel_same w .l).trans (setPhases_same h)
      · exact setPhases_same h
    · exact setPhases_same h


/-! ### each phase's material stays in that phase -/

/-- the target phase set has a place (exact label, else the other-case label) for every non-empty phase -/
def Covers (w : World) (t : List Ph) : Prop :=
  ∀ x ∈ w.s.pr, w.isEmptyRow x.2 = false → (dest t x.1).isSome = true

/-- every row of `w'` holds exactly the material of the phases of `w` whose destination it is -/
def RowsKept (w w' : World) : Prop :=
  ∀ q ∈ w'.s.phases, ∀ i, i < w.n →
    w'.rowAt q i = (w.s.pr.map (fun x => if dest w'.s.phases x.1 = some q then w.row x.2 i else 0)).sum

theorem rowAt_eq (w : World) (q : Ph) (i : Nat) :
    w.rowAt q i = (w.s.pr.map (fun x => if x.1 = q then w.row x.2 i else 0)).sum := by
  unfold World.rowAt
  rw [sum_filter]
  apply sum_map_congr
  intro x _
  by_cases h : x.1 = q <;> simp [h]

theorem rowsKept_refl (w : World) : RowsKept w w := by
  intro q _ i _
  rw [rowAt_eq]
  apply sum_map_congr
  intro x hx
  have hm : x.1 ∈ w.s.phases := List.mem_map.2 ⟨x, hx, rfl⟩
  rw [dest_of_mem hm]
  by_cases h : x.1 = q <;> simp [h]

theorem emptyRow_zero {w : World} {r : Nat} (h : w.isEmptyRow r = true) {i : Nat} (hi : i < w.n) :
    w.row r i = 0 := isEmptyVal_zero h hi

/-- all material ends up under the single label `q0` -/
theorem rowsKept_of_all_eq {w w' : World} {q0 : Ph} (hph : ∀ q ∈ w'.s.phases, q = q0)
    (hrow : ∀ i, w'.rowAt q0 i = w.total i) (hc : Covers w w'.s.phases) : RowsKept w w' := by
  intro q hq i hi
  have := hph q hq; subst this
  rw [hrow i]
  unfold World.total
  apply sum_map_congr
  intro x hx
  cases he : w.isEmptyRow x.2 with
  | true => simp [emptyRow_zero he hi]
  | false =>
    obtain ⟨q', hq'⟩ := Option.isSome_iff_exists.1 (hc x hx he)
    have := hph q' (dest_mem hq')
    subst this
    simp [hq']

theorem toSingle_rowAt (w : World) (q : Ph) (i : Nat) : (w.toSingle q).rowAt q i = w.total i := by
  simp [World.rowAt, World.total, World.toSingle, World.allocRows, List.map_map, Function.comp_def]

theorem toSingle_rowsKept (w : World) (q : Ph) (hc : Covers w [q]) : RowsKept w (w.toSingle q) := by
  apply rowsKept_of_all_eq (q0 := q)
  · intro q' hq'
    simpa [World.toSingle, Strm.phases] using hq'
  · exact toSingle_rowAt w q
  · simpa [World.toSingle, Strm.phases] using hc

theorem relabel_phases (w : World) (q : Ph) : (w.relabel q).s.phases = w.s.pr.map (fun _ => q) := by
  simp [World.relabel, Strm.phases, List.map_map, Function.comp_def]

theorem relabel_rowsKept (w : World) (q : Ph) (hc : Covers w (w.relabel q).s.phases) :
    RowsKept w (w.relabel q) := by
  apply rowsKept_of_all_eq (q0 := q)
  · intro q' hq'
    rw [relabel_phases] at hq'
    obtain ⟨_, _, h⟩ := List.mem_map.1 hq'
    exact h.symm
  · intro i
    rw [rowAt_eq]
    simp [World.total, World.relabel, List.map_map, Function.comp_def]
  · exact hc

theorem toMulti_rowsKept {w w' : World} {t : List Ph} (h : w.toMulti t = .ok w') (ht : t.Nodup) :
    RowsKept w w' := by
  intro q hq i hi
  have hp := toMulti_phases h
  rw [hp] at hq ⊢
  rw [toMulti_rowAt h ht q i, if_pos hq]
  unfold moved World.sources
  rw [List.map_map]
  apply sum_map_congr
  intro x _
  simp only [Function.comp_def]
  cases he : w.isEmptyRow x.2 with
  | true => simp [emptyRow_zero he hi]
  | false => simp

/-- a successful `toMulti` had a place for everything -/
theorem toMulti_covers {w w' : World} {t : List Ph} (h : w.toMulti t = .ok w') : Covers w t := by
  intro x hx he
  apply (toMulti_ok h).1 (x.1, w.row x.2, !w.isEmptyRow x.2)
  · exact List.mem_map.2 ⟨x, hx, rfl⟩
  · simp [he]

theorem setPhases_rowsKept {w w' : World} {ps : List Ph} (h : w.setPhases ps = .ok w')
    (hc : Covers w w'.s.phases) : RowsKept w w' := by
  rcases setPhases_cases h with ⟨q, _, _, rfl⟩ | ⟨q, _, _, rfl⟩ | ⟨_, _, _, rfl⟩ | ⟨_, _, h⟩
  · exact toSingle_rowsKept w q (by simpa [World.toSingle, Strm.phases] using hc)
  · exact relabel_rowsKept w q hc
  · exact rowsKept_refl _
  · exact toMulti_rowsKept h (phaseTuple_nodup ps)

theorem setPhase_rowsKept {w w' : World} {ls : List Ph} (h : w.setPhase ls = .ok w')
    (hc : Covers w w'.s.phases) : RowsKept w w' := by
  rcases setPhase_cases h with ⟨_, q, _, rfl⟩ | ⟨_, _, h⟩ | ⟨_, q, _, rfl⟩
  · exact toSingle_rowsKept w q (by simpa [World.toSingle, Strm.phases] using hc)
  · exact setPhases_rowsKept h hc
  · exact relabel_rowsKept w q hc

theorem reduce_rowsKept {w w' : World} (h : w.reduce = .ok w') (hc : Covers w w'.s.phases) :
    RowsKept w w' := by
  unfold World.reduce at h
  split at h
  · exact setPhase_rowsKept h hc
  · injection h with h; subst h; exact rowsKept_refl w

theorem asStream_rowsKept {w w' : World} (h : w.asStream = .ok w') (hc : Covers w w'.s.phases) :
    RowsKept w w' := by
  unfold World.asStream at h
  split at h
  · split at h
    · exact setPhase_rowsKept h hc
    · exact setPhase_rowsKept h hc
    · cases h
  · injection h with h; subst h; exact rowsKept_refl w

/-- relabelling first and converting afterwards, seen from the original labels -/
theorem rowsKept_after_relabel {w w' : World} {q0 : Ph} (hk : RowsKept (w.relabel q0) w')
    (hd : ∀ x ∈ w.s.pr, w.isEmptyRow x.2 = false → dest w'.s.phases x.1 = dest w'.s.phases q0) :
    RowsKept w w' := by
  intro q hq i hi
  rw [hk q hq i hi]
  simp only [World.relabel, List.map_map, Function.comp_def]
  apply sum_map_congr
  intro x hx
  cases he : w.isEmptyRow x.2 with
  | true => simp [emptyRow_zero he hi]
  | false => rw [hd x hx he]


theorem relabel_multi (w : World) (q : Ph) : (w.relabel q).s.multi = w.s.multi := rfl

/-- from a single-phase stream, `setPhases` with two distinct target phases is `toMulti` -/
theorem setPhases_single_two {w w' : World} {ps : List Ph} (h : w.setPhases ps = .ok w')
    (hm : w.s.multi = false) (hlen : 2 ≤ (phaseTuple ps).length) :
    w.toMulti (phaseTuple ps) = .ok w' := by
  rcases setPhases_cases h with ⟨q, hq, _, _⟩ | ⟨q, hq, _, _⟩ | ⟨_, hm', _, _⟩ | ⟨_, _, h⟩
  · rw [hq] at hlen; simp at hlen
  · rw [hq] at hlen; simp at hlen
  · rw [hm] at hm'; cases hm'
  · exact h

theorem accessor_rowsKept {w w' : World} {a b : Ph} {f : Ph → Bool} (h : w.accessor a b f = .ok w')
    (hc : Covers w w'.s.phases) (hlen : 2 ≤ (phaseTuple [a, b]).length)
    (hf : ∀ p, f p = true → (dest (phaseTuple [a, b]) p).isSome = true →
      dest (phaseTuple [a, b]) p = dest (phaseTuple [a, b]) .l) :
    RowsKept w w' := by
  unfold World.accessor at h
  split at h
  · split at h
    · injection h with h; subst h; exact rowsKept_refl w
    · exact setPhases_rowsKept h hc
  · rename_i hm
    have hm : w.s.multi = false := by simpa using hm
    simp only [] at h
    split at h
    · rename_i p hp
      split at h
      · rename_i hfp
        have ht := setPhases_single_two h (by rw [relabel_multi]; exact hm) hlen
        have hph := toMulti_phases ht
        apply rowsKept_after_relabel (toMulti_rowsKept ht (phaseTuple_nodup _))
        intro x hx he
        have hx1 : x.1 = p := by
          have : x.1 ∈ w.s.phases := List.mem_map.2 ⟨x, hx, rfl⟩
          rw [hp] at this
          simpa using this
        rw [hph, hx1]
        apply hf p hfp
        have := hc x hx he
        rwa [hph, hx1] at this
      · exact setPhases_rowsKept h hc
    · exact setPhases_rowsKept h hc

theorem vle_rowsKept {w w' : World} (h : w.vle = .ok w') (hc : Covers w w'.s.phases) : RowsKept w w' :=
  accessor_rowsKept h hc (by decide) (by intro p; cases p <;> decide)

theorem lle_rowsKept {w w' : World} (h : w.lle = .ok w') (hc : Covers w w'.s.phases) : RowsKept w w' :=
  accessor_rowsKept h hc (by decide) (by intro p; cases p <;> decide)

theorem sle_rowsKept {w w' : World} (h : w.sle = .ok w') (hc : Covers w w'.s.phases) : RowsKept w w' :=
  accessor_rowsKept h hc (by decide) (by intro p; cases p <;> decide)


/-! ### phase views stay attached -/

/-- Every view in `_streams` is the view of the parent's CURRENT row for its key (looked up the way
`get_phase` does) and shares the parent's thermal-condition object; a `Stream` has no cached views. -/
structure Live (w : World) : Prop where
  cached : ∀ c ∈ w.s.cache, c.2 < w.nView ∧ (w.view c.2).phase = c.1 ∧ (w.view c.2).tc = w.s.tc ∧
    lookupRow w.s.pr c.1 = some (w.view c.2).row
  single : w.s.multi = false → w.s.cache = []

theorem live_init : Live World.init := ⟨by simp [World.init], fun _ => rfl⟩

theorem live_of_eq {w w' : World} (hl : Live w) (h1 : w'.s = w.s) (h2 : w'.view = w.view)
    (h3 : w'.nView = w.nView) : Live w' := by
  constructor
  · intro c hc
    rw [h1] at hc
    rw [h1, h2, h3]
    exact hl.cached c hc
  · rw [h1]; exact hl.single

theorem live_of_cache_nil {w : World} (h : w.s.cache = []) : Live w :=
  ⟨by simp [h], fun _ => h⟩

theorem relabel_live {w : World} (hl : Live w) (hm : w.s.multi = false) (q : Ph) : Live (w.relabel q) :=
  live_of_cache_nil (by simpa [World.relabel] using hl.single hm)

theorem toSingle_live (w : World) (q : Ph) : Live (w.toSingle q) :=
  live_of_cache_nil (by simp [World.toSingle])

theorem toMulti_live {w w' : World} {t : List Ph} (hl : Live w) (h : w.toMulti t = .ok w') : Live w' := by
  unfold World.toMulti at h
  simp only [] at h
  split at h
  · split at h
    · injection h with h; subst h
      constructor
      · intro c hc
        simp only [List.mem_filter] at hc
        obtain ⟨hc, hsome⟩ := hc
        obtain ⟨h1, h2, h3, _⟩ := hl.cached c hc
        have hmem : (w.s.cache.map (·.2)).contains c.2 = true := by
          simp only [List.contains_iff_mem, List.mem_map]
          exact ⟨c, hc, rfl⟩
        obtain ⟨r, hr⟩ := Option.isSome_iff_exists.1 hsome
        simp only [World.allocRows] at hr ⊢
        simp only [hmem, if_true, h2, hr]
        exact ⟨h1, trivial, h3, trivial⟩
      · intro hm
        rename_i hm'
        simp [hm'] at hm
    · injection h with h; subst h
      exact live_of_cache_nil rfl
  · cases h

theorem setPhases_live {w w' : World} {ps : List Ph} (hl : Live w) (h : w.setPhases ps = .ok w') :
    Live w' := by
  rcases setPhases_cases h with ⟨q, _, _, rfl⟩ | ⟨q, _, hm, rfl⟩ | ⟨_, _, _, rfl⟩ | ⟨_, _, h⟩
  · exact toSingle_live w q
  · exact relabel_live hl hm q
  · exact hl
  · exact toMulti_live hl h

theorem setPhase_live {w w' : World} {ls : List Ph} (hl : Live w) (h : w.setPhase ls = .ok w') :
    Live w' := by
  rcases setPhase_cases h with ⟨_, q, _, rfl⟩ | ⟨_, _, h⟩ | ⟨hm, q, _, rfl⟩
  · exact toSingle_live w q
  · exact setPhases_live hl h
  · exact relabel_live hl hm q

theorem reduce_live {w w' : World} (hl : Live w) (h : w.reduce = .ok w') : Live w' := by
  unfold World.reduce at h
  split at h
  · exact setPhase_live hl h
  · injection h with h; subst h; exact hl

theorem asStream_live {w w' : World} (hl : Live w) (h : w.asStream = .ok w') : Live w' := by
  unfold World.asStream at h
  split at h
  · split at h
    · exact setPhase_live hl h
    · exact setPhase_live hl h
    · cases h
  · injection h with h; subst h; exact hl

theorem accessor_live {w w' : World} {a b : Ph} {f : Ph → Bool} (hl : Live w)
    (h : w.accessor a b f = .ok w') : Live w' := by
  unfold World.accessor at h
  split at h
  · split at h
    · injection h with h; subst h; exact hl
    · exact setPhases_live hl h
  · rename_i hm
    have hm : w.s.multi = false := by simpa using hm
    simp only [] at h
    split at h
    · split at h
      · exact setPhases_live (relabel_live hl hm .l) h
      · exact setPhases_live hl h
    · exact setPhases_live hl h

theorem getView_live {w w' : World} {p : Ph} (hl : Live w) (h : w.getView p = .ok w') : Live w' := by
  unfold World.getView at h
  split at h
  · rename_i hm
    split at h
    · injection h with h; subst h; exact hl
    · split at h
      · rename_i r hr
        injection h with h; subst h
        constructor
        · intro c hc
          simp only [List.mem_append, List.mem_singleton] at hc
          rcases hc with hc | hc
          · obtain ⟨h1, h2, h3, h4⟩ := hl.cached c hc
            have hne : c.2 ≠ w.nView := Nat.ne_of_lt h1
            simp only [hne, if_false]
            exact ⟨Nat.lt_succ_of_lt h1, h2, h3, h4⟩
          · subst hc
            simp [hr]
        · intro hm'
          simp [hm] at hm'
      · cases h
  · split at h
    · split at h
      · injection h with h; subst h; exact hl
      · cases h
    · cases h

theorem writeRow_live {w : World} (hl : Live w) (r i : Nat) (x : Rat) : Live (w.writeRow r i x) :=
  live_of_eq hl rfl rfl rfl

theorem emptyRows_live {w : World} (hl : Live w) : Live w.emptyRows := live_of_eq hl rfl rfl rfl
theorem copyRows_live {w : World} (hl : Live w) (vals : List (Nat → Rat)) : Live (w.copyRows vals) :=
  live_of_eq hl rfl rfl rfl
theorem setT_live {w : World} (hl : Live w) (tc : Nat) (x : Rat) : Live (w.setT tc x) :=
  live_of_eq hl rfl rfl rfl
theorem setP_live {w : World} (hl : Live w) (tc : Nat) (x : Rat) : Live (w.setP tc x) :=
  live_of_eq hl rfl rfl rfl
theorem save_live {w : World} (hl : Live w) : Live w.save := live_of_eq hl rfl rfl rfl

theorem restore_live {w w' : World} {k : Nat} (hl : Live w) (h : w.restore k = .ok w') : Live w' := by
  unfold World.restore at h
  split at h
  · cases h
  · rename_i d _
    simp only [bind, Except.bind] at h
    split at h
    · cases h
    · rename_i w2 h2
      injection h with h; subst h
      exact setP_live (setT_live (copyRows_live (setPhases_live (emptyRows_live hl) h2) _) _ _) _ _

theorem step_live {w w' : World} {op : Op} (hl : Live w) (h : w.step op = .ok w') : Live w' := by
  cases op with
  | newS p T P f => injection h with h; subst h; exact live_of_cache_nil (by simp [World.newSingle])
  | newM ps T P fl =>
    simp only [World.step] at h
    split at h
    · injection h with h; subst h; exact live_of_cache_nil (by simp [World.newMulti])
    · cases h
  | setPhases ps => exact setPhases_live hl h
  | setPhase ls => exact setPhase_live hl h
  | reduce => exact reduce_live hl h
  | asStream => exact asStream_live hl h
  | vle => exact accessor_live hl h
  | lle => exact accessor_live hl h
  | sle => exact accessor_live hl h
  | empty => injection h with h; subst h; exact emptyRows_live hl
  | view p => exact getView_live hl h
  | wView hd i x =>
    simp only [World.step, World.writeView] at h
    split at h
    · injection h with h; subst h; exact writeRow_live hl _ _ _
    · cases h
  | wPar p i x =>
    simp only [World.step, World.writePar] at h
    split at h
    · split at h
      · cases h
      · split at h
        · injection h with h; subst h; exact writeRow_live hl _ _ _
        · cases h
    · split at h
      · cases h
      · injection h with h; subst h; exact writeRow_live hl _ _ _
  | wT x => injection h with h; subst h; exact setT_live hl _ _
  | wP x => injection h with h; subst h; exact setP_live hl _ _
  | wvT hd x =>
    simp only [World.step] at h
    split at h
    · injection h with h; subst h; exact setT_live hl _ _
    · cases h
  | wvP hd x =>
    simp only [World.step] at h
    split at h
    · injection h with h; subst h; exact setP_live hl _ _
    · cases h
  | vPhase hd p =>
    simp only [World.step] at h
    split at h
    · split at h
      · injection h with h; subst h; exact hl
      · cases h
    · cases h
  | save => injection h with h; subst h; exact save_live hl
  | restore k => exact restore_live hl h

theorem apply_live {w : World} (hl : Live w) (op : Op) : Live (w.apply op) := by
  unfold World.apply
  split
  · rename_i w' h; exact step_live hl h
  · exact hl

theorem run_live {w : World} (hl : Live w) (ops : List Op) : Live (w.run ops) := by
  induction ops generalizing w with
  | nil => exact hl
  | cons op ops ih => exact ih (apply_live hl op)


/-! ### well-formedness and save / restore -/

/-- a `StreamData` taken from a well-formed stream -/
def SnapOK (d : Snap) : Prop :=
  d.vals.length = d.phases.length ∧
  ((∃ p, d.phases = [p]) ∨ (phaseTuple d.phases = d.phases ∧ 2 ≤ d.phases.length))

structure WF (w : World) : Prop where
  rows_nodup : w.s.rows.Nodup
  single : w.s.multi = false → ∃ x, w.s.pr = [x]
  multi : w.s.multi = true → phaseTuple w.s.phases = w.s.phases ∧ 2 ≤ w.s.pr.length
  snaps : ∀ d ∈ w.snaps, SnapOK d

theorem wf_init : WF World.init :=
  ⟨by simp [World.init, Strm.rows], fun _ => ⟨_, rfl⟩, fun h => (by simp [World.init] at h),
   by simp [World.init]⟩

theorem wf_of_eq {w w' : World} (hw : WF w) (h1 : w'.s = w.s) (h2 : w'.snaps = w.snaps) : WF w' :=
  ⟨h1 ▸ hw.rows_nodup, h1 ▸ hw.single, h1 ▸ hw.multi, h2 ▸ hw.snaps⟩

theorem relabel_wf {w : World} (hw : WF w) (hm : w.s.multi = false) (q : Ph) : WF (w.relabel q) := by
  obtain ⟨x, hx⟩ := hw.single hm
  refine ⟨?_, fun _ => ⟨(q, x.2), by simp [World.relabel, hx]⟩, fun h => ?_, hw.snaps⟩
  · simp [World.relabel, Strm.rows, hx]
  · rw [relabel_multi, hm] at h; cases h

theorem toSingle_wf {w : World} (hw : WF w) (q : Ph) : WF (w.toSingle q) :=
  ⟨by simp [World.toSingle, Strm.rows], fun _ => ⟨_, rfl⟩, fun h => (by simp [World.toSingle] at h),
   hw.snaps⟩

theorem toMulti_wf {w w' : World} {t : List Ph} (hw : WF w) (h : w.toMulti t = .ok w')
    (ht : phaseTuple t = t) (hlen : 2 ≤ t.length) : WF w' := by
  obtain ⟨_, _, _, _, _, _, _, hpr, _, hsn, _, hm⟩ := toMulti_ok h
  refine ⟨?_, fun h => (by rw [hm] at h; cases h), fun _ => ⟨?_, ?_⟩, hsn ▸ hw.snaps⟩
  · simp only [Strm.rows, hpr, map_snd_zip_range']
    exact List.nodup_range'
  · rw [toMulti_phases h]; exact ht
  · rw [hpr]; simpa using hlen

theorem setPhases_wf {w w' : World} {ps : List Ph} (hw : WF w) (h : w.setPhases ps = .ok w') : WF w' := by
  rcases setPhases_cases h with ⟨q, _, _, rfl⟩ | ⟨q, _, hm, rfl⟩ | ⟨_, _, _, rfl⟩ | ⟨hlen, _, h⟩
  · exact toSingle_wf hw q
  · exact relabel_wf hw hm q
  · exact hw
  · exact toMulti_wf hw h (phaseTuple_idem ps) hlen

theorem setPhase_wf {w w' : World} {ls : List Ph} (hw : WF w) (h : w.setPhase ls = .ok w') : WF w' := by
  rcases setPhase_cases h with ⟨_, q, _, rfl⟩ | ⟨_, _, h⟩ | ⟨hm, q, _, rfl⟩
  · exact toSingle_wf hw q
  · exact setPhases_wf hw h
  · exact relabel_wf hw hm q

theorem reduce_wf {w w' : World} (hw : WF w) (h : w.reduce = .ok w') : WF w' := by
  unfold World.reduce at h
  split at h
  · exact setPhase_wf hw h
  · injection h with h; subst h; exact hw

theorem asStream_wf {w w' : World} (hw : WF w) (h : w.asStream = .ok w') : WF w' := by
  unfold World.asStream at h
  split at h
  · split at h
    · exact setPhase_wf hw h
    · exact setPhase_wf hw h
    · cases h
  · injection h with h; subst h; exact hw

theorem accessor_wf {w w' : World} {a b : Ph} {f : Ph → Bool} (hw : WF w)
    (h : w.accessor a b f = .ok w') : WF w' := by
  unfold World.accessor at h
  split at h
  · split at h
    · injection h with h; subst h; exact hw
    · exact setPhases_wf hw h
  · rename_i hm
    have hm : w.s.multi = false := by simpa using hm
    simp only [] at h
    split at h
    · split at h
      · exact setPhases_wf (relabel_wf hw hm .l) h
      · exact setPhases_wf hw h
    · exact setPhases_wf hw h

theorem getView_wf {w w' : World} {p : Ph} (hw : WF w) (h : w.getView p = .ok w') : WF w' := by
  unfold World.getView at h
  split at h
  · split at h
    · injection h with h; subst h; exact hw
    · split at h
      · injection h with h; subst h
        exact ⟨hw.rows_nodup, hw.single, hw.multi, hw.snaps⟩
      · cases h
  · split at h
    · split at h
      · injection h with h; subst h; exact hw
      · cases h
    · cases h

theorem snapshot_ok {w : World} (hw : WF w) : SnapOK w.snapshot := by
  refine ⟨by simp [World.snapshot, Strm.phases], ?_⟩
  cases hm : w.s.multi with
  | false =>
    obtain ⟨x, hx⟩ := hw.single hm
    exact Or.inl ⟨x.1, by simp [World.snapshot, Strm.phases, hx]⟩
  | true =>
    obtain ⟨h1, h2⟩ := hw.multi hm
    exact Or.inr ⟨h1, by simpa [World.snapshot, Strm.phases] using h2⟩

theorem save_wf {w : World} (hw : WF w) : WF w.save := by
  refine ⟨hw.rows_nodup, hw.single, hw.multi, ?_⟩
  intro d hd
  simp only [World.save, List.mem_append, List.mem_singleton] at hd
  rcases hd with hd | rfl
  · exact hw.snaps d hd
  · exact snapshot_ok hw


theorem restore_wf {w w' : World} {k : Nat} (hw : WF w) (h : w.restore k = .ok w') : WF w' := by
  unfold World.restore at h
  split at h
  · cases h
  · simp only [bind, Except.bind] at h
    split at h
    · cases h
    · rename_i w2 h2
      injection h with h; subst h
      have hw1 : WF w.emptyRows := wf_of_eq hw rfl rfl
      have hw2 := setPhases_wf hw1 h2
      exact wf_of_eq hw2 rfl rfl

theorem newSingle_wf {w : World} (hw : WF w) (p : Ph) (T P : Rat) (f : Nat → Rat) :
    WF (w.newSingle p T P f) :=
  ⟨by simp [World.newSingle, Strm.rows], fun _ => ⟨_, rfl⟩, fun h => (by simp [World.newSingle] at h),
   hw.snaps⟩

theorem newMulti_wf {w : World} (hw : WF w) (ps : List Ph) (T P : Rat) (fl : List (Ph × (Nat → Rat)))
    (hlen : 2 ≤ (phaseTuple ps).length) : WF (w.newMulti ps T P fl) := by
  have hpr : (w.newMulti ps T P fl).s.pr
      = (phaseTuple ps).zip (List.range' w.nRow (phaseTuple ps).length) := by
    simp [World.newMulti, World.allocRows]
  refine ⟨?_, fun h => (by simp [World.newMulti] at h), fun _ => ⟨?_, ?_⟩, hw.snaps⟩
  · simp only [Strm.rows, hpr, map_snd_zip_range']
    exact List.nodup_range'
  · simp only [Strm.phases, hpr, map_fst_zip_range']
    exact phaseTuple_idem ps
  · rw [hpr]; simpa using hlen

theorem step_wf {w w' : World} {op : Op} (hw : WF w) (h : w.step op = .ok w') : WF w' := by
  cases op with
  | newS p T P f => injection h with h; subst h; exact newSingle_wf hw p T P f
  | newM ps T P fl =>
    simp only [World.step] at h
    split at h
    · rename_i hlen
      injection h with h; subst h; exact newMulti_wf hw ps T P fl hlen
    · cases h
  | setPhases ps => exact setPhases_wf hw h
  | setPhase ls => exact setPhase_wf hw h
  | reduce => exact reduce_wf hw h
  | asStream => exact asStream_wf hw h
  | vle => exact accessor_wf hw h
  | lle => exact accessor_wf hw h
  | sle => exact accessor_wf hw h
  | empty => injection h with h; subst h; exact wf_of_eq hw rfl rfl
  | view p => exact getView_wf hw h
  | wView hd i x =>
    simp only [World.step, World.writeView] at h
    split at h
    · injection h with h; subst h; exact wf_of_eq hw rfl rfl
    · cases h
  | wPar p i x =>
    simp only [World.step, World.writePar] at h
    split at h
    · split at h
      · cases h
      · split at h
        · injection h with h; subst h; exact wf_of_eq hw rfl rfl
        · cases h
    · split at h
      · cases h
      · injection h with h; subst h; exact wf_of_eq hw rfl rfl
  | wT x => injection h with h; subst h; exact wf_of_eq hw rfl rfl
  | wP x => injection h with h; subst h; exact wf_of_eq hw rfl rfl
  | wvT hd x =>
    simp only [World.step] at h
    split at h
    · injection h with h; subst h; exact wf_of_eq hw rfl rfl
    · cases h
  | wvP hd x =>
    simp only [World.step] at h
    split at h
    · injection h with h; subst h; exact wf_of_eq hw rfl rfl
    · cases h
  | vPhase hd p =>
    simp only [World.step] at h
    split at h
    · split at h
      · injection h with h; subst h; exact hw
      · cases h
    · cases h
  | save => injection h with h; subst h; exact save_wf hw
  | restore k => exact restore_wf hw h

theorem apply_wf {w : World} (hw : WF w) (op : Op) : WF (w.apply op) := by
  unfold World.apply
  split
  · rename_i w' h; exact step_wf hw h
  · exact hw

theorem run_wf {w : World} (hw : WF w) (ops : List Op) : WF (w.run ops) := by
  induction ops generalizing w with
  | nil => exact hw
  | cons op ops ih => exact ih (apply_wf hw op)

/-! snapshots are never lost -/

theorem setPhases_snaps {w w' : World} {ps : List Ph} (h : w.setPhases ps = .ok w') : w'.snaps = w.snaps := by
  rcases setPhases_cases h with ⟨q, _, _, rfl⟩ | ⟨q, _, _, rfl⟩ | ⟨_, _, _, rfl⟩ | ⟨_, _, h⟩
  · rfl
  · rfl
  · rfl
  · exact (toMulti_ok h).2.2.2.2.2.2.2.2.2.1

theorem setPhase_snaps {w w' : World} {ls : List Ph} (h : w.setPhase ls = .ok w') : w'.snaps = w.snaps := by
  rcases setPhase_cases h with ⟨_, q, _, rfl⟩ | ⟨_, _, h⟩ | ⟨_, q, _, rfl⟩
  · rfl
  · exact setPhases_snaps h
  · rfl

theorem accessor_snaps {w w' : World} {a b : Ph} {f : Ph → Bool} (h : w.accessor a b f = .ok w') :
    w'.snaps = w.snaps := by
  unfold World.accessor at h
  split at h
  · split at h
    · injection h with h; subst h; rfl
    · exact setPhases_snaps h
  · simp only [] at h
    split at h
    · split at h
      · exact (setPhases_snaps h).trans rfl
      · exact setPhases_snaps h
    · exact setPhases_snaps h

theorem step_snaps {w w' : World} {op : Op} (h : w.step op = .ok w') :
    ∃ l, w'.snaps = w.snaps ++ l := by
  cases op with
  | newS p T P f => injection h with h; subst h; exact ⟨[], by simp [World.newSingle, World.allocRows]⟩
  | newM ps T P fl =>
    simp only [World.step] at h
    split at h
    · injection h with h; subst h; exact ⟨[], by simp [World.newMulti, World.allocRows]⟩
    · cases h
  | setPhases ps => exact ⟨[], by simp [setPhases_snaps h]⟩
  | setPhase ls => exact ⟨[], by simp [setPhase_snaps h]⟩
  | reduce =>
    simp only [World.step, World.reduce] at h
    split at h
    · exact ⟨[], by simp [setPhase_snaps h]⟩
    · injection h with h; subst h; exact ⟨[], by simp⟩
  | asStream =>
    simp only [World.step, World.asStream] at h
    split at h
    · split at h
      · exact ⟨[], by simp [setPhase_snaps h]⟩
      · exact ⟨[], by simp [setPhase_snaps h]⟩
      · cases h
    · injection h with h; subst h; exact ⟨[], by simp⟩
  | vle => exact ⟨[], by simp [accessor_snaps h]⟩
  | lle => exact ⟨[], by simp [accessor_snaps h]⟩
  | sle => exact ⟨[], by simp [accessor_snaps h]⟩
  | empty => injection h with h; subst h; exact ⟨[], by simp [World.emptyRows]⟩
  | view p =>
    simp only [World.step, World.getView] at h
    split at h
    · split at h
      · injection h with h; subst h; exact ⟨[], by simp⟩
      · split at h
        · injection h with h; subst h; exact ⟨[], by simp⟩
        · cases h
    · split at h
      · split at h
        · injection h with h; subst h; exact ⟨[], by simp⟩
        · cases h
      · cases h
  | wView hd i x =>
    simp only [World.step, World.writeView] at h
    split at h
    · injection h with h; subst h; exact ⟨[], by simp [World.writeRow]⟩
    · cases h
  | wPar p i x =>
    simp only [World.step, World.writePar] at h
    split at h
    · split at h
      · cases h
      · split at h
        · injection h with h; subst h; exact ⟨[], by simp [World.writeRow]⟩
        · cases h
    · split at h
      · cases h
      · injection h with h; subst h; exact ⟨[], by simp [World.writeRow]⟩
  | wT x => injection h with h; subst h; exact ⟨[], by simp [World.setT]⟩
  | wP x => injection h with h; subst h; exact ⟨[], by simp [World.setP]⟩
  | wvT hd x =>
    simp only [World.step] at h
    split at h
    · injection h with h; subst h; exact ⟨[], by simp [World.setT]⟩
    · cases h
  | wvP hd x =>
    simp only [World.step] at h
    split at h
    · injection h with h; subst h; exact ⟨[], by simp [World.setP]⟩
    · cases h
  | vPhase hd p =>
    simp only [World.step] at h
    split at h
    · split at h
      · injection h with h; subst h; exact ⟨[], by simp⟩
      · cases h
    · cases h
  | save => injection h with h; subst h; exact ⟨[w.snapshot], rfl⟩
  | restore k =>
    simp only [World.step, World.restore] at h
    split at h
    · cases h
    · simp only [bind, Except.bind] at h
      split at h
      · cases h
      · rename_i w2 h2
        injection h with h; subst h
        exact ⟨[], by simp [World.setP, World.setT, World.copyRows, setPhases_snaps h2, World.emptyRows]⟩

theorem run_snaps (w : World) (ops : List Op) : ∃ l, (w.run ops).snaps = w.snaps ++ l := by
  induction ops generalizing w with
  | nil => exact ⟨[], by simp [World.run]⟩
  | cons op ops ih =>
    obtain ⟨l2, h2⟩ := ih (w.apply op)
    have h1 : ∃ l, (w.apply op).snaps = w.snaps ++ l := by
      unfold World.apply
      split
      · rename_i w' h; exact step_snaps h
      · exact ⟨[], by simp⟩
    obtain ⟨l1, h1⟩ := h1
    exact ⟨l1 ++ l2, by simp [World.run, h2, h1]⟩


/-! restoring a snapshot -/

/-- what the property talks about: class, phase tuple, the flows of every phase, T and P -/
structure Obs where
  multi : Bool
  phases : List Ph
  vals : List (Nat → Rat)
  T : Rat
  P : Rat

def World.obs (w : World) : Obs :=
  ⟨w.s.multi, w.s.phases, w.s.pr.map (fun x => w.row x.2), w.temp, w.pres⟩

theorem find_zip_of_mem {β : Type} {rows : List Nat} {vals : List β} (hn : rows.Nodup) {r : Nat} {v : β}
    (hm : (r, v) ∈ rows.zip vals) : (rows.zip vals).find? (fun x => x.1 == r) = some (r, v) := by
  induction rows generalizing vals with
  | nil => simp at hm
  | cons r0 rows ih =>
    cases vals with
    | nil => simp at hm
    | cons v0 vals =>
      rw [List.nodup_cons] at hn
      simp only [List.zip_cons_cons, List.mem_cons] at hm
      by_cases hr : r0 = r
      · subst hr
        rcases hm with hm | hm
        · cases hm; simp
        · exact absurd (List.of_mem_zip hm).1 hn.1
      · rcases hm with hm | hm
        · cases hm; exact absurd rfl hr
        · simp only [List.zip_cons_cons, List.find?_cons]
          have : (r0 == r) = false := by simpa using hr
          simp only [this]
          exact ih hn.2 hm

theorem copyRows_vals {w : World} {vals : List (Nat → Rat)} (hn : w.s.rows.Nodup)
    (hl : w.s.pr.length = vals.length) :
    (w.copyRows vals).s.pr.map (fun x => (w.copyRows vals).row x.2) = vals := by
  apply List.ext_getElem
  · simp [World.copyRows, hl]
  · intro j h1 h2
    simp only [List.getElem_map]
    have hj : j < w.s.pr.length := by simpa [World.copyRows] using h1
    have hrows : w.s.rows.length = vals.length := by simpa [Strm.rows] using hl
    have hjr : j < w.s.rows.length := by simpa [Strm.rows] using hj
    have hmem : (w.s.rows[j], vals[j]) ∈ w.s.rows.zip vals := by
      rw [List.mem_iff_getElem]
      refine ⟨j, by simp [hrows]; exact h2, by simp⟩
    have hf := find_zip_of_mem hn hmem
    have hx : ((w.copyRows vals).s.pr[j]).2 = w.s.rows[j] := by
      simp [World.copyRows, Strm.rows]
    simp only [World.copyRows] at hx ⊢
    rw [hx, hf]

theorem isEmptyVal_const_zero (n : Nat) : isEmptyVal n (fun _ => 0) = true := by
  simp [isEmptyVal]

theorem emptyRows_isEmpty {w : World} {x : Ph × Nat} (hx : x ∈ w.s.pr) :
    w.emptyRows.isEmptyRow x.2 = true := by
  have : x.2 ∈ w.s.rows := by
    simp only [Strm.rows, List.mem_map]
    exact ⟨x, hx, rfl⟩
  simp only [World.isEmptyRow, World.emptyRows, List.contains_iff_mem, this, if_true]
  exact isEmptyVal_const_zero _

theorem toMulti_of_empty {w : World} (he : ∀ x ∈ w.s.pr, w.isEmptyRow x.2 = true) (t : List Ph) :
    ∃ w', w.toMulti t = .ok w' := by
  have hall : (w.sources.all fun s => !s.2.2 || (dest t s.1).isSome) = true := by
    rw [List.all_eq_true]
    intro s hs
    simp only [World.sources, List.mem_map] at hs
    obtain ⟨x, hx, rfl⟩ := hs
    simp [he x hx]
  unfold World.toMulti
  simp only [hall, if_true]
  split <;> exact ⟨_, rfl⟩

theorem phaseTuple_single (p : Ph) : phaseTuple [p] = [p] := by cases p <;> rfl

theorem setPhases_of_empty {w : World} (hw : WF w) (he : ∀ x ∈ w.s.pr, w.isEmptyRow x.2 = true)
    {ps : List Ph} (hd : (∃ p, ps = [p]) ∨ (phaseTuple ps = ps ∧ 2 ≤ ps.length)) :
    ∃ w', w.setPhases ps = .ok w' ∧ w'.s.phases = ps ∧ w'.s.multi = decide (2 ≤ ps.length) := by
  rcases hd with ⟨p, rfl⟩ | ⟨ht, hlen⟩
  · cases hm : w.s.multi with
    | true =>
      exact ⟨w.toSingle p, by simp [World.setPhases, phaseTuple_single, hm],
        by simp [World.toSingle, Strm.phases], by simp [World.toSingle]⟩
    | false =>
      obtain ⟨x, hx⟩ := hw.single hm
      exact ⟨w.relabel p, by simp [World.setPhases, phaseTuple_single, hm],
        by simp [World.relabel, Strm.phases, hx], by simp [relabel_multi, hm]⟩
  · match hps : ps, ht, hlen with
    | a :: b :: rest, ht, hlen =>
      by_cases hc : w.s.multi = true ∧ (a :: b :: rest) = w.s.phases
      · refine ⟨w, ?_, hc.2.symm, ?_⟩
        · simp only [World.setPhases, ht]
          simp [hc.1, hc.2.symm]
        · simp [hc.1]
      · obtain ⟨w', hw'⟩ := toMulti_of_empty he (a :: b :: rest)
        refine ⟨w', ?_, toMulti_phases hw', ?_⟩
        · simp only [World.setPhases, ht]
          have : (w.s.multi && (a :: b :: rest) == w.s.phases) = false := by
            rcases Bool.eq_false_or_eq_true w.s.multi with hm | hm
            · have : ¬ (a :: b :: rest) = w.s.phases := fun e => hc ⟨hm, e⟩
              simp [hm, this]
            · simp [hm]
          simp only [this]
          exact hw'
        · simp [(toMulti_ok hw').2.2.2.2.2.2.2.2.2.2.2]


/-- `set_data` of any snapshot held by a well-formed world succeeds and reproduces the snapshot -/
theorem restore_spec {w : World} (hw : WF w) {k : Nat} {d : Snap} (hk : w.snaps[k]? = some d) :
    ∃ w', w.restore k = .ok w' ∧
      w'.obs = ⟨decide (2 ≤ d.phases.length), d.phases, d.vals, d.T, d.P⟩ := by
  have hd : SnapOK d := hw.snaps d (List.mem_of_getElem? hk)
  have hw1 : WF w.emptyRows := wf_of_eq hw rfl rfl
  have he : ∀ x ∈ w.emptyRows.s.pr, w.emptyRows.isEmptyRow x.2 = true :=
    fun x hx => emptyRows_isEmpty hx
  obtain ⟨w2, h2, hph, hm⟩ := setPhases_of_empty hw1 he hd.2
  have hw2 := setPhases_wf hw1 h2
  have hlen : w2.s.pr.length = d.vals.length := by
    have : w2.s.pr.length = w2.s.phases.length := by simp [Strm.phases]
    rw [this, hph, hd.1]
  have hv := copyRows_vals hw2.rows_nodup hlen
  refine ⟨((w2.copyRows d.vals).setT (w2.copyRows d.vals).s.tc d.T).setP (w2.copyRows d.vals).s.tc d.P, ?_, ?_⟩
  · simp [World.restore, hk, bind, Except.bind, h2]
  · simp only [World.obs, World.setP, World.setT, World.temp, World.pres, if_true]
    rw [Obs.mk.injEq]
    exact ⟨hm, hph, hv, rfl, rfl⟩


/-! ### `reduce_phases` / `as_stream` keep a place for every non-empty phase -/

/-- the lower-case letter of the group (g, l/L, s/S) of a phase -/
def Ph.grp : Ph → Ph
  | .L => .l | .l => .l | .S => .s | .s => .s | .g => .g

theorem dest_isSome_of_grp {t : List Ph} {p : Ph} (h : p.grp ∈ t) : (dest t p).isSome = true := by
  cases p <;> simp [Ph.grp] at h <;> simp [dest, Ph.flip, h] <;>
    (split <;> simp)

theorem grp_mem_phaseString {w : World} {x : Ph × Nat} (hx : x ∈ w.s.pr) (he : w.isEmptyRow x.2 = false) :
    x.1.grp ∈ w.phaseString := by
  unfold World.phaseString
  simp only [List.mem_append]
  have key : ∀ grp : List Ph, x.1 ∈ grp →
      (w.s.pr.any fun y => grp.contains y.1 && !w.isEmptyRow y.2) = true := by
    intro grp hg
    rw [List.any_eq_true]
    exact ⟨x, hx, by simp [hg, he]⟩
  cases hp : x.1 with
  | g => left; left; rw [hp] at key; rw [if_pos (key [.g] (by simp))]; simp [Ph.grp]
  | l => left; right; rw [hp] at key; rw [if_pos (key [.l, .L] (by simp))]; simp [Ph.grp]
  | L => left; right; rw [hp] at key; rw [if_pos (key [.l, .L] (by simp))]; simp [Ph.grp]
  | s => right; rw [hp] at key; rw [if_pos (key [.s, .S] (by simp))]; simp [Ph.grp]
  | S => right; rw [hp] at key; rw [if_pos (key [.s, .S] (by simp))]; simp [Ph.grp]

theorem covers_self (w : World) : Covers w w.s.phases := by
  intro x hx _
  have hm : x.1 ∈ w.s.phases := List.mem_map.2 ⟨x, hx, rfl⟩
  rw [dest_of_mem hm]; rfl

theorem setPhases_covers_of_grp {w w' : World} {ls : List Ph} (h : w.setPhases ls = .ok w')
    (hg : ∀ x ∈ w.s.pr, w.isEmptyRow x.2 = false → x.1.grp ∈ ls) : Covers w w'.s.phases := by
  rcases setPhases_cases h with ⟨q, hq, _, rfl⟩ | ⟨q, hq, _, rfl⟩ | ⟨_, _, _, rfl⟩ | ⟨_, _, h⟩
  · intro x hx he
    apply dest_isSome_of_grp
    have := mem_phaseTuple.2 (hg x hx he)
    rw [hq] at this
    simpa [World.toSingle, Strm.phases] using this
  · intro x hx he
    apply dest_isSome_of_grp
    have := mem_phaseTuple.2 (hg x hx he)
    rw [hq] at this
    have hq' : x.1.grp = q := by simpa using this
    rw [relabel_phases, hq']
    exact List.mem_map.2 ⟨x, hx, rfl⟩
  · exact covers_self _
  · rw [toMulti_phases h]; exact toMulti_covers h

theorem setPhase_covers_of_grp {w w' : World} {ls : List Ph} (h : w.setPhase ls = .ok w')
    (hm : w.s.multi = true)
    (hg : ∀ x ∈ w.s.pr, w.isEmptyRow x.2 = false → x.1.grp ∈ ls) : Covers w w'.s.phases := by
  rcases setPhase_cases h with ⟨_, q, hq, rfl⟩ | ⟨_, _, h⟩ | ⟨hm', _⟩
  · intro x hx he
    apply dest_isSome_of_grp
    have := hg x hx he
    rcases hq with ⟨rfl, _⟩ | rfl
    · cases this
    · simpa [World.toSingle, Strm.phases] using this
  · exact setPhases_covers_of_grp h hg
  · rw [hm] at hm'; cases hm'

theorem reduce_covers {w w' : World} (h : w.reduce = .ok w') : Covers w w'.s.phases := by
  unfold World.reduce at h
  split at h
  · rename_i hm
    exact setPhase_covers_of_grp h hm (fun x hx he => grp_mem_phaseString hx he)
  · injection h with h; subst h
    exact covers_self w

theorem asStream_covers {w w' : World} (h : w.asStream = .ok w') : Covers w w'.s.phases := by
  unfold World.asStream at h
  split at h
  · rename_i hm
    split at h
    · rename_i q hq
      exact setPhase_covers_of_grp h hm (fun x hx he => hq ▸ grp_mem_phaseString hx he)
    · rename_i hq
      exact setPhase_covers_of_grp h hm (fun x hx he => by
        have := grp_mem_phaseString hx he
        rw [hq] at this; cases this)
    · cases h
  · injection h with h; subst h
    exact covers_self w

end ThermoVerif.Phases
