import Mathlib.Data.Nat.Digits.Defs
import Mathlib.Tactic.IntervalCases
import Mathlib.Data.List.Nodup
import ThermoVerif.Lemmas.Reaction
/-
Printer for the reaction grammar `a A + b B -> c C` and the lemmas behind the round trip
`parse (print ν) = ν` of the Lean parsers of Model/Reaction.lean (`str2terms`, `terms2vec`,
which mirror `_parse.str2dct` / `_parse.dct2arr`).
-/
namespace ThermoVerif.Reaction

/-! ### splitting -/

theorem splitChar_nil (sep : Char) : splitChar sep [] = [[]] := by simp [splitChar]

theorem splitChar_cons (sep c : Char) (rest : List Char) :
    splitChar sep (c :: rest) =
      if c == sep then [] :: splitChar sep rest
      else match splitChar sep rest with
        | [] => [[c]]
        | h :: t => (c :: h) :: t := by
  rw [splitChar]; rfl

theorem splitChar_ne_nil (sep : Char) : ∀ l, splitChar sep l ≠ [] := by
  intro l
  induction l with
  | nil => simp [splitChar_nil]
  | cons c rest ih =>
    rw [splitChar_cons]
    by_cases h : (c == sep) = true
    · simp [h]
    · simp only [h]
      cases hs : splitChar sep rest with
      | nil => exact absurd hs ih
      | cons a b => simp

/-- no separator: one piece -/
theorem splitChar_none (sep : Char) : ∀ l, sep ∉ l → splitChar sep l = [l] := by
  intro l
  induction l with
  | nil => intro _; exact splitChar_nil sep
  | cons c rest ih =>
    intro h
    have hc : (c == sep) = false := by
      simp only [beq_eq_false_iff_ne, ne_eq]
      intro e; exact h (by simp [e])
    rw [splitChar_cons, hc, ih (fun hm => h (by simp [hm]))]
    simp

/-- a piece without separator, the separator, the rest -/
theorem splitChar_append (sep : Char) : ∀ (a b : List Char), sep ∉ a →
    splitChar sep (a ++ sep :: b) = a :: splitChar sep b := by
  intro a
  induction a with
  | nil => intro b _; rw [List.nil_append, splitChar_cons]; simp
  | cons c rest ih =>
    intro b h
    have hc : (c == sep) = false := by
      simp only [beq_eq_false_iff_ne, ne_eq]
      intro e; exact h (by simp [e])
    rw [List.cons_append, splitChar_cons, hc, ih b (fun hm => h (by simp [hm]))]
    simp

theorem splitArrow_cons_ne (c : Char) (rest : List Char) (h : c ≠ '-') :
    splitArrow (c :: rest) = match splitArrow rest with
      | [] => [[c]]
      | hd :: t => (c :: hd) :: t := by
  rw [splitArrow.eq_def]
  split
  · rename_i heq; cases heq
  · rename_i heq; injection heq with h1 h2; exact absurd h1 h
  · rename_i c' rest' _ heq; injection heq with h1 h2; subst h1; subst h2; rfl

theorem splitArrow_none : ∀ l : List Char, '-' ∉ l → splitArrow l = [l] := by
  intro l
  induction l with
  | nil => intro _; rw [splitArrow.eq_def]
  | cons c rest ih =>
    intro h
    rw [splitArrow_cons_ne c rest (fun e => h (by simp [e])), ih (fun hm => h (by simp [hm]))]

/-- `left->right` splits into its two sides when neither contains a `-` -/
theorem splitArrow_two : ∀ (l r : List Char), '-' ∉ l → '-' ∉ r →
    splitArrow (l ++ '-' :: '>' :: r) = [l, r] := by
  intro l
  induction l with
  | nil =>
    intro r _ hr
    rw [List.nil_append, splitArrow.eq_def]
    simp only
    rw [splitArrow_none r hr]
  | cons c rest ih =>
    intro r h hr
    rw [List.cons_append, splitArrow_cons_ne c _ (fun e => h (by simp [e])),
      ih r (fun hm => h (by simp [hm])) hr]

/-! ### decimal literals -/

/-- the ten digit characters -/
def DigitLike (c : Char) : Prop := c ∈ ['0', '1', '2', '3', '4', '5', '6', '7', '8', '9']

def digitChar (d : Nat) : Char := Char.ofNat (48 + d)

theorem digitChar_like (d : Nat) (h : d < 10) : DigitLike (digitChar d) := by
  unfold DigitLike digitChar
  interval_cases d <;> decide

theorem digitChar_val (d : Nat) (h : d < 10) : (digitChar d).isDigit = true ∧ (digitChar d).toNat - 48 = d := by
  unfold digitChar
  interval_cases d <;> decide

theorem digitLike_facts : ∀ c ∈ ['0', '1', '2', '3', '4', '5', '6', '7', '8', '9'],
    c ≠ 'e' ∧ c ≠ '.' ∧ c ≠ '+' ∧ c ≠ '-' ∧ c ≠ ' ' ∧ c ≠ ',' ∧ isAlphaC c = false ∧
      "()[]{}".toList.contains c = false := by decide

theorem digitLike_alnum : ∀ c ∈ ['0', '1', '2', '3', '4', '5', '6', '7', '8', '9'], c.isAlphanum = true := by
  decide

/-- `k` decimal digits of `n` (most significant first, zero padded, `n` taken modulo `10^k`) -/
def fixedDigits : Nat → Nat → List Char
  | 0, _ => []
  | k + 1, n => fixedDigits k (n / 10) ++ [digitChar (n % 10)]

theorem fixedDigits_like : ∀ (k n : Nat), ∀ c ∈ fixedDigits k n, DigitLike c := by
  intro k
  induction k with
  | zero => intro n c hc; simp [fixedDigits] at hc
  | succ k ih =>
    intro n c hc
    simp only [fixedDigits, List.mem_append, List.mem_singleton] at hc
    rcases hc with hc | rfl
    · exact ih _ c hc
    · exact digitChar_like _ (Nat.mod_lt _ (by norm_num))

theorem length_fixedDigits : ∀ (k n : Nat), (fixedDigits k n).length = k := by
  intro k
  induction k with
  | zero => intro n; rfl
  | succ k ih => intro n; simp [fixedDigits, ih]

/-- one step of `digitsVal` -/
def dstep (acc : Option Nat) (c : Char) : Option Nat :=
  acc.bind fun a => if c.isDigit then some (a * 10 + (c.toNat - 48)) else none

theorem digitsVal_eq (cs : List Char) : digitsVal cs = if cs.isEmpty then none else cs.foldl dstep (some 0) := rfl

theorem foldl_fixedDigits : ∀ (k n a : Nat),
    (fixedDigits k n).foldl dstep (some a) = some (a * 10 ^ k + n % 10 ^ k) := by
  intro k
  induction k with
  | zero => intro n a; simp [fixedDigits, Nat.mod_one]
  | succ k ih =>
    intro n a
    obtain ⟨h1, h2⟩ := digitChar_val (n % 10) (Nat.mod_lt _ (by norm_num))
    simp only [fixedDigits, List.foldl_append, ih, List.foldl_cons, List.foldl_nil, dstep, Option.bind_some, h1,
      if_true, h2]
    congr 1
    have : n % 10 ^ (k + 1) = n % 10 + 10 * (n / 10 % 10 ^ k) := by
      rw [pow_succ', Nat.mod_mul]
    rw [this]; ring

theorem foldl_append_digits (a b : List Char) (x : Nat) :
    (a ++ b).foldl dstep (some x) = b.foldl dstep (a.foldl dstep (some x)) := List.foldl_append

/-- number of digits used for the integer part -/
def numLen (n : Nat) : Nat := max 1 (Nat.digits 10 n).length

def intChars (n : Nat) : List Char := fixedDigits (numLen n) n

theorem lt_pow_numLen (n : Nat) : n < 10 ^ numLen n := by
  unfold numLen
  calc n < 10 ^ (Nat.digits 10 n).length := Nat.lt_base_pow_length_digits (by norm_num)
    _ ≤ 10 ^ max 1 (Nat.digits 10 n).length := Nat.pow_le_pow_right (by norm_num) (le_max_right _ _)

theorem intChars_ne_nil (n : Nat) : intChars n ≠ [] := by
  intro h
  have := length_fixedDigits (numLen n) n
  unfold intChars at h
  rw [h] at this
  unfold numLen at this
  simp at this
  omega

/-- a non-negative decimal coefficient `d / 10^k`, written with exactly `k` fractional digits
(`k = 0`: an integer) -/
structure Coef where
  d : Nat
  k : Nat
  deriving DecidableEq, Repr

def Coef.val (c : Coef) : Rat := (c.d : Rat) / ((10 ^ c.k : Nat) : Rat)

def coefChars (c : Coef) : List Char :=
  intChars (c.d / 10 ^ c.k) ++ (if c.k = 0 then [] else '.' :: fixedDigits c.k c.d)

theorem coefChars_chars (c : Coef) : ∀ x ∈ coefChars c, DigitLike x ∨ x = '.' := by
  intro x hx
  unfold coefChars at hx
  rw [List.mem_append] at hx
  rcases hx with hx | hx
  · exact Or.inl (fixedDigits_like _ _ x hx)
  · by_cases hk : c.k = 0
    · simp [hk] at hx
    · rw [if_neg hk, List.mem_cons] at hx
      rcases hx with rfl | hx
      · exact Or.inr rfl
      · exact Or.inl (fixedDigits_like _ _ x hx)

theorem coefChars_ne_nil (c : Coef) : coefChars c ≠ [] := by
  unfold coefChars
  intro h
  exact intChars_ne_nil _ (List.append_eq_nil_iff.mp h).1

theorem digitLike_ne {x : Char} (h : DigitLike x) :
    x ≠ 'e' ∧ x ≠ '.' ∧ x ≠ '+' ∧ x ≠ '-' ∧ x ≠ ' ' ∧ x ≠ ',' ∧ isAlphaC x = false ∧
      "()[]{}".toList.contains x = false := digitLike_facts x h

/-- Python's `float("12.50")`, exactly: the literal of a coefficient parses to its value -/
theorem parseDecimal_coefChars (c : Coef) : parseDecimal (coefChars c) = some c.val := by
  have hne : 'e' ∉ coefChars c := by
    intro hm
    rcases coefChars_chars c 'e' hm with h | h
    · exact (digitLike_ne h).1 rfl
    · exact absurd h (by decide)
  have hI : '.' ∉ intChars (c.d / 10 ^ c.k) := fun hm => (digitLike_ne (fixedDigits_like _ _ _ hm)).2.1 rfl
  have hF : '.' ∉ fixedDigits c.k c.d := fun hm => (digitLike_ne (fixedDigits_like _ _ _ hm)).2.1 rfl
  unfold parseDecimal
  rw [splitChar_none 'e' _ hne]
  simp only
  by_cases hk : c.k = 0
  · have hc : coefChars c = intChars c.d := by
      unfold coefChars; simp [hk]
    have hI' : '.' ∉ intChars c.d := fun hm => (digitLike_ne (fixedDigits_like _ _ _ hm)).2.1 rfl
    rw [hc, splitChar_none '.' _ hI']
    have hne' := intChars_ne_nil c.d
    have hv : digitsVal (intChars c.d) = some c.d := by
      rw [digitsVal_eq]
      have : (intChars c.d).isEmpty = false := by
        cases h : intChars c.d with
        | nil => exact absurd h hne'
        | cons _ _ => rfl
      rw [this]
      unfold intChars
      simp only [Bool.false_eq_true, if_false]
      rw [foldl_fixedDigits, Nat.mod_eq_of_lt (lt_pow_numLen c.d)]; simp
    have he : (intChars c.d).isEmpty = false := by
      cases h : intChars c.d with
      | nil => exact absurd h hne'
      | cons _ _ => rfl
    simp only [List.append_nil, List.isEmpty_nil, he, Bool.false_and, Bool.false_eq_true, if_false, hv,
      List.length_nil]
    unfold Coef.val
    simp [hk]
  · have hc : coefChars c = intChars (c.d / 10 ^ c.k) ++ '.' :: fixedDigits c.k c.d := by
      unfold coefChars; simp [hk]
    rw [hc, splitChar_append '.' _ _ hI, splitChar_none '.' _ hF]
    have hne' := intChars_ne_nil (c.d / 10 ^ c.k)
    have he : (intChars (c.d / 10 ^ c.k)).isEmpty = false := by
      cases h : intChars (c.d / 10 ^ c.k) with
      | nil => exact absurd h hne'
      | cons _ _ => rfl
    have he2 : (intChars (c.d / 10 ^ c.k) ++ fixedDigits c.k c.d).isEmpty = false := by
      cases h : intChars (c.d / 10 ^ c.k) with
      | nil => exact absurd h hne'
      | cons _ _ => rfl
    have hv : digitsVal (intChars (c.d / 10 ^ c.k) ++ fixedDigits c.k c.d) = some c.d := by
      rw [digitsVal_eq, he2]
      simp only [Bool.false_eq_true, if_false]
      rw [foldl_append_digits]
      unfold intChars
      rw [foldl_fixedDigits, foldl_fixedDigits, Nat.mod_eq_of_lt (lt_pow_numLen _)]
      congr 1
      rw [Nat.zero_mul, Nat.zero_add, Nat.div_add_mod']
    simp only [he, Bool.false_and, Bool.false_eq_true, if_false, he2, hv, length_fixedDigits]
    have hlt : ¬ ((0 : Int) - (c.k : Int) ≥ 0) := by
      have : 0 < c.k := Nat.pos_of_ne_zero hk
      omega
    simp only [hlt, if_false]
    have hk' : ((0 : Int) - (c.k : Int)).natAbs = c.k := by omega
    unfold Coef.val
    rw [hk']

/-! ### identifiers and terms -/

/-- identifier-like chemical name: letters and digits only, starting with a letter other than `e`
(`split_coefficient` reads a leading `e` followed by a non-letter as part of the coefficient) -/
def IdentLike (name : String) : Prop :=
  ∃ h t, name.toList = h :: t ∧ isAlphaC h = true ∧ h ≠ 'e' ∧ ∀ c ∈ h :: t, c.isAlphanum = true

theorem alnum_ne {c : Char} (h : c.isAlphanum = true) (x : Char) (hx : x.isAlphanum = false) : c ≠ x := by
  intro e; subst e; rw [h] at hx; cases hx

theorem ident_not_mem {name : String} (h : IdentLike name) (x : Char) (hx : x.isAlphanum = false) :
    x ∉ name.toList := by
  obtain ⟨a, t, ht, _, _, hall⟩ := h
  rw [ht]
  intro hm
  exact alnum_ne (hall x hm) x hx rfl

theorem coefEnd_cons_pre (c : Char) (rest : List Char) (h : DigitLike c ∨ c = '.') :
    coefEnd (c :: rest) = 1 + coefEnd rest := by
  have hf : c ≠ 'e' ∧ isAlphaC c = false ∧ "()[]{}".toList.contains c = false := by
    rcases h with h | rfl
    · exact ⟨(digitLike_ne h).1, (digitLike_ne h).2.2.2.2.2.2.1, (digitLike_ne h).2.2.2.2.2.2.2⟩
    · decide
  rw [coefEnd.eq_def]
  have he : (c == 'e') = false := by simp [hf.1]
  simp only [he, Bool.false_eq_true, if_false, hf.2.1, hf.2.2, Bool.or_self]

theorem coefEnd_pre : ∀ (pre rest : List Char), (∀ x ∈ pre, DigitLike x ∨ x = '.') →
    coefEnd (pre ++ rest) = pre.length + coefEnd rest := by
  intro pre
  induction pre with
  | nil => intro rest _; simp
  | cons c cs ih =>
    intro rest h
    rw [List.cons_append, coefEnd_cons_pre c _ (h c (by simp)), ih rest (fun x hx => h x (by simp [hx]))]
    simp only [List.length_cons]; omega

theorem coefEnd_ident (h : Char) (t : List Char) (ha : isAlphaC h = true) (he : h ≠ 'e') :
    coefEnd (h :: t) = 0 := by
  rw [coefEnd.eq_def]
  have he' : (h == 'e') = false := by simp [he]
  simp only [he', Bool.false_eq_true, if_false, ha, Bool.true_or, if_true]

/-- a term of one side: coefficient and name -/
abbrev PTerm := Coef × String

def Coef.isOne (c : Coef) : Bool := c.d == 1 && c.k == 0

/-- `2.5Ethanol` (a coefficient of exactly 1 is not written), no spaces -/
def termCharsNS (t : PTerm) : List Char :=
  (if t.1.isOne then [] else coefChars t.1) ++ t.2.toList

theorem Coef.val_of_isOne (c : Coef) (h : c.isOne = true) : c.val = 1 := by
  unfold Coef.isOne at h
  simp only [Bool.and_eq_true, beq_iff_eq] at h
  unfold Coef.val
  rw [h.1, h.2]; norm_num

theorem splitTerm_term (sign : Rat) (t : PTerm) (hid : IdentLike t.2) :
    splitTerm false sign (termCharsNS t) = some (sign * t.1.val, t.2) := by
  obtain ⟨a, tl, ht, ha, he, _⟩ := hid
  unfold splitTerm termCharsNS
  simp only [Bool.false_eq_true, if_false]
  by_cases h1 : t.1.isOne = true
  · simp only [h1, if_true, List.nil_append, ht, coefEnd_ident a tl ha he]
    have : ¬ (0 ≥ (a :: tl).length) := by simp
    simp only [this, if_false, if_true]
    rw [← ht, String.ofList_toList, Coef.val_of_isOne _ h1, mul_one]
  · simp only [h1, Bool.false_eq_true, if_false]
    have hlen : coefEnd (coefChars t.1 ++ t.2.toList) = (coefChars t.1).length := by
      rw [coefEnd_pre _ _ (coefChars_chars t.1), ht, coefEnd_ident a tl ha he]; rfl
    have hpos : 0 < (coefChars t.1).length := List.length_pos_of_ne_nil (coefChars_ne_nil t.1)
    rw [hlen]
    have h2 : ¬ ((coefChars t.1).length ≥ (coefChars t.1 ++ t.2.toList).length) := by
      rw [List.length_append, ht]; simp
    have h3 : ¬ ((coefChars t.1).length = 0) := by omega
    simp only [h2, if_false, h3, List.take_left', List.drop_left', parseDecimal_coefChars, Option.map_some,
      String.ofList_toList]

/-- the characters of a term: digits, `.`, letters — never a separator -/
theorem termCharsNS_clean (t : PTerm) (hid : IdentLike t.2) (x : Char) (hx : x.isAlphanum = false)
    (hd : x ≠ '.') : x ∉ termCharsNS t := by
  unfold termCharsNS
  intro hm
  rw [List.mem_append] at hm
  rcases hm with hm | hm
  · by_cases h1 : t.1.isOne = true
    · simp [h1] at hm
    · simp only [h1, Bool.false_eq_true, if_false] at hm
      rcases coefChars_chars t.1 x hm with h | h
      · -- digits are alphanumeric
        have : x.isAlphanum = true := digitLike_alnum x h
        rw [this] at hx; cases hx
      · exact hd h
  · exact ident_not_mem hid x hx hm

/-! ### one side of the arrow -/

def joinPlus : List (List Char) → List Char
  | [] => []
  | [a] => a
  | a :: b :: rest => a ++ '+' :: joinPlus (b :: rest)

theorem splitChar_joinPlus : ∀ (ts : List (List Char)), ts ≠ [] → (∀ t ∈ ts, '+' ∉ t) →
    splitChar '+' (joinPlus ts) = ts := by
  intro ts
  induction ts with
  | nil => intro h; exact absurd rfl h
  | cons a rest ih =>
    intro _ hc
    cases rest with
    | nil => simp only [joinPlus]; exact splitChar_none '+' a (hc a (by simp))
    | cons b rest' =>
      simp only [joinPlus]
      rw [splitChar_append '+' a _ (hc a (by simp)),
        ih (by simp) (fun t ht => hc t (by simp [ht]))]

theorem mem_joinPlus (x : Char) (hx : x ≠ '+') : ∀ (ts : List (List Char)), (∀ t ∈ ts, x ∉ t) →
    x ∉ joinPlus ts := by
  intro ts
  induction ts with
  | nil => intro _; simp [joinPlus]
  | cons a rest ih =>
    intro hc
    cases rest with
    | nil => simp only [joinPlus]; exact hc a (by simp)
    | cons b rest' =>
      simp only [joinPlus, List.mem_append, List.mem_cons]
      intro hm
      rcases hm with hm | hm | hm
      · exact hc a (by simp) hm
      · exact hx hm
      · exact ih (fun t ht => hc t (by simp [ht])) hm

/-- what a side contributes to the parsed terms -/
def sideOut (sign : Rat) (ts : List PTerm) : Terms := ts.map fun t => (t.2, none, sign * t.1.val)

theorem termStep_term (sign : Rat) (terms : Terms) (t : PTerm) (hid : IdentLike t.2)
    (hnew : t.2 ∉ terms.map (·.1)) :
    termStep false sign (some (.ok terms)) (termCharsNS t)
      = some (.ok (terms ++ [(t.2, none, sign * t.1.val)])) := by
  unfold termStep
  simp only [splitTerm_term sign t hid, Bool.false_eq_true, if_false]
  have : terms.any (fun x => x.1 == t.2) = false := by
    rw [List.any_eq_false]
    intro x hx
    simp only [beq_iff_eq]
    intro e
    exact hnew (List.mem_map.mpr ⟨x, hx, e⟩)
  simp only [this, Bool.false_eq_true, if_false]

theorem foldl_termStep (sign : Rat) : ∀ (ts : List PTerm) (terms : Terms),
    (∀ t ∈ ts, IdentLike t.2) → (ts.map (·.2)).Nodup → (∀ t ∈ ts, t.2 ∉ terms.map (·.1)) →
    (ts.map termCharsNS).foldl (termStep false sign) (some (.ok terms))
      = some (.ok (terms ++ sideOut sign ts)) := by
  intro ts
  induction ts with
  | nil => intro terms _ _ _; simp [sideOut]
  | cons t rest ih =>
    intro terms hid hnd hnew
    rw [List.map_cons, List.nodup_cons] at hnd
    rw [List.map_cons, List.foldl_cons, termStep_term sign terms t (hid t (by simp)) (hnew t (by simp)),
      ih _ (fun u hu => hid u (by simp [hu])) hnd.2]
    · simp [sideOut]
    · intro u hu
      simp only [List.map_append, List.map_cons, List.map_nil, List.mem_append, List.mem_singleton]
      rintro (hm | hm)
      · exact hnew u (by simp [hu]) hm
      · exact hnd.1 (hm ▸ List.mem_map.mpr ⟨u, hu, rfl⟩)

theorem sideTerms_side (sign : Rat) (ts : List PTerm) (terms : Terms) (hne : ts ≠ [])
    (hid : ∀ t ∈ ts, IdentLike t.2) (hnd : (ts.map (·.2)).Nodup) (hnew : ∀ t ∈ ts, t.2 ∉ terms.map (·.1)) :
    sideTerms false sign (joinPlus (ts.map termCharsNS)) (some (.ok terms))
      = some (.ok (terms ++ sideOut sign ts)) := by
  unfold sideTerms
  rw [splitChar_joinPlus _ (by simpa using hne)
    (by intro c hc; obtain ⟨t, ht, rfl⟩ := List.mem_map.mp hc
        exact termCharsNS_clean t (hid t ht) '+' (by decide) (by decide))]
  exact foldl_termStep sign ts terms hid hnd hnew

/-! ### the printer and the string round trip -/

/-- `2.5 Ethanol` (a coefficient of exactly 1 is not written) -/
def termChars (t : PTerm) : List Char :=
  (if t.1.isOne then [] else coefChars t.1 ++ [' ']) ++ t.2.toList

def joinPlusSp : List (List Char) → List Char
  | [] => []
  | [a] => a
  | a :: b :: rest => a ++ ' ' :: '+' :: ' ' :: joinPlusSp (b :: rest)

/-- `a A + b B -> c C` -/
def printChars (L R : List PTerm) : List Char :=
  joinPlusSp (L.map termChars) ++ ' ' :: '-' :: '>' :: ' ' :: joinPlusSp (R.map termChars)

def printReaction (L R : List PTerm) : String := String.ofList (printChars L R)

def noSp (l : List Char) : List Char := l.filter (· != ' ')

theorem noSp_self (l : List Char) (h : ' ' ∉ l) : noSp l = l := by
  unfold noSp
  rw [List.filter_eq_self]
  intro a ha
  simp only [bne_iff_ne, ne_eq]
  intro e; exact h (e ▸ ha)

theorem noSp_append (a b : List Char) : noSp (a ++ b) = noSp a ++ noSp b := by simp [noSp]

theorem noSp_termChars (t : PTerm) (hid : IdentLike t.2) : noSp (termChars t) = termCharsNS t := by
  have hname : ' ' ∉ t.2.toList := ident_not_mem hid ' ' (by decide)
  have hcoef : ' ' ∉ coefChars t.1 := by
    intro hm
    rcases coefChars_chars t.1 ' ' hm with h | h
    · exact (digitLike_ne h).2.2.2.2.1 rfl
    · exact absurd h (by decide)
  unfold termChars termCharsNS
  by_cases h1 : t.1.isOne = true
  · simp only [h1, if_true, List.nil_append]; exact noSp_self _ hname
  · simp only [h1, Bool.false_eq_true, if_false]
    rw [noSp_append, noSp_append, noSp_self _ hcoef, noSp_self _ hname]
    simp [noSp]

theorem noSp_joinPlusSp : ∀ (ts : List PTerm), (∀ t ∈ ts, IdentLike t.2) →
    noSp (joinPlusSp (ts.map termChars)) = joinPlus (ts.map termCharsNS) := by
  intro ts
  induction ts with
  | nil => intro _; rfl
  | cons a rest ih =>
    intro hid
    cases rest with
    | nil => simp only [List.map_cons, List.map_nil, joinPlusSp, joinPlus]; exact noSp_termChars a (hid a (by simp))
    | cons b rest' =>
      have := ih (fun t ht => hid t (by simp [ht]))
      simp only [List.map_cons] at this ⊢
      simp only [joinPlusSp, joinPlus]
      rw [noSp_append, noSp_termChars a (hid a (by simp))]
      congr 1
      show noSp (' ' :: '+' :: ' ' :: joinPlusSp _) = '+' :: joinPlus _
      rw [← this]
      simp [noSp]

theorem noSp_printChars (L R : List PTerm) (hid : ∀ t ∈ L ++ R, IdentLike t.2) :
    noSp (printChars L R)
      = joinPlus (L.map termCharsNS) ++ '-' :: '>' :: joinPlus (R.map termCharsNS) := by
  unfold printChars
  rw [noSp_append, noSp_joinPlusSp L (fun t ht => hid t (by simp [ht]))]
  congr 1
  show noSp (' ' :: '-' :: '>' :: ' ' :: joinPlusSp _) = '-' :: '>' :: joinPlus _
  rw [← noSp_joinPlusSp R (fun t ht => hid t (by simp [ht]))]
  simp [noSp]

theorem sideOut_names (sign : Rat) (ts : List PTerm) : (sideOut sign ts).map (·.1) = ts.map (·.2) := by
  simp [sideOut]

/-- `str2dct(print(L -> R))` returns exactly the terms that were printed: reactants with their
coefficient negated, then products. -/
theorem str2terms_printReaction (L R : List PTerm) (hL : L ≠ []) (hR : R ≠ [])
    (hid : ∀ t ∈ L ++ R, IdentLike t.2) (hnd : ((L ++ R).map (·.2)).Nodup) :
    str2terms false (printReaction L R) = some (.ok (sideOut (-1) L ++ sideOut 1 R)) := by
  have hidL : ∀ t ∈ L, IdentLike t.2 := fun t ht => hid t (by simp [ht])
  have hidR : ∀ t ∈ R, IdentLike t.2 := fun t ht => hid t (by simp [ht])
  rw [List.map_append, List.nodup_append] at hnd
  obtain ⟨hndL, hndR, hdisj⟩ := hnd
  have hdash : ∀ ts : List PTerm, (∀ t ∈ ts, IdentLike t.2) → '-' ∉ joinPlus (ts.map termCharsNS) := by
    intro ts h
    refine mem_joinPlus '-' (by decide) _ ?_
    intro c hc
    obtain ⟨t, ht, rfl⟩ := List.mem_map.mp hc
    exact termCharsNS_clean t (h t ht) '-' (by decide) (by decide)
  unfold str2terms printReaction
  rw [String.toList_ofList]
  have : List.filter (fun x => x != ' ') (printChars L R) = noSp (printChars L R) := rfl
  simp only [this, noSp_printChars L R hid, splitArrow_two _ _ (hdash L hidL) (hdash R hidR)]
  rw [sideTerms_side (-1) L [] hL hidL hndL (by intro t _; simp), List.nil_append,
    sideTerms_side 1 R _ hR hidR hndR]
  intro t ht
  rw [sideOut_names]
  intro hm
  exact hdisj _ hm _ (List.mem_map.mpr ⟨t, ht, rfl⟩) rfl

/-! ### from terms to the stoichiometric vector (`dct2arr`) -/

theorem Names.index_lt (names : Names) (id : String) (i : Nat) (h : names.index id = some i) :
    i < names.length := by
  unfold Names.index at h
  have := List.mem_of_find?_eq_some h
  simpa using this

theorem getD_setAt (v : Vec) (i j : Nat) (x : Rat) (hi : i < v.length) :
    (setAt v i x).getD j 0 = if j = i then x else v.getD j 0 := by
  unfold setAt
  simp only [List.getD_eq_getElem?_getD, List.getElem?_set]
  by_cases h : i = j
  · subst h; simp [hi]
  · have h' : ¬ j = i := fun e => h e.symm
    simp [h, h']

/-- one step of `terms2vec` -/
def vstep (names : Names) (v : Vec) (t : String × Option Char × Rat) : Except Err Vec :=
  match names.index t.1 with
  | none => .error .undefinedChemical
  | some i => .ok (setAt v i t.2.2)

theorem terms2vec_eq (names : Names) (terms : Terms) :
    terms2vec names terms = terms.foldlM (vstep names) (List.replicate names.length 0) := by
  unfold terms2vec
  congr 1

/-- `dct2arr`: every listed chemical gets its coefficient, everything else stays -/
theorem foldlM_vstep (names : Names) : ∀ (terms : Terms) (v0 : Vec), v0.length = names.length →
    (∀ t ∈ terms, ∃ i, names.index t.1 = some i) → (terms.map fun t => names.index t.1).Nodup →
    ∃ v, terms.foldlM (vstep names) v0 = .ok v ∧ v.length = names.length ∧
      (∀ t ∈ terms, ∀ i, names.index t.1 = some i → v.getD i 0 = t.2.2) ∧
      (∀ i, (∀ t ∈ terms, names.index t.1 ≠ some i) → v.getD i 0 = v0.getD i 0) := by
  intro terms
  induction terms with
  | nil => intro v0 h0 _ _; exact ⟨v0, rfl, h0, by simp, fun _ _ => rfl⟩
  | cons t rest ih =>
    intro v0 h0 hres hnd
    obtain ⟨i, hi⟩ := hres t (by simp)
    have hil : i < v0.length := by rw [h0]; exact Names.index_lt names _ i hi
    rw [List.map_cons, List.nodup_cons] at hnd
    have hstep : vstep names v0 t = .ok (setAt v0 i t.2.2) := by unfold vstep; rw [hi]
    obtain ⟨v, hv, hlen, hlisted, hother⟩ := ih (setAt v0 i t.2.2) (by simp [setAt, h0])
      (fun u hu => hres u (by simp [hu])) hnd.2
    refine ⟨v, ?_, hlen, ?_, ?_⟩
    · rw [List.foldlM_cons, hstep]; exact hv
    · intro u hu j hj
      simp only [List.mem_cons] at hu
      rcases hu with rfl | hu
      · have hij : j = i := by rw [hi] at hj; injection hj with hj; exact hj.symm
        subst hij
        rw [hother j (fun w hw hwi => hnd.1 (by rw [hi]; exact List.mem_map.mpr ⟨w, hw, hwi⟩)),
          getD_setAt _ _ _ _ hil, if_pos rfl]
      · exact hlisted u hu j hj
    · intro j hj
      have hji : j ≠ i := fun e => hj t (by simp) (e ▸ hi)
      rw [hother j (fun w hw => hj w (by simp [hw])), getD_setAt _ _ _ _ hil, if_neg hji]

theorem vec_ext (a b : Vec) (hl : a.length = b.length) (h : ∀ i, i < a.length → a.getD i 0 = b.getD i 0) :
    a = b := by
  apply List.ext_getElem hl
  intro i h1 h2
  have := h i h1
  simp only [List.getD_eq_getElem?_getD, List.getElem?_eq_getElem h1, List.getElem?_eq_getElem h2,
    Option.getD_some] at this
  exact this

/-- the name a chemical is written with: the first entry of its alias list -/
def primary (names : Names) (i : Nat) : String := (names.getD i []).headD ""

/-- every chemical's primary name resolves to that chemical (no earlier chemical lists it) -/
def Resolves (names : Names) : Prop := ∀ i, i < names.length → names.index (primary names i) = some i

/-- the dict a stoichiometric vector is written as: `{ID: coefficient}` for the non-zero entries -/
def toDict (names : Names) (nu : Vec) : Terms :=
  ((List.range nu.length).filter fun i => nu.getD i 0 != 0).map fun i => (primary names i, none, nu.getD i 0)

theorem getD_replicate_zero (n i : Nat) : (List.replicate n (0 : Rat)).getD i 0 = 0 := by
  simp only [List.getD_eq_getElem?_getD, List.getElem?_replicate]
  split <;> rfl

/-- a list of terms written from a selection of (distinct) chemical indices parses to the vector
that holds their coefficients and zero elsewhere -/
theorem terms2vec_of_indices (names : Names) (hres : Resolves names) (idx : List Nat) (f : Nat → Rat)
    (hlt : ∀ i ∈ idx, i < names.length) (hnd : idx.Nodup) (nu : Vec) (hlen : nu.length = names.length)
    (hin : ∀ i ∈ idx, nu.getD i 0 = f i) (hout : ∀ i, i ∉ idx → nu.getD i 0 = 0) :
    terms2vec names (idx.map fun i => (primary names i, none, f i)) = .ok nu := by
  have hidx : ∀ i ∈ idx, names.index (primary names i) = some i := fun i hi => hres i (hlt i hi)
  have hmap : ((idx.map fun i => ((primary names i, none, f i) : String × Option Char × Rat)).map
      fun t => names.index t.1) = idx.map some := by
    rw [List.map_map]
    apply List.map_congr_left
    intro i hi
    exact hidx i hi
  have hex : ∀ t ∈ (idx.map fun i => ((primary names i, none, f i) : String × Option Char × Rat)),
      ∃ i, names.index t.1 = some i := by
    intro t ht
    obtain ⟨i, hi, hti⟩ := List.mem_map.mp ht
    refine ⟨i, ?_⟩
    rw [← hti]; exact hidx i hi
  obtain ⟨v, hv, hvl, hlisted, hother⟩ := foldlM_vstep names
    (idx.map fun i => ((primary names i, none, f i) : String × Option Char × Rat))
    (List.replicate names.length 0) (by simp) hex
    (by rw [hmap]; exact hnd.map (Option.some_injective _))
  rw [terms2vec_eq, hv]
  congr 1
  apply vec_ext _ _ (by rw [hvl, hlen])
  intro i _
  by_cases hi : i ∈ idx
  · rw [hlisted _ (List.mem_map.mpr ⟨i, hi, rfl⟩) i (hidx i hi), hin i hi]
  · rw [hother i, getD_replicate_zero, hout i hi]
    intro t ht hti
    obtain ⟨j, hj, rfl⟩ := List.mem_map.mp ht
    rw [hidx j hj] at hti
    injection hti with hti
    exact hi (hti ▸ hj)

/-- `parse_dict (toDict ν) = ν` -/
theorem terms2vec_toDict (names : Names) (hres : Resolves names) (nu : Vec) (hlen : nu.length = names.length) :
    terms2vec names (toDict names nu) = .ok nu := by
  unfold toDict
  refine terms2vec_of_indices names hres _ (fun i => nu.getD i 0) ?_ ?_ nu hlen (fun _ _ => rfl) ?_
  · intro i hi
    have := (List.mem_filter.mp hi).1
    rw [List.mem_range, hlen] at this; exact this
  · exact (List.filter_sublist).nodup List.nodup_range
  · intro i hi
    by_cases hl : i < nu.length
    · by_contra hne
      exact hi (List.mem_filter.mpr ⟨List.mem_range.mpr hl, by simpa using hne⟩)
    · simp only [List.getD_eq_getElem?_getD]
      rw [List.getElem?_eq_none (not_lt.mp hl)]; rfl

/-! ### the round trip on stoichiometric vectors -/

/-- per chemical of the package: is it a product, and its decimal coefficient (`d = 0`: absent) -/
abbrev DStoich := List (Bool × Coef)

def dfl : Bool × Coef := (true, ⟨0, 0⟩)

def entryVal (e : Bool × Coef) : Rat := if e.2.d = 0 then 0 else if e.1 then e.2.val else -e.2.val

/-- the signed stoichiometric vector -/
def DStoich.vec (σ : DStoich) : Vec := σ.map entryVal

/-- indices of the chemicals on one side (`false`: reactants, `true`: products), in package order -/
def DStoich.side (σ : DStoich) (p : Bool) : List Nat :=
  (List.range σ.length).filter fun i => (σ.getD i dfl).2.d != 0 && (σ.getD i dfl).1 == p

def sidePTerms (names : Names) (σ : DStoich) (p : Bool) : List PTerm :=
  (σ.side p).map fun i => ((σ.getD i dfl).2, primary names i)

/-- `a A + b B -> c C` for the vector `σ` over the package `names` -/
def printStoich (names : Names) (σ : DStoich) : String :=
  printReaction (sidePTerms names σ false) (sidePTerms names σ true)

/-- string → stoichiometric vector: `str2dct` then `dct2arr` (`_parse.get_stoichiometric_array`) -/
def parseReaction (names : Names) (s : String) : Option (Except Err Vec) :=
  (str2terms false s).map fun r => r.bind (terms2vec names)

theorem getD_vec (σ : DStoich) : ∀ i, σ.vec.getD i 0 = entryVal (σ.getD i dfl) := by
  unfold DStoich.vec
  induction σ with
  | nil => intro i; simp [entryVal, dfl]
  | cons e es ih =>
    intro i
    cases i with
    | zero => simp
    | succ i => simpa using ih i

theorem primary_inj (names : Names) (hres : Resolves names) (i j : Nat) (hi : i < names.length)
    (hj : j < names.length) (h : primary names i = primary names j) : i = j := by
  have h1 := hres i hi
  rw [h, hres j hj] at h1
  injection h1 with h1; exact h1.symm

/-- `parse (print ν) = ν`: printing a stoichiometric vector with decimal coefficients in the
grammar `a A + b B -> c C` and parsing it back with the model of `_parse.py` returns the vector. -/
theorem parse_print (names : Names) (hres : Resolves names)
    (hid : ∀ i, i < names.length → IdentLike (primary names i))
    (σ : DStoich) (hlen : σ.length = names.length)
    (hL : σ.side false ≠ []) (hR : σ.side true ≠ []) :
    parseReaction names (printStoich names σ) = some (.ok σ.vec) := by
  have hside_lt : ∀ p, ∀ i ∈ σ.side p, i < names.length := by
    intro p i hi
    have := (List.mem_filter.mp hi).1
    rw [List.mem_range, hlen] at this; exact this
  have hside_nd : ∀ p, (σ.side p).Nodup := fun p => (List.filter_sublist).nodup List.nodup_range
  have hdisj : ∀ i, i ∈ σ.side false → i ∈ σ.side true → False := by
    intro i h1 h2
    have a := (List.mem_filter.mp h1).2
    have b := (List.mem_filter.mp h2).2
    simp only [Bool.and_eq_true, beq_iff_eq] at a b
    rw [a.2] at b; exact absurd b.2 (by decide)
  have hall_nd : (σ.side false ++ σ.side true).Nodup :=
    List.nodup_append.mpr ⟨hside_nd false, hside_nd true, fun a ha b hb e => hdisj a ha (e ▸ hb)⟩
  have hall_lt : ∀ i ∈ σ.side false ++ σ.side true, i < names.length := by
    intro i hi
    rcases List.mem_append.mp hi with h | h
    · exact hside_lt false i h
    · exact hside_lt true i h
  -- the string level
  have hnames : ((sidePTerms names σ false ++ sidePTerms names σ true).map (·.2))
      = (σ.side false ++ σ.side true).map (primary names) := by
    simp [sidePTerms, List.map_append, List.map_map, Function.comp_def]
  have hstr := str2terms_printReaction (sidePTerms names σ false) (sidePTerms names σ true)
    (by simpa [sidePTerms] using hL) (by simpa [sidePTerms] using hR)
    (by intro t ht
        rcases List.mem_append.mp ht with h | h
        · obtain ⟨i, hi, rfl⟩ := List.mem_map.mp h; exact hid i (hside_lt false i hi)
        · obtain ⟨i, hi, rfl⟩ := List.mem_map.mp h; exact hid i (hside_lt true i hi))
    (by rw [hnames]
        exact hall_nd.map_on (fun a ha b hb e => primary_inj names hres a b (hall_lt a ha) (hall_lt b hb) e))
  unfold parseReaction printStoich
  rw [hstr]
  simp only [Option.map_some, Except.bind]
  congr 1
  -- the parsed terms are the chemicals of both sides with the entries of the vector
  have hterms : sideOut (-1) (sidePTerms names σ false) ++ sideOut 1 (sidePTerms names σ true)
      = (σ.side false ++ σ.side true).map fun i => (primary names i, none, σ.vec.getD i 0) := by
    rw [List.map_append]
    congr 1
    · unfold sideOut sidePTerms
      rw [List.map_map]
      apply List.map_congr_left
      intro i hi
      have a := (List.mem_filter.mp hi).2
      simp only [Bool.and_eq_true, bne_iff_ne, ne_eq, beq_iff_eq] at a
      simp only [Function.comp, getD_vec, entryVal, a.1, a.2, if_false, Bool.false_eq_true]
      congr 2; ring
    · unfold sideOut sidePTerms
      rw [List.map_map]
      apply List.map_congr_left
      intro i hi
      have a := (List.mem_filter.mp hi).2
      simp only [Bool.and_eq_true, bne_iff_ne, ne_eq, beq_iff_eq] at a
      simp only [Function.comp, getD_vec, entryVal, a.1, a.2, if_false, if_true]
      congr 2; ring
  rw [hterms]
  refine terms2vec_of_indices names hres _ (fun i => σ.vec.getD i 0) hall_lt hall_nd σ.vec
    (by simp [DStoich.vec, hlen]) (fun _ _ => rfl) ?_
  intro i hi
  rw [getD_vec]
  unfold entryVal
  by_cases hd : (σ.getD i dfl).2.d = 0
  · rw [if_pos hd]
  · exfalso
    have hb : ((σ.getD i dfl).2.d != 0) = true := by rw [bne_iff_ne]; exact hd
    by_cases hl : i < σ.length
    · apply hi
      cases hp : (σ.getD i dfl).1 with
      | false =>
        exact List.mem_append.mpr (Or.inl (List.mem_filter.mpr ⟨List.mem_range.mpr hl, by rw [hb, hp]; rfl⟩))
      | true =>
        exact List.mem_append.mpr (Or.inr (List.mem_filter.mpr ⟨List.mem_range.mpr hl, by rw [hb, hp]; rfl⟩))
    · apply hd
      simp only [List.getD_eq_getElem?_getD]
      rw [List.getElem?_eq_none (not_lt.mp hl)]; rfl

/-! ### the phase-tagged grammar `a A,g + b B,l -> c C,s` (`_xparse.str2dct`) -/

/-- coefficient, name, phase -/
abbrev XTerm := Coef × String × Char

theorem xcoefEnd_cons_pre (c : Char) (rest : List Char) (h : DigitLike c ∨ c = '.') :
    xcoefEnd (c :: rest) = 1 + xcoefEnd rest := by
  have hf : isAlphaC c = false := by
    rcases h with h | rfl
    · exact (digitLike_ne h).2.2.2.2.2.2.1
    · decide
  rw [xcoefEnd]
  simp [hf]

theorem xcoefEnd_pre : ∀ (pre rest : List Char), (∀ x ∈ pre, DigitLike x ∨ x = '.') →
    xcoefEnd (pre ++ rest) = pre.length + xcoefEnd rest := by
  intro pre
  induction pre with
  | nil => intro rest _; simp
  | cons c cs ih =>
    intro rest h
    rw [List.cons_append, xcoefEnd_cons_pre c _ (h c (by simp)), ih rest (fun x hx => h x (by simp [hx]))]
    simp only [List.length_cons]; omega

theorem xcoefEnd_ident (h : Char) (t : List Char) (ha : isAlphaC h = true) (he : h ≠ 'e') :
    xcoefEnd (h :: t) = 0 := by
  rw [xcoefEnd]
  simp [ha, he]

/-- `2.5Ethanol,l`, no spaces -/
def xtermCharsNS (t : XTerm) : List Char :=
  (if t.1.isOne then [] else coefChars t.1) ++ (t.2.1.toList ++ [',', t.2.2])

theorem splitTerm_xterm (sign : Rat) (t : XTerm) (hid : IdentLike t.2.1) :
    splitTerm true sign (xtermCharsNS t)
      = some (sign * t.1.val, String.ofList (t.2.1.toList ++ [',', t.2.2])) := by
  obtain ⟨a, tl, ht, ha, he, _⟩ := hid
  unfold splitTerm xtermCharsNS
  simp only [if_true]
  by_cases h1 : t.1.isOne = true
  · simp only [h1, if_true, List.nil_append, ht, List.cons_append, xcoefEnd_ident a _ ha he]
    have : ¬ (0 ≥ (a :: (tl ++ [',', t.2.2])).length) := by simp
    simp only [this, if_false, if_true]
    rw [Coef.val_of_isOne _ h1, mul_one]
  · simp only [h1, Bool.false_eq_true, if_false]
    have hlen : xcoefEnd (coefChars t.1 ++ (t.2.1.toList ++ [',', t.2.2])) = (coefChars t.1).length := by
      rw [xcoefEnd_pre _ _ (coefChars_chars t.1), ht, List.cons_append, xcoefEnd_ident a _ ha he]; rfl
    have hpos : 0 < (coefChars t.1).length := List.length_pos_of_ne_nil (coefChars_ne_nil t.1)
    rw [hlen]
    have h2 : ¬ ((coefChars t.1).length ≥ (coefChars t.1 ++ (t.2.1.toList ++ [',', t.2.2])).length) := by
      rw [List.length_append, List.length_append]; simp
    have h3 : ¬ ((coefChars t.1).length = 0) := by omega
    simp only [h2, if_false, h3, List.take_left', List.drop_left', parseDecimal_coefChars, Option.map_some]

theorem xtermCharsNS_clean (t : XTerm) (hid : IdentLike t.2.1) (hp : (phaseCode t.2.2).isSome = true)
    (x : Char) (hx : x.isAlphanum = false) (hd : x ≠ '.') (hc : x ≠ ',') : x ∉ xtermCharsNS t := by
  unfold xtermCharsNS
  intro hm
  rw [List.mem_append] at hm
  rcases hm with hm | hm
  · by_cases h1 : t.1.isOne = true
    · simp [h1] at hm
    · simp only [h1, Bool.false_eq_true, if_false] at hm
      rcases coefChars_chars t.1 x hm with h | h
      · have : x.isAlphanum = true := digitLike_alnum x h
        rw [this] at hx; cases hx
      · exact hd h
  · rw [List.mem_append] at hm
    rcases hm with hm | hm
    · exact ident_not_mem hid x hx hm
    · simp only [List.mem_cons, List.not_mem_nil, or_false] at hm
      rcases hm with hm | hm
      · exact hc hm
      · -- the phase letter is alphanumeric
        have : ∀ p : Char, (phaseCode p).isSome = true → p.isAlphanum = true := by
          intro p hp'
          unfold phaseCode at hp'
          split at hp' <;> first | decide | (simp at hp')
        rw [hm, this _ hp] at hx; cases hx

def xsideOut (sign : Rat) (ts : List XTerm) : Terms :=
  ts.map fun t => (t.2.1, some t.2.2, sign * t.1.val)

theorem termStep_xterm (sign : Rat) (terms : Terms) (t : XTerm) (hid : IdentLike t.2.1)
    (hp : (phaseCode t.2.2).isSome = true) (hnew : t.2.1 ∉ terms.map (·.1)) :
    termStep true sign (some (.ok terms)) (xtermCharsNS t)
      = some (.ok (terms ++ [(t.2.1, some t.2.2, sign * t.1.val)])) := by
  obtain ⟨a, tl, ht, _, _, _⟩ := hid
  unfold termStep
  simp only [splitTerm_xterm sign t ⟨a, tl, ht, by assumption, by assumption, by assumption⟩, if_true,
    String.toList_ofList]
  have hl : (t.2.1.toList ++ [',', t.2.2]).length = t.2.1.toList.length + 2 := by simp
  have h1 : ¬ ((t.2.1.toList ++ [',', t.2.2]).length < 2) := by omega
  have h2 : (t.2.1.toList ++ [',', t.2.2]).getD ((t.2.1.toList ++ [',', t.2.2]).length - 2) ' ' = ',' := by
    rw [hl, Nat.add_sub_cancel]
    simp [List.getD_eq_getElem?_getD]
  have h3 : (t.2.1.toList ++ [',', t.2.2]).getD ((t.2.1.toList ++ [',', t.2.2]).length - 1) ' ' = t.2.2 := by
    rw [hl]
    have : t.2.1.toList.length + 2 - 1 = t.2.1.toList.length + 1 := by omega
    rw [this]
    simp [List.getD_eq_getElem?_getD, List.getElem?_append_right]
  have h4 : (t.2.1.toList ++ [',', t.2.2]).take ((t.2.1.toList ++ [',', t.2.2]).length - 2) = t.2.1.toList := by
    rw [hl, Nat.add_sub_cancel]; exact List.take_left' rfl
  have hnone : (phaseCode t.2.2).isNone = false := by
    cases h : phaseCode t.2.2 with
    | none => rw [h] at hp; cases hp
    | some _ => rfl
  have hany : terms.any (fun x => x.1 == t.2.1) = false := by
    rw [List.any_eq_false]
    intro x hx
    simp only [beq_iff_eq]
    intro e
    exact hnew (List.mem_map.mpr ⟨x, hx, e⟩)
  simp only [h1, if_false, h2, beq_self_eq_true, if_true, h3, hnone, Bool.false_eq_true, h4,
    String.ofList_toList, hany]

theorem foldl_termStep_x (sign : Rat) : ∀ (ts : List XTerm) (terms : Terms),
    (∀ t ∈ ts, IdentLike t.2.1 ∧ (phaseCode t.2.2).isSome = true) → (ts.map (·.2.1)).Nodup →
    (∀ t ∈ ts, t.2.1 ∉ terms.map (·.1)) →
    (ts.map xtermCharsNS).foldl (termStep true sign) (some (.ok terms))
      = some (.ok (terms ++ xsideOut sign ts)) := by
  intro ts
  induction ts with
  | nil => intro terms _ _ _; simp [xsideOut]
  | cons t rest ih =>
    intro terms hid hnd hnew
    rw [List.map_cons, List.nodup_cons] at hnd
    rw [List.map_cons, List.foldl_cons,
      termStep_xterm sign terms t (hid t (by simp)).1 (hid t (by simp)).2 (hnew t (by simp)),
      ih _ (fun u hu => hid u (by simp [hu])) hnd.2]
    · simp [xsideOut]
    · intro u hu
      simp only [List.map_append, List.map_cons, List.map_nil, List.mem_append, List.mem_singleton]
      rintro (hm | hm)
      · exact hnew u (by simp [hu]) hm
      · exact hnd.1 (hm ▸ List.mem_map.mpr ⟨u, hu, rfl⟩)

/-- `a A,g + b B,l -> c C,s` without spaces -/
def xprintCharsNS (L R : List XTerm) : List Char :=
  joinPlus (L.map xtermCharsNS) ++ '-' :: '>' :: joinPlus (R.map xtermCharsNS)

/-- the phase-tagged grammar: parsing the printed reaction returns the printed terms with their
phases (reactants negated, then products) -/
theorem str2terms_xprint (L R : List XTerm) (hL : L ≠ []) (hR : R ≠ [])
    (hid : ∀ t ∈ L ++ R, IdentLike t.2.1 ∧ (phaseCode t.2.2).isSome = true)
    (hnd : ((L ++ R).map (·.2.1)).Nodup) :
    str2terms true (String.ofList (xprintCharsNS L R)) = some (.ok (xsideOut (-1) L ++ xsideOut 1 R)) := by
  have hidL : ∀ t ∈ L, IdentLike t.2.1 ∧ (phaseCode t.2.2).isSome = true := fun t ht => hid t (by simp [ht])
  have hidR : ∀ t ∈ R, IdentLike t.2.1 ∧ (phaseCode t.2.2).isSome = true := fun t ht => hid t (by simp [ht])
  rw [List.map_append, List.nodup_append] at hnd
  obtain ⟨hndL, hndR, hdisj⟩ := hnd
  have hclean : ∀ (x : Char), x.isAlphanum = false → x ≠ '.' → x ≠ ',' → x ≠ '+' →
      ∀ ts : List XTerm, (∀ t ∈ ts, IdentLike t.2.1 ∧ (phaseCode t.2.2).isSome = true) →
      x ∉ joinPlus (ts.map xtermCharsNS) := by
    intro x hx h1 h2 h3 ts h
    refine mem_joinPlus x h3 _ ?_
    intro c hc
    obtain ⟨t, ht, rfl⟩ := List.mem_map.mp hc
    exact xtermCharsNS_clean t (h t ht).1 (h t ht).2 x hx h1 h2
  have hplus : ∀ ts : List XTerm, (∀ t ∈ ts, IdentLike t.2.1 ∧ (phaseCode t.2.2).isSome = true) →
      ∀ c ∈ ts.map xtermCharsNS, '+' ∉ c := by
    intro ts h c hc
    obtain ⟨t, ht, rfl⟩ := List.mem_map.mp hc
    exact xtermCharsNS_clean t (h t ht).1 (h t ht).2 '+' (by decide) (by decide) (by decide)
  have hsp : ' ' ∉ xprintCharsNS L R := by
    unfold xprintCharsNS
    simp only [List.mem_append, List.mem_cons, not_or]
    exact ⟨hclean ' ' (by decide) (by decide) (by decide) (by decide) L hidL, by decide, by decide,
      hclean ' ' (by decide) (by decide) (by decide) (by decide) R hidR⟩
  unfold str2terms
  rw [String.toList_ofList]
  have hf : List.filter (fun x => x != ' ') (xprintCharsNS L R) = xprintCharsNS L R := noSp_self _ hsp
  simp only [hf]
  unfold xprintCharsNS
  rw [splitArrow_two _ _ (hclean '-' (by decide) (by decide) (by decide) (by decide) L hidL)
    (hclean '-' (by decide) (by decide) (by decide) (by decide) R hidR)]
  simp only [sideTerms]
  rw [splitChar_joinPlus _ (by simpa using hL) (hplus L hidL),
    splitChar_joinPlus _ (by simpa using hR) (hplus R hidR),
    foldl_termStep_x (-1) L [] hidL hndL (by intro t _; simp), List.nil_append,
    foldl_termStep_x 1 R _ hidR hndR]
  intro t ht
  have : (xsideOut (-1) L).map (·.1) = L.map (·.2.1) := by simp [xsideOut]
  rw [this]
  intro hm
  exact hdisj _ hm _ (List.mem_map.mpr ⟨t, ht, rfl⟩) rfl

end ThermoVerif.Reaction
