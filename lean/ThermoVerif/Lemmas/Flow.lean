import Mathlib.Tactic.Ring
import Mathlib.Tactic.Linarith
import ThermoVerif.Model.Flow
/-
Helper lemmas for the C01 theorems: rows read pointwise (`Row.get`), column sums of
phase-row tables, package positions, remapping between packages.
-/
set_option linter.unusedSimpArgs false
set_option linter.unusedVariables false
namespace ThermoVerif.Flow

/-! ### rows, pointwise -/

theorem get_tab (n : Nat) (f : Nat → Rat) (k : Nat) :
    (tab n f).get k = if k < n then f k else 0 := by
  unfold tab Row.get
  rw [List.getD_eq_getElem?_getD, List.getElem?_map]
  by_cases h : k < n
  · simp [h]
  · have : (List.range n)[k]? = none := by
      apply List.getElem?_eq_none; simp; omega
    simp [h]

theorem get_tab_lt {n : Nat} {f : Nat → Rat} {k : Nat} (h : k < n) : (tab n f).get k = f k := by
  rw [get_tab, if_pos h]

theorem get_vzero (n k : Nat) : (vzero n).get k = 0 := by
  unfold vzero; rw [get_tab]; split <;> rfl

theorem get_vadd {n k : Nat} (h : k < n) (a b : Row) : (vadd n a b).get k = a.get k + b.get k := by
  unfold vadd; rw [get_tab_lt h]

theorem get_vsub {n k : Nat} (h : k < n) (a b : Row) : (vsub n a b).get k = a.get k - b.get k := by
  unfold vsub; rw [get_tab_lt h]

theorem get_vscale {n k : Nat} (h : k < n) (q : Rat) (a : Row) : (vscale n q a).get k = a.get k * q := by
  unfold vscale; rw [get_tab_lt h]

theorem get_vdiv {n k : Nat} (h : k < n) (q : Rat) (a : Row) : (vdiv n q a).get k = a.get k / q := by
  unfold vdiv; rw [get_tab_lt h]

theorem get_of_isZero {r : Row} (h : r.isZero = true) (k : Nat) : r.get k = 0 := by
  unfold Row.isZero at h
  unfold Row.get
  rw [List.getD_eq_getElem?_getD]
  cases hk : r[k]? with
  | none => rfl
  | some v =>
    have hm : v ∈ r := List.mem_of_getElem? hk
    have := (List.all_eq_true.mp h) v hm
    simpa using this

/-! ### sums -/

@[simp] theorem rsum_nil : rsum [] = 0 := rfl
@[simp] theorem rsum_cons (x : Rat) (xs : List Rat) : rsum (x :: xs) = x + rsum xs := rfl

theorem rsum_append (a b : List Rat) : rsum (a ++ b) = rsum a + rsum b := by
  induction a with
  | nil => simp
  | cons x xs ih => simp [ih]; ring

theorem rsum_map_add {α : Type} (l : List α) (f g : α → Rat) :
    rsum (l.map (fun x => f x + g x)) = rsum (l.map f) + rsum (l.map g) := by
  induction l with
  | nil => simp
  | cons x xs ih => simp [ih]; ring

theorem rsum_map_sub {α : Type} (l : List α) (f g : α → Rat) :
    rsum (l.map (fun x => f x - g x)) = rsum (l.map f) - rsum (l.map g) := by
  induction l with
  | nil => simp
  | cons x xs ih => simp [ih]; ring

theorem rsum_map_mul_right {α : Type} (l : List α) (f : α → Rat) (q : Rat) :
    rsum (l.map (fun x => f x * q)) = rsum (l.map f) * q := by
  induction l with
  | nil => simp
  | cons x xs ih => simp [ih]; ring

theorem rsum_map_div {α : Type} (l : List α) (f : α → Rat) (q : Rat) :
    rsum (l.map (fun x => f x / q)) = rsum (l.map f) / q := by
  induction l with
  | nil => simp
  | cons x xs ih => simp [ih]; ring

theorem rsum_map_zero {α : Type} (l : List α) (f : α → Rat) (h : ∀ x ∈ l, f x = 0) :
    rsum (l.map f) = 0 := by
  induction l with
  | nil => simp
  | cons x xs ih =>
    simp [h x (by simp), ih (fun y hy => h y (by simp [hy]))]

theorem rsum_map_congr {α : Type} (l : List α) (f g : α → Rat) (h : ∀ x ∈ l, f x = g x) :
    rsum (l.map f) = rsum (l.map g) := by
  induction l with
  | nil => simp
  | cons x xs ih =>
    simp [h x (by simp), ih (fun y hy => h y (by simp [hy]))]

theorem rsum_nonneg (l : List Rat) (h : ∀ x ∈ l, 0 ≤ x) : 0 ≤ rsum l := by
  induction l with
  | nil => simp
  | cons x xs ih =>
    have h1 := h x (by simp)
    have h2 := ih (fun y hy => h y (by simp [hy]))
    simp; linarith

theorem rsum_eq_zero_iff (l : List Rat) (h : ∀ x ∈ l, 0 ≤ x) : rsum l = 0 ↔ ∀ x ∈ l, x = 0 := by
  induction l with
  | nil => simp
  | cons x xs ih =>
    have h1 := h x (by simp)
    have hxs : ∀ y ∈ xs, 0 ≤ y := fun y hy => h y (by simp [hy])
    have h2 := rsum_nonneg xs hxs
    constructor
    · intro hs
      simp at hs
      have hx : x = 0 := by linarith
      have hr : rsum xs = 0 := by linarith
      intro y hy
      rcases List.mem_cons.mp hy with rfl | hy
      · exact hx
      · exact (ih hxs).mp hr y hy
    · intro hall
      simp [hall x (by simp), (ih hxs).mpr (fun y hy => hall y (by simp [hy]))]

/-- column `k` of a phase-row table, summed over the phases -/
def colsum (l : PhRows) (k : Nat) : Rat := rsum (l.map (fun pr => pr.2.get k))

@[simp] theorem colsum_nil (k : Nat) : colsum [] k = 0 := rfl
@[simp] theorem colsum_cons (p : Char × Row) (l : PhRows) (k : Nat) :
    colsum (p :: l) k = p.2.get k + colsum l k := rfl

theorem colsum_append (a b : PhRows) (k : Nat) : colsum (a ++ b) k = colsum a k + colsum b k := by
  unfold colsum; rw [List.map_append, rsum_append]

theorem get_vsum {n k : Nat} (h : k < n) (rows : List Row) :
    (vsum n rows).get k = rsum (rows.map (·.get k)) := by
  induction rows with
  | nil => simp [vsum, get_vzero]
  | cons r rs ih => simp [vsum, get_vadd h, ih]

theorem get_total {n k : Nat} (h : k < n) (s : Strm) : (s.total n).get k = colsum s.ph k := by
  unfold Strm.total Strm.rows colsum
  rw [get_vsum h, List.map_map]; rfl

theorem colsum_of_isEmpty {s : Strm} (h : s.isEmpty = true) (k : Nat) : colsum s.ph k = 0 := by
  unfold Strm.isEmpty at h
  unfold colsum
  apply rsum_map_zero
  intro pr hpr
  exact get_of_isZero ((List.all_eq_true.mp h) pr hpr) k

theorem colsum_map_zero (l : PhRows) (n k : Nat) :
    colsum (l.map (fun pr => (pr.1, vzero n))) k = 0 := by
  unfold colsum; rw [List.map_map]
  apply rsum_map_zero; intro x _; simp [get_vzero]

/-! ### packages -/

theorem pos_lt {P : List Nat} {c k : Nat} (h : pos P c = some k) : k < P.length := by
  induction P generalizing k with
  | nil => simp [pos] at h
  | cons a l ih =>
    unfold pos at h
    split at h
    · cases h; simp
    · cases hl : pos l c with
      | none => simp [hl] at h
      | some j => simp [hl] at h; subst h; have := ih hl; simp; omega

theorem pos_getD {P : List Nat} {c k : Nat} (h : pos P c = some k) : P.getD k 0 = c := by
  induction P generalizing k with
  | nil => simp [pos] at h
  | cons a l ih =>
    unfold pos at h
    split at h
    · cases h; simpa
    · cases hl : pos l c with
      | none => simp [hl] at h
      | some j => simp [hl] at h; subst h; simpa using ih hl

theorem pos_none_iff {P : List Nat} {c : Nat} : pos P c = none ↔ c ∉ P := by
  induction P with
  | nil => simp [pos]
  | cons a l ih =>
    unfold pos
    by_cases h : a = c
    · simp [h]
    · have h' : ¬ c = a := fun e => h e.symm
      simp [h, h', ih]

theorem pos_isSome_iff {P : List Nat} {c : Nat} : (pos P c).isSome = true ↔ c ∈ P := by
  rw [← not_iff_not]; simp [pos_none_iff]

/-- in a package without repeated chemicals the chemical at position `k` is found at `k` -/
theorem pos_getD_of_nodup {P : List Nat} (hP : P.Nodup) {k : Nat} (hk : k < P.length) :
    pos P (P.getD k 0) = some k := by
  induction P generalizing k with
  | nil => simp at hk
  | cons a l ih =>
    cases k with
    | zero => simp [pos]
    | succ j =>
      have hj : j < l.length := by simpa using hk
      have hnd := List.nodup_cons.mp hP
      have hmem : l.getD j 0 ∈ l := by
        rw [List.getD_eq_getElem?_getD, List.getElem?_eq_getElem hj]; simp
      have hne : a ≠ l.getD j 0 := fun e => hnd.1 (e ▸ hmem)
      simp only [List.getD_cons_succ, pos, if_neg hne, ih hnd.2 hj]; rfl

/-- what `remap` puts at the position of chemical `c` -/
theorem get_remap {P Q : List Nat} {c k : Nat} (r : Row) (h : pos P c = some k) :
    (remap P Q r).get k = match pos Q c with | some j => r.get j | none => 0 := by
  unfold remap
  rw [get_tab_lt (pos_lt h), pos_getD h]
  rfl

theorem lacks_false {P Q : List Nat} {r : Row} (h : lacks P Q r = false) {c j : Nat}
    (hQ : pos Q c = some j) (hP : pos P c = none) : r.get j = 0 := by
  unfold lacks at h
  have := List.any_eq_false.mp h j (by simp; exact pos_lt hQ)
  rw [pos_getD hQ, hP] at this
  simpa using this

theorem lacks_true {P Q : List Nat} {r : Row} (hQn : Q.Nodup) (h : lacks P Q r = true) :
    ∃ c j, pos Q c = some j ∧ pos P c = none ∧ r.get j ≠ 0 := by
  unfold lacks at h
  obtain ⟨j, hj, hb⟩ := List.any_eq_true.mp h
  simp at hj hb
  refine ⟨Q.getD j 0, j, ?_, ?_, hb.1⟩
  · exact pos_getD_of_nodup hQn hj
  · simpa using hb.2

/-! ### phase tables -/

theorem hasPh_cons (x : Char × Row) (l : PhRows) (q : Char) :
    hasPh (x :: l) q = (x.1 == q || hasPh l q) := by
  simp [hasPh]

theorem hasPh_addAt (n : Nat) (p : Char) (v : Row) (l : PhRows) (q : Char) :
    hasPh (addAt n p v l) q = hasPh l q := by
  induction l with
  | nil => rfl
  | cons x l ih =>
    obtain ⟨a, s⟩ := x
    unfold addAt
    split
    · simp [hasPh_cons]
    · simp [hasPh_cons, ih]

theorem colsum_addAt {n k : Nat} (hk : k < n) (p : Char) (v : Row) {l : PhRows}
    (h : hasPh l p = true) : colsum (addAt n p v l) k = colsum l k + v.get k := by
  induction l with
  | nil => simp [hasPh] at h
  | cons x l ih =>
    obtain ⟨a, s⟩ := x
    unfold addAt
    by_cases ha : (a == p) = true
    · simp [ha, get_vadd hk]; ring
    · have h' : hasPh l p = true := by
        rw [hasPh_cons] at h; simpa [ha] using h
      simp [ha, ih h']; ring

theorem hasPh_subAt (n : Nat) (p : Char) (v : Row) (l : PhRows) (q : Char) :
    hasPh (subAt n p v l) q = hasPh l q := by
  induction l with
  | nil => rfl
  | cons x l ih =>
    obtain ⟨a, s⟩ := x
    unfold subAt
    split
    · simp [hasPh_cons]
    · simp [hasPh_cons, ih]

theorem colsum_subAt {n k : Nat} (hk : k < n) (p : Char) (v : Row) {l : PhRows}
    (h : hasPh l p = true) : colsum (subAt n p v l) k = colsum l k - v.get k := by
  induction l with
  | nil => simp [hasPh] at h
  | cons x l ih =>
    obtain ⟨a, s⟩ := x
    unfold subAt
    by_cases ha : (a == p) = true
    · simp [ha, get_vsub hk]; ring
    · have h' : hasPh l p = true := by
        rw [hasPh_cons] at h; simpa [ha] using h
      simp [ha, ih h']; ring

theorem resolve_hasPh {l : PhRows} {p q : Char} (h : resolve l p = some q) : hasPh l q = true := by
  unfold resolve at h
  split at h
  · cases h; assumption
  · split at h
    · cases h; assumption
    · cases h

theorem resolve_congr {l l' : PhRows} (h : ∀ q, hasPh l q = hasPh l' q) (p : Char) :
    resolve l p = resolve l' p := by
  unfold resolve; rw [h p, h (swapc p)]

theorem resolve_of_hasPh {l : PhRows} {p : Char} (h : hasPh l p = true) : resolve l p = some p := by
  unfold resolve; simp [h]

theorem hasPh_insPh (p : Char) (r : Row) (l : PhRows) (q : Char) :
    hasPh (insPh p r l) q = (p == q || hasPh l q) := by
  induction l with
  | nil => simp [insPh, hasPh]
  | cons x l ih =>
    obtain ⟨a, s⟩ := x
    unfold insPh
    split
    · simp [hasPh_cons]
    · simp only [hasPh_cons, ih]
      cases (a == q) <;> cases (p == q) <;> simp

theorem colsum_insPh (p : Char) (r : Row) (l : PhRows) (k : Nat) :
    colsum (insPh p r l) k = r.get k + colsum l k := by
  induction l with
  | nil => simp [insPh]
  | cons x l ih =>
    obtain ⟨a, s⟩ := x
    unfold insPh
    split
    · simp
    · simp [ih]; ring

theorem hasPh_expand_mono (n : Nat) (l : PhRows) (ps : List Char) (q : Char)
    (h : hasPh l q = true) : hasPh (expand n l ps) q = true := by
  induction ps with
  | nil => simpa [expand]
  | cons p ps ih =>
    simp only [expand]
    split
    · exact ih
    · rw [hasPh_insPh, ih]; simp

theorem hasPh_expand_mem (n : Nat) (l : PhRows) (ps : List Char) (q : Char)
    (h : q ∈ ps) : hasPh (expand n l ps) q = true := by
  induction ps with
  | nil => simp at h
  | cons p ps ih =>
    simp only [expand]
    rcases List.mem_cons.mp h with rfl | h
    · split
      · assumption
      · rw [hasPh_insPh]; simp
    · split
      · exact ih h
      · rw [hasPh_insPh, ih h]; simp

theorem colsum_expand (n : Nat) (l : PhRows) (ps : List Char) (k : Nat) :
    colsum (expand n l ps) k = colsum l k := by
  induction ps with
  | nil => simp [expand]
  | cons p ps ih =>
    simp only [expand]
    split
    · exact ih
    · rw [colsum_insPh, get_vzero, ih]; ring

theorem hasPh_map_snd (l : PhRows) (f : Char × Row → Row) (q : Char) :
    hasPh (l.map (fun pr => (pr.1, f pr))) q = hasPh l q := by
  induction l with
  | nil => rfl
  | cons x l ih => simp [hasPh_cons, ih]

theorem hasPh_pour (n : Nat) (base cs : PhRows) (q : Char) :
    hasPh (pour n base cs) q = hasPh base q := by
  induction cs with
  | nil => rfl
  | cons x cs ih =>
    obtain ⟨p, v⟩ := x
    simp only [pour]
    split
    · rw [hasPh_addAt, ih]
    · exact ih

theorem colsum_pour {n k : Nat} (hk : k < n) (base cs : PhRows)
    (hres : ∀ pr ∈ cs, (resolve base pr.1).isSome = true) :
    colsum (pour n base cs) k = colsum base k + colsum cs k := by
  induction cs with
  | nil => simp [pour]
  | cons x cs ih =>
    obtain ⟨p, v⟩ := x
    have ih' := ih (fun pr hpr => hres pr (by simp [hpr]))
    have hp := hres (p, v) (by simp)
    have hc : resolve (pour n base cs) p = resolve base p := resolve_congr (hasPh_pour n base cs) p
    simp only [pour]
    cases hr : resolve base p with
    | none => simp [hr] at hp
    | some q =>
      rw [hc, hr]
      have hq : hasPh (pour n base cs) q = true := by
        rw [hasPh_pour]; exact resolve_hasPh hr
      simp only []
      rw [colsum_addAt hk q v hq, ih']; simp; ring

/-! ### the world -/

theorem bind_ok {ε α β : Type} {x : Except ε α} {f : α → Except ε β} {b : β} :
    (x >>= f) = .ok b ↔ ∃ a, x = .ok a ∧ f a = .ok b := by
  cases x <;> simp [bind, Except.bind]

theorem get?_ok {w : World} {i : Nat} {s : Strm} : w.get? i = .ok s ↔ w.strms[i]? = some s := by
  unfold World.get?
  cases w.strms[i]? <;> simp

theorem pkgOf_setStrm (w : World) (i : Nat) (s t : Strm) : (w.setStrm i s).pkgOf t = w.pkgOf t := rfl

theorem amount_eq (P : List Nat) (s : Strm) (c : Nat) :
    amount P s c = match pos P c with | some k => colsum s.ph k | none => 0 := by
  unfold amount Strm.rows colsum
  cases pos P c with
  | none => rfl
  | some k => simp [List.map_map]; rfl

theorem amount_setStrm_same {w : World} {i : Nat} {s0 : Strm} (h : w.strms[i]? = some s0) (s : Strm) (c : Nat) :
    (w.setStrm i s).amount i c = amount (w.pkgOf s) s c := by
  have hi : i < w.strms.length := by
    rcases Nat.lt_or_ge i w.strms.length with h' | h'
    · exact h'
    · rw [List.getElem?_eq_none h'] at h; cases h
  unfold World.amount World.setStrm
  simp [List.getElem?_set, hi]; rfl

theorem amount_setStrm_other {w : World} {i j : Nat} (h : i ≠ j) (s : Strm) (c : Nat) :
    (w.setStrm i s).amount j c = w.amount j c := by
  unfold World.amount World.setStrm
  simp [List.getElem?_set, h]; rfl

theorem getElem?_setStrm_other {w : World} {i j : Nat} (h : i ≠ j) (s : Strm) :
    (w.setStrm i s).strms[j]? = w.strms[j]? := by
  unfold World.setStrm; simp [List.getElem?_set, h]

theorem getElem?_setStrm_same {w : World} {i : Nat} {s0 : Strm} (h : w.strms[i]? = some s0) (s : Strm) :
    (w.setStrm i s).strms[i]? = some s := by
  have hi : i < w.strms.length := by
    rcases Nat.lt_or_ge i w.strms.length with h' | h'
    · exact h'
    · rw [List.getElem?_eq_none h'] at h; cases h
  unfold World.setStrm; simp [List.getElem?_set, hi]

theorem amount_of_get {w : World} {i : Nat} {s : Strm} (h : w.strms[i]? = some s) (c : Nat) :
    w.amount i c = amount (w.pkgOf s) s c := by
  unfold World.amount; rw [h]

/-- `getAll` reads exactly the listed streams -/
theorem getAll_ok {w : World} {is : List Nat} {ss : List Strm} (h : getAll w is = .ok ss) :
    List.Forall₂ (fun i s => w.strms[i]? = some s) is ss := by
  induction is generalizing ss with
  | nil => simp [getAll] at h; subst h; exact List.Forall₂.nil
  | cons i is ih =>
    unfold getAll at h
    obtain ⟨s, hs, h⟩ := bind_ok.mp h
    obtain ⟨ss', hss, h⟩ := bind_ok.mp h
    cases h
    exact List.Forall₂.cons (get?_ok.mp hs) (ih hss)

theorem rsum_amount_of_forall₂ {w : World} {is : List Nat} {ss : List Strm}
    (h : List.Forall₂ (fun i s => w.strms[i]? = some s) is ss) (c : Nat) :
    rsum (is.map (fun i => w.amount i c)) = rsum (ss.map (fun s => amount (w.pkgOf s) s c)) := by
  induction h with
  | nil => rfl
  | cons hd _ ih => simp [amount_of_get hd, ih]

/-! ### mixing -/

/-- column of chemical `c` in a table written in the coordinates of package `P` -/
def key (P : List Nat) (cs : PhRows) (c : Nat) : Rat :=
  match pos P c with
  | some k => colsum cs k
  | none => 0

theorem key_append (P : List Nat) (a b : PhRows) (c : Nat) : key P (a ++ b) c = key P a c + key P b c := by
  unfold key
  cases pos P c with
  | none => simp
  | some k => simp [colsum_append]

theorem amount_eq_key (P : List Nat) (s : Strm) (c : Nat) : amount P s c = key P s.ph c := amount_eq P s c

theorem pkgOf_eq_of_pkg {w : World} {s t : Strm} (h : s.pkg = t.pkg) : w.pkgOf s = w.pkgOf t := by
  unfold World.pkgOf; rw [h]

theorem colsum_map_remap {P Q : List Nat} {c k : Nat} (l : PhRows) (h : pos P c = some k) :
    colsum (l.map (fun pr => (pr.1, remap P Q pr.2))) k = key Q l c := by
  unfold colsum key
  rw [List.map_map]
  cases hq : pos Q c with
  | none =>
    apply rsum_map_zero
    intro pr _
    simp [get_remap _ h, hq]
  | some j =>
    apply rsum_map_congr
    intro pr _
    simp [get_remap _ h, hq]

/-- what an inlet contributes to the receiver is exactly what it holds, chemical by chemical -/
theorem contribs_key {w : World} {r x : Strm} {cx : PhRows} (h : contribs w r x = .ok cx) (c : Nat) :
    key (w.pkgOf r) cx c = amount (w.pkgOf x) x c := by
  unfold contribs at h
  rw [amount_eq_key]
  by_cases hp : x.pkg = r.pkg
  · simp [hp] at h; subst h
    rw [pkgOf_eq_of_pkg hp]
  · simp only [hp, if_false] at h
    by_cases hbad : contribBad w r x = true
    · simp [hbad] at h
    · simp only [hbad] at h
      cases h
      simp only [Bool.not_eq_true] at hbad
      unfold contribBad at hbad
      cases hP : pos (w.pkgOf r) c with
      | some k =>
        unfold key; rw [hP]
        exact colsum_map_remap x.ph hP
      | none =>
        have : key (w.pkgOf r) (x.ph.map (fun pr => (pr.1, remap (w.pkgOf r) (w.pkgOf x) pr.2))) c = 0 := by
          unfold key; rw [hP]
        rw [this]
        unfold key
        cases hQ : pos (w.pkgOf x) c with
        | none => rfl
        | some j =>
          symm
          simp only []
          by_cases hk : (r.multi || !x.multi) = true
          · simp only [hk, if_true] at hbad
            unfold colsum
            apply rsum_map_zero
            intro pr hpr
            have hf : lacks (w.pkgOf r) (w.pkgOf x) pr.2 = false := by
              have := List.any_eq_false.mp hbad pr hpr
              simpa using this
            exact lacks_false hf hQ hP
          · simp only [hk] at hbad
            have := lacks_false hbad hQ hP
            rwa [get_total (pos_lt hQ)] at this

theorem contribsAll_key {w : World} {r : Strm} {xs : List Strm} {cs : PhRows}
    (h : contribsAll w r xs = .ok cs) (c : Nat) :
    key (w.pkgOf r) cs c = rsum (xs.map (fun x => amount (w.pkgOf x) x c)) := by
  induction xs generalizing cs with
  | nil => simp [contribsAll] at h; subst h; simp [key]; cases pos (w.pkgOf r) c <;> rfl
  | cons x xs ih =>
    unfold contribsAll at h
    obtain ⟨cx, hcx, h⟩ := bind_ok.mp h
    obtain ⟨cs', hcs, h⟩ := bind_ok.mp h
    cases h
    rw [key_append, contribs_key hcx, ih hcs]; simp

theorem mixIndexer_amount {w : World} {r r' : Strm} {xs : List Strm}
    (h : mixIndexer w r xs = .ok r') (c : Nat) :
    r'.pkg = r.pkg ∧ amount (w.pkgOf r) r' c = rsum (xs.map (fun x => amount (w.pkgOf x) x c)) := by
  unfold mixIndexer at h
  obtain ⟨cs, hcs, h⟩ := bind_ok.mp h
  rw [← contribsAll_key hcs c, amount_eq_key]
  by_cases hm : r.multi = true
  · simp only [hm, if_true] at h
    cases h
    refine ⟨rfl, ?_⟩
    unfold key
    cases hP : pos (w.pkgOf r) c with
    | none => rfl
    | some k =>
      simp only []
      have hk := pos_lt hP
      rw [colsum_pour hk, colsum_map_zero]; · simp
      intro pr hpr
      have hmem : pr.1 ∈ cs.map (·.1) := List.mem_map_of_mem hpr
      rw [resolve_congr (hasPh_map_snd _ (fun _ => vzero (w.pkgOf r).length)) pr.1]
      split
      · rename_i hnew
        rw [resolve_of_hasPh (hasPh_expand_mem _ _ _ _ hmem)]; rfl
      · rename_i hnew
        simp only [Bool.not_eq_true] at hnew
        have := List.any_eq_false.mp hnew pr.1 hmem
        cases hr : resolve r.ph pr.1 with
        | none => simp [hr] at this
        | some q => rfl
  · simp only [hm] at h
    cases h
    refine ⟨rfl, ?_⟩
    unfold key
    cases hP : pos (w.pkgOf r) c with
    | none => rfl
    | some k =>
      simp only [colsum_cons, colsum_nil]
      rw [get_vsum (pos_lt hP), List.map_map]; simp [colsum]; rfl

/-! ### one row, keyed by chemical -/

/-- entry of chemical `c` in a row written in the coordinates of package `P` -/
def rowKey (P : List Nat) (r : Row) (c : Nat) : Rat :=
  match pos P c with
  | some k => r.get k
  | none => 0

theorem key_eq_rsum (P : List Nat) (l : PhRows) (c : Nat) :
    key P l c = rsum (l.map (fun pr => rowKey P pr.2 c)) := by
  unfold key rowKey colsum
  cases pos P c with
  | none => symm; apply rsum_map_zero; intro _ _; rfl
  | some k => rfl

theorem key_cons (P : List Nat) (x : Char × Row) (l : PhRows) (c : Nat) :
    key P (x :: l) c = rowKey P x.2 c + key P l c := by
  rw [key_eq_rsum, key_eq_rsum]; rfl

theorem key_nil (P : List Nat) (c : Nat) : key P [] c = 0 := by
  rw [key_eq_rsum]; rfl

/-- remapping a row to another package keeps every chemical's entry, provided the target package
knows every chemical the row carries -/
theorem rowKey_remap {P Q : List Nat} {r : Row} (h : lacks P Q r = false) (c : Nat) :
    rowKey P (remap P Q r) c = rowKey Q r c := by
  unfold rowKey
  cases hP : pos P c with
  | some k => simp only []; rw [get_remap r hP]
  | none =>
    cases hQ : pos Q c with
    | none => rfl
    | some j => simp only []; exact (lacks_false h hQ hP).symm

theorem rowKey_tab_get {P : List Nat} (r : Row) (c : Nat) : rowKey P (tab P.length r.get) c = rowKey P r c := by
  unfold rowKey
  cases hP : pos P c with
  | none => rfl
  | some k => simp only []; rw [get_tab_lt (pos_lt hP)]

theorem rowKey_total (P : List Nat) (s : Strm) (c : Nat) : rowKey P (s.total P.length) c = key P s.ph c := by
  unfold rowKey key
  cases hP : pos P c with
  | none => rfl
  | some k => simp only []; exact get_total (pos_lt hP) s

theorem rowKey_vsub (P : List Nat) (a b : Row) (c : Nat) :
    rowKey P (vsub P.length a b) c = rowKey P a c - rowKey P b c := by
  unfold rowKey
  cases hP : pos P c with
  | none => simp
  | some k => simp only []; exact get_vsub (pos_lt hP) a b

theorem rowKey_vzero (P : List Nat) (n : Nat) (c : Nat) : rowKey P (vzero n) c = 0 := by
  unfold rowKey; cases pos P c <;> simp [get_vzero]

theorem lacks_of {P Q : List Nat} {r : Row} {c j : Nat} (hQ : pos Q c = some j) (hP : pos P c = none)
    (hr : r.get j ≠ 0) : lacks P Q r = true := by
  unfold lacks
  apply List.any_eq_true.mpr
  refine ⟨j, by simp; exact pos_lt hQ, ?_⟩
  rw [pos_getD hQ, hP]; simpa using hr

/-! ### rows crossing packages -/

theorem rowKey_conv {P Q : List Nat} {same : Bool} {v : Row} (hs : same = true → P = Q)
    (hb : convBad P Q same v = false) (c : Nat) : rowKey P (conv P Q same v) c = rowKey Q v c := by
  unfold conv
  cases same with
  | true => simp [hs rfl]
  | false =>
    unfold convBad at hb
    simp at hb
    simp [rowKey_remap hb]

theorem rowKey_of_isZero {P : List Nat} {r : Row} (h : r.isZero = true) (c : Nat) : rowKey P r c = 0 := by
  unfold rowKey; cases pos P c with
  | none => rfl
  | some k => exact get_of_isZero h k

/-! ### separating -/

theorem key_subAt (P : List Nat) (q : Char) (v : Row) {l : PhRows} (h : hasPh l q = true) (c : Nat) :
    key P (subAt P.length q v l) c = key P l c - rowKey P v c := by
  unfold key rowKey
  cases hP : pos P c with
  | none => simp
  | some k => simp only []; exact colsum_subAt (pos_lt hP) q v h

theorem key_addAt (P : List Nat) (q : Char) (v : Row) {l : PhRows} (h : hasPh l q = true) (c : Nat) :
    key P (addAt P.length q v l) c = key P l c + rowKey P v c := by
  unfold key rowKey
  cases hP : pos P c with
  | none => simp
  | some k => simp only []; exact colsum_addAt (pos_lt hP) q v h

theorem sepRows_key {P Q : List Nat} {same skip : Bool} (hs : same = true → P = Q)
    {ys acc acc' : PhRows} (h : sepRows P Q same skip acc ys = .ok acc') (c : Nat) :
    key P acc' c = key P acc c - key Q ys c := by
  induction ys generalizing acc with
  | nil => simp [sepRows] at h; subst h; simp [key_nil]
  | cons y ys ih =>
    obtain ⟨p, v⟩ := y
    rw [key_cons]
    unfold sepRows at h
    split at h
    · rename_i hz
      simp at hz
      rw [ih h, rowKey_of_isZero hz.2]; ring
    · split at h
      · cases h
      · rename_i hbad
        simp only [Bool.not_eq_true] at hbad
        split at h
        · cases h
        · rename_i q hq
          rw [ih h, key_subAt P q _ (resolve_hasPh hq), rowKey_conv hs hbad]; ring

theorem key_subZip (P : List Nat) (l : PhRows) (vs : List Row) (hlen : l.length = vs.length) (c : Nat) :
    key P (subZip P.length l vs) c = key P l c - rsum (vs.map (fun v => rowKey P v c)) := by
  induction l generalizing vs with
  | nil => cases vs with
    | nil => simp [subZip, key_nil]
    | cons v vs => simp at hlen
  | cons x l ih =>
    obtain ⟨p, s⟩ := x
    cases vs with
    | nil => simp at hlen
    | cons v vs =>
      have hl : l.length = vs.length := by simpa using hlen
      simp only [subZip, key_cons, List.map_cons, rsum_cons, ih vs hl, rowKey_vsub]; ring

theorem sepStrm_key {P Q : List Nat} {same : Bool} (hs : same = true → P = Q) {x y x' : Strm}
    (h : sepStrm P Q same x y = .ok x') (c : Nat) :
    x'.pkg = x.pkg ∧ key P x'.ph c = key P x.ph c - key Q y.ph c := by
  unfold sepStrm at h
  simp only [] at h
  split at h
  · -- single-phase `x`
    split at h
    · cases h
    · rename_i hbad
      simp only [Bool.not_eq_true] at hbad
      cases h
      refine ⟨rfl, ?_⟩
      simp only [key_cons, key_nil, rowKey_vsub, rowKey_total, rowKey_conv hs hbad]; ring
  · split at h
    · rename_i hph
      split at h
      · cases h
      · rename_i hbad
        simp only [Bool.not_eq_true] at hbad
        cases h
        refine ⟨rfl, ?_⟩
        have hlen : x.ph.length = (y.rows.map (conv P Q same)).length := by
          simp at hph
          have := congrArg List.length hph.2
          simpa [Strm.rows] using this
        rw [key_subZip P _ _ hlen, key_eq_rsum Q]
        simp only [Strm.rows, List.map_map]
        congr 1
        apply rsum_map_congr
        intro pr hpr
        have := List.any_eq_false.mp hbad pr hpr
        simp only [Function.comp]
        exact rowKey_conv hs (by simpa using this) c
    · obtain ⟨ph', hph', h⟩ := bind_ok.mp h
      cases h
      exact ⟨rfl, sepRows_key hs hph' c⟩

/-! ### splitting -/

/-- the split fraction of chemical `c` (feed package `Q`) -/
def splKey (Q : List Nat) (sp : Split) (c : Nat) : Rat :=
  match pos Q c with
  | some k => sp.at k
  | none => 0

theorem rowKey_splitTop (Q : List Nat) (sp : Split) (m : Row) (c : Nat) :
    rowKey Q (splitTop Q.length sp m) c = rowKey Q m c * splKey Q sp c := by
  unfold rowKey splKey splitTop
  cases hQ : pos Q c with
  | none => simp
  | some k => simp only []; rw [get_tab_lt (pos_lt hQ)]

theorem rowKey_splitBot (Q : List Nat) (sp : Split) (m : Row) (c : Nat) :
    rowKey Q (splitBot Q.length sp m) c = rowKey Q m c - rowKey Q m c * splKey Q sp c := by
  unfold rowKey splKey splitBot
  cases hQ : pos Q c with
  | none => simp
  | some k => simp only []; rw [get_tab_lt (pos_lt hQ)]

theorem key_map_splitTop (Q : List Nat) (sp : Split) (l : PhRows) (c : Nat) :
    key Q (l.map (fun pr => (pr.1, splitTop Q.length sp pr.2))) c = key Q l c * splKey Q sp c := by
  rw [key_eq_rsum, key_eq_rsum, List.map_map, ← rsum_map_mul_right]
  apply rsum_map_congr
  intro pr _
  simp [rowKey_splitTop]

theorem key_map_splitBot (Q : List Nat) (sp : Split) (l : PhRows) (c : Nat) :
    key Q (l.map (fun pr => (pr.1, splitBot Q.length sp pr.2))) c = key Q l c - key Q l c * splKey Q sp c := by
  rw [key_eq_rsum, key_eq_rsum, List.map_map, ← rsum_map_mul_right, ← rsum_map_sub]
  apply rsum_map_congr
  intro pr _
  simp [rowKey_splitBot]

theorem putPhases_key {P Q : List Nat} {same : Bool} (hs : same = true → P = Q) {l l' : PhRows}
    (h : putPhases P Q same l = .ok l') (c : Nat) : key P l' c = key Q l c := by
  induction l generalizing l' with
  | nil => simp [putPhases] at h; subst h; simp [key_nil]
  | cons x l ih =>
    obtain ⟨p, v⟩ := x
    unfold putPhases at h
    split at h
    · cases h
    · rename_i hbad
      simp only [Bool.not_eq_true] at hbad
      obtain ⟨rs, hrs, h⟩ := bind_ok.mp h
      cases h
      rw [key_cons, key_cons, ih hrs, rowKey_tab_get, rowKey_conv hs hbad]

theorem putSingle_key {P Q : List Nat} {same : Bool} (hs : same = true → P = Q) {o o' : Strm} {v : Row}
    (h : putSingle P Q same o v = .ok o') (c : Nat) : o'.pkg = o.pkg ∧ key P o'.ph c = rowKey Q v c := by
  unfold putSingle at h
  split at h
  · cases h
  · rename_i hbad
    simp only [Bool.not_eq_true] at hbad
    cases h
    exact ⟨rfl, by simp only [key_cons, key_nil, rowKey_tab_get, rowKey_conv hs hbad]; ring⟩

theorem key_zeroed (P : List Nat) (s : Strm) (n : Nat) (c : Nat) : key P (s.zeroed n).ph c = 0 := by
  unfold Strm.zeroed key
  cases pos P c with
  | none => rfl
  | some k => exact colsum_map_zero s.ph n k

theorem putOutlet_key {P Q : List Nat} {same : Bool} (hs : same = true → P = Q) {fphase : Char} {relabel : Bool}
    {o o' : Strm} {v : Row} (h : putOutlet P Q same fphase relabel o v = .ok o') (c : Nat) : o'.pkg = o.pkg ∧ key P o'.ph c = rowKey Q v c := by
  unfold putOutlet at h
  split at h
  · exact putSingle_key hs h c
  · exact putSingle_key hs h c

theorem setPhases_pkg {n : Nat} {s s' : Strm} {phases : List Char} (h : setPhases n s phases = .ok s') :
    s'.pkg = s.pkg := by
  unfold setPhases at h
  split at h
  · cases h; rfl
  · obtain ⟨ph', _, h⟩ := bind_ok.mp h
    cases h; rfl

/-! ### copying flow -/

theorem get_overwrite {n k : Nat} (h : k < n) (K : List Nat) (dst src : Row) :
    (overwrite n K dst src).get k = if K.contains k then src.get k else dst.get k := by
  unfold overwrite; rw [get_tab_lt h]

theorem get_zeroAt {n k : Nat} (h : k < n) (K : List Nat) (r : Row) :
    (zeroAt n K r).get k = if K.contains k then 0 else r.get k := by
  unfold zeroAt; rw [get_tab_lt h]

theorem get_keepAt {n k : Nat} (h : k < n) (K : List Nat) (r : Row) :
    (keepAt n K r).get k = if K.contains k then r.get k else 0 := by
  unfold keepAt; rw [get_tab_lt h]

theorem positions_lt {Q : List Nat} {cs K : List Nat} (h : positions Q cs = .ok K) : ∀ k ∈ K, k < Q.length := by
  induction cs generalizing K with
  | nil => simp [positions] at h; subst h; simp
  | cons c cs ih =>
    unfold positions at h
    cases hc : pos Q c with
    | none => simp [hc, bind, Except.bind] at h
    | some k0 =>
      simp only [hc] at h
      obtain ⟨ks, hks, h⟩ := bind_ok.mp h
      cases h
      intro k hk
      rcases List.mem_cons.mp hk with rfl | hk
      · exact pos_lt hc
      · exact ih hks k hk

theorem complement_lt (m : Nat) (bad : List Nat) : ∀ k ∈ complement m bad, k < m := by
  intro k hk
  unfold complement at hk
  have := (List.mem_filter.mp hk).1
  simpa using this

theorem selection_lt {Q : List Nat} {ids : IDs} {ex : Bool} {K : List Nat}
    (h : selection Q ids ex = .ok (.some K)) : ∀ k ∈ K, k < Q.length := by
  unfold selection at h
  cases ids with
  | all => simp only [] at h; split at h <;> cases h
  | one c =>
    simp only [] at h
    cases hc : pos Q c with
    | none => rw [hc] at h; simp only [] at h; split at h
              · cases h; exact complement_lt _ _
              · cases h
    | some k0 =>
      rw [hc] at h
      simp only [] at h
      split at h
      · cases h; exact complement_lt _ _
      · cases h; intro k hk; simp at hk; subst hk; exact pos_lt hc
  | many cs =>
    simp only [] at h
    split at h
    · cases h; exact complement_lt _ _
    · obtain ⟨K', hK', h⟩ := bind_ok.mp h
      cases h
      exact positions_lt hK'

end ThermoVerif.Flow
