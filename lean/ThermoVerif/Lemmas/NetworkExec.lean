import ThermoVerif.Lemmas.NetworkInit
/-
Every operation of `World.exec` preserves the per-side invariant.
-/
namespace ThermoVerif.Network

theorem mem_flatten_ids {l : List PortRef} {s : Nat} :
    s ∈ (l.map PortRef.ids).flatten ↔ PortRef.strm s ∈ l := by
  induction l with
  | nil => simp
  | cons a l ih =>
    cases a with
    | idx i => simp [PortRef.ids, ih]
    | strm t => simp [PortRef.ids, ih]

theorem all_filterMap_id {items : List (Option Nat)} {n : Nat}
    (h : (items.filterMap id).all (· < n) = true) : ∀ s, some s ∈ items → s < n := by
  intro s hs
  have hm : s ∈ items.filterMap id := List.mem_filterMap.mpr ⟨some s, hs, rfl⟩
  simpa using List.all_eq_true.mp h s hm

/-- operations that create streams (everything else creates placeholders only) -/
def Op.creates : Op → Bool
  | .newStream => true
  | .newUnit _ _ _ _ _ _ => true
  | _ => false

theorem exec_wstepR {w w' : World} {op : Op} (h : w.exec op = .ok w') (hop : op.creates = false) :
    WStepR (op.ids.all (· < w.nS) = true ∧ op.units.all (· < w.nU) = true) w w' := by
  cases op with
  | newStream => simp [Op.creates] at hop
  | newUnit ni fi ai no fo ao => simp [Op.creates] at hop
  | set k u i s =>
    cases s with
    | some s =>
      simp only [World.exec] at h
      refine (on_wstepR (fun _ => setStream_step) h).weaken (fun hc _ => ?_)
      simpa [Op.ids, Op.units] using hc
    | none =>
      simp only [World.exec] at h
      refine (on_wstepR (fun _ hx => setNone_step hx) h).weaken (fun hc _ => ?_)
      simpa [Op.ids, Op.units] using hc
  | slice k u a b items =>
    simp only [World.exec] at h
    refine (on_wstepR (fun _ => setStreams_step) h).weaken (fun hc _ => ?_)
    exact ⟨by simpa using all_filterMap_id hc.1, by simpa [Op.units] using hc.2⟩
  | sliceAll k u items =>
    simp only [World.exec] at h
    refine (on_wstepR (fun _ => setStreams_step) h).weaken (fun hc _ => ?_)
    exact ⟨by simpa using all_filterMap_id hc.1, by simpa [Op.units] using hc.2⟩
  | insert k u i s =>
    simp only [World.exec] at h
    refine (on_wstepR (fun _ => insertAt_step) h).weaken (fun hc _ => ?_)
    simpa [Op.ids, Op.units] using hc
  | append k u s =>
    simp only [World.exec] at h
    refine (on_wstepR (fun _ => append_step) h).weaken (fun hc _ => ?_)
    simpa [Op.ids, Op.units] using hc
  | extend k u ss =>
    simp only [World.exec] at h
    refine (on_wstepR (fun _ => extend_step) h).weaken (fun hc _ => ?_)
    simpa [Op.ids, Op.units] using hc
  | replace k u s t =>
    cases t with
    | some t =>
      simp only [World.exec] at h
      refine (on_wstepR (fun _ => replace_step) h).weaken (fun hc _ => ?_)
      have := hc
      simp [Op.ids, Op.units] at this
      simpa using ⟨this.1.2, this.2⟩
    | none =>
      simp only [World.exec] at h
      refine (on_wstepR (fun _ hx => replaceNone_step hx) h).weaken (fun hc _ => ?_)
      simpa [Op.ids, Op.units] using hc.2
  | pop k u i =>
    simp only [World.exec] at h
    obtain ⟨⟨sw, s⟩, hp, h⟩ := bind_ok.mp h
    cases h
    refine (put_goodR (pop_step hp)).weaken (fun hc _ => ?_)
    simpa [Op.ids, Op.units] using hc.2
  | remove k u s =>
    simp only [World.exec] at h
    refine (on_wstepR (fun _ => remove_step) h).weaken (fun hc _ => ?_)
    simpa [Op.ids, Op.units] using hc.2
  | clear k u =>
    simp only [World.exec] at h
    refine (on_wstepR (A := u < w.nU) (fun _ hx => by cases hx; exact clear_step _ u) h).weaken
      (fun hc _ => ?_)
    simpa [Op.ids, Op.units] using hc.2
  | empty k u =>
    simp only [World.exec] at h
    refine (on_wstepR (A := u < w.nU) (fun _ hx => by cases hx; exact empty_step _ u) h).weaken
      (fun hc _ => ?_)
    simpa [Op.ids, Op.units] using hc.2
  | dsrc s =>
    simp only [World.exec] at h
    exact (on_wstepR (fun _ => disconnect_step) h).weaken (fun _ _ => trivial)
  | dsnk s =>
    simp only [World.exec] at h
    exact (on_wstepR (fun _ => disconnect_step) h).weaken (fun _ _ => trivial)
  | disc s =>
    simp only [World.exec] at h
    exact (disconnectStream_wstep h).weaken (fun _ _ => trivial)
  | udisc u inl outl join =>
    simp only [World.exec] at h
    refine (disconnectUnit_wstep h).weaken (fun hc _ => ?_)
    obtain ⟨h1, h2⟩ := hc
    simp only [Op.ids, List.all_append, Bool.and_eq_true, List.all_eq_true, decide_eq_true_eq,
      mem_flatten_ids] at h1
    simp only [Op.units, List.all_cons, List.all_nil, Bool.and_true, decide_eq_true_eq] at h2
    refine ⟨h2, ?_, ?_⟩
    · intro l hl s hs; subst hl; exact h1.1 s hs
    · intro l hl s hs; subst hl; exact h1.2 s hs
  | takePlaceOf u o =>
    simp only [World.exec] at h
    refine (takePlaceOf_wstep h).weaken (fun hc _ => ?_)
    have := hc.2
    simp [Op.units] at this
    exact this.1
  | replaceWithNone u =>
    simp only [World.exec] at h
    refine (replaceWithNone_wstep h).weaken (fun hc _ => ?_)
    simpa [Op.units] using hc.2
  | reconnect src s snk =>
    simp only [World.exec] at h
    refine (reconnect_wstep h).weaken (fun hc _ => ?_)
    obtain ⟨h1, h2⟩ := hc
    simp only [Op.ids, List.all_cons, List.all_nil, Bool.and_true, decide_eq_true_eq] at h1
    simp only [Op.units, List.all_append, Bool.and_eq_true, List.all_eq_true, decide_eq_true_eq] at h2
    refine ⟨h1, ?_, ?_⟩
    · intro p hp; subst hp; exact h2.1 _ (by simp)
    · intro p hp; subst hp; exact h2.2 _ (by simp)
  | insertUnit u s inlet outlet =>
    simp only [World.exec] at h
    refine (insertUnit_wstep h).weaken (fun hc _ => ?_)
    obtain ⟨h1, h2⟩ := hc
    simp only [Op.ids, List.all_cons, List.all_append, Bool.and_eq_true, List.all_eq_true,
      decide_eq_true_eq] at h1
    simp only [Op.units, List.all_cons, List.all_nil, Bool.and_true, decide_eq_true_eq] at h2
    refine ⟨h1.1, h2, ?_, ?_⟩
    · intro a ha; subst ha; exact h1.2.1 a (by simp [PortRef.ids])
    · intro a ha; subst ha; exact h1.2.2 a (by simp [PortRef.ids])
  | pipeUU u v =>
    simp only [World.exec] at h
    refine (on_wstepR (fun _ => setStreams_step) h).weaken (fun hc hG => ?_)
    have := hc.2
    simp [Op.units] at this
    exact ⟨by simpa using items_map_some (fun s hs => hG.outs_lt hs), this.2⟩
  | setBack k u j s =>
    cases s with
    | some s =>
      simp only [World.exec] at h
      split at h
      · refine (on_wstepR (fun _ => setStream_step) h).weaken (fun hc _ => ?_)
        simpa [Op.ids, Op.units] using hc
      · cases h
    | none =>
      simp only [World.exec] at h
      split at h
      · refine (on_wstepR (fun _ hx => setNone_step hx) h).weaken (fun hc _ => ?_)
        simpa [Op.ids, Op.units] using hc
      · cases h
  | popBack k u j =>
    simp only [World.exec] at h
    split at h
    · obtain ⟨⟨sw, s⟩, hp, h⟩ := bind_ok.mp h
      cases h
      refine (put_goodR (pop_step hp)).weaken (fun hc _ => ?_)
      simpa [Op.ids, Op.units] using hc.2
    · cases h
  | setOwner u v =>
    simp only [World.exec] at h; cases h
    exact (setOwner_wstep w _).weaken (fun _ _ => trivial)
  | portFrom k x s =>
    simp only [World.exec] at h
    refine (portFrom_wstep h).weaken (fun hc _ => ?_)
    have := hc.1
    simp [Op.ids] at this
    exact this.2
  | streamPorts k xs ss =>
    simp only [World.exec] at h
    refine (streamPorts_wstep h).weaken (fun hc _ s hs => ?_)
    have := hc.1
    simp only [Op.ids, List.all_append, Bool.and_eq_true, List.all_eq_true, decide_eq_true_eq] at this
    exact this.2 s hs

  | streamPort k xs i s =>
    simp only [World.exec] at h
    refine (streamPort_wstep h).weaken (fun hc _ => ?_)
    have := hc.1
    simp [Op.ids] at this
    exact this.1
  | sliceI k u a b items =>
    simp only [World.exec] at h
    refine (on_wstepR (fun _ => setStreams_step) h).weaken (fun hc _ => ?_)
    exact ⟨by simpa using all_filterMap_id hc.1, by simpa [Op.units] using hc.2⟩
  | insertBack k u j s =>
    simp only [World.exec] at h
    refine (on_wstepR (fun _ => insertAt_step) h).weaken (fun hc _ => ?_)
    simpa [Op.ids, Op.units] using hc

theorem exec_wstep {w w' : World} {op : Op} (h : w.exec op = .ok w') :
    WStep (op.ids.all (· < w.nS) = true ∧ op.units.all (· < w.nU) = true) w w' := by
  by_cases hop : op.creates = false
  · exact (exec_wstepR h hop).toWStep
  · cases op with
    | newStream =>
      simp only [World.exec] at h; cases h
      exact (newStream_wstep w).weaken (fun _ _ => trivial)
    | newUnit ni fi ai no fo ao =>
      simp only [World.exec] at h
      cases hr : w.newUnit ni fi ai no fo ao with
      | error e => simp [Except.map, hr] at h
      | ok p =>
        obtain ⟨w2, u⟩ := p
        simp only [Except.map, hr, Except.ok.injEq] at h
        subst h
        refine (newUnit_wstep hr).weaken (fun hc _ => ?_)
        have := hc.1
        simp only [Op.ids, List.all_append, Bool.and_eq_true, List.all_eq_true, decide_eq_true_eq] at this
        exact this
    | _ => simp [Op.creates] at hop

/-! ## What fills a vacated port -/

/-- `seq.remove(s)` (the code path of `disconnect_source/sink`, and of `_redock` when a docked
object is taken over by another unit): the port `s` occupied is filled by a brand-new
placeholder object whose pointer names the unit, `s` itself is undocked, nothing else in the
list changes. -/
theorem remove_spec {nU : Nat} {w w' : SW} {u s : Nat} (hsc : Sc nU w) (h : w.remove u s = .ok w') :
    ∃ i, (w.sd.lst u).idxOf? s = some i ∧ w'.sd.lst u = (w.sd.lst u).set i w.next ∧
      w'.next = w.next + 1 ∧ w'.sd.loc w.next = some u ∧ w'.sd.loc s = none := by
  unfold SW.remove at h
  simp only [SW.newMissing, SW.replace] at h
  split at h
  · cases h
  · rename_i i hi
    have hi' : (w.sd.lst u).idxOf? s = some i := hi
    have hil := idxOf_lt hi'
    have hmem := idxOf_mem hi'
    have hget : (w.sd.lst u)[i] = s := (List.idxOf?_eq_some_iff.mp hi').2.1
    have hsn : s ≠ w.next := by have := hsc.lst_lt u s hmem; omega
    simp only [SW.setStream] at h
    rw [dif_pos (by simpa [Side.setLoc] using hil)] at h
    obtain ⟨w2, hr, h⟩ := bind_ok.mp h
    cases h
    simp only [SW.redock, SW.undock, Side.setLoc] at hr
    have hne : w.next ≠ (w.sd.lst u)[i] := by rw [hget]; exact fun h => hsn h.symm
    simp only [hne, if_false, if_true] at hr
    cases hr
    refine ⟨i, hi', ?_, rfl, ?_, ?_⟩
    · simp [Side.setLst]
    · simp [Side.setLst, hne]
    · simp [Side.setLst, hget]

/-- `seq[i] = None` inside the list: port `i` gets a brand-new placeholder pointing at the unit, its former
occupant is undocked, no other port changes. -/
theorem setNone_spec {nU : Nat} {w w' : SW} {u i : Nat} (hsc : Sc nU w) (hi : i < (w.sd.lst u).length)
    (h : (w.newMissing u).1.setStream u i (w.newMissing u).2 = .ok w') :
    w'.sd.lst u = (w.sd.lst u).set i w.next ∧ w'.next = w.next + 1 ∧
      w'.sd.loc w.next = some u ∧ w'.sd.loc ((w.sd.lst u)[i]) = none := by
  have hi' : i < ((w.newMissing u).1.sd.lst u).length := hi
  unfold SW.setStream at h
  simp only [hi', dite_true] at h
  obtain ⟨w2, hr, h⟩ := bind_ok.mp h
  cases h
  generalize hx : ((w.newMissing u).fst.sd.lst u)[i] = x at hr
  have hxe : (w.sd.lst u)[i] = x := hx
  have hxm : x ∈ w.sd.lst u := hxe ▸ List.getElem_mem hi
  have hne : w.next ≠ x := by have := hsc.lst_lt u _ hxm; omega
  simp only [SW.redock, SW.undock, SW.newMissing, Side.setLoc] at hr
  simp only [hne, if_false, if_true] at hr
  cases hr
  refine ⟨?_, rfl, ?_, ?_⟩
  · simp [Side.setLst, SW.newMissing, Side.setLoc]
  · simp [Side.setLst, hne]
  · simp only [Side.setLst]
    exact if_pos hxe

/-- `seq.empty()` / `seq.clear()` on a fixed-size list: every port holds a brand-new placeholder. -/
theorem refill_lst (w : SW) (u n : Nat) :
    ∀ x ∈ (w.refill u n).sd.lst u, w.next ≤ x := by
  have M := newMissings_spec (w.undockAll (w.sd.lst u)) u n
  intro x hx
  simp only [SW.refill, setLst_lst_same] at hx
  have := (M.mem_iff x).mp hx
  simpa using this.1

end ThermoVerif.Network
