import ThermoVerif.Model.Sparse
import Mathlib.Tactic.Ring
import Mathlib.Tactic.Linarith
/-
Helper lemmas for C09: association-list dictionaries (`Dct`) — what `get` returns after each
primitive, and preservation of the representation invariant `Dct.WF`.
-/
namespace ThermoVerif.Sparse
open ThermoVerif.Dense

namespace Dct

/-- keys distinct, every key `< n`, no stored zero -/
def WF (n : Nat) (d : Dct) : Prop := (d.map Prod.fst).Nodup ∧ ∀ p ∈ d, p.1 < n ∧ p.2 ≠ 0

theorem wf_nil (n : Nat) : WF n [] := ⟨List.nodup_nil, by simp⟩

theorem get_nil (i : Nat) : get [] i = 0 := rfl

theorem get_cons (k : Nat) (v : Rat) (d : Dct) (i : Nat) :
    get ((k, v) :: d) i = if i = k then v else get d i := by
  unfold get
  simp only [List.lookup_cons]
  by_cases h : i = k
  · subst h; simp
  · have : (i == k) = false := by simpa using h
    simp [this, h]

theorem has_cons (k : Nat) (v : Rat) (d : Dct) (i : Nat) :
    has ((k, v) :: d) i = (decide (i = k) || has d i) := by
  unfold has
  simp only [List.lookup_cons]
  by_cases h : i = k
  · subst h; simp
  · have : (i == k) = false := by simpa using h
    simp [this, h]

theorem has_nil (i : Nat) : has [] i = false := rfl

theorem has_iff_mem_keys (d : Dct) (i : Nat) : has d i = true ↔ i ∈ d.map Prod.fst := by
  induction d with
  | nil => simp [has_nil]
  | cons p d ih =>
    obtain ⟨k, v⟩ := p
    rw [has_cons]
    simp only [Bool.or_eq_true, decide_eq_true_eq, ih, List.map_cons, List.mem_cons]

theorem get_eq_zero_of_not_has (d : Dct) (i : Nat) (h : has d i = false) : get d i = 0 := by
  induction d with
  | nil => rfl
  | cons p d ih =>
    obtain ⟨k, v⟩ := p
    rw [has_cons] at h
    simp only [Bool.or_eq_false_iff, decide_eq_false_iff_not] at h
    rw [get_cons, if_neg h.1]; exact ih h.2

theorem get_mem (d : Dct) (hd : (d.map Prod.fst).Nodup) (p : Nat × Rat) (hp : p ∈ d) : get d p.1 = p.2 := by
  induction d with
  | nil => cases hp
  | cons q d ih =>
    obtain ⟨k, v⟩ := q
    simp only [List.map_cons, List.nodup_cons] at hd
    rw [get_cons]
    rcases List.mem_cons.mp hp with h | h
    · subst h; simp
    · have : p.1 ≠ k := by
        intro e; apply hd.1; rw [← e]; exact List.mem_map_of_mem h
      rw [if_neg this]; exact ih hd.2 h

theorem mem_of_has (d : Dct) (i : Nat) (h : has d i = true) : (i, get d i) ∈ d := by
  induction d with
  | nil => simp [has_nil] at h
  | cons q d ih =>
    obtain ⟨k, v⟩ := q
    rw [get_cons]
    by_cases e : i = k
    · subst e; simp
    · rw [has_cons] at h
      simp only [e, decide_false, Bool.false_or] at h
      rw [if_neg e]; exact List.mem_cons_of_mem _ (ih h)

/-- under the invariant, "stored" and "non-zero" are the same thing -/
theorem has_iff_get_ne_zero {n : Nat} {d : Dct} (hd : WF n d) (i : Nat) : has d i = true ↔ get d i ≠ 0 := by
  constructor
  · intro h
    exact (hd.2 _ (mem_of_has d i h)).2
  · intro h
    by_contra hn
    exact h (get_eq_zero_of_not_has d i (by simpa using hn))

theorem get_eq_zero_of_ge {n : Nat} {d : Dct} (hd : WF n d) (i : Nat) (hi : n ≤ i) : get d i = 0 := by
  by_contra h
  have := mem_of_has d i ((has_iff_get_ne_zero hd i).mpr h)
  have := (hd.2 _ this).1
  simp at this; omega

/-! ### erase / put / setNZ -/

theorem mem_erase (d : Dct) (i : Nat) (p : Nat × Rat) : p ∈ erase d i ↔ p ∈ d ∧ p.1 ≠ i := by
  unfold erase; simp [List.mem_filter]

theorem get_erase (d : Dct) (i j : Nat) : get (erase d i) j = if j = i then 0 else get d j := by
  induction d with
  | nil => simp [erase, get_nil]
  | cons p d ih =>
    obtain ⟨k, v⟩ := p
    unfold erase at ih ⊢
    simp only [List.filter_cons]
    by_cases hk : k = i
    · subst hk
      simp only [bne_self_eq_false, Bool.false_eq_true, ↓reduceIte]
      rw [ih, get_cons]
      by_cases hj : j = k <;> simp [hj]
    · have : (k != i) = true := by simpa using hk
      simp only [this, ↓reduceIte]
      rw [get_cons, get_cons, ih]
      by_cases hj : j = k
      · subst hj; simp [hk]
      · simp [hj]

theorem nodup_erase (d : Dct) (i : Nat) (hd : (d.map Prod.fst).Nodup) : ((erase d i).map Prod.fst).Nodup := by
  unfold erase
  exact List.Nodup.sublist (List.Sublist.map _ List.filter_sublist) hd

theorem not_mem_keys_erase (d : Dct) (i : Nat) : i ∉ (erase d i).map Prod.fst := by
  intro h
  obtain ⟨p, hp, e⟩ := List.mem_map.mp h
  exact ((mem_erase d i p).mp hp).2 e

theorem wf_erase {n : Nat} {d : Dct} (hd : WF n d) (i : Nat) : WF n (erase d i) :=
  ⟨nodup_erase d i hd.1, fun p hp => hd.2 p ((mem_erase d i p).mp hp).1⟩

theorem get_put (d : Dct) (i : Nat) (v : Rat) (j : Nat) : get (put d i v) j = if j = i then v else get d j := by
  unfold put
  rw [get_cons, get_erase]
  by_cases h : j = i <;> simp [h]

theorem wf_put {n : Nat} {d : Dct} (hd : WF n d) (i : Nat) (v : Rat) (hi : i < n) (hv : v ≠ 0) : WF n (put d i v) := by
  unfold put
  refine ⟨?_, ?_⟩
  · simp only [List.map_cons, List.nodup_cons]
    exact ⟨not_mem_keys_erase d i, nodup_erase d i hd.1⟩
  · intro p hp
    rcases List.mem_cons.mp hp with h | h
    · subst h; exact ⟨hi, hv⟩
    · exact (wf_erase hd i).2 p h

theorem get_setNZ (d : Dct) (i : Nat) (v : Rat) (j : Nat) : get (setNZ d i v) j = if j = i then v else get d j := by
  unfold setNZ
  by_cases hv : v = 0
  · simp only [hv, ↓reduceIte]; rw [get_erase]
  · simp only [hv, ↓reduceIte]; rw [get_put]

theorem wf_setNZ {n : Nat} {d : Dct} (hd : WF n d) (i : Nat) (v : Rat) (hi : i < n) : WF n (setNZ d i v) := by
  unfold setNZ
  by_cases hv : v = 0
  · simp only [hv, ↓reduceIte]; exact wf_erase hd i
  · simp only [hv, ↓reduceIte]; exact wf_put hd i v hi hv

/-- storing a zero or a key inside the size keeps the invariant; storing a non-zero outside does not -/
theorem wf_setNZ_zero {n : Nat} {d : Dct} (hd : WF n d) (i : Nat) : WF n (setNZ d i 0) := by
  unfold setNZ; simp only [↓reduceIte]; exact wf_erase hd i

/-! ### tabulate -/

theorem mem_tabulate (n : Nat) (f : Nat → Rat) (p : Nat × Rat) :
    p ∈ tabulate n f ↔ p.1 < n ∧ f p.1 ≠ 0 ∧ p.2 = f p.1 := by
  unfold tabulate
  simp only [List.mem_filterMap, List.mem_range]
  constructor
  · rintro ⟨i, hi, h⟩
    by_cases hz : f i = 0
    · simp [hz] at h
    · simp only [hz, ↓reduceIte, Option.some.injEq] at h
      subst h; exact ⟨hi, hz, rfl⟩
  · rintro ⟨h1, h2, h3⟩
    refine ⟨p.1, h1, ?_⟩
    simp only [h2, ↓reduceIte, Option.some.injEq]
    ext <;> simp [h3]

theorem keys_tabulate (n : Nat) (f : Nat → Rat) :
    (tabulate n f).map Prod.fst = (List.range n).filter (fun i => f i ≠ 0) := by
  unfold tabulate
  induction (List.range n) with
  | nil => rfl
  | cons a l ih =>
    simp only [List.filterMap_cons, List.filter_cons]
    by_cases h : f a = 0
    · simp [h, ih]
    · simp [h, ih]

theorem wf_tabulate (n : Nat) (f : Nat → Rat) : WF n (tabulate n f) := by
  refine ⟨?_, ?_⟩
  · rw [keys_tabulate]; exact List.Nodup.sublist List.filter_sublist List.nodup_range
  · intro p hp
    obtain ⟨h1, h2, h3⟩ := (mem_tabulate n f p).mp hp
    exact ⟨h1, h3 ▸ h2⟩

theorem get_tabulate (n : Nat) (f : Nat → Rat) (i : Nat) : get (tabulate n f) i = if i < n then f i else 0 := by
  have hwf := wf_tabulate n f
  by_cases hi : i < n
  · simp only [hi, ↓reduceIte]
    by_cases hz : f i = 0
    · rw [hz]
      apply get_eq_zero_of_not_has
      by_contra hh
      have := mem_of_has _ i (by simpa using hh)
      have := (mem_tabulate n f _).mp this
      exact this.2.1 hz
    · have hm : (i, f i) ∈ tabulate n f := (mem_tabulate n f (i, f i)).mpr ⟨hi, hz, rfl⟩
      exact get_mem _ hwf.1 _ hm
  · simp only [hi, ↓reduceIte]
    exact get_eq_zero_of_ge hwf i (by omega)

/-! ### mapVals -/

theorem keys_mapVals (f : Rat → Rat) (d : Dct) : (mapVals f d).map Prod.fst = d.map Prod.fst := by
  unfold mapVals; simp [List.map_map, Function.comp_def]

theorem get_mapVals (f : Rat → Rat) (hf : f 0 = 0) (d : Dct) (i : Nat) : get (mapVals f d) i = f (get d i) := by
  induction d with
  | nil => simp [mapVals, get_nil, hf]
  | cons p d ih =>
    obtain ⟨k, v⟩ := p
    unfold mapVals at ih ⊢
    simp only [List.map_cons]
    rw [get_cons, get_cons, ih]
    by_cases h : i = k <;> simp [h]

theorem wf_mapVals {n : Nat} {d : Dct} (hd : WF n d) (f : Rat → Rat) (hf : ∀ x, x ≠ 0 → f x ≠ 0) :
    WF n (mapVals f d) := by
  refine ⟨by rw [keys_mapVals]; exact hd.1, ?_⟩
  intro p hp
  unfold mapVals at hp
  obtain ⟨q, hq, e⟩ := List.mem_map.mp hp
  subst e
  exact ⟨(hd.2 q hq).1, hf _ (hd.2 q hq).2⟩

theorem length_mapVals (f : Rat → Rat) (d : Dct) : (mapVals f d).length = d.length := by
  unfold mapVals; simp

/-- widening the size keeps the invariant -/
theorem wf_mono {n m : Nat} {d : Dct} (hd : WF n d) (h : n ≤ m) : WF m d :=
  ⟨hd.1, fun p hp => ⟨lt_of_lt_of_le (hd.2 p hp).1 h, (hd.2 p hp).2⟩⟩

/-! ### mergeWith -/

theorem get_mergeWith (f : Rat → Rat → Rat) (d o : Dct) (ho : (o.map Prod.fst).Nodup) (i : Nat) :
    get (mergeWith f d o) i = if has o i then f (get d i) (get o i) else get d i := by
  unfold mergeWith
  induction o generalizing d with
  | nil => simp [has_nil]
  | cons p o ih =>
    obtain ⟨k, v⟩ := p
    simp only [List.map_cons, List.nodup_cons] at ho
    simp only [List.foldl_cons]
    rw [ih _ ho.2, has_cons, get_cons]
    by_cases hik : i = k
    · subst hik
      have hno : has o i = false := by
        by_contra hh
        exact ho.1 ((has_iff_mem_keys o i).mp (by simpa using hh))
      simp only [hno, Bool.false_eq_true, ↓reduceIte, decide_true, Bool.or_false]
      rw [get_setNZ]; simp
    · simp only [hik, decide_false, Bool.false_or, ↓reduceIte]
      rw [get_setNZ]; simp [hik]

theorem wf_mergeWith {n : Nat} (f : Rat → Rat → Rat) {d o : Dct} (hd : WF n d) (ho : ∀ p ∈ o, p.1 < n) :
    WF n (mergeWith f d o) := by
  unfold mergeWith
  induction o generalizing d with
  | nil => simpa using hd
  | cons p o ih =>
    simp only [List.foldl_cons]
    apply ih
    · exact wf_setNZ hd _ _ (ho p (List.mem_cons_self))
    · intro q hq; exact ho q (List.mem_cons_of_mem _ hq)

/-! ### interWith -/

theorem mem_interWith (f : Rat → Rat → Rat) (d : Dct) (g : Nat → Rat) (q : Nat × Rat) :
    q ∈ interWith f d g ↔ ∃ p ∈ d, g p.1 ≠ 0 ∧ q = (p.1, f p.2 (g p.1)) := by
  unfold interWith
  simp only [List.mem_filterMap]
  constructor
  · rintro ⟨p, hp, h⟩
    by_cases hz : g p.1 = 0
    · simp [hz] at h
    · simp only [hz, ↓reduceIte, Option.some.injEq] at h
      exact ⟨p, hp, hz, h.symm⟩
  · rintro ⟨p, hp, hz, e⟩
    exact ⟨p, hp, by simp [hz, e]⟩

theorem keys_interWith_sublist (f : Rat → Rat → Rat) (d : Dct) (g : Nat → Rat) :
    ((interWith f d g).map Prod.fst).Sublist (d.map Prod.fst) := by
  unfold interWith
  induction d with
  | nil => simp
  | cons p d ih =>
    simp only [List.filterMap_cons, List.map_cons]
    by_cases hz : g p.1 = 0
    · simp only [hz, ↓reduceIte]; exact List.Sublist.cons _ ih
    · simp only [hz, ↓reduceIte, List.map_cons]; exact List.Sublist.cons_cons _ ih

theorem get_interWith (f : Rat → Rat → Rat) (d : Dct) (g : Nat → Rat) (i : Nat) :
    get (interWith f d g) i = if has d i ∧ g i ≠ 0 then f (get d i) (g i) else 0 := by
  induction d with
  | nil => simp [interWith, get_nil, has_nil]
  | cons p d ih =>
    obtain ⟨k, v⟩ := p
    unfold interWith at ih ⊢
    simp only [List.filterMap_cons]
    by_cases hz : g k = 0
    · simp only [hz, ↓reduceIte]
      rw [ih, has_cons, get_cons]
      by_cases hik : i = k
      · subst hik; simp [hz]
      · simp [hik]
    · simp only [hz, ↓reduceIte]
      rw [get_cons, ih, has_cons, get_cons]
      by_cases hik : i = k
      · subst hik; simp [hz]
      · simp [hik]

theorem wf_interWith {n : Nat} (f : Rat → Rat → Rat) {d : Dct} (g : Nat → Rat) (hd : WF n d)
    (hf : ∀ x y, x ≠ 0 → y ≠ 0 → f x y ≠ 0) : WF n (interWith f d g) := by
  refine ⟨List.Nodup.sublist (keys_interWith_sublist f d g) hd.1, ?_⟩
  intro q hq
  obtain ⟨p, hp, hz, e⟩ := (mem_interWith f d g q).mp hq
  subst e
  exact ⟨(hd.2 p hp).1, hf _ _ (hd.2 p hp).2 hz⟩

/-! ### filterVals -/

theorem wf_filterVals {n : Nat} {d : Dct} (hd : WF n d) (p : Rat → Bool) : WF n (filterVals p d) := by
  unfold filterVals
  exact ⟨List.Nodup.sublist (List.Sublist.map _ List.filter_sublist) hd.1,
    fun q hq => hd.2 q (List.mem_filter.mp hq).1⟩

theorem get_filterVals (d : Dct) (hd : (d.map Prod.fst).Nodup) (p : Rat → Bool) (i : Nat) :
    get (filterVals p d) i = if has d i ∧ p (get d i) then get d i else 0 := by
  induction d with
  | nil => simp [filterVals, get_nil, has_nil]
  | cons q d ih =>
    obtain ⟨k, v⟩ := q
    simp only [List.map_cons, List.nodup_cons] at hd
    have ih := ih hd.2
    unfold filterVals at ih ⊢
    simp only [List.filter_cons]
    by_cases hp : p v = true
    · simp only [hp, ↓reduceIte]
      rw [get_cons, ih, has_cons, get_cons]
      by_cases hik : i = k
      · subst hik; simp [hp]
      · simp [hik]
    · simp only [hp, Bool.false_eq_true, ↓reduceIte]
      rw [ih, has_cons, get_cons]
      by_cases hik : i = k
      · subst hik
        have hno : has d i = false := by
          by_contra hh
          exact hd.1 ((has_iff_mem_keys d i).mp (by simpa using hh))
        simp [hno, hp]
      · simp [hik]

end Dct

end ThermoVerif.Sparse

namespace ThermoVerif.Sparse
open ThermoVerif.Dense

/-! ## dense vectors as tabulated functions -/

/-- `[g 0, …, g (n-1)]` -/
def vecOf (n : Nat) (g : Nat → Rat) : Vec := (List.range n).map g

theorem vecOf_length (n : Nat) (g : Nat → Rat) : (vecOf n g).length = n := by simp [vecOf]

theorem vecOf_congr {n : Nat} {g h : Nat → Rat} (e : ∀ i, i < n → g i = h i) : vecOf n g = vecOf n h := by
  unfold vecOf
  exact List.map_congr_left (fun i hi => e i (List.mem_range.mp hi))

theorem vecOf_getD (n : Nat) (g : Nat → Rat) (i : Nat) (hi : i < n) : (vecOf n g).getD i 0 = g i := by
  unfold vecOf
  rw [List.getD_eq_getElem?_getD, List.getElem?_map, List.getElem?_range hi]; rfl

theorem vecOf_getD_ge (n : Nat) (g : Nat → Rat) (i : Nat) (hi : n ≤ i) : (vecOf n g).getD i 0 = 0 := by
  rw [List.getD_eq_getElem?_getD, List.getElem?_eq_none (by simpa [vecOf_length] using hi)]; rfl

theorem vec_eq_vecOf (l : Vec) : l = vecOf l.length (fun i => l.getD i 0) := by
  apply List.ext_getElem
  · simp [vecOf_length]
  · intro i h1 h2
    simp only [vecOf, List.getElem_map, List.getElem_range]
    rw [List.getD_eq_getElem?_getD, List.getElem?_eq_getElem h1]; rfl

theorem zipWith_vecOf (f : Rat → Rat → Rat) (n : Nat) (g h : Nat → Rat) :
    List.zipWith f (vecOf n g) (vecOf n h) = vecOf n (fun i => f (g i) (h i)) := by
  unfold vecOf
  rw [List.zipWith_map, List.zipWith_self]

theorem map_vecOf (k : Rat → Rat) (n : Nat) (g : Nat → Rat) : (vecOf n g).map k = vecOf n (fun i => k (g i)) := by
  unfold vecOf; simp [List.map_map, Function.comp_def]

/-- NumPy broadcasting of two tabulated vectors -/
theorem np1_vecOf (f : Rat → Rat → Rat) (n m : Nat) (g h : Nat → Rat) :
    np1 f (vecOf n g) (vecOf m h) =
      if n = m then .ok (vecOf n (fun i => f (g i) (h i)))
      else if n = 1 then .ok (vecOf m (fun i => f (g 0) (h i)))
      else if m = 1 then .ok (vecOf n (fun i => f (g i) (h 0)))
      else .error .shape := by
  unfold np1
  simp only [vecOf_length]
  by_cases h1 : n = m
  · subst h1; simp [zipWith_vecOf]
  · simp only [h1, ↓reduceIte]
    by_cases h2 : n = 1
    · subst h2
      simp only [↓reduceIte]
      rw [vecOf_getD 1 g 0 (by omega), map_vecOf]
    · simp only [h2, ↓reduceIte]
      by_cases h3 : m = 1
      · subst h3
        simp only [↓reduceIte]
        rw [vecOf_getD 1 h 0 (by omega), map_vecOf]
      · simp [h3]

theorem np1i_vecOf (f : Rat → Rat → Rat) (n m : Nat) (g h : Nat → Rat) :
    np1i f (vecOf n g) (vecOf m h) =
      if n = m then .ok (vecOf n (fun i => f (g i) (h i)))
      else if m = 1 then .ok (vecOf n (fun i => f (g i) (h 0)))
      else .error .shape := by
  unfold np1i
  simp only [vecOf_length]
  by_cases h1 : n = m
  · subst h1; simp [zipWith_vecOf]
  · simp only [h1, ↓reduceIte]
    by_cases h3 : m = 1
    · subst h3
      simp only [↓reduceIte]
      rw [vecOf_getD 1 h 0 (by omega), map_vecOf]
    · simp [h3]

/-! ## SparseVector: invariant and dense image -/

namespace SV

def WF (a : SV) : Prop := Dct.WF a.size a.dct

theorem toDense_eq (a : SV) : a.toDense = vecOf a.size a.get := rfl

theorem toDense_length (a : SV) : a.toDense.length = a.size := by simp [toDense]

theorem get_ge {a : SV} (ha : a.WF) (i : Nat) (hi : a.size ≤ i) : a.get i = 0 :=
  Dct.get_eq_zero_of_ge ha i hi

theorem has_iff {a : SV} (ha : a.WF) (i : Nat) : a.dct.has i = true ↔ a.get i ≠ 0 :=
  Dct.has_iff_get_ne_zero ha i

theorem has0_iff {a : SV} (ha : a.WF) : a.has0 = true ↔ a.get 0 ≠ 0 := has_iff ha 0

/-- a result with the right size whose entries agree point-wise has the right dense image -/
theorem toDense_of_get (c : SV) (n : Nat) (g : Nat → Rat) (hs : c.size = n) (hg : ∀ i, i < n → c.get i = g i) :
    c.toDense = vecOf n g := by
  rw [toDense_eq, hs]; exact vecOf_congr hg

/-- a well-formed vector of size 1 without entry 0 is empty -/
theorem dct_nil_of_size1 {a : SV} (ha : a.WF) (hs : a.size = 1) (h0 : a.has0 = false) : a.dct = [] := by
  match hd : a.dct with
  | [] => rfl
  | p :: r =>
    exfalso
    have hp : p ∈ a.dct := by rw [hd]; exact List.mem_cons_self
    have h1 := (ha.2 p hp).1
    rw [hs] at h1
    have hk : p.1 = 0 := by omega
    have : a.dct.has 0 = true := by
      rw [Dct.has_iff_mem_keys]; exact List.mem_map.mpr ⟨p, hp, hk⟩
    unfold has0 at h0; rw [this] at h0; cases h0

end SV

theorem Dct.get_ofList (l : Vec) (i : Nat) : Dct.get (Dct.ofList l) i = l.getD i 0 := by
  unfold Dct.ofList
  rw [Dct.get_tabulate]
  by_cases h : i < l.length
  · simp [h]
  · simp only [h, ↓reduceIte]
    rw [List.getD_eq_getElem?_getD, List.getElem?_eq_none (by omega)]; rfl

theorem Dct.wf_ofList (l : Vec) : Dct.WF l.length (Dct.ofList l) := Dct.wf_tabulate _ _

theorem Dct.has_ofList (l : Vec) (i : Nat) : Dct.has (Dct.ofList l) i = true ↔ l.getD i 0 ≠ 0 := by
  rw [Dct.has_iff_get_ne_zero (Dct.wf_ofList l), Dct.get_ofList]

end ThermoVerif.Sparse

namespace ThermoVerif.Sparse
theorem SV.get_def (a : SV) (i : Nat) : a.get i = a.dct.get i := rfl
theorem SV.has0_def (a : SV) : a.has0 = a.dct.has 0 := rfl
theorem SV.wf_def (a : SV) : a.WF ↔ Dct.WF a.size a.dct := Iff.rfl
end ThermoVerif.Sparse

namespace ThermoVerif.Sparse
instance (n : Nat) (d : Dct) : Decidable (Dct.WF n d) := by unfold Dct.WF; infer_instance
instance (a : SV) : Decidable a.WF := by unfold SV.WF; infer_instance
end ThermoVerif.Sparse
