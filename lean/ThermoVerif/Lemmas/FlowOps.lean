import ThermoVerif.Lemmas.Flow
/-
Proofs of the C01 theorems about the operations of `ThermoVerif.Flow` (mix, split, separate, copy,
scale).  `ThermoVerif/Props/C01.lean` restates the property clauses and refers to these.
-/
set_option linter.unusedSimpArgs false
set_option linter.unusedVariables false
namespace ThermoVerif.FlowOps
open ThermoVerif.Flow

theorem rsum_filter_of_zero {α : Type} (l : List α) (p : α → Bool) (f : α → Rat)
    (h : ∀ x ∈ l, p x = false → f x = 0) :
    rsum ((l.filter p).map f) = rsum (l.map f) := by
  induction l with
  | nil => rfl
  | cons x xs ih =>
    have ih' := ih (fun y hy => h y (by simp [hy]))
    by_cases hp : p x = true
    · simp [List.filter_cons, hp, ih']
    · simp only [Bool.not_eq_true] at hp
      simp [List.filter_cons, hp, ih', h x (by simp) hp]

theorem amount_of_isEmpty {P : List Nat} {s : Strm} (h : s.isEmpty = true) (c : Nat) : amount P s c = 0 := by
  rw [amount_eq]; cases pos P c with
  | none => rfl
  | some k => exact colsum_of_isEmpty h k

theorem amount_zeroed (P : List Nat) (s : Strm) (n : Nat) (c : Nat) :
    amount P (s.zeroed n) c = 0 := by
  unfold Strm.zeroed
  rw [amount_eq]; cases pos P c with
  | none => rfl
  | some k => exact colsum_map_zero s.ph n k

/-- **Mixing conserves every chemical.**  For any receiver (single- or multi-phase), any list of
inlets of any length (the receiver may be among them, any number of times), any phases and any
packages: if `mix_from` returns, the receiver holds, of every chemical, the sum of what the inlets held. -/
theorem mix_total {w w' : World} {r : Nat} {ins : List Nat} (h : mix w r ins = .ok w') (c : Nat) :
    w'.amount r c = rsum (ins.map (fun i => w.amount i c)) := by
  unfold mix at h
  obtain ⟨r0, hr0, h⟩ := bind_ok.mp h
  obtain ⟨xs, hxs, h⟩ := bind_ok.mp h
  have hr := get?_ok.mp hr0
  rw [rsum_amount_of_forall₂ (getAll_ok hxs)]
  simp only [] at h
  split at h
  · rename_i hlive
    cases h
    rw [amount_setStrm_same hr]
    rw [amount_zeroed]
    symm
    apply rsum_map_zero
    intro x hx
    by_cases he : x.isEmpty = true
    · exact amount_of_isEmpty he c
    · have : x ∈ xs.filter (fun x => !x.isEmpty) := by simp [List.mem_filter, hx, he]
      rw [List.isEmpty_iff.mp hlive] at this
      cases this
  · obtain ⟨r', hr', h⟩ := bind_ok.mp h
    cases h
    obtain ⟨hpkg, ham⟩ := mixIndexer_amount hr' c
    rw [amount_setStrm_same hr, pkgOf_eq_of_pkg hpkg, ham]
    apply rsum_filter_of_zero
    intro x _ hx
    simp at hx
    exact amount_of_isEmpty hx c

/-- mixing touches nothing but the receiver -/
theorem mix_frame {w w' : World} {r : Nat} {ins : List Nat} (h : mix w r ins = .ok w') :
    w'.pkgs = w.pkgs ∧ ∀ j, j ≠ r → w'.strms[j]? = w.strms[j]? := by
  unfold mix at h
  obtain ⟨r0, hr0, h⟩ := bind_ok.mp h
  obtain ⟨xs, hxs, h⟩ := bind_ok.mp h
  simp only [] at h
  split at h
  · cases h
    exact ⟨rfl, fun j hj => getElem?_setStrm_other (Ne.symm hj) _⟩
  · obtain ⟨r', hr', h⟩ := bind_ok.mp h
    cases h
    exact ⟨rfl, fun j hj => getElem?_setStrm_other (Ne.symm hj) _⟩

theorem pkgOf_same {w : World} {x y : Strm} (h : (x.pkg == y.pkg) = true) : w.pkgOf x = w.pkgOf y :=
  pkgOf_eq_of_pkg (by simpa using h)

/-- **Separating subtracts exactly the other stream.**  For the four kind pairings, equal or different
phase tuples, same or other package: if `separate_out` returns, every chemical of `x` has gone down by
what `y` held of it. -/
theorem sep_total {w w' : World} {x y : Nat} (h : sep w x y = .ok w') (c : Nat) :
    w'.amount x c = w.amount x c - w.amount y c := by
  unfold sep at h
  obtain ⟨sx, hsx, h⟩ := bind_ok.mp h
  obtain ⟨sy, hsy, h⟩ := bind_ok.mp h
  have hx := get?_ok.mp hsx
  have hy := get?_ok.mp hsy
  rw [amount_of_get hx, amount_of_get hy]
  split at h
  · rename_i he
    cases h
    rw [amount_of_get hx, amount_of_isEmpty he]; ring
  · split at h
    · rename_i hxy
      cases h
      subst hxy
      rw [hx] at hy; cases hy
      rw [amount_setStrm_same hx, amount_zeroed]; ring
    · obtain ⟨x', hx', h⟩ := bind_ok.mp h
      cases h
      obtain ⟨hpkg, hk⟩ := sepStrm_key (fun hs => pkgOf_same hs) hx' c
      rw [amount_setStrm_same hx, pkgOf_eq_of_pkg hpkg, amount_eq_key, amount_eq_key, amount_eq_key, hk]

/-- separating touches nothing but `x` -/
theorem sep_frame {w w' : World} {x y : Nat} (h : sep w x y = .ok w') :
    w'.pkgs = w.pkgs ∧ ∀ j, j ≠ x → w'.strms[j]? = w.strms[j]? := by
  unfold sep at h
  obtain ⟨sx, hsx, h⟩ := bind_ok.mp h
  obtain ⟨sy, hsy, h⟩ := bind_ok.mp h
  split at h
  · cases h; exact ⟨rfl, fun _ _ => rfl⟩
  · split at h
    · cases h; exact ⟨rfl, fun j hj => getElem?_setStrm_other (Ne.symm hj) _⟩
    · obtain ⟨x', hx', h⟩ := bind_ok.mp h
      cases h; exact ⟨rfl, fun j hj => getElem?_setStrm_other (Ne.symm hj) _⟩

theorem amount_congr {w w' : World} {j : Nat} (hp : w'.pkgs = w.pkgs) (hs : w'.strms[j]? = w.strms[j]?) (c : Nat) :
    w'.amount j c = w.amount j c := by
  unfold World.amount World.pkgOf; rw [hs, hp]

/-- **Separating a stream back out of a mixture restores the remainder.**  Mix `a` and `b` into any
receiver `r` (single- or multi-phase, any packages), then separate `b` out of `r`: what is left in `r`
is, chemical by chemical, what `a` held.  (`a` may be the receiver itself.) -/
theorem separate_restores {w w1 w2 : World} {r a b : Nat} (hb : b ≠ r)
    (hmix : mix w r [a, b] = .ok w1) (hsep : sep w1 r b = .ok w2) (c : Nat) :
    w2.amount r c = w.amount a c := by
  rw [sep_total hsep, mix_total hmix]
  obtain ⟨hp, hf⟩ := mix_frame hmix
  rw [amount_congr hp (hf b hb)]
  simp

/-- the split fraction that applies to chemical `c` of feed `f` (scalar, or the entry at the position
of `c` in the feed's package) -/
def splitAt (w : World) (f : Nat) (sp : Split) (c : Nat) : Rat :=
  match w.strms[f]? with
  | some s => splKey (w.pkgOf s) sp c
  | none => 0

theorem pkgOf_same' {w : World} {x y : Strm} (h : (x.pkg == y.pkg) = true) : w.pkgOf x = w.pkgOf y :=
  pkgOf_same h

/-- **Splitting yields `split*feed` and `feed - split*feed`.**  Scalar or per-chemical split, single-
or multi-phase feed and outlets, outlets on other packages, the feed itself as one of the outlets:
if `split_to` returns (and the two outlets are different streams) every chemical is divided exactly so. -/
theorem split_values {w w' : World} {f a b : Nat} {sp : Split} {eb : Bool} (h : split w f a b sp eb = .ok w')
    (hab : a ≠ b) (c : Nat) :
    w'.amount a c = w.amount f c * splitAt w f sp c ∧
    w'.amount b c = w.amount f c - w.amount f c * splitAt w f sp c := by
  unfold split at h
  obtain ⟨sf, hsf, h⟩ := bind_ok.mp h
  obtain ⟨sa, hsa, h⟩ := bind_ok.mp h
  obtain ⟨sb, hsb, h⟩ := bind_ok.mp h
  have hf := get?_ok.mp hsf
  have ha := get?_ok.mp hsa
  have hb := get?_ok.mp hsb
  have hsplit : splitAt w f sp c = splKey (w.pkgOf sf) sp c := by unfold splitAt; rw [hf]
  rw [amount_of_get hf, hsplit, amount_eq_key]
  simp only [] at h
  split at h
  · -- multi-phase feed, at least one multi-phase outlet: phase by phase
    obtain ⟨a1, ha1, h⟩ := bind_ok.mp h
    obtain ⟨b0, hb0, h⟩ := bind_ok.mp h
    obtain ⟨b1, hb1, h⟩ := bind_ok.mp h
    obtain ⟨a2, ha2, h⟩ := bind_ok.mp h
    obtain ⟨pa, hpa, h⟩ := bind_ok.mp h
    obtain ⟨b2, hb2, h⟩ := bind_ok.mp h
    obtain ⟨pb, hpb, h⟩ := bind_ok.mp h
    cases h
    have hb0' := get?_ok.mp hb0
    have ha2' := get?_ok.mp ha2
    have hb2' := get?_ok.mp hb2
    constructor
    · rw [amount_setStrm_other (Ne.symm hab), amount_setStrm_same ha2', amount_eq_key]
      have := putPhases_key (fun hs => pkgOf_same (w := w) hs) hpa c
      simp only [pkgOf_setStrm] at this ⊢
      have e : w.pkgOf { a2 with ph := pa } = w.pkgOf a2 := rfl
      rw [e, this, key_map_splitTop]
    · rw [amount_setStrm_same hb2', amount_eq_key]
      have := putPhases_key (fun hs => pkgOf_same (w := w) hs) hpb c
      simp only [pkgOf_setStrm] at this ⊢
      have e : w.pkgOf { b2 with ph := pb } = w.pkgOf b2 := rfl
      rw [e, this, key_map_splitBot]
  · -- through the phase sum of the feed
    obtain ⟨a', ha', h⟩ := bind_ok.mp h
    obtain ⟨b0, hb0, h⟩ := bind_ok.mp h
    obtain ⟨b', hb', h⟩ := bind_ok.mp h
    cases h
    have hb0' := get?_ok.mp hb0
    obtain ⟨hpa, hka⟩ := putOutlet_key (fun hs => pkgOf_same (w := w) hs) ha' c
    obtain ⟨hpb, hkb⟩ := putOutlet_key (fun hs => pkgOf_same (w := w) hs) hb' c
    constructor
    · rw [amount_setStrm_other (Ne.symm hab), amount_setStrm_same ha, amount_eq_key,
        pkgOf_eq_of_pkg hpa, hka, rowKey_splitTop, rowKey_total]
    · rw [amount_setStrm_same hb0', amount_eq_key]
      simp only [pkgOf_setStrm] at hkb ⊢
      rw [pkgOf_eq_of_pkg hpb, hkb, rowKey_splitBot, rowKey_total]

/-- the two outlets together hold the feed -/
theorem split_sum {w w' : World} {f a b : Nat} {sp : Split} {eb : Bool} (h : split w f a b sp eb = .ok w')
    (hab : a ≠ b) (c : Nat) : w'.amount a c + w'.amount b c = w.amount f c := by
  obtain ⟨h1, h2⟩ := split_values h hab c
  rw [h1, h2]; ring

theorem key_mapRows_vscale (P : List Nat) (s : Strm) (k : Rat) (c : Nat) :
    key P (s.mapRows (vscale P.length k)).ph c = key P s.ph c * k := by
  unfold Strm.mapRows
  simp only []
  rw [key_eq_rsum, key_eq_rsum, List.map_map, ← rsum_map_mul_right]
  apply rsum_map_congr
  intro pr _
  simp only [Function.comp, rowKey]
  cases hP : pos P c with
  | none => simp
  | some j => simp only []; exact get_vscale (pos_lt hP) k pr.2

theorem key_mapRows_vdiv (P : List Nat) (s : Strm) (k : Rat) (c : Nat) :
    key P (s.mapRows (vdiv P.length k)).ph c = key P s.ph c / k := by
  unfold Strm.mapRows
  simp only []
  rw [key_eq_rsum, key_eq_rsum, List.map_map, ← rsum_map_div]
  apply rsum_map_congr
  intro pr _
  simp only [Function.comp, rowKey]
  cases hP : pos P c with
  | none => simp
  | some j => simp only []; exact get_vdiv (pos_lt hP) k pr.2

/-- **Multiplying a stream by `k` multiplies every flow by `k`** (`scale`, `*=`). -/
theorem scale_linear {w w' : World} {i : Nat} {k : Rat} (h : scale w i k = .ok w') (c : Nat) :
    w'.amount i c = w.amount i c * k := by
  unfold scale at h
  obtain ⟨s, hs, h⟩ := bind_ok.mp h
  cases h
  have hs' := get?_ok.mp hs
  rw [amount_setStrm_same hs', amount_of_get hs', amount_eq_key, amount_eq_key]
  exact key_mapRows_vscale (w.pkgOf s) s k c

/-- `stream /= k` divides every flow by `k` -/
theorem idiv_linear {w w' : World} {i : Nat} {k : Rat} (h : idiv w i k = .ok w') (c : Nat) :
    w'.amount i c = w.amount i c / k := by
  unfold idiv at h
  obtain ⟨s, hs, h⟩ := bind_ok.mp h
  split at h
  · cases h
  · cases h
    have hs' := get?_ok.mp hs
    rw [amount_setStrm_same hs', amount_of_get hs', amount_eq_key, amount_eq_key]
    exact key_mapRows_vdiv (w.pkgOf s) s k c

theorem amount_append_new (w : World) (s : Strm) (c : Nat) :
    ({ w with strms := w.strms ++ [s] } : World).amount w.strms.length c = amount (w.pkgOf s) s c := by
  unfold World.amount
  simp; rfl

theorem amount_append_old (w : World) (s : Strm) {i : Nat} (hi : i < w.strms.length) (c : Nat) :
    ({ w with strms := w.strms ++ [s] } : World).amount i c = w.amount i c := by
  unfold World.amount
  simp [List.getElem?_append_left hi]; rfl

/-- `new = stream * k`: the product holds `k` times every flow, the operand is untouched -/
theorem mul_linear {w w' : World} {i : Nat} {k : Rat} (h : mulNew w i k = .ok w') (c : Nat) :
    w'.amount w.strms.length c = w.amount i c * k ∧ w'.amount i c = w.amount i c := by
  unfold mulNew at h
  obtain ⟨s, hs, h⟩ := bind_ok.mp h
  cases h
  have hs' := get?_ok.mp hs
  have hi : i < w.strms.length := by
    rcases Nat.lt_or_ge i w.strms.length with h' | h'
    · exact h'
    · rw [List.getElem?_eq_none h'] at hs'; cases hs'
  refine ⟨?_, amount_append_old w _ hi c⟩
  rw [amount_append_new, amount_of_get hs', amount_eq_key, amount_eq_key]
  exact key_mapRows_vscale (w.pkgOf s) s k c

/-- `new = stream / k` -/
theorem div_linear {w w' : World} {i : Nat} {k : Rat} (h : divNew w i k = .ok w') (c : Nat) :
    w'.amount w.strms.length c = w.amount i c / k ∧ w'.amount i c = w.amount i c := by
  unfold divNew at h
  obtain ⟨s, hs, h⟩ := bind_ok.mp h
  split at h
  · cases h
  · cases h
    have hs' := get?_ok.mp hs
    have hi : i < w.strms.length := by
      rcases Nat.lt_or_ge i w.strms.length with h' | h'
      · exact h'
      · rw [List.getElem?_eq_none h'] at hs'; cases hs'
    refine ⟨?_, amount_append_old w _ hi c⟩
    rw [amount_append_new, amount_of_get hs', amount_eq_key, amount_eq_key]
    exact key_mapRows_vdiv (w.pkgOf s) s k c

/-- `Stream.sum(streams, thermo=pkg)`: the new stream holds the sum of the given streams -/
theorem sum_total {w w' : World} {pkg : Nat} {ins : List Nat} (h : sumNew w pkg ins = .ok w')
    (hins : ∀ i ∈ ins, i < w.strms.length) (c : Nat) :
    w'.amount w.strms.length c = rsum (ins.map (fun i => w.amount i c)) := by
  unfold sumNew at h
  rw [mix_total h c]
  apply rsum_map_congr
  intro i hi
  exact amount_append_old w _ (hins i hi) c

/-! ### the error branch of mixing -/

/-- all flows of the stream are non-negative -/
def NonNeg (s : Strm) : Prop := ∀ pr ∈ s.ph, ∀ k, 0 ≤ pr.2.get k

theorem bind_error {ε α β : Type} {x : Except ε α} {f : α → Except ε β} {e : ε} :
    (x >>= f) = .error e ↔ x = .error e ∨ ∃ a, x = .ok a ∧ f a = .error e := by
  cases x <;> simp [bind, Except.bind]

theorem getAll_of_valid (w : World) (is : List Nat) (h : ∀ i ∈ is, i < w.strms.length) :
    ∃ ss, getAll w is = .ok ss := by
  induction is with
  | nil => exact ⟨[], rfl⟩
  | cons i is ih =>
    obtain ⟨ss, hss⟩ := ih (fun j hj => h j (by simp [hj]))
    have hi := h i (by simp)
    refine ⟨w.strms[i] :: ss, ?_⟩
    unfold getAll
    have : w.get? i = .ok w.strms[i] := get?_ok.mpr (List.getElem?_eq_getElem hi)
    rw [this, hss]; rfl

theorem forall₂_mem_right {w : World} {is : List Nat} {ss : List Strm}
    (h : List.Forall₂ (fun i s => w.strms[i]? = some s) is ss) {x : Strm} (hx : x ∈ ss) :
    ∃ i ∈ is, w.strms[i]? = some x := by
  induction h with
  | nil => cases hx
  | cons hd _ ih =>
    rcases List.mem_cons.mp hx with rfl | hx
    · exact ⟨_, by simp, hd⟩
    · obtain ⟨i, hi, hs⟩ := ih hx
      exact ⟨i, by simp [hi], hs⟩

theorem forall₂_mem_left {w : World} {is : List Nat} {ss : List Strm}
    (h : List.Forall₂ (fun i s => w.strms[i]? = some s) is ss) {i : Nat} (hi : i ∈ is) :
    ∃ x ∈ ss, w.strms[i]? = some x := by
  induction h with
  | nil => cases hi
  | cons hd _ ih =>
    rcases List.mem_cons.mp hi with rfl | hi
    · exact ⟨_, by simp, hd⟩
    · obtain ⟨x, hx, hs⟩ := ih hi
      exact ⟨x, by simp [hx], hs⟩

theorem contribs_error {w : World} {r x : Strm} {e : Err} (h : contribs w r x = .error e) :
    e = .undefinedChemical ∧ x.pkg ≠ r.pkg ∧ contribBad w r x = true := by
  unfold contribs at h
  split at h
  · cases h
  · rename_i hp
    split at h
    · rename_i hb; cases h; exact ⟨rfl, hp, hb⟩
    · cases h

theorem contribs_error_of {w : World} {r x : Strm} (hp : x.pkg ≠ r.pkg) (hb : contribBad w r x = true) :
    contribs w r x = .error .undefinedChemical := by
  unfold contribs; simp [hp, hb]

theorem contribsAll_error {w : World} {r : Strm} {xs : List Strm} {e : Err}
    (h : contribsAll w r xs = .error e) : ∃ x ∈ xs, contribs w r x = .error e := by
  induction xs with
  | nil => simp [contribsAll] at h
  | cons x xs ih =>
    unfold contribsAll at h
    rcases bind_error.mp h with h | ⟨c, hc, h⟩
    · exact ⟨x, by simp, h⟩
    · rcases bind_error.mp h with h | ⟨cs, hcs, h⟩
      · obtain ⟨y, hy, hye⟩ := ih h
        exact ⟨y, by simp [hy], hye⟩
      · cases h

theorem contribsAll_error_of {w : World} {r : Strm} {xs : List Strm} {x : Strm} (hx : x ∈ xs)
    (h : contribs w r x = .error .undefinedChemical) : ∃ e, contribsAll w r xs = .error e := by
  induction xs with
  | nil => cases hx
  | cons y ys ih =>
    unfold contribsAll
    rcases List.mem_cons.mp hx with rfl | hx
    · rw [h]; exact ⟨_, rfl⟩
    · cases hy : contribs w r y with
      | error e => exact ⟨e, rfl⟩
      | ok c =>
        obtain ⟨e, he⟩ := ih hx
        rw [he]; exact ⟨e, rfl⟩

theorem key_ne_zero_exists {P : List Nat} {l : PhRows} {c : Nat} (h : key P l c ≠ 0) :
    ∃ pr ∈ l, rowKey P pr.2 c ≠ 0 := by
  by_contra hne
  push_neg at hne
  apply h
  rw [key_eq_rsum]
  exact rsum_map_zero _ _ hne

theorem key_eq_zero_of_nonneg {P : List Nat} {s : Strm} (hn : NonNeg s) {c : Nat} (h : key P s.ph c = 0) :
    ∀ pr ∈ s.ph, rowKey P pr.2 c = 0 := by
  rw [key_eq_rsum] at h
  have hnn : ∀ v ∈ s.ph.map (fun pr => rowKey P pr.2 c), 0 ≤ v := by
    intro v hv
    obtain ⟨pr, hpr, rfl⟩ := List.mem_map.mp hv
    unfold rowKey
    cases pos P c with
    | none => exact le_refl 0
    | some k => exact hn pr hpr k
  intro pr hpr
  exact (rsum_eq_zero_iff _ hnn).mp h _ (List.mem_map_of_mem hpr)

/-- `index_overlap` fails for inlet `x` exactly when `x` holds a chemical the receiver's package lacks -/
theorem contribBad_iff {w : World} {r x : Strm} (hQ : (w.pkgOf x).Nodup) (hn : NonNeg x) :
    contribBad w r x = true ↔ ∃ c, amount (w.pkgOf x) x c ≠ 0 ∧ c ∉ w.pkgOf r := by
  unfold contribBad
  simp only []
  constructor
  · intro h
    split at h
    · obtain ⟨pr, hpr, hl⟩ := List.any_eq_true.mp h
      obtain ⟨c, j, hQc, hPc, hv⟩ := lacks_true hQ hl
      refine ⟨c, ?_, pos_none_iff.mp hPc⟩
      rw [amount_eq_key]
      intro hz
      have := key_eq_zero_of_nonneg hn hz pr hpr
      unfold rowKey at this; rw [hQc] at this
      exact hv this
    · obtain ⟨c, j, hQc, hPc, hv⟩ := lacks_true hQ h
      refine ⟨c, ?_, pos_none_iff.mp hPc⟩
      rw [amount_eq_key]; unfold key; rw [hQc]
      simp only []
      rwa [get_total (pos_lt hQc)] at hv
  · rintro ⟨c, ha, hc⟩
    have hPc := pos_none_iff.mpr hc
    rw [amount_eq_key] at ha
    cases hQc : pos (w.pkgOf x) c with
    | none => unfold key at ha; rw [hQc] at ha; exact absurd rfl ha
    | some j =>
      split
      · obtain ⟨pr, hpr, hv⟩ := key_ne_zero_exists ha
        unfold rowKey at hv; rw [hQc] at hv
        exact List.any_eq_true.mpr ⟨pr, hpr, lacks_of hQc hPc hv⟩
      · unfold key at ha; rw [hQc] at ha
        simp only [] at ha
        rw [← get_total (pos_lt hQc)] at ha
        exact lacks_of hQc hPc ha

/-- a world whose packages list no chemical twice -/
def PkgsNodup (w : World) : Prop := ∀ P ∈ w.pkgs, P.Nodup

theorem pkgOf_nodup {w : World} (h : PkgsNodup w) (s : Strm) : (w.pkgOf s).Nodup := by
  unfold World.pkgOf
  rw [List.getD_eq_getElem?_getD]
  cases hk : w.pkgs[s.pkg]? with
  | none => simp
  | some P => exact h P (List.mem_of_getElem? hk)

/-- **The error branch of mixing.**  With valid stream indices and non-negative inlets, `mix_from`
raises exactly when some inlet holds a chemical that the receiver's package lacks -/
theorem mix_undefined_iff {w : World} {r : Nat} {ins : List Nat} {sr : Strm} (hw : PkgsNodup w)
    (hr : w.strms[r]? = some sr) (hins : ∀ i ∈ ins, i < w.strms.length)
    (hnn : ∀ i ∈ ins, ∀ s, w.strms[i]? = some s → NonNeg s) :
    (∃ e, mix w r ins = .error e) ↔ ∃ i ∈ ins, ∃ c, w.amount i c ≠ 0 ∧ c ∉ w.pkgOf sr := by
  obtain ⟨xs, hxs⟩ := getAll_of_valid w ins hins
  have hf := getAll_ok hxs
  have hmix : mix w r ins =
      (if (xs.filter (fun x => !x.isEmpty)).isEmpty then .ok (w.setStrm r (sr.zeroed (w.pkgOf sr).length))
       else mixIndexer w sr (xs.filter (fun x => !x.isEmpty)) >>= fun r' => .ok (w.setStrm r r')) := by
    unfold mix
    rw [get?_ok.mpr hr, hxs]; rfl
  rw [hmix]
  constructor
  · rintro ⟨e, he⟩
    split at he
    · cases he
    · rcases bind_error.mp he with he | ⟨r', _, he⟩
      · unfold mixIndexer at he
        rcases bind_error.mp he with he | ⟨cs, _, he⟩
        · obtain ⟨x, hx, hxe⟩ := contribsAll_error he
          obtain ⟨_, hp, hb⟩ := contribs_error hxe
          have hxm := (List.mem_filter.mp hx).1
          obtain ⟨i, hi, hsi⟩ := forall₂_mem_right hf hxm
          obtain ⟨c, hc, hcr⟩ := (contribBad_iff (pkgOf_nodup hw x) (hnn i hi x hsi)).mp hb
          exact ⟨i, hi, c, by rw [amount_of_get hsi]; exact hc, hcr⟩
        · split at he <;> cases he
      · cases he
  · rintro ⟨i, hi, c, hc, hcr⟩
    obtain ⟨x, hx, hsi⟩ := forall₂_mem_left hf hi
    rw [amount_of_get hsi] at hc
    have hne : x.isEmpty = false := by
      cases he : x.isEmpty with
      | false => rfl
      | true => exact absurd (amount_of_isEmpty he c) hc
    have hlive : x ∈ xs.filter (fun x => !x.isEmpty) := List.mem_filter.mpr ⟨hx, by simp [hne]⟩
    have hp : x.pkg ≠ sr.pkg := by
      intro hp
      rw [amount_eq_key, pkgOf_eq_of_pkg hp] at hc
      unfold key at hc
      rw [pos_none_iff.mpr hcr] at hc
      exact hc rfl
    have hb := (contribBad_iff (r := sr) (pkgOf_nodup hw x) (hnn i hi x hsi)).mpr ⟨c, hc, hcr⟩
    obtain ⟨e, he⟩ := contribsAll_error_of hlive (contribs_error_of hp hb)
    have hnil : (xs.filter (fun x => !x.isEmpty)).isEmpty = false := by
      cases hl : xs.filter (fun x => !x.isEmpty) with
      | nil => rw [hl] at hlive; cases hlive
      | cons _ _ => rfl
    refine ⟨e, ?_⟩
    rw [hnil]
    simp only [Bool.false_eq_true, if_false]
    unfold mixIndexer
    rw [he]; rfl

theorem mixIndexer_ok_of_contribs {w : World} {r : Strm} {xs : List Strm} {cs : PhRows}
    (h : contribsAll w r xs = .ok cs) : ∃ r', mixIndexer w r xs = .ok r' := by
  unfold mixIndexer
  rw [h]
  simp only [bind, Except.bind]
  split
  · exact ⟨_, rfl⟩
  · exact ⟨_, rfl⟩

/-- the only error `mix_from` raises on valid streams is `UndefinedChemicalAlias` -/
theorem mix_error_kind {w : World} {r : Nat} {ins : List Nat} {e : Err} (hr : r < w.strms.length)
    (hins : ∀ i ∈ ins, i < w.strms.length) (h : mix w r ins = .error e) : e = .undefinedChemical := by
  obtain ⟨xs, hxs⟩ := getAll_of_valid w ins hins
  unfold mix at h
  rw [get?_ok.mpr (List.getElem?_eq_getElem hr), hxs] at h
  simp only [bind, Except.bind] at h
  split at h
  · cases h
  · cases hc : contribsAll w w.strms[r] (xs.filter (fun x => !x.isEmpty)) with
    | error e' =>
      obtain ⟨x, _, hxe⟩ := contribsAll_error hc
      have := (contribs_error hxe).1
      unfold mixIndexer at h
      rw [hc] at h
      simp only [bind, Except.bind] at h
      cases h; exact this
    | ok cs =>
      obtain ⟨r', hr'⟩ := mixIndexer_ok_of_contribs hc
      rw [hr'] at h
      cases h

/-! ### copy with removal -/

theorem key_single (P : List Nat) (p : Char) (r : Row) (c : Nat) : key P [(p, r)] c = rowKey P r c := by
  rw [key_cons, key_nil]; ring

theorem contains_filterMap_pos {P Q : List Nat} {K : List Nat} {kp : Nat} :
    (K.filterMap (fun k => pos P (Q.getD k 0))).contains kp = true ↔ ∃ k ∈ K, pos P (Q.getD k 0) = some kp := by
  simp [List.mem_filterMap]

/-- does `copy_flow` actually move chemical `c` (selected, and kept by the other-package filter) -/
def keptHas (P Q : List Nat) (same : Bool) (t : Row) (sel : Sel) (c : Nat) : Bool :=
  match sel with
  | .nothing => false
  | .everything => true
  | .some K => match pos Q c with
    | some k => (keptSel P Q same t K).contains k
    | none => false

theorem copySingle_kept {w w' : World} {d s : Nat} {ids : IDs} {ex : Bool} {d0 ss : Strm}
    (h : copySingle w d s ids true ex = .ok w') (hds : d ≠ s) (hd : w.strms[d]? = some d0)
    (hs : w.strms[s]? = some ss) (hQ : (w.pkgOf ss).Nodup) (c : Nat) :
    ∃ sel, selection (w.pkgOf ss) ids ex = .ok sel ∧
      ((keptHas (w.pkgOf d0) (w.pkgOf ss) (d0.pkg == ss.pkg) (ss.total (w.pkgOf ss).length) sel c = true ∧
        w'.amount d c = w.amount s c ∧ w'.amount s c = 0) ∨
       (keptHas (w.pkgOf d0) (w.pkgOf ss) (d0.pkg == ss.pkg) (ss.total (w.pkgOf ss).length) sel c = false ∧
        w'.amount d c = w.amount d c ∧ w'.amount s c = w.amount s c)) := by
  unfold copySingle at h
  rw [get?_ok.mpr hd, get?_ok.mpr hs] at h
  simp only [bind, Except.bind] at h
  have hex : ∃ sel, selection (w.pkgOf ss) ids ex = .ok sel := by
    cases hq : selection (w.pkgOf ss) ids ex with
    | error e => rw [hq] at h; cases h
    | ok sel => exact ⟨sel, rfl⟩
  obtain ⟨sel, hsel⟩ := hex
  rw [hsel] at h
  simp only [] at h
  refine ⟨sel, hsel, ?_⟩
  have hsame : (d0.pkg == ss.pkg) = true → w.pkgOf d0 = w.pkgOf ss := fun e => pkgOf_same e
  rw [amount_of_get hs, amount_of_get hd]
  cases sel with
  | nothing =>
    simp only [] at h; cases h
    right; exact ⟨rfl, amount_of_get hd c, amount_of_get hs c⟩
  | everything =>
    simp only [] at h
    split at h
    · cases h
    · rename_i hbad
      simp only [Bool.not_eq_true] at hbad
      simp only [if_true] at h
      obtain ⟨s1, hs1, h⟩ := bind_ok.mp h
      cases h
      have hs1' := get?_ok.mp hs1
      rw [getElem?_setStrm_other hds] at hs1'
      rw [hs] at hs1'; cases hs1'
      left
      refine ⟨rfl, ?_⟩
      constructor
      · rw [amount_setStrm_other (Ne.symm hds), amount_setStrm_same hd, amount_eq_key, amount_eq_key]
        have e : w.pkgOf { d0 with ph := [(d0.phase, tab (w.pkgOf d0).length (conv (w.pkgOf d0) (w.pkgOf ss) (d0.pkg == ss.pkg) (ss.total (w.pkgOf ss).length)).get)] } = w.pkgOf d0 := rfl
        rw [e, key_single, rowKey_tab_get, rowKey_conv hsame hbad, rowKey_total]
      · rw [amount_setStrm_same (by rw [getElem?_setStrm_other hds]; exact hs), amount_zeroed]
  | some K =>
    simp only [] at h
    split at h
    · cases h
    · rename_i hbad
      simp only [Bool.not_eq_true] at hbad
      simp only [if_true] at h
      obtain ⟨s1, hs1, h⟩ := bind_ok.mp h
      cases h
      have hs1' := get?_ok.mp hs1
      rw [getElem?_setStrm_other hds] at hs1'
      rw [hs] at hs1'; cases hs1'
      have hKlt := selection_lt hsel
      -- abbreviations
      simp only [keptHas]
      generalize hK' : keptSel (w.pkgOf d0) (w.pkgOf ss) (d0.pkg == ss.pkg) (ss.total (w.pkgOf ss).length) K = K' at hbad ⊢
      have hK'lt : ∀ k ∈ K', k < (w.pkgOf ss).length := by
        intro k hk
        subst hK'
        unfold keptSel at hk
        split at hk
        · exact hKlt k hk
        · exact hKlt k (List.mem_filter.mp hk).1
      rw [amount_setStrm_other (Ne.symm hds), amount_setStrm_same hd,
        amount_setStrm_same (by rw [getElem?_setStrm_other hds]; exact hs)]
      rw [amount_eq_key, amount_eq_key, amount_eq_key, amount_eq_key]
      simp only [pkgOf_setStrm]
      have e1 : ∀ ph, w.pkgOf { d0 with ph := ph } = w.pkgOf d0 := fun _ => rfl
      have e2 : w.pkgOf { ss with ph := ss.ph.map (fun pr => (pr.1, zeroAt (w.pkgOf ss).length K' pr.2)) } = w.pkgOf ss := rfl
      rw [e1, e2, key_single]
      -- the source after removal, row by row
      have hsrc : ∀ (moved : Bool), (∀ j, pos (w.pkgOf ss) c = some j → (K'.contains j = moved)) →
          key (w.pkgOf ss) (ss.ph.map (fun pr => (pr.1, zeroAt (w.pkgOf ss).length K' pr.2))) c =
            if moved then 0 else key (w.pkgOf ss) ss.ph c := by
        intro moved hm
        rw [key_eq_rsum, key_eq_rsum, List.map_map]
        cases hQc : pos (w.pkgOf ss) c with
        | none =>
          have z1 : ∀ r : Row, rowKey (w.pkgOf ss) r c = 0 := fun r => by unfold rowKey; rw [hQc]
          simp only [Function.comp, z1]
          cases moved <;> simp [rsum_map_zero]
        | some j =>
          have hj := pos_lt hQc
          have := hm j hQc
          cases moved with
          | true =>
            simp only [if_true]
            apply rsum_map_zero
            intro pr _
            simp only [Function.comp, rowKey, hQc]
            rw [get_zeroAt hj, this]; rfl
          | false =>
            simp only [Bool.false_eq_true, if_false]
            apply rsum_map_congr
            intro pr _
            simp only [Function.comp, rowKey, hQc]
            rw [get_zeroAt hj, this]; rfl
      cases hQc : pos (w.pkgOf ss) c with
      | none =>
        -- the source does not know `c`: nothing to move
        right
        refine ⟨rfl, ?_⟩
        constructor
        · cases hPc : pos (w.pkgOf d0) c with
          | none => unfold rowKey key; rw [hPc]
          | some kp =>
            unfold rowKey key; rw [hPc]
            simp only []
            rw [get_overwrite (pos_lt hPc), get_total (pos_lt hPc)]
            split
            · rename_i hin
              -- `kp` selected means `c` is a chemical of the source
              exfalso
              unfold destSel at hin
              cases hsm : (d0.pkg == ss.pkg) with
              | true =>
                rw [hsm] at hin; simp only [if_true] at hin
                rw [hsame hsm] at hPc; rw [hPc] at hQc; cases hQc
              | false =>
                rw [hsm] at hin; simp only [Bool.false_eq_true, if_false] at hin
                obtain ⟨k, hk, hkp⟩ := contains_filterMap_pos.mp hin
                have h1 := pos_getD hkp
                have h2 := pos_getD hPc
                have hmem : (w.pkgOf ss).getD k 0 ∈ w.pkgOf ss := by
                  rw [List.getD_eq_getElem?_getD, List.getElem?_eq_getElem (hK'lt k hk)]; simp
                rw [← h1, h2] at hmem
                exact pos_none_iff.mp hQc hmem
            · rfl
        · rw [hsrc false (fun j hj => by rw [hQc] at hj; cases hj)]; simp
      | some k =>
        have hk := pos_lt hQc
        have htot : key (w.pkgOf ss) ss.ph c = (ss.total (w.pkgOf ss).length).get k := by
          unfold key; rw [hQc]; exact (get_total hk ss).symm
        cases hin : K'.contains k with
        | true =>
          left
          refine ⟨hin, ?_⟩
          refine ⟨?_, by rw [hsrc true (fun j hj => by rw [hQc] at hj; cases hj; exact hin)]; simp⟩
          rw [htot]
          cases hPc : pos (w.pkgOf d0) c with
          | none =>
            -- the destination lacks `c`: it was kept only if nothing flows
            unfold rowKey; rw [hPc]
            cases hsm : (d0.pkg == ss.pkg) with
            | true => rw [hsame hsm] at hPc; rw [hPc] at hQc; cases hQc
            | false =>
              unfold convBad at hbad; rw [hsm] at hbad
              simp at hbad
              have := lacks_false hbad hQc hPc
              rw [get_keepAt hk, hin] at this
              simpa using this.symm
          | some kp =>
            unfold rowKey; rw [hPc]
            simp only []
            rw [get_overwrite (pos_lt hPc)]
            unfold destSel
            cases hsm : (d0.pkg == ss.pkg) with
            | true =>
              have hPQ := hsame hsm
              rw [hPQ] at hPc; rw [hPc] at hQc; cases hQc
              simp only [if_true, hin, conv]
              rw [get_keepAt hk, hin]; rfl
            | false =>
              simp only [Bool.false_eq_true, if_false]
              have hkp : (K'.filterMap (fun k => pos (w.pkgOf d0) ((w.pkgOf ss).getD k 0))).contains kp = true := by
                apply contains_filterMap_pos.mpr
                refine ⟨k, by simpa using hin, ?_⟩
                rw [pos_getD hQc]; exact hPc
              rw [hkp]
              simp only [if_true, conv, Bool.false_eq_true, if_false]
              rw [get_remap _ hPc, hQc]
              simp only []
              rw [get_keepAt hk, hin]; rfl
        | false =>
          right
          refine ⟨hin, ?_⟩
          refine ⟨?_, by rw [hsrc false (fun j hj => by rw [hQc] at hj; cases hj; exact hin)]; simp⟩
          cases hPc : pos (w.pkgOf d0) c with
          | none => unfold rowKey key; rw [hPc]
          | some kp =>
            unfold rowKey key; rw [hPc]
            simp only []
            rw [get_overwrite (pos_lt hPc), get_total (pos_lt hPc)]
            split
            · rename_i hin2
              exfalso
              unfold destSel at hin2
              cases hsm : (d0.pkg == ss.pkg) with
              | true =>
                rw [hsm] at hin2; simp only [if_true] at hin2
                rw [hsame hsm] at hPc; rw [hPc] at hQc; cases hQc
                rw [hin] at hin2; cases hin2
              | false =>
                rw [hsm] at hin2; simp only [Bool.false_eq_true, if_false] at hin2
                obtain ⟨k2, hk2, hkp⟩ := contains_filterMap_pos.mp hin2
                have h1 := pos_getD hkp
                have h2 := pos_getD hPc
                have hk2lt := hK'lt k2 hk2
                have : pos (w.pkgOf ss) ((w.pkgOf ss).getD k2 0) = some k2 := pos_getD_of_nodup hQ hk2lt
                have hcc : (w.pkgOf ss).getD k2 0 = c := by rw [← h1, h2]
                rw [hcc, hQc] at this
                cases this
                have : K'.contains k = true := by simpa using hk2
                rw [hin] at this; cases this
            · rfl

/-- **Copy with removal neither duplicates nor loses material.**  (Which chemicals move: `copy_remove_selected`.) -/
theorem copy_remove_moves {w w' : World} {d s : Nat} {ids : IDs} {ex : Bool} {ss : Strm}
    (h : copySingle w d s ids true ex = .ok w') (hds : d ≠ s)
    (hs : w.strms[s]? = some ss) (hQ : (w.pkgOf ss).Nodup) (c : Nat) :
    (w'.amount d c = w.amount s c ∧ w'.amount s c = 0) ∨
    (w'.amount d c = w.amount d c ∧ w'.amount s c = w.amount s c) := by
  have hd : ∃ d0, w.strms[d]? = some d0 := by
    unfold copySingle at h
    obtain ⟨d0, hd0, _⟩ := bind_ok.mp h
    exact ⟨d0, get?_ok.mp hd0⟩
  obtain ⟨d0, hd⟩ := hd
  obtain ⟨_, _, hk⟩ := copySingle_kept h hds hd hs hQ c
  rcases hk with ⟨_, h1⟩ | ⟨_, h2⟩
  · exact Or.inl h1
  · exact Or.inr h2

/-! ### which chemicals `copy_flow` moves -/

/-- the chemicals the caller asks for: all (`IDs = ...`), the named ones, or — with `exclude` — the chemicals of the
source that are not named -/
def wanted (Q : List Nat) (ids : IDs) (ex : Bool) (c : Nat) : Bool :=
  match ids with
  | .all => !ex
  | .one c0 => (pos Q c).isSome && ((c == c0) != ex)
  | .many cs => (pos Q c).isSome && (cs.contains c != ex)

/-- chemical `c` is among the selected positions -/
def selHas (Q : List Nat) (sel : Sel) (c : Nat) : Bool :=
  match sel with
  | .nothing => false
  | .everything => true
  | .some K => match pos Q c with
    | some k => K.contains k
    | none => false

theorem contains_complement (m : Nat) (bad : List Nat) (k : Nat) :
    (complement m bad).contains k = (decide (k < m) && !bad.contains k) := by
  unfold complement
  rw [Bool.eq_iff_iff]
  simp [List.mem_filter]

theorem pos_inj {Q : List Nat} {c c' k : Nat} (h : pos Q c = some k) (h' : pos Q c' = some k) : c = c' := by
  rw [← pos_getD h, ← pos_getD h']

theorem positions_mem {Q cs K : List Nat} (h : positions Q cs = .ok K) (k : Nat) :
    k ∈ K ↔ ∃ c' ∈ cs, pos Q c' = some k := by
  induction cs generalizing K with
  | nil => simp [positions] at h; subst h; simp
  | cons c0 cs ih =>
    unfold positions at h
    cases hc : pos Q c0 with
    | none => simp [hc, bind, Except.bind] at h
    | some k0 =>
      simp only [hc] at h
      obtain ⟨ks, hks, h⟩ := bind_ok.mp h
      cases h
      simp only [List.mem_cons, ih hks]
      constructor
      · rintro (rfl | ⟨c', hc', hk⟩)
        · exact ⟨c0, Or.inl rfl, hc⟩
        · exact ⟨c', Or.inr hc', hk⟩
      · rintro ⟨c', (rfl | hc'), hk⟩
        · left; rw [hc] at hk; cases hk; rfl
        · right; exact ⟨c', hc', hk⟩

/-- the selection computed by the code is the set of chemicals the caller asks for -/
theorem selHas_eq_wanted {Q : List Nat} {ids : IDs} {ex : Bool} {sel : Sel}
    (h : selection Q ids ex = .ok sel) (c : Nat) : selHas Q sel c = wanted Q ids ex c := by
  unfold selection at h
  unfold wanted
  cases ids with
  | all =>
    simp only [] at h ⊢
    split at h <;> cases h <;> simp_all [selHas]
  | one c0 =>
    simp only [] at h ⊢
    cases hQc : pos Q c with
    | none =>
      have : selHas Q sel c = false := by
        unfold selHas; cases sel <;> simp_all
        all_goals (cases hc0 : pos Q c0 <;> simp_all <;> (split at h <;> simp_all))
      simp [this]
    | some k =>
      cases hc0 : pos Q c0 with
      | none =>
        rw [hc0] at h; simp only [] at h
        split at h
        · rename_i hex
          cases h
          have hne : (c == c0) = false := by
            simp only [beq_eq_false_iff_ne, ne_eq]
            intro e; subst e; rw [hQc] at hc0; cases hc0
          simp only [selHas, hQc]
          rw [contains_complement]
          simp [pos_lt hQc, hne, hex]
        · cases h
      | some k0 =>
        rw [hc0] at h; simp only [] at h
        have hkk : (k == k0) = (c == c0) := by
          rw [Bool.eq_iff_iff]; simp only [beq_iff_eq]
          constructor
          · intro e; subst e; exact pos_inj hQc hc0
          · intro e; subst e; rw [hQc] at hc0; cases hc0; rfl
        split at h
        · rename_i hex
          cases h
          simp only [selHas, hQc, contains_complement, pos_lt hQc, decide_true, Bool.true_and, hex,
            Option.isSome_some, List.contains_cons, List.contains_nil, Bool.or_false, hkk]
          cases (c == c0) <;> rfl
        · rename_i hex
          simp only [Bool.not_eq_true] at hex
          cases h
          simp only [selHas, hQc, hex, Option.isSome_some, Bool.true_and, List.contains_cons, List.contains_nil,
            Bool.or_false, hkk]
          cases (c == c0) <;> rfl
  | many cs =>
    simp only [] at h ⊢
    cases hQc : pos Q c with
    | none =>
      have : selHas Q sel c = false := by
        unfold selHas
        cases sel with
        | nothing => rfl
        | everything =>
          split at h
          · cases h
          · obtain ⟨K, _, h⟩ := bind_ok.mp h; cases h
        | some K => simp [hQc]
      simp [this]
    | some k =>
      have hmem : (∃ c' ∈ cs, pos Q c' = some k) ↔ c ∈ cs := by
        constructor
        · rintro ⟨c', hc', hk⟩; rw [pos_inj hQc hk]; exact hc'
        · intro hc; exact ⟨c, hc, hQc⟩
      split at h
      · rename_i hex
        cases h
        have : (cs.filterMap (pos Q)).contains k = cs.contains c := by
          rw [Bool.eq_iff_iff]
          simp only [List.contains_iff_mem, List.mem_filterMap]
          exact hmem
        simp only [selHas, hQc, contains_complement, pos_lt hQc, decide_true, Bool.true_and, this, hex,
          Option.isSome_some]
        cases cs.contains c <;> rfl
      · rename_i hex
        simp only [Bool.not_eq_true] at hex
        obtain ⟨K, hK, h⟩ := bind_ok.mp h
        cases h
        have : K.contains k = cs.contains c := by
          rw [Bool.eq_iff_iff]
          simp only [List.contains_iff_mem, positions_mem hK k]
          exact hmem
        simp only [selHas, hQc, this, hex, Option.isSome_some, Bool.true_and]
        cases cs.contains c <;> rfl

/-- **Which chemicals copy-with-removal moves.**  `d.copy_flow(s, IDs, remove=True, exclude=…)` onto a single-phase
`d ≠ s`: every chemical the caller asks for (`wanted`) ends up in the destination and leaves the source; every other
chemical stays where it was in both streams. -/
theorem copy_remove_selected {w w' : World} {d s : Nat} {ids : IDs} {ex : Bool} {ss : Strm}
    (h : copySingle w d s ids true ex = .ok w') (hds : d ≠ s)
    (hs : w.strms[s]? = some ss) (hQ : (w.pkgOf ss).Nodup) (c : Nat) :
    if wanted (w.pkgOf ss) ids ex c then w'.amount d c = w.amount s c ∧ w'.amount s c = 0
    else w'.amount d c = w.amount d c ∧ w'.amount s c = w.amount s c := by
  have hd : ∃ d0, w.strms[d]? = some d0 := by
    unfold copySingle at h
    obtain ⟨d0, hd0, _⟩ := bind_ok.mp h
    exact ⟨d0, get?_ok.mp hd0⟩
  obtain ⟨d0, hd⟩ := hd
  obtain ⟨sel, hsel, hk⟩ := copySingle_kept h hds hd hs hQ c
  rw [← selHas_eq_wanted hsel c]
  rcases hk with ⟨hkept, hA⟩ | ⟨hkept, hB⟩
  · -- moved: then it was selected
    have : selHas (w.pkgOf ss) sel c = true := by
      unfold keptHas at hkept; unfold selHas
      cases sel with
      | nothing => cases hkept
      | everything => rfl
      | some K =>
        simp only [] at hkept ⊢
        cases hQc : pos (w.pkgOf ss) c with
        | none => rw [hQc] at hkept; cases hkept
        | some k =>
          rw [hQc] at hkept
          simp only [] at hkept ⊢
          unfold keptSel at hkept
          split at hkept
          · exact hkept
          · have := List.mem_filter.mp (List.contains_iff_mem.mp hkept)
            exact List.contains_iff_mem.mpr this.1
    rw [this]; exact hA
  · cases hsh : selHas (w.pkgOf ss) sel c with
    | false => simpa using hB
    | true =>
      -- selected but dropped by the other-package filter: nothing flows and the destination does not know `c`
      simp only [if_true]
      unfold selHas at hsh; unfold keptHas at hkept
      cases sel with
      | nothing => cases hsh
      | everything => cases hkept
      | some K =>
        simp only [] at hsh hkept
        cases hQc : pos (w.pkgOf ss) c with
        | none => rw [hQc] at hsh; cases hsh
        | some k =>
          rw [hQc] at hsh hkept
          simp only [] at hsh hkept
          unfold keptSel at hkept
          split at hkept
          · rw [hsh] at hkept; cases hkept
          · have hnotmem : k ∉ K.filter (fun k => (ss.total (w.pkgOf ss).length).get k != 0 ||
                (pos (w.pkgOf d0) ((w.pkgOf ss).getD k 0)).isSome) := by
              intro hm
              rw [List.contains_iff_mem.mpr hm] at hkept; cases hkept
            have hkK : k ∈ K := List.contains_iff_mem.mp hsh
            have hz : (ss.total (w.pkgOf ss).length).get k = 0 ∧ pos (w.pkgOf d0) c = none := by
              have h2 : ¬ (((ss.total (w.pkgOf ss).length).get k != 0 ||
                  (pos (w.pkgOf d0) ((w.pkgOf ss).getD k 0)).isSome) = true) :=
                fun e => hnotmem (List.mem_filter.mpr ⟨hkK, e⟩)
              simp only [Bool.or_eq_true, bne_iff_ne, ne_eq, not_or, Decidable.not_not, Bool.not_eq_true,
                Option.isSome_eq_false_iff, Option.isNone_iff_eq_none] at h2
              rw [pos_getD hQc] at h2
              exact h2
            have hs0 : w.amount s c = 0 := by
              rw [amount_of_get hs, amount_eq_key]; unfold key; rw [hQc]
              simp only []
              rw [← get_total (pos_lt hQc)]; exact hz.1
            have hd0 : w.amount d c = 0 := by
              rw [amount_of_get hd, amount_eq_key]; unfold key; rw [hz.2]
            rw [hB.1, hB.2, hs0, hd0]
            exact ⟨rfl, rfl⟩

/-- cut and paste (`IDs = ...`, `remove=True`): everything the source held is now in the destination -/
theorem copy_all_moves {w w' : World} {d s : Nat} (h : copySingle w d s .all true false = .ok w')
    (hds : d ≠ s) (c : Nat) : w'.amount d c = w.amount s c ∧ w'.amount s c = 0 := by
  unfold copySingle at h
  obtain ⟨d0, hd0, h⟩ := bind_ok.mp h
  obtain ⟨ss, hs0, h⟩ := bind_ok.mp h
  have hd := get?_ok.mp hd0
  have hs := get?_ok.mp hs0
  obtain ⟨sel, hsel, h⟩ := bind_ok.mp h
  have hsame : (d0.pkg == ss.pkg) = true → w.pkgOf d0 = w.pkgOf ss := fun e => pkgOf_same e
  unfold selection at hsel
  simp only [Bool.false_eq_true, if_false] at hsel
  cases hsel
  simp only [] at h
  split at h
  · cases h
  · rename_i hbad
    simp only [Bool.not_eq_true] at hbad
    simp only [if_true] at h
    obtain ⟨s1, hs1, h⟩ := bind_ok.mp h
    cases h
    have hs1' := get?_ok.mp hs1
    rw [getElem?_setStrm_other hds] at hs1'
    rw [hs] at hs1'; cases hs1'
    rw [amount_of_get hs]
    constructor
    · rw [amount_setStrm_other (Ne.symm hds), amount_setStrm_same hd, amount_eq_key, amount_eq_key]
      have e : w.pkgOf { d0 with ph := [(d0.phase, tab (w.pkgOf d0).length (conv (w.pkgOf d0) (w.pkgOf ss) (d0.pkg == ss.pkg) (ss.total (w.pkgOf ss).length)).get)] } = w.pkgOf d0 := rfl
      rw [e, key_single, rowKey_tab_get, rowKey_conv hsame hbad, rowKey_total]
    · rw [amount_setStrm_same (by rw [getElem?_setStrm_other hds]; exact hs), amount_zeroed]


/-! ### `MultiStream.copy_flow` (multi-phase destination) -/

theorem get_putCols {n k : Nat} (hk : k < n) (C : Cols) (dst src : Row) :
    (putCols n C dst src).get k = if C.has k then src.get k else dst.get k := by
  unfold putCols; rw [get_tab_lt hk]

theorem get_zeroCols {n k : Nat} (hk : k < n) (C : Cols) (r : Row) :
    (zeroCols n C r).get k = if C.has k then 0 else r.get k := by
  unfold zeroCols; rw [get_tab_lt hk]

theorem get_keepCols {n k : Nat} (hk : k < n) (C : Cols) (r : Row) :
    (keepCols n C r).get k = if C.has k then r.get k else 0 := by
  unfold keepCols; rw [get_tab_lt hk]

/-- one phase, destination row empty at `k`: what leaves the source row arrives in the destination row -/
theorem copyStep_conserves {n k : Nat} (hk : k < n) (C : Cols) (R : Option Char) (ex : Bool) (p : Char)
    (d s : Row) (hd : d.get k = 0) :
    (copyStep n C R true ex p d s).1.get k + (copyStep n C R true ex p d s).2.get k = s.get k := by
  unfold copyStep
  cases ex <;> cases hsel : selK R p <;> cases hC : C.has k <;>
    simp [hsel, get_putCols hk, get_zeroCols hk, get_keepCols hk, get_tab_lt hk, get_vzero, hC, hd]

/-- one phase of the whole-stream cut and paste -/
theorem copyStep_all {n k : Nat} (hk : k < n) (p : Char) (d s : Row) :
    (copyStep n .all none true false p d s).1.get k = s.get k ∧
    (copyStep n .all none true false p d s).2.get k = 0 := by
  unfold copyStep
  simp [selK, get_putCols hk, get_zeroCols hk, Cols.has]

theorem colsum_pairRows_conserves {k : Nat} (step : Char → Row → Row → Row × Row)
    (hstep : ∀ p d s, d.get k = 0 → (step p d s).1.get k + (step p d s).2.get k = s.get k) :
    ∀ (ds ss : PhRows), ds.length = ss.length → (∀ pr ∈ ds, pr.2.get k = 0) →
      colsum (pairRows step ds ss).1 k + colsum (pairRows step ds ss).2 k = colsum ss k := by
  intro ds
  induction ds with
  | nil => intro ss h _; cases ss with
    | nil => simp [pairRows]
    | cons _ _ => simp at h
  | cons x ds ih =>
    obtain ⟨p, d⟩ := x
    intro ss h hz
    cases ss with
    | nil => simp at h
    | cons y ss =>
      obtain ⟨q, s⟩ := y
      have hl : ds.length = ss.length := by simpa using h
      have := ih ss hl (fun pr hpr => hz pr (by simp [hpr]))
      have h0 := hstep p d s (hz (p, d) (by simp))
      simp only [pairRows, colsum_cons]
      linarith

theorem colsum_pairRows_all {k : Nat} (step : Char → Row → Row → Row × Row)
    (hstep : ∀ p d s, (step p d s).1.get k = s.get k ∧ (step p d s).2.get k = 0) :
    ∀ (ds ss : PhRows), ds.length = ss.length →
      colsum (pairRows step ds ss).1 k = colsum ss k ∧ colsum (pairRows step ds ss).2 k = 0 := by
  intro ds
  induction ds with
  | nil => intro ss h; cases ss with
    | nil => simp [pairRows]
    | cons _ _ => simp at h
  | cons x ds ih =>
    obtain ⟨p, d⟩ := x
    intro ss h
    cases ss with
    | nil => simp at h
    | cons y ss =>
      obtain ⟨q, s⟩ := y
      have hl : ds.length = ss.length := by simpa using h
      obtain ⟨i1, i2⟩ := ih ss hl
      obtain ⟨h1, h2⟩ := hstep p d s
      simp only [pairRows, colsum_cons, h1, h2, i1, i2]
      exact ⟨trivial, by ring⟩

/-- the row of phase `q` replaced, all rows empty at `k` -/
theorem colsum_modAt {k : Nat} (q : Char) (f : Row → Row) (v : Rat) {l : PhRows}
    (hq : hasPh l q = true) (hz : ∀ pr ∈ l, pr.2.get k = 0) (hf : ∀ r, r.get k = 0 → (f r).get k = v) :
    colsum (modAt q f l) k = v := by
  induction l with
  | nil => simp [hasPh] at hq
  | cons x l ih =>
    obtain ⟨p, r⟩ := x
    unfold modAt
    have hrest : colsum l k = 0 := by
      unfold colsum; apply rsum_map_zero; intro pr hpr; exact hz pr (by simp [hpr])
    by_cases hp : (p == q) = true
    · simp [hp, hf r (hz (p, r) (by simp)), hrest]
    · have hq' : hasPh l q = true := by
        rw [hasPh_cons] at hq; simpa [hp] using hq
      simp [hp, ih hq' (fun pr hpr => hz pr (by simp [hpr])), hz (p, r) (by simp)]

theorem get_of_all_zero {l : PhRows} (h : l.all (·.2.isZero) = true) (k : Nat) : ∀ pr ∈ l, pr.2.get k = 0 :=
  fun pr hpr => get_of_isZero (List.all_eq_true.mp h pr hpr) k

theorem length_of_keys_eq {a b : PhRows} (h : (a.map (·.1) != b.map (·.1)) = false) : a.length = b.length := by
  have : a.map (·.1) = b.map (·.1) := by simpa using h
  simpa using congrArg List.length this

/-- `copyRows` onto an empty destination: destination plus source afterwards hold what the source held -/
theorem copyRows_conserves {n k : Nat} (hk : k < n) {C : Cols} {R : Option Char} {ex : Bool} {d s : Strm}
    {r : PhRows × Option PhRows} (h : copyRows n C R true ex d s = .ok r) (hd : d.isEmpty = true) :
    colsum r.1 k + colsum (r.2.getD s.ph) k = (s.total n).get k := by
  have hz := get_of_all_zero (l := d.ph) hd k
  rw [get_total hk]
  unfold copyRows at h
  split at h
  · split at h
    · cases h
    · rename_i hph
      simp only [Bool.not_eq_true] at hph
      cases h
      simp only [if_true, Option.getD_some]
      exact colsum_pairRows_conserves _ (fun p d s hd => copyStep_conserves hk C R ex p d s hd) _ _
        (length_of_keys_eq hph) hz
  · rename_i hsm
    simp only [] at h
    split at h
    · cases h
    · rename_i q hq
      have hqd := resolve_hasPh hq
      have htot := get_total hk s
      split at h
      · -- exclude
        cases h
        simp only [if_true, Option.getD_some, colsum_cons, colsum_nil]
        rw [colsum_modAt q _ (if (selK R q && C.has k) = true then 0 else (s.total n).get k) hqd hz]
        · cases hsel : selK R q <;> cases hC : C.has k <;>
            simp [hsel, hC, get_keepCols hk, get_vzero, htot]
        · intro r0 hr0
          cases hsel : selK R q <;> cases hC : C.has k <;>
            simp [hsel, hC, get_putCols hk, get_tab_lt hk, hr0]
      · split at h
        · rename_i hhit
          cases h
          have hz0 : ∀ pr ∈ d.ph.map (fun pr => (pr.1, vzero n)), pr.2.get k = 0 := by
            intro pr hpr
            obtain ⟨x, _, rfl⟩ := List.mem_map.mp hpr
            exact get_vzero n k
          have hq0 : hasPh (d.ph.map (fun pr => (pr.1, vzero n))) q = true := by
            rw [hasPh_map_snd]; exact hqd
          simp only [if_true, Option.getD_some, colsum_cons, colsum_nil]
          rw [colsum_modAt q _ (if C.has k = true then (s.total n).get k else 0) hq0 hz0]
          · cases hC : C.has k <;> simp [hC, get_zeroCols hk, htot]
          · intro r0 _
            cases hC : C.has k <;> simp [hC, get_putCols hk, get_vzero]
        · cases h
          simp only [Option.getD_none, colsum_map_zero]; ring

/-- whole-stream cut and paste through `copyRows` -/
theorem copyRows_all {n k : Nat} (hk : k < n) {d s : Strm} {r : PhRows × Option PhRows}
    (h : copyRows n .all none true false d s = .ok r) :
    colsum r.1 k = (s.total n).get k ∧ ∃ rs, r.2 = some rs ∧ colsum rs k = 0 := by
  rw [get_total hk]
  unfold copyRows at h
  split at h
  · split at h
    · cases h
    · rename_i hph
      simp only [Bool.not_eq_true] at hph
      cases h
      obtain ⟨h1, h2⟩ := colsum_pairRows_all _ (fun p d s => copyStep_all hk p d s) d.ph s.ph (length_of_keys_eq hph)
      exact ⟨h1, _, rfl, h2⟩
  · simp only [] at h
    split at h
    · cases h
    · rename_i q hq
      have hqd := resolve_hasPh hq
      simp only [selK, Bool.false_eq_true, if_false, if_true] at h
      cases h
      have hz0 : ∀ pr ∈ d.ph.map (fun pr => (pr.1, vzero n)), pr.2.get k = 0 := by
        intro pr hpr
        obtain ⟨x, _, rfl⟩ := List.mem_map.mp hpr
        exact get_vzero n k
      have hq0 : hasPh (d.ph.map (fun pr => (pr.1, vzero n))) q = true := by
        rw [hasPh_map_snd]; exact hqd
      refine ⟨?_, _, rfl, ?_⟩
      · rw [colsum_modAt q _ ((s.total n).get k) hq0 hz0]
        · exact get_total hk s
        · intro r0 _; simp [get_putCols hk, Cols.has]
      · simp [get_zeroCols hk, Cols.has]

/-- from the guard of `MultiStream.copy_flow`: both streams read their rows in the same coordinates -/
theorem pkgOf_of_guard {w : World} {d s : Strm} (h : ¬ ((d.pkg != s.pkg && w.pkgOf d != w.pkgOf s) = true)) :
    w.pkgOf d = w.pkgOf s := by
  simp only [Bool.and_eq_true, bne_iff_ne, ne_eq, not_and, Decidable.not_not] at h
  by_cases hp : d.pkg = s.pkg
  · exact pkgOf_eq_of_pkg hp
  · exact h hp

theorem copyFinish_amounts {w w' : World} {d s : Nat} {sd ss : Strm} {r : PhRows × Option PhRows}
    (h : copyFinish w d s sd r = .ok w') (hds : d ≠ s) (hd : w.strms[d]? = some sd) (hs : w.strms[s]? = some ss)
    (c : Nat) :
    w'.amount d c = key (w.pkgOf sd) r.1 c ∧ w'.amount s c = key (w.pkgOf ss) (r.2.getD ss.ph) c := by
  unfold copyFinish at h
  simp only [] at h
  have hs1 : (w.setStrm d { sd with ph := r.1 }).strms[s]? = some ss := by
    rw [getElem?_setStrm_other hds]; exact hs
  have hd1 : (w.setStrm d { sd with ph := r.1 }).amount d c = key (w.pkgOf sd) r.1 c := by
    rw [amount_setStrm_same hd, amount_eq_key]; rfl
  split at h
  · rename_i hnone
    cases h
    rw [hnone]
    exact ⟨hd1, by rw [amount_of_get hs1, amount_eq_key]; rfl⟩
  · rename_i rs hsome
    rw [get?_ok.mpr hs1] at h
    simp only [bind, Except.bind] at h
    cases h
    rw [hsome]
    refine ⟨by rw [amount_setStrm_other (Ne.symm hds)]; exact hd1, ?_⟩
    rw [amount_setStrm_same hs1, amount_eq_key]; rfl

/-- **Copy with removal onto an empty multi-phase destination conserves every chemical**, for every
form of the phase / IDs / exclude arguments and for single- and multi-phase sources -/
theorem copy_multi_conserves {w w' : World} {d s : Nat} {phase : Option Char} {ids : IDs} {ex : Bool}
    {sd ss : Strm} (h : copyMulti w d s phase ids true ex = .ok w') (hds : d ≠ s)
    (hd : w.strms[d]? = some sd) (hs : w.strms[s]? = some ss) (he : sd.isEmpty = true) (c : Nat) :
    w'.amount d c + w'.amount s c = w.amount s c := by
  unfold copyMulti at h
  rw [get?_ok.mpr hd, get?_ok.mpr hs] at h
  simp only [bind, Except.bind] at h
  split at h
  · cases h
  · rename_i hg
    have hPQ := pkgOf_of_guard hg
    split at h
    · cases h
    · rename_i C _
      split at h
      · cases h
      · rename_i R _
        split at h
        · cases h
        · rename_i r hr
          obtain ⟨h1, h2⟩ := copyFinish_amounts h hds hd hs c
          rw [h1, h2, amount_of_get hs, amount_eq_key, ← hPQ]
          unfold key
          cases hP : pos (w.pkgOf sd) c with
          | none => simp
          | some k =>
            simp only []
            have := copyRows_conserves (pos_lt hP) hr he
            rw [this, get_total (pos_lt hP)]

/-- **Cut and paste onto a multi-phase destination** (`phase = ...`, `IDs = ...`, `remove=True`): every
chemical is moved, whatever the destination held -/
theorem copy_multi_all_moves {w w' : World} {d s : Nat} {sd ss : Strm}
    (h : copyMulti w d s none .all true false = .ok w') (hds : d ≠ s)
    (hd : w.strms[d]? = some sd) (hs : w.strms[s]? = some ss) (c : Nat) :
    w'.amount d c = w.amount s c ∧ w'.amount s c = 0 := by
  unfold copyMulti at h
  rw [get?_ok.mpr hd, get?_ok.mpr hs] at h
  simp only [bind, Except.bind, colsOf, phaseOf] at h
  split at h
  · cases h
  · rename_i hg
    have hPQ := pkgOf_of_guard hg
    split at h
    · cases h
    · rename_i r hr
      obtain ⟨h1, h2⟩ := copyFinish_amounts h hds hd hs c
      rw [h1, h2, amount_of_get hs, amount_eq_key, ← hPQ]
      unfold key
      cases hP : pos (w.pkgOf sd) c with
      | none => simp
      | some k =>
        simp only []
        obtain ⟨a1, rs, hrs, a2⟩ := copyRows_all (pos_lt hP) hr
        rw [a1, get_total (pos_lt hP), hrs]
        exact ⟨rfl, a2⟩

theorem colsum_pairRows_pointwise {k : Nat} (step : Char → Row → Row → Row × Row) (b : Bool)
    (hstep : ∀ p d s, d.get k = 0 → (step p d s).1.get k = (if b then s.get k else 0) ∧
      (step p d s).2.get k = (if b then 0 else s.get k)) :
    ∀ (ds ss : PhRows), ds.length = ss.length → (∀ pr ∈ ds, pr.2.get k = 0) →
      colsum (pairRows step ds ss).1 k = (if b then colsum ss k else 0) ∧
      colsum (pairRows step ds ss).2 k = (if b then 0 else colsum ss k) := by
  intro ds
  induction ds with
  | nil => intro ss h _; cases ss with
    | nil => cases b <;> simp [pairRows]
    | cons _ _ => simp at h
  | cons x ds ih =>
    obtain ⟨p, d⟩ := x
    intro ss h hz
    cases ss with
    | nil => simp at h
    | cons y ss =>
      obtain ⟨q, s⟩ := y
      have hl : ds.length = ss.length := by simpa using h
      obtain ⟨i1, i2⟩ := ih ss hl (fun pr hpr => hz pr (by simp [hpr]))
      obtain ⟨h1, h2⟩ := hstep p d s (hz (p, d) (by simp))
      simp only [pairRows, colsum_cons, h1, h2, i1, i2]
      cases b <;> simp

/-- all phases selected (`phase = ...`), destination empty: column `k` is moved exactly when
`C.has k != exclude` -/
theorem copyRows_moves {n k : Nat} (hk : k < n) {C : Cols} {ex : Bool} {d s : Strm}
    {r : PhRows × Option PhRows} (h : copyRows n C none true ex d s = .ok r) (hd : d.isEmpty = true) :
    colsum r.1 k = (if (C.has k != ex) then (s.total n).get k else 0) ∧
    colsum (r.2.getD s.ph) k = (if (C.has k != ex) then 0 else (s.total n).get k) := by
  have hz := get_of_all_zero (l := d.ph) hd k
  rw [get_total hk]
  unfold copyRows at h
  split at h
  · split at h
    · cases h
    · rename_i hph
      simp only [Bool.not_eq_true] at hph
      cases h
      simp only [if_true, Option.getD_some]
      apply colsum_pairRows_pointwise _ (C.has k != ex) _ _ _ (length_of_keys_eq hph) hz
      intro p d0 s0 hd0
      unfold copyStep
      cases ex <;> cases hC : C.has k <;>
        simp [selK, get_putCols hk, get_zeroCols hk, get_keepCols hk, get_tab_lt hk, hC, hd0]
  · simp only [] at h
    split at h
    · cases h
    · rename_i q hq
      have hqd := resolve_hasPh hq
      have htot := get_total hk s
      simp only [selK, if_true] at h
      split at h
      · rename_i hex
        cases h
        simp only [if_true, Option.getD_some, colsum_cons, colsum_nil]
        rw [colsum_modAt q _ (if C.has k = true then 0 else (s.total n).get k) hqd hz]
        · cases hC : C.has k <;> simp [hC, hex, get_keepCols hk, htot]
        · intro r0 hr0
          cases hC : C.has k <;> simp [hC, get_putCols hk, get_tab_lt hk, hr0]
      · rename_i hex
        simp only [Bool.not_eq_true] at hex
        cases h
        have hz0 : ∀ pr ∈ d.ph.map (fun pr => (pr.1, vzero n)), pr.2.get k = 0 := by
          intro pr hpr
          obtain ⟨x, _, rfl⟩ := List.mem_map.mp hpr
          exact get_vzero n k
        have hq0 : hasPh (d.ph.map (fun pr => (pr.1, vzero n))) q = true := by
          rw [hasPh_map_snd]; exact hqd
        simp only [if_true, Option.getD_some, colsum_cons, colsum_nil]
        rw [colsum_modAt q _ (if C.has k = true then (s.total n).get k else 0) hq0 hz0]
        · cases hC : C.has k <;> simp [hC, hex, get_zeroCols hk, htot]
        · intro r0 _
          cases hC : C.has k <;> simp [hC, get_putCols hk, get_vzero]

/-- **Copy with removal onto an empty multi-phase destination, all phases** (`phase = ...`): every chemical
is either moved entirely or stays entirely in the source -/
theorem copy_multi_remove_moves {w w' : World} {d s : Nat} {ids : IDs} {ex : Bool}
    {sd ss : Strm} (h : copyMulti w d s none ids true ex = .ok w') (hds : d ≠ s)
    (hd : w.strms[d]? = some sd) (hs : w.strms[s]? = some ss) (he : sd.isEmpty = true) (c : Nat) :
    (w'.amount d c = w.amount s c ∧ w'.amount s c = 0) ∨
    (w'.amount d c = 0 ∧ w'.amount s c = w.amount s c) := by
  unfold copyMulti at h
  rw [get?_ok.mpr hd, get?_ok.mpr hs] at h
  simp only [bind, Except.bind, phaseOf] at h
  split at h
  · cases h
  · rename_i hg
    have hPQ := pkgOf_of_guard hg
    split at h
    · cases h
    · rename_i C _
      split at h
      · cases h
      · rename_i r hr
        obtain ⟨h1, h2⟩ := copyFinish_amounts h hds hd hs c
        rw [h1, h2, amount_of_get hs, amount_eq_key, ← hPQ]
        unfold key
        cases hP : pos (w.pkgOf sd) c with
        | none => left; simp
        | some k =>
          simp only []
          obtain ⟨a1, a2⟩ := copyRows_moves (pos_lt hP) hr he
          rw [a1, a2, get_total (pos_lt hP)]
          cases (C.has k != ex) <;> simp

/-- is chemical `c` named by the IDs argument -/
def idsHas (ids : IDs) (c : Nat) : Bool :=
  match ids with
  | .all => true
  | .one c0 => c == c0
  | .many cs => cs.contains c

theorem colsOf_has {P : List Nat} {ids : IDs} {C : Cols} (h : colsOf P ids = .ok C) {c k : Nat}
    (hP : pos P c = some k) : C.has k = idsHas ids c := by
  unfold colsOf at h
  cases ids with
  | all => simp only [] at h; cases h; rfl
  | one c0 =>
    simp only [] at h
    cases hc0 : pos P c0 with
    | none => rw [hc0] at h; cases h
    | some k0 =>
      rw [hc0] at h; cases h
      simp only [Cols.has, idsHas]
      rw [Bool.eq_iff_iff]; simp only [beq_iff_eq]
      constructor
      · intro e; subst e; exact pos_inj hP hc0
      · intro e; subst e; rw [hP] at hc0; cases hc0; rfl
  | many cs =>
    simp only [] at h
    cases hK : positions P cs with
    | error e => rw [hK] at h; cases h
    | ok K =>
      rw [hK] at h; cases h
      simp only [Cols.has, idsHas]
      rw [Bool.eq_iff_iff]
      simp only [List.contains_iff_mem, positions_mem hK k]
      constructor
      · rintro ⟨c', hc', hk⟩; rw [pos_inj hP hk]; exact hc'
      · intro hc; exact ⟨c, hc, hP⟩

/-- **Which chemicals copy-with-removal onto an empty multi-phase destination moves** (`phase = ...`): the
chemicals named by `IDs` (with `exclude`: the others) end up in the destination and leave the source; the rest
stays in the source. -/
theorem copy_multi_remove_selected {w w' : World} {d s : Nat} {ids : IDs} {ex : Bool}
    {sd ss : Strm} (h : copyMulti w d s none ids true ex = .ok w') (hds : d ≠ s)
    (hd : w.strms[d]? = some sd) (hs : w.strms[s]? = some ss) (he : sd.isEmpty = true) (c : Nat) :
    if (pos (w.pkgOf sd) c).isSome && (idsHas ids c != ex) then w'.amount d c = w.amount s c ∧ w'.amount s c = 0
    else w'.amount d c = 0 ∧ w'.amount s c = w.amount s c := by
  unfold copyMulti at h
  rw [get?_ok.mpr hd, get?_ok.mpr hs] at h
  simp only [bind, Except.bind, phaseOf] at h
  split at h
  · cases h
  · rename_i hg
    have hPQ := pkgOf_of_guard hg
    split at h
    · cases h
    · rename_i C hC
      split at h
      · cases h
      · rename_i r hr
        obtain ⟨h1, h2⟩ := copyFinish_amounts h hds hd hs c
        rw [h1, h2, amount_of_get hs, amount_eq_key, ← hPQ]
        unfold key
        cases hP : pos (w.pkgOf sd) c with
        | none => simp
        | some k =>
          simp only [Option.isSome_some, Bool.true_and]
          obtain ⟨a1, a2⟩ := copyRows_moves (pos_lt hP) hr he
          rw [a1, a2, get_total (pos_lt hP), colsOf_has hC hP]
          cases (idsHas ids c != ex) <;> simp

/-- a single-phase source without `exclude`: the destination is emptied first (`data[:] = 0.`), so whatever it held
is discarded; column `k` then holds the source's entry when selected -/
theorem copyRows_single_overwrites {n k : Nat} (hk : k < n) {C : Cols} {rm : Bool} {d s : Strm}
    {r : PhRows × Option PhRows} (h : copyRows n C none rm false d s = .ok r) (hs : s.multi = false) :
    colsum r.1 k = if C.has k then (s.total n).get k else 0 := by
  unfold copyRows at h
  simp only [hs, Bool.false_eq_true, if_false, selK, if_true] at h
  split at h
  · cases h
  · rename_i q hq
    cases h
    have hz0 : ∀ pr ∈ d.ph.map (fun pr => (pr.1, vzero n)), pr.2.get k = 0 := by
      intro pr hpr
      obtain ⟨x, _, rfl⟩ := List.mem_map.mp hpr
      exact get_vzero n k
    have hq0 : hasPh (d.ph.map (fun pr => (pr.1, vzero n))) q = true := by
      rw [hasPh_map_snd]; exact resolve_hasPh hq
    rw [colsum_modAt q _ (if C.has k = true then (s.total n).get k else 0) hq0 hz0]
    intro r0 _
    cases hC : C.has k <;> simp [hC, get_putCols hk, get_vzero]

/-- **What happens to the destination's own content** when a single-phase stream is copied onto a multi-phase
destination without `exclude`: it is discarded (also in the other phases); afterwards the destination holds exactly
the selected chemicals of the source. -/
theorem copy_multi_single_source_overwrites {w w' : World} {d s : Nat} {ids : IDs} {rm : Bool} {sd ss : Strm}
    (h : copyMulti w d s none ids rm false = .ok w') (hds : d ≠ s)
    (hd : w.strms[d]? = some sd) (hs : w.strms[s]? = some ss) (hsingle : ss.multi = false) (c : Nat) :
    w'.amount d c = if (pos (w.pkgOf sd) c).isSome && idsHas ids c then w.amount s c else 0 := by
  unfold copyMulti at h
  rw [get?_ok.mpr hd, get?_ok.mpr hs] at h
  simp only [bind, Except.bind, phaseOf] at h
  split at h
  · cases h
  · rename_i hg
    have hPQ := pkgOf_of_guard hg
    split at h
    · cases h
    · rename_i C hC
      split at h
      · cases h
      · rename_i r hr
        obtain ⟨h1, _⟩ := copyFinish_amounts h hds hd hs c
        rw [h1, amount_of_get hs, amount_eq_key, ← hPQ]
        unfold key
        cases hP : pos (w.pkgOf sd) c with
        | none => simp
        | some k =>
          simp only [Option.isSome_some, Bool.true_and]
          rw [copyRows_single_overwrites (pos_lt hP) hr hsingle, get_total (pos_lt hP), colsOf_has hC hP]

/-- the enthalpy setter's phase flip leaves every flow alone -/
theorem flipPhase_amount (w : World) (i : Nat) (p : Char) (j c : Nat) : (flipPhase w i p).amount j c = w.amount j c := by
  unfold flipPhase
  cases hs : w.strms[i]? with
  | none => rfl
  | some s =>
    simp only []
    split
    · by_cases hij : i = j
      · subst hij
        rw [amount_setStrm_same hs, amount_of_get hs, amount_eq_key, amount_eq_key]
        cases hph : s.ph with
        | nil => rfl
        | cons x rest =>
          obtain ⟨q, r⟩ := x
          show key (w.pkgOf s) ((p, r) :: rest) c = key (w.pkgOf s) ((q, r) :: rest) c
          rw [key_cons, key_cons]
      · exact amount_setStrm_other hij _ c
    · rfl

/-! ### mixing with the energy balance on: `copy_like` for exactly one non-empty inlet -/

/-- the five phase letters -/
def validPhase (p : Char) : Bool := p == 's' || p == 'l' || p == 'g' || p == 'S' || p == 'L'

/-- every phase of the stream is one of `s l g S L` -/
def ValidPh (s : Strm) : Prop := ∀ pr ∈ s.ph, validPhase pr.1 = true

theorem validPhase_cases {p : Char} (h : validPhase p = true) : p = 's' ∨ p = 'l' ∨ p = 'g' ∨ p = 'S' ∨ p = 'L' := by
  unfold validPhase at h
  simp only [Bool.or_eq_true, beq_iff_eq] at h
  tauto

/-- two phase letters of the same class are equal or each other's other case -/
theorem lower_eq_cases {a b : Char} (ha : validPhase a = true) (hb : validPhase b = true)
    (h : a.toLower = b.toLower) : a = b ∨ swapc b = a := by
  rcases validPhase_cases ha with rfl | rfl | rfl | rfl | rfl <;>
    rcases validPhase_cases hb with rfl | rfl | rfl | rfl | rfl <;> revert h <;> decide

theorem hasPh_of_mem {l : PhRows} {pr : Char × Row} (h : pr ∈ l) : hasPh l pr.1 = true := by
  unfold hasPh; exact List.any_eq_true.mpr ⟨pr, h, by simp⟩

theorem hasPh_iff_mem_keys {l : PhRows} {p : Char} : hasPh l p = true ↔ p ∈ l.map (·.1) := by
  unfold hasPh
  simp [List.any_eq_true]

/-- equal lower-case phase strings: every phase of `x` resolves among the phases of `r` -/
theorem resolve_of_compat {r x : PhRows} (hr : ∀ pr ∈ r, validPhase pr.1 = true) (hx : ∀ pr ∈ x, validPhase pr.1 = true)
    (h : compat r = compat x) : ∀ pr ∈ x, (resolve r pr.1).isSome = true := by
  intro pr hpr
  have hmem : pr.1.toLower ∈ compat x := by
    unfold compat; exact List.mem_map.mpr ⟨pr, hpr, rfl⟩
  rw [← h] at hmem
  obtain ⟨qr, hqr, hq⟩ := List.mem_map.mp hmem
  rcases lower_eq_cases (hr qr hqr) (hx pr hpr) hq with e | e
  · rw [← e, resolve_of_hasPh (hasPh_of_mem hqr)]; rfl
  · unfold resolve
    by_cases h1 : hasPh r pr.1 = true
    · simp [h1]
    · have h2 : hasPh r (swapc pr.1) = true := by rw [e]; exact hasPh_of_mem hqr
      simp [h1, h2]

theorem key_map_conv {P Q : List Nat} {same : Bool} (hs : same = true → P = Q) {l : PhRows}
    (hb : l.any (fun pr => convBad P Q same pr.2) = false) (c : Nat) :
    key P (l.map (fun pr => (pr.1, tab P.length (conv P Q same pr.2).get))) c = key Q l c := by
  rw [key_eq_rsum, key_eq_rsum, List.map_map]
  apply rsum_map_congr
  intro pr hpr
  have := List.any_eq_false.mp hb pr hpr
  simp only [Function.comp]
  rw [rowKey_tab_get, rowKey_conv hs (by simpa using this)]

theorem key_pour {P : List Nat} (base cs : PhRows) (hres : ∀ pr ∈ cs, (resolve base pr.1).isSome = true) (c : Nat) :
    key P (pour P.length base cs) c = key P base c + key P cs c := by
  unfold key
  cases hP : pos P c with
  | none => simp
  | some k => simp only []; exact colsum_pour (pos_lt hP) base cs hres

/-- `copy_like` hands over exactly what the source holds -/
theorem copyLike_key {P Q : List Nat} {same : Bool} (hs : same = true → P = Q) {r x r' : Strm}
    (h : copyLike P Q same r x = .ok r') (hvr : ValidPh r) (hvx : ValidPh x) (c : Nat) :
    r'.pkg = r.pkg ∧ key P r'.ph c = key Q x.ph c := by
  unfold copyLike at h
  simp only [] at h
  split at h
  · cases h
  · rename_i hbad
    simp only [Bool.not_eq_true] at hbad
    split at h
    · cases h
      exact ⟨rfl, key_map_conv hs hbad c⟩
    · cases h
      refine ⟨rfl, ?_⟩
      simp only []
      rw [key_pour, key_map_conv hs hbad c]
      · have : key P (List.map (fun pr => (pr.1, vzero P.length))
            (if (if x.multi = true then
                  (List.map (fun x => x.1) r.ph == List.map (fun x => x.1) x.ph || compat r.ph == compat x.ph)
                else x.ph.all fun pr => (resolve r.ph pr.1).isSome) = true
              then r.ph else expand P.length r.ph (List.map (fun x => x.1) x.ph))) c = 0 := by
          unfold key; cases pos P c with
          | none => rfl
          | some k => exact colsum_map_zero _ _ k
        rw [this]; ring
      · intro pr hpr
        obtain ⟨px, hpx, rfl⟩ := List.mem_map.mp hpr
        simp only []
        rw [resolve_congr (hasPh_map_snd _ (fun _ => vzero P.length)) px.1]
        have hexp : (resolve (expand P.length r.ph (x.ph.map (·.1))) px.1).isSome = true := by
          rw [resolve_of_hasPh (hasPh_expand_mem _ _ _ _ (List.mem_map_of_mem hpx))]; rfl
        by_cases hm : x.multi = true
        · simp only [hm, if_true]
          by_cases hk : (r.ph.map (·.1) == x.ph.map (·.1) || compat r.ph == compat x.ph) = true
          · simp only [hk, if_true]
            simp only [Bool.or_eq_true, beq_iff_eq] at hk
            rcases hk with hk | hk
            · have : px.1 ∈ r.ph.map (·.1) := by rw [hk]; exact List.mem_map_of_mem hpx
              rw [resolve_of_hasPh (hasPh_iff_mem_keys.mpr this)]; rfl
            · exact resolve_of_compat hvr hvx hk px hpx
          · simp only [hk]; exact hexp
        · simp only [hm]
          by_cases hk : (x.ph.all fun pr => (resolve r.ph pr.1).isSome) = true
          · simp only [hk, if_true]
            exact List.all_eq_true.mp hk px hpx
          · simp only [hk]; exact hexp

theorem amount_of_not_liveAt {w : World} {i : Nat} (h : w.liveAt i = false) (c : Nat) : w.amount i c = 0 := by
  unfold World.liveAt at h
  unfold World.amount
  cases hs : w.strms[i]? with
  | none => rfl
  | some s =>
    rw [hs] at h
    simp only [Bool.not_eq_false'] at h
    exact amount_of_isEmpty h c

/-- **Mixing with the library default `energy_balance=True`** (exactly one non-empty inlet is copied with
`copy_like`, otherwise the indexer mix runs): the receiver holds the sum of the inlets, chemical by chemical. -/
theorem mixE_total {w w' : World} {r : Nat} {ins : List Nat} {eb : Bool} (h : mixE w r ins eb = .ok w')
    (hv : ∀ s ∈ w.strms, ValidPh s) (c : Nat) :
    w'.amount r c = rsum (ins.map (fun i => w.amount i c)) := by
  unfold mixE at h
  obtain ⟨r0, hr0, h⟩ := bind_ok.mp h
  obtain ⟨xs, _, h⟩ := bind_ok.mp h
  have hr := get?_ok.mp hr0
  have hsum : rsum (ins.map (fun i => w.amount i c)) = rsum ((ins.filter w.liveAt).map (fun i => w.amount i c)) :=
    (rsum_filter_of_zero ins w.liveAt (fun i => w.amount i c) (fun i _ hi => amount_of_not_liveAt hi c)).symm
  split at h
  · rename_i xi hlive
    split at h
    · exact mix_total h c
    · split at h
      · rename_i hxr
        cases h
        rw [hsum, hlive, hxr]; simp
      · obtain ⟨x, hx, h⟩ := bind_ok.mp h
        obtain ⟨r', hr', h⟩ := bind_ok.mp h
        cases h
        have hx' := get?_ok.mp hx
        obtain ⟨hpkg, hk⟩ := copyLike_key (fun hs => (pkgOf_same (w := w) hs).symm) hr'
          (hv r0 (List.mem_of_getElem? hr)) (hv x (List.mem_of_getElem? hx')) c
        rw [amount_setStrm_same hr, pkgOf_eq_of_pkg hpkg, amount_eq_key, hk, hsum, hlive]
        simp [amount_of_get hx', amount_eq_key]
  · exact mix_total h c

/-- `Stream.sum(streams, thermo=pkg)` with the library default `energy_balance=True` -/
theorem sumE_total {w w' : World} {pkg : Nat} {ins : List Nat} {eb : Bool} (h : sumNewE w pkg ins eb = .ok w')
    (hins : ∀ i ∈ ins, i < w.strms.length) (hv : ∀ s ∈ w.strms, ValidPh s) (c : Nat) :
    w'.amount w.strms.length c = rsum (ins.map (fun i => w.amount i c)) := by
  unfold sumNewE at h
  have hv1 : ∀ s ∈ (w.strms ++ [{ pkg := pkg, multi := false, ph := [('l', vzero (w.pkgs.getD pkg []).length)] }]), ValidPh s := by
    intro s hs
    simp only [List.mem_append, List.mem_singleton] at hs
    rcases hs with hs | rfl
    · exact hv s hs
    · intro pr hpr
      simp only [List.mem_singleton] at hpr
      subst hpr; rfl
  rw [mixE_total h hv1 c]
  apply rsum_map_congr
  intro i hi
  exact amount_append_old w _ (hins i hi) c

/-! ### phase views as operands -/

/-- what an operand holds of chemical `c` (a phase view: the row of its phase, read in the parent's package) -/
def refAmount (w : World) : Ref → Nat → Rat
  | .strm i, c => w.amount i c
  | .view j p, c =>
    match w.strms[j]? with
    | some s =>
      if s.multi then
        match resolve s.ph p with
        | some q => rowKey (w.pkgOf s) (rowOf s.ph q) c
        | none => 0
      else w.amount j c
    | none => 0

/-- `w1` extends `w`: same packages, the streams of `w` unchanged (temporaries may follow) -/
def Ext (w w1 : World) : Prop := w1.pkgs = w.pkgs ∧ ∀ j, j < w.strms.length → w1.strms[j]? = w.strms[j]?

theorem Ext.refl (w : World) : Ext w w := ⟨rfl, fun _ _ => rfl⟩

theorem lt_length_of_getElem? {α : Type} {l : List α} {i : Nat} {a : α} (h : l[i]? = some a) : i < l.length := by
  rcases Nat.lt_or_ge i l.length with h' | h'
  · exact h'
  · rw [List.getElem?_eq_none h'] at h; cases h

theorem Ext.length_le {w w1 : World} (h : Ext w w1) : w.strms.length ≤ w1.strms.length := by
  rcases Nat.lt_or_ge w1.strms.length w.strms.length with hlt | hge
  · exfalso
    have := h.2 w1.strms.length hlt
    rw [List.getElem?_eq_none (Nat.le_refl _)] at this
    rw [List.getElem?_eq_getElem hlt] at this
    cases this
  · exact hge

theorem Ext.trans {w w1 w2 : World} (h1 : Ext w w1) (h2 : Ext w1 w2) : Ext w w2 :=
  ⟨h2.1.trans h1.1, fun j hj => (h2.2 j (Nat.lt_of_lt_of_le hj h1.length_le)).trans (h1.2 j hj)⟩

theorem Ext.amount {w w1 : World} (h : Ext w w1) {i : Nat} (hi : i < w.strms.length) (c : Nat) :
    w1.amount i c = w.amount i c := amount_congr h.1 (h.2 i hi) c

theorem Ext.append (w : World) (s : Strm) : Ext w { w with strms := w.strms ++ [s] } :=
  ⟨rfl, fun j hj => by simp [List.getElem?_append_left hj]⟩

theorem refAmount_ext {w w1 : World} (h : Ext w w1) {r : Ref} (hv : r.valid w.strms.length = true) (c : Nat) :
    refAmount w1 r c = refAmount w r c := by
  cases r with
  | strm i =>
    simp only [Ref.valid, decide_eq_true_eq] at hv
    exact h.amount hv c
  | view j p =>
    simp only [Ref.valid, decide_eq_true_eq] at hv
    simp only [refAmount]
    rw [h.2 j hv]
    cases hs : w.strms[j]? with
    | none => rfl
    | some s =>
      simp only []
      have hp : w1.pkgOf s = w.pkgOf s := by unfold World.pkgOf; rw [h.1]
      rw [hp, h.amount hv c]

/-- binding an operand only appends a temporary, and the index it returns holds what the operand held -/
theorem bind_spec {w w1 : World} {r : Ref} {i : Nat} (h : w.bind r = .ok (w1, i))
    (hv : r.valid w.strms.length = true) (c : Nat) :
    Ext w w1 ∧ i < w1.strms.length ∧ w1.amount i c = refAmount w r c := by
  cases r with
  | strm i0 =>
    simp only [World.bind] at h
    cases h
    simp only [Ref.valid, decide_eq_true_eq] at hv
    exact ⟨Ext.refl w, hv, rfl⟩
  | view j p =>
    simp only [World.bind] at h
    obtain ⟨s, hs, h⟩ := bind_ok.mp h
    have hs' := get?_ok.mp hs
    simp only [refAmount]
    rw [hs']
    split at h
    · rename_i hm
      simp only [hm, if_true]
      split at h
      · cases h
      · rename_i q hq
        cases h
        rw [hq]
        refine ⟨Ext.append w _, by simp, ?_⟩
        rw [amount_append_new, amount_eq_key]
        have e : w.pkgOf { pkg := s.pkg, multi := false, ph := [(p, rowOf s.ph q)] } = w.pkgOf s := rfl
        rw [e, key_single]
    · rename_i hm
      simp only [hm]
      split at h
      · cases h
        exact ⟨Ext.refl w, lt_length_of_getElem? hs', by simp⟩
      · cases h

theorem bindAll_spec {w : World} (c : Nat) :
    ∀ (rs : List Ref) (w1 w2 : World) (is : List Nat), Ext w w1 → w1.bindAll rs = .ok (w2, is) →
      rs.all (Ref.valid w.strms.length) = true →
      Ext w1 w2 ∧ rsum (is.map (fun i => w2.amount i c)) = rsum (rs.map (fun r => refAmount w r c)) := by
  intro rs
  induction rs with
  | nil =>
    intro w1 w2 is _ h _
    simp only [World.bindAll] at h
    cases h
    exact ⟨Ext.refl _, rfl⟩
  | cons r rs ih =>
    intro w1 w2 is hext h hv
    unfold World.bindAll at h
    obtain ⟨⟨wa, i⟩, hb, h⟩ := bind_ok.mp h
    simp only [] at h
    obtain ⟨⟨wb, is'⟩, hbs, h⟩ := bind_ok.mp h
    simp only [] at h
    cases h
    simp only [List.all_cons, Bool.and_eq_true] at hv
    have hv1 : r.valid w1.strms.length = true := by
      cases r with
      | strm i0 => simp only [Ref.valid, decide_eq_true_eq] at hv ⊢; exact Nat.lt_of_lt_of_le hv.1 hext.length_le
      | view j p => simp only [Ref.valid, decide_eq_true_eq] at hv ⊢; exact Nat.lt_of_lt_of_le hv.1 hext.length_le
    obtain ⟨e1, hi, ha⟩ := bind_spec hb hv1 c
    obtain ⟨e2, hsum⟩ := ih wa _ is' (hext.trans e1) hbs hv.2
    refine ⟨e1.trans e2, ?_⟩
    simp only [List.map_cons, rsum_cons, hsum]
    rw [e2.amount hi c, ha, refAmount_ext hext hv.1 c]

/-- the phase letter of a view operand is one of the five phases -/
def refValidLetter : Ref → Bool
  | .strm _ => true
  | .view _ p => validPhase p

theorem bind_valid {w w1 : World} {r : Ref} {i : Nat} (h : w.bind r = .ok (w1, i)) (hl : refValidLetter r = true)
    (hv : ∀ s ∈ w.strms, ValidPh s) : ∀ s ∈ w1.strms, ValidPh s := by
  cases r with
  | strm i0 => simp only [World.bind] at h; cases h; exact hv
  | view j p =>
    simp only [World.bind] at h
    obtain ⟨s, _, h⟩ := bind_ok.mp h
    split at h
    · split at h
      · cases h
      · cases h
        intro t ht
        simp only [List.mem_append, List.mem_singleton] at ht
        rcases ht with ht | rfl
        · exact hv t ht
        · intro pr hpr
          simp only [List.mem_singleton] at hpr
          subst hpr
          exact hl
    · split at h
      · cases h; exact hv
      · cases h

theorem bindAll_valid : ∀ (rs : List Ref) (w w1 : World) (is : List Nat), w.bindAll rs = .ok (w1, is) →
    rs.all refValidLetter = true → (∀ s ∈ w.strms, ValidPh s) → ∀ s ∈ w1.strms, ValidPh s := by
  intro rs
  induction rs with
  | nil => intro w w1 is h _ hv; simp only [World.bindAll] at h; cases h; exact hv
  | cons r rs ih =>
    intro w w1 is h hl hv
    unfold World.bindAll at h
    obtain ⟨⟨wa, i⟩, hb, h⟩ := bind_ok.mp h
    simp only [] at h
    obtain ⟨⟨wb, is'⟩, hbs, h⟩ := bind_ok.mp h
    simp only [] at h
    cases h
    simp only [List.all_cons, Bool.and_eq_true] at hl
    exact ih wa _ is' hbs hl.2 (bind_valid hb hl.1 hv)

theorem amount_trim {w : World} {n i : Nat} (hi : i < n) (c : Nat) : (w.trim n).amount i c = w.amount i c := by
  unfold World.amount World.trim
  simp [List.getElem?_take, hi]; rfl

/-- **Separating with a phase view as the stream to take out** (`ms.separate_out(ms['g'])`, or a view of any
other stream): `x` goes down by exactly what the view holds — the other phases of `x` stay. -/
theorem sepR_total {w w' : World} {x : Nat} {y : Ref} (h : sepR w x y = .ok w') (hx : x < w.strms.length)
    (c : Nat) : w'.amount x c = w.amount x c - refAmount w y c := by
  unfold sepR at h
  split at h
  · cases h
  · rename_i hv
    simp only [Bool.not_eq_true, Bool.not_eq_false'] at hv
    obtain ⟨⟨w1, yi⟩, hb, h⟩ := bind_ok.mp h
    simp only [] at h
    obtain ⟨w2, hs, h⟩ := bind_ok.mp h
    cases h
    obtain ⟨e1, _, ha⟩ := bind_spec hb (by simpa using hv) c
    rw [amount_trim hx, sep_total hs, e1.amount hx, ha]

/-- **Mixing with phase views among the inlets** (also views of the receiver itself): the receiver holds the
sum of what the operands held. -/
theorem mixR_total {w w' : World} {r : Nat} {ins : List Ref} {eb : Bool} (h : mixR w r ins eb = .ok w')
    (hr : r < w.strms.length) (hv : ∀ s ∈ w.strms, ValidPh s) (hl : ins.all refValidLetter = true) (c : Nat) :
    w'.amount r c = rsum (ins.map (fun x => refAmount w x c)) := by
  unfold mixR at h
  split at h
  · cases h
  · rename_i hvld
    simp only [Bool.not_eq_true, Bool.not_eq_false'] at hvld
    obtain ⟨⟨w1, is⟩, hb, h⟩ := bind_ok.mp h
    simp only [] at h
    obtain ⟨w2, hm, h⟩ := bind_ok.mp h
    cases h
    obtain ⟨hext, hsum⟩ := bindAll_spec c ins w w1 is (Ext.refl w) hb (by simpa using hvld)
    have hv1 : ∀ s ∈ w1.strms, ValidPh s := bindAll_valid ins w w1 is hb hl hv
    rw [amount_trim hr, mixE_total hm hv1, hsum]

/-! ### holders of shared flow data: in-place scaling is seen by every holder -/

/-- what a holder of shared flow data reads of chemical `c` -/
def holderAmount (w : World) (a : Alias) (c : Nat) : Rat :=
  match derive w a with
  | some s => amount (w.pkgOf s) s c
  | none => 0

theorem rowOf_cons (x : Char × Row) (l : PhRows) (q : Char) :
    rowOf (x :: l) q = if x.1 == q then x.2 else rowOf l q := by
  unfold rowOf
  simp only [List.find?_cons]
  cases h : (x.1 == q) <;> simp

theorem get_rowOf_map_vscale {n i : Nat} (hi : i < n) (k : Rat) (l : PhRows) (q : Char) :
    (rowOf (l.map (fun pr => (pr.1, vscale n k pr.2))) q).get i = (rowOf l q).get i * k := by
  induction l with
  | nil => simp [rowOf, Row.get]
  | cons x l ih =>
    simp only [List.map_cons, rowOf_cons]
    cases h : (x.1 == q)
    · simpa using ih
    · simp [get_vscale hi]

theorem rowKey_rowOf_map_vscale (P : List Nat) (k : Rat) (l : PhRows) (q : Char) (c : Nat) :
    rowKey P (rowOf (l.map (fun pr => (pr.1, vscale P.length k pr.2))) q) c = rowKey P (rowOf l q) c * k := by
  unfold rowKey
  cases hP : pos P c with
  | none => simp
  | some i => simp only []; exact get_rowOf_map_vscale (pos_lt hP) k l q

/-- **Multiplying a stream in place multiplies what every holder of its flow data reads** (`ms *= k`, `ms.scale(k)`:
the phase views `ms[p]`, flow proxies and `from_streams` constituents read `k` times what they read). -/
theorem scale_holder_linear {w w' : World} {j : Nat} {k : Rat} {a : Alias} {owner cur : Strm}
    (h : scale w j k = .ok w') (haj : a.j = j) (hij : a.i ≠ j)
    (ho : w.strms[j]? = some owner) (hc : w.strms[a.i]? = some cur) (hp : cur.pkg = owner.pkg) (c : Nat) :
    holderAmount w' a c = holderAmount w a c * k := by
  unfold scale at h
  rw [get?_ok.mpr ho] at h
  simp only [bind, Except.bind] at h
  cases h
  have ho' : (w.setStrm j (owner.mapRows (vscale (w.pkgOf owner).length k))).strms[a.j]? =
      some (owner.mapRows (vscale (w.pkgOf owner).length k)) := by
    rw [haj]; exact getElem?_setStrm_same ho _
  have hc' : (w.setStrm j (owner.mapRows (vscale (w.pkgOf owner).length k))).strms[a.i]? = some cur := by
    rw [getElem?_setStrm_other (Ne.symm hij)]; exact hc
  have hpk : w.pkgOf cur = w.pkgOf owner := pkgOf_eq_of_pkg hp
  unfold holderAmount derive
  rw [ho', hc', haj, ho, hc]
  cases a.q with
  | none =>
    simp only [pkgOf_setStrm]
    have e1 : ∀ m ph, w.pkgOf { cur with multi := m, ph := ph } = w.pkgOf owner := fun _ _ => hpk
    rw [amount_eq_key, amount_eq_key, e1, e1]
    exact key_mapRows_vscale (w.pkgOf owner) owner k c
  | some q =>
    simp only [pkgOf_setStrm]
    have e1 : ∀ m ph, w.pkgOf { cur with multi := m, ph := ph } = w.pkgOf owner := fun _ _ => hpk
    rw [amount_eq_key, amount_eq_key, e1, e1, key_single, key_single]
    exact rowKey_rowOf_map_vscale (w.pkgOf owner) k owner.ph q c

theorem rowOf_modAt {q : Char} (f : Row → Row) {l : PhRows} (h : hasPh l q = true) :
    rowOf (modAt q f l) q = f (rowOf l q) := by
  induction l with
  | nil => simp [hasPh] at h
  | cons x l ih =>
    obtain ⟨p, r⟩ := x
    unfold modAt
    by_cases hp : (p == q) = true
    · simp [hp, rowOf_cons]
    · have h' : hasPh l q = true := by rw [hasPh_cons] at h; simpa [hp] using h
      simp [hp, rowOf_cons, ih h']

theorem key_modAt (P : List Nat) (q : Char) (f : Row → Row) {l : PhRows} (h : hasPh l q = true) (c : Nat) :
    key P (modAt q f l) c = key P l c - rowKey P (rowOf l q) c + rowKey P (f (rowOf l q)) c := by
  induction l with
  | nil => simp [hasPh] at h
  | cons x l ih =>
    obtain ⟨p, r⟩ := x
    unfold modAt
    by_cases hp : (p == q) = true
    · simp only [hp, if_true, key_cons, rowOf_cons]; ring
    · have h' : hasPh l q = true := by rw [hasPh_cons] at h; simpa [hp] using h
      have hp' : (p == q) = false := by simpa using hp
      simp only [hp', Bool.false_eq_true, if_false, rowOf_cons]
      rw [key_cons, key_cons, ih h']; ring

/-- **Multiplying a phase view in place** (`liq = ms['l']; liq *= k`): the view reads `k` times its row, and the
multi-phase stream that owns the row changes by exactly that. -/
theorem scaleRow_total {w w' : World} {j : Nat} {q : Char} {k : Rat} {owner : Strm}
    (h : scaleRow w j q k = .ok w') (ho : w.strms[j]? = some owner) (hq : hasPh owner.ph q = true) (c : Nat) :
    w'.amount j c = w.amount j c + (k - 1) * rowKey (w.pkgOf owner) (rowOf owner.ph q) c ∧
    (∃ owner', w'.strms[j]? = some owner' ∧
      rowKey (w.pkgOf owner) (rowOf owner'.ph q) c = rowKey (w.pkgOf owner) (rowOf owner.ph q) c * k) := by
  unfold scaleRow at h
  rw [get?_ok.mpr ho] at h
  simp only [bind, Except.bind] at h
  cases h
  have hk : ∀ r : Row, rowKey (w.pkgOf owner) (vscale (w.pkgOf owner).length k r) c = rowKey (w.pkgOf owner) r c * k := by
    intro r
    unfold rowKey
    cases hP : pos (w.pkgOf owner) c with
    | none => simp
    | some i => simp only []; exact get_vscale (pos_lt hP) k r
  constructor
  · rw [amount_setStrm_same ho, amount_of_get ho, amount_eq_key, amount_eq_key]
    have e : w.pkgOf { owner with ph := modAt q (vscale (w.pkgOf owner).length k) owner.ph } = w.pkgOf owner := rfl
    rw [e, key_modAt _ q _ hq, hk]; ring
  · refine ⟨_, getElem?_setStrm_same ho _, ?_⟩
    simp only []
    rw [rowOf_modAt _ hq, hk]

end ThermoVerif.FlowOps
