import ThermoVerif.Lemmas.Reaction
import ThermoVerif.Lemmas.ReactionParse
/-
Definitions the C05 property theorems are stated over (`Balanced`, `Fits`, `IsWtOf`, `MemberWt`, `KindWt`,
`total`) and the helper lemmas of their proofs.  Same namespace as Props/C05.lean, so that the property file
holds the clause statements only.
-/
namespace ThermoVerif.Props.C05
open ThermoVerif.Reaction

/-- every reaction of the list is balanced with respect to the row `a` (`a · ν = 0`) -/
def Balanced (a : Vec) (rxs : List Rxn) : Prop := ∀ rx ∈ rxs, dot a rx.nu = 0

/-- every stoichiometry has the size of the material -/
def Fits (rxs : List Rxn) (n : Vec) : Prop := ∀ rx ∈ rxs, rx.nu.length = n.length

lemma length_kindReact (k : Kind) (n : Vec) (hfit : Fits k.rxns n) : (k.react n).length = n.length := by
  cases k with
  | member m => exact length_memberReact m n hfit
  | system ms =>
    refine length_reactSystem ms n ?_
    intro m hm rx hrx; exact hfit rx (by simp only [Kind.rxns, List.mem_flatMap]; exact ⟨m, hm, hrx⟩)

/-- If every element row is balanced, so is the row of molecular weights `MW = mᵀA`. -/
lemma mw_balanced (m : Vec) (A : List Vec) (N : Nat) (rxs : List Rxn)
    (hA : ∀ row ∈ A, row.length = N) (hbal : ∀ row ∈ A, Balanced row rxs) :
    Balanced (mwOf m A N) rxs := by
  intro rx hrx
  rw [dot_mwOf N rx.nu m A hA]
  have : ∀ (m : Vec) (A : List Vec), (∀ row ∈ A, dot row rx.nu = 0) →
      (List.zipWith (fun me row => me * dot row rx.nu) m A).sum = 0 := by
    intro m
    induction m with
    | nil => intro A _; simp
    | cons x xs ih =>
      intro A hA'
      cases A with
      | nil => simp
      | cons row rows =>
        simp only [List.zipWith_cons_cons, List.sum_cons, hA' row (by simp), mul_zero, zero_add]
        exact ih rows (fun r hr => hA' r (by simp [hr]))
  exact this m A (fun row hrow => hbal row hrow rx hrx)

lemma make_ok (raw : Vec) (r : Nat) (X : Rat) (rx : Rxn) (h : Rxn.make raw r X = .ok rx) :
    rescale raw r = .ok rx.nu ∧ rx.r = r ∧ rx.X = X := by
  unfold Rxn.make at h
  cases hr : rescale raw r with
  | error e => rw [hr] at h; cases h
  | ok nu => rw [hr] at h; cases h; exact ⟨rfl, rfl, rfl⟩

/-- `rxw` is what `set_reaction_basis(rx, 'wt')` makes of the rescaled mol-basis reaction `rx`
(`mw` = molecular weights, tiled to the shape of the stoichiometry) -/
def IsWtOf (mw : Vec) (rx rxw : Rxn) : Prop :=
  rx.nu.getD rx.r 0 = -1 ∧ mw.getD rx.r 0 ≠ 0 ∧ rx.toWt mw = .ok rxw

lemma toWt_ok (mw : Vec) (rx rxw : Rxn) (h : rx.toWt mw = .ok rxw) :
    rescale (hmul rx.nu mw) rx.r = .ok rxw.nu ∧ rxw.r = rx.r ∧ rxw.X = rx.X := by
  unfold Rxn.toWt at h
  cases hr : rescale (hmul rx.nu mw) rx.r with
  | error e => rw [hr] at h; cases h
  | ok nu => rw [hr] at h; cases h; exact ⟨rfl, rfl, rfl⟩

lemma isWtOf_nu (mw : Vec) (rx rxw : Rxn) (h : IsWtOf mw rx rxw) :
    rxw.nu = (hmul rx.nu mw).map (· / mw.getD rx.r 0) ∧ rxw.r = rx.r ∧ rxw.X = rx.X := by
  obtain ⟨h1, _, h3⟩ := h
  obtain ⟨hr, hr2, hr3⟩ := toWt_ok mw rx rxw h3
  obtain ⟨_, hnu⟩ := (rescale_ok_iff _ _ _).mp hr
  refine ⟨?_, hr2, hr3⟩
  rw [hnu, getD_hmul, h1]
  congr 1; funext x; congr 1; ring

/-- the one step everything rests on: adding `c · ν` in moles is adding `(c · MW_r) · ν_wt` in mass -/
lemma axpy_wt (mw : Vec) (rx rxw : Rxn) (h : IsWtOf mw rx rxw) (c : Rat) (acc : Vec) :
    axpy (c * mw.getD rx.r 0) rxw.nu (hmul acc mw) = hmul (axpy c rx.nu acc) mw := by
  obtain ⟨hnu, _, _⟩ := isWtOf_nu mw rx rxw h
  have h0 := h.2.1
  rw [hnu, axpy_smul_right, hmul_axpy]
  congr 1; field_simp

lemma react_wt (mw : Vec) (rx rxw : Rxn) (h : IsWtOf mw rx rxw) (n : Vec) :
    rxw.react (hmul n mw) = hmul (rx.react n) mw := by
  obtain ⟨_, hr, hX⟩ := isWtOf_nu mw rx rxw h
  unfold Rxn.react
  rw [hr, hX, getD_hmul, ← axpy_wt mw rx rxw h]
  congr 1; ring

lemma series_wt (mw : Vec) : ∀ (rxs rxws : List Rxn), List.Forall₂ (IsWtOf mw) rxs rxws →
    ∀ n, reactSeries rxws (hmul n mw) = hmul (reactSeries rxs n) mw := by
  intro rxs rxws h
  induction h with
  | nil => intro n; rfl
  | cons h1 _ ih =>
    intro n
    show reactSeries _ (Rxn.react _ (hmul n mw)) = hmul (reactSeries _ (Rxn.react _ n)) mw
    rw [react_wt mw _ _ h1, ih]

lemma applyExtents_wt (mw : Vec) : ∀ (rxs rxws : List Rxn), List.Forall₂ (IsWtOf mw) rxs rxws →
    ∀ (es : List Rat) (acc : Vec),
    applyExtents (List.zipWith (fun e (rx : Rxn) => e * mw.getD rx.r 0) es rxs) rxws (hmul acc mw)
      = hmul (applyExtents es rxs acc) mw := by
  intro rxs rxws h
  induction h with
  | nil => intro es acc; cases es <;> simp [applyExtents]
  | cons h1 _ ih =>
    intro es acc
    cases es with
    | nil => simp [applyExtents]
    | cons e es =>
      simp only [List.zipWith_cons_cons, applyExtents]
      rw [axpy_wt mw _ _ h1, ih]

lemma extents_wt (mw : Vec) : ∀ (rxs rxws : List Rxn), List.Forall₂ (IsWtOf mw) rxs rxws →
    ∀ n, extents rxws (hmul n mw)
      = List.zipWith (fun e (rx : Rxn) => e * mw.getD rx.r 0) (extents rxs n) rxs := by
  intro rxs rxws h
  induction h with
  | nil => intro n; rfl
  | @cons rx rxw _ _ h1 _ ih =>
    intro n
    obtain ⟨_, hr, hX⟩ := isWtOf_nu mw rx rxw h1
    have := ih n
    unfold extents at this ⊢
    rw [List.map_cons, List.map_cons, List.zipWith_cons_cons, this]
    congr 1
    rw [hr, hX, getD_hmul]; ring

lemma parallel_wt (mw : Vec) (rxs rxws : List Rxn) (h : List.Forall₂ (IsWtOf mw) rxs rxws) (n : Vec) :
    reactParallel rxws (hmul n mw) = hmul (reactParallel rxs n) mw := by
  unfold reactParallel
  rw [extents_wt mw rxs rxws h, applyExtents_wt mw rxs rxws h]

/-- member by member the weight-basis version of a reaction object -/
inductive MemberWt (mw : Vec) : Member → Member → Prop
  | single {rx rxw} : IsWtOf mw rx rxw → MemberWt mw (.single rx) (.single rxw)
  | parallel {rxs rxws} : List.Forall₂ (IsWtOf mw) rxs rxws → MemberWt mw (.parallel rxs) (.parallel rxws)
  | series {rxs rxws} : List.Forall₂ (IsWtOf mw) rxs rxws → MemberWt mw (.series rxs) (.series rxws)

inductive KindWt (mw : Vec) : Kind → Kind → Prop
  | member {m m'} : MemberWt mw m m' → KindWt mw (.member m) (.member m')
  | system {ms ms'} : List.Forall₂ (MemberWt mw) ms ms' → KindWt mw (.system ms) (.system ms')

lemma member_wt (mw : Vec) (m m' : Member) (h : MemberWt mw m m') (n : Vec) :
    m'.react (hmul n mw) = hmul (m.react n) mw := by
  cases h with
  | single h => exact react_wt mw _ _ h n
  | parallel h => exact parallel_wt mw _ _ h n
  | series h => exact series_wt mw _ _ h n

lemma system_wt (mw : Vec) : ∀ (ms ms' : List Member), List.Forall₂ (MemberWt mw) ms ms' →
    ∀ n, reactSystem ms' (hmul n mw) = hmul (reactSystem ms n) mw := by
  intro ms ms' h
  induction h with
  | nil => intro n; rfl
  | cons h1 _ ih =>
    intro n
    show reactSystem _ (Member.react _ (hmul n mw)) = hmul (reactSystem _ (Member.react _ n)) mw
    rw [member_wt mw _ _ h1, ih]

lemma feasibility_ok_iff (tol : Rat) (v out : Vec) :
    feasibility tol v = .ok out ↔ ¬ negSum v < -tol ∧ out = clamp v := by
  unfold feasibility
  by_cases h : negSum v < -tol
  · rw [if_pos h]; constructor
    · intro hh; cases hh
    · intro hh; exact absurd h hh.1
  · rw [if_neg h]; constructor
    · intro hh; injection hh with hh; exact ⟨h, hh.symm⟩
    · intro hh; rw [hh.2]

lemma core_ok (o : RObj) (tol : Rat) (flat out : Vec) (h : o.core tol flat = .ok out) :
    Fits o.kind.rxns flat ∧ feasibility tol (o.kind.react flat) = .ok out := by
  unfold RObj.core at h
  split at h
  · split at h
    · rename_i hall
      refine ⟨?_, h⟩
      intro rx hrx
      have := (List.all_eq_true.mp hall) rx hrx
      simpa using this
    · cases h
  · cases h

lemma length_core (o : RObj) (tol : Rat) (flat out : Vec) (h : o.core tol flat = .ok out) :
    out.length = flat.length := by
  obtain ⟨hfit, hf⟩ := core_ok o tol flat out h
  obtain ⟨_, rfl⟩ := (feasibility_ok_iff _ _ _).mp hf
  rw [length_clamp, length_kindReact _ _ hfit]

/-- total of the row `a` over the phase rows of a material (atoms of one element, or mass) -/
def total (a : Vec) (rows : List Vec) : Rat := (rows.map (dot a)).sum

lemma total_chunk (a : Vec) (p : Nat) (v : Vec) (h : v.length = p * a.length) :
    total a (chunk a.length p v) = dot (tile p a) v := by
  unfold total
  have h1 := dot_tile_flatten a (chunk a.length p v) (chunk_rows_length a.length p v h)
  rw [length_chunk, chunk_flatten a.length p v h] at h1
  exact h1.symm

lemma remapRows_ok (src dst : List Nat) : ∀ (rows out : List Vec), remapRows src dst rows = .ok out →
    List.Forall₂ (fun r o => remapRow src dst r = .ok o) rows out := by
  intro rows
  induction rows with
  | nil =>
    intro out h
    simp only [remapRows, List.mapM_nil, pure, Except.pure] at h
    injection h with h; subst h; exact .nil
  | cons r rs ih =>
    intro out h
    simp only [remapRows, List.mapM_cons, bind, Except.bind, pure, Except.pure] at h
    cases hr : remapRow src dst r with
    | error e => rw [hr] at h; cases h
    | ok o =>
      rw [hr] at h
      cases hrs : List.mapM (remapRow src dst) rs with
      | error e => simp only [hrs] at h; cases h
      | ok os =>
        simp only [hrs] at h
        injection h with h; subst h
        exact .cons hr (ih os hrs)

/-- what `__call__` does with a stream of another package: there, react, and back -/
lemma callStream_other (o : RObj) (tol : Rat) (ph pkg : List Nat) (rows rows' : List Vec)
    (hne : (pkg == o.pkg) = false) (h : o.callStream tol ph pkg rows = .ok rows') :
    ∃ rows1 rows2, remapRows pkg o.pkg rows = .ok rows1 ∧ o.callOwn tol rows1 = .ok rows2 ∧
      remapRows o.pkg pkg rows2 = .ok rows' := by
  unfold RObj.callStream at h
  split at h
  · cases h
  · split at h
    · cases h
    · rw [hne] at h
      simp only [Bool.false_eq_true, if_false, bind, Except.bind] at h
      cases h1 : remapRows pkg o.pkg rows with
      | error e => rw [h1] at h; cases h
      | ok rows1 =>
        rw [h1] at h
        cases h2 : o.callOwn tol rows1 with
        | error e => simp only [h2] at h; cases h
        | ok rows2 =>
          simp only [h2] at h
          exact ⟨rows1, rows2, rfl, h2, h⟩

lemma coreForce_ok (o : RObj) (eps : Rat) (flat out : Vec) (h : o.coreForce eps flat = .ok out) :
    Fits o.kind.rxns flat ∧ out = removeNegligible eps (o.kind.react flat) := by
  unfold RObj.coreForce at h
  split at h
  · split at h
    · rename_i hall
      injection h with h
      refine ⟨?_, h.symm⟩
      intro rx hrx
      have := (List.all_eq_true.mp hall) rx hrx
      simpa using this
    · cases h
  · cases h

lemma callOwn_rows_length (o : RObj) (tol : Rat) (rows rows' : List Vec)
    (hrect : ∀ r ∈ rows, r.length = o.pkg.length) (hmwlen : o.mw.length = o.pkg.length)
    (h : o.callOwn tol rows = .ok rows') : ∀ r ∈ rows', r.length = o.pkg.length := by
  have hflat := length_flatten_rect o.pkg.length rows hrect
  have hmwT : (tile rows.length o.mw).length = rows.length * o.pkg.length := by rw [length_tile, hmwlen]
  cases hb : o.basis with
  | mol =>
    have e1 : o.callOwn tol rows = (o.core tol rows.flatten).map (chunk o.pkg.length rows.length) := by
      unfold RObj.callOwn; rw [hb]
    rw [e1] at h
    cases hc : o.core tol rows.flatten with
    | error e => rw [hc] at h; cases h
    | ok out =>
      rw [hc] at h; injection h with h; subst h
      exact chunk_rows_length o.pkg.length rows.length out (by rw [length_core o tol _ out hc, hflat])
  | wt =>
    have e2 : o.callOwn tol rows
        = (o.core tol (hmul rows.flatten (tile rows.length o.mw))).map
            (fun out => chunk o.pkg.length rows.length (hdiv out (tile rows.length o.mw))) := by
      unfold RObj.callOwn; rw [hb]
    rw [e2] at h
    cases hc : o.core tol (hmul rows.flatten (tile rows.length o.mw)) with
    | error e => rw [hc] at h; cases h
    | ok out =>
      rw [hc] at h; injection h with h; subst h
      have hout : out.length = rows.length * o.pkg.length := by
        rw [length_core o tol _ out hc, length_hmul _ _ (by rw [hflat, hmwT]), hflat]
      exact chunk_rows_length o.pkg.length rows.length _
        (by rw [length_hdiv _ _ (by rw [hout, hmwT]), hout])

lemma remapRows_nonneg (src dst : List Nat) (rows out : List Vec) (h : remapRows src dst rows = .ok out)
    (hn : ∀ r ∈ rows, ∀ x ∈ r, 0 ≤ x) : ∀ r ∈ out, ∀ x ∈ r, 0 ≤ x := by
  have hf := remapRows_ok src dst rows out h
  clear h
  induction hf with
  | nil => intro r hr; simp at hr
  | @cons r o rs os h1 _ ih =>
    intro r' hr'
    simp only [List.mem_cons] at hr'
    rcases hr' with rfl | hr'
    · exact remapRow_nonneg src dst r _ h1 (hn r (by simp))
    · exact ih (fun r'' hr'' => hn r'' (by simp [hr''])) r' hr'

lemma callOwn_mol_flat (o : RObj) (tol : Rat) (rows rows' : List Vec) (hb : o.basis = .mol)
    (hrect : ∀ row ∈ rows, row.length = o.pkg.length) (h : o.callOwn tol rows = .ok rows') :
    o.core tol rows.flatten = .ok rows'.flatten := by
  have e1 : o.callOwn tol rows = (o.core tol rows.flatten).map (chunk o.pkg.length rows.length) := by
    unfold RObj.callOwn; rw [hb]
  rw [e1] at h
  cases hc : o.core tol rows.flatten with
  | error e => rw [hc] at h; cases h
  | ok out =>
    rw [hc] at h; injection h with h; subst h
    rw [chunk_flatten o.pkg.length rows.length out
      (by rw [length_core o tol _ out hc, length_flatten_rect o.pkg.length rows hrect])]

lemma callOwn_wt_flat (o : RObj) (tol : Rat) (rows rows' : List Vec) (hb : o.basis = .wt)
    (hrect : ∀ row ∈ rows, row.length = o.pkg.length) (hmwlen : o.mw.length = o.pkg.length)
    (h : o.callOwn tol rows = .ok rows') :
    ∃ out, o.core tol (hmul rows.flatten (tile rows.length o.mw)) = .ok out ∧
      rows'.flatten = hdiv out (tile rows.length o.mw) := by
  have e2 : o.callOwn tol rows
      = (o.core tol (hmul rows.flatten (tile rows.length o.mw))).map
          (fun out => chunk o.pkg.length rows.length (hdiv out (tile rows.length o.mw))) := by
    unfold RObj.callOwn; rw [hb]
  rw [e2] at h
  have hflat := length_flatten_rect o.pkg.length rows hrect
  have hmwT : (tile rows.length o.mw).length = rows.length * o.pkg.length := by rw [length_tile, hmwlen]
  cases hc : o.core tol (hmul rows.flatten (tile rows.length o.mw)) with
  | error e => rw [hc] at h; cases h
  | ok out =>
    rw [hc] at h; injection h with h; subst h
    refine ⟨out, rfl, ?_⟩
    have hout : out.length = rows.length * o.pkg.length := by
      rw [length_core o tol _ out hc, length_hmul _ _ (by rw [hflat, hmwT]), hflat]
    rw [chunk_flatten o.pkg.length rows.length _ (by rw [length_hdiv _ _ (by rw [hout, hmwT]), hout])]

lemma getD_hdiv : ∀ (a b : Vec) (i : Nat), (hdiv a b).getD i 0 = a.getD i 0 / b.getD i 0 := by
  intro a
  induction a with
  | nil => intro b i; simp
  | cons x xs ih =>
    intro b i
    cases b with
    | nil => simp
    | cons y ys => cases i with
      | zero => simp
      | succ i => simpa using ih ys i

lemma idxOf?_getD (l : List Nat) (a j : Nat) (h : l.idxOf? a = some j) : j < l.length ∧ l.getD j 0 = a := by
  induction l generalizing j with
  | nil => simp at h
  | cons x xs ih =>
    rw [List.idxOf?_cons] at h
    by_cases hx : (x == a) = true
    · simp only [hx, if_true, Option.some.injEq] at h
      subst h
      exact ⟨by simp, by simpa using hx⟩
    · simp only [hx, Bool.false_eq_true, if_false, Option.map_eq_some_iff] at h
      obtain ⟨k, hk, rfl⟩ := h
      obtain ⟨h1, h2⟩ := ih k hk
      exact ⟨by simp; omega, by simpa using h2⟩

lemma repackage_ok (src dst : List Nat) (nrows : Nat) (rx rx' : Rxn)
    (h : rx.repackage src dst nrows = .ok rx') :
    ∃ rows' j, remapRows src dst (chunk src.length nrows rx.nu) = .ok rows' ∧
      dst.idxOf? (src.getD (rx.r % src.length) 0) = some j ∧
      rx'.nu = rows'.flatten ∧ rx'.r = rx.r / src.length * dst.length + j ∧ rx'.X = rx.X := by
  unfold Rxn.repackage at h
  simp only [bind, Except.bind] at h
  cases hr : remapRows src dst (chunk src.length nrows rx.nu) with
  | error e => rw [hr] at h; cases h
  | ok rows' =>
    rw [hr] at h
    simp only at h
    cases hj : dst.idxOf? (src.getD (rx.r % src.length) 0) with
    | none => rw [hj] at h; cases h
    | some j =>
      rw [hj] at h
      simp only [pure, Except.pure] at h
      injection h with h; subst h
      exact ⟨rows', j, rfl, rfl, rfl, rfl, rfl⟩

end ThermoVerif.Props.C05
