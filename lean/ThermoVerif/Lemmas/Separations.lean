import ThermoVerif.Model.Separations
import Mathlib.Tactic.Ring
import Mathlib.Tactic.Linarith
import Mathlib.Tactic.FieldSimp
import Mathlib.Algebra.Order.Field.Basic
/-
Helper lemmas for C20: `tab` / `Vec.at`, `sumL`, association-list lookups of the
`bottom.imol[IDs] = values` write, the clip of `handle_infeasible_flow_rates`.
-/
namespace ThermoVerif.Separations

/-! ### vectors -/

theorem at_tab {n : Nat} {f : Nat → Rat} {i : Nat} (h : i < n) : (tab n f).at i = f i := by
  simp [Vec.at, tab, List.getD, h]

theorem at_tab_ge {n : Nat} {f : Nat → Rat} {i : Nat} (h : n ≤ i) : (tab n f).at i = 0 := by
  simp [Vec.at, tab, List.getD, Nat.not_lt.mpr h]

theorem at_tab_eq (n : Nat) (f : Nat → Rat) (i : Nat) : (tab n f).at i = if i < n then f i else 0 := by
  by_cases h : i < n
  · simp [h, at_tab h]
  · simp [h, at_tab_ge (Nat.le_of_not_lt h)]

theorem at_nil (i : Nat) : Vec.at [] i = 0 := by simp [Vec.at]

/-! ### sums -/

@[simp] theorem sumL_nil : sumL [] = 0 := rfl
@[simp] theorem sumL_cons (x : Rat) (xs : List Rat) : sumL (x :: xs) = x + sumL xs := rfl

theorem sumL_append (a b : List Rat) : sumL (a ++ b) = sumL a + sumL b := by
  induction a with
  | nil => simp
  | cons x xs ih => simp [ih]; ring

theorem sumL_nonneg {l : List Rat} (h : ∀ x ∈ l, 0 ≤ x) : 0 ≤ sumL l := by
  induction l with
  | nil => simp
  | cons x xs ih =>
    have h1 := h x (by simp)
    have h2 := ih (fun y hy => h y (by simp [hy]))
    simp; linarith

theorem sumL_map_add {α} (l : List α) (f g : α → Rat) :
    sumL (l.map (fun a => f a + g a)) = sumL (l.map f) + sumL (l.map g) := by
  induction l with
  | nil => simp
  | cons x xs ih => simp [ih]; ring

theorem sumL_map_sub {α} (l : List α) (f g : α → Rat) :
    sumL (l.map (fun a => f a - g a)) = sumL (l.map f) - sumL (l.map g) := by
  induction l with
  | nil => simp
  | cons x xs ih => simp [ih]; ring

theorem sumL_map_le {α} (l : List α) (f g : α → Rat) (h : ∀ a ∈ l, f a ≤ g a) :
    sumL (l.map f) ≤ sumL (l.map g) := by
  induction l with
  | nil => simp
  | cons x xs ih =>
    have h1 := h x (by simp)
    have h2 := ih (fun y hy => h y (by simp [hy]))
    simp; linarith

/-- a sum over `0..n-1` with one entry replaced -/
theorem sumL_range_update (n k : Nat) (hk : k < n) (f : Nat → Rat) (a : Rat) :
    sumL ((List.range n).map (fun i => if i = k then a else f i)) =
      sumL ((List.range n).map f) - f k + a := by
  induction n with
  | zero => omega
  | succ m ih =>
    rw [List.range_succ, List.map_append, List.map_append, sumL_append, sumL_append]
    by_cases hkm : k < m
    · rw [ih hkm]
      have : m ≠ k := by omega
      simp [this]; ring
    · have hkm' : k = m := by omega
      subst hkm'
      have : sumL ((List.range k).map (fun i => if i = k then a else f i)) = sumL ((List.range k).map f) := by
        congr 1
        apply List.map_congr_left
        intro i hi
        have : i ≠ k := by
          have := List.mem_range.mp hi
          omega
        simp [this]
      rw [this]; simp

/-- one entry of a sum of non-negative terms is at most the sum -/
theorem le_sumL_range (n k : Nat) (hk : k < n) (f : Nat → Rat) (h : ∀ i, 0 ≤ f i) :
    f k ≤ sumL ((List.range n).map f) := by
  have h1 := sumL_range_update n k hk f 0
  have h2 : 0 ≤ sumL ((List.range n).map (fun i => if i = k then 0 else f i)) := by
    apply sumL_nonneg
    intro x hx
    obtain ⟨i, _, rfl⟩ := List.mem_map.mp hx
    by_cases hik : i = k <;> simp [hik, h i]
  linarith

/-! ### the clip of `handle_infeasible_flow_rates` -/

theorem clip1_range (b mx : Rat) (h : 0 ≤ mx) : 0 ≤ (clip1 b mx).1 ∧ (clip1 b mx).1 ≤ mx := by
  unfold clip1
  by_cases h1 : b < 0
  · by_cases h2 : (0 : Rat) > mx
    · exact absurd h (not_le.mpr h2)
    · simp [h1, h2, h]
  · by_cases h2 : b > mx
    · simp [h1, h2, h]
    · simp [h1, h2]; exact ⟨le_of_not_gt h1, le_of_not_gt h2⟩

theorem clip1_id (b mx : Rat) (h : ((clip1 b mx).2.1 || (clip1 b mx).2.2) = false) : (clip1 b mx).1 = b := by
  unfold clip1 at *
  by_cases h1 : b < 0
  · by_cases h2 : (0 : Rat) > mx <;> simp [h1, h2] at h
  · by_cases h2 : b > mx
    · simp [h1, h2] at h
    · simp [h1, h2]

/-! ### `bottom.imol[IDs] = values` as an association list -/

/-- what is found for `i` among the values written for `ids` was computed from `i` -/
theorem lookupId_map {ids : List Nat} {f : Nat → Rat} {i : Nat} {v : Rat}
    (h : lookupId ids (ids.map f) i = some v) : v = f i := by
  induction ids with
  | nil => simp [lookupId] at h
  | cons a t ih =>
    simp only [lookupId, List.map_cons, List.zip_cons_cons, List.lookup_cons] at h
    by_cases ha : i = a
    · subst ha; simp at h; exact h.symm
    · have : (i == a) = false := by simp [ha]
      rw [this] at h
      exact ih h

theorem lookupId_zipWith {β} {ids : List Nat} {K : List Rat} {g : Nat → Rat → β} {pr : β → Rat} {i : Nat} {v : Rat}
    (h : lookupId ids ((List.zipWith g ids K).map pr) i = some v) : ∃ k, (i, k) ∈ ids.zip K ∧ v = pr (g i k) := by
  induction ids generalizing K with
  | nil => simp [lookupId] at h
  | cons a t ih =>
    cases K with
    | nil => simp [lookupId] at h
    | cons k ks =>
      simp only [lookupId, List.zipWith_cons_cons, List.map_cons, List.zip_cons_cons, List.lookup_cons] at h
      by_cases ha : i = a
      · subst ha; simp at h; exact ⟨k, by simp, h.symm⟩
      · have : (i == a) = false := by simp [ha]
        rw [this] at h
        obtain ⟨k', hk', hv⟩ := ih h
        exact ⟨k', by simp [hk'], hv⟩

/-- with distinct `ids`, the value found for the chemical at a position is the value written there -/
theorem lookupId_zipWith_of_mem {β} {ids : List Nat} {K : List Rat} {g : Nat → Rat → β} {pr : β → Rat} {i : Nat} {k : Rat}
    (hnd : ids.Nodup) (hmem : (i, k) ∈ ids.zip K) :
    lookupId ids ((List.zipWith g ids K).map pr) i = some (pr (g i k)) := by
  induction ids generalizing K with
  | nil => simp at hmem
  | cons a t ih =>
    cases K with
    | nil => simp at hmem
    | cons k0 ks =>
      simp only [lookupId, List.zipWith_cons_cons, List.map_cons, List.zip_cons_cons, List.lookup_cons]
      simp only [List.zip_cons_cons, List.mem_cons, Prod.mk.injEq] at hmem
      rw [List.nodup_cons] at hnd
      by_cases ha : i = a
      · subst ha
        rcases hmem with ⟨_, rfl⟩ | hm
        · simp
        · exact absurd (List.of_mem_zip hm).1 hnd.1
      · have : (i == a) = false := by simp [ha]
        rw [this]
        rcases hmem with ⟨h1, _⟩ | hm
        · exact absurd h1 ha
        · exact ih hnd.2 hm

theorem lookupId_none_of_not_mem {ids : List Nat} {vals : List Rat} {i : Nat} (h : i ∉ ids) :
    lookupId ids vals i = none := by
  induction ids generalizing vals with
  | nil => simp [lookupId]
  | cons a t ih =>
    cases vals with
    | nil => simp [lookupId]
    | cons v vs =>
      simp only [List.mem_cons, not_or] at h
      simp only [lookupId, List.zip_cons_cons, List.lookup_cons]
      have : (i == a) = false := by simp [h.1]
      rw [this]
      exact ih h.2

theorem lookupId_map_of_mem {ids : List Nat} {f : Nat → Rat} {i : Nat} (h : i ∈ ids) :
    lookupId ids (ids.map f) i = some (f i) := by
  induction ids with
  | nil => simp at h
  | cons a t ih =>
    simp only [lookupId, List.map_cons, List.zip_cons_cons, List.lookup_cons]
    by_cases ha : i = a
    · subst ha; simp
    · have : (i == a) = false := by simp [ha]
      rw [this]
      simp only [List.mem_cons] at h
      rcases h with h | h
      · exact absurd h ha
      · exact ih h

/-! ### dot products and scaled inlets -/

theorem sumL_scaleInlets (n c : Nat) (hc : c < n) (x : List Rat) (vin : List Vec) :
    sumL ((scaleInlets n x vin).map (·.at c)) = dot (vin.map (·.at c)) x := by
  induction x generalizing vin with
  | nil => simp [scaleInlets, dot]
  | cons f fs ih =>
    cases vin with
    | nil => simp [scaleInlets, dot]
    | cons s ss =>
      have := ih ss
      simp only [scaleInlets, dot] at this ⊢
      simp only [List.zipWith_cons_cons, List.map_cons, sumL_cons, this, at_tab hc]

/-! ### Gaussian elimination: soundness and completeness -/

theorem dot_cons (a : Rat) (r : List Rat) (b : Rat) (x : List Rat) : dot (a :: r) (b :: x) = a * b + dot r x := by
  simp [dot]

theorem dot_nil_left (x : List Rat) : dot [] x = 0 := by simp [dot]

theorem dot_nil_right (r : List Rat) : dot r [] = 0 := by cases r <;> simp [dot]

theorem dot_replicate_zero (r : List Rat) (k : Nat) : dot r (List.replicate k 0) = 0 := by
  induction r generalizing k with
  | nil => simp [dot]
  | cons a t ih =>
    cases k with
    | zero => simp [dot]
    | succ k => rw [List.replicate_succ, dot_cons, ih]; ring

theorem list_eq_head_tail {l : List Rat} {k : Nat} (h : l.length = k + 1) : l = l.headD 0 :: l.tail := by
  cases l with
  | nil => simp at h
  | cons a t => simp

/-- the elimination step is linear -/
theorem dot_elim (f : Rat) (cs ps xs : List Rat) (h : cs.length = ps.length) :
    dot (List.zipWith (fun x y => x - f * y) cs ps) xs = dot cs xs - f * dot ps xs := by
  induction cs generalizing ps xs with
  | nil =>
    cases ps with
    | nil => simp [dot]
    | cons p pt => simp at h
  | cons c ct ih =>
    cases ps with
    | nil => simp at h
    | cons p pt =>
      cases xs with
      | nil => simp [dot_nil_right]
      | cons x xt =>
        simp only [List.zipWith_cons_cons, dot_cons]
        rw [ih pt xt (by simpa using h)]
        ring

theorem findPivot_none {M : List Row} (h : findPivot M = none) : ∀ r ∈ M, rowHead r = 0 := by
  induction M with
  | nil => simp
  | cons r rs ih =>
    unfold findPivot at h
    by_cases hr : rowHead r ≠ 0
    · simp [hr] at h
    · simp only [hr, if_false] at h
      cases hf : findPivot rs with
      | none =>
        intro r' hr'
        rcases List.mem_cons.mp hr' with rfl | h'
        · exact not_not.mp hr
        · exact ih hf r' h'
      | some po => simp [hf] at h

theorem findPivot_some {M : List Row} {p : Row} {others : List Row} (h : findPivot M = some (p, others)) :
    rowHead p ≠ 0 ∧ (∀ r, r ∈ M ↔ r = p ∨ r ∈ others) ∧ M.length = others.length + 1 := by
  induction M generalizing p others with
  | nil => simp [findPivot] at h
  | cons r rs ih =>
    unfold findPivot at h
    by_cases hr : rowHead r ≠ 0
    · rw [if_pos hr] at h
      simp only [Option.some.injEq, Prod.mk.injEq] at h
      obtain ⟨rfl, rfl⟩ := h
      exact ⟨hr, fun r' => by simp, by simp⟩
    · rw [if_neg hr] at h
      cases hf : findPivot rs with
      | none => simp [hf] at h
      | some po =>
        obtain ⟨p', o'⟩ := po
        simp only [hf, Option.some.injEq, Prod.mk.injEq] at h
        obtain ⟨rfl, rfl⟩ := h
        obtain ⟨h1, h2, h3⟩ := ih hf
        refine ⟨h1, fun r' => ?_, by simp [h3]⟩
        simp only [List.mem_cons, h2 r']
        tauto

theorem elimRow_length {k : Nat} {p r : Row} (hp : p.1.length = k + 1) (hr : r.1.length = k + 1) :
    (elimRow p r).1.length = k := by
  unfold elimRow
  simp only [List.length_zipWith, List.length_tail, hp, hr]
  omega

/-- **soundness** of the elimination: what it returns solves every equation -/
theorem solveRec_sound : ∀ (k : Nat) (M : List Row) (x : List Rat), (∀ r ∈ M, r.1.length = k) →
    solveRec k M = some x → x.length = k ∧ ∀ r ∈ M, dot r.1 x = r.2
  | 0, M, x, hwf, h => by
    unfold solveRec at h
    split at h
    · rename_i hall
      simp only [Option.some.injEq] at h
      subst h
      refine ⟨rfl, fun r hr => ?_⟩
      have h0 : r.1 = [] := List.length_eq_zero_iff.mp (hwf r hr)
      have h2 : r.2 = 0 := by
        have := List.all_eq_true.mp hall r hr
        simpa using this
      rw [h0, h2, dot_nil_left]
    · simp at h
  | k + 1, M, x, hwf, h => by
    unfold solveRec at h
    cases hp : findPivot M with
    | none => simp [hp] at h
    | some po =>
      obtain ⟨p, others⟩ := po
      simp only [hp] at h
      cases hs : solveRec k (others.map (elimRow p)) with
      | none => simp [hs] at h
      | some xs =>
        simp only [hs, Option.some.injEq] at h
        subst h
        obtain ⟨hp0, hmem, _⟩ := findPivot_some hp
        have hpM : p ∈ M := (hmem p).mpr (Or.inl rfl)
        have hpl := hwf p hpM
        have hwf' : ∀ r ∈ others.map (elimRow p), r.1.length = k := by
          intro r' hr'
          obtain ⟨r, hr, rfl⟩ := List.mem_map.mp hr'
          exact elimRow_length hpl (hwf r ((hmem r).mpr (Or.inr hr)))
        obtain ⟨hlen, hsat⟩ := solveRec_sound k _ xs hwf' hs
        refine ⟨by simp [hlen], fun r hr => ?_⟩
        have hrl := hwf r hr
        rw [list_eq_head_tail hrl, dot_cons]
        change rowHead r * _ + _ = _
        rcases (hmem r).mp hr with rfl | hro
        · field_simp
          ring
        · have e := hsat (elimRow p r) (List.mem_map.mpr ⟨r, hro, rfl⟩)
          simp only [elimRow] at e
          rw [dot_elim _ _ _ _ (by simp [hrl, hpl])] at e
          have e' : dot r.1.tail xs = r.2 - rowHead r / rowHead p * p.2 + rowHead r / rowHead p * dot p.1.tail xs := by
            linarith
          rw [e']
          field_simp
          ring

/-- **completeness** of the elimination with the first-non-zero pivot rule: a square system whose homogeneous part
has only the zero solution is solved.  (Invertibility guarantees a non-zero pivot in the current column among the
remaining rows, and the reduced system inherits the property.) -/
theorem solveRec_complete : ∀ (k : Nat) (M : List Row), (∀ r ∈ M, r.1.length = k) → M.length = k →
    (∀ y : List Rat, y.length = k → (∀ r ∈ M, dot r.1 y = 0) → y = List.replicate k 0) →
    ∃ x, solveRec k M = some x
  | 0, M, _, hlen, _ => by
    have : M = [] := List.length_eq_zero_iff.mp hlen
    subst this
    exact ⟨[], by simp [solveRec]⟩
  | k + 1, M, hwf, hlen, hinj => by
    cases hp : findPivot M with
    | none =>
      -- every leading coefficient is zero: (1, 0, …, 0) solves the homogeneous system
      exfalso
      have hz := findPivot_none hp
      have := hinj (1 :: List.replicate k 0) (by simp) (fun r hr => by
        rw [list_eq_head_tail (hwf r hr), dot_cons, dot_replicate_zero]
        change rowHead r * 1 + 0 = 0
        rw [hz r hr]; ring)
      rw [List.replicate_succ] at this
      have h10 : (1 : Rat) = 0 := (List.cons.inj this).1
      exact absurd h10 (by decide)
    | some po =>
      obtain ⟨p, others⟩ := po
      obtain ⟨hp0, hmem, hl⟩ := findPivot_some hp
      have hpM : p ∈ M := (hmem p).mpr (Or.inl rfl)
      have hpl := hwf p hpM
      have hwf' : ∀ r ∈ others.map (elimRow p), r.1.length = k := by
        intro r' hr'
        obtain ⟨r, hr, rfl⟩ := List.mem_map.mp hr'
        exact elimRow_length hpl (hwf r ((hmem r).mpr (Or.inr hr)))
      have hlen' : (others.map (elimRow p)).length = k := by
        simp only [List.length_map]; omega
      have hinj' : ∀ y : List Rat, y.length = k → (∀ r ∈ others.map (elimRow p), dot r.1 y = 0) →
          y = List.replicate k 0 := by
        intro y' hy' hall
        have hbig := hinj ((-(dot p.1.tail y') / rowHead p) :: y') (by simp [hy']) (fun r hr => by
          have hrl := hwf r hr
          rw [list_eq_head_tail hrl, dot_cons]
          change rowHead r * _ + _ = _
          rcases (hmem r).mp hr with rfl | hro
          · field_simp
            ring
          · have e := hall (elimRow p r) (List.mem_map.mpr ⟨r, hro, rfl⟩)
            simp only [elimRow] at e
            rw [dot_elim _ _ _ _ (by simp [hrl, hpl])] at e
            have e' : dot r.1.tail y' = rowHead r / rowHead p * dot p.1.tail y' := by linarith
            rw [e']
            field_simp
            ring)
        rw [List.replicate_succ] at hbig
        exact (List.cons.inj hbig).2
      obtain ⟨xs, hxs⟩ := solveRec_complete k _ hwf' hlen' hinj'
      exact ⟨(p.2 - dot p.1.tail xs) / rowHead p :: xs, by simp [solveRec, hp, hxs]⟩

theorem matVec_eq_of_rows {A : List (List Rat)} {b x : List Rat} (hl : A.length = b.length)
    (h : ∀ r ∈ A.zip b, dot r.1 x = r.2) : matVec A x = b := by
  induction A generalizing b with
  | nil =>
    cases b with
    | nil => simp [matVec]
    | cons _ _ => simp at hl
  | cons a t ih =>
    cases b with
    | nil => simp at hl
    | cons b0 bt =>
      have h0 := h (a, b0) (by simp)
      have ht := ih (b := bt) (by simpa using hl) (fun r hr => h r (by simp [hr]))
      simp only [matVec, List.map_cons] at ht ⊢
      rw [ht]
      simp only at h0
      rw [h0]

theorem exists_zip_of_mem {A : List (List Rat)} {b : List Rat} (hl : A.length = b.length) {a : List Rat} (ha : a ∈ A) :
    ∃ bi, (a, bi) ∈ A.zip b := by
  induction A generalizing b with
  | nil => simp at ha
  | cons a0 t ih =>
    cases b with
    | nil => simp at hl
    | cons b0 bt =>
      rcases List.mem_cons.mp ha with rfl | h'
      · exact ⟨b0, by simp⟩
      · obtain ⟨bi, hbi⟩ := ih (b := bt) (by simpa using hl) h'
        exact ⟨bi, by simp [hbi]⟩

/-- a left inverse makes the homogeneous system trivial -/
theorem inj_of_leftInverse {A B : List (List Rat)} {b : List Rat} {k : Nat} (hl : A.length = b.length)
    (hinv : ∀ y : List Rat, y.length = k → matVec B (matVec A y) = y) :
    ∀ y : List Rat, y.length = k → (∀ r ∈ A.zip b, dot r.1 y = 0) → y = List.replicate k 0 := by
  intro y hy h
  have hA : matVec A y = List.replicate A.length 0 := by
    rw [List.eq_replicate_iff]
    refine ⟨by simp [matVec], fun e he => ?_⟩
    obtain ⟨a, ha, rfl⟩ := List.mem_map.mp he
    obtain ⟨bi, hbi⟩ := exists_zip_of_mem hl ha
    exact h (a, bi) hbi
  have hy' := hinv y hy
  rw [hA] at hy'
  rw [List.eq_replicate_iff]
  refine ⟨hy, fun e he => ?_⟩
  rw [← hy'] at he
  obtain ⟨r, _, rfl⟩ := List.mem_map.mp he
  exact dot_replicate_zero r _

/-- **the solver is total on left-invertible square systems**, and its answer solves the system -/
theorem gaussJordan_total {A B : List (List Rat)} {b : List Rat} (hl : A.length = b.length)
    (hrows : ∀ a ∈ A, a.length = b.length)
    (hinv : ∀ y : List Rat, y.length = b.length → matVec B (matVec A y) = y) :
    ∃ x, gaussJordan b.length A b = some x ∧ matVec A x = b ∧ x.length = b.length := by
  have hwf : ∀ r ∈ A.zip b, r.1.length = b.length := fun r hr => hrows r.1 (List.of_mem_zip hr).1
  have hlen : (A.zip b).length = b.length := by simp [hl]
  obtain ⟨x, hx⟩ := solveRec_complete b.length (A.zip b) hwf hlen (inj_of_leftInverse hl hinv)
  obtain ⟨hxl, hsat⟩ := solveRec_sound _ _ x hwf hx
  exact ⟨x, hx, matVec_eq_of_rows hl hsat, hxl⟩

theorem solveChecked_total {A B : List (List Rat)} {b : List Rat} (hl : A.length = b.length)
    (hrows : ∀ a ∈ A, a.length = b.length)
    (hinv : ∀ y : List Rat, y.length = b.length → matVec B (matVec A y) = y) :
    ∃ x, solveChecked A b = some x := by
  obtain ⟨x, hx, hAx, hxl⟩ := gaussJordan_total hl hrows hinv
  exact ⟨x, by simp [solveChecked, hx, hAx, hxl]⟩

/-! ### helper lemmas and definitional facts used by Props/C20.lean

(moved here so that the obligation count of Props/C20 reflects property statements.  Included: facts that hold by the
very definition of the model — `partition_ignores_outlets`, `*_ignores_holder` (the repaired model does not take those
arguments into account at all: `rfl`), `vle_balance` (its conclusion is its hypothesis), `lle_top_choice`.  What ties
"the outlets / the holder do not matter" to the code is the correspondence (`load=` monitor, pre-filled outlets and
holders) and the oracle, not these lemmas.) -/

theorem total_nonneg (n : Nat) (ins : List Vec) (h : ∀ s ∈ ins, ∀ i, 0 ≤ s.at i) (i : Nat) : 0 ≤ (total n ins).at i := by
  rw [total, at_tab_eq]
  split
  · apply sumL_nonneg
    intro x hx
    obtain ⟨s, hs, rfl⟩ := List.mem_map.mp hx
    exact h s hs i
  · exact le_refl _

theorem at_setAt {n : Nat} {v : Vec} {k : Nat} {x : Rat} {i : Nat} (h : i < n) :
    (setAt n v k x).at i = if i = k then x else v.at i := by
  simp only [setAt, at_tab h]

/-- the two raw values always add up to what retentate and permeate held of the moisture chemical -/
theorem raw_sum (a : AdjIn) (hmw : (if a.byMol then a.mwc else a.MW.at a.k) ≠ 0) :
    a.raw.1 + a.raw.2 = a.R.at a.k + a.P.at a.k := by
  unfold AdjIn.raw
  by_cases hb : a.byMol
  · simp only [hb, if_true]; ring
  · simp only [hb] at hmw ⊢
    simp only [Bool.false_eq_true, if_false] at hmw ⊢
    field_simp
    ring

/-- hypotheses under which the dry mass is meaningful -/
structure AdjOK (a : AdjIn) : Prop where
  k_lt : a.k < a.n
  R_nonneg : ∀ i, 0 ≤ a.R.at i
  P_nonneg : ∀ i, 0 ≤ a.P.at i
  MW_nonneg : ∀ i, 0 ≤ a.MW.at i
  MW_pos : 0 < a.MW.at a.k
  /-- the literal `18.01528` of the `ID is None` branch is the molecular weight of the moisture chemical -/
  mwc_eq : a.byMol = true → a.mwc = a.MW.at a.k
  mc_range : 0 ≤ a.mc ∧ a.mc < 1

/-- dry mass of the retentate -/
def dry (a : AdjIn) : Rat := a.Fmass - a.MW.at a.k * a.R.at a.k

theorem dry_nonneg (a : AdjIn) (ok : AdjOK a) : 0 ≤ dry a := by
  have := le_sumL_range a.n a.k ok.k_lt (fun i => a.MW.at i * a.R.at i)
    (fun i => mul_nonneg (ok.MW_nonneg i) (ok.R_nonneg i))
  unfold dry AdjIn.Fmass
  linarith

/-- new retentate amount of the moisture chemical: `dry · mc/(1−mc) / MW_k`, in both branches -/
theorem raw_fst (a : AdjIn) (ok : AdjOK a) : a.raw.1 = dry a * a.mc / (1 - a.mc) / a.MW.at a.k := by
  unfold AdjIn.raw dry
  by_cases hb : a.byMol = true
  · simp only [hb, if_true, ok.mwc_eq hb]
  · simp only [hb, Bool.false_eq_true, if_false]
    rw [mul_comm (a.R.at a.k)]

theorem raw_fst_nonneg (a : AdjIn) (ok : AdjOK a) : 0 ≤ a.raw.1 := by
  rw [raw_fst a ok]
  have h1 : 0 < 1 - a.mc := by linarith [ok.mc_range.2]
  exact div_nonneg (div_nonneg (mul_nonneg (dry_nonneg a ok) ok.mc_range.1) (le_of_lt h1)) (le_of_lt ok.MW_pos)

theorem adj_mw_ne (a : AdjIn) (ok : AdjOK a) : (if a.byMol then a.mwc else a.MW.at a.k) ≠ 0 := by
  by_cases hb : a.byMol = true
  · simp only [hb, if_true, ok.mwc_eq hb]; exact ne_of_gt ok.MW_pos
  · simp only [hb, Bool.false_eq_true, if_false]; exact ne_of_gt ok.MW_pos

/-- the repaired `partition` does not read what the outlets held before the call -/
theorem partition_ignores_outlets (p : PartIn) (b : Vec) : partition { p with bot0 := b } = partition p := rfl

/-- value of the bottom outlet for one chemical, in terms of the branch -/
theorem bottom_at (p : PartIn) (stale : Nat → Rat) (o : PartOut) (h : p.run stale = .ok o) (i : Nat) (hi : i < p.n) :
    o.bottom.at i = p.bottomCell p.branch.1 stale i := by
  unfold PartIn.run at h
  by_cases hF : p.F = 0
  · simp [hF] at h
  simp only [hF, if_false] at h
  split at h
  · simp at h
  · simp only [Except.ok.injEq] at h
    subst h
    simp only [at_tab hi]

theorem bottomCell_range (p : PartIn) (hfeed : ∀ i, 0 ≤ p.feed.at i) (i : Nat) :
    0 ≤ p.bottomCell p.branch.1 (fun _ => 0) i ∧ p.bottomCell p.branch.1 (fun _ => 0) i ≤ p.feed.at i := by
  unfold PartIn.bottomCell
  cases hl : (p.branch.1.bind fun vals => lookupId p.ids vals i) with
  | some v =>
    simp only
    unfold PartIn.branch at hl
    by_cases h0 : p.phi ≤ 0
    · simp only [h0, if_true, Option.bind_some] at hl
      rw [lookupId_map hl]
      exact ⟨hfeed i, le_refl _⟩
    · by_cases h1 : p.phi < 1
      · simp only [h0, h1, if_true, if_false, Option.bind_some] at hl
        unfold PartIn.eqBottom at hl
        obtain ⟨k, _, rfl⟩ := lookupId_zipWith hl
        exact clip1_range _ _ (hfeed i)
      · simp [h0, h1] at hl
  | none =>
    simp only
    by_cases hb : i ∈ p.botc
    · simp only [hb, if_true]; exact ⟨hfeed i, le_refl _⟩
    · by_cases ht : i ∈ p.topc
      · simp only [hb, ht, if_true, if_false]; exact ⟨le_refl _, hfeed i⟩
      · simp only [hb, ht, if_false]; exact ⟨le_refl _, hfeed i⟩

/-- un-clipped equilibrium split: `bottom = mol (1−φ)/(φK + 1 − φ)` -/
theorem rawBottom_eq (p : PartIn) (hF : p.F ≠ 0) (mol k : Rat) (hden : p.phi * k + (1 - p.phi) ≠ 0) :
    p.rawBottom mol k = mol * (1 - p.phi) / (p.phi * k + (1 - p.phi)) := by
  unfold PartIn.rawBottom
  field_simp

theorem asValidFraction_range (x : Rat) : 0 ≤ asValidFraction x ∧ asValidFraction x ≤ 1 := by
  unfold asValidFraction
  by_cases h0 : x < 0
  · simp [h0]
  · by_cases h1 : x > 1
    · simp [h0, h1]
    · simp only [h0, h1, if_false]; exact ⟨le_of_not_gt h0, le_of_not_gt h1⟩

theorem effMix_at (n : Nat) (feed eq : Vec) (e : Rat) (i : Nat) (hi : i < n) :
    (effMix n feed eq e).at i = if e < 1 then eq.at i * e + (1 - e) / 2 * feed.at i else eq.at i := by
  unfold effMix
  split <;> simp [at_tab hi]

/-- the top outlet is the `l` row exactly when no top chemical was named and `rho_l < rho_L` (or `L` is empty) -/
theorem lle_top_choice (rl rL : Rat) : lleTopIsSmallL false (some rl) (some rL) = decide (rl < rL) := by
  simp [lleTopIsSmallL]

theorem vle_balance (n : Nat) (feed rowg rowl : Vec) (hrows : ∀ i, rowg.at i + rowl.at i = feed.at i) (i : Nat) (hi : i < n) :
    (vleWrap n rowg rowl).1.at i + (vleWrap n rowg rowl).2.at i = feed.at i := by
  simp only [vleWrap, at_tab hi]; exact hrows i

theorem vle_nonneg (n : Nat) (rowg rowl : Vec) (hg : ∀ i, 0 ≤ rowg.at i) (hl : ∀ i, 0 ≤ rowl.at i) (i : Nat) :
    0 ≤ (vleWrap n rowg rowl).1.at i ∧ 0 ≤ (vleWrap n rowg rowl).2.at i := by
  simp only [vleWrap, at_tab_eq]
  constructor <;> split <;> first | exact hg i | exact hl i | exact le_refl _

/-- loading the feed into the holder does not depend on what the holder held -/
theorem holderLoad_ignores_holder (n : Nat) (h h' : Vec × Vec) (feed : Vec) :
    holderLoad n h feed = holderLoad n h' feed := rfl

/-- the loaded rows together are exactly the feed -/
theorem holderLoad_total (n : Nat) (h : Vec × Vec) (feed : Vec) (i : Nat) (hi : i < n) :
    (holderLoad n h feed).1.at i + (holderLoad n h feed).2.at i = feed.at i := by
  simp [holderLoad, at_tab hi]

/-- **lle_ignores_holder** — a whole `lle` call, for every equilibrium routine `eqm`, gives the same outlets
whatever the `multi_stream` holder held before the call -/
theorem lle_ignores_holder (n : Nat) (h h' : Vec × Vec) (feed : Vec) (eqm : Vec × Vec → Vec × Vec) (tc : Bool)
    (rho_l rho_L : Option Rat) (e : Rat) :
    lleFull n h feed eqm tc rho_l rho_L e = lleFull n h' feed eqm tc rho_l rho_L e := rfl

theorem vle_ignores_holder (n : Nat) (h h' : Vec × Vec) (feed : Vec) (eqm : Vec × Vec → Vec × Vec) :
    vleFull n h feed eqm = vleFull n h' feed eqm := rfl

theorem solveChecked_sound (A : List (List Rat)) (b x : List Rat) (h : solveChecked A b = some x) :
    matVec A x = b ∧ x.length = b.length := by
  unfold solveChecked at h
  split at h
  · split at h
    · rename_i hc
      simp only [Option.some.injEq] at h
      subst h
      exact hc
    · simp at h
  · simp at h

/-- scaling keeps the composition of each variable inlet: every flow of inlet `j` is multiplied by the same factor -/
theorem scaleInlets_at (n : Nat) (x : List Rat) (vin : List Vec) (j : Nat) (hjx : j < x.length) (hjv : j < vin.length)
    (i : Nat) (hi : i < n) :
    ((scaleInlets n x vin)[j]'(by simp [scaleInlets, hjx, hjv])).at i = vin[j].at i * x[j] := by
  simp [scaleInlets, at_tab hi]

theorem balIn_A_length (m : BalIn) : m.A.length = m.b.length := by simp [BalIn.A, BalIn.b]

theorem sumL_replicate_zero (k : Nat) : sumL (List.replicate k (0 : Rat)) = 0 := by
  induction k with
  | zero => simp
  | succ k ih => simp [List.replicate_succ, ih]

theorem sumL_map_mul_right {α} (l : List α) (g : α → Rat) (f : Rat) :
    sumL (l.map (fun a => g a * f)) = sumL (l.map g) * f := by
  induction l with
  | nil => simp
  | cons a t ih => simp [ih]; ring

theorem sum_dot_columns (n : Nat) (vin : List Vec) (x : List Rat) :
    sumL ((List.range n).map (fun i => dot (vin.map (·.at i)) x)) = dot (vin.map (rowSum n)) x := by
  induction vin generalizing x with
  | nil => simp [dot_nil_left, sumL_replicate_zero]
  | cons s t ih =>
    cases x with
    | nil => simp [dot_nil_right, sumL_replicate_zero]
    | cons f fs =>
      simp only [List.map_cons, dot_cons]
      rw [sumL_map_add, ih fs, sumL_map_mul_right]
      rfl

/-- `S x` is the total flow of the variable inlets scaled by `x` -/
theorem rowSum_scaleInlets (m : CompIn) (x : List Rat) :
    m.S x = sumL ((List.range m.n).map (fun i => sumL ((scaleInlets m.n x m.vin).map (·.at i)))) := by
  unfold CompIn.S CompIn.s
  rw [← sum_dot_columns]
  congr 1
  apply List.map_congr_left
  intro i hi
  exact (sumL_scaleInlets m.n i (List.mem_range.mp hi) x m.vin).symm

theorem shiftNeg_false (y : List Rat) (h : (shiftNeg y).2 = false) : (shiftNeg y).1 = y := by
  unfold shiftNeg at *
  by_cases hn : (y.filter (· < 0)).isEmpty = true
  · simp [hn]
  · simp [hn] at h

/-- when the loop stops, the returned factors are one solve step away from the last guess and within the tolerance -/
theorem loop_ok (m : CompIn) : ∀ (fuel : Nat) (xg : List Rat) (it : Nat) (x xp : List Rat) (sh : Bool) (it' : Nat),
    m.loop fuel xg it = .ok (x, xp, sh, it') → m.step xp = some (x, sh) ∧ relChange2 x xp ≤ m.tol
  | 0, _, _, _, _, _, _, h => by simp [CompIn.loop] at h
  | fuel + 1, xg, it, x, xp, sh, it', h => by
    unfold CompIn.loop at h
    cases hs : m.step xg with
    | none => simp [hs] at h
    | some r =>
      obtain ⟨xn, s⟩ := r
      simp only [hs] at h
      by_cases hc : relChange2 xn xg > m.tol
      · simp only [hc, if_true] at h
        exact loop_ok m fuel xn (it + 1) x xp sh it' h
      · simp only [hc, if_false, Except.ok.injEq, Prod.mk.injEq] at h
        obtain ⟨rfl, rfl, rfl, _⟩ := h
        exact ⟨hs, le_of_not_gt hc⟩

/-- one un-shifted step: for a chosen chemical, (scaled variable inlets + constant inlets) minus `f_c` times the
total inlet flow `S x_new + G` equals `f_c · (S x_prev − S x_new)`.  (`S x` is the total flow of the variable inlets
scaled by `x`, `rowSum_scaleInlets`.) -/
theorem composition_step_residual (m : CompIn) (xp xn : List Rat) (h : solveChecked m.A (m.rhs xp) = some xn)
    (c : Nat) (hc : c ∈ m.idx) (hcn : c < m.n) :
    sumL ((scaleInlets m.n xn m.vin).map (·.at c)) + m.g c - m.f c * (m.S xn + m.G) = m.f c * (m.S xp - m.S xn) := by
  obtain ⟨hAx, _⟩ := solveChecked_sound _ _ _ h
  unfold matVec CompIn.A CompIn.rhs at hAx
  rw [List.map_map] at hAx
  have := List.map_inj_left.mp hAx c hc
  simp only [Function.comp] at this
  rw [sumL_scaleInlets m.n c hcn, this]
  ring

/-- termwise identities behind the Rachford–Rice objective: with `d_i = 1 + φ (K_i − 1)`,
`Σ −z_i (K_i − 1)/d_i = Σ z_i/d_i − Σ z_i K_i/d_i` and `φ Σ z_i K_i/d_i + (1 − φ) Σ z_i/d_i = Σ z_i` -/
theorem rr_terms (phi : Rat) : ∀ (zs ks : List Rat), zs.length = ks.length → (∀ k ∈ ks, 1 + phi * (k - 1) ≠ 0) →
    sumL (List.zipWith (fun z k => -(z * (k - 1)) / (1 + phi * (k - 1))) zs ks) =
        sumL (List.zipWith (fun z k => z / (1 + phi * (k - 1))) zs ks) -
        sumL (List.zipWith (fun z k => z * k / (1 + phi * (k - 1))) zs ks) ∧
    phi * sumL (List.zipWith (fun z k => z * k / (1 + phi * (k - 1))) zs ks) +
        (1 - phi) * sumL (List.zipWith (fun z k => z / (1 + phi * (k - 1))) zs ks) = sumL zs
  | [], [], _, _ => by simp
  | [], _ :: _, h, _ => by simp at h
  | _ :: _, [], h, _ => by simp at h
  | z :: zt, k :: kt, h, hd => by
    obtain ⟨ih1, ih2⟩ := rr_terms phi zt kt (by simpa using h) (fun k' hk' => hd k' (by simp [hk']))
    have hd0 : 1 + phi * (k - 1) ≠ 0 := hd k (by simp)
    simp only [List.zipWith_cons_cons, sumL_cons]
    have e1 : -(z * (k - 1)) / (1 + phi * (k - 1)) = z / (1 + phi * (k - 1)) - z * k / (1 + phi * (k - 1)) := by
      field_simp; ring
    have e2 : phi * (z * k / (1 + phi * (k - 1))) + (1 - phi) * (z / (1 + phi * (k - 1))) = z := by
      field_simp; ring
    constructor
    · rw [e1, ih1]; ring
    · linarith

theorem bottoms_sum (phi F : Rat) (hF : F ≠ 0) (f feed : Nat → Rat) : ∀ (ids : List Nat) (K : List Rat),
    ids.length = K.length → (∀ k ∈ K, phi * k + (1 - phi) ≠ 0) →
    (∀ ik ∈ ids.zip K, f ik.1 = feed ik.1 * (1 - phi) / (phi * ik.2 + (1 - phi))) →
    sumL (ids.map f) = (1 - phi) * F *
      sumL (List.zipWith (fun z k => z / (1 + phi * (k - 1))) (ids.map (fun i => feed i / F)) K)
  | [], [], _, _, _ => by simp
  | [], _ :: _, h, _, _ => by simp at h
  | _ :: _, [], h, _, _ => by simp at h
  | i :: it, k :: kt, h, hd, hf => by
    have ih := bottoms_sum phi F hF f feed it kt (by simpa using h) (fun k' hk' => hd k' (by simp [hk']))
      (fun ik hik => hf ik (by simp [hik]))
    have h0 := hf (i, k) (by simp)
    have hd0 := hd k (by simp)
    have hd1 : 1 + phi * (k - 1) ≠ 0 := by
      have : 1 + phi * (k - 1) = phi * k + (1 - phi) := by ring
      rw [this]; exact hd0
    simp only [List.map_cons, List.zipWith_cons_cons, sumL_cons]
    rw [ih, h0]
    have : phi * k + (1 - phi) = 1 + phi * (k - 1) := by ring
    rw [this]
    field_simp

theorem reported_le_any (l : List (Rat × Bool × Bool)) (h : reported l = true) :
    l.any (fun e => e.2.1 || e.2.2) = true := by
  unfold reported at h
  rw [List.any_eq_true]
  rcases Bool.or_eq_true_iff.mp h with h' | h'
  · obtain ⟨e, he, hf⟩ := List.any_eq_true.mp h'
    exact ⟨e, List.mem_of_mem_drop he, by simp [hf]⟩
  · obtain ⟨e, he, hf⟩ := List.any_eq_true.mp h'
    exact ⟨e, List.mem_of_mem_drop he, by simp [hf]⟩

end ThermoVerif.Separations
