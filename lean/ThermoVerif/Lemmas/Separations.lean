import ThermoVerif.Model.Separations
import Mathlib.Tactic.Ring
import Mathlib.Tactic.Linarith
import Mathlib.Tactic.FieldSimp
import Mathlib.Algebra.Order.Field.Basic
/-
Helper lemmas for C20: `tab` / `Vec.at`, `sumL`, association-list lookups of the
`bottom.imol[IDs] = values` write, the clip of `handle_infeasible_flow_rates`.
-/
namespace ThermoVerif.Separations

/-! ### vectors -/

theorem at_tab {n : Nat} {f : Nat → Rat} {i : Nat} (h : i < n) : (tab n f).at i = f i := by
  simp [Vec.at, tab, List.getD, h]

theorem at_tab_ge {n : Nat} {f : Nat → Rat} {i : Nat} (h : n ≤ i) : (tab n f).at i = 0 := by
  simp [Vec.at, tab, List.getD, Nat.not_lt.mpr h]

theorem at_tab_eq (n : Nat) (f : Nat → Rat) (i : Nat) : (tab n f).at i = if i < n then f i else 0 := by
  by_cases h : i < n
  · simp [h, at_tab h]
  · simp [h, at_tab_ge (Nat.le_of_not_lt h)]

theorem at_nil (i : Nat) : Vec.at [] i = 0 := by simp [Vec.at]

/-! ### sums -/

@[simp] theorem sumL_nil : sumL [] = 0 := rfl
@[simp] theorem sumL_cons (x : Rat) (xs : List Rat) : sumL (x :: xs) = x + sumL xs := rfl

theorem sumL_append (a b : List Rat) : sumL (a ++ b) = sumL a + sumL b := by
  induction a with
  | nil => simp
  | cons x xs ih => simp [ih]; ring

theorem sumL_nonneg {l : List Rat} (h : ∀ x ∈ l, 0 ≤ x) : 0 ≤ sumL l := by
  induction l with
  | nil => simp
  | cons x xs ih =>
    have h1 := h x (by simp)
    have h2 := ih (fun y hy => h y (by simp [hy]))
    simp; linarith

theorem sumL_map_add {α} (l : List α) (f g : α → Rat) :
    sumL (l.map (fun a => f a + g a)) = sumL (l.map f) + sumL (l.map g) := by
  induction l with
  | nil => simp
  | cons x xs ih => simp [ih]; ring

theorem sumL_map_sub {α} (l : List α) (f g : α → Rat) :
    sumL (l.map (fun a => f a - g a)) = sumL (l.map f) - sumL (l.map g) := by
  induction l with
  | nil => simp
  | cons x xs ih => simp [ih]; ring

theorem sumL_map_le {α} (l : List α) (f g : α → Rat) (h : ∀ a ∈ l, f a ≤ g a) :
    sumL (l.map f) ≤ sumL (l.map g) := by
  induction l with
  | nil => simp
  | cons x xs ih =>
    have h1 := h x (by simp)
    have h2 := ih (fun y hy => h y (by simp [hy]))
    simp; linarith

/-- a sum over `0..n-1` with one entry replaced -/
theorem sumL_range_update (n k : Nat) (hk : k < n) (f : Nat → Rat) (a : Rat) :
    sumL ((List.range n).map (fun i => if i = k then a else f i)) =
      sumL ((List.range n).map f) - f k + a := by
  induction n with
  | zero => omega
  | succ m ih =>
    rw [List.range_succ, List.map_append, List.map_append, sumL_append, sumL_append]
    by_cases hkm : k < m
    · rw [ih hkm]
      have : m ≠ k := by omega
      simp [this]; ring
    · have hkm' : k = m := by omega
      subst hkm'
      have : sumL ((List.range k).map (fun i => if i = k then a else f i)) = sumL ((List.range k).map f) := by
        congr 1
        apply List.map_congr_left
        intro i hi
        have : i ≠ k := by
          have := List.mem_range.mp hi
          omega
        simp [this]
      rw [this]; simp

/-- one entry of a sum of non-negative terms is at most the sum -/
theorem le_sumL_range (n k : Nat) (hk : k < n) (f : Nat → Rat) (h : ∀ i, 0 ≤ f i) :
    f k ≤ sumL ((List.range n).map f) := by
  have h1 := sumL_range_update n k hk f 0
  have h2 : 0 ≤ sumL ((List.range n).map (fun i => if i = k then 0 else f i)) := by
    apply sumL_nonneg
    intro x hx
    obtain ⟨i, _, rfl⟩ := List.mem_map.mp hx
    by_cases hik : i = k <;> simp [hik, h i]
  linarith

/-! ### the clip of `handle_infeasible_flow_rates` -/

theorem clip1_range (b mx : Rat) (h : 0 ≤ mx) : 0 ≤ (clip1 b mx).1 ∧ (clip1 b mx).1 ≤ mx := by
  unfold clip1
  by_cases h1 : b < 0
  · by_cases h2 : (0 : Rat) > mx
    · exact absurd h (not_le.mpr h2)
    · simp [h1, h2, h]
  · by_cases h2 : b > mx
    · simp [h1, h2, h]
    · simp [h1, h2]; exact ⟨le_of_not_gt h1, le_of_not_gt h2⟩

theorem clip1_id (b mx : Rat) (h : ((clip1 b mx).2.1 || (clip1 b mx).2.2) = false) : (clip1 b mx).1 = b := by
  unfold clip1 at *
  by_cases h1 : b < 0
  · by_cases h2 : (0 : Rat) > mx <;> simp [h1, h2] at h
  · by_cases h2 : b > mx
    · simp [h1, h2] at h
    · simp [h1, h2]

/-! ### `bottom.imol[IDs] = values` as an association list -/

/-- what is found for `i` among the values written for `ids` was computed from `i` -/
theorem lookupId_map {ids : List Nat} {f : Nat → Rat} {i : Nat} {v : Rat}
    (h : lookupId ids (ids.map f) i = some v) : v = f i := by
  induction ids with
  | nil => simp [lookupId] at h
  | cons a t ih =>
    simp only [lookupId, List.map_cons, List.zip_cons_cons, List.lookup_cons] at h
    by_cases ha : i = a
    · subst ha; simp at h; exact h.symm
    · have : (i == a) = false := by simp [ha]
      rw [this] at h
      exact ih h

theorem lookupId_zipWith {β} {ids : List Nat} {K : List Rat} {g : Nat → Rat → β} {pr : β → Rat} {i : Nat} {v : Rat}
    (h : lookupId ids ((List.zipWith g ids K).map pr) i = some v) : ∃ k, (i, k) ∈ ids.zip K ∧ v = pr (g i k) := by
  induction ids generalizing K with
  | nil => simp [lookupId] at h
  | cons a t ih =>
    cases K with
    | nil => simp [lookupId] at h
    | cons k ks =>
      simp only [lookupId, List.zipWith_cons_cons, List.map_cons, List.zip_cons_cons, List.lookup_cons] at h
      by_cases ha : i = a
      · subst ha; simp at h; exact ⟨k, by simp, h.symm⟩
      · have : (i == a) = false := by simp [ha]
        rw [this] at h
        obtain ⟨k', hk', hv⟩ := ih h
        exact ⟨k', by simp [hk'], hv⟩

/-- with distinct `ids`, the value found for the chemical at a position is the value written there -/
theorem lookupId_zipWith_of_mem {β} {ids : List Nat} {K : List Rat} {g : Nat → Rat → β} {pr : β → Rat} {i : Nat} {k : Rat}
    (hnd : ids.Nodup) (hmem : (i, k) ∈ ids.zip K) :
    lookupId ids ((List.zipWith g ids K).map pr) i = some (pr (g i k)) := by
  induction ids generalizing K with
  | nil => simp at hmem
  | cons a t ih =>
    cases K with
    | nil => simp at hmem
    | cons k0 ks =>
      simp only [lookupId, List.zipWith_cons_cons, List.map_cons, List.zip_cons_cons, List.lookup_cons]
      simp only [List.zip_cons_cons, List.mem_cons, Prod.mk.injEq] at hmem
      rw [List.nodup_cons] at hnd
      by_cases ha : i = a
      · subst ha
        rcases hmem with ⟨_, rfl⟩ | hm
        · simp
        · exact absurd (List.of_mem_zip hm).1 hnd.1
      · have : (i == a) = false := by simp [ha]
        rw [this]
        rcases hmem with ⟨h1, _⟩ | hm
        · exact absurd h1 ha
        · exact ih hnd.2 hm

theorem lookupId_none_of_not_mem {ids : List Nat} {vals : List Rat} {i : Nat} (h : i ∉ ids) :
    lookupId ids vals i = none := by
  induction ids generalizing vals with
  | nil => simp [lookupId]
  | cons a t ih =>
    cases vals with
    | nil => simp [lookupId]
    | cons v vs =>
      simp only [List.mem_cons, not_or] at h
      simp only [lookupId, List.zip_cons_cons, List.lookup_cons]
      have : (i == a) = false := by simp [h.1]
      rw [this]
      exact ih h.2

theorem lookupId_map_of_mem {ids : List Nat} {f : Nat → Rat} {i : Nat} (h : i ∈ ids) :
    lookupId ids (ids.map f) i = some (f i) := by
  induction ids with
  | nil => simp at h
  | cons a t ih =>
    simp only [lookupId, List.map_cons, List.zip_cons_cons, List.lookup_cons]
    by_cases ha : i = a
    · subst ha; simp
    · have : (i == a) = false := by simp [ha]
      rw [this]
      simp only [List.mem_cons] at h
      rcases h with h | h
      · exact absurd h ha
      · exact ih h

/-! ### dot products and scaled inlets -/

theorem sumL_scaleInlets (n c : Nat) (hc : c < n) (x : List Rat) (vin : List Vec) :
    sumL ((scaleInlets n x vin).map (·.at c)) = dot (vin.map (·.at c)) x := by
  induction x generalizing vin with
  | nil => simp [scaleInlets, dot]
  | cons f fs ih =>
    cases vin with
    | nil => simp [scaleInlets, dot]
    | cons s ss =>
      have := ih ss
      simp only [scaleInlets, dot] at this ⊢
      simp only [List.zipWith_cons_cons, List.map_cons, sumL_cons, this, at_tab hc]

/-! ### Gaussian elimination: soundness and completeness -/

theorem dot_cons (a : Rat) (r : List Rat) (b : Rat) (x : List Rat) : dot (a :: r) (b :: x) = a * b + dot r x := by
  simp [dot]

theorem dot_nil_left (x : List Rat) : dot [] x = 0 := by simp [dot]

theorem dot_nil_right (r : List Rat) : dot r [] = 0 := by cases r <;> simp [dot]

theorem dot_replicate_zero (r : List Rat) (k : Nat) : dot r (List.replicate k 0) = 0 := by
  induction r generalizing k with
  | nil => simp [dot]
  | cons a t ih =>
    cases k with
    | zero => simp [dot]
    | succ k => rw [List.replicate_succ, dot_cons, ih]; ring

theorem list_eq_head_tail {l : List Rat} {k : Nat} (h : l.length = k + 1) : l = l.headD 0 :: l.tail := by
  cases l with
  | nil => simp at h
  | cons a t => simp

/-- the elimination step is linear -/
theorem dot_elim (f : Rat) (cs ps xs : List Rat) (h : cs.length = ps.length) :
    dot (List.zipWith (fun x y => x - f * y) cs ps) xs = dot cs xs - f * dot ps xs := by
  induction cs generalizing ps xs with
  | nil =>
    cases ps with
    | nil => simp [dot]
    | cons p pt => simp at h
  | cons c ct ih =>
    cases ps with
    | nil => simp at h
    | cons p pt =>
      cases xs with
      | nil => simp [dot_nil_right]
      | cons x xt =>
        simp only [List.zipWith_cons_cons, dot_cons]
        rw [ih pt xt (by simpa using h)]
        ring

theorem findPivot_none {M : List Row} (h : findPivot M = none) : ∀ r ∈ M, rowHead r = 0 := by
  induction M with
  | nil => simp
  | cons r rs ih =>
    unfold findPivot at h
    by_cases hr : rowHead r ≠ 0
    · simp [hr] at h
    · simp only [hr, if_false] at h
      cases hf : findPivot rs with
      | none =>
        intro r' hr'
        rcases List.mem_cons.mp hr' with rfl | h'
        · exact not_not.mp hr
        · exact ih hf r' h'
      | some po => simp [hf] at h

theorem findPivot_some {M : List Row} {p : Row} {others : List Row} (h : findPivot M = some (p, others)) :
    rowHead p ≠ 0 ∧ (∀ r, r ∈ M ↔ r = p ∨ r ∈ others) ∧ M.length = others.length + 1 := by
  induction M generalizing p others with
  | nil => simp [findPivot] at h
  | cons r rs ih =>
    unfold findPivot at h
    by_cases hr : rowHead r ≠ 0
    · rw [if_pos hr] at h
      simp only [Option.some.injEq, Prod.mk.injEq] at h
      obtain ⟨rfl, rfl⟩ := h
      exact ⟨hr, fun r' => by simp, by simp⟩
    · rw [if_neg hr] at h
      cases hf : findPivot rs with
      | none => simp [hf] at h
      | some po =>
        obtain ⟨p', o'⟩ := po
        simp only [hf, Option.some.injEq, Prod.mk.injEq] at h
        obtain ⟨rfl, rfl⟩ := h
        obtain ⟨h1, h2, h3⟩ := ih hf
        refine ⟨h1, fun r' => ?_, by simp [h3]⟩
        simp only [List.mem_cons, h2 r']
        tauto

theorem elimRow_length {k : Nat} {p r : Row} (hp : p.1.length = k + 1) (hr : r.1.length = k + 1) :
    (elimRow p r).1.length = k := by
  unfold elimRow
  simp only [List.length_zipWith, List.length_tail, hp, hr]
  omega

/-- **soundness** of the elimination: what it returns solves every equation -/
theorem solveRec_sound : ∀ (k : Nat) (M : List Row) (x : List Rat), (∀ r ∈ M, r.1.length = k) →
    solveRec k M = some x → x.length = k ∧ ∀ r ∈ M, dot r.1 x = r.2
  | 0, M, x, hwf, h => by
    unfold solveRec at h
    split at h
    · rename_i hall
      simp only [Option.some.injEq] at h
      subst h
      refine ⟨rfl, fun r hr => ?_⟩
      have h0 : r.1 = [] := List.length_eq_zero_iff.mp (hwf r hr)
      have h2 : r.2 = 0 := by
        have := List.all_eq_true.mp hall r hr
        simpa using this
      rw [h0, h2, dot_nil_left]
    · simp at h
  | k + 1, M, x, hwf, h => by
    unfold solveRec at h
    cases hp : findPivot M with
    | none => simp [hp] at h
    | some po =>
      obtain ⟨p, others⟩ := po
      simp only [hp] at h
      cases hs : solveRec k (others.map (elimRow p)) with
      | none => simp [hs] at h
      | some xs =>
        simp only [hs, Option.some.injEq] at h
        subst h
        obtain ⟨hp0, hmem, _⟩ := findPivot_some hp
        have hpM : p ∈ M := (hmem p).mpr (Or.inl rfl)
        have hpl := hwf p hpM
        have hwf' : ∀ r ∈ others.map (elimRow p), r.1.length = k := by
          intro r' hr'
          obtain ⟨r, hr, rfl⟩ := List.mem_map.mp hr'
          exact elimRow_length hpl (hwf r ((hmem r).mpr (Or.inr hr)))
        obtain ⟨hlen, hsat⟩ := solveRec_sound k _ xs hwf' hs
        refine ⟨by simp [hlen], fun r hr => ?_⟩
        have hrl := hwf r hr
        rw [list_eq_head_tail hrl, dot_cons]
        change rowHead r * _ + _ = _
        rcases (hmem r).mp hr with rfl | hro
        · field_simp
          ring
        · have e := hsat (elimRow p r) (List.mem_map.mpr ⟨r, hro, rfl⟩)
          simp only [elimRow] at e
          rw [dot_elim _ _ _ _ (by simp [hrl, hpl])] at e
          have e' : dot r.1.tail xs = r.2 - rowHead r / rowHead p * p.2 + rowHead r / rowHead p * dot p.1.tail xs := by
            linarith
          rw [e']
          field_simp
          ring

/-- **completeness** of the elimination with the first-non-zero pivot rule: a square system whose homogeneous part
has only the zero solution is solved.  (Invertibility guarantees a non-zero pivot in the current column among the
remaining rows, and the reduced system inherits the property.) -/
theorem solveRec_complete : ∀ (k : Nat) (M : List Row), (∀ r ∈ M, r.1.length = k) → M.length = k →
    (∀ y : List Rat, y.length = k → (∀ r ∈ M, dot r.1 y = 0) → y = List.replicate k 0) →
    ∃ x, solveRec k M = some x
  | 0, M, _, hlen, _ => by
    have : M = [] := List.length_eq_zero_iff.mp hlen
    subst this
    exact ⟨[], by simp [solveRec]⟩
  | k + 1, M, hwf, hlen, hinj => by
    cases hp : findPivot M with
    | none =>
      -- every leading coefficient is zero: (1, 0, …, 0) solves the homogeneous system
      exfalso
      have hz := findPivot_none hp
      have := hinj (1 :: List.replicate k 0) (by simp) (fun r hr => by
        rw [list_eq_head_tail (hwf r hr), dot_cons, dot_replicate_zero]
        change rowHead r * 1 + 0 = 0
        rw [hz r hr]; ring)
      rw [List.replicate_succ] at this
      have h10 : (1 : Rat) = 0 := (List.cons.inj this).1
      exact absurd h10 (by decide)
    | some po =>
      obtain ⟨p, others⟩ := po
      obtain ⟨hp0, hmem, hl⟩ := findPivot_some hp
      have hpM : p ∈ M := (hmem p).mpr (Or.inl rfl)
      have hpl := hwf p hpM
      have hwf' : ∀ r ∈ others.map (elimRow p), r.1.length = k := by
        intro r' hr'
        obtain ⟨r, hr, rfl⟩ := List.mem_map.mp hr'
        exact elimRow_length hpl (hwf r ((hmem r).mpr (Or.inr hr)))
      have hlen' : (others.map (elimRow p)).length = k := by
        simp only [List.length_map]; omega
      have hinj' : ∀ y : List Rat, y.length = k → (∀ r ∈ others.map (elimRow p), dot r.1 y = 0) →
          y = List.replicate k 0 := by
        intro y' hy' hall
        have hbig := hinj ((-(dot p.1.tail y') / rowHead p) :: y') (by simp [hy']) (fun r hr => by
          have hrl := hwf r hr
          rw [list_eq_head_tail hrl, dot_cons]
          change rowHead r * _ + _ = _
          rcases (hmem r).mp hr with rfl | hro
          · field_simp
            ring
          · have e := hall (elimRow p r) (List.mem_map.mpr ⟨r, hro, rfl⟩)
            simp only [elimRow] at e
            rw [dot_elim _ _ _ _ (by simp [hrl, hpl])] at e
            have e' : dot r.1.tail y' = rowHead r / rowHead p * dot p.1.tail y' := by linarith
            rw [e']
            field_simp
            ring)
        rw [List.replicate_succ] at hbig
        exact (List.cons.inj hbig).2
      obtain ⟨xs, hxs⟩ := solveRec_complete k _ hwf' hlen' hinj'
      exact ⟨(p.2 - dot p.1.tail xs) / rowHead p :: xs, by simp [solveRec, hp, hxs]⟩

theorem matVec_eq_of_rows {A : List (List Rat)} {b x : List Rat} (hl : A.length = b.length)
    (h : ∀ r ∈ A.zip b, dot r.1 x = r.2) : matVec A x = b := by
  induction A generalizing b with
  | nil =>
    cases b with
    | nil => simp [matVec]
    | cons _ _ => simp at hl
  | cons a t ih =>
    cases b with
    | nil => simp at hl
    | cons b0 bt =>
      have h0 := h (a, b0) (by simp)
      have ht := ih (b := bt) (by simpa using hl) (fun r hr => h r (by simp [hr]))
      simp only [matVec, List.map_cons] at ht ⊢
      rw [ht]
      simp only at h0
      rw [h0]

theorem exists_zip_of_mem {A : List (List Rat)} {b : List Rat} (hl : A.length = b.length) {a : List Rat} (ha : a ∈ A) :
    ∃ bi, (a, bi) ∈ A.zip b := by
  induction A generalizing b with
  | nil => simp at ha
  | cons a0 t ih =>
    cases b with
    | nil => simp at hl
    | cons b0 bt =>
      rcases List.mem_cons.mp ha with rfl | h'
      · exact ⟨b0, by simp⟩
      · obtain ⟨bi, hbi⟩ := ih (b := bt) (by simpa using hl) h'
        exact ⟨bi, by simp [hbi]⟩

/-- a left inverse makes the homogeneous system trivial -/
theorem inj_of_leftInverse {A B : List (List Rat)} {b : List Rat} {k : Nat} (hl : A.length = b.length)
    (hinv : ∀ y : List Rat, y.length = k → matVec B (matVec A y) = y) :
    ∀ y : List Rat, y.length = k → (∀ r ∈ A.zip b, dot r.1 y = 0) → y = List.replicate k 0 := by
  intro y hy h
  have hA : matVec A y = List.replicate A.length 0 := by
    rw [List.eq_replicate_iff]
    refine ⟨by simp [matVec], fun e he => ?_⟩
    obtain ⟨a, ha, rfl⟩ := List.mem_map.mp he
    obtain ⟨bi, hbi⟩ := exists_zip_of_mem hl ha
    exact h (a, bi) hbi
  have hy' := hinv y hy
  rw [hA] at hy'
  rw [List.eq_replicate_iff]
  refine ⟨hy, fun e he => ?_⟩
  rw [← hy'] at he
  obtain ⟨r, _, rfl⟩ := List.mem_map.mp he
  exact dot_replicate_zero r _

/-- **the solver is total on left-invertible square systems**, and its answer solves the system -/
theorem gaussJordan_total {A B : List (List Rat)} {b : List Rat} (hl : A.length = b.length)
    (hrows : ∀ a ∈ A, a.length = b.length)
    (hinv : ∀ y : List Rat, y.length = b.length → matVec B (matVec A y) = y) :
    ∃ x, gaussJordan b.length A b = some x ∧ matVec A x = b ∧ x.length = b.length := by
  have hwf : ∀ r ∈ A.zip b, r.1.length = b.length := fun r hr => hrows r.1 (List.of_mem_zip hr).1
  have hlen : (A.zip b).length = b.length := by simp [hl]
  obtain ⟨x, hx⟩ := solveRec_complete b.length (A.zip b) hwf hlen (inj_of_leftInverse hl hinv)
  obtain ⟨hxl, hsat⟩ := solveRec_sound _ _ x hwf hx
  exact ⟨x, hx, matVec_eq_of_rows hl hsat, hxl⟩

theorem solveChecked_total {A B : List (List Rat)} {b : List Rat} (hl : A.length = b.length)
    (hrows : ∀ a ∈ A, a.length = b.length)
    (hinv : ∀ y : List Rat, y.length = b.length → matVec B (matVec A y) = y) :
    ∃ x, solveChecked A b = some x := by
  obtain ⟨x, hx, hAx, hxl⟩ := gaussJordan_total hl hrows hinv
  exact ⟨x, by simp [solveChecked, hx, hAx, hxl]⟩

end ThermoVerif.Separations
