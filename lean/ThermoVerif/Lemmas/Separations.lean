import ThermoVerif.Model.Separations
import Mathlib.Tactic.Ring
import Mathlib.Tactic.Linarith
import Mathlib.Tactic.FieldSimp
import Mathlib.Algebra.Order.Field.Basic
/-
Helper lemmas for C20: `tab` / `Vec.at`, `sumL`, association-list lookups of the
`bottom.imol[IDs] = values` write, the clip of `handle_infeasible_flow_rates`.
-/
namespace ThermoVerif.Separations

/-! ### vectors -/

theorem at_tab {n : Nat} {f : Nat → Rat} {i : Nat} (h : i < n) : (tab n f).at i = f i := by
  simp [Vec.at, tab, List.getD, h]

theorem at_tab_ge {n : Nat} {f : Nat → Rat} {i : Nat} (h : n ≤ i) : (tab n f).at i = 0 := by
  simp [Vec.at, tab, List.getD, Nat.not_lt.mpr h]

theorem at_tab_eq (n : Nat) (f : Nat → Rat) (i : Nat) : (tab n f).at i = if i < n then f i else 0 := by
  by_cases h : i < n
  · simp [h, at_tab h]
  · simp [h, at_tab_ge (Nat.le_of_not_lt h)]

theorem at_nil (i : Nat) : Vec.at [] i = 0 := by simp [Vec.at]

/-! ### sums -/

@[simp] theorem sumL_nil : sumL [] = 0 := rfl
@[simp] theorem sumL_cons (x : Rat) (xs : List Rat) : sumL (x :: xs) = x + sumL xs := rfl

theorem sumL_append (a b : List Rat) : sumL (a ++ b) = sumL a + sumL b := by
  induction a with
  | nil => simp
  | cons x xs ih => simp [ih]; ring

theorem sumL_nonneg {l : List Rat} (h : ∀ x ∈ l, 0 ≤ x) : 0 ≤ sumL l := by
  induction l with
  | nil => simp
  | cons x xs ih =>
    have h1 := h x (by simp)
    have h2 := ih (fun y hy => h y (by simp [hy]))
    simp; linarith

theorem sumL_map_add {α} (l : List α) (f g : α → Rat) :
    sumL (l.map (fun a => f a + g a)) = sumL (l.map f) + sumL (l.map g) := by
  induction l with
  | nil => simp
  | cons x xs ih => simp [ih]; ring

theorem sumL_map_sub {α} (l : List α) (f g : α → Rat) :
    sumL (l.map (fun a => f a - g a)) = sumL (l.map f) - sumL (l.map g) := by
  induction l with
  | nil => simp
  | cons x xs ih => simp [ih]; ring

theorem sumL_map_le {α} (l : List α) (f g : α → Rat) (h : ∀ a ∈ l, f a ≤ g a) :
    sumL (l.map f) ≤ sumL (l.map g) := by
  induction l with
  | nil => simp
  | cons x xs ih =>
    have h1 := h x (by simp)
    have h2 := ih (fun y hy => h y (by simp [hy]))
    simp; linarith

/-- a sum over `0..n-1` with one entry replaced -/
theorem sumL_range_update (n k : Nat) (hk : k < n) (f : Nat → Rat) (a : Rat) :
    sumL ((List.range n).map (fun i => if i = k then a else f i)) =
      sumL ((List.range n).map f) - f k + a := by
  induction n with
  | zero => omega
  | succ m ih =>
    rw [List.range_succ, List.map_append, List.map_append, sumL_append, sumL_append]
    by_cases hkm : k < m
    · rw [ih hkm]
      have : m ≠ k := by omega
      simp [this]; ring
    · have hkm' : k = m := by omega
      subst hkm'
      have : sumL ((List.range k).map (fun i => if i = k then a else f i)) = sumL ((List.range k).map f) := by
        congr 1
        apply List.map_congr_left
        intro i hi
        have : i ≠ k := by
          have := List.mem_range.mp hi
          omega
        simp [this]
      rw [this]; simp

/-- one entry of a sum of non-negative terms is at most the sum -/
theorem le_sumL_range (n k : Nat) (hk : k < n) (f : Nat → Rat) (h : ∀ i, 0 ≤ f i) :
    f k ≤ sumL ((List.range n).map f) := by
  have h1 := sumL_range_update n k hk f 0
  have h2 : 0 ≤ sumL ((List.range n).map (fun i => if i = k then 0 else f i)) := by
    apply sumL_nonneg
    intro x hx
    obtain ⟨i, _, rfl⟩ := List.mem_map.mp hx
    by_cases hik : i = k <;> simp [hik, h i]
  linarith

/-! ### the clip of `handle_infeasible_flow_rates` -/

theorem clip1_range (b mx : Rat) (h : 0 ≤ mx) : 0 ≤ (clip1 b mx).1 ∧ (clip1 b mx).1 ≤ mx := by
  unfold clip1
  by_cases h1 : b < 0
  · by_cases h2 : (0 : Rat) > mx
    · exact absurd h (not_le.mpr h2)
    · simp [h1, h2, h]
  · by_cases h2 : b > mx
    · simp [h1, h2, h]
    · simp [h1, h2]; exact ⟨le_of_not_gt h1, le_of_not_gt h2⟩

theorem clip1_id (b mx : Rat) (h : ((clip1 b mx).2.1 || (clip1 b mx).2.2) = false) : (clip1 b mx).1 = b := by
  unfold clip1 at *
  by_cases h1 : b < 0
  · by_cases h2 : (0 : Rat) > mx <;> simp [h1, h2] at h
  · by_cases h2 : b > mx
    · simp [h1, h2] at h
    · simp [h1, h2]

/-! ### `bottom.imol[IDs] = values` as an association list -/

/-- what is found for `i` among the values written for `ids` was computed from `i` -/
theorem lookupId_map {ids : List Nat} {f : Nat → Rat} {i : Nat} {v : Rat}
    (h : lookupId ids (ids.map f) i = some v) : v = f i := by
  induction ids with
  | nil => simp [lookupId] at h
  | cons a t ih =>
    simp only [lookupId, List.map_cons, List.zip_cons_cons, List.lookup_cons] at h
    by_cases ha : i = a
    · subst ha; simp at h; exact h.symm
    · have : (i == a) = false := by simp [ha]
      rw [this] at h
      exact ih h

theorem lookupId_zipWith {β} {ids : List Nat} {K : List Rat} {g : Nat → Rat → β} {pr : β → Rat} {i : Nat} {v : Rat}
    (h : lookupId ids ((List.zipWith g ids K).map pr) i = some v) : ∃ k, (i, k) ∈ ids.zip K ∧ v = pr (g i k) := by
  induction ids generalizing K with
  | nil => simp [lookupId] at h
  | cons a t ih =>
    cases K with
    | nil => simp [lookupId] at h
    | cons k ks =>
      simp only [lookupId, List.zipWith_cons_cons, List.map_cons, List.zip_cons_cons, List.lookup_cons] at h
      by_cases ha : i = a
      · subst ha; simp at h; exact ⟨k, by simp, h.symm⟩
      · have : (i == a) = false := by simp [ha]
        rw [this] at h
        obtain ⟨k', hk', hv⟩ := ih h
        exact ⟨k', by simp [hk'], hv⟩

/-- with distinct `ids`, the value found for the chemical at a position is the value written there -/
theorem lookupId_zipWith_of_mem {β} {ids : List Nat} {K : List Rat} {g : Nat → Rat → β} {pr : β → Rat} {i : Nat} {k : Rat}
    (hnd : ids.Nodup) (hmem : (i, k) ∈ ids.zip K) :
    lookupId ids ((List.zipWith g ids K).map pr) i = some (pr (g i k)) := by
  induction ids generalizing K with
  | nil => simp at hmem
  | cons a t ih =>
    cases K with
    | nil => simp at hmem
    | cons k0 ks =>
      simp only [lookupId, List.zipWith_cons_cons, List.map_cons, List.zip_cons_cons, List.lookup_cons]
      simp only [List.zip_cons_cons, List.mem_cons, Prod.mk.injEq] at hmem
      rw [List.nodup_cons] at hnd
      by_cases ha : i = a
      · subst ha
        rcases hmem with ⟨_, rfl⟩ | hm
        · simp
        · exact absurd (List.of_mem_zip hm).1 hnd.1
      · have : (i == a) = false := by simp [ha]
        rw [this]
        rcases hmem with ⟨h1, _⟩ | hm
        · exact absurd h1 ha
        · exact ih hnd.2 hm

theorem lookupId_none_of_not_mem {ids : List Nat} {vals : List Rat} {i : Nat} (h : i ∉ ids) :
    lookupId ids vals i = none := by
  induction ids generalizing vals with
  | nil => simp [lookupId]
  | cons a t ih =>
    cases vals with
    | nil => simp [lookupId]
    | cons v vs =>
      simp only [List.mem_cons, not_or] at h
      simp only [lookupId, List.zip_cons_cons, List.lookup_cons]
      have : (i == a) = false := by simp [h.1]
      rw [this]
      exact ih h.2

theorem lookupId_map_of_mem {ids : List Nat} {f : Nat → Rat} {i : Nat} (h : i ∈ ids) :
    lookupId ids (ids.map f) i = some (f i) := by
  induction ids with
  | nil => simp at h
  | cons a t ih =>
    simp only [lookupId, List.map_cons, List.zip_cons_cons, List.lookup_cons]
    by_cases ha : i = a
    · subst ha; simp
    · have : (i == a) = false := by simp [ha]
      rw [this]
      simp only [List.mem_cons] at h
      rcases h with h | h
      · exact absurd h ha
      · exact ih h

/-! ### dot products and scaled inlets -/

theorem sumL_scaleInlets (n c : Nat) (hc : c < n) (x : List Rat) (vin : List Vec) :
    sumL ((scaleInlets n x vin).map (·.at c)) = dot (vin.map (·.at c)) x := by
  induction x generalizing vin with
  | nil => simp [scaleInlets, dot]
  | cons f fs ih =>
    cases vin with
    | nil => simp [scaleInlets, dot]
    | cons s ss =>
      have := ih ss
      simp only [scaleInlets, dot] at this ⊢
      simp only [List.zipWith_cons_cons, List.map_cons, sumL_cons, this, at_tab hc]

end ThermoVerif.Separations
