import ThermoVerif.Lemmas.IndexCache
/-
World-level invariant ("every memoised pair is correct") and the simulation of the
memoising world by the memo-free specification, one step at a time.
-/
namespace ThermoVerif.IndexCache
open ThermoVerif.Chemicals ThermoVerif.Indexer

/-- Every pair stored in any memo dictionary is what un-memoised resolution gives. -/
structure Inv (w : World) : Prop where
  chem : ∀ s, s ∈ w.chems → CacheOK s.chem s.cache
  mat : ∀ e, e ∈ w.mcaches → ∀ s, w.chems[e.1.1]? = some s → MCacheOK s.chem e.1.2 e.2
  bound : ∀ e, e ∈ w.mcaches → e.1.1 < w.chems.length

theorem inv_init : Inv {} where
  chem := by intro s h; cases h
  mat := by intro e h; cases h
  bound := by intro e h; cases h

theorem map_set_same {α β : Type} (f : α → β) : ∀ (l : List α) (i : Nat) (a a' : α),
    l[i]? = some a → f a' = f a → (l.set i a').map f = l.map f
  | [], _, _, _, h, _ => by simp at h
  | x :: t, 0, a, a', h, hf => by simp at h; subst h; simp [hf]
  | x :: t, i + 1, a, a', h, hf => by
    simp at h
    simp [map_set_same f t i a a' h hf]

theorem obs_chems_get (w : World) (c : Nat) :
    w.obs.chems[c]? = (w.chems[c]?).map fun s => (s.chem, s.cas) := by
  simp [World.obs]

/-- Replacing a chemicals state by one with the same tables and a correct memo. -/
theorem inv_setChem {w : World} (h : Inv w) {c : Nat} {s s' : CState} (hs : w.chems[c]? = some s)
    (hc : s'.chem = s.chem) (hk : CacheOK s.chem s'.cache) :
    Inv { w with chems := w.chems.set c s' } := by
  refine ⟨?_, ?_, ?_⟩
  · intro x hx
    rcases List.mem_or_eq_of_mem_set hx with hx | hx
    · exact h.chem x hx
    · subst hx; rw [hc]; exact hk
  · intro e he x hx
    simp only [List.getElem?_set] at hx
    split at hx
    · rename_i heq
      split at hx
      · cases hx
        rw [hc]
        exact h.mat e he s (heq ▸ hs)
      · cases hx
    · exact h.mat e he x hx
  · intro e he
    simp only [List.length_set]
    exact h.bound e he

theorem obs_setChem (w : World) {c : Nat} {s s' : CState} (hs : w.chems[c]? = some s)
    (hc : s'.chem = s.chem) (ha : s'.cas = s.cas) :
    ({ w with chems := w.chems.set c s' } : World).obs = w.obs := by
  simp only [World.obs]
  rw [map_set_same (fun s => (s.chem, s.cas)) w.chems c s s' hs (by simp [hc, ha])]

theorem inv_insertM {w : World} (h : Inv w) {c : Nat} {s : CState} (hs : w.chems[c]? = some s)
    {ps : List Char} {mc : MCache} (hm : MCacheOK s.chem ps mc) :
    Inv { w with mcaches := ainsert (c, ps) mc w.mcaches } := by
  refine ⟨h.chem, ?_, ?_⟩
  · intro e he x hx
    rcases mem_ainsert he with he | he
    · subst he
      simp only at hx ⊢
      rw [hs] at hx; cases hx
      exact hm
    · exact h.mat e he x hx
  · intro e he
    rcases mem_ainsert he with he | he
    · subst he
      simp only
      have := List.getElem?_eq_some_iff.mp hs
      exact this.1
    · exact h.bound e he

theorem mcacheOf_ok {w : World} (h : Inv w) (ix : Indexer) {s : CState}
    (hs : w.chems[ix.chem]? = some s) :
    ∀ ps, ix.phases = some ps → MCacheOK s.chem ps (w.mcacheOf ix) := by
  intro ps hp
  unfold World.mcacheOf
  rw [hp]
  simp only
  cases hl : alookup (ix.chem, ps) w.mcaches with
  | none => exact mcacheOK_nil _ _
  | some mc => exact h.mat _ (alookup_mem hl) s hs

theorem inv_putCaches {w : World} (h : Inv w) (ix : Indexer) {s s' : CState} {mc' : MCache}
    (hs : w.chems[ix.chem]? = some s) (hc : s'.chem = s.chem) (hk : CacheOK s.chem s'.cache)
    (hm : ∀ ps, ix.phases = some ps → MCacheOK s.chem ps mc') :
    Inv (w.putCaches ix s' mc') := by
  unfold World.putCaches
  cases hp : ix.phases with
  | none => exact inv_setChem h hs hc hk
  | some ps =>
    simp only
    have h1 := inv_setChem h hs hc hk
    have hs' : ({ w with chems := w.chems.set ix.chem s' } : World).chems[ix.chem]? = some s' := by
      simp only [List.getElem?_set]
      have := (List.getElem?_eq_some_iff.mp hs).1
      simp [this]
    have := inv_insertM h1 hs' (ps := ps) (mc := mc') (by rw [hc]; exact hm ps hp)
    exact this

theorem obs_putCaches (w : World) (ix : Indexer) {s s' : CState} (mc' : MCache)
    (hs : w.chems[ix.chem]? = some s) (hc : s'.chem = s.chem) (ha : s'.cas = s.cas) :
    (w.putCaches ix s' mc').obs = w.obs := by
  have := obs_setChem w hs hc ha
  simp only [World.obs, World.putCaches] at this ⊢
  exact this

theorem inv_setData {w : World} (h : Inv w) (i : Nat) (ix : Indexer) (d : List Row) :
    Inv (w.setData i ix d) := ⟨h.chem, h.mat, h.bound⟩

theorem obs_setData (w : World) (i : Nat) (ix : Indexer) (d : List Row) :
    (w.setData i ix d).obs = w.obs.setData i ix d := rfl

/-- Installing changed tables: correct when the memos are emptied, or when nothing changed. -/
theorem inv_redefine {w : World} (h : Inv w) {c : Nat} {s : CState} (hs : w.chems[c]? = some s)
    (chem' : Chem) (drop : Bool) (hd : drop = false → chem' = s.chem) :
    Inv (w.redefine c { s with chem := chem' } drop) := by
  cases drop with
  | false =>
    have := hd rfl
    subst this
    simp only [World.redefine, Bool.false_eq_true, ↓reduceIte]
    exact inv_setChem h hs rfl (h.chem s (List.mem_of_getElem? hs))
  | true =>
    simp only [World.redefine, ↓reduceIte]
    refine ⟨?_, ?_, ?_⟩
    · intro x hx
      rcases List.mem_or_eq_of_mem_set hx with hx | hx
      · exact h.chem x hx
      · subst hx; exact cacheOK_nil _
    · intro e he x hx
      simp only [List.mem_map] at he
      obtain ⟨e0, he0, rfl⟩ := he
      by_cases hc : e0.1.1 = c
      · simp only [hc, if_true]; exact mcacheOK_nil _ _
      · simp only [hc, if_false] at hx ⊢
        simp only [List.getElem?_set] at hx
        split at hx
        · rename_i heq; exact absurd heq.symm hc
        · exact h.mat e0 he0 x hx
    · intro e he
      simp only [List.mem_map] at he
      obtain ⟨e0, he0, rfl⟩ := he
      simp only [List.length_set]
      have := h.bound e0 he0
      split <;> simpa using this

theorem obs_redefine (w : World) {c : Nat} {s : CState} (_hs : w.chems[c]? = some s)
    (chem' : Chem) (drop : Bool) :
    (w.redefine c { s with chem := chem' } drop).obs =
      { w.obs with chems := w.obs.chems.set c (chem', s.cas) } := by
  simp only [World.redefine, World.obs, List.map_set]
  cases drop <;> rfl

end ThermoVerif.IndexCache
